import PMV.Lemmas.IndexOneArr
/-
  C09 — index tuples with SEVERAL array entries of one common array shape `B` (the case of
  Pair / Vector index objects, whose components share a shape, and of equal-shaped index arrays),
  mixed freely with basic entries: agreement of `_prep_index`'s loop, NumPy's resolution and the
  specification, with the post-mask accumulated over all entries.
-/
namespace PMV.Index
open PMV PMV.NpIndex

/-- the array shape an entry contributes -/
def Entry.arrShape : Entry → Option Shape
  | .iarr v _ => some v.shape
  | .barr v m => some [(boolSel v m).length]
  | _ => Option.none

/-- basic, or an array entry of array shape `B` -/
def Entry.okB (B : Shape) (e : Entry) : Bool :=
  e.isBasic || (e.arrShape == some B)

/-- NumPy's atoms simulate the specification's on the common array shape `B` -/
def SimS (ats : List Atom) (sats : List SAtom) (B : Shape) : Prop :=
  plainLens ats = SAtom.lens sats ∧
  bcastAll (advShapes ats) = bcastAll (SAtom.arrShapes sats) ∧
  (∀ s ∈ SAtom.arrShapes sats, s = B) ∧ allOk ats = true ∧
  axesBefore ats = SAtom.axesBeforeAdv sats ∧
  ∀ po ac, Valid B ac → SAtom.flag sats ac = false → walk ats po ac = SAtom.walk sats po ac

/-- agreement on a suffix of the index, for an incoming post-mask that represents the flags `F0` of
    the entries already processed; `Q` = extra facts about the resolved atoms -/
def AgreeG (w : Nat) (es : List Entry) (rest : Shape) (post : PostMask) (B : Shape) (F0 : Index → Bool)
    (Q : List Atom → List SAtom → Prop) : Prop :=
  PostRep post B F0 →
  (prog w rest es post = none → specAtoms w rest es = none) ∧
  (∀ pre post' shs, prog w rest es post = some (pre, post', shs) →
    (specAtoms w rest es = none → atoms rest w pre = none) ∧
    (∀ sats, specAtoms w rest es = some sats →
      shs = SAtom.arrShapes sats ∧ PostRep post' B (fun i => F0 i || SAtom.flag sats i) ∧
        ∃ ats, atoms rest w pre = some ats ∧ SimS ats sats B ∧ Q ats sats))

theorem agreeG_mono (w : Nat) (es : List Entry) (rest : Shape) (post : PostMask) (B : Shape)
    (F0 : Index → Bool) (Q Q' : List Atom → List SAtom → Prop) (hq : ∀ a s, Q a s → Q' a s)
    (h : AgreeG w es rest post B F0 Q) : AgreeG w es rest post B F0 Q' := by
  intro hp
  obtain ⟨h1, h2⟩ := h hp
  refine ⟨h1, fun pre post' shs hpr => ?_⟩
  obtain ⟨a, b⟩ := h2 pre post' shs hpr
  refine ⟨a, fun sats hs => ?_⟩
  obtain ⟨c, d, ats, e, f, g⟩ := b sats hs
  exact ⟨c, d, ats, e, f, hq _ _ g⟩

theorem agreeG_nil (w : Nat) (rest : Shape) (post : PostMask) (B : Shape) (F0 : Index → Bool) :
    AgreeG w [] rest post B F0 (fun _ _ => True) := by
  intro hp
  refine ⟨fun h => by simp [prog] at h, ?_⟩
  intro pre post' shs h
  simp only [prog, Option.some.injEq, Prod.mk.injEq] at h
  obtain ⟨rfl, rfl, rfl⟩ := h
  cases rest with
  | nil =>
    refine ⟨fun h => by simp [specAtoms] at h, ?_⟩
    intro sats hs
    simp only [specAtoms, Option.some.injEq] at hs
    subst hs
    refine ⟨rfl, postRep_congr _ _ _ _ (fun i _ => by simp [SAtom.flag]) hp, [], by simp [atoms], ?_, trivial⟩
    exact ⟨rfl, rfl, by simp [SAtom.arrShapes], rfl, rfl, fun _ _ _ _ => rfl⟩
  | cons n sh =>
    exact ⟨fun _ => by simp [atoms], fun sats hs => by simp [specAtoms] at hs⟩

theorem arrShapes_append : ∀ (a b : List SAtom),
    SAtom.arrShapes (a ++ b) = SAtom.arrShapes a ++ SAtom.arrShapes b := by
  intro a
  induction a with
  | nil => intro b; rfl
  | cons x r ih => intro b; cases x <;> simp [SAtom.arrShapes, ih]

/-- one entry: if the three readings step alike — the loop emits `p` and updates the post-mask to
    `post1`, the specification emits the atoms `sa`, NumPy the atoms `A` — agreement propagates -/
theorem agreeG_step (w : Nat) (es : List Entry) (rest rest' : Shape) (post : PostMask) (B : Shape)
    (F0 fl : Index → Bool) (e : Entry) (p : NEntry) (u : PostUpd) (so : Option Shape)
    (sa : List SAtom) (A : List Atom) (Q : List Atom → List SAtom → Prop)
    (hpe : prepEntry rest 0 e = some (p, u, so))
    (hso : so.toList = SAtom.arrShapes sa)
    (hu : PostRep post B F0 → ∃ post1, u.apply post = some post1 ∧ PostRep post1 B (fun i => F0 i || fl i))
    (hdrop : rest.drop (e.padv w) = rest')
    (hspec : specAtoms w rest (e :: es) = (specAtoms w rest' es).map (sa ++ ·))
    (hat1 : ∀ ps, atoms rest w (p :: ps) = (atoms rest' w ps).map (A ++ ·))
    (hsim : ∀ ats sats, SimS ats sats B → SimS (A ++ ats) (sa ++ sats) B)
    (hflag : ∀ x ac, Valid B ac → SAtom.flag (sa ++ x) ac = (fl ac || SAtom.flag x ac))
    (ih : ∀ post1, AgreeG w es rest' post1 B (fun i => F0 i || fl i) Q) :
    AgreeG w (e :: es) rest post B F0 (fun _ _ => True) := by
  intro hp
  obtain ⟨post1, hu1, hu2⟩ := hu hp
  obtain ⟨ih1, ih2⟩ := ih post1 hu2
  have hprog : prog w rest (e :: es) post =
      match prog w rest' es post1 with
      | none => none
      | some (ps, post'', ss) => some (p :: ps, post'', so.toList ++ ss) := by
    simp only [prog, hpe, hu1, hdrop]
    cases prog w rest' es post1 with
    | none => rfl
    | some x => obtain ⟨ps, po, ss⟩ := x; simp
  constructor
  · intro h
    rw [hprog] at h
    cases hpr : prog w rest' es post1 with
    | none => rw [hspec, ih1 hpr]; rfl
    | some x => obtain ⟨ps, po, ss⟩ := x; simp [hpr] at h
  · intro pre post' shs h
    rw [hprog] at h
    cases hpr : prog w rest' es post1 with
    | none => simp [hpr] at h
    | some x =>
      obtain ⟨ps, po, ss⟩ := x
      simp only [hpr, Option.some.injEq, Prod.mk.injEq] at h
      obtain ⟨rfl, rfl, rfl⟩ := h
      obtain ⟨j2, j3⟩ := ih2 ps po ss hpr
      refine ⟨?_, ?_⟩
      · intro hn
        rw [hspec] at hn
        have : specAtoms w rest' es = none := by
          cases hs : specAtoms w rest' es with
          | none => rfl
          | some _ => simp [hs] at hn
        rw [hat1, j2 this]; rfl
      · intro sats hs
        rw [hspec] at hs
        cases hs' : specAtoms w rest' es with
        | none => simp [hs'] at hs
        | some sats' =>
          simp only [hs', Option.map_some, Option.some.injEq] at hs
          subst hs
          obtain ⟨k0, k1, ats, k3, k4, _⟩ := j3 sats' hs'
          refine ⟨?_, ?_, A ++ ats, by rw [hat1, k3]; rfl, hsim ats sats' k4, trivial⟩
          · rw [hso, k0, arrShapes_append]
          · refine postRep_congr po B _ _ ?_ k1
            intro i hi
            rw [hflag _ _ hi, Bool.or_assoc]

/-! #### how one atom extends the simulation -/

theorem simS_plain (a : SAtom) (ha : a.isPlainA = true) (B : Shape) (ats : List Atom) (sats : List SAtom)
    (h : SimS ats sats B) : SimS ([a.toAtom] ++ ats) ([a] ++ sats) B := by
  obtain ⟨h1, h2, h3, h4, h5, h6⟩ := h
  cases a with
  | axis l fl =>
    refine ⟨by simp [SAtom.toAtom, plainLens, SAtom.lens, h1], by simpa [SAtom.toAtom, advShapes, SAtom.arrShapes] using h2,
      by simpa [SAtom.arrShapes] using h3, by simpa [SAtom.toAtom, allOk] using h4,
      by simp [SAtom.toAtom, axesBefore, SAtom.axesBeforeAdv, h5], ?_⟩
    intro po ac hac hfl
    simp only [List.singleton_append, SAtom.flag, Bool.or_eq_false_iff] at hfl
    simp [SAtom.toAtom, walk, SAtom.walk, h6 po.tail ac hac hfl.2]
  | new =>
    refine ⟨by simp [SAtom.toAtom, plainLens, SAtom.lens, h1], by simpa [SAtom.toAtom, advShapes, SAtom.arrShapes] using h2,
      by simpa [SAtom.arrShapes] using h3, by simpa [SAtom.toAtom, allOk] using h4,
      by simp [SAtom.toAtom, axesBefore, SAtom.axesBeforeAdv, h5], ?_⟩
    intro po ac hac hfl
    simp only [List.singleton_append, SAtom.flag] at hfl
    simp [SAtom.toAtom, walk, SAtom.walk, h6 po.tail ac hac hfl]
  | fix n k => simp [SAtom.isPlainA] at ha
  | arr sh' f fl => simp [SAtom.isPlainA] at ha

theorem simS_plains : ∀ (sa : List SAtom), sa.all SAtom.isPlainA = true → ∀ (B : Shape) (ats : List Atom)
    (sats : List SAtom), SimS ats sats B → SimS (sa.map SAtom.toAtom ++ ats) (sa ++ sats) B := by
  intro sa
  induction sa with
  | nil => intro _ B ats sats h; exact h
  | cons a r ih =>
    intro hp B ats sats h
    simp only [List.all_cons, Bool.and_eq_true] at hp
    exact simS_plain a hp.1 B _ _ (ih hp.2 B ats sats h)

theorem bcastAll_nil_cons (X : List Shape) : bcastAll ([] :: X) = bcastAll X := by
  simp only [bcastAll]
  cases bcastAll X with
  | none => rfl
  | some t => simp [bcast, bcastRev]

theorem simS_fix (n : Nat) (k : Option Nat) (B : Shape) (ats : List Atom) (sats : List SAtom)
    (h : SimS ats sats B) :
    SimS ([Atom.adv [] (fun _ => [k.getD 0]) true] ++ ats) ([SAtom.fix n k] ++ sats) B := by
  obtain ⟨h1, h2, h3, h4, _, h6⟩ := h
  refine ⟨by simp [plainLens, SAtom.lens, h1], ?_, by simpa [SAtom.arrShapes] using h3, by simpa [allOk] using h4, rfl, ?_⟩
  · simp only [List.singleton_append, advShapes, SAtom.arrShapes, bcastAll_nil_cons, h2]
  · intro po ac hac hfl
    simp only [List.singleton_append, SAtom.flag, Bool.or_eq_false_iff] at hfl
    simp [walk, SAtom.walk, h6 po ac hac hfl.2]

theorem simS_arr (B : Shape) (f f' : Index → List Nat) (fl : Index → Bool)
    (hf : ∀ i, Valid B i → fl i = false → f i = f' i) (ats : List Atom) (sats : List SAtom)
    (h : SimS ats sats B) :
    SimS ([Atom.adv B f true] ++ ats) ([SAtom.arr B f' fl] ++ sats) B := by
  obtain ⟨h1, h2, h3, h4, _, h6⟩ := h
  refine ⟨by simp [plainLens, SAtom.lens, h1], ?_, ?_, by simpa [allOk] using h4, rfl, ?_⟩
  · simp only [List.singleton_append, advShapes, SAtom.arrShapes, bcastAll, h2]
  · intro s hs
    simp only [List.singleton_append, SAtom.arrShapes, List.mem_cons] at hs
    rcases hs with rfl | hs
    · rfl
    · exact h3 s hs
  · intro po ac hac hfl
    simp only [List.singleton_append, SAtom.flag, Bool.or_eq_false_iff, bidx_self hac] at hfl
    simp only [List.singleton_append, walk, SAtom.walk, bidx_self hac, hf ac hac hfl.1, h6 po ac hac hfl.2]

/-! #### how one entry updates the post-mask -/

theorem postRep_keep (post : PostMask) (B : Shape) (F0 : Index → Bool) (hp : PostRep post B F0) :
    ∃ post1, PostUpd.keep.apply post = some post1 ∧ PostRep post1 B (fun i => F0 i || false) :=
  ⟨post, rfl, postRep_congr _ _ _ _ (fun i _ => by simp) hp⟩

theorem postRep_setTrue (post : PostMask) (B : Shape) (F0 : Index → Bool) :
    ∃ post1, PostUpd.setTrue.apply post = some post1 ∧ PostRep post1 B (fun i => F0 i || true) :=
  ⟨.all true, rfl, fun i _ => by simp⟩

theorem postRep_orArr (post : PostMask) (B : Shape) (F0 : Index → Bool) (a : Arr Bool) (ha : a.shape = B)
    (hp : PostRep post B F0) :
    ∃ post1, (PostUpd.orArr a).apply post = some post1 ∧ PostRep post1 B (fun i => F0 i || a.get i) := by
  cases post with
  | all c =>
    refine ⟨.arr (a.map (c || ·)), rfl, ha, fun i hi => ?_⟩
    simp [Arr.map, hp i hi]
  | arr p =>
    obtain ⟨hps, hpg⟩ := hp
    have hb : bcast p.shape a.shape = some B := by rw [hps, ha]; exact bcast_self B
    refine ⟨.arr ⟨B, fun i => p.get (bidx p.shape i) || a.get (bidx a.shape i)⟩, ?_, rfl, fun i hi => ?_⟩
    · simp [PostUpd.apply, PostMask.orArr, Arr.map2, hb]
    · simp only [hps, ha, bidx_self hi, hpg i hi]

theorem agreeG_reject (w : Nat) (es : List Entry) (rest : Shape) (post : PostMask) (B : Shape)
    (F0 : Index → Bool) (e : Entry) (hpe : prepEntry rest 0 e = none)
    (hspec : specAtoms w rest (e :: es) = none) : AgreeG w (e :: es) rest post B F0 (fun _ _ => True) := by
  intro _
  refine ⟨fun _ => hspec, ?_⟩
  intro pre post' shs h
  simp [prog, hpe] at h

theorem agreeG_dead (w : Nat) (es : List Entry) (rest : Shape) (post : PostMask) (B : Shape)
    (F0 : Index → Bool) (e : Entry) (p : NEntry) (u : PostUpd) (so : Option Shape)
    (hpe : prepEntry rest 0 e = some (p, u, so)) (hspec : specAtoms w rest (e :: es) = none)
    (hat : ∀ ps, atoms rest w (p :: ps) = none) : AgreeG w (e :: es) rest post B F0 (fun _ _ => True) := by
  intro _
  refine ⟨fun _ => hspec, ?_⟩
  intro pre post' shs h
  simp only [prog, hpe] at h
  cases hu : u.apply post with
  | none => simp [hu] at h
  | some po =>
    simp only [hu] at h
    cases hp : prog w (rest.drop (e.padv w)) es po with
    | none => simp [hp] at h
    | some x =>
      obtain ⟨ps, po', ss⟩ := x
      simp only [hp, Option.some.injEq, Prod.mk.injEq] at h
      obtain ⟨rfl, _, _⟩ := h
      exact ⟨fun _ => hat ps, fun sats hs => by rw [hspec] at hs; simp at hs⟩

/-- **all entries agree**: any mixture of basic entries and array entries of array shape `B`
    (integer or boolean arrays, masked / out-of-range elements, every mask representation), on
    any remaining shape without empty axes, for any incoming post-mask -/
theorem agreeG_list (w : Nat) (B : Shape) : ∀ (es : List Entry), es.all (Entry.okB B) = true →
    ∀ (rest : Shape), (∀ n ∈ rest, 0 < n) → ∀ (post : PostMask) (F0 : Index → Bool),
    AgreeG w es rest post B F0 (fun _ _ => True) := by
  intro es
  induction es with
  | nil => intro _ rest _ post F0; exact agreeG_nil w rest post B F0
  | cons e es ih =>
    intro hb rest hpos post F0
    simp only [List.all_cons, Bool.and_eq_true] at hb
    obtain ⟨hbe, hbs⟩ := hb
    have noflag : ∀ (sa : List SAtom), (∀ x ac, SAtom.flag (sa ++ x) ac = SAtom.flag x ac) →
        ∀ x ac, Valid B ac → SAtom.flag (sa ++ x) ac = ((fun _ => false) ac || SAtom.flag x ac) := by
      intro sa h x ac _; simp [h x ac]
    have hsoN : ∀ (sa : List SAtom), sa.all SAtom.isPlainA = true ∨ (∃ n k, sa = [SAtom.fix n k]) →
        (none : Option Shape).toList = SAtom.arrShapes sa := by
      intro sa h
      rcases h with h | ⟨n, k, rfl⟩
      · induction sa with
        | nil => rfl
        | cons a r ih =>
          simp only [List.all_cons, Bool.and_eq_true] at h
          cases a <;> simp_all [SAtom.isPlainA, SAtom.arrShapes]
      · rfl
    have hax : ∀ (L : List Nat), (L.map fun n => SAtom.axis (List.range n) false).all SAtom.isPlainA = true := by
      intro L
      rw [List.all_eq_true]
      intro a ha
      obtain ⟨n, _, rfl⟩ := List.mem_map.mp ha
      rfl
    cases e with
    | none =>
      exact agreeG_step w es rest rest post B F0 (fun _ => false) .none .newaxis .keep none [SAtom.new]
        [Atom.newaxis] _ (by simp [prepEntry]) (hsoN _ (by first | exact Or.inl rfl | exact Or.inl (hax _) | exact Or.inr ⟨_, _, rfl⟩)) (fun hp => postRep_keep post B F0 hp)
        (by simp [Entry.padv, Entry.isEll, Entry.advance]) (by rw [specAtoms_none]; rfl)
        (fun ps => by rw [atoms_newaxis]; rfl) (fun ats sats h => simS_plain .new rfl B ats sats h)
        (noflag _ (fun x ac => by simp [SAtom.flag])) (fun post1 => ih hbs rest hpos post1 _)
    | ell =>
      exact agreeG_step w es rest (rest.drop w) post B F0 (fun _ => false) .ell .ell .keep none
        ((rest.take w).map fun n => SAtom.axis (List.range n) false)
        (((rest.take w).map fun n => SAtom.axis (List.range n) false).map SAtom.toAtom) _
        (by simp [prepEntry]) (hsoN _ (by first | exact Or.inl rfl | exact Or.inl (hax _) | exact Or.inr ⟨_, _, rfl⟩)) (fun hp => postRep_keep post B F0 hp)
        (by simp [Entry.padv, Entry.isEll]) (by rw [specAtoms_ell])
        (fun ps => by rw [atoms_ell]; simp [List.map_map, Function.comp_def, SAtom.toAtom])
        (fun ats sats h => simS_plains _ (hax (rest.take w)) B ats sats h)
        (noflag _ (fun x ac => flag_axes_append _ x ac))
        (fun post1 => ih hbs _ (fun n hn => hpos n (List.mem_of_mem_drop hn)) post1 _)
    | slice full l =>
      cases rest with
      | nil => exact agreeG_reject w es [] post B F0 _ (by simp [prepEntry]) (specAtoms_nil_cons w _ es (by simp) (by simp) (by simp))
      | cons n sh =>
        by_cases hl : l.all (· < n) = true
        · exact agreeG_step w es (n :: sh) sh post B F0 (fun _ => false) (.slice full l) (.coords l) .keep none
            [SAtom.axis l false] [Atom.plain l] _ (by simp [prepEntry]) (hsoN _ (by first | exact Or.inl rfl | exact Or.inl (hax _) | exact Or.inr ⟨_, _, rfl⟩))
            (fun hp => postRep_keep post B F0 hp) (by simp [Entry.padv, Entry.isEll, Entry.advance])
            (by rw [specAtoms_cons_cons w n sh _ es (by simp) (by simp) (by simp)]; simp [specEntry, hl])
            (fun ps => by simp [atoms, hl]) (fun ats sats h => simS_plain (.axis l false) rfl B ats sats h)
            (noflag _ (fun x ac => by simp [SAtom.flag]))
            (fun post1 => ih hbs sh (fun k hk => hpos k (by simp [hk])) post1 _)
        · exact agreeG_dead w es (n :: sh) post B F0 (.slice full l) (.coords l) .keep none (by simp [prepEntry])
            (by rw [specAtoms_cons_cons w n sh _ es (by simp) (by simp) (by simp)]; simp [specEntry, hl])
            (fun ps => by simp [atoms, hl])
    | bool v m =>
      cases rest with
      | nil => exact agreeG_reject w es [] post B F0 _ (by simp [prepEntry]) (specAtoms_nil_cons w _ es (by simp) (by simp) (by simp))
      | cons n sh =>
        have hsp := specAtoms_cons_cons w n sh (.bool v m) es (by simp) (by simp) (by simp)
        have ih' := fun post1 F => ih hbs sh (fun k hk => hpos k (by simp [hk])) post1 F
        cases m with
        | true =>
          exact agreeG_step w es (n :: sh) sh post B F0 (fun _ => true) (.bool v true)
            (.coords (List.range (min 1 n))) .setTrue none [SAtom.axis (List.range (min 1 n)) true]
            [Atom.plain (List.range (min 1 n))] _ (by simp [prepEntry, prepBool]) (hsoN _ (by first | exact Or.inl rfl | exact Or.inl (hax _) | exact Or.inr ⟨_, _, rfl⟩))
            (fun _ => postRep_setTrue post B F0) (by simp [Entry.padv, Entry.isEll, Entry.advance])
            (by rw [hsp]; simp [specEntry]) (fun ps => by simp [atoms, range_min_all_lt])
            (fun ats sats h => simS_plain (.axis _ true) rfl B ats sats h)
            (fun x ac _ => by simp [SAtom.flag]) (fun post1 => ih' post1 _)
        | false =>
          cases v with
          | true =>
            exact agreeG_step w es (n :: sh) sh post B F0 (fun _ => false) (.bool true false)
              (.coords (List.range n)) .keep none [SAtom.axis (List.range n) false] [Atom.plain (List.range n)] _
              (by simp [prepEntry, prepBool]) (hsoN _ (by first | exact Or.inl rfl | exact Or.inl (hax _) | exact Or.inr ⟨_, _, rfl⟩)) (fun hp => postRep_keep post B F0 hp)
              (by simp [Entry.padv, Entry.isEll, Entry.advance])
              (by rw [hsp]; simp [specEntry]) (fun ps => by simp [atoms, range_all_lt])
              (fun ats sats h => simS_plain (.axis _ false) rfl B ats sats h)
              (noflag _ (fun x ac => by simp [SAtom.flag])) (fun post1 => ih' post1 _)
          | false =>
            exact agreeG_step w es (n :: sh) sh post B F0 (fun _ => false) (.bool false false)
              (.coords []) .keep none [SAtom.axis [] false] [Atom.plain []] _
              (by simp [prepEntry, prepBool]) (hsoN _ (by first | exact Or.inl rfl | exact Or.inl (hax _) | exact Or.inr ⟨_, _, rfl⟩)) (fun hp => postRep_keep post B F0 hp)
              (by simp [Entry.padv, Entry.isEll, Entry.advance])
              (by rw [hsp]; simp [specEntry]) (fun ps => by simp [atoms])
              (fun ats sats h => simS_plain (.axis _ false) rfl B ats sats h)
              (noflag _ (fun x ac => by simp [SAtom.flag])) (fun post1 => ih' post1 _)
    | int k m =>
      cases rest with
      | nil => exact agreeG_reject w es [] post B F0 _ (by simp [prepEntry]) (specAtoms_nil_cons w _ es (by simp) (by simp) (by simp))
      | cons n sh =>
        have hn : 0 < n := hpos n (by simp)
        have hsp := specAtoms_cons_cons w n sh (.int k m) es (by simp) (by simp) (by simp)
        have ih' := fun post1 F => ih hbs sh (fun k hk => hpos k (by simp [hk])) post1 F
        obtain ⟨h1, h2⟩ := int_entry_exact n k m
        cases hf : intFlag n k m with
        | false =>
          obtain ⟨j, hj, hnj⟩ := h1 hf
          have hm : m = false ∧ (normIdx n k).isNone = false := by simpa [intFlag] using hf
          obtain ⟨jj, hjj⟩ : ∃ jj, normIdx n k = some jj := by
            cases hq : normIdx n k with
            | none => simp [hq] at hm
            | some jj => exact ⟨jj, rfl⟩
          exact agreeG_step w es (n :: sh) sh post B F0 (fun _ => false) (.int k m) (.int j) .keep none
            [SAtom.fix n (some jj)] [Atom.adv [] (fun _ => [(some jj).getD 0]) true] _
            (by simp [prepEntry, hj]) (hsoN _ (by first | exact Or.inl rfl | exact Or.inl (hax _) | exact Or.inr ⟨_, _, rfl⟩)) (fun hp => postRep_keep post B F0 hp)
            (by simp [Entry.padv, Entry.isEll, Entry.advance])
            (by rw [hsp]; simp [specEntry, hm.1, hjj]) (fun ps => by simp [atoms, hnj, hjj])
            (fun ats sats h => simS_fix n (some jj) B ats sats h)
            (noflag _ (fun x ac => by simp [SAtom.flag])) (fun post1 => ih' post1 _)
        | true =>
          have hj := h2 hf
          have hk : (if m = true then none else normIdx n k) = none := by
            cases m with
            | true => rfl
            | false =>
              have : (normIdx n k).isNone = true := by simpa [intFlag] using hf
              simpa using this
          have h0 : normIdx n 0 = some 0 := by simp [normIdx, hn]
          exact agreeG_step w es (n :: sh) sh post B F0 (fun _ => true) (.int k m) (.int 0) .setTrue none
            [SAtom.fix n none] [Atom.adv [] (fun _ => [(none : Option Nat).getD 0]) true] _
            (by simp [prepEntry, hj]) (hsoN _ (by first | exact Or.inl rfl | exact Or.inl (hax _) | exact Or.inr ⟨_, _, rfl⟩)) (fun _ => postRep_setTrue post B F0)
            (by simp [Entry.padv, Entry.isEll, Entry.advance])
            (by rw [hsp]; simp [specEntry, hk]) (fun ps => by simp [atoms, h0])
            (fun ats sats h => simS_fix n none B ats sats h)
            (fun x ac _ => by simp [SAtom.flag]) (fun post1 => ih' post1 _)
    | iarr v m =>
      have hB : v.shape = B := by simpa [Entry.okB, Entry.isBasic, Entry.arrShape] using hbe
      subst hB
      cases rest with
      | nil => exact agreeG_reject w es [] post v.shape F0 _ (by simp [prepEntry]) (specAtoms_nil_cons w _ es (by simp) (by simp) (by simp))
      | cons n sh =>
        have hn : 0 < n := hpos n (by simp)
        have hvalid : ∀ i, Valid v.shape i → i ∈ indices v.shape := fun i hi => (mem_indices _ _).2 hi
        have hok : (indices v.shape).all (fun i => (normIdx n ((prepIntArrVals n v (prepIntArrMask n v m)
            (if (indices v.shape).any (oobAt n v) = true then true else (prepIntArrMask n v m).any v.shape)) i)).isSome) = true := by
          rw [List.all_eq_true]; intro i _; exact prepIntArrVals_safe n v _ _ i hn
        refine agreeG_step w es (n :: sh) sh post v.shape F0 (iarrFlag n v m) (.iarr v m)
          (.arr ⟨v.shape, prepIntArrVals n v (prepIntArrMask n v m)
            (if (indices v.shape).any (oobAt n v) = true then true else (prepIntArrMask n v m).any v.shape)⟩)
          (prepIntArrUpd v (prepIntArrMask n v m)) (some v.shape)
          [SAtom.arr v.shape (fun i => [(normIdx n (v.get i)).getD 0]) (iarrFlag n v m)]
          [Atom.adv v.shape (fun i => [(normIdx n ((prepIntArrVals n v (prepIntArrMask n v m)
            (if (indices v.shape).any (oobAt n v) = true then true else (prepIntArrMask n v m).any v.shape)) i)).getD 0]) true] _
          rfl rfl ?_ (by simp [Entry.padv, Entry.isEll, Entry.advance])
          (by rw [specAtoms_cons_cons w n sh _ es (by simp) (by simp) (by simp)]
              simp only [specEntry, Option.bind_some]; rfl)
          (fun ps => by simp only [atoms, hok]; rfl) ?_ ?_
          (fun post1 => ih hbs sh (fun k hk => hpos k (by simp [hk])) post1 _)
        · -- post-mask
          intro hp
          have hbit := fun i hi => prepIntArrMask_bit n v m i (hvalid i hi)
          unfold prepIntArrUpd
          cases hm : prepIntArrMask n v m with
          | all c =>
            rw [hm] at hbit
            cases c with
            | true =>
              obtain ⟨p1, a1, a2⟩ := postRep_setTrue post v.shape F0
              exact ⟨p1, a1, postRep_congr _ _ _ _ (fun i hi => by simp [← hbit i hi, Mask.bit]) a2⟩
            | false =>
              obtain ⟨p1, a1, a2⟩ := postRep_keep post v.shape F0 hp
              exact ⟨p1, a1, postRep_congr _ _ _ _ (fun i hi => by simp [← hbit i hi, Mask.bit]) a2⟩
          | arr a =>
            rw [hm] at hbit
            obtain ⟨p1, a1, a2⟩ := postRep_orArr post v.shape F0 ⟨v.shape, a.get⟩ rfl hp
            exact ⟨p1, a1, postRep_congr _ _ _ _ (fun i hi => by simp [← hbit i hi, Mask.bit]) a2⟩
        · -- atoms
          intro ats sats h
          refine simS_arr v.shape _ _ (iarrFlag n v m) ?_ ats sats h
          intro i hi hfl
          have hb := prepIntArrMask_bit n v m i (hvalid i hi)
          rw [hfl] at hb
          have h2 : (normIdx n (v.get i)).isNone = false := by
            unfold iarrFlag at hfl; simp at hfl; simp [hfl.2]
          simp only [prepIntArrVals, hb, Bool.and_false, Bool.false_eq_true, if_false]
          rw [normIdx_emod n _ h2]
        · intro x ac hac
          simp [SAtom.flag, bidx_self hac]
    | barr v m =>
      have hB : [(boolSel v m).length] = B := by simpa [Entry.okB, Entry.isBasic, Entry.arrShape] using hbe
      by_cases hs : rest.take v.shape.length = v.shape ∧ rest ≠ []
      · obtain ⟨hs1, hs2⟩ := hs
        obtain ⟨n, sh, rfl⟩ : ∃ n sh, rest = n :: sh := by
          cases rest with
          | nil => exact absurd rfl hs2
          | cons n sh => exact ⟨n, sh, rfl⟩
        refine agreeG_step w es (n :: sh) ((n :: sh).drop v.shape.length) post B F0
          (fun i => m.bit ((boolSel v m).getD (i.headD 0) [])) (.barr v m)
          (.barr ⟨v.shape, fun i => v.get i || m.bit i⟩)
          (match m with
            | .arr a => .orArr ⟨[(boolSel v m).length], fun i => a.get ((boolSel v m).getD (i.headD 0) [])⟩
            | .all true => .setTrue
            | .all false => .keep)
          (some [(boolSel v m).length])
          [SAtom.arr B (fun i => (boolSel v m).getD (i.headD 0) []) (fun i => m.bit ((boolSel v m).getD (i.headD 0) []))]
          [Atom.adv B (fun i => (boolSel v m).getD (i.headD 0) []) true] _
          ?_ (by simp [SAtom.arrShapes, hB]) ?_ (by simp [Entry.padv, Entry.isEll, Entry.advance])
          (by simp only [specAtoms, hs1, true_and, hB]; simp)
          (fun ps => by simp only [atoms, hs1, if_true, ← hB]; rfl)
          (fun ats sats h => simS_arr B _ _ _ (fun _ _ _ => rfl) ats sats h)
          (fun x ac hac => by simp [SAtom.flag, bidx_self hac])
          (fun post1 => ih hbs _ (fun k hk => hpos k (List.mem_of_mem_drop hk)) post1 _)
        · simp only [prepEntry, List.getElem?_cons_zero, prepBoolArr, List.drop_zero, hs1, if_true, Option.map_some]
          cases m with
          | all c => cases c <;> rfl
          | arr a => rfl
        · intro hp
          cases m with
          | all c =>
            cases c with
            | true =>
              obtain ⟨p1, a1, a2⟩ := postRep_setTrue post B F0
              exact ⟨p1, a1, postRep_congr _ _ _ _ (fun i _ => by simp [Mask.bit]) a2⟩
            | false =>
              obtain ⟨p1, a1, a2⟩ := postRep_keep post B F0 hp
              exact ⟨p1, a1, postRep_congr _ _ _ _ (fun i _ => by simp [Mask.bit]) a2⟩
          | arr a =>
            obtain ⟨p1, a1, a2⟩ := postRep_orArr post B F0
              ⟨[(boolSel v (.arr a)).length], fun i => a.get ((boolSel v (.arr a)).getD (i.headD 0) [])⟩ (by simpa using hB) hp
            exact ⟨p1, a1, postRep_congr _ _ _ _ (fun i _ => by simp [Mask.bit]) a2⟩
      · refine agreeG_reject w es rest post B F0 _ ?_ ?_
        · cases rest with
          | nil => simp [prepEntry]
          | cons n sh =>
            have : ¬ ((n :: sh).take v.shape.length = v.shape) := fun h => hs ⟨h, by simp⟩
            simp [prepEntry, prepBoolArr, this]
        · cases rest with
          | nil => simp [specAtoms]
          | cons n sh =>
            have : ¬ ((n :: sh).take v.shape.length = v.shape) := fun h => hs ⟨h, by simp⟩
            simp [specAtoms, this]
    | _ => simp [Entry.okB, Entry.isBasic, Entry.arrShape] at hbe

/-! #### placement on the specification's side, for the first advanced atom -/

theorem axesBeforeAdv_axes_append (L : List Nat) (x : List SAtom) :
    SAtom.axesBeforeAdv (L.map (fun n => SAtom.axis (List.range n) false) ++ x) = L.length + SAtom.axesBeforeAdv x := by
  induction L with
  | nil => simp
  | cons n L ih => simp only [List.map_cons, List.cons_append, SAtom.axesBeforeAdv, ih, List.length_cons]; omega

/-- the specification puts the array axes after the axes of the plain prefix -/
theorem specAtoms_axesBeforeAdv (w : Nat) (e : Entry) (suf : List Entry) (he : e.isArrE = true) :
    ∀ (pfx : List Entry), pfx.all Entry.isPlain = true → ∀ (rest : Shape) (sats : List SAtom),
    EllFits w rest.length (pfx ++ e :: suf) → specAtoms w rest (pfx ++ e :: suf) = some sats →
    SAtom.axesBeforeAdv sats = pfxAxes w pfx := by
  intro pfx
  induction pfx with
  | nil =>
    intro _ rest sats _ h
    simp only [List.nil_append] at h
    cases e with
    | iarr v m =>
      cases rest with
      | nil => simp [specAtoms] at h
      | cons n sh =>
        rw [specAtoms_cons_cons w n sh _ suf (by simp) (by simp) (by simp)] at h
        cases hs : specAtoms w sh suf with
        | none => simp [specEntry, hs] at h
        | some x =>
          simp only [specEntry, hs, Option.bind_some, Option.map_some, Option.some.injEq] at h
          subst h; rfl
    | barr v m =>
      simp only [specAtoms] at h
      split at h
      · cases hs : specAtoms w (rest.drop v.shape.length) suf with
        | none => simp [hs] at h
        | some x => simp only [hs, Option.map_some, Option.some.injEq] at h; subst h; rfl
      · simp at h
    | _ => simp [Entry.isArrE] at he
  | cons x pfx ih =>
    intro hp rest sats hfit h
    simp only [List.all_cons, Bool.and_eq_true] at hp
    obtain ⟨hpx, hps⟩ := hp
    simp only [List.cons_append] at h hfit
    obtain ⟨hf1, hf2⟩ := hfit
    cases x with
    | none =>
      rw [specAtoms_none] at h
      cases hs : specAtoms w rest (pfx ++ e :: suf) with
      | none => simp [hs] at h
      | some y =>
        simp only [hs, Option.map_some, Option.some.injEq] at h; subst h
        have := ih hps rest y (by simpa [Entry.padv, Entry.isEll, Entry.advance] using hf2) hs
        simp [SAtom.axesBeforeAdv, pfxAxes, Entry.isEll, this]
    | ell =>
      rw [specAtoms_ell] at h
      cases hs : specAtoms w (rest.drop w) (pfx ++ e :: suf) with
      | none => simp [hs] at h
      | some y =>
        simp only [hs, Option.map_some, Option.some.injEq] at h; subst h
        have hw : w ≤ rest.length := hf1 rfl
        have := ih hps (rest.drop w) y (by simpa [Entry.padv, Entry.isEll, List.length_drop] using hf2) hs
        rw [axesBeforeAdv_axes_append, this]
        simp [pfxAxes, Entry.isEll, List.length_take, Nat.min_eq_left hw]
    | slice full l =>
      cases rest with
      | nil => simp [specAtoms] at h
      | cons n sh =>
        rw [specAtoms_cons_cons w n sh _ _ (by simp) (by simp) (by simp)] at h
        cases hs : specAtoms w sh (pfx ++ e :: suf) with
        | none => cases hq : specEntry n (.slice full l) <;> simp [hq, hs] at h
        | some y =>
          simp only [specEntry] at h
          split at h
          · simp only [hs, Option.bind_some, Option.map_some, Option.some.injEq] at h; subst h
            have := ih hps sh y (by simpa [Entry.padv, Entry.isEll, Entry.advance] using hf2) hs
            simp [SAtom.axesBeforeAdv, pfxAxes, Entry.isEll, Entry.advance, this]
          · simp at h
    | bool v m =>
      cases rest with
      | nil => simp [specAtoms] at h
      | cons n sh =>
        rw [specAtoms_cons_cons w n sh _ _ (by simp) (by simp) (by simp)] at h
        cases hs : specAtoms w sh (pfx ++ e :: suf) with
        | none => simp [specEntry, hs] at h
        | some y =>
          simp only [specEntry, hs, Option.bind_some, Option.map_some, Option.some.injEq] at h; subst h
          have := ih hps sh y (by simpa [Entry.padv, Entry.isEll, Entry.advance] using hf2) hs
          cases m <;> cases v <;> simp [SAtom.axesBeforeAdv, pfxAxes, Entry.isEll, Entry.advance, this]
    | _ => simp [Entry.isPlain] at hpx


/-! #### blocks of advanced entries -/


theorem dropWhile_falses (a : Nat) (l : List Bool) :
    (List.replicate a false ++ l).dropWhile (!·) = l.dropWhile (!·) := by
  induction a with
  | zero => simp
  | succ k ih => simp [List.replicate_succ, List.dropWhile_cons, ih]

theorem dropWhile_falses' (a : Nat) : (List.replicate a false).dropWhile (!·) = [] := by
  have := dropWhile_falses a []
  simpa using this

theorem dropWhile_trues (n : Nat) (l : List Bool) (hn : 0 < n) :
    (List.replicate n true ++ l).dropWhile (!·) = List.replicate n true ++ l := by
  cases n with
  | zero => omega
  | succ k => simp [List.replicate_succ, List.dropWhile_cons]

/-- a block of advanced entries is not "separated" -/
theorem separated_block (a n c : Nat) :
    separated (List.replicate a false ++ List.replicate n true ++ List.replicate c false) = false := by
  unfold separated
  rw [List.append_assoc, dropWhile_falses]
  cases n with
  | zero => simp [dropWhile_falses']
  | succ k =>
    rw [dropWhile_trues (k + 1) _ (by omega)]
    simp only [List.reverse_append, List.reverse_replicate]
    rw [dropWhile_falses]
    have := dropWhile_trues (k + 1) [] (by omega)
    simp only [List.append_nil] at this
    rw [this]
    simp

theorem take_block (a n k : Nat) (X : List Bool) (hk : k ≤ n) :
    ((List.replicate a false ++ List.replicate n true ++ X).take (a + k)).drop a = List.replicate k true := by
  rw [List.append_assoc, List.take_append]
  simp only [List.length_replicate, List.take_replicate]
  have h1 : min (a + k) a = a := by omega
  have h2 : a + k - a = k := by omega
  rw [h1, h2, List.take_append]
  simp only [List.length_replicate, List.take_replicate]
  have h3 : min k n = k := by omega
  have h4 : k - n = 0 := by omega
  rw [h3, h4]
  simp [List.drop_append]

/-- `locate` (indexer.py, repaired) for a prepared index whose advanced entries form one block
    `[a, a+n)` that starts with the first array entry and contains the last one (at `a + k`) -/
theorem locate_block (pre : List NEntry) (ellK : Option Nat) (w a n c j k : Nat)
    (hadv : pre.map NEntry.isAdv = List.replicate a false ++ List.replicate n true ++ List.replicate c false)
    (h1 : pre.findIdx? NEntry.isArr = some a) (h2 : pre.reverse.findIdx? NEntry.isArr = some j)
    (hk : pre.length - 1 - j = a + k) (hkn : k ≤ n) :
    locate pre ellK w = (((pre.take a).filter NEntry.isNC).length + ellCorr ellK a w, false) := by
  have hdrop : ((pre.map NEntry.isAdv).take (a + k)).drop a = List.replicate k true := by
    rw [hadv]; exact take_block a n k _ hkn
  have hsep : separated (pre.map NEntry.isAdv) = false := by rw [hadv]; exact separated_block a n c
  unfold locate
  simp only [h1, h2, Option.getD_some, hk, hdrop, hsep]
  have hfl : ∀ (f : NEntry → Bool), (∀ x, f x = NEntry.isNC x) →
      ((pre.take a).filter f).length = ((pre.take a).filter NEntry.isNC).length := by
    intro f hf
    have : f = NEntry.isNC := funext hf
    rw [this]
  rw [hfl _ (fun x => by cases x <;> rfl)]
  have hall : (List.replicate k true).all id = true := by simp
  simp only [hall, Bool.not_true, Bool.and_false]
  cases ellK with
  | none => simp [ellCorr]
  | some kk => by_cases hkk : kk < a <;> simp [ellCorr, hkk]

theorem findIdx_skip : ∀ (l0 rest : List Entry), (∀ x ∈ l0, x.isArrE = false) →
    (l0 ++ rest).findIdx? Entry.isArrE = (rest.findIdx? Entry.isArrE).map (· + l0.length) := by
  intro l0
  induction l0 with
  | nil => intro rest _; simp
  | cons x r ih =>
    intro rest h
    have hx : x.isArrE = false := h x (by simp)
    simp only [List.cons_append, List.findIdx?_cons, hx, ih rest (fun y hy => h y (by simp [hy])),
      List.length_cons]
    cases rest.findIdx? Entry.isArrE with
    | none => rfl
    | some i => simp; omega

theorem findIdx_le : ∀ (l1 : List Entry) (e : Entry) (l2 : List Entry), e.isArrE = true →
    ∃ i, i ≤ l1.length ∧ (l1 ++ e :: l2).findIdx? Entry.isArrE = some i := by
  intro l1
  induction l1 with
  | nil => intro e l2 he; exact ⟨0, by simp, by simp [List.findIdx?_cons, he]⟩
  | cons x r ih =>
    intro e l2 he
    cases hx : x.isArrE with
    | true => exact ⟨0, by simp, by simp [List.findIdx?_cons, hx]⟩
    | false =>
      obtain ⟨i, hi, hf⟩ := ih e l2 he
      exact ⟨i + 1, by simp; omega, by simp [List.findIdx?_cons, hx, hf]⟩

theorem map_const {α : Type} (f : α → Bool) (b : Bool) : ∀ (l : List α), (∀ x ∈ l, f x = b) →
    l.map f = List.replicate l.length b := by
  intro l
  induction l with
  | nil => intro _; rfl
  | cons x r ih =>
    intro h
    simp [List.replicate_succ, h x (by simp), ih (fun y hy => h y (by simp [hy]))]

theorem bcastAll_const (B : Shape) : ∀ (l : List Shape), (∀ s ∈ l, s = B) → l ≠ [] → bcastAll l = some B := by
  intro l
  induction l with
  | nil => intro _ h; exact absurd rfl h
  | cons x r ih =>
    intro h _
    have hx : x = B := h x (by simp)
    subst hx
    cases r with
    | nil => simp [bcastAll]; exact bcast_nil_right x
    | cons y r' =>
      rw [bcastAll, ih (fun s hs => h s (by simp [hs])) (by simp)]
      exact bcast_self x

theorem arrShapes_axes (L : List Nat) : SAtom.arrShapes (L.map fun n => SAtom.axis (List.range n) false) = [] := by
  induction L with
  | nil => rfl
  | cons n L ih => simpa [SAtom.arrShapes] using ih

/-- an index with an array entry resolves to atoms with an array atom -/
theorem specAtoms_has_arr (w : Nat) (e : Entry) (tail : List Entry) (he : e.isArrE = true) :
    ∀ (pfx : List Entry), pfx.all Entry.isPlain = true → ∀ (rest : Shape) (sats : List SAtom),
    specAtoms w rest (pfx ++ e :: tail) = some sats → SAtom.arrShapes sats ≠ [] := by
  intro pfx
  induction pfx with
  | nil =>
    intro _ rest sats h
    simp only [List.nil_append] at h
    cases e with
    | iarr v m =>
      cases rest with
      | nil => simp [specAtoms] at h
      | cons n sh =>
        rw [specAtoms_cons_cons w n sh _ tail (by simp) (by simp) (by simp)] at h
        cases hs : specAtoms w sh tail with
        | none => simp [specEntry, hs] at h
        | some x =>
          simp only [specEntry, hs, Option.bind_some, Option.map_some, Option.some.injEq] at h
          subst h; simp [SAtom.arrShapes]
    | barr v m =>
      simp only [specAtoms] at h
      split at h
      · cases hs : specAtoms w (rest.drop v.shape.length) tail with
        | none => simp [hs] at h
        | some x => simp only [hs, Option.map_some, Option.some.injEq] at h; subst h; simp [SAtom.arrShapes]
      · simp at h
    | _ => simp [Entry.isArrE] at he
  | cons x pfx ih =>
    intro hp rest sats h
    simp only [List.all_cons, Bool.and_eq_true] at hp
    obtain ⟨hpx, hps⟩ := hp
    simp only [List.cons_append] at h
    cases x with
    | none =>
      rw [specAtoms_none] at h
      cases hs : specAtoms w rest (pfx ++ e :: tail) with
      | none => simp [hs] at h
      | some y =>
        simp only [hs, Option.map_some, Option.some.injEq] at h; subst h
        simpa [SAtom.arrShapes] using ih hps rest y hs
    | ell =>
      rw [specAtoms_ell] at h
      cases hs : specAtoms w (rest.drop w) (pfx ++ e :: tail) with
      | none => simp [hs] at h
      | some y =>
        simp only [hs, Option.map_some, Option.some.injEq] at h; subst h
        rw [arrShapes_append, arrShapes_axes]
        simpa using ih hps _ y hs
    | slice full l =>
      cases rest with
      | nil => simp [specAtoms] at h
      | cons n sh =>
        rw [specAtoms_cons_cons w n sh _ _ (by simp) (by simp) (by simp)] at h
        cases hs : specAtoms w sh (pfx ++ e :: tail) with
        | none => cases hq : specEntry n (.slice full l) <;> simp [hq, hs] at h
        | some y =>
          simp only [specEntry] at h
          split at h
          · simp only [hs, Option.bind_some, Option.map_some, Option.some.injEq] at h; subst h
            simpa [SAtom.arrShapes] using ih hps sh y hs
          · simp at h
    | bool v m =>
      cases rest with
      | nil => simp [specAtoms] at h
      | cons n sh =>
        rw [specAtoms_cons_cons w n sh _ _ (by simp) (by simp) (by simp)] at h
        cases hs : specAtoms w sh (pfx ++ e :: tail) with
        | none => simp [specEntry, hs] at h
        | some y =>
          simp only [specEntry, hs, Option.bind_some, Option.map_some, Option.some.injEq] at h; subst h
          cases m <;> cases v <;> simpa [SAtom.arrShapes] using ih hps sh y hs
    | _ => simp [Entry.isPlain] at hpx

/-! #### array entries separated by a plain entry: NumPy's front placement and the relocation -/

theorem dropWhile_stops (R : List Bool) : ∀ (A : List Bool),
    ∃ A', (A ++ true :: R).dropWhile (!·) = A' ++ true :: R := by
  intro A
  induction A with
  | nil => exact ⟨[], by simp [List.dropWhile_cons]⟩
  | cons x r ih =>
    cases x with
    | true => exact ⟨true :: r, by simp [List.dropWhile_cons]⟩
    | false =>
      obtain ⟨A', h⟩ := ih
      exact ⟨A', by simpa [List.dropWhile_cons] using h⟩

/-- a non-advanced entry between two advanced ones: NumPy's "separated" -/
theorem separated_true (A X Y Z : List Bool) :
    separated (A ++ true :: (X ++ false :: (Y ++ true :: Z))) = true := by
  unfold separated
  obtain ⟨A', h1⟩ := dropWhile_stops (X ++ false :: (Y ++ true :: Z)) A
  rw [h1]
  have hrev : (A' ++ true :: (X ++ false :: (Y ++ true :: Z))).reverse
      = Z.reverse ++ true :: (Y.reverse ++ false :: (X.reverse ++ true :: A'.reverse)) := by
    simp
  rw [hrev]
  obtain ⟨B', h2⟩ := dropWhile_stops (Y.reverse ++ false :: (X.reverse ++ true :: A'.reverse)) Z.reverse
  rw [h2]
  simp

/-- `locate` when a non-advanced entry stands between the first and the last array entry and
    the array axes do not come first: the axes are relocated -/
theorem locate_sep (pre : List NEntry) (ellK : Option Nat) (w a j t : Nat)
    (h1 : pre.findIdx? NEntry.isArr = some a) (h2 : pre.reverse.findIdx? NEntry.isArr = some j)
    (hat : a ≤ t) (htk : t < pre.length - 1 - j) (hf : (pre.map NEntry.isAdv)[t]? = some false)
    (hL : 0 < ((pre.take a).filter NEntry.isNC).length + ellCorr ellK a w) :
    locate pre ellK w = (((pre.take a).filter NEntry.isNC).length + ellCorr ellK a w, true) := by
  have hslice : (((pre.map NEntry.isAdv).take (pre.length - 1 - j)).drop a).all id = false := by
    rw [List.all_eq_false]
    refine ⟨false, ?_, by simp⟩
    rw [List.mem_iff_getElem?]
    refine ⟨t - a, ?_⟩
    rw [List.getElem?_drop, List.getElem?_take]
    have : a + (t - a) = t := by omega
    simp [this, htk, hf]
  unfold locate
  simp only [h1, h2, Option.getD_some, hslice]
  have hfl : ∀ (f : NEntry → Bool), (∀ x, f x = NEntry.isNC x) →
      ((pre.take a).filter f).length = ((pre.take a).filter NEntry.isNC).length := by
    intro f hf
    have : f = NEntry.isNC := funext hf
    rw [this]
  rw [hfl _ (fun x => by cases x <;> rfl)]
  generalize ((pre.take a).filter NEntry.isNC).length = c at hL ⊢
  cases ellK with
  | none =>
    simp only [ellCorr, Nat.add_zero] at hL ⊢
    have : decide (c > 0) = true := by simpa using hL
    simp [this]
  | some kk =>
    by_cases hkk : kk < a
    · simp only [ellCorr, hkk, if_true] at hL ⊢
      have : decide (c + w > 0) = true := by simpa using hL
      simp [this]
    · simp only [ellCorr, hkk, if_false, Nat.add_zero] at hL ⊢
      have : decide (c > 0) = true := by simpa using hL
      simp [this]

/-- the NumPy-layout coordinate of a valid relocated coordinate is valid -/
theorem valid_move {A B C : Shape} {o : Index} (hv : Valid (A ++ B ++ C) o) :
    Valid (B ++ (A ++ C)) ((o.drop A.length).take B.length ++ (o.take A.length ++ o.drop (A.length + B.length))) := by
  have hlen := valid_length hv
  simp only [List.length_append] at hlen
  have h1 : o = o.take A.length ++ ((o.drop A.length).take B.length ++ (o.drop A.length).drop B.length) := by
    rw [List.take_append_drop, List.take_append_drop]
  have hA : (o.take A.length).length = A.length := by simp [List.length_take]; omega
  have hB : ((o.drop A.length).take B.length).length = B.length := by
    simp [List.length_take, List.length_drop]; omega
  rw [h1, List.append_assoc] at hv
  have v1 := (valid_append hA).1 hv
  have v2 := (valid_append hB).1 v1.2
  have hdd : (o.drop A.length).drop B.length = o.drop (A.length + B.length) := by simp [List.drop_drop, Nat.add_comm]
  rw [hdd] at v2
  exact (valid_append hB).2 ⟨v2.1, (valid_append hA).2 ⟨v1.1, v2.2⟩⟩

end PMV.Index
