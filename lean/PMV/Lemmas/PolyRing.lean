import Mathlib.Algebra.Polynomial.Basic
import Mathlib.Algebra.Polynomial.Eval.Defs
import Mathlib.Algebra.Polynomial.Derivative
import Mathlib.Tactic.Ring
import Mathlib.Tactic.Linarith
import PMV.Model.Poly
/-
  Helper development for C20: the coefficient-list operations of `PMV/Model/Poly.lean` against
  Mathlib's `Polynomial`.
-/
open Polynomial
namespace PMV.Poly
variable {K : Type} [CommRing K]

/-- the polynomial denoted by a coefficient list in DECREASING order (what `Polynomial` objects
    store): Horner fold -/
noncomputable def toPoly (p : List K) : K[X] := p.foldl (fun acc c => acc * X + C c) 0

/-- the polynomial denoted by a coefficient list in INCREASING order (the reversed arrays of `__mul__`) -/
noncomputable def toPolyInc (l : List K) : K[X] := l.foldr (fun c acc => C c + X * acc) 0

@[simp] theorem toPoly_nil : toPoly ([] : List K) = 0 := rfl
@[simp] theorem toPolyInc_nil : toPolyInc ([] : List K) = 0 := rfl
@[simp] theorem toPolyInc_cons (c : K) (l : List K) : toPolyInc (c :: l) = C c + X * toPolyInc l := rfl

theorem foldl_horner (a : K[X]) (p : List K) :
    p.foldl (fun acc c => acc * X + C c) a = a * X ^ p.length + toPoly p := by
  induction p generalizing a with
  | nil => simp [toPoly]
  | cons c p ih =>
    simp only [List.foldl_cons, List.length_cons, toPoly]
    rw [ih, ih (0 * X + C c)]
    ring

theorem toPoly_cons (c : K) (p : List K) : toPoly (c :: p) = C c * X ^ p.length + toPoly p := by
  simp only [toPoly, List.foldl_cons]
  rw [foldl_horner]
  simp [toPoly]

theorem toPoly_append (p q : List K) : toPoly (p ++ q) = toPoly p * X ^ q.length + toPoly q := by
  simp only [toPoly, List.foldl_append]
  rw [foldl_horner]
  simp [toPoly]

theorem toPoly_singleton (c : K) : toPoly [c] = C c := by simp [toPoly]

theorem toPoly_replicate_zero (n : Nat) : toPoly (List.replicate n (0 : K)) = 0 := by
  induction n with
  | zero => rfl
  | succ n ih => rw [List.replicate_succ, toPoly_cons, ih]; simp

theorem toPoly_eq_toPolyInc_reverse (p : List K) : toPoly p = toPolyInc p.reverse := by
  simp only [toPoly, toPolyInc, List.foldr_reverse]
  congr 1
  funext a c
  ring

theorem toPolyInc_reverse (l : List K) : toPolyInc l.reverse = toPoly l :=
  (toPoly_eq_toPolyInc_reverse l).symm

theorem toPolyInc_replicate_zero (n : Nat) : toPolyInc (List.replicate n (0 : K)) = 0 := by
  induction n with
  | zero => rfl
  | succ n ih => rw [List.replicate_succ, toPolyInc_cons, ih]; simp

/-! #### order alignment -/

theorem toPoly_atLeastOrder (n : Nat) (p : List K) : toPoly (atLeastOrder n p) = toPoly p := by
  unfold atLeastOrder
  split
  · rfl
  · rw [toPoly_append, toPoly_replicate_zero]; simp

theorem length_atLeastOrder (n : Nat) (p : List K) (hp : p ≠ []) :
    (atLeastOrder n p).length = max p.length (n + 1) := by
  have : 0 < p.length := List.length_pos_iff.mpr hp
  unfold atLeastOrder order
  split <;> simp <;> omega

theorem align_length (p q : List K) (hp : p ≠ []) (hq : q ≠ []) :
    (align p q).1.length = (align p q).2.length := by
  have h1 : 0 < p.length := List.length_pos_iff.mpr hp
  have h2 : 0 < q.length := List.length_pos_iff.mpr hq
  show (atLeastOrder (order (atLeastOrder (order p) q)) p).length = (atLeastOrder (order p) q).length
  rw [length_atLeastOrder _ _ hp, length_atLeastOrder _ _ hq]
  simp only [order]
  rw [length_atLeastOrder _ _ hq]
  omega

theorem toPoly_zipWith_add (p q : List K) (h : p.length = q.length) :
    toPoly (List.zipWith (· + ·) p q) = toPoly p + toPoly q := by
  induction p generalizing q with
  | nil => cases q with
    | nil => simp
    | cons _ _ => simp at h
  | cons a p ih => cases q with
    | nil => simp at h
    | cons b q =>
      simp only [List.length_cons, Nat.add_right_cancel_iff] at h
      rw [List.zipWith_cons_cons, toPoly_cons, toPoly_cons, toPoly_cons, ih q h, List.length_zipWith, h]
      simp only [Nat.min_self, C_add]
      ring

theorem toPoly_zipWith_sub (p q : List K) (h : p.length = q.length) :
    toPoly (List.zipWith (· - ·) p q) = toPoly p - toPoly q := by
  induction p generalizing q with
  | nil => cases q with
    | nil => simp
    | cons _ _ => simp at h
  | cons a p ih => cases q with
    | nil => simp at h
    | cons b q =>
      simp only [List.length_cons, Nat.add_right_cancel_iff] at h
      rw [List.zipWith_cons_cons, toPoly_cons, toPoly_cons, toPoly_cons, ih q h, List.length_zipWith, h]
      simp only [Nat.min_self, C_sub]
      ring

theorem toPoly_map_neg (p : List K) : toPoly (p.map (- ·)) = - toPoly p := by
  induction p with
  | nil => simp
  | cons a p ih => rw [List.map_cons, toPoly_cons, toPoly_cons, ih, List.length_map]; simp only [C_neg]; ring

/-! #### the multiplication loop -/

theorem length_addAt (k : Nat) (xs acc : List K) : (addAt k xs acc).length = acc.length := by
  induction acc generalizing k xs with
  | nil => cases k <;> cases xs <;> simp [addAt]
  | cons a acc ih =>
    cases k with
    | zero => cases xs with
      | nil => simp [addAt]
      | cons x xs => simp [addAt, ih]
    | succ k => simp [addAt, ih]

theorem toPolyInc_addAt (k : Nat) (xs acc : List K) (h : k + xs.length ≤ acc.length) :
    toPolyInc (addAt k xs acc) = toPolyInc acc + X ^ k * toPolyInc xs := by
  induction acc generalizing k xs with
  | nil =>
    have hh : k = 0 ∧ xs.length = 0 := by simp only [List.length_nil] at h; omega
    obtain ⟨hk, hx⟩ := hh
    have hx : xs = [] := List.eq_nil_of_length_eq_zero hx
    subst hk; subst hx; simp [addAt]
  | cons a acc ih =>
    cases k with
    | zero => cases xs with
      | nil => simp [addAt]
      | cons x xs =>
        have h' : 0 + xs.length ≤ acc.length := by simp at h; omega
        simp only [addAt, toPolyInc_cons, ih 0 xs h', C_add]
        ring
    | succ k =>
      have h' : k + xs.length ≤ acc.length := by simp at h; omega
      simp only [addAt, toPolyInc_cons, ih k xs h']
      ring

theorem toPolyInc_map_mul (c : K) (l : List K) : toPolyInc (l.map (c * ·)) = C c * toPolyInc l := by
  induction l with
  | nil => simp
  | cons a l ih => simp only [List.map_cons, toPolyInc_cons, ih, C_mul]; ring

theorem toPolyInc_mulLoop (sr cs : List K) (k : Nat) (acc : List K)
    (h : k + cs.length + sr.length ≤ acc.length + 1) :
    toPolyInc (mulLoop sr cs k acc) = toPolyInc acc + X ^ k * (toPolyInc sr * toPolyInc cs) := by
  induction cs generalizing k acc with
  | nil => simp [mulLoop]
  | cons c cs ih =>
    simp only [List.length_cons] at h
    have h1 : k + (sr.map (c * ·)).length ≤ acc.length := by simp; omega
    have h2 : (k + 1) + cs.length + sr.length ≤ (addAt k (sr.map (c * ·)) acc).length + 1 := by
      rw [length_addAt]; omega
    simp only [mulLoop]
    rw [ih (k + 1) _ h2, toPolyInc_addAt _ _ _ h1, toPolyInc_map_mul, toPolyInc_cons]
    ring

theorem toPoly_mulC (p q : List K) : toPoly (mulC p q) = toPoly p * toPoly q := by
  unfold mulC
  simp only
  rw [toPoly_eq_toPolyInc_reverse, List.reverse_reverse, toPolyInc_mulLoop, toPolyInc_replicate_zero,
    toPolyInc_reverse, toPolyInc_reverse]
  · simp
  · simp only [List.length_reverse, List.length_replicate, order]; omega

/-! #### powers -/

theorem toPoly_powLoop (p : List K) (n : Nat) (r : List K) :
    toPoly (powLoop p n r) = toPoly r * toPoly p ^ n := by
  induction n generalizing r with
  | zero => simp [powLoop]
  | succ n ih => simp only [powLoop]; rw [ih, toPoly_mulC]; ring

/-! #### deriv -/

/-- the `else` branch of `deriv`: all but the last coefficient times `order … 1` -/
def derivCore (p : List K) : List K :=
  List.zipWith (fun (c : K) (k : Nat) => c * (k : K)) p.dropLast (countDown (p.length - 1))

theorem length_countDown (n : Nat) : (countDown n).length = n := by
  induction n with
  | zero => rfl
  | succ n ih => simp [countDown, ih]

theorem length_derivCore (p : List K) : (derivCore p).length = p.length - 1 := by
  simp [derivCore, length_countDown]

theorem derivCore_cons (c : K) (rest : List K) (h : rest ≠ []) :
    derivCore (c :: rest) = c * (rest.length : K) :: derivCore rest := by
  obtain ⟨d, rest', rfl⟩ := List.exists_cons_of_ne_nil h
  simp [derivCore, countDown, List.dropLast]

theorem toPoly_derivCore (p : List K) : toPoly (derivCore p) = derivative (toPoly p) := by
  induction p with
  | nil => simp [derivCore]
  | cons c rest ih =>
    by_cases h : rest = []
    · subst h; simp [derivCore, toPoly_singleton]
    · rw [derivCore_cons c rest h, toPoly_cons, toPoly_cons, ih, length_derivCore]
      simp only [derivative_add, derivative_C_mul_X_pow]

/-! #### eval -/

/-- evaluation of an increasing-order list -/
def evalInc (l : List K) (x : K) : K := l.foldr (fun c acc => c + x * acc) 0

theorem sum_zipWith_powers (l : List K) (x : K) (n : Nat) (xp : K) (h : l.length ≤ n + 1) :
    (List.zipWith (· * ·) l (powers x n xp)).sum = xp * evalInc l x := by
  induction l generalizing n xp with
  | nil => simp [evalInc]
  | cons c l ih =>
    cases n with
    | zero =>
      have : l = [] := List.eq_nil_of_length_eq_zero (by simp only [List.length_cons] at h; omega)
      subst this
      simp [powers, evalInc]; ring
    | succ n =>
      have h' : l.length ≤ n + 1 := by simp at h; omega
      simp only [powers, List.zipWith_cons_cons, List.sum_cons, ih n (xp * x) h']
      simp only [evalInc, List.foldr_cons]
      ring

theorem length_powers (x : K) (n : Nat) (xp : K) : (powers x n xp).length = n + 1 := by
  induction n generalizing xp with
  | zero => rfl
  | succ n ih => simp [powers, ih]

theorem evalInc_reverse (p : List K) (x : K) : evalInc p.reverse x = horner p x := by
  simp only [evalInc, horner, List.foldr_reverse]
  congr 1
  funext a c
  ring

theorem eval_foldl (x : K) (a : K[X]) (p : List K) :
    eval x (p.foldl (fun acc c => acc * X + C c) a) = p.foldl (fun y c => y * x + c) (eval x a) := by
  induction p generalizing a with
  | nil => rfl
  | cons c p ih => simp only [List.foldl_cons]; rw [ih]; simp

theorem eval_toPoly (p : List K) (x : K) : eval x (toPoly p) = horner p x := by
  simp only [toPoly, horner, eval_foldl, eval_zero]

theorem evalC_eq_horner' (p : List K) (x : K) : evalC p x = horner p x := by
  by_cases hp : p = []
  · subst hp; simp [evalC, dot, horner]
  · have hlen : 0 < p.length := List.length_pos_iff.mpr hp
    have hl : p.length = (powers x (order p) 1).length := by rw [length_powers]; simp only [order]; omega
    unfold evalC dot
    rw [← List.sum_reverse, List.reverse_zipWith (by rw [List.length_reverse]; exact hl), List.reverse_reverse,
      sum_zipWith_powers _ _ _ _ (by rw [List.length_reverse]; simp only [order]; omega), evalInc_reverse]
    ring


/-! #### the heap view of eval -/

theorem fixedLoop_spec (xr n : Nat) (h pre : List K) (xp : K) (hx : xr < h.length) :
    fixedLoop xr n (h ++ pre ++ [xp]) = h ++ pre ++ powers (h.getD xr 0) n xp := by
  induction n generalizing pre xp with
  | zero => simp [fixedLoop, powers]
  | succ n ih =>
    have e1 : (h ++ pre ++ [xp]).getLastD 0 = xp := by simp [List.getLastD_eq_getLast?]
    have e2 : (h ++ pre ++ [xp]).getD xr 0 = h.getD xr 0 := by
      simp only [List.getD_eq_getElem?_getD, List.append_assoc]
      rw [List.getElem?_append_left hx]
    simp only [fixedLoop, e1, e2]
    have := ih (pre ++ [xp]) (xp * h.getD xr 0)
    simp only [← List.append_assoc] at this ⊢
    rw [this]
    simp [powers]

/-! #### eval with derivatives -/

/-- derivative (in `x`) of the evaluation of an increasing-order list -/
def evalInc' : List K → K → K
  | [], _ => 0
  | _ :: l, x => evalInc l x + x * evalInc' l x

theorem eval_toPolyInc (l : List K) (x : K) : eval x (toPolyInc l) = evalInc l x := by
  induction l with
  | nil => simp [evalInc]
  | cons c l ih => simp only [toPolyInc_cons, eval_add, eval_C, eval_mul, eval_X, ih]; rfl

theorem eval_derivative_toPolyInc (l : List K) (x : K) :
    eval x (derivative (toPolyInc l)) = evalInc' l x := by
  induction l with
  | nil => simp [evalInc']
  | cons c l ih =>
    simp only [toPolyInc_cons, derivative_add, derivative_C, derivative_mul, derivative_X, zero_add, one_mul,
      eval_add, eval_mul, eval_X, ih, eval_toPolyInc, evalInc']

theorem powersD_fst (x dx : K) (n : Nat) (xp : K × K) :
    (powersD x dx n xp).map Prod.fst = powers x n xp.1 := by
  induction n generalizing xp with
  | zero => rfl
  | succ n ih => simp [powersD, powers, ih]

theorem length_powersD (x dx : K) (n : Nat) (xp : K × K) : (powersD x dx n xp).length = n + 1 := by
  induction n generalizing xp with
  | zero => rfl
  | succ n ih => simp [powersD, ih]

theorem sum_zipWith_powersD_snd (l : List K) (x dx : K) (n : Nat) (xp : K × K) (h : l.length ≤ n + 1) :
    (List.zipWith (· * ·) l ((powersD x dx n xp).map Prod.snd)).sum
      = xp.2 * evalInc l x + xp.1 * dx * evalInc' l x := by
  induction l generalizing n xp with
  | nil => simp [evalInc, evalInc']
  | cons c l ih =>
    cases n with
    | zero =>
      have : l = [] := List.eq_nil_of_length_eq_zero (by simp only [List.length_cons] at h; omega)
      subst this
      simp [powersD, evalInc, evalInc']; ring
    | succ n =>
      have h' : l.length ≤ n + 1 := by simp only [List.length_cons] at h; omega
      simp only [powersD, List.map_cons, List.zipWith_cons_cons, List.sum_cons, ih n _ h']
      simp only [evalInc, evalInc', List.foldr_cons]
      ring

/-- dot product with a reversed list whose length matches -/
theorem dot_reverse (p l : List K) (h : p.length = l.length) :
    dot p l.reverse = (List.zipWith (· * ·) p.reverse l).sum := by
  unfold dot
  rw [← List.sum_reverse, List.reverse_zipWith (by rw [List.length_reverse]; exact h), List.reverse_reverse]

theorem evalD_fst (p dp : List K) (x dx : K) : (evalD p dp x dx).1 = evalC p x := by
  simp only [evalD, evalC, List.map_reverse, powersD_fst]

/-- the derivative `eval` attaches to its result is the total derivative
    `(dp/dt)(x) + p'(x) · dx/dt` (chain rule), for polynomials of every order -/
theorem evalD_snd (p dp : List K) (x dx : K) (hp : p ≠ []) (hl : dp.length = p.length) :
    (evalD p dp x dx).2 = eval x (toPoly dp) + eval x (derivative (toPoly p)) * dx := by
  have hlen : 0 < p.length := List.length_pos_iff.mpr hp
  have ho : order p + 1 = p.length := by simp only [order]; omega
  simp only [evalD, List.map_reverse]
  rw [dot_reverse dp _ (by rw [List.length_map, length_powersD, hl, ho]),
    dot_reverse p _ (by rw [List.length_map, length_powersD, ho]),
    powersD_fst, sum_zipWith_powers _ _ _ _ (by rw [List.length_reverse, hl]; omega),
    sum_zipWith_powersD_snd _ _ _ _ _ (by rw [List.length_reverse]; omega)]
  rw [toPoly_eq_toPolyInc_reverse dp, toPoly_eq_toPolyInc_reverse p, eval_toPolyInc, eval_derivative_toPolyInc]
  simp only []
  ring

end PMV.Poly
