import PMV.Lemmas.GatherIdx
/-
  Semantic lemmas for C17: reading objects through broadcasting (`Q.cellB`), element-wise
  lifting, observational equality of elements, the catalogue respects it, and the congruence
  of element-wise expression trees for any relation between index pairs.  Core Lean only.
-/
namespace PMV.Shrink
open PMV

variable {K : Type} [Inhabited K]
set_option linter.unusedSectionVars false

/-! ### observational equality -/

theorem Cell.Same.refl (a : Cell K) : Cell.Same a a := ⟨rfl, fun _ => ⟨rfl, fun _ => rfl⟩⟩

theorem Cell.Same.symm {a b : Cell K} (h : Cell.Same a b) : Cell.Same b a := by
  obtain ⟨h1, h2⟩ := h
  refine ⟨h1.symm, fun hb => ?_⟩
  obtain ⟨h3, h4⟩ := h2 (h1.trans hb)
  exact ⟨h3.symm, fun k => (h4 k).symm⟩

theorem Cell.Same.trans {a b c : Cell K} (h : Cell.Same a b) (h' : Cell.Same b c) : Cell.Same a c := by
  obtain ⟨h1, h2⟩ := h
  obtain ⟨h1', h2'⟩ := h'
  refine ⟨h1.trans h1', fun ha => ?_⟩
  obtain ⟨h3, h4⟩ := h2 ha
  obtain ⟨h3', h4'⟩ := h2' (h1.symm.trans ha)
  exact ⟨h3.trans h3', fun k => (h4 k).trans (h4' k)⟩

/-- two masked elements are observationally equal whatever is stored under the mask -/
theorem Cell.Same.of_masked {a b : Cell K} (ha : a.m = true) (hb : b.m = true) : Cell.Same a b :=
  ⟨ha.trans hb.symm, fun h => by simp [ha] at h⟩

/-- restriction of the derivative dictionary to a key set (what an object built from cells
    retains) -/
def Cell.norm (ks : List String) (c : Cell K) : Cell K :=
  ⟨c.v, c.m, fun k => if ks.contains k then c.d k else noDeriv⟩

theorem Cell.Same.norm {a b : Cell K} (ks : List String) (h : Cell.Same a b) :
    Cell.Same (a.norm ks) (b.norm ks) := by
  obtain ⟨h1, h2⟩ := h
  refine ⟨h1, fun ha => ?_⟩
  obtain ⟨h3, h4⟩ := h2 ha
  refine ⟨h3, fun k => ?_⟩
  simp only [Cell.norm]
  split
  · exact h4 k
  · rfl

/-! ### objects built from cells -/

theorem lookupD_map (ks : List String) (g : String → DObj K) (k : String) :
    lookupD (ks.map fun k => (k, g k)) k = if ks.contains k then some (g k) else none := by
  induction ks with
  | nil => rfl
  | cons k' ks ih =>
    simp only [List.map, lookupD, ih, List.contains_cons]
    by_cases h : k' = k
    · subst h; simp
    · have : (k == k') = false := by simp; exact fun e => h e.symm
      simp [h, this]

theorem cellAt_ofCells (cls : Cls) (s : Shape) (ks : List String) (c : Index → Cell K) (i : Index) :
    (Q.ofCells cls s ks c).cellAt i = (c i).norm ks := by
  simp only [Q.cellAt, Q.ofCells, lookupD_map, Cell.norm, Obj.maskAt]
  congr 1
  funext k
  by_cases hk : k ∈ ks
  · simp [hk, Obj.dcellAt, Obj.maskAt]
  · simp [hk]

theorem keys_ofCells (cls : Cls) (s : Shape) (ks : List String) (c : Index → Cell K) :
    (Q.ofCells cls s ks c).keys = ks := by
  simp [Q.keys, Q.ofCells, List.map_map, Function.comp_def]

/-- an element-wise binary operation acts element by element on what is read through
    broadcasting, at every grid index -/
theorem cellB_lift2 (op : Op2 K) (a b c : Q K) (h : lift2 op a b = some c) (j : Index) :
    c.cellB j = (op.f a.keys b.keys (a.cellB j) (b.cellB j)).norm (op.keys a.keys b.keys) := by
  unfold lift2 at h
  cases hb : bcast a.obj.shape b.obj.shape with
  | none => simp [hb] at h
  | some s =>
    simp only [hb, Option.map_some, Option.some.injEq] at h
    subst h
    simp only [Q.cellB, cellAt_ofCells]
    simp only [Q.ofCells, bidx_comp_left _ _ _ _ hb, bidx_comp_right _ _ _ _ hb]

theorem cellB_lift1 (op : Op1 K) (a : Q K) (j : Index) :
    (lift1 op a).cellB j = (op.f a.keys (a.cellB j)).norm (op.keys a.keys) := by
  simp only [lift1, Q.cellB, cellAt_ofCells]
  simp only [Q.ofCells]

/-! ### operations that only look at what is observable -/

def Op2.Respects (op : Op2 K) : Prop :=
  ∀ ka kb a a' b b', Cell.Same a a' → Cell.Same b b' →
    Cell.Same (op.f ka kb a b) (op.f ka kb a' b')

def Op1.Respects (op : Op1 K) : Prop :=
  ∀ ka a a', Cell.Same a a' → Cell.Same (op.f ka a) (op.f ka a')

/-- every operator of a tree respects observational equality -/
def Expr.Respects : Expr K → Prop
  | .var _ => True
  | .un op e => op.Respects ∧ e.Respects
  | .bin op e₁ e₂ => op.Respects ∧ e₁.Respects ∧ e₂.Respects

/-! ### congruence for an arbitrary correspondence of grid indices -/

/-- `x'` stands for `x`: same derivative keys and class, and observationally equal elements at
    every pair of grid indices related by `P` -/
def Rel (P : Index → Index → Prop) (x' x : Q K) : Prop :=
  x'.keys = x.keys ∧ x'.cls = x.cls ∧
    ∀ j' j, P j' j → Cell.Same (x'.cellB j') (x.cellB j)

theorem rel_lift2 (P : Index → Index → Prop) (op : Op2 K) (hop : op.Respects)
    {a' a b' b c' c : Q K} (ha : Rel P a' a) (hb : Rel P b' b)
    (h' : lift2 op a' b' = some c') (h : lift2 op a b = some c) : Rel P c' c := by
  obtain ⟨ka, ca, sa⟩ := ha
  obtain ⟨kb, cb, sb⟩ := hb
  refine ⟨?_, ?_, ?_⟩
  · unfold lift2 at h h'
    cases h1 : bcast a'.obj.shape b'.obj.shape <;> simp [h1] at h'
    cases h2 : bcast a.obj.shape b.obj.shape <;> simp [h2] at h
    subst h h'; simp [keys_ofCells, ka, kb]
  · unfold lift2 at h h'
    cases h1 : bcast a'.obj.shape b'.obj.shape <;> simp [h1] at h'
    cases h2 : bcast a.obj.shape b.obj.shape <;> simp [h2] at h
    subst h h'; simp [Q.ofCells, ca, cb]
  · intro j' j hj
    rw [cellB_lift2 op a' b' c' h', cellB_lift2 op a b c h, ka, kb]
    exact (hop _ _ _ _ _ _ (sa _ _ hj) (sb _ _ hj)).norm _

theorem rel_lift1 (P : Index → Index → Prop) (op : Op1 K) (hop : op.Respects)
    {a' a : Q K} (ha : Rel P a' a) : Rel P (lift1 op a') (lift1 op a) := by
  obtain ⟨ka, ca, sa⟩ := ha
  refine ⟨by simp [lift1, keys_ofCells, ka], by simp [lift1, Q.ofCells, ca], ?_⟩
  intro j' j hj
  rw [cellB_lift1, cellB_lift1, ka]
  exact (hop _ _ _ (sa _ _ hj)).norm _

/-- pointwise related environments -/
def RelEnv (P : Index → Index → Prop) : List (Q K) → List (Q K) → Prop
  | [], [] => True
  | x' :: xs', x :: xs => Rel P x' x ∧ RelEnv P xs' xs
  | _, _ => False

theorem relEnv_get (P : Index → Index → Prop) : ∀ (env' env : List (Q K)) (n : Nat) (x' x : Q K),
    RelEnv P env' env → env'[n]? = some x' → env[n]? = some x → Rel P x' x
  | [], [], _, _, _, _, h', _ => by simp at h'
  | [], _ :: _, _, _, _, h, _, _ => h.elim
  | _ :: _, [], _, _, _, h, _, _ => h.elim
  | y' :: ys', y :: ys, 0, x', x, h, h', hx => by
    simp only [List.getElem?_cons_zero, Option.some.injEq] at h' hx
    subst h' hx; exact h.1
  | y' :: ys', y :: ys, n + 1, x', x, h, h', hx => by
    simp only [List.getElem?_cons_succ] at h' hx
    exact relEnv_get P ys' ys n x' x h.2 h' hx

/-- the congruence, by induction over the expression tree (any depth) -/
theorem rel_eval (P : Index → Index → Prop) (env' env : List (Q K)) (henv : RelEnv P env' env) :
    ∀ (e : Expr K), e.Respects → ∀ r' r, eval env' e = some r' → eval env e = some r → Rel P r' r
  | .var n, _, r', r, h', h => relEnv_get P env' env n r' r henv h' h
  | .un op e, hr, r', r, h', h => by
    simp only [eval] at h' h
    cases h1 : eval env' e <;> simp [h1] at h'
    cases h2 : eval env e <;> simp [h2] at h
    subst h' h
    exact rel_lift1 P op hr.1 (rel_eval P env' env henv e hr.2 _ _ h1 h2)
  | .bin op e₁ e₂, hr, r', r, h', h => by
    simp only [eval] at h' h
    cases h1 : eval env' e₁ <;> simp [h1] at h'
    cases h2 : eval env' e₂ <;> simp [h2] at h'
    cases h3 : eval env e₁ <;> simp [h3] at h
    cases h4 : eval env e₂ <;> simp [h4] at h
    exact rel_lift2 P op hr.1 (rel_eval P env' env henv e₁ hr.2.1 _ _ h1 h3)
      (rel_eval P env' env henv e₂ hr.2.2 _ _ h2 h4) h' h

end PMV.Shrink
