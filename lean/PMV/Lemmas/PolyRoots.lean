import Mathlib.Algebra.Order.Field.Basic
import Mathlib.Tactic.Linarith
import Mathlib.Tactic.FieldSimp
import Mathlib.Tactic.Ring
import Mathlib.Tactic.LinearCombination
import PMV.Model.Poly
/-
  Helper development for C20: the root formulas of `PMV/Model/Poly.lean` over a linearly ordered
  field with a square-root function (the `ℝ` reading of the float64 code).
-/
set_option linter.unusedSectionVars false
namespace PMV.Poly
variable {F : Type} [Field F] [LinearOrder F] [IsStrictOrderedRing F]

structure SqrtSpec (s : F → F) : Prop where
  nonneg : ∀ d, 0 ≤ d → 0 ≤ s d
  sq : ∀ d, 0 ≤ d → s d * s d = d

@[reducible] def fieldOps (s : F → F) : RootOps F where
  half := 1/2
  sqrt := s
  lt a b := decide (a < b)
  beq a b := decide (a = b)

theorem ops_lt (s : F → F) (x y : F) : @RootOps.lt F (fieldOps s) x y = decide (x < y) := rfl
theorem ops_beq (s : F → F) (x y : F) : @RootOps.beq F (fieldOps s) x y = decide (x = y) := rfl
theorem ops_sqrt (s : F → F) (x : F) : @RootOps.sqrt F (fieldOps s) x = s x := rfl
theorem ops_half (s : F → F) : @RootOps.half F (fieldOps s) = 1/2 := rfl

/-- discriminant as the code computes it -/
def qDiscr (a b c : F) : F := -(1/2) * b * (-(1/2) * b) - a * c
/-- `term` -/
def qTerm (s : F → F) (a b c : F) : F :=
  -(1/2) * b + (if -(1/2) * b < 0 then -1 else 1) * s (qDiscr a b c)

theorem solveQuadratic_neg (s : F → F) (a b c : F) (hD : qDiscr a b c < 0) : letI := fieldOps s
    (solveQuadratic (⟨a, false⟩ : SCell F) ⟨b, false⟩ ⟨c, false⟩).1.m = true ∧
    (solveQuadratic (⟨a, false⟩ : SCell F) ⟨b, false⟩ ⟨c, false⟩).2.m = true := by
  unfold qDiscr at hD
  simp only [solveQuadratic, SCell.scale, SCell.mul, SCell.sub, SCell.add, SCell.sign, SCell.sqrt, SCell.div,
    SCell.maskIf, SCell.qeq, ops_lt, ops_beq, ops_sqrt, ops_half, Bool.false_or, Bool.or_false, hD, decide_true,
    Bool.true_or, if_true]
  simp

theorem solveQuadratic_nonneg (s : F → F) (a b c : F) (hD : 0 ≤ qDiscr a b c) : letI := fieldOps s
    solveQuadratic (⟨a, false⟩ : SCell F) ⟨b, false⟩ ⟨c, false⟩ =
      (if qTerm s a b c = 0 then ⟨qTerm s a b c / (if a = 0 then 1 else a), decide (a = 0)⟩
        else ⟨c / qTerm s a b c, false⟩,
       ⟨qTerm s a b c / (if a = 0 then 1 else a),
         decide (a = 0 ∨ qTerm s a b c = 0 ∨ qTerm s a b c / a = c / qTerm s a b c)⟩) := by
  have hD' : ¬ (-(1/2) * b * (-(1/2) * b) - a * c < 0) := not_lt.mpr hD
  simp only [solveQuadratic, SCell.scale, SCell.mul, SCell.sub, SCell.add, SCell.sign, SCell.sqrt, SCell.div,
    SCell.maskIf, SCell.qeq, ops_lt, ops_beq, ops_sqrt, ops_half, Bool.false_or, Bool.or_false, hD', decide_false,
    Bool.false_eq_true, if_false, decide_eq_true_eq]
  unfold qTerm qDiscr
  generalize (-(1 / 2) * b + (if -(1 / 2) * b < 0 then -1 else 1) * s (-(1 / 2) * b * (-(1 / 2) * b) - a * c)) = t
  by_cases ht : t = 0 <;> by_cases ha : a = 0 <;> simp [ht, ha]

/-! algebra of the quadratic -/
section
variable (s : F → F) (hs : SqrtSpec s) (a b c : F)
include hs

theorem qTerm_eq (hD : 0 ≤ qDiscr a b c) :
    qTerm s a b c * qTerm s a b c + b * qTerm s a b c + a * c = 0 := by
  have h2 := hs.sq _ hD
  unfold qTerm
  unfold qDiscr at h2 ⊢
  split_ifs <;> linear_combination h2

theorem qTerm_zero (hD : 0 ≤ qDiscr a b c) (ht : qTerm s a b c = 0) : b = 0 ∧ a * c = 0 := by
  have h1 := hs.nonneg _ hD
  have h2 := hs.sq _ hD
  unfold qTerm at ht
  unfold qDiscr at h1 h2 ht
  split_ifs at ht with hneg
  · exfalso; linarith
  · have hb : -(1/2) * b = 0 := by linarith
    have hr : s (-(1 / 2) * b * (-(1 / 2) * b) - a * c) = 0 := by linarith
    have hb0 : b = 0 := by linarith
    refine ⟨hb0, ?_⟩
    rw [hr, hb0] at h2
    linarith

/-- `t · p(x) = (a x − t)(t x − c)` -/
theorem qFactor (hD : 0 ≤ qDiscr a b c) (x : F) :
    qTerm s a b c * (a * x * x + b * x + c) = (a * x - qTerm s a b c) * (qTerm s a b c * x - c) := by
  linear_combination x * qTerm_eq s hs a b c hD
end

theorem noroot_of_neg (a b c x : F) (hD : qDiscr a b c < 0) : a * x * x + b * x + c ≠ 0 := by
  intro hx
  have : qDiscr a b c = (a * x + (1/2) * b) * (a * x + (1/2) * b) := by
    unfold qDiscr; linear_combination (-a) * hx
  have := mul_self_nonneg (a * x + (1/2) * b)
  linarith

/-! sorting -/
def StrictAsc (l : List (SCell F)) : Prop :=
  l.Pairwise (fun u v => v.m = true ∨ (u.m = false ∧ u.v < v.v))
def DistinctU (l : List (SCell F)) : Prop :=
  l.Pairwise (fun u v => u.m = true ∨ v.m = true ∨ u.v ≠ v.v)

theorem le_iff (s : F → F) (u v : SCell F) :
    @SCell.le F (fieldOps s) u v = true ↔ v.m = true ∨ (u.m = false ∧ u.v ≤ v.v) := by
  simp [SCell.le, ops_lt]

theorem sortCells_perm (s : F → F) (l : List (SCell F)) : (@sortCells F (fieldOps s) l).Perm l :=
  List.mergeSort_perm _ _

theorem sortCells_pairwise (s : F → F) (l : List (SCell F)) :
    (@sortCells F (fieldOps s) l).Pairwise (fun u v => @SCell.le F (fieldOps s) u v = true) := by
  apply List.pairwise_mergeSort
  · intro u v w h1 h2
    rw [le_iff] at *
    rcases h2 with h2 | ⟨h2, h2'⟩
    · exact Or.inl h2
    · rcases h1 with h1 | ⟨h1, h1'⟩
      · simp [h1] at h2
      · exact Or.inr ⟨h1, le_trans h1' h2'⟩
  · intro u v
    rw [Bool.or_eq_true, le_iff, le_iff]
    cases hu : u.m <;> cases hv : v.m <;> simp
    exact le_total _ _

theorem sortCells_strict (s : F → F) (l : List (SCell F)) (h : DistinctU l) :
    StrictAsc (@sortCells F (fieldOps s) l) := by
  have hd : DistinctU (@sortCells F (fieldOps s) l) := by
    refine ((sortCells_perm s l).pairwise_iff ?_).mpr h
    intro u v huv
    rcases huv with h | h | h
    · exact Or.inr (Or.inl h)
    · exact Or.inl h
    · exact Or.inr (Or.inr (Ne.symm h))
  refine ((sortCells_pairwise s l).and hd).imp ?_
  intro u v ⟨h1, h2⟩
  rw [le_iff] at h1
  rcases h1 with h1 | ⟨h1, h1'⟩
  · exact Or.inl h1
  · rcases h2 with h2 | h2 | h2
    · simp [h1] at h2
    · exact Or.inl h2
    · exact Or.inr ⟨h1, lt_of_le_of_ne h1' h2⟩

/-- the two cells that `roots()` stacks for order 2, before `sort` -/
def quadCells (s : F → F) (a b c : SCell F) : List (SCell F) :=
  letI := fieldOps s
  [(solveQuadratic a b c).1,
   (solveQuadratic a b c).2.maskIf ((solveQuadratic a b c).2.qeq (solveQuadratic a b c).1)]

theorem rootsQuadratic_eq (s : F → F) (a b c : SCell F) :
    @rootsQuadratic F _ _ _ _ _ _ _ (fieldOps s) a b c = @sortCells F (fieldOps s) (quadCells s a b c) := rfl

theorem quadCells_unmasked_iff (s : F → F) (hs : SqrtSpec s) (a b c x : F) (hnz : ¬ (a = 0 ∧ b = 0 ∧ c = 0)) :
    (∃ u ∈ quadCells s ⟨a, false⟩ ⟨b, false⟩ ⟨c, false⟩, u.m = false ∧ u.v = x) ↔ a * x * x + b * x + c = 0 := by
  unfold quadCells
  by_cases hD : qDiscr a b c < 0
  · obtain ⟨h0, h1⟩ := solveQuadratic_neg s a b c hD
    have := noroot_of_neg a b c x hD
    simp [SCell.maskIf, h0, h1, this]
  · have hD' : 0 ≤ qDiscr a b c := not_lt.mp hD
    have hf := qFactor s hs a b c hD' x
    have hz := qTerm_zero s hs a b c hD'
    rw [solveQuadratic_nonneg s a b c hD']
    generalize qTerm s a b c = t at hf hz ⊢
    by_cases ht : t = 0
    · obtain ⟨hb, hac⟩ := hz ht
      by_cases ha : a = 0
      · have hc : c ≠ 0 := fun hc => hnz ⟨ha, hb, hc⟩
        simp [SCell.maskIf, SCell.qeq, ht, ha, hb, hc]
      · have hc : c = 0 := by rcases mul_eq_zero.mp hac with h | h; exact absurd h ha; exact h
        simp [SCell.maskIf, SCell.qeq, ht, ha, hb, hc]
        exact eq_comm
    · have hp : a * x * x + b * x + c = 0 ↔ (a * x = t ∨ t * x = c) := by
        constructor
        · intro h
          rw [h, mul_zero] at hf
          rcases mul_eq_zero.mp hf.symm with h | h
          · exact Or.inl (by linarith)
          · exact Or.inr (by linarith)
        · intro h
          have : (a * x - t) * (t * x - c) = 0 := by
            rcases h with h | h <;> simp [h]
          rw [← hf] at this
          exact (mul_eq_zero.mp this).resolve_left ht
      rw [hp]
      have e1 : c / t = x ↔ t * x = c := by
        rw [div_eq_iff ht]; constructor <;> intro h <;> linarith
      by_cases ha : a = 0
      · simp [SCell.maskIf, SCell.qeq, ht, ha]
        rw [e1]
        constructor
        · exact Or.inr
        · rintro (h | h)
          · exact absurd h.symm ht
          · exact h
      · simp [SCell.maskIf, SCell.qeq, ops_beq, ht, ha]
        have e2 : t / a = x ↔ a * x = t := by
          rw [div_eq_iff ha]; constructor <;> intro h <;> linarith
        rw [e1, e2]
        constructor
        · rintro (h | ⟨_, h⟩)
          · exact Or.inr h
          · exact Or.inl h
        · rintro (h | h)
          · by_cases hd : t / a = c / t
            · left; rw [← e1, ← hd, e2]; exact h
            · exact Or.inr ⟨hd, h⟩
          · exact Or.inl h

theorem quadCells_distinct (s : F → F) (a b c : SCell F) : DistinctU (quadCells s a b c) := by
  unfold quadCells DistinctU
  simp only [List.pairwise_cons, List.mem_singleton, forall_eq, List.not_mem_nil, false_imp_iff, implies_true,
    List.Pairwise.nil, and_true]
  generalize (@solveQuadratic F _ _ _ _ _ _ _ (fieldOps s) a b c).1 = x0
  generalize (@solveQuadratic F _ _ _ _ _ _ _ (fieldOps s) a b c).2 = x1
  cases h0 : x0.m <;> cases h1 : x1.m <;> simp [SCell.maskIf, SCell.qeq, ops_beq, h0, h1]
  by_cases h : x1.v = x0.v
  · exact Or.inl h
  · exact Or.inr (Ne.symm h)

theorem quadCells_masked (s : F → F) (a b c : F) :
    ∀ u ∈ quadCells s ⟨a, true⟩ ⟨b, true⟩ ⟨c, true⟩, u.m = true := by
  intro u hu
  simp only [quadCells, solveQuadratic, SCell.scale, SCell.mul, SCell.sub, SCell.add, SCell.sign, SCell.sqrt,
    SCell.div, SCell.maskIf, SCell.qeq, Bool.true_or, Bool.or_true, if_true, List.mem_cons,
    List.not_mem_nil, or_false] at hu
  rcases hu with rfl | rfl <;> rfl

/-- positive discriminant and `a ≠ 0`: both cells are unmasked (two distinct real roots) -/
theorem quadCells_two (s : F → F) (hs : SqrtSpec s) (a b c : F) (ha : a ≠ 0) (hD : 0 < qDiscr a b c) :
    ∀ u ∈ quadCells s ⟨a, false⟩ ⟨b, false⟩ ⟨c, false⟩, u.m = false := by
  have hD' : 0 ≤ qDiscr a b c := le_of_lt hD
  have hq := qTerm_eq s hs a b c hD'
  have hz := qTerm_zero s hs a b c hD'
  have hr0 := hs.nonneg _ hD'
  have hr2 := hs.sq _ hD'
  have hdef : qTerm s a b c = -(1/2) * b + (if -(1/2) * b < 0 then -1 else 1) * s (qDiscr a b c) := rfl
  have ht : qTerm s a b c ≠ 0 := by
    intro ht
    obtain ⟨hb, hac⟩ := hz ht
    have : qDiscr a b c = 0 := by unfold qDiscr; rw [hb]; linarith
    linarith
  -- `t/a = c/t` would force `t = -b/2`, i.e. `s D = 0`
  have hne : qTerm s a b c / a ≠ c / qTerm s a b c := by
    intro he
    rw [div_eq_div_iff ha ht] at he
    have h2 : qTerm s a b c * (2 * qTerm s a b c + b) = 0 := by linear_combination hq + he
    have h3 : 2 * qTerm s a b c + b = 0 := (mul_eq_zero.mp h2).resolve_left ht
    have h4 : (if -(1/2) * b < 0 then (-1 : F) else 1) * s (qDiscr a b c) = 0 := by
      rw [hdef] at h3; linarith
    have h5 : s (qDiscr a b c) = 0 := by
      split_ifs at h4 <;> linarith
    rw [h5] at hr2
    linarith
  intro u hu
  unfold quadCells at hu
  rw [solveQuadratic_nonneg s a b c hD'] at hu
  simp only [ht, if_false, ha, hne, decide_false, SCell.maskIf, SCell.qeq, Bool.false_and,
    Bool.false_or, Bool.false_eq_true, ops_beq, List.mem_cons, List.not_mem_nil, or_false] at hu
  rcases hu with rfl | rfl
  · rfl
  · simp

/-! order 1 -/
theorem rootsLinear_spec (s : F → F) (a b x : F) (hnz : ¬ (a = 0 ∧ b = 0)) :
    (∃ u ∈ @rootsLinear F _ _ _ _ (fieldOps s) ⟨a, false⟩ ⟨b, false⟩, u.m = false ∧ u.v = x) ↔ a * x + b = 0 := by
  by_cases ha : a = 0
  · have hb : b ≠ 0 := fun hb => hnz ⟨ha, hb⟩
    simp [rootsLinear, SCell.div, SCell.neg, ops_beq, ha, hb]
  · simp [rootsLinear, SCell.div, SCell.neg, ops_beq, ha]
    rw [div_eq_iff ha]
    constructor <;> intro h <;> linarith

/-! order ≥ 3: post-processing of the eigenvalues -/

/-- `x` occurs as an unmasked value -/
def UVal (l : List (SCell F)) (x : F) : Prop := ∃ u ∈ l, u.m = false ∧ u.v = x

theorem UVal_perm {l l' : List (SCell F)} (h : l.Perm l') (x : F) : UVal l x ↔ UVal l' x := by
  unfold UVal
  constructor <;> rintro ⟨u, hu, h1⟩
  · exact ⟨u, h.mem_iff.mp hu, h1⟩
  · exact ⟨u, h.mem_iff.mpr hu, h1⟩

theorem UVal_cons (c : SCell F) (l : List (SCell F)) (x : F) :
    UVal (c :: l) x ↔ (c.m = false ∧ c.v = x) ∨ UVal l x := by
  simp [UVal]

theorem maskFirst_UVal (k : Nat) (l : List (SCell F)) (x : F) :
    UVal (maskFirst k l) x ↔ UVal (l.drop k) x := by
  induction k generalizing l with
  | zero => simp [maskFirst]
  | succ k ih =>
    cases l with
    | nil => simp [maskFirst]
    | cons c l => simp [maskFirst, UVal_cons, SCell.maskIf, ih]

theorem length_maskFirst (k : Nat) (l : List (SCell F)) : (maskFirst k l).length = l.length := by
  induction k generalizing l with
  | zero => simp [maskFirst]
  | succ k ih => cases l <;> simp [maskFirst, ih]

theorem maskFirst_masked (k : Nat) (l : List (SCell F)) (h : ∀ u ∈ l, u.m = true) :
    ∀ u ∈ maskFirst k l, u.m = true := by
  induction k generalizing l with
  | zero => simpa [maskFirst] using h
  | succ k ih =>
    cases l with
    | nil => simp [maskFirst]
    | cons c l =>
      intro u hu
      simp only [maskFirst, List.mem_cons] at hu
      rcases hu with rfl | hu
      · simp [SCell.maskIf]
      · exact ih l (fun v hv => h v (List.mem_cons_of_mem _ hv)) u hu

/-- masked entries come last -/
def MaskedLast (l : List (SCell F)) : Prop := l.Pairwise (fun u v => u.m = true → v.m = true)

theorem sorted_maskedLast (s : F → F) (l : List (SCell F))
    (h : l.Pairwise (fun u v => @SCell.le F (fieldOps s) u v = true)) : MaskedLast l := by
  refine h.imp ?_
  intro u v huv hu
  rw [le_iff] at huv
  rcases huv with h | ⟨h, _⟩
  · exact h
  · simp [hu] at h

section dups
variable (s : F → F)

theorem length_maskDups (prev : F) (l : List (SCell F)) :
    (@maskDups F (fieldOps s) prev l).length = l.length := by
  induction l generalizing prev with
  | nil => rfl
  | cons c l ih => simp [maskDups, ih]

theorem maskDups_sub (prev : F) (l : List (SCell F)) (x : F) :
    UVal (@maskDups F (fieldOps s) prev l) x → UVal l x := by
  induction l generalizing prev with
  | nil => simp [maskDups]
  | cons c l ih =>
    simp only [maskDups, UVal_cons, SCell.maskIf]
    rintro (⟨h1, h2⟩ | h)
    · left
      simp only [Bool.or_eq_false_iff] at h1
      exact ⟨h1.1, h2⟩
    · exact Or.inr (ih _ h)

theorem maskDups_sup (prev : F) (l : List (SCell F)) (x : F) (hl : MaskedLast l) (hx : x ≠ prev) :
    UVal l x → UVal (@maskDups F (fieldOps s) prev l) x := by
  induction l generalizing prev with
  | nil => simp [UVal]
  | cons c l ih =>
    have hl' : MaskedLast l := (List.pairwise_cons.mp hl).2
    have hc : ∀ v ∈ l, c.m = true → v.m = true := (List.pairwise_cons.mp hl).1
    simp only [maskDups, UVal_cons, SCell.maskIf]
    intro h
    by_cases hcx : c.m = false ∧ c.v = x
    · left
      obtain ⟨h1, h2⟩ := hcx
      refine ⟨?_, h2⟩
      simp [h1, ops_beq, h2, hx]
    · rcases h with h | h
      · exact absurd h hcx
      · right
        obtain ⟨u, hu, hum, huv⟩ := h
        have hcm : c.m = false := by
          cases hcm : c.m
          · rfl
          · have := hc u hu hcm; simp [hum] at this
        have hne : x ≠ c.v := fun e => hcx ⟨hcm, e.symm⟩
        exact ih c.v hl' hne ⟨u, hu, hum, huv⟩

theorem maskDups_distinct (prev : F) (l : List (SCell F))
    (hs : l.Pairwise (fun u v => @SCell.le F (fieldOps s) u v = true))
    (hp : ∀ u ∈ l, u.m = false → prev ≤ u.v) :
    DistinctU (@maskDups F (fieldOps s) prev l) ∧
      ∀ x, UVal (@maskDups F (fieldOps s) prev l) x → x ≠ prev := by
  induction l generalizing prev with
  | nil => simp [maskDups, DistinctU, UVal]
  | cons c l ih =>
    have hs' := (List.pairwise_cons.mp hs).2
    have hcl := (List.pairwise_cons.mp hs).1
    have hp' : ∀ u ∈ l, u.m = false → c.v ≤ u.v := by
      intro u hu hum
      have := hcl u hu
      rw [le_iff] at this
      rcases this with h | ⟨_, h⟩
      · simp [hum] at h
      · exact h
    obtain ⟨ih1, ih2⟩ := ih c.v hs' hp'
    constructor
    · simp only [maskDups, DistinctU, List.pairwise_cons]
      refine ⟨?_, ih1⟩
      intro v hv
      by_cases hvm : v.m = true
      · exact Or.inr (Or.inl hvm)
      · have hvm' : v.m = false := by simpa using hvm
        by_cases hcm : (c.maskIf (@RootOps.beq F (fieldOps s) c.v prev && !c.m)).m = true
        · exact Or.inl hcm
        · refine Or.inr (Or.inr ?_)
          have := ih2 v.v ⟨v, hv, hvm', rfl⟩
          simpa [SCell.maskIf] using this.symm
    · intro x hx
      simp only [maskDups, UVal_cons, SCell.maskIf] at hx
      rcases hx with ⟨h1, h2⟩ | h
      · simp only [Bool.or_eq_false_iff, Bool.and_eq_false_iff, ops_beq] at h1
        obtain ⟨hcm, h1⟩ := h1
        rcases h1 with h1 | h1
        · rw [← h2]; simpa using h1
        · simp [hcm] at h1
      · have hne := ih2 x h
        obtain ⟨u, hu, hum, huv⟩ := maskDups_sub s c.v l x h
        -- `u` is unmasked, so `c` is unmasked (masked last) and `prev ≤ c.v ≤ x`
        have hcm : c.m = false := by
          cases hcm : c.m
          · rfl
          · have := sorted_maskedLast s _ hs
            have := (List.pairwise_cons.mp this).1 u hu hcm
            simp [hum] at this
        have h1 : prev ≤ c.v := hp c (List.mem_cons_self) hcm
        have h2 : c.v ≤ x := huv ▸ hp' u hu hum
        intro e
        exact hne (le_antisymm (by rw [e]; exact h1) h2)

theorem length_maskDupsSorted (l : List (SCell F)) :
    (@maskDupsSorted F (fieldOps s) l).length = l.length := by
  cases l with
  | nil => rfl
  | cons c l => simp [maskDupsSorted, length_maskDups]

theorem maskDupsSorted_UVal (l : List (SCell F))
    (hs : l.Pairwise (fun u v => @SCell.le F (fieldOps s) u v = true)) (x : F) :
    UVal (@maskDupsSorted F (fieldOps s) l) x ↔ UVal l x := by
  cases l with
  | nil => rfl
  | cons c l =>
    have hml := sorted_maskedLast s _ hs
    simp only [maskDupsSorted, UVal_cons]
    constructor
    · rintro (h | h)
      · exact Or.inl h
      · exact Or.inr (maskDups_sub s _ _ _ h)
    · rintro (h | h)
      · exact Or.inl h
      · by_cases hcx : c.m = false ∧ c.v = x
        · exact Or.inl hcx
        · right
          obtain ⟨u, hu, hum, huv⟩ := h
          have hcm : c.m = false := by
            cases hcm : c.m
            · rfl
            · have := (List.pairwise_cons.mp hml).1 u hu hcm; simp [hum] at this
          have hne : x ≠ c.v := fun e => hcx ⟨hcm, e.symm⟩
          exact maskDups_sup s c.v l x (List.pairwise_cons.mp hml).2 hne ⟨u, hu, hum, huv⟩

theorem maskDupsSorted_distinct (l : List (SCell F))
    (hs : l.Pairwise (fun u v => @SCell.le F (fieldOps s) u v = true)) :
    DistinctU (@maskDupsSorted F (fieldOps s) l) := by
  cases l with
  | nil => simp [maskDupsSorted, DistinctU]
  | cons c l =>
    have hs' := (List.pairwise_cons.mp hs).2
    have hcl := (List.pairwise_cons.mp hs).1
    have hp' : ∀ u ∈ l, u.m = false → c.v ≤ u.v := by
      intro u hu hum
      have := hcl u hu
      rw [le_iff] at this
      rcases this with h | ⟨_, h⟩
      · simp [hum] at h
      · exact h
    obtain ⟨d1, d2⟩ := maskDups_distinct s c.v l hs' hp'
    simp only [maskDupsSorted, DistinctU, List.pairwise_cons]
    refine ⟨?_, d1⟩
    intro v hv
    by_cases hvm : v.m = true
    · exact Or.inr (Or.inl hvm)
    · have hvm' : v.m = false := by simpa using hvm
      exact Or.inr (Or.inr (d2 v.v ⟨v, hv, hvm', rfl⟩).symm)

/-- the cells made from the eigenvalues: real part, masked when complex or when the polynomial is masked -/
def eigCells (pm : Bool) (eig : List (F × F)) : List (SCell F) :=
  eig.map fun z => (⟨z.1, pm || !(@RootOps.beq F (fieldOps s) z.2 0)⟩ : SCell F)

theorem rootsPost_eq (pm : Bool) (k : Nat) (eig : List (F × F)) :
    @rootsPost F _ (fieldOps s) pm k eig =
      @sortCells F (fieldOps s) (@maskDupsSorted F (fieldOps s)
        (@sortCells F (fieldOps s) (maskFirst k (eigCells s pm eig)))) := rfl

theorem rootsPost_length (pm : Bool) (k : Nat) (eig : List (F × F)) :
    (@rootsPost F _ (fieldOps s) pm k eig).length = eig.length := by
  rw [rootsPost_eq, (sortCells_perm s _).length_eq, length_maskDupsSorted, (sortCells_perm s _).length_eq,
    length_maskFirst, eigCells, List.length_map]

theorem rootsPost_strict (pm : Bool) (k : Nat) (eig : List (F × F)) :
    StrictAsc (@rootsPost F _ (fieldOps s) pm k eig) := by
  rw [rootsPost_eq]
  exact sortCells_strict s _ (maskDupsSorted_distinct s _ (sortCells_pairwise s _))

theorem rootsPost_UVal (k : Nat) (eig : List (F × F)) (x : F) :
    UVal (@rootsPost F _ (fieldOps s) false k eig) x ↔ ∃ z ∈ eig.drop k, z.2 = 0 ∧ z.1 = x := by
  rw [rootsPost_eq, UVal_perm (sortCells_perm s _), maskDupsSorted_UVal s _ (sortCells_pairwise s _),
    UVal_perm (sortCells_perm s _), maskFirst_UVal, eigCells, ← List.map_drop]
  unfold UVal
  constructor
  · rintro ⟨u, hu, hm, hv⟩
    rw [List.mem_map] at hu
    obtain ⟨z, hz, rfl⟩ := hu
    refine ⟨z, hz, ?_, hv⟩
    simpa [ops_beq] using hm
  · rintro ⟨z, hz, h2, h1⟩
    refine ⟨_, List.mem_map_of_mem hz, ?_, h1⟩
    simp [ops_beq, h2]

theorem mem_maskDups_masked (prev : F) (l : List (SCell F)) (h : ∀ u ∈ l, u.m = true) :
    ∀ u ∈ @maskDups F (fieldOps s) prev l, u.m = true := by
  induction l generalizing prev with
  | nil => simp [maskDups]
  | cons c l ih =>
    intro u hu
    simp only [maskDups, List.mem_cons] at hu
    rcases hu with rfl | hu
    · simp [SCell.maskIf, h c List.mem_cons_self]
    · exact ih c.v (fun v hv => h v (List.mem_cons_of_mem _ hv)) u hu

theorem rootsPost_masked (k : Nat) (eig : List (F × F)) :
    ∀ u ∈ @rootsPost F _ (fieldOps s) true k eig, u.m = true := by
  rw [rootsPost_eq]
  have h0 : ∀ u ∈ eigCells s true eig, u.m = true := by
    intro u hu
    simp only [eigCells, List.mem_map] at hu
    obtain ⟨z, _, rfl⟩ := hu
    rfl
  have h1 := maskFirst_masked k _ h0
  have h2 : ∀ u ∈ @sortCells F (fieldOps s) (maskFirst k (eigCells s true eig)), u.m = true :=
    fun u hu => h1 u ((sortCells_perm s _).mem_iff.mp hu)
  have h3 : ∀ u ∈ @maskDupsSorted F (fieldOps s)
      (@sortCells F (fieldOps s) (maskFirst k (eigCells s true eig))), u.m = true := by
    generalize @sortCells F (fieldOps s) (maskFirst k (eigCells s true eig)) = l at h2
    cases l with
    | nil => simp [maskDupsSorted]
    | cons c l =>
      intro u hu
      simp only [maskDupsSorted, List.mem_cons] at hu
      rcases hu with rfl | hu
      · exact h2 _ List.mem_cons_self
      · exact mem_maskDups_masked s c.v l (fun v hv => h2 v (List.mem_cons_of_mem _ hv)) u hu
  exact fun u hu => h3 u ((sortCells_perm s _).mem_iff.mp hu)
end dups
end PMV.Poly
