import Mathlib.Algebra.Order.Archimedean.Real.Basic
import Mathlib.Tactic.Linarith
import Mathlib.Tactic.FieldSimp
import Mathlib.Tactic.Positivity
/-
  C11 — the scaled-integer float encoder (`_encode_one_float_array`, pickler.py:620-651, and
  `_decode_scaled_uints`, pickler.py:711-734) over the REAL numbers: float rounding inside the
  encoder itself is not modelled.
-/
namespace PMV.PickleReal

/-- pickler.py:621-622 `scale_factor = 256**nbytes / span * (1 - epsilon)` -/
noncomputable def scaleFactor (span eps : ℝ) (n : ℕ) : ℝ := (256 : ℝ) ^ n / span * (1 - eps)

/-- pickler.py:625 + `astype(uint…)`: truncation of `scale_factor * (x - minval)` -/
noncomputable def encode (minval span eps : ℝ) (n : ℕ) (x : ℝ) : ℤ :=
  ⌊scaleFactor span eps n * (x - minval)⌋

/-- pickler.py:648-649 + 734: `values = (1/scale_factor) * ints + (minval + 0.5/scale_factor)` -/
noncomputable def decode (minval span eps : ℝ) (n : ℕ) (k : ℤ) : ℝ :=
  1 / scaleFactor span eps n * (k : ℝ) + (minval + 0.5 / scaleFactor span eps n)

theorem scaleFactor_pos {span eps : ℝ} (n : ℕ) (hs : 0 < span) (he : eps < 1) :
    0 < scaleFactor span eps n := by
  unfold scaleFactor
  have : (0 : ℝ) < 256 ^ n := by positivity
  have h1 : 0 < 1 - eps := by linarith
  positivity

/-- the stored integer fits in `n` bytes: `0 ≤ k < 256^n` -/
theorem encode_range (minval maxval eps : ℝ) (n : ℕ) (x : ℝ) (hmin : minval ≤ x) (hmax : x ≤ maxval)
    (hs : 0 < maxval - minval) (he0 : 0 < eps) (he : eps < 1) :
    0 ≤ encode minval (maxval - minval) eps n x ∧
    ((encode minval (maxval - minval) eps n x : ℤ) : ℝ) < (256 : ℝ) ^ n := by
  have hsf := scaleFactor_pos n hs he
  constructor
  · apply Int.floor_nonneg.mpr
    exact mul_nonneg hsf.le (by linarith)
  · have h1 : scaleFactor (maxval - minval) eps n * (x - minval) ≤ (256 : ℝ) ^ n * (1 - eps) := by
      have : scaleFactor (maxval - minval) eps n * (x - minval)
          ≤ scaleFactor (maxval - minval) eps n * (maxval - minval) :=
        mul_le_mul_of_nonneg_left (by linarith) hsf.le
      have h2 : scaleFactor (maxval - minval) eps n * (maxval - minval) = (256 : ℝ) ^ n * (1 - eps) := by
        unfold scaleFactor; field_simp
      linarith
    have h256 : (0 : ℝ) < 256 ^ n := by positivity
    have h3 : (256 : ℝ) ^ n * (1 - eps) < 256 ^ n := by nlinarith
    have := Int.floor_le (scaleFactor (maxval - minval) eps n * (x - minval))
    unfold encode
    linarith

/-- **scaled_bound**: for `x` in `[min, max]` the restored value differs from `x` by at most half
    a quantisation step, `span / (2 · 256^n · (1 − ε))` -/
theorem scaled_bound (minval maxval eps : ℝ) (n : ℕ) (x : ℝ)
    (hs : 0 < maxval - minval) (he : eps < 1) :
    |decode minval (maxval - minval) eps n (encode minval (maxval - minval) eps n x) - x|
      ≤ (maxval - minval) / (2 * (256 : ℝ) ^ n * (1 - eps)) := by
  have hsf := scaleFactor_pos n hs he
  set s := scaleFactor (maxval - minval) eps n with hsdef
  have hfl := Int.floor_le (s * (x - minval))
  have hlt := Int.lt_floor_add_one (s * (x - minval))
  set k : ℝ := ((⌊s * (x - minval)⌋ : ℤ) : ℝ) with hk
  have hhalf : (maxval - minval) / (2 * (256 : ℝ) ^ n * (1 - eps)) = 0.5 / s := by
    rw [hsdef]; unfold scaleFactor
    have h256 : (0 : ℝ) < 256 ^ n := by positivity
    have h1 : 0 < 1 - eps := by linarith
    field_simp
    ring
  rw [hhalf]
  have hdec : decode minval (maxval - minval) eps n (encode minval (maxval - minval) eps n x) - x
      = (k - s * (x - minval)) / s + 0.5 / s := by
    unfold decode encode
    rw [← hsdef, ← hk]
    field_simp
    ring
  rw [hdec, abs_le]
  have h1 : -1 / s < (k - s * (x - minval)) / s := by
    apply div_lt_div_of_pos_right _ hsf; linarith
  have h2 : (k - s * (x - minval)) / s ≤ 0 := by
    apply div_nonpos_of_nonpos_of_nonneg _ hsf.le; linarith
  have h3 : -1 / s + 0.5 / s = -(0.5 / s) := by ring
  constructor <;> linarith

/-- **the chosen number of bytes is enough**: `nbytes` is `log₂₅₆(span/precision + 1)` rounded
    up (pickler.py:605-607), i.e. `256^n ≥ span/precision + 1`; with `ε ≤ 1/2` (ε is 2⁻⁵²) the
    error is at most `precision = ref · 10^(−digits)` -/
theorem scaled_within_precision (minval maxval eps precision : ℝ) (n : ℕ) (x : ℝ)
    (hs : 0 < maxval - minval) (he : eps ≤ 1 / 2) (hp : 0 < precision)
    (hn : (maxval - minval) / precision + 1 ≤ (256 : ℝ) ^ n) :
    |decode minval (maxval - minval) eps n (encode minval (maxval - minval) eps n x) - x| ≤ precision := by
  refine le_trans (scaled_bound minval maxval eps n x hs (by linarith)) ?_
  have h256 : (0 : ℝ) < 256 ^ n := by positivity
  have h1 : (1 : ℝ) / 2 ≤ 1 - eps := by linarith
  have hden : 0 < 2 * (256 : ℝ) ^ n * (1 - eps) := by positivity
  rw [div_le_iff₀ hden]
  have h2 : (maxval - minval) ≤ precision * ((256 : ℝ) ^ n - 1) := by
    have : (maxval - minval) / precision ≤ (256 : ℝ) ^ n - 1 := by linarith
    rw [div_le_iff₀ hp] at this
    linarith
  nlinarith

/-- a constant array (`span == 0`) is stored as its value: exact -/
theorem constant_exact (c : ℝ) (xs : List ℝ) (h : ∀ x ∈ xs, x = c) :
    xs.map (fun _ => c) = xs := by
  induction xs with
  | nil => rfl
  | cons x xs ih =>
    simp only [List.map_cons]
    rw [ih (fun y hy => h y (by simp [hy])), h x (by simp)]

/-- non-vacuity: one byte, values in [0, 10] -/
example : |decode 0 (10 - 0) 0 1 (encode 0 (10 - 0) 0 1 3.3) - 3.3| ≤ (10 - 0) / (2 * (256 : ℝ) ^ 1 * (1 - 0)) :=
  scaled_bound 0 10 0 1 3.3 (by norm_num) (by norm_num)

end PMV.PickleReal
