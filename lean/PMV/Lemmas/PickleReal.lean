import Mathlib.Algebra.Order.Archimedean.Real.Basic
import Mathlib.Tactic.Linarith
import Mathlib.Tactic.FieldSimp
import Mathlib.Tactic.Positivity
import Mathlib.Tactic.NormNum
import Mathlib.Analysis.SpecialFunctions.Log.Basic
/-
  C11 — the scaled-integer float encoder (`_encode_one_float_array`, pickler.py:620-651, and
  `_decode_scaled_uints`, pickler.py:711-734) over the REAL numbers: float rounding inside the
  encoder itself is not modelled.
-/
namespace PMV.PickleReal

/-- pickler.py:621-622 `scale_factor = 256**nbytes / span * (1 - epsilon)` -/
noncomputable def scaleFactor (span eps : ℝ) (n : ℕ) : ℝ := (256 : ℝ) ^ n / span * (1 - eps)

/-- pickler.py:625 + `astype(uint…)`: truncation of `scale_factor * (x - minval)` -/
noncomputable def encode (minval span eps : ℝ) (n : ℕ) (x : ℝ) : ℤ :=
  ⌊scaleFactor span eps n * (x - minval)⌋

/-- pickler.py:648-649 + 734: `values = (1/scale_factor) * ints + (minval + 0.5/scale_factor)` -/
noncomputable def decode (minval span eps : ℝ) (n : ℕ) (k : ℤ) : ℝ :=
  1 / scaleFactor span eps n * (k : ℝ) + (minval + 0.5 / scaleFactor span eps n)

theorem scaleFactor_pos {span eps : ℝ} (n : ℕ) (hs : 0 < span) (he : eps < 1) :
    0 < scaleFactor span eps n := by
  unfold scaleFactor
  have : (0 : ℝ) < 256 ^ n := by positivity
  have h1 : 0 < 1 - eps := by linarith
  positivity

/-- the stored integer fits in `n` bytes: `0 ≤ k < 256^n` -/
theorem encode_range (minval maxval eps : ℝ) (n : ℕ) (x : ℝ) (hmin : minval ≤ x) (hmax : x ≤ maxval)
    (hs : 0 < maxval - minval) (he0 : 0 < eps) (he : eps < 1) :
    0 ≤ encode minval (maxval - minval) eps n x ∧
    ((encode minval (maxval - minval) eps n x : ℤ) : ℝ) < (256 : ℝ) ^ n := by
  have hsf := scaleFactor_pos n hs he
  constructor
  · apply Int.floor_nonneg.mpr
    exact mul_nonneg hsf.le (by linarith)
  · have h1 : scaleFactor (maxval - minval) eps n * (x - minval) ≤ (256 : ℝ) ^ n * (1 - eps) := by
      have : scaleFactor (maxval - minval) eps n * (x - minval)
          ≤ scaleFactor (maxval - minval) eps n * (maxval - minval) :=
        mul_le_mul_of_nonneg_left (by linarith) hsf.le
      have h2 : scaleFactor (maxval - minval) eps n * (maxval - minval) = (256 : ℝ) ^ n * (1 - eps) := by
        unfold scaleFactor; field_simp
      linarith
    have h256 : (0 : ℝ) < 256 ^ n := by positivity
    have h3 : (256 : ℝ) ^ n * (1 - eps) < 256 ^ n := by nlinarith
    have := Int.floor_le (scaleFactor (maxval - minval) eps n * (x - minval))
    unfold encode
    linarith

/-- **scaled_bound**: for `x` in `[min, max]` the restored value differs from `x` by at most half
    a quantisation step, `span / (2 · 256^n · (1 − ε))` -/
theorem scaled_bound (minval maxval eps : ℝ) (n : ℕ) (x : ℝ)
    (hs : 0 < maxval - minval) (he : eps < 1) :
    |decode minval (maxval - minval) eps n (encode minval (maxval - minval) eps n x) - x|
      ≤ (maxval - minval) / (2 * (256 : ℝ) ^ n * (1 - eps)) := by
  have hsf := scaleFactor_pos n hs he
  set s := scaleFactor (maxval - minval) eps n with hsdef
  have hfl := Int.floor_le (s * (x - minval))
  have hlt := Int.lt_floor_add_one (s * (x - minval))
  set k : ℝ := ((⌊s * (x - minval)⌋ : ℤ) : ℝ) with hk
  have hhalf : (maxval - minval) / (2 * (256 : ℝ) ^ n * (1 - eps)) = 0.5 / s := by
    rw [hsdef]; unfold scaleFactor
    have h256 : (0 : ℝ) < 256 ^ n := by positivity
    have h1 : 0 < 1 - eps := by linarith
    field_simp
    ring
  rw [hhalf]
  have hdec : decode minval (maxval - minval) eps n (encode minval (maxval - minval) eps n x) - x
      = (k - s * (x - minval)) / s + 0.5 / s := by
    unfold decode encode
    rw [← hsdef, ← hk]
    field_simp
    ring
  rw [hdec, abs_le]
  have h1 : -1 / s < (k - s * (x - minval)) / s := by
    apply div_lt_div_of_pos_right _ hsf; linarith
  have h2 : (k - s * (x - minval)) / s ≤ 0 := by
    apply div_nonpos_of_nonpos_of_nonneg _ hsf.le; linarith
  have h3 : -1 / s + 0.5 / s = -(0.5 / s) := by ring
  constructor <;> linarith

/-- **the chosen number of bytes is enough**: `nbytes` is `log₂₅₆(span/precision + 1)` rounded
    up (pickler.py:605-607), i.e. `256^n ≥ span/precision + 1`; with `ε ≤ 1/2` (ε is 2⁻⁵²) the
    error is at most `precision = ref · 10^(−digits)` -/
theorem scaled_within_precision (minval maxval eps precision : ℝ) (n : ℕ) (x : ℝ)
    (hs : 0 < maxval - minval) (he : eps ≤ 1 / 2) (hp : 0 < precision)
    (hn : (maxval - minval) / precision + 1 ≤ (256 : ℝ) ^ n) :
    |decode minval (maxval - minval) eps n (encode minval (maxval - minval) eps n x) - x| ≤ precision := by
  refine le_trans (scaled_bound minval maxval eps n x hs (by linarith)) ?_
  have h256 : (0 : ℝ) < 256 ^ n := by positivity
  have h1 : (1 : ℝ) / 2 ≤ 1 - eps := by linarith
  have hden : 0 < 2 * (256 : ℝ) ^ n * (1 - eps) := by positivity
  rw [div_le_iff₀ hden]
  have h2 : (maxval - minval) ≤ precision * ((256 : ℝ) ^ n - 1) := by
    have : (maxval - minval) / precision ≤ (256 : ℝ) ^ n - 1 := by linarith
    rw [div_le_iff₀ hp] at this
    linarith
  nlinarith

/-- a constant array (`span == 0`) is stored as its value: exact -/
theorem constant_exact (c : ℝ) (xs : List ℝ) (h : ∀ x ∈ xs, x = c) :
    xs.map (fun _ => c) = xs := by
  induction xs with
  | nil => rfl
  | cons x xs ih =>
    simp only [List.map_cons]
    rw [ih (fun y hy => h y (by simp [hy])), h x (by simp)]

/-! ### the single-precision shortcut (pickler.py `_encode_one_float_array`, after the repair) -/

/-- **float32 shortcut**: the shortcut is taken only when `precision ≥ max|x| · c` with
    `c = 10^(−SINGLE_DIGITS) = 2⁻²³`; under the rounding contract of IEEE binary32
    (`|fl32(x) − x| ≤ 2⁻²⁴·|x|`, a hypothesis: no overflow / underflow) every restored value is
    within `precision = ref · 10^(−digits)`, whatever the reference -/
theorem float32_shortcut_bound (x fl maxabs precision c : ℝ)
    (hx : |x| ≤ maxabs) (hfl : |fl - x| ≤ (2 : ℝ)⁻¹ ^ 24 * |x|) (hc : (2 : ℝ)⁻¹ ^ 24 ≤ c)
    (hgate : maxabs * c ≤ precision) : |fl - x| ≤ precision := by
  have h0 : 0 ≤ |x| := abs_nonneg x
  have h24 : (0 : ℝ) ≤ (2 : ℝ)⁻¹ ^ 24 := by positivity
  calc |fl - x| ≤ (2 : ℝ)⁻¹ ^ 24 * |x| := hfl
    _ ≤ c * maxabs := by
        apply mul_le_mul hc hx h0 (le_trans h24 hc)
    _ = maxabs * c := by ring
    _ ≤ precision := hgate

/-- the condition of the pinned tree (and of a mutant gating on the reference value instead of
    the largest magnitude) is NOT enough: reference 1 ('smallest'), a value of 400 rounded
    within the binary32 contract, precision `1·2⁻²³` — the error exceeds the precision -/
theorem float32_old_gate_counterexample :
    ∃ x fl ref precision c : ℝ, |fl - x| ≤ (2 : ℝ)⁻¹ ^ 24 * |x| ∧ c = (2 : ℝ)⁻¹ ^ 23 ∧
      ref * c ≤ precision ∧ ¬ |fl - x| ≤ precision := by
  refine ⟨400, 400 + (2 : ℝ)⁻¹ ^ 24 * 400, 1, (2 : ℝ)⁻¹ ^ 23, (2 : ℝ)⁻¹ ^ 23, ?_, rfl, by norm_num, ?_⟩
  · rw [add_sub_cancel_left, abs_of_pos (by positivity), abs_of_pos (by norm_num : (0 : ℝ) < 400)]
  · rw [add_sub_cancel_left, abs_of_pos (by positivity)]
    norm_num

/-! ### reference values (pickler.py `_encode_one_float_array`: 'smallest', 'largest', 'mean',
    'median', 'logmean' of the non-zero absolute values) -/

/-- `np.abs(raveled[raveled != 0.])` -/
noncomputable def absNonzero (xs : List ℝ) : List ℝ := (xs.filter (· ≠ 0)).map (|·|)

/-- `np.min` / `np.max` of a non-empty list (first element as seed) -/
noncomputable def lmin : List ℝ → ℝ
  | [] => 0
  | [a] => a
  | a :: b :: l => min a (lmin (b :: l))
noncomputable def lmax : List ℝ → ℝ
  | [] => 0
  | [a] => a
  | a :: b :: l => max a (lmax (b :: l))
/-- `np.mean` -/
noncomputable def lmean (l : List ℝ) : ℝ := l.sum / l.length
/-- `np.exp(np.mean(np.log(a)))` -/
noncomputable def llogmean (l : List ℝ) : ℝ := Real.exp (lmean (l.map Real.log))
/-- `np.median` of an already sorted list: the middle element, or the mean of the two middle ones -/
noncomputable def medianSorted (s : List ℝ) : ℝ :=
  if s.length % 2 = 1 then s.getD (s.length / 2) 0
  else (s.getD (s.length / 2 - 1) 0 + s.getD (s.length / 2) 0) / 2

theorem absNonzero_pos (xs : List ℝ) : ∀ a ∈ absNonzero xs, 0 < a := by
  intro a ha
  simp only [absNonzero, List.mem_map, List.mem_filter, decide_eq_true_eq] at ha
  obtain ⟨x, ⟨_, hx⟩, rfl⟩ := ha
  exact abs_pos.mpr hx

theorem lmin_le : ∀ (l : List ℝ) (a : ℝ), a ∈ l → lmin l ≤ a
  | [], a, h => by simp at h
  | [b], a, h => by simp at h; simp [lmin, h]
  | b :: c :: l, a, h => by
    simp only [lmin]
    rcases List.mem_cons.mp h with h | h
    · rw [h]; exact min_le_left _ _
    · exact le_trans (min_le_right _ _) (lmin_le (c :: l) a h)

theorem le_lmax : ∀ (l : List ℝ) (a : ℝ), a ∈ l → a ≤ lmax l
  | [], a, h => by simp at h
  | [b], a, h => by simp at h; simp [lmax, h]
  | b :: c :: l, a, h => by
    simp only [lmax]
    rcases List.mem_cons.mp h with h | h
    · rw [h]; exact le_max_left _ _
    · exact le_trans (le_lmax (c :: l) a h) (le_max_right _ _)

theorem sum_bounds (lo hi : ℝ) : ∀ (l : List ℝ), (∀ a ∈ l, lo ≤ a ∧ a ≤ hi) →
    lo * l.length ≤ l.sum ∧ l.sum ≤ hi * l.length
  | [], _ => by simp
  | a :: l, h => by
    obtain ⟨h1, h2⟩ := sum_bounds lo hi l (fun b hb => h b (List.mem_cons_of_mem _ hb))
    obtain ⟨ha1, ha2⟩ := h a (by simp)
    simp only [List.sum_cons, List.length_cons, Nat.cast_add, Nat.cast_one]
    constructor <;> nlinarith

/-- the mean of a non-empty list lies between any bounds of its elements -/
theorem lmean_between (lo hi : ℝ) (l : List ℝ) (hne : l ≠ []) (h : ∀ a ∈ l, lo ≤ a ∧ a ≤ hi) :
    lo ≤ lmean l ∧ lmean l ≤ hi := by
  obtain ⟨h1, h2⟩ := sum_bounds lo hi l h
  have hlen : (0 : ℝ) < l.length := by
    have : 0 < l.length := List.length_pos_iff.mpr hne
    exact_mod_cast this
  unfold lmean
  constructor
  · rw [le_div_iff₀ hlen]; exact h1
  · rw [div_le_iff₀ hlen]; exact h2

/-- 'smallest' ≤ every non-zero magnitude ≤ 'largest': with reference 'smallest' the absolute
    precision `smallest·10^(−d)` is at most `|x|·10^(−d)` for EVERY non-zero value (each value keeps
    at least `d` digits); with 'largest' it is relative to the largest magnitude -/
theorem smallest_largest (xs : List ℝ) (x : ℝ) (hx : x ∈ xs) (h0 : x ≠ 0) :
    lmin (absNonzero xs) ≤ |x| ∧ |x| ≤ lmax (absNonzero xs) := by
  have hm : |x| ∈ absNonzero xs := by
    simp only [absNonzero, List.mem_map, List.mem_filter, decide_eq_true_eq]
    exact ⟨x, ⟨hx, h0⟩, rfl⟩
  exact ⟨lmin_le _ _ hm, le_lmax _ _ hm⟩

/-- 'mean' lies between 'smallest' and 'largest' -/
theorem mean_between (l : List ℝ) (hne : l ≠ []) : lmin l ≤ lmean l ∧ lmean l ≤ lmax l :=
  lmean_between _ _ l hne (fun a ha => ⟨lmin_le l a ha, le_lmax l a ha⟩)

/-- 'logmean' of positive values lies between 'smallest' and 'largest' -/
theorem logmean_between (l : List ℝ) (hne : l ≠ []) (hpos : ∀ a ∈ l, 0 < a) :
    lmin l ≤ llogmean l ∧ llogmean l ≤ lmax l := by
  have hmin_mem : ∀ (l : List ℝ), l ≠ [] → lmin l ∈ l ∧ lmax l ∈ l := by
    intro l
    induction l with
    | nil => intro h; exact absurd rfl h
    | cons a t ih =>
      intro _
      cases t with
      | nil => simp [lmin, lmax]
      | cons b t =>
        obtain ⟨h1, h2⟩ := ih (by simp)
        simp only [lmin, lmax]
        constructor
        · rcases min_choice a (lmin (b :: t)) with h | h <;> rw [h]
          · simp
          · exact List.mem_cons_of_mem _ h1
        · rcases max_choice a (lmax (b :: t)) with h | h <;> rw [h]
          · simp
          · exact List.mem_cons_of_mem _ h2
  obtain ⟨hmn, hmx⟩ := hmin_mem l hne
  have hminpos := hpos _ hmn
  have hmaxpos := hpos _ hmx
  have hb : ∀ y ∈ l.map Real.log, Real.log (lmin l) ≤ y ∧ y ≤ Real.log (lmax l) := by
    intro y hy
    obtain ⟨a, ha, rfl⟩ := List.mem_map.mp hy
    exact ⟨Real.log_le_log hminpos (lmin_le l a ha), Real.log_le_log (hpos a ha) (le_lmax l a ha)⟩
  obtain ⟨h1, h2⟩ := lmean_between _ _ (l.map Real.log) (by simpa using hne) hb
  unfold llogmean
  constructor
  · calc lmin l = Real.exp (Real.log (lmin l)) := (Real.exp_log hminpos).symm
      _ ≤ _ := Real.exp_le_exp.mpr h1
  · calc _ ≤ Real.exp (Real.log (lmax l)) := Real.exp_le_exp.mpr h2
      _ = lmax l := Real.exp_log hmaxpos

/-- 'median' (of the sorted values) lies between any bounds of the elements -/
theorem median_between (lo hi : ℝ) (s : List ℝ) (hne : s ≠ []) (h : ∀ a ∈ s, lo ≤ a ∧ a ≤ hi) :
    lo ≤ medianSorted s ∧ medianSorted s ≤ hi := by
  have hlen : 0 < s.length := List.length_pos_iff.mpr hne
  have hget : ∀ i, i < s.length → lo ≤ s.getD i 0 ∧ s.getD i 0 ≤ hi := by
    intro i hi'
    have : s.getD i 0 = s[i] := by simp [List.getD_eq_getElem?_getD, hi']
    rw [this]; exact h _ (List.getElem_mem hi')
  unfold medianSorted
  split
  · exact hget _ (Nat.div_lt_self hlen (by norm_num))
  · obtain ⟨a1, a2⟩ := hget (s.length / 2 - 1) (by omega)
    obtain ⟨b1, b2⟩ := hget (s.length / 2) (Nat.div_lt_self hlen (by norm_num))
    constructor <;> linarith

/-- `np.median`: sort, then take the middle -/
noncomputable def lmedian (l : List ℝ) : ℝ := medianSorted (l.mergeSort fun a b => decide (a ≤ b))

/-- 'median' lies between 'smallest' and 'largest' -/
theorem lmedian_between (l : List ℝ) (hne : l ≠ []) : lmin l ≤ lmedian l ∧ lmedian l ≤ lmax l := by
  unfold lmedian
  apply median_between
  · intro h
    have := congrArg List.length h
    simp at this
    exact hne this
  · intro a ha
    have ha' : a ∈ l := List.mem_mergeSort.mp ha
    exact ⟨lmin_le l a ha', le_lmax l a ha'⟩

/-- non-vacuity: one byte, values in [0, 10] -/
example : |decode 0 (10 - 0) 0 1 (encode 0 (10 - 0) 0 1 3.3) - 3.3| ≤ (10 - 0) / (2 * (256 : ℝ) ^ 1 * (1 - 0)) :=
  scaled_bound 0 10 0 1 3.3 (by norm_num) (by norm_num)

end PMV.PickleReal
