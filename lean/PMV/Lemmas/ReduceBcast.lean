import PMV.Model.Reduce
import PMV.Lemmas.Bcast
/-
  n-ary broadcasting for `Scalar.maximum/minimum` (C13): every operand shape of `bcastAll` is
  absorbed by the common shape, so a valid index of the result projects onto a valid index of
  EVERY operand.  Core Lean only; builds on PMV/Lemmas/Bcast.lean.
-/
namespace PMV.Reduce
open PMV

/-- `xs` is absorbed by `r` (both innermost axis first): not longer, and every axis is 1 or equal -/
def Into : List Nat → List Nat → Prop
  | [], _ => True
  | _ :: _, [] => False
  | x :: xs, y :: ys => (x = 1 ∨ x = y) ∧ Into xs ys

theorem into_refl (xs : List Nat) : Into xs xs := by
  induction xs with
  | nil => trivial
  | cons x xs ih => exact ⟨Or.inr rfl, ih⟩

theorem into_trans {a b c : List Nat} (h1 : Into a b) (h2 : Into b c) : Into a c := by
  induction a generalizing b c with
  | nil => trivial
  | cons x xs ih =>
    cases b with
    | nil => exact absurd h1 (by simp [Into])
    | cons y ys =>
      cases c with
      | nil => exact absurd h2 (by simp [Into])
      | cons z zs =>
        simp only [Into] at h1 h2 ⊢
        refine ⟨?_, ih h1.2 h2.2⟩
        rcases h1.1 with e | e
        · exact Or.inl e
        · rcases h2.1 with e2 | e2
          · left; omega
          · right; omega

theorem into_nil_right {xs : List Nat} (h : Into xs []) : xs = [] := by
  cases xs with
  | nil => rfl
  | cons x xs => exact absurd h (by simp [Into])

/-- both operands of a successful broadcast are absorbed by the result -/
theorem bcastRev_into_left {xs ys r : List Nat} (hb : bcastRev xs ys = some r) : Into xs r := by
  induction xs generalizing ys r with
  | nil => trivial
  | cons x xs ih =>
    cases ys with
    | nil =>
      simp only [bcastRev, Option.some.injEq] at hb
      subst hb; exact into_refl _
    | cons y ys =>
      rw [bcastRev_cons] at hb
      cases h1 : bcastRev xs ys with
      | none => rw [h1] at hb; cases hb
      | some r0 =>
        cases ha : axisRule x y with
        | none => rw [h1, ha] at hb; cases hb
        | some z =>
          rw [h1, ha] at hb
          simp only [consO, Option.some.injEq] at hb
          subst hb
          have hz := (axisRule_iff x y z).1 ha
          refine ⟨?_, ih h1⟩
          have h2 := hz.2
          by_cases hx : x = 1
          · exact Or.inl hx
          · rw [if_neg hx] at h2; exact Or.inr h2.symm

theorem bcastRev_into_right {xs ys r : List Nat} (hb : bcastRev xs ys = some r) : Into ys r :=
  bcastRev_into_left (by rw [bcastRev_comm]; exact hb)

/-- an index valid for `r` projects onto a valid index of anything `r` absorbs (reversed form) -/
theorem into_valid {xs r i : List Nat} (h : Into xs r) (hv : Valid r i) : Valid xs (bidxRev xs i) := by
  induction xs generalizing r i with
  | nil => simp [bidxRev, Valid]
  | cons x xs ih =>
    cases r with
    | nil => exact absurd h (by simp [Into])
    | cons y ys =>
      cases i with
      | nil => simp [Valid] at hv
      | cons a i =>
        simp only [Into] at h
        simp only [Valid] at hv
        simp only [bidxRev, Valid]
        refine ⟨?_, ih h.2 hv.2⟩
        split
        · omega
        · rename_i hx1
          rcases h.1 with e | e
          · exact absurd e hx1
          · omega

/-- every member of the list is absorbed by the folded broadcast shape -/
theorem bcastAll_into (shapes : List Shape) (out : Shape) (h : bcastAll shapes = some out) :
    ∀ s ∈ shapes, Into s.reverse out.reverse := by
  induction shapes generalizing out with
  | nil => intro s hs; cases hs
  | cons t ts ih =>
    simp only [bcastAll] at h
    cases hr : bcastAll ts with
    | none => rw [hr] at h; cases h
    | some r =>
      rw [hr] at h
      simp only [Option.bind_some, bcast, Option.map_eq_some_iff] at h
      obtain ⟨q, hq, rfl⟩ := h
      intro s hs
      simp only [List.reverse_reverse]
      rcases List.mem_cons.1 hs with rfl | hs
      · exact bcastRev_into_left hq
      · exact into_trans (ih r hr s hs) (bcastRev_into_right hq)

/-- **n-ary index validity**: an index valid for the common shape of any number of operands projects
    onto a valid index of every operand -/
theorem bcastAll_bidx_valid (shapes : List Shape) (out : Shape) (i : Index)
    (h : bcastAll shapes = some out) (hv : Valid out i) : ∀ s ∈ shapes, Valid s (bidx s i) := by
  intro s hs
  have hin := bcastAll_into shapes out h s hs
  have hv' : Valid out.reverse i.reverse := (valid_reverse out i).2 hv
  have := into_valid hin hv'
  simp only [bidx]
  exact (valid_reverse s (bidxRev s.reverse i.reverse).reverse).1 (by simpa using this)

end PMV.Reduce
