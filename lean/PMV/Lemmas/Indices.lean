import PMV.Core.Arr
/-
  Facts about the row-major enumeration `indices`: it lists exactly the valid indices of a
  shape, each once, `size` many.  (Core Lean only.)
-/
namespace PMV

theorem mem_indices : ∀ (s : Shape) (i : Index), i ∈ indices s ↔ Valid s i
  | [], i => by
    cases i <;> simp [indices, Valid]
  | n :: s, i => by
    cases i with
    | nil => simp [indices, Valid]
    | cons a is =>
      simp only [indices, List.mem_flatMap, List.mem_range, List.mem_map, Valid]
      constructor
      · rintro ⟨k, hk, j, hj, h⟩
        injection h with h1 h2
        subst h1; subst h2
        exact ⟨hk, (mem_indices s j).1 hj⟩
      · rintro ⟨ha, hv⟩
        exact ⟨a, ha, is, (mem_indices s is).2 hv, rfl⟩

theorem length_indices : ∀ (s : Shape), (indices s).length = size s
  | [] => rfl
  | n :: s => by
    have ih := length_indices s
    have : ∀ (l : List Nat), ((l.flatMap fun i => (indices s).map (i :: ·)).length) = l.length * size s := by
      intro l
      induction l with
      | nil => simp
      | cons x xs ihx =>
        simp only [List.flatMap_cons, List.length_append, List.length_map, ih, ihx, List.length_cons]
        rw [Nat.add_mul, Nat.one_mul, Nat.add_comm]
    simp only [indices, this, List.length_range]
    rfl

theorem nodup_flatMap_cons (L : List Index) (hL : L.Nodup) :
    ∀ (l : List Nat), l.Nodup → (l.flatMap fun i => L.map (i :: ·)).Nodup
  | [], _ => by simp
  | x :: xs, h => by
    have hx : x ∉ xs := (List.nodup_cons.1 h).1
    have hxs := nodup_flatMap_cons L hL xs (List.nodup_cons.1 h).2
    simp only [List.flatMap_cons]
    rw [List.nodup_append]
    refine ⟨List.Pairwise.map _ (fun a b (h : a ≠ b) h2 => h (by injection h2)) hL, hxs, ?_⟩
    intro a ha b hb hab
    simp only [List.mem_map] at ha
    obtain ⟨_, _, rfl⟩ := ha
    simp only [List.mem_flatMap, List.mem_map] at hb
    obtain ⟨k, hk, _, _, h⟩ := hb
    rw [← hab] at h
    injection h with h1 _
    exact hx (h1 ▸ hk)

theorem indices_nodup : ∀ (s : Shape), (indices s).Nodup
  | [] => by simp [indices]
  | n :: s => by
    simp only [indices]
    exact nodup_flatMap_cons _ (indices_nodup s) _ List.nodup_range

/-- `toList` has one entry per element -/
theorem Arr.length_toList {α} (a : Arr α) : a.toList.length = size a.shape := by
  simp [Arr.toList, length_indices]

end PMV
