import PMV.Model.Logic3
/-
  Generic induction principle for the lane reductions regenerated from the source (C14, T2):
  a lane function of the form  combine (red k₀ p₀ xs) (red k₁ p₁ xs) …  where each `red` is an
  `np.any` / `np.all` of an element-wise predicate equals a fold of a T3 operator over the lane as
  soon as a base equation and a one-step equation hold — and those two are finite (closed by
  `decide` in the generated obligations).  Core Lean only.
-/
namespace PMV.Logic3

/-- `np.any` (k = true) / `np.all` (k = false) of an element-wise predicate over a lane of
    (value bit, mask bit) pairs -/
def red (k : Bool) (p : Bool → Bool → Bool) (xs : List (Bool × Bool)) : Bool :=
  match k with
  | true => xs.any fun c => p c.1 c.2
  | false => xs.all fun c => p c.1 c.2

def redInit (k : Bool) : Bool := !k
def redStep (k : Bool) (x acc : Bool) : Bool := match k with | true => x || acc | false => x && acc

theorem red_nil (k p) : red k p [] = redInit k := by cases k <;> rfl
theorem red_cons (k p) (c : Bool × Bool) (cs) :
    red k p (c :: cs) = redStep k (p c.1 c.2) (red k p cs) := by cases k <;> rfl

def pairT3 (c : Bool × Bool) : T3 := Cell.t3 ⟨c.1, c.2⟩
def t3of (p : Bool × Bool) : T3 := Cell.t3 ⟨p.1, p.2⟩

/- Each lemma takes an invariant `I` on the accumulators (use `fun … => true` when none is needed): it must
   hold initially and be preserved by every step; the one-step equation is only required under it. -/

theorem fold1 (k0 : Bool) (p0 : Bool → Bool → Bool) (comb : Bool → Bool × Bool)
    (op : T3 → T3 → T3) (e : T3) (P : Bool → Bool → Bool) (I : Bool → Bool)
    (hbase : I (redInit k0) = true ∧ t3of (comb (redInit k0)) = e)
    (hstep : ∀ v m a0, P v m = true → I a0 = true →
      I (redStep k0 (p0 v m) a0) = true ∧
      t3of (comb (redStep k0 (p0 v m) a0)) = op (pairT3 (v, m)) (t3of (comb a0)))
    (xs : List (Bool × Bool)) (hP : ∀ c ∈ xs, P c.1 c.2 = true) :
    t3of (comb (red k0 p0 xs)) = (xs.map pairT3).foldr op e := by
  suffices h : I (red k0 p0 xs) = true ∧
      t3of (comb (red k0 p0 xs)) = (xs.map pairT3).foldr op e from h.2
  induction xs with
  | nil => simpa [red_nil] using hbase
  | cons c cs ih =>
    obtain ⟨hi, he⟩ := ih (fun d hd => hP d (by simp [hd]))
    obtain ⟨hi', he'⟩ := hstep c.1 c.2 _ (hP c (by simp)) hi
    rw [red_cons]
    exact ⟨hi', by rw [he', he]; rfl⟩

theorem fold2 (k0 k1 : Bool) (p0 p1 : Bool → Bool → Bool) (comb : Bool → Bool → Bool × Bool)
    (op : T3 → T3 → T3) (e : T3) (P : Bool → Bool → Bool) (I : Bool → Bool → Bool)
    (hbase : I (redInit k0) (redInit k1) = true ∧ t3of (comb (redInit k0) (redInit k1)) = e)
    (hstep : ∀ v m a0 a1, P v m = true → I a0 a1 = true →
      I (redStep k0 (p0 v m) a0) (redStep k1 (p1 v m) a1) = true ∧
      t3of (comb (redStep k0 (p0 v m) a0) (redStep k1 (p1 v m) a1))
        = op (pairT3 (v, m)) (t3of (comb a0 a1)))
    (xs : List (Bool × Bool)) (hP : ∀ c ∈ xs, P c.1 c.2 = true) :
    t3of (comb (red k0 p0 xs) (red k1 p1 xs)) = (xs.map pairT3).foldr op e := by
  suffices h : I (red k0 p0 xs) (red k1 p1 xs) = true ∧
      t3of (comb (red k0 p0 xs) (red k1 p1 xs)) = (xs.map pairT3).foldr op e from h.2
  induction xs with
  | nil => simpa [red_nil] using hbase
  | cons c cs ih =>
    obtain ⟨hi, he⟩ := ih (fun d hd => hP d (by simp [hd]))
    obtain ⟨hi', he'⟩ := hstep c.1 c.2 _ _ (hP c (by simp)) hi
    rw [red_cons, red_cons]
    exact ⟨hi', by rw [he', he]; rfl⟩

theorem fold3 (k0 k1 k2 : Bool) (p0 p1 p2 : Bool → Bool → Bool)
    (comb : Bool → Bool → Bool → Bool × Bool)
    (op : T3 → T3 → T3) (e : T3) (P : Bool → Bool → Bool) (I : Bool → Bool → Bool → Bool)
    (hbase : I (redInit k0) (redInit k1) (redInit k2) = true ∧
      t3of (comb (redInit k0) (redInit k1) (redInit k2)) = e)
    (hstep : ∀ v m a0 a1 a2, P v m = true → I a0 a1 a2 = true →
      I (redStep k0 (p0 v m) a0) (redStep k1 (p1 v m) a1) (redStep k2 (p2 v m) a2) = true ∧
      t3of (comb (redStep k0 (p0 v m) a0) (redStep k1 (p1 v m) a1) (redStep k2 (p2 v m) a2))
        = op (pairT3 (v, m)) (t3of (comb a0 a1 a2)))
    (xs : List (Bool × Bool)) (hP : ∀ c ∈ xs, P c.1 c.2 = true) :
    t3of (comb (red k0 p0 xs) (red k1 p1 xs) (red k2 p2 xs)) = (xs.map pairT3).foldr op e := by
  suffices h : I (red k0 p0 xs) (red k1 p1 xs) (red k2 p2 xs) = true ∧
      t3of (comb (red k0 p0 xs) (red k1 p1 xs) (red k2 p2 xs)) = (xs.map pairT3).foldr op e from h.2
  induction xs with
  | nil => simpa [red_nil] using hbase
  | cons c cs ih =>
    obtain ⟨hi, he⟩ := ih (fun d hd => hP d (by simp [hd]))
    obtain ⟨hi', he'⟩ := hstep c.1 c.2 _ _ _ (hP c (by simp)) hi
    rw [red_cons, red_cons, red_cons]
    exact ⟨hi', by rw [he', he]; rfl⟩

/-- `any()`/`all()` ("ignore masked elements; masked iff all are") as folds -/
def ignOr : T3 → T3 → T3
  | .m, x => x
  | x, .m => x
  | .t, _ => .t
  | _, .t => .t
  | .f, .f => .f
def ignAnd : T3 → T3 → T3
  | .m, x => x
  | x, .m => x
  | .f, _ => .f
  | _, .f => .f
  | .t, .t => .t

theorem all_isM_not_isT (xs : List T3) (h : xs.all T3.isM = true) : xs.any T3.isT = false := by
  induction xs with
  | nil => rfl
  | cons x xs ih =>
    simp only [List.all_cons, Bool.and_eq_true] at h
    simp only [List.any_cons, ih h.2]
    cases x <;> simp_all [T3.isM, T3.isT]

theorem all_isM_not_isF (xs : List T3) (h : xs.all T3.isM = true) : xs.any T3.isF = false := by
  induction xs with
  | nil => rfl
  | cons x xs ih =>
    simp only [List.all_cons, Bool.and_eq_true] at h
    simp only [List.any_cons, ih h.2]
    cases x <;> simp_all [T3.isM, T3.isF]

theorem ignAny_fold (xs : List T3) : ignAny xs = xs.foldr ignOr .m := by
  induction xs with
  | nil => rfl
  | cons x xs ih =>
    rw [List.foldr_cons, ← ih]
    simp only [ignAny, List.all_cons, List.any_cons]
    cases h1 : xs.all T3.isM
    · cases x <;> cases h2 : xs.any T3.isT <;> rfl
    · rw [all_isM_not_isT xs h1]; cases x <;> rfl

theorem ignAll_fold (xs : List T3) : ignAll xs = xs.foldr ignAnd .m := by
  induction xs with
  | nil => rfl
  | cons x xs ih =>
    rw [List.foldr_cons, ← ih]
    simp only [ignAll, List.all_cons, List.any_cons]
    cases h1 : xs.all T3.isM
    · cases x <;> cases h2 : xs.any T3.isF <;> rfl
    · rw [all_isM_not_isF xs h1]; cases x <;> rfl

end PMV.Logic3
