import PMV.Lemmas.PickleSteps
/-
  `setstate1 (getstate1 q)` for one object, branch by branch.  Core Lean only.
-/
namespace PMV.Pickle
open PMV

/-! ### the mask -/

theorem decodeMask_encode (P : Params) (shape : Shape) (bits : List Bool) (hlen : bits.length = size shape) :
    decodeMaskLoop P shape
      ((if (shapeFromCorners (findCorners shape bits).1 (findCorners shape bits).2 != shape) = true
          then [MStep.corners (findCorners shape bits).1 (findCorners shape bits).2] else []) ++
        [MStep.bool
          (if (shapeFromCorners (findCorners shape bits).1 (findCorners shape bits).2 != shape) = true
            then shapeFromCorners (findCorners shape bits).1 (findCorners shape bits).2 else shape)
          (if (shapeFromCorners (findCorners shape bits).1 (findCorners shape bits).2 != shape) = true
            then gather (boxFlags shape (findCorners shape bits).1 (findCorners shape bits).2) bits
            else bits).length]).reverse
      (.blob (P.bz2.enc (packbits
          (if (shapeFromCorners (findCorners shape bits).1 (findCorners shape bits).2 != shape) = true
            then gather (boxFlags shape (findCorners shape bits).1 (findCorners shape bits).2) bits
            else bits))))
    = some (.arr bits) := by
  by_cases hc : (shapeFromCorners (findCorners shape bits).1 (findCorners shape bits).2 != shape) = true
  · simp only [hc, if_true, List.reverse_cons, List.reverse_nil, List.nil_append,
      List.singleton_append, decodeMaskLoop, P.bz2.roundtrip, packbits_roundtrip']
    have hfl : (boxFlags shape (findCorners shape bits).1 (findCorners shape bits).2).length = bits.length := by
      simp [boxFlags, length_indices, hlen]
    rw [if_pos (gather_length _ _ hfl)]
    rw [crop_restore shape bits hlen]
  · simp only [hc, if_false, Bool.false_eq_true, List.nil_append, List.reverse_cons, List.reverse_nil,
      decodeMaskLoop, P.bz2.roundtrip, packbits_roundtrip']

/-! ### filling under the mask -/

/-- what the property promises for the values of an array-valued object: unmasked items as
    they were, the class default under the mask -/
def fill (d : Item) (mask : List Bool) (items : List Item) : List Item :=
  List.zipWith (fun m it => if m then d else it) mask items

theorem zipWith_not {α : Type} (d : α) : ∀ (bits : List Bool) (v : List α),
    List.zipWith (fun f x => if f then x else d) (bits.map (!·)) v
      = List.zipWith (fun m x => if m then d else x) bits v
  | [], _ => by simp
  | _ :: _, [] => by simp
  | b :: bs, x :: xs => by
    simp only [List.map_cons, List.zipWith_cons_cons, zipWith_not d bs xs]
    cases b <;> rfl

theorem fill_all_false (d : Item) : ∀ (mask : List Bool) (items : List Item),
    mask.length = items.length → mask.any id = false → fill d mask items = items
  | [], [], _, _ => rfl
  | m :: ms, x :: xs, hl, ha => by
    simp only [List.any_cons, id, Bool.or_eq_false_iff] at ha
    simp only [fill, List.zipWith_cons_cons, ha.1]
    have := fill_all_false d ms xs (by simpa using hl) ha.2
    simp only [fill] at this
    rw [this]; rfl
  | [], _ :: _, hl, _ => by simp at hl
  | _ :: _, [], hl, _ => by simp at hl

theorem fill_all_true (d : Item) : ∀ (mask : List Bool) (items : List Item),
    mask.length = items.length → mask.all id = true → fill d mask items = items.map fun _ => d
  | [], [], _, _ => rfl
  | m :: ms, x :: xs, hl, ha => by
    simp only [List.all_cons, id, Bool.and_eq_true] at ha
    simp only [fill, List.zipWith_cons_cons, ha.1, List.map_cons]
    have := fill_all_true d ms xs (by simpa using hl) ha.2
    simp only [fill] at this
    rw [this]; rfl
  | [], _ :: _, hl, _ => by simp at hl
  | _ :: _, [], hl, _ => by simp at hl

theorem map_const_eq {α β γ : Type} (c : γ) : ∀ (xs : List α) (ys : List β), xs.length = ys.length →
    (xs.map fun _ => c) = ys.map fun _ => c
  | [], [], _ => rfl
  | _ :: xs, _ :: ys, h => by
    simp only [List.map_cons, map_const_eq c xs ys (by simpa using h)]
  | [], _ :: _, h => by simp at h
  | _ :: _, [], h => by simp at h

theorem all_true_eq_map {α : Type} : ∀ (bits : List Bool) (xs : List α), bits.length = xs.length →
    bits.all id = true → bits = xs.map fun _ => true
  | [], [], _, _ => rfl
  | b :: bs, _ :: xs, hl, ha => by
    simp only [List.all_cons, id, Bool.and_eq_true] at ha
    simp only [List.map_cons, ha.1, all_true_eq_map bs xs (by simpa using hl) ha.2]
  | [], _ :: _, hl, _ => by simp at hl
  | _ :: _, [], hl, _ => by simp at hl

theorem any_false_eq_map {α : Type} : ∀ (bits : List Bool) (xs : List α), bits.length = xs.length →
    bits.any id = false → bits = xs.map fun _ => false
  | [], [], _, _ => rfl
  | b :: bs, _ :: xs, hl, ha => by
    simp only [List.any_cons, id, Bool.or_eq_false_iff] at ha
    simp only [List.map_cons, ha.1, any_false_eq_map bs xs (by simpa using hl) ha.2]
  | [], _ :: _, hl, _ => by simp at hl
  | _ :: _, [], hl, _ => by simp at hl

/-! ### one object -/

/-- the object `__setstate__` builds before it looks at the values -/
def baseOf (q : Obj) (mask : Mask) : Obj :=
  { cls := q.cls, shape := q.shape, numer := q.numer, denom := q.denom,
    dtype := DType.ofKind q.dtype.kind, vals := .single 0, mask := mask, units := q.units,
    readonly := q.readonly, valsW := true, maskW := true, default := q.default,
    digits := some (checkDigits q.digits), cache := [], fpzipFails := false }

/-- single (Python scalar) value: the state is the object, nothing is encoded -/
theorem rt_single (P : Params) (q : Obj) (x : Bits) (b : Bool)
    (hv : q.vals = .single x) (hm : q.mask = .scalar b) :
    getstate1 P q = (q.toSt (.single (if b then q.default.getD 0 0 else x)) (.scalar b) [] [], none, []) ∧
    setstate1 P (getstate1 P q).1 =
      some ({ baseOf q (.scalar b) with vals := .single (if b then q.default.getD 0 0 else x) }, none) := by
  have h1 : getstate1 P q = (q.toSt (.single (if b then q.default.getD 0 0 else x)) (.scalar b) [] [], none, []) := by
    simp [getstate1, hv, hm, Mask.toPM, Mask.all]
  refine ⟨h1, ?_⟩
  rw [h1]
  simp [setstate1, Obj.toSt, decodeMaskLoop, decodeValsLoop, baseOf]

/-- fully masked array: no values are stored, everything comes back as the default -/
theorem rt_allMasked (P : Params) (q : Obj) (vs : Shape) (items : List Item)
    (hv : q.vals = .array vs items) (hall : q.mask.all = true) :
    getstate1 P q = (q.toSt .none (.scalar true) [.allMasked] [], none, []) ∧
    setstate1 P (getstate1 P q).1 =
      some ({ baseOf q (.scalar true) with
                vals := .array (q.shape ++ (q.numer ++ q.denom)) ((indices q.shape).map fun _ => q.default),
                valsW := !q.readonly, maskW := !q.readonly }, none) := by
  have h1 : getstate1 P q = (q.toSt .none (.scalar true) [.allMasked] [], none, []) := by
    simp [getstate1, hv, hall]
  refine ⟨h1, ?_⟩
  rw [h1]
  simp only [setstate1, Obj.toSt, decodeMaskLoop, List.reverse_nil, List.reverse_cons, List.nil_append,
    decodeValsLoop, baseOf]
  rcases Bool.eq_false_or_eq_true q.readonly with h | h <;> simp [h]

/-- array without masked elements (mask collapsed to False): only the values are encoded -/
theorem rt_unmasked (P : Params) (q : Obj) (vs : Shape) (items : List Item)
    (hv : q.vals = .array vs items) (hall : q.mask.all = false) (hany : q.mask.any = false)
    (hok : ArrOK q.dtype (size (q.numer ++ q.denom)) vs items)
    (hF : q.dtype = .float → FloatExact P (checkDigits q.digits).1) :
    (getstate1 P q).2.1 = none ∧
    setstate1 P (getstate1 P q).1 =
      some ({ baseOf q (.scalar false) with
                dtype := q.dtype, vals := .array vs items,
                valsW := !q.readonly, maskW := !q.readonly }, none) := by
  have hm' : (if !q.mask.any then Mask.scalar false else q.mask) = Mask.scalar false := by simp [hany]
  have h1 : getstate1 P q =
      (q.toSt (valueStep P q.dtype (checkDigits q.digits).1 q.fpzipFails vs items).2 (.scalar false)
         (valueStep P q.dtype (checkDigits q.digits).1 q.fpzipFails vs items).1 [], none, []) := by
    simp only [getstate1, hv, hall, hm']; rfl
  refine ⟨by rw [h1], ?_⟩
  rw [h1]
  simp only [setstate1, Obj.toSt, decodeMaskLoop, List.reverse_nil]
  have hdec := decodeVals_valueStep P
    (q.toSt (valueStep P q.dtype (checkDigits q.digits).1 q.fpzipFails vs items).2 (.scalar false)
         (valueStep P q.dtype (checkDigits q.digits).1 q.fpzipFails vs items).1 [])
    none q.dtype (checkDigits q.digits).1 q.fpzipFails vs items []
    (valueStep P q.dtype (checkDigits q.digits).1 q.fpzipFails vs items).1.isEmpty hok hF
  simp only [List.append_nil, Obj.toSt] at hdec
  rw [hdec]
  simp only [decodeValsLoop, baseOf, valueStep_nonempty]
  generalize q.dtype.isInt = b
  rcases Bool.eq_false_or_eq_true q.readonly with h | h <;> cases b <;> simp [h]

/-- array with some but not all elements masked -/
theorem rt_partial (P : Params) (q : Obj) (vs : Shape) (items : List Item) (bits : List Bool)
    (hv : q.vals = .array vs items) (hm : q.mask = .array bits)
    (hall : q.mask.all = false) (hany : q.mask.any = true)
    (hbl : bits.length = size q.shape) (hil : items.length = size q.shape)
    (hok : ArrOK q.dtype (size (q.numer ++ q.denom)) vs items)
    (hF : q.dtype = .float → FloatExact P (checkDigits q.digits).1) :
    (getstate1 P q).2.1 = some (bits.map (!·)) ∧
    setstate1 P (getstate1 P q).1 =
      some ({ baseOf q (.array bits) with
                dtype := q.dtype,
                vals := .array (q.shape ++ (q.numer ++ q.denom)) (fill q.default bits items),
                valsW := !q.readonly, maskW := !q.readonly }, some (bits.map (!·))) := by
  have hm' : (if !q.mask.any then Mask.scalar false else q.mask) = Mask.array bits := by
    rw [hany]; simp [hm]
  have hal : (bits.map (!·)).length = items.length := by simp [hbl, hil]
  have hgl := gather_length (bits.map (!·)) items hal
  -- the gathered array is a good array
  have hgok : ArrOK q.dtype (size (q.numer ++ q.denom)) ((gather (bits.map (!·)) items).length :: q.item)
      (gather (bits.map (!·)) items) := by
    refine ⟨hok.isz_pos, fun it hit => hok.item_len it (gather_mem _ _ _ hit), ?_, ?_, ?_⟩
    · unfold asize
      rw [flatten_length_const _ _ (fun it hit => hok.item_len it (gather_mem _ _ _ hit)), size_cons]
      rfl
    · intro w s hd
      obtain ⟨hw, hr⟩ := hok.int_ok w s hd
      exact ⟨hw, fun it hit => hr it (gather_mem _ _ _ hit)⟩
    · intro hd it hit
      exact hok.bool_ok hd it (gather_mem _ _ _ hit)
  generalize hg : gather (bits.map (!·)) items = g at hgl hgok
  have h1 : getstate1 P q =
      (q.toSt (valueStep P q.dtype (checkDigits q.digits).1 q.fpzipFails (g.length :: q.item) g).2
        (.blob (P.bz2.enc (packbits
          (if (shapeFromCorners (findCorners q.shape bits).1 (findCorners q.shape bits).2 != q.shape) = true
            then gather (boxFlags q.shape (findCorners q.shape bits).1 (findCorners q.shape bits).2) bits
            else bits))))
        (.antimasked :: (valueStep P q.dtype (checkDigits q.digits).1 q.fpzipFails (g.length :: q.item) g).1)
        ((if (shapeFromCorners (findCorners q.shape bits).1 (findCorners q.shape bits).2 != q.shape) = true
          then [MStep.corners (findCorners q.shape bits).1 (findCorners q.shape bits).2] else []) ++
        [MStep.bool
          (if (shapeFromCorners (findCorners q.shape bits).1 (findCorners q.shape bits).2 != q.shape) = true
            then shapeFromCorners (findCorners q.shape bits).1 (findCorners q.shape bits).2 else q.shape)
          (if (shapeFromCorners (findCorners q.shape bits).1 (findCorners q.shape bits).2 != q.shape) = true
            then gather (boxFlags q.shape (findCorners q.shape bits).1 (findCorners q.shape bits).2) bits
            else bits).length]),
       some (bits.map (!·)),
       ["corners"] ++ (if (shapeFromCorners (findCorners q.shape bits).1 (findCorners q.shape bits).2 != q.shape) = true
          then ["slicer"] else []) ++ ["antimask"]) := by
    simp only [getstate1, hv, hall, hm', hg]; rfl
  refine ⟨by rw [h1], ?_⟩
  rw [h1]
  simp only [setstate1, Obj.toSt]
  rw [decodeMask_encode P q.shape bits hbl]
  simp only [List.reverse_cons]
  have hdec := decodeVals_valueStep P
    (q.toSt (valueStep P q.dtype (checkDigits q.digits).1 q.fpzipFails (g.length :: q.item) g).2
        (.blob (P.bz2.enc (packbits
          (if (shapeFromCorners (findCorners q.shape bits).1 (findCorners q.shape bits).2 != q.shape) = true
            then gather (boxFlags q.shape (findCorners q.shape bits).1 (findCorners q.shape bits).2) bits
            else bits))))
        (.antimasked :: (valueStep P q.dtype (checkDigits q.digits).1 q.fpzipFails (g.length :: q.item) g).1)
        ((if (shapeFromCorners (findCorners q.shape bits).1 (findCorners q.shape bits).2 != q.shape) = true
          then [MStep.corners (findCorners q.shape bits).1 (findCorners q.shape bits).2] else []) ++
        [MStep.bool
          (if (shapeFromCorners (findCorners q.shape bits).1 (findCorners q.shape bits).2 != q.shape) = true
            then shapeFromCorners (findCorners q.shape bits).1 (findCorners q.shape bits).2 else q.shape)
          (if (shapeFromCorners (findCorners q.shape bits).1 (findCorners q.shape bits).2 != q.shape) = true
            then gather (boxFlags q.shape (findCorners q.shape bits).1 (findCorners q.shape bits).2) bits
            else bits).length]))
    (some (bits.map (!·))) q.dtype (checkDigits q.digits).1 q.fpzipFails (g.length :: q.item) g [.antimasked]
    false hgok hF
  simp only [Obj.toSt] at hdec
  simp only [List.isEmpty_cons]
  rw [hdec]
  simp only [decodeValsLoop]
  rw [if_pos hgl]
  simp only [← hg]
  rw [scatter_gather q.default _ items hal, zipWith_not]
  simp only [baseOf, fill]
  generalize q.dtype.isInt = b
  rcases Bool.eq_false_or_eq_true q.readonly with h | h <;> cases b <;> simp [h]

end PMV.Pickle
