import PMV.Model.Algebra
import PMV.Lemmas.AlgebraMat3
import PMV.Lemmas.AlgebraSO3
import Mathlib.Tactic.Ring
import Mathlib.Tactic.LinearCombination
import Mathlib.Tactic.FieldSimp
/-
  C16 helper development: `from_euler (to_euler M) = M` away from gimbal lock, one lemma per convention.
  The arctan2 contract is `atan2SC` (sine and cosine of the returned angle are the normalised pair); `sqrt` is a
  function with `sqrt(x²+y²)² = x²+y²` and `sqrt 1 = 1`. Certificates generated with harness/c16_cert.py.
-/
namespace PMV.Algebra
variable {K : Type} [Field K] [DecidableEq K]

theorem atan2SC_eq (sqrt : K → K) (y x h : K) (hh : sqrt (x * x + y * y) = h) (hz : h ≠ 0) :
    atan2SC sqrt y x = ⟨y / h, x / h⟩ := by
  simp [atan2SC, hh, hz]

/-- the quantity whose smallness selects the gimbal-lock branch of `to_euler`: `sy` resp. `cy` -/
def eulerPivot (sqrt : K → K) (cv : Conv) (m : Mat K) : K :=
  let (i, j, _) := eulerIJK cv
  if cv.repetition ≠ 0 then sqrt (m i j * m i j + m i (eulerIJK cv).2.2 * m i (eulerIJK cv).2.2)
  else sqrt (m i i * m i i + m j i * m j i)

theorem to_euler_row_sxyz (sqrt : K → K) (small : K → Bool) (m : Mat K) (h : SO3 m) (m0 : Mat K)
    (hsq : ∀ x y : K, sqrt (x * x + y * y) * sqrt (x * x + y * y) = x * x + y * y) (h1 : sqrt 1 = 1)
    (hs : small (eulerPivot sqrt ⟨0, 0, 0, 0⟩ m) = false) (hz : eulerPivot sqrt ⟨0, 0, 0, 0⟩ m ≠ 0) :
    Eq3 (fromEuler ⟨0, 0, 0, 0⟩ (toEuler sqrt small ⟨0, 0, 0, 0⟩ m).1 (toEuler sqrt small ⟨0, 0, 0, 0⟩ m).2.1
        (toEuler sqrt small ⟨0, 0, 0, 0⟩ m).2.2 m0) m := by
  change small (sqrt (m 0 0 * m 0 0 + m 1 0 * m 1 0)) = false at hs
  change sqrt (m 0 0 * m 0 0 + m 1 0 * m 1 0) ≠ 0 at hz
  have hS := hsq (m 0 0) (m 1 0)
  generalize hsy : sqrt (m 0 0 * m 0 0 + m 1 0 * m 1 0) = sy at hs hz hS
  have ex : atan2SC sqrt (m 2 1) (m 2 2) = ⟨m 2 1 / sy, m 2 2 / sy⟩ :=
    atan2SC_eq sqrt _ _ sy ((congrArg sqrt (by linear_combination (1) * h.r22 + (-1) * h.c00)).trans hsy) hz
  have ey : atan2SC sqrt (-m 2 0) sy = ⟨-m 2 0 / 1, sy / 1⟩ :=
    atan2SC_eq sqrt _ _ 1 ((congrArg sqrt (by linear_combination hS + (1) * h.c00)).trans h1) one_ne_zero
  have ez : atan2SC sqrt (m 1 0) (m 0 0) = ⟨m 1 0 / sy, m 0 0 / sy⟩ :=
    atan2SC_eq sqrt _ _ sy ((congrArg sqrt (by linear_combination 0)).trans hsy) hz
  have q01 : -m 1 0 * m 2 2 - m 0 0 * m 2 0 * m 2 1 = m 0 1 * (sy * sy) := by
    rw [hS]; linear_combination (-m 2 1) * h.r02 + (m 0 1) * h.r22 + (-m 0 1) * h.c00 + (m 2 2) * h.f10
  have q02 : m 1 0 * m 2 1 - m 0 0 * m 2 0 * m 2 2 = m 0 2 * (sy * sy) := by
    rw [hS]; linear_combination (-m 2 2) * h.r02 + (m 0 2) * h.r22 + (-m 0 2) * h.c00 + (-m 2 1) * h.f10
  have q11 : -m 1 0 * m 2 0 * m 2 1 + m 0 0 * m 2 2 = m 1 1 * (sy * sy) := by
    rw [hS]; linear_combination (-m 2 1) * h.r12 + (m 1 1) * h.r22 + (-m 1 1) * h.c00 + (-m 2 2) * h.f00
  have q12 : -m 1 0 * m 2 0 * m 2 2 - m 0 0 * m 2 1 = m 1 2 * (sy * sy) := by
    rw [hS]; linear_combination (-m 2 2) * h.r12 + (m 1 2) * h.r22 + (-m 1 2) * h.c00 + (m 2 1) * h.f00
  refine forall_lt3_2 ⟨?_, ?_, ?_, ?_, ?_, ?_, ?_, ?_, ?_⟩ <;>
    simp [toEuler, fromEuler, eulerIJK, nextAxis, Mat.set, SC.neg, hsy, hs, ex, ey, ez] <;> (try field_simp)
  all_goals first
    | linear_combination q01
    | linear_combination -q01
    | linear_combination q02
    | linear_combination -q02
    | linear_combination q11
    | linear_combination -q11
    | linear_combination q12
    | linear_combination -q12

theorem to_euler_row_sxyx (sqrt : K → K) (small : K → Bool) (m : Mat K) (h : SO3 m) (m0 : Mat K)
    (hsq : ∀ x y : K, sqrt (x * x + y * y) * sqrt (x * x + y * y) = x * x + y * y) (h1 : sqrt 1 = 1)
    (hs : small (eulerPivot sqrt ⟨0, 0, 1, 0⟩ m) = false) (hz : eulerPivot sqrt ⟨0, 0, 1, 0⟩ m ≠ 0) :
    Eq3 (fromEuler ⟨0, 0, 1, 0⟩ (toEuler sqrt small ⟨0, 0, 1, 0⟩ m).1 (toEuler sqrt small ⟨0, 0, 1, 0⟩ m).2.1
        (toEuler sqrt small ⟨0, 0, 1, 0⟩ m).2.2 m0) m := by
  change small (sqrt (m 0 1 * m 0 1 + m 0 2 * m 0 2)) = false at hs
  change sqrt (m 0 1 * m 0 1 + m 0 2 * m 0 2) ≠ 0 at hz
  have hS := hsq (m 0 1) (m 0 2)
  generalize hsy : sqrt (m 0 1 * m 0 1 + m 0 2 * m 0 2) = sy at hs hz hS
  have ex : atan2SC sqrt (m 0 1) (m 0 2) = ⟨m 0 1 / sy, m 0 2 / sy⟩ :=
    atan2SC_eq sqrt _ _ sy ((congrArg sqrt (by linear_combination 0)).trans hsy) hz
  have ey : atan2SC sqrt sy (m 0 0) = ⟨sy / 1, m 0 0 / 1⟩ :=
    atan2SC_eq sqrt _ _ 1 ((congrArg sqrt (by linear_combination hS + (1) * h.r00)).trans h1) one_ne_zero
  have ez : atan2SC sqrt (m 1 0) (-m 2 0) = ⟨m 1 0 / sy, -m 2 0 / sy⟩ :=
    atan2SC_eq sqrt _ _ sy ((congrArg sqrt (by linear_combination (-1) * h.r00 + (1) * h.c00)).trans hsy) hz
  have q11 : -m 0 2 * m 2 0 - m 0 0 * m 0 1 * m 1 0 = m 1 1 * (sy * sy) := by
    rw [hS]; linear_combination (-m 1 1) * h.r00 + (m 1 1) * h.c00 + (-m 1 0) * h.c01 + (m 2 0) * h.f02
  have q12 : m 0 1 * m 2 0 - m 0 0 * m 0 2 * m 1 0 = m 1 2 * (sy * sy) := by
    rw [hS]; linear_combination (-m 1 2) * h.r00 + (m 1 2) * h.c00 + (-m 1 0) * h.c02 + (-m 2 0) * h.f01
  have q21 : m 0 2 * m 1 0 - m 0 0 * m 0 1 * m 2 0 = m 2 1 * (sy * sy) := by
    rw [hS]; linear_combination (-m 2 1) * h.r00 + (m 2 1) * h.c00 + (-m 2 0) * h.c01 + (-m 1 0) * h.f02
  have q22 : -m 0 1 * m 1 0 - m 0 0 * m 0 2 * m 2 0 = m 2 2 * (sy * sy) := by
    rw [hS]; linear_combination (-m 2 2) * h.r00 + (m 2 2) * h.c00 + (-m 2 0) * h.c02 + (m 1 0) * h.f01
  refine forall_lt3_2 ⟨?_, ?_, ?_, ?_, ?_, ?_, ?_, ?_, ?_⟩ <;>
    simp [toEuler, fromEuler, eulerIJK, nextAxis, Mat.set, SC.neg, hsy, hs, ex, ey, ez] <;> (try field_simp)
  all_goals first
    | linear_combination q11
    | linear_combination -q11
    | linear_combination q12
    | linear_combination -q12
    | linear_combination q21
    | linear_combination -q21
    | linear_combination q22
    | linear_combination -q22

theorem to_euler_row_sxzy (sqrt : K → K) (small : K → Bool) (m : Mat K) (h : SO3 m) (m0 : Mat K)
    (hsq : ∀ x y : K, sqrt (x * x + y * y) * sqrt (x * x + y * y) = x * x + y * y) (h1 : sqrt 1 = 1)
    (hs : small (eulerPivot sqrt ⟨0, 1, 0, 0⟩ m) = false) (hz : eulerPivot sqrt ⟨0, 1, 0, 0⟩ m ≠ 0) :
    Eq3 (fromEuler ⟨0, 1, 0, 0⟩ (toEuler sqrt small ⟨0, 1, 0, 0⟩ m).1 (toEuler sqrt small ⟨0, 1, 0, 0⟩ m).2.1
        (toEuler sqrt small ⟨0, 1, 0, 0⟩ m).2.2 m0) m := by
  change small (sqrt (m 0 0 * m 0 0 + m 2 0 * m 2 0)) = false at hs
  change sqrt (m 0 0 * m 0 0 + m 2 0 * m 2 0) ≠ 0 at hz
  have hS := hsq (m 0 0) (m 2 0)
  generalize hsy : sqrt (m 0 0 * m 0 0 + m 2 0 * m 2 0) = sy at hs hz hS
  have ex : atan2SC sqrt (m 1 2) (m 1 1) = ⟨m 1 2 / sy, m 1 1 / sy⟩ :=
    atan2SC_eq sqrt _ _ sy ((congrArg sqrt (by linear_combination (1) * h.r11 + (-1) * h.c00)).trans hsy) hz
  have ey : atan2SC sqrt (-m 1 0) sy = ⟨-m 1 0 / 1, sy / 1⟩ :=
    atan2SC_eq sqrt _ _ 1 ((congrArg sqrt (by linear_combination hS + (1) * h.c00)).trans h1) one_ne_zero
  have ez : atan2SC sqrt (m 2 0) (m 0 0) = ⟨m 2 0 / sy, m 0 0 / sy⟩ :=
    atan2SC_eq sqrt _ _ sy ((congrArg sqrt (by linear_combination 0)).trans hsy) hz
  have q01 : m 1 2 * m 2 0 - m 0 0 * m 1 0 * m 1 1 = m 0 1 * (sy * sy) := by
    rw [hS]; linear_combination (m 2 1) * h.r02 + (-m 0 1) * h.r22 + (-m 0 0) * h.c01 + (1) * h.f01 + (-m 2 2) * h.f10
  have q02 : -m 1 1 * m 2 0 - m 0 0 * m 1 0 * m 1 2 = m 0 2 * (sy * sy) := by
    rw [hS]; linear_combination (m 2 2) * h.r02 + (-m 0 2) * h.r22 + (-m 0 0) * h.c02 + (1) * h.f02 + (m 2 1) * h.f10
  have q21 : -m 1 0 * m 1 1 * m 2 0 - m 0 0 * m 1 2 = m 2 1 * (sy * sy) := by
    rw [hS]; linear_combination (m 2 1) * h.r11 + (-m 1 1) * h.r12 + (-m 2 1) * h.c00 + (m 1 2) * h.f00
  have q22 : -m 1 0 * m 1 2 * m 2 0 + m 0 0 * m 1 1 = m 2 2 * (sy * sy) := by
    rw [hS]; linear_combination (m 2 2) * h.r11 + (-m 1 2) * h.r12 + (-m 2 2) * h.c00 + (-m 1 1) * h.f00
  refine forall_lt3_2 ⟨?_, ?_, ?_, ?_, ?_, ?_, ?_, ?_, ?_⟩ <;>
    simp [toEuler, fromEuler, eulerIJK, nextAxis, Mat.set, SC.neg, hsy, hs, ex, ey, ez] <;> (try field_simp)
  all_goals first
    | linear_combination q01
    | linear_combination -q01
    | linear_combination q02
    | linear_combination -q02
    | linear_combination q21
    | linear_combination -q21
    | linear_combination q22
    | linear_combination -q22

theorem to_euler_row_sxzx (sqrt : K → K) (small : K → Bool) (m : Mat K) (h : SO3 m) (m0 : Mat K)
    (hsq : ∀ x y : K, sqrt (x * x + y * y) * sqrt (x * x + y * y) = x * x + y * y) (h1 : sqrt 1 = 1)
    (hs : small (eulerPivot sqrt ⟨0, 1, 1, 0⟩ m) = false) (hz : eulerPivot sqrt ⟨0, 1, 1, 0⟩ m ≠ 0) :
    Eq3 (fromEuler ⟨0, 1, 1, 0⟩ (toEuler sqrt small ⟨0, 1, 1, 0⟩ m).1 (toEuler sqrt small ⟨0, 1, 1, 0⟩ m).2.1
        (toEuler sqrt small ⟨0, 1, 1, 0⟩ m).2.2 m0) m := by
  change small (sqrt (m 0 2 * m 0 2 + m 0 1 * m 0 1)) = false at hs
  change sqrt (m 0 2 * m 0 2 + m 0 1 * m 0 1) ≠ 0 at hz
  have hS := hsq (m 0 2) (m 0 1)
  generalize hsy : sqrt (m 0 2 * m 0 2 + m 0 1 * m 0 1) = sy at hs hz hS
  have ex : atan2SC sqrt (m 0 2) (m 0 1) = ⟨m 0 2 / sy, m 0 1 / sy⟩ :=
    atan2SC_eq sqrt _ _ sy ((congrArg sqrt (by linear_combination 0)).trans hsy) hz
  have ey : atan2SC sqrt sy (m 0 0) = ⟨sy / 1, m 0 0 / 1⟩ :=
    atan2SC_eq sqrt _ _ 1 ((congrArg sqrt (by linear_combination hS + (1) * h.r00)).trans h1) one_ne_zero
  have ez : atan2SC sqrt (m 2 0) (-m 1 0) = ⟨m 2 0 / sy, -m 1 0 / sy⟩ :=
    atan2SC_eq sqrt _ _ sy ((congrArg sqrt (by linear_combination (-1) * h.r00 + (1) * h.c00)).trans hsy) hz
  have q11 : -m 0 2 * m 2 0 - m 0 0 * m 0 1 * m 1 0 = m 1 1 * (sy * sy) := by
    rw [hS]; linear_combination (-m 1 1) * h.r00 + (m 1 1) * h.c00 + (-m 1 0) * h.c01 + (m 2 0) * h.f02
  have q12 : m 0 1 * m 2 0 - m 0 0 * m 0 2 * m 1 0 = m 1 2 * (sy * sy) := by
    rw [hS]; linear_combination (-m 1 2) * h.r00 + (m 1 2) * h.c00 + (-m 1 0) * h.c02 + (-m 2 0) * h.f01
  have q21 : m 0 2 * m 1 0 - m 0 0 * m 0 1 * m 2 0 = m 2 1 * (sy * sy) := by
    rw [hS]; linear_combination (-m 2 1) * h.r00 + (m 2 1) * h.c00 + (-m 2 0) * h.c01 + (-m 1 0) * h.f02
  have q22 : -m 0 1 * m 1 0 - m 0 0 * m 0 2 * m 2 0 = m 2 2 * (sy * sy) := by
    rw [hS]; linear_combination (-m 2 2) * h.r00 + (m 2 2) * h.c00 + (-m 2 0) * h.c02 + (m 1 0) * h.f01
  refine forall_lt3_2 ⟨?_, ?_, ?_, ?_, ?_, ?_, ?_, ?_, ?_⟩ <;>
    simp [toEuler, fromEuler, eulerIJK, nextAxis, Mat.set, SC.neg, hsy, hs, ex, ey, ez] <;> (try field_simp)
  all_goals first
    | linear_combination q11
    | linear_combination -q11
    | linear_combination q12
    | linear_combination -q12
    | linear_combination q21
    | linear_combination -q21
    | linear_combination q22
    | linear_combination -q22

theorem to_euler_row_syzx (sqrt : K → K) (small : K → Bool) (m : Mat K) (h : SO3 m) (m0 : Mat K)
    (hsq : ∀ x y : K, sqrt (x * x + y * y) * sqrt (x * x + y * y) = x * x + y * y) (h1 : sqrt 1 = 1)
    (hs : small (eulerPivot sqrt ⟨1, 0, 0, 0⟩ m) = false) (hz : eulerPivot sqrt ⟨1, 0, 0, 0⟩ m ≠ 0) :
    Eq3 (fromEuler ⟨1, 0, 0, 0⟩ (toEuler sqrt small ⟨1, 0, 0, 0⟩ m).1 (toEuler sqrt small ⟨1, 0, 0, 0⟩ m).2.1
        (toEuler sqrt small ⟨1, 0, 0, 0⟩ m).2.2 m0) m := by
  change small (sqrt (m 1 1 * m 1 1 + m 2 1 * m 2 1)) = false at hs
  change sqrt (m 1 1 * m 1 1 + m 2 1 * m 2 1) ≠ 0 at hz
  have hS := hsq (m 1 1) (m 2 1)
  generalize hsy : sqrt (m 1 1 * m 1 1 + m 2 1 * m 2 1) = sy at hs hz hS
  have ex : atan2SC sqrt (m 0 2) (m 0 0) = ⟨m 0 2 / sy, m 0 0 / sy⟩ :=
    atan2SC_eq sqrt _ _ sy ((congrArg sqrt (by linear_combination (1) * h.r00 + (-1) * h.c11)).trans hsy) hz
  have ey : atan2SC sqrt (-m 0 1) sy = ⟨-m 0 1 / 1, sy / 1⟩ :=
    atan2SC_eq sqrt _ _ 1 ((congrArg sqrt (by linear_combination hS + (1) * h.c11)).trans h1) one_ne_zero
  have ez : atan2SC sqrt (m 2 1) (m 1 1) = ⟨m 2 1 / sy, m 1 1 / sy⟩ :=
    atan2SC_eq sqrt _ _ sy ((congrArg sqrt (by linear_combination 0)).trans hsy) hz
  have q10 : m 0 2 * m 2 1 - m 0 0 * m 0 1 * m 1 1 = m 1 0 * (sy * sy) := by
    rw [hS]; linear_combination (-m 1 1) * h.c01 + (-m 2 1) * h.f02
  have q12 : -m 0 1 * m 0 2 * m 1 1 - m 0 0 * m 2 1 = m 1 2 * (sy * sy) := by
    rw [hS]; linear_combination (m 1 2) * h.r00 + (-m 0 2) * h.r01 + (-m 2 2) * h.r12 + (m 1 2) * h.r22 + (-m 1 2) * h.c00 + (m 1 0) * h.c02 + (-m 1 2) * h.c11 + (m 2 1) * h.f00
  have q20 : -m 0 2 * m 1 1 - m 0 0 * m 0 1 * m 2 1 = m 2 0 * (sy * sy) := by
    rw [hS]; linear_combination (-m 2 1) * h.c01 + (m 1 1) * h.f02
  have q22 : -m 0 1 * m 0 2 * m 2 1 + m 0 0 * m 1 1 = m 2 2 * (sy * sy) := by
    rw [hS]; linear_combination (m 2 2) * h.r00 + (-m 0 2) * h.r02 + (m 2 2) * h.r11 + (-m 1 2) * h.r12 + (-m 2 2) * h.c00 + (m 2 0) * h.c02 + (-m 2 2) * h.c11 + (-m 1 1) * h.f00
  refine forall_lt3_2 ⟨?_, ?_, ?_, ?_, ?_, ?_, ?_, ?_, ?_⟩ <;>
    simp [toEuler, fromEuler, eulerIJK, nextAxis, Mat.set, SC.neg, hsy, hs, ex, ey, ez] <;> (try field_simp)
  all_goals first
    | linear_combination q10
    | linear_combination -q10
    | linear_combination q12
    | linear_combination -q12
    | linear_combination q20
    | linear_combination -q20
    | linear_combination q22
    | linear_combination -q22

theorem to_euler_row_syzy (sqrt : K → K) (small : K → Bool) (m : Mat K) (h : SO3 m) (m0 : Mat K)
    (hsq : ∀ x y : K, sqrt (x * x + y * y) * sqrt (x * x + y * y) = x * x + y * y) (h1 : sqrt 1 = 1)
    (hs : small (eulerPivot sqrt ⟨1, 0, 1, 0⟩ m) = false) (hz : eulerPivot sqrt ⟨1, 0, 1, 0⟩ m ≠ 0) :
    Eq3 (fromEuler ⟨1, 0, 1, 0⟩ (toEuler sqrt small ⟨1, 0, 1, 0⟩ m).1 (toEuler sqrt small ⟨1, 0, 1, 0⟩ m).2.1
        (toEuler sqrt small ⟨1, 0, 1, 0⟩ m).2.2 m0) m := by
  change small (sqrt (m 1 2 * m 1 2 + m 1 0 * m 1 0)) = false at hs
  change sqrt (m 1 2 * m 1 2 + m 1 0 * m 1 0) ≠ 0 at hz
  have hS := hsq (m 1 2) (m 1 0)
  generalize hsy : sqrt (m 1 2 * m 1 2 + m 1 0 * m 1 0) = sy at hs hz hS
  have ex : atan2SC sqrt (m 1 2) (m 1 0) = ⟨m 1 2 / sy, m 1 0 / sy⟩ :=
    atan2SC_eq sqrt _ _ sy ((congrArg sqrt (by linear_combination 0)).trans hsy) hz
  have ey : atan2SC sqrt sy (m 1 1) = ⟨sy / 1, m 1 1 / 1⟩ :=
    atan2SC_eq sqrt _ _ 1 ((congrArg sqrt (by linear_combination hS + (1) * h.r11)).trans h1) one_ne_zero
  have ez : atan2SC sqrt (m 2 1) (-m 0 1) = ⟨m 2 1 / sy, -m 0 1 / sy⟩ :=
    atan2SC_eq sqrt _ _ sy ((congrArg sqrt (by linear_combination (-1) * h.r11 + (1) * h.c11)).trans hsy) hz
  have q00 : -m 1 2 * m 2 1 - m 0 1 * m 1 0 * m 1 1 = m 0 0 * (sy * sy) := by
    rw [hS]; linear_combination (m 2 0) * h.r02 + (-m 0 0) * h.r11 + (-m 0 0) * h.r22 + (-m 0 1) * h.c01 + (m 0 0) * h.c11 + (1) * h.f00 + (m 2 2) * h.f11
  have q02 : m 1 0 * m 2 1 - m 0 1 * m 1 1 * m 1 2 = m 0 2 * (sy * sy) := by
    rw [hS]; linear_combination (-m 1 2) * h.r01 + (-m 2 2) * h.r02 + (m 0 2) * h.r22 + (-m 0 2) * h.c00 + (m 0 0) * h.c02 + (-m 2 1) * h.f10
  have q20 : -m 1 0 * m 1 1 * m 2 1 + m 0 1 * m 1 2 = m 2 0 * (sy * sy) := by
    rw [hS]; linear_combination (-m 1 0) * h.r12 + (-m 1 2) * h.f01
  have q22 : -m 1 1 * m 1 2 * m 2 1 - m 0 1 * m 1 0 = m 2 2 * (sy * sy) := by
    rw [hS]; linear_combination (-m 1 2) * h.r12 + (m 1 0) * h.f01
  refine forall_lt3_2 ⟨?_, ?_, ?_, ?_, ?_, ?_, ?_, ?_, ?_⟩ <;>
    simp [toEuler, fromEuler, eulerIJK, nextAxis, Mat.set, SC.neg, hsy, hs, ex, ey, ez] <;> (try field_simp)
  all_goals first
    | linear_combination q00
    | linear_combination -q00
    | linear_combination q02
    | linear_combination -q02
    | linear_combination q20
    | linear_combination -q20
    | linear_combination q22
    | linear_combination -q22

theorem to_euler_row_syxz (sqrt : K → K) (small : K → Bool) (m : Mat K) (h : SO3 m) (m0 : Mat K)
    (hsq : ∀ x y : K, sqrt (x * x + y * y) * sqrt (x * x + y * y) = x * x + y * y) (h1 : sqrt 1 = 1)
    (hs : small (eulerPivot sqrt ⟨1, 1, 0, 0⟩ m) = false) (hz : eulerPivot sqrt ⟨1, 1, 0, 0⟩ m ≠ 0) :
    Eq3 (fromEuler ⟨1, 1, 0, 0⟩ (toEuler sqrt small ⟨1, 1, 0, 0⟩ m).1 (toEuler sqrt small ⟨1, 1, 0, 0⟩ m).2.1
        (toEuler sqrt small ⟨1, 1, 0, 0⟩ m).2.2 m0) m := by
  change small (sqrt (m 1 1 * m 1 1 + m 0 1 * m 0 1)) = false at hs
  change sqrt (m 1 1 * m 1 1 + m 0 1 * m 0 1) ≠ 0 at hz
  have hS := hsq (m 1 1) (m 0 1)
  generalize hsy : sqrt (m 1 1 * m 1 1 + m 0 1 * m 0 1) = sy at hs hz hS
  have ex : atan2SC sqrt (m 2 0) (m 2 2) = ⟨m 2 0 / sy, m 2 2 / sy⟩ :=
    atan2SC_eq sqrt _ _ sy ((congrArg sqrt (by linear_combination (1) * h.r22 + (-1) * h.c11)).trans hsy) hz
  have ey : atan2SC sqrt (-m 2 1) sy = ⟨-m 2 1 / 1, sy / 1⟩ :=
    atan2SC_eq sqrt _ _ 1 ((congrArg sqrt (by linear_combination hS + (1) * h.c11)).trans h1) one_ne_zero
  have ez : atan2SC sqrt (m 0 1) (m 1 1) = ⟨m 0 1 / sy, m 1 1 / sy⟩ :=
    atan2SC_eq sqrt _ _ sy ((congrArg sqrt (by linear_combination 0)).trans hsy) hz
  have q00 : m 1 1 * m 2 2 - m 0 1 * m 2 0 * m 2 1 = m 0 0 * (sy * sy) := by
    rw [hS]; linear_combination (-m 2 0) * h.r02 + (m 0 0) * h.r22 + (-m 0 0) * h.c11 + (-m 2 2) * h.f11
  have q02 : -m 1 1 * m 2 0 - m 0 1 * m 2 1 * m 2 2 = m 0 2 * (sy * sy) := by
    rw [hS]; linear_combination (-m 0 2) * h.c11 + (1) * h.f02 + (m 2 1) * h.f10
  have q10 : -m 1 1 * m 2 0 * m 2 1 - m 0 1 * m 2 2 = m 1 0 * (sy * sy) := by
    rw [hS]; linear_combination (-m 2 0) * h.r12 + (m 1 0) * h.r22 + (-m 1 0) * h.c11 + (m 2 2) * h.f01
  have q12 : -m 1 1 * m 2 1 * m 2 2 + m 0 1 * m 2 0 = m 1 2 * (sy * sy) := by
    rw [hS]; linear_combination (-m 2 2) * h.r12 + (m 1 2) * h.r22 + (-m 1 2) * h.c11 + (-m 2 0) * h.f01
  refine forall_lt3_2 ⟨?_, ?_, ?_, ?_, ?_, ?_, ?_, ?_, ?_⟩ <;>
    simp [toEuler, fromEuler, eulerIJK, nextAxis, Mat.set, SC.neg, hsy, hs, ex, ey, ez] <;> (try field_simp)
  all_goals first
    | linear_combination q00
    | linear_combination -q00
    | linear_combination q02
    | linear_combination -q02
    | linear_combination q10
    | linear_combination -q10
    | linear_combination q12
    | linear_combination -q12

theorem to_euler_row_syxy (sqrt : K → K) (small : K → Bool) (m : Mat K) (h : SO3 m) (m0 : Mat K)
    (hsq : ∀ x y : K, sqrt (x * x + y * y) * sqrt (x * x + y * y) = x * x + y * y) (h1 : sqrt 1 = 1)
    (hs : small (eulerPivot sqrt ⟨1, 1, 1, 0⟩ m) = false) (hz : eulerPivot sqrt ⟨1, 1, 1, 0⟩ m ≠ 0) :
    Eq3 (fromEuler ⟨1, 1, 1, 0⟩ (toEuler sqrt small ⟨1, 1, 1, 0⟩ m).1 (toEuler sqrt small ⟨1, 1, 1, 0⟩ m).2.1
        (toEuler sqrt small ⟨1, 1, 1, 0⟩ m).2.2 m0) m := by
  change small (sqrt (m 1 0 * m 1 0 + m 1 2 * m 1 2)) = false at hs
  change sqrt (m 1 0 * m 1 0 + m 1 2 * m 1 2) ≠ 0 at hz
  have hS := hsq (m 1 0) (m 1 2)
  generalize hsy : sqrt (m 1 0 * m 1 0 + m 1 2 * m 1 2) = sy at hs hz hS
  have ex : atan2SC sqrt (m 1 0) (m 1 2) = ⟨m 1 0 / sy, m 1 2 / sy⟩ :=
    atan2SC_eq sqrt _ _ sy ((congrArg sqrt (by linear_combination 0)).trans hsy) hz
  have ey : atan2SC sqrt sy (m 1 1) = ⟨sy / 1, m 1 1 / 1⟩ :=
    atan2SC_eq sqrt _ _ 1 ((congrArg sqrt (by linear_combination hS + (1) * h.r11)).trans h1) one_ne_zero
  have ez : atan2SC sqrt (m 0 1) (-m 2 1) = ⟨m 0 1 / sy, -m 2 1 / sy⟩ :=
    atan2SC_eq sqrt _ _ sy ((congrArg sqrt (by linear_combination (-1) * h.r11 + (1) * h.c11)).trans hsy) hz
  have q00 : -m 1 2 * m 2 1 - m 0 1 * m 1 0 * m 1 1 = m 0 0 * (sy * sy) := by
    rw [hS]; linear_combination (m 2 0) * h.r02 + (-m 0 0) * h.r11 + (-m 0 0) * h.r22 + (-m 0 1) * h.c01 + (m 0 0) * h.c11 + (1) * h.f00 + (m 2 2) * h.f11
  have q02 : m 1 0 * m 2 1 - m 0 1 * m 1 1 * m 1 2 = m 0 2 * (sy * sy) := by
    rw [hS]; linear_combination (-m 1 2) * h.r01 + (-m 2 2) * h.r02 + (m 0 2) * h.r22 + (-m 0 2) * h.c00 + (m 0 0) * h.c02 + (-m 2 1) * h.f10
  have q20 : -m 1 0 * m 1 1 * m 2 1 + m 0 1 * m 1 2 = m 2 0 * (sy * sy) := by
    rw [hS]; linear_combination (-m 1 0) * h.r12 + (-m 1 2) * h.f01
  have q22 : -m 1 1 * m 1 2 * m 2 1 - m 0 1 * m 1 0 = m 2 2 * (sy * sy) := by
    rw [hS]; linear_combination (-m 1 2) * h.r12 + (m 1 0) * h.f01
  refine forall_lt3_2 ⟨?_, ?_, ?_, ?_, ?_, ?_, ?_, ?_, ?_⟩ <;>
    simp [toEuler, fromEuler, eulerIJK, nextAxis, Mat.set, SC.neg, hsy, hs, ex, ey, ez] <;> (try field_simp)
  all_goals first
    | linear_combination q00
    | linear_combination -q00
    | linear_combination q02
    | linear_combination -q02
    | linear_combination q20
    | linear_combination -q20
    | linear_combination q22
    | linear_combination -q22

theorem to_euler_row_szxy (sqrt : K → K) (small : K → Bool) (m : Mat K) (h : SO3 m) (m0 : Mat K)
    (hsq : ∀ x y : K, sqrt (x * x + y * y) * sqrt (x * x + y * y) = x * x + y * y) (h1 : sqrt 1 = 1)
    (hs : small (eulerPivot sqrt ⟨2, 0, 0, 0⟩ m) = false) (hz : eulerPivot sqrt ⟨2, 0, 0, 0⟩ m ≠ 0) :
    Eq3 (fromEuler ⟨2, 0, 0, 0⟩ (toEuler sqrt small ⟨2, 0, 0, 0⟩ m).1 (toEuler sqrt small ⟨2, 0, 0, 0⟩ m).2.1
        (toEuler sqrt small ⟨2, 0, 0, 0⟩ m).2.2 m0) m := by
  change small (sqrt (m 2 2 * m 2 2 + m 0 2 * m 0 2)) = false at hs
  change sqrt (m 2 2 * m 2 2 + m 0 2 * m 0 2) ≠ 0 at hz
  have hS := hsq (m 2 2) (m 0 2)
  generalize hsy : sqrt (m 2 2 * m 2 2 + m 0 2 * m 0 2) = sy at hs hz hS
  have ex : atan2SC sqrt (m 1 0) (m 1 1) = ⟨m 1 0 / sy, m 1 1 / sy⟩ :=
    atan2SC_eq sqrt _ _ sy ((congrArg sqrt (by linear_combination (-1) * h.r00 + (-1) * h.r22 + (1) * h.c00 + (1) * h.c11)).trans hsy) hz
  have ey : atan2SC sqrt (-m 1 2) sy = ⟨-m 1 2 / 1, sy / 1⟩ :=
    atan2SC_eq sqrt _ _ 1 ((congrArg sqrt (by linear_combination hS + (1) * h.r00 + (1) * h.r11 + (1) * h.r22 + (-1) * h.c00 + (-1) * h.c11)).trans h1) one_ne_zero
  have ez : atan2SC sqrt (m 0 2) (m 2 2) = ⟨m 0 2 / sy, m 2 2 / sy⟩ :=
    atan2SC_eq sqrt _ _ sy ((congrArg sqrt (by linear_combination 0)).trans hsy) hz
  have q00 : m 1 1 * m 2 2 - m 0 2 * m 1 0 * m 1 2 = m 0 0 * (sy * sy) := by
    rw [hS]; linear_combination (-m 0 0) * h.r00 + (-m 1 0) * h.r01 + (-m 2 0) * h.r02 + (m 0 0) * h.c00 + (m 0 1) * h.c01 + (-m 2 2) * h.f11
  have q01 : -m 1 0 * m 2 2 - m 0 2 * m 1 1 * m 1 2 = m 0 1 * (sy * sy) := by
    rw [hS]; linear_combination (-m 0 1) * h.r00 + (-m 1 1) * h.r01 + (-m 2 1) * h.r02 + (m 0 0) * h.c01 + (m 0 1) * h.c11 + (m 2 2) * h.f10
  have q20 : -m 1 0 * m 1 2 * m 2 2 - m 0 2 * m 1 1 = m 2 0 * (sy * sy) := by
    rw [hS]; linear_combination (-m 2 0) * h.r00 + (-m 1 0) * h.r12 + (-m 2 0) * h.r22 + (m 2 0) * h.c00 + (m 2 0) * h.c11 + (m 1 1) * h.f02
  have q21 : -m 1 1 * m 1 2 * m 2 2 + m 0 2 * m 1 0 = m 2 1 * (sy * sy) := by
    rw [hS]; linear_combination (-m 2 1) * h.r00 + (-m 1 1) * h.r12 + (-m 2 1) * h.r22 + (m 2 1) * h.c00 + (m 2 1) * h.c11 + (-m 1 0) * h.f02
  refine forall_lt3_2 ⟨?_, ?_, ?_, ?_, ?_, ?_, ?_, ?_, ?_⟩ <;>
    simp [toEuler, fromEuler, eulerIJK, nextAxis, Mat.set, SC.neg, hsy, hs, ex, ey, ez] <;> (try field_simp)
  all_goals first
    | linear_combination q00
    | linear_combination -q00
    | linear_combination q01
    | linear_combination -q01
    | linear_combination q20
    | linear_combination -q20
    | linear_combination q21
    | linear_combination -q21

theorem to_euler_row_szxz (sqrt : K → K) (small : K → Bool) (m : Mat K) (h : SO3 m) (m0 : Mat K)
    (hsq : ∀ x y : K, sqrt (x * x + y * y) * sqrt (x * x + y * y) = x * x + y * y) (h1 : sqrt 1 = 1)
    (hs : small (eulerPivot sqrt ⟨2, 0, 1, 0⟩ m) = false) (hz : eulerPivot sqrt ⟨2, 0, 1, 0⟩ m ≠ 0) :
    Eq3 (fromEuler ⟨2, 0, 1, 0⟩ (toEuler sqrt small ⟨2, 0, 1, 0⟩ m).1 (toEuler sqrt small ⟨2, 0, 1, 0⟩ m).2.1
        (toEuler sqrt small ⟨2, 0, 1, 0⟩ m).2.2 m0) m := by
  change small (sqrt (m 2 0 * m 2 0 + m 2 1 * m 2 1)) = false at hs
  change sqrt (m 2 0 * m 2 0 + m 2 1 * m 2 1) ≠ 0 at hz
  have hS := hsq (m 2 0) (m 2 1)
  generalize hsy : sqrt (m 2 0 * m 2 0 + m 2 1 * m 2 1) = sy at hs hz hS
  have ex : atan2SC sqrt (m 2 0) (m 2 1) = ⟨m 2 0 / sy, m 2 1 / sy⟩ :=
    atan2SC_eq sqrt _ _ sy ((congrArg sqrt (by linear_combination 0)).trans hsy) hz
  have ey : atan2SC sqrt sy (m 2 2) = ⟨sy / 1, m 2 2 / 1⟩ :=
    atan2SC_eq sqrt _ _ 1 ((congrArg sqrt (by linear_combination hS + (1) * h.r22)).trans h1) one_ne_zero
  have ez : atan2SC sqrt (m 0 2) (-m 1 2) = ⟨m 0 2 / sy, -m 1 2 / sy⟩ :=
    atan2SC_eq sqrt _ _ sy ((congrArg sqrt (by linear_combination (1) * h.r00 + (1) * h.r11 + (-1) * h.c00 + (-1) * h.c11)).trans hsy) hz
  have q00 : -m 1 2 * m 2 1 - m 0 2 * m 2 0 * m 2 2 = m 0 0 * (sy * sy) := by
    rw [hS]; linear_combination (-m 0 0) * h.r22 + (1) * h.f00 + (m 2 2) * h.f11
  have q01 : m 1 2 * m 2 0 - m 0 2 * m 2 1 * m 2 2 = m 0 1 * (sy * sy) := by
    rw [hS]; linear_combination (-m 0 1) * h.r22 + (1) * h.f01 + (-m 2 2) * h.f10
  have q10 : -m 1 2 * m 2 0 * m 2 2 + m 0 2 * m 2 1 = m 1 0 * (sy * sy) := by
    rw [hS]; linear_combination (-m 2 0) * h.r12 + (-m 2 1) * h.f02
  have q11 : -m 1 2 * m 2 1 * m 2 2 - m 0 2 * m 2 0 = m 1 1 * (sy * sy) := by
    rw [hS]; linear_combination (-m 2 1) * h.r12 + (m 2 0) * h.f02
  refine forall_lt3_2 ⟨?_, ?_, ?_, ?_, ?_, ?_, ?_, ?_, ?_⟩ <;>
    simp [toEuler, fromEuler, eulerIJK, nextAxis, Mat.set, SC.neg, hsy, hs, ex, ey, ez] <;> (try field_simp)
  all_goals first
    | linear_combination q00
    | linear_combination -q00
    | linear_combination q01
    | linear_combination -q01
    | linear_combination q10
    | linear_combination -q10
    | linear_combination q11
    | linear_combination -q11

theorem to_euler_row_szyx (sqrt : K → K) (small : K → Bool) (m : Mat K) (h : SO3 m) (m0 : Mat K)
    (hsq : ∀ x y : K, sqrt (x * x + y * y) * sqrt (x * x + y * y) = x * x + y * y) (h1 : sqrt 1 = 1)
    (hs : small (eulerPivot sqrt ⟨2, 1, 0, 0⟩ m) = false) (hz : eulerPivot sqrt ⟨2, 1, 0, 0⟩ m ≠ 0) :
    Eq3 (fromEuler ⟨2, 1, 0, 0⟩ (toEuler sqrt small ⟨2, 1, 0, 0⟩ m).1 (toEuler sqrt small ⟨2, 1, 0, 0⟩ m).2.1
        (toEuler sqrt small ⟨2, 1, 0, 0⟩ m).2.2 m0) m := by
  change small (sqrt (m 2 2 * m 2 2 + m 1 2 * m 1 2)) = false at hs
  change sqrt (m 2 2 * m 2 2 + m 1 2 * m 1 2) ≠ 0 at hz
  have hS := hsq (m 2 2) (m 1 2)
  generalize hsy : sqrt (m 2 2 * m 2 2 + m 1 2 * m 1 2) = sy at hs hz hS
  have ex : atan2SC sqrt (m 0 1) (m 0 0) = ⟨m 0 1 / sy, m 0 0 / sy⟩ :=
    atan2SC_eq sqrt _ _ sy ((congrArg sqrt (by linear_combination (-1) * h.r11 + (-1) * h.r22 + (1) * h.c00 + (1) * h.c11)).trans hsy) hz
  have ey : atan2SC sqrt (-m 0 2) sy = ⟨-m 0 2 / 1, sy / 1⟩ :=
    atan2SC_eq sqrt _ _ 1 ((congrArg sqrt (by linear_combination hS + (1) * h.r00 + (1) * h.r11 + (1) * h.r22 + (-1) * h.c00 + (-1) * h.c11)).trans h1) one_ne_zero
  have ez : atan2SC sqrt (m 1 2) (m 2 2) = ⟨m 1 2 / sy, m 2 2 / sy⟩ :=
    atan2SC_eq sqrt _ _ sy ((congrArg sqrt (by linear_combination 0)).trans hsy) hz
  have q10 : -m 0 1 * m 2 2 - m 0 0 * m 0 2 * m 1 2 = m 1 0 * (sy * sy) := by
    rw [hS]; linear_combination (-m 0 0) * h.r01 + (-m 1 0) * h.r11 + (-m 2 0) * h.r12 + (m 1 0) * h.c00 + (m 1 1) * h.c01 + (m 2 2) * h.f01
  have q11 : -m 0 1 * m 0 2 * m 1 2 + m 0 0 * m 2 2 = m 1 1 * (sy * sy) := by
    rw [hS]; linear_combination (-m 0 1) * h.r01 + (-m 1 1) * h.r11 + (-m 2 1) * h.r12 + (m 1 0) * h.c01 + (m 1 1) * h.c11 + (-m 2 2) * h.f00
  have q20 : m 0 1 * m 1 2 - m 0 0 * m 0 2 * m 2 2 = m 2 0 * (sy * sy) := by
    rw [hS]; linear_combination (-m 0 0) * h.r02 + (-m 1 0) * h.r12 + (-m 2 0) * h.r22 + (m 2 0) * h.c00 + (m 2 1) * h.c01 + (-m 1 2) * h.f01
  have q21 : -m 0 1 * m 0 2 * m 2 2 - m 0 0 * m 1 2 = m 2 1 * (sy * sy) := by
    rw [hS]; linear_combination (-m 0 1) * h.r02 + (-m 1 1) * h.r12 + (-m 2 1) * h.r22 + (m 2 0) * h.c01 + (m 2 1) * h.c11 + (m 1 2) * h.f00
  refine forall_lt3_2 ⟨?_, ?_, ?_, ?_, ?_, ?_, ?_, ?_, ?_⟩ <;>
    simp [toEuler, fromEuler, eulerIJK, nextAxis, Mat.set, SC.neg, hsy, hs, ex, ey, ez] <;> (try field_simp)
  all_goals first
    | linear_combination q10
    | linear_combination -q10
    | linear_combination q11
    | linear_combination -q11
    | linear_combination q20
    | linear_combination -q20
    | linear_combination q21
    | linear_combination -q21

theorem to_euler_row_szyz (sqrt : K → K) (small : K → Bool) (m : Mat K) (h : SO3 m) (m0 : Mat K)
    (hsq : ∀ x y : K, sqrt (x * x + y * y) * sqrt (x * x + y * y) = x * x + y * y) (h1 : sqrt 1 = 1)
    (hs : small (eulerPivot sqrt ⟨2, 1, 1, 0⟩ m) = false) (hz : eulerPivot sqrt ⟨2, 1, 1, 0⟩ m ≠ 0) :
    Eq3 (fromEuler ⟨2, 1, 1, 0⟩ (toEuler sqrt small ⟨2, 1, 1, 0⟩ m).1 (toEuler sqrt small ⟨2, 1, 1, 0⟩ m).2.1
        (toEuler sqrt small ⟨2, 1, 1, 0⟩ m).2.2 m0) m := by
  change small (sqrt (m 2 1 * m 2 1 + m 2 0 * m 2 0)) = false at hs
  change sqrt (m 2 1 * m 2 1 + m 2 0 * m 2 0) ≠ 0 at hz
  have hS := hsq (m 2 1) (m 2 0)
  generalize hsy : sqrt (m 2 1 * m 2 1 + m 2 0 * m 2 0) = sy at hs hz hS
  have ex : atan2SC sqrt (m 2 1) (m 2 0) = ⟨m 2 1 / sy, m 2 0 / sy⟩ :=
    atan2SC_eq sqrt _ _ sy ((congrArg sqrt (by linear_combination 0)).trans hsy) hz
  have ey : atan2SC sqrt sy (m 2 2) = ⟨sy / 1, m 2 2 / 1⟩ :=
    atan2SC_eq sqrt _ _ 1 ((congrArg sqrt (by linear_combination hS + (1) * h.r22)).trans h1) one_ne_zero
  have ez : atan2SC sqrt (m 1 2) (-m 0 2) = ⟨m 1 2 / sy, -m 0 2 / sy⟩ :=
    atan2SC_eq sqrt _ _ sy ((congrArg sqrt (by linear_combination (1) * h.r00 + (1) * h.r11 + (-1) * h.c00 + (-1) * h.c11)).trans hsy) hz
  have q00 : -m 1 2 * m 2 1 - m 0 2 * m 2 0 * m 2 2 = m 0 0 * (sy * sy) := by
    rw [hS]; linear_combination (-m 0 0) * h.r22 + (1) * h.f00 + (m 2 2) * h.f11
  have q01 : m 1 2 * m 2 0 - m 0 2 * m 2 1 * m 2 2 = m 0 1 * (sy * sy) := by
    rw [hS]; linear_combination (-m 0 1) * h.r22 + (1) * h.f01 + (-m 2 2) * h.f10
  have q10 : -m 1 2 * m 2 0 * m 2 2 + m 0 2 * m 2 1 = m 1 0 * (sy * sy) := by
    rw [hS]; linear_combination (-m 2 0) * h.r12 + (-m 2 1) * h.f02
  have q11 : -m 1 2 * m 2 1 * m 2 2 - m 0 2 * m 2 0 = m 1 1 * (sy * sy) := by
    rw [hS]; linear_combination (-m 2 1) * h.r12 + (m 2 0) * h.f02
  refine forall_lt3_2 ⟨?_, ?_, ?_, ?_, ?_, ?_, ?_, ?_, ?_⟩ <;>
    simp [toEuler, fromEuler, eulerIJK, nextAxis, Mat.set, SC.neg, hsy, hs, ex, ey, ez] <;> (try field_simp)
  all_goals first
    | linear_combination q00
    | linear_combination -q00
    | linear_combination q01
    | linear_combination -q01
    | linear_combination q10
    | linear_combination -q10
    | linear_combination q11
    | linear_combination -q11

theorem to_euler_row_rzyx (sqrt : K → K) (small : K → Bool) (m : Mat K) (h : SO3 m) (m0 : Mat K)
    (hsq : ∀ x y : K, sqrt (x * x + y * y) * sqrt (x * x + y * y) = x * x + y * y) (h1 : sqrt 1 = 1)
    (hs : small (eulerPivot sqrt ⟨0, 0, 0, 1⟩ m) = false) (hz : eulerPivot sqrt ⟨0, 0, 0, 1⟩ m ≠ 0) :
    Eq3 (fromEuler ⟨0, 0, 0, 1⟩ (toEuler sqrt small ⟨0, 0, 0, 1⟩ m).1 (toEuler sqrt small ⟨0, 0, 0, 1⟩ m).2.1
        (toEuler sqrt small ⟨0, 0, 0, 1⟩ m).2.2 m0) m := by
  change small (sqrt (m 0 0 * m 0 0 + m 1 0 * m 1 0)) = false at hs
  change sqrt (m 0 0 * m 0 0 + m 1 0 * m 1 0) ≠ 0 at hz
  have hS := hsq (m 0 0) (m 1 0)
  generalize hsy : sqrt (m 0 0 * m 0 0 + m 1 0 * m 1 0) = sy at hs hz hS
  have ex : atan2SC sqrt (m 2 1) (m 2 2) = ⟨m 2 1 / sy, m 2 2 / sy⟩ :=
    atan2SC_eq sqrt _ _ sy ((congrArg sqrt (by linear_combination (1) * h.r22 + (-1) * h.c00)).trans hsy) hz
  have ey : atan2SC sqrt (-m 2 0) sy = ⟨-m 2 0 / 1, sy / 1⟩ :=
    atan2SC_eq sqrt _ _ 1 ((congrArg sqrt (by linear_combination hS + (1) * h.c00)).trans h1) one_ne_zero
  have ez : atan2SC sqrt (m 1 0) (m 0 0) = ⟨m 1 0 / sy, m 0 0 / sy⟩ :=
    atan2SC_eq sqrt _ _ sy ((congrArg sqrt (by linear_combination 0)).trans hsy) hz
  have q01 : -m 1 0 * m 2 2 - m 0 0 * m 2 0 * m 2 1 = m 0 1 * (sy * sy) := by
    rw [hS]; linear_combination (-m 2 1) * h.r02 + (m 0 1) * h.r22 + (-m 0 1) * h.c00 + (m 2 2) * h.f10
  have q02 : m 1 0 * m 2 1 - m 0 0 * m 2 0 * m 2 2 = m 0 2 * (sy * sy) := by
    rw [hS]; linear_combination (-m 2 2) * h.r02 + (m 0 2) * h.r22 + (-m 0 2) * h.c00 + (-m 2 1) * h.f10
  have q11 : -m 1 0 * m 2 0 * m 2 1 + m 0 0 * m 2 2 = m 1 1 * (sy * sy) := by
    rw [hS]; linear_combination (-m 2 1) * h.r12 + (m 1 1) * h.r22 + (-m 1 1) * h.c00 + (-m 2 2) * h.f00
  have q12 : -m 1 0 * m 2 0 * m 2 2 - m 0 0 * m 2 1 = m 1 2 * (sy * sy) := by
    rw [hS]; linear_combination (-m 2 2) * h.r12 + (m 1 2) * h.r22 + (-m 1 2) * h.c00 + (m 2 1) * h.f00
  refine forall_lt3_2 ⟨?_, ?_, ?_, ?_, ?_, ?_, ?_, ?_, ?_⟩ <;>
    simp [toEuler, fromEuler, eulerIJK, nextAxis, Mat.set, SC.neg, hsy, hs, ex, ey, ez] <;> (try field_simp)
  all_goals first
    | linear_combination q01
    | linear_combination -q01
    | linear_combination q02
    | linear_combination -q02
    | linear_combination q11
    | linear_combination -q11
    | linear_combination q12
    | linear_combination -q12

theorem to_euler_row_rxyx (sqrt : K → K) (small : K → Bool) (m : Mat K) (h : SO3 m) (m0 : Mat K)
    (hsq : ∀ x y : K, sqrt (x * x + y * y) * sqrt (x * x + y * y) = x * x + y * y) (h1 : sqrt 1 = 1)
    (hs : small (eulerPivot sqrt ⟨0, 0, 1, 1⟩ m) = false) (hz : eulerPivot sqrt ⟨0, 0, 1, 1⟩ m ≠ 0) :
    Eq3 (fromEuler ⟨0, 0, 1, 1⟩ (toEuler sqrt small ⟨0, 0, 1, 1⟩ m).1 (toEuler sqrt small ⟨0, 0, 1, 1⟩ m).2.1
        (toEuler sqrt small ⟨0, 0, 1, 1⟩ m).2.2 m0) m := by
  change small (sqrt (m 0 1 * m 0 1 + m 0 2 * m 0 2)) = false at hs
  change sqrt (m 0 1 * m 0 1 + m 0 2 * m 0 2) ≠ 0 at hz
  have hS := hsq (m 0 1) (m 0 2)
  generalize hsy : sqrt (m 0 1 * m 0 1 + m 0 2 * m 0 2) = sy at hs hz hS
  have ex : atan2SC sqrt (m 0 1) (m 0 2) = ⟨m 0 1 / sy, m 0 2 / sy⟩ :=
    atan2SC_eq sqrt _ _ sy ((congrArg sqrt (by linear_combination 0)).trans hsy) hz
  have ey : atan2SC sqrt sy (m 0 0) = ⟨sy / 1, m 0 0 / 1⟩ :=
    atan2SC_eq sqrt _ _ 1 ((congrArg sqrt (by linear_combination hS + (1) * h.r00)).trans h1) one_ne_zero
  have ez : atan2SC sqrt (m 1 0) (-m 2 0) = ⟨m 1 0 / sy, -m 2 0 / sy⟩ :=
    atan2SC_eq sqrt _ _ sy ((congrArg sqrt (by linear_combination (-1) * h.r00 + (1) * h.c00)).trans hsy) hz
  have q11 : -m 0 2 * m 2 0 - m 0 0 * m 0 1 * m 1 0 = m 1 1 * (sy * sy) := by
    rw [hS]; linear_combination (-m 1 1) * h.r00 + (m 1 1) * h.c00 + (-m 1 0) * h.c01 + (m 2 0) * h.f02
  have q12 : m 0 1 * m 2 0 - m 0 0 * m 0 2 * m 1 0 = m 1 2 * (sy * sy) := by
    rw [hS]; linear_combination (-m 1 2) * h.r00 + (m 1 2) * h.c00 + (-m 1 0) * h.c02 + (-m 2 0) * h.f01
  have q21 : m 0 2 * m 1 0 - m 0 0 * m 0 1 * m 2 0 = m 2 1 * (sy * sy) := by
    rw [hS]; linear_combination (-m 2 1) * h.r00 + (m 2 1) * h.c00 + (-m 2 0) * h.c01 + (-m 1 0) * h.f02
  have q22 : -m 0 1 * m 1 0 - m 0 0 * m 0 2 * m 2 0 = m 2 2 * (sy * sy) := by
    rw [hS]; linear_combination (-m 2 2) * h.r00 + (m 2 2) * h.c00 + (-m 2 0) * h.c02 + (m 1 0) * h.f01
  refine forall_lt3_2 ⟨?_, ?_, ?_, ?_, ?_, ?_, ?_, ?_, ?_⟩ <;>
    simp [toEuler, fromEuler, eulerIJK, nextAxis, Mat.set, SC.neg, hsy, hs, ex, ey, ez] <;> (try field_simp)
  all_goals first
    | linear_combination q11
    | linear_combination -q11
    | linear_combination q12
    | linear_combination -q12
    | linear_combination q21
    | linear_combination -q21
    | linear_combination q22
    | linear_combination -q22

theorem to_euler_row_ryzx (sqrt : K → K) (small : K → Bool) (m : Mat K) (h : SO3 m) (m0 : Mat K)
    (hsq : ∀ x y : K, sqrt (x * x + y * y) * sqrt (x * x + y * y) = x * x + y * y) (h1 : sqrt 1 = 1)
    (hs : small (eulerPivot sqrt ⟨0, 1, 0, 1⟩ m) = false) (hz : eulerPivot sqrt ⟨0, 1, 0, 1⟩ m ≠ 0) :
    Eq3 (fromEuler ⟨0, 1, 0, 1⟩ (toEuler sqrt small ⟨0, 1, 0, 1⟩ m).1 (toEuler sqrt small ⟨0, 1, 0, 1⟩ m).2.1
        (toEuler sqrt small ⟨0, 1, 0, 1⟩ m).2.2 m0) m := by
  change small (sqrt (m 0 0 * m 0 0 + m 2 0 * m 2 0)) = false at hs
  change sqrt (m 0 0 * m 0 0 + m 2 0 * m 2 0) ≠ 0 at hz
  have hS := hsq (m 0 0) (m 2 0)
  generalize hsy : sqrt (m 0 0 * m 0 0 + m 2 0 * m 2 0) = sy at hs hz hS
  have ex : atan2SC sqrt (m 1 2) (m 1 1) = ⟨m 1 2 / sy, m 1 1 / sy⟩ :=
    atan2SC_eq sqrt _ _ sy ((congrArg sqrt (by linear_combination (1) * h.r11 + (-1) * h.c00)).trans hsy) hz
  have ey : atan2SC sqrt (-m 1 0) sy = ⟨-m 1 0 / 1, sy / 1⟩ :=
    atan2SC_eq sqrt _ _ 1 ((congrArg sqrt (by linear_combination hS + (1) * h.c00)).trans h1) one_ne_zero
  have ez : atan2SC sqrt (m 2 0) (m 0 0) = ⟨m 2 0 / sy, m 0 0 / sy⟩ :=
    atan2SC_eq sqrt _ _ sy ((congrArg sqrt (by linear_combination 0)).trans hsy) hz
  have q01 : m 1 2 * m 2 0 - m 0 0 * m 1 0 * m 1 1 = m 0 1 * (sy * sy) := by
    rw [hS]; linear_combination (m 2 1) * h.r02 + (-m 0 1) * h.r22 + (-m 0 0) * h.c01 + (1) * h.f01 + (-m 2 2) * h.f10
  have q02 : -m 1 1 * m 2 0 - m 0 0 * m 1 0 * m 1 2 = m 0 2 * (sy * sy) := by
    rw [hS]; linear_combination (m 2 2) * h.r02 + (-m 0 2) * h.r22 + (-m 0 0) * h.c02 + (1) * h.f02 + (m 2 1) * h.f10
  have q21 : -m 1 0 * m 1 1 * m 2 0 - m 0 0 * m 1 2 = m 2 1 * (sy * sy) := by
    rw [hS]; linear_combination (m 2 1) * h.r11 + (-m 1 1) * h.r12 + (-m 2 1) * h.c00 + (m 1 2) * h.f00
  have q22 : -m 1 0 * m 1 2 * m 2 0 + m 0 0 * m 1 1 = m 2 2 * (sy * sy) := by
    rw [hS]; linear_combination (m 2 2) * h.r11 + (-m 1 2) * h.r12 + (-m 2 2) * h.c00 + (-m 1 1) * h.f00
  refine forall_lt3_2 ⟨?_, ?_, ?_, ?_, ?_, ?_, ?_, ?_, ?_⟩ <;>
    simp [toEuler, fromEuler, eulerIJK, nextAxis, Mat.set, SC.neg, hsy, hs, ex, ey, ez] <;> (try field_simp)
  all_goals first
    | linear_combination q01
    | linear_combination -q01
    | linear_combination q02
    | linear_combination -q02
    | linear_combination q21
    | linear_combination -q21
    | linear_combination q22
    | linear_combination -q22

theorem to_euler_row_rxzx (sqrt : K → K) (small : K → Bool) (m : Mat K) (h : SO3 m) (m0 : Mat K)
    (hsq : ∀ x y : K, sqrt (x * x + y * y) * sqrt (x * x + y * y) = x * x + y * y) (h1 : sqrt 1 = 1)
    (hs : small (eulerPivot sqrt ⟨0, 1, 1, 1⟩ m) = false) (hz : eulerPivot sqrt ⟨0, 1, 1, 1⟩ m ≠ 0) :
    Eq3 (fromEuler ⟨0, 1, 1, 1⟩ (toEuler sqrt small ⟨0, 1, 1, 1⟩ m).1 (toEuler sqrt small ⟨0, 1, 1, 1⟩ m).2.1
        (toEuler sqrt small ⟨0, 1, 1, 1⟩ m).2.2 m0) m := by
  change small (sqrt (m 0 2 * m 0 2 + m 0 1 * m 0 1)) = false at hs
  change sqrt (m 0 2 * m 0 2 + m 0 1 * m 0 1) ≠ 0 at hz
  have hS := hsq (m 0 2) (m 0 1)
  generalize hsy : sqrt (m 0 2 * m 0 2 + m 0 1 * m 0 1) = sy at hs hz hS
  have ex : atan2SC sqrt (m 0 2) (m 0 1) = ⟨m 0 2 / sy, m 0 1 / sy⟩ :=
    atan2SC_eq sqrt _ _ sy ((congrArg sqrt (by linear_combination 0)).trans hsy) hz
  have ey : atan2SC sqrt sy (m 0 0) = ⟨sy / 1, m 0 0 / 1⟩ :=
    atan2SC_eq sqrt _ _ 1 ((congrArg sqrt (by linear_combination hS + (1) * h.r00)).trans h1) one_ne_zero
  have ez : atan2SC sqrt (m 2 0) (-m 1 0) = ⟨m 2 0 / sy, -m 1 0 / sy⟩ :=
    atan2SC_eq sqrt _ _ sy ((congrArg sqrt (by linear_combination (-1) * h.r00 + (1) * h.c00)).trans hsy) hz
  have q11 : -m 0 2 * m 2 0 - m 0 0 * m 0 1 * m 1 0 = m 1 1 * (sy * sy) := by
    rw [hS]; linear_combination (-m 1 1) * h.r00 + (m 1 1) * h.c00 + (-m 1 0) * h.c01 + (m 2 0) * h.f02
  have q12 : m 0 1 * m 2 0 - m 0 0 * m 0 2 * m 1 0 = m 1 2 * (sy * sy) := by
    rw [hS]; linear_combination (-m 1 2) * h.r00 + (m 1 2) * h.c00 + (-m 1 0) * h.c02 + (-m 2 0) * h.f01
  have q21 : m 0 2 * m 1 0 - m 0 0 * m 0 1 * m 2 0 = m 2 1 * (sy * sy) := by
    rw [hS]; linear_combination (-m 2 1) * h.r00 + (m 2 1) * h.c00 + (-m 2 0) * h.c01 + (-m 1 0) * h.f02
  have q22 : -m 0 1 * m 1 0 - m 0 0 * m 0 2 * m 2 0 = m 2 2 * (sy * sy) := by
    rw [hS]; linear_combination (-m 2 2) * h.r00 + (m 2 2) * h.c00 + (-m 2 0) * h.c02 + (m 1 0) * h.f01
  refine forall_lt3_2 ⟨?_, ?_, ?_, ?_, ?_, ?_, ?_, ?_, ?_⟩ <;>
    simp [toEuler, fromEuler, eulerIJK, nextAxis, Mat.set, SC.neg, hsy, hs, ex, ey, ez] <;> (try field_simp)
  all_goals first
    | linear_combination q11
    | linear_combination -q11
    | linear_combination q12
    | linear_combination -q12
    | linear_combination q21
    | linear_combination -q21
    | linear_combination q22
    | linear_combination -q22

theorem to_euler_row_rxzy (sqrt : K → K) (small : K → Bool) (m : Mat K) (h : SO3 m) (m0 : Mat K)
    (hsq : ∀ x y : K, sqrt (x * x + y * y) * sqrt (x * x + y * y) = x * x + y * y) (h1 : sqrt 1 = 1)
    (hs : small (eulerPivot sqrt ⟨1, 0, 0, 1⟩ m) = false) (hz : eulerPivot sqrt ⟨1, 0, 0, 1⟩ m ≠ 0) :
    Eq3 (fromEuler ⟨1, 0, 0, 1⟩ (toEuler sqrt small ⟨1, 0, 0, 1⟩ m).1 (toEuler sqrt small ⟨1, 0, 0, 1⟩ m).2.1
        (toEuler sqrt small ⟨1, 0, 0, 1⟩ m).2.2 m0) m := by
  change small (sqrt (m 1 1 * m 1 1 + m 2 1 * m 2 1)) = false at hs
  change sqrt (m 1 1 * m 1 1 + m 2 1 * m 2 1) ≠ 0 at hz
  have hS := hsq (m 1 1) (m 2 1)
  generalize hsy : sqrt (m 1 1 * m 1 1 + m 2 1 * m 2 1) = sy at hs hz hS
  have ex : atan2SC sqrt (m 0 2) (m 0 0) = ⟨m 0 2 / sy, m 0 0 / sy⟩ :=
    atan2SC_eq sqrt _ _ sy ((congrArg sqrt (by linear_combination (1) * h.r00 + (-1) * h.c11)).trans hsy) hz
  have ey : atan2SC sqrt (-m 0 1) sy = ⟨-m 0 1 / 1, sy / 1⟩ :=
    atan2SC_eq sqrt _ _ 1 ((congrArg sqrt (by linear_combination hS + (1) * h.c11)).trans h1) one_ne_zero
  have ez : atan2SC sqrt (m 2 1) (m 1 1) = ⟨m 2 1 / sy, m 1 1 / sy⟩ :=
    atan2SC_eq sqrt _ _ sy ((congrArg sqrt (by linear_combination 0)).trans hsy) hz
  have q10 : m 0 2 * m 2 1 - m 0 0 * m 0 1 * m 1 1 = m 1 0 * (sy * sy) := by
    rw [hS]; linear_combination (-m 1 1) * h.c01 + (-m 2 1) * h.f02
  have q12 : -m 0 1 * m 0 2 * m 1 1 - m 0 0 * m 2 1 = m 1 2 * (sy * sy) := by
    rw [hS]; linear_combination (m 1 2) * h.r00 + (-m 0 2) * h.r01 + (-m 2 2) * h.r12 + (m 1 2) * h.r22 + (-m 1 2) * h.c00 + (m 1 0) * h.c02 + (-m 1 2) * h.c11 + (m 2 1) * h.f00
  have q20 : -m 0 2 * m 1 1 - m 0 0 * m 0 1 * m 2 1 = m 2 0 * (sy * sy) := by
    rw [hS]; linear_combination (-m 2 1) * h.c01 + (m 1 1) * h.f02
  have q22 : -m 0 1 * m 0 2 * m 2 1 + m 0 0 * m 1 1 = m 2 2 * (sy * sy) := by
    rw [hS]; linear_combination (m 2 2) * h.r00 + (-m 0 2) * h.r02 + (m 2 2) * h.r11 + (-m 1 2) * h.r12 + (-m 2 2) * h.c00 + (m 2 0) * h.c02 + (-m 2 2) * h.c11 + (-m 1 1) * h.f00
  refine forall_lt3_2 ⟨?_, ?_, ?_, ?_, ?_, ?_, ?_, ?_, ?_⟩ <;>
    simp [toEuler, fromEuler, eulerIJK, nextAxis, Mat.set, SC.neg, hsy, hs, ex, ey, ez] <;> (try field_simp)
  all_goals first
    | linear_combination q10
    | linear_combination -q10
    | linear_combination q12
    | linear_combination -q12
    | linear_combination q20
    | linear_combination -q20
    | linear_combination q22
    | linear_combination -q22

theorem to_euler_row_ryzy (sqrt : K → K) (small : K → Bool) (m : Mat K) (h : SO3 m) (m0 : Mat K)
    (hsq : ∀ x y : K, sqrt (x * x + y * y) * sqrt (x * x + y * y) = x * x + y * y) (h1 : sqrt 1 = 1)
    (hs : small (eulerPivot sqrt ⟨1, 0, 1, 1⟩ m) = false) (hz : eulerPivot sqrt ⟨1, 0, 1, 1⟩ m ≠ 0) :
    Eq3 (fromEuler ⟨1, 0, 1, 1⟩ (toEuler sqrt small ⟨1, 0, 1, 1⟩ m).1 (toEuler sqrt small ⟨1, 0, 1, 1⟩ m).2.1
        (toEuler sqrt small ⟨1, 0, 1, 1⟩ m).2.2 m0) m := by
  change small (sqrt (m 1 2 * m 1 2 + m 1 0 * m 1 0)) = false at hs
  change sqrt (m 1 2 * m 1 2 + m 1 0 * m 1 0) ≠ 0 at hz
  have hS := hsq (m 1 2) (m 1 0)
  generalize hsy : sqrt (m 1 2 * m 1 2 + m 1 0 * m 1 0) = sy at hs hz hS
  have ex : atan2SC sqrt (m 1 2) (m 1 0) = ⟨m 1 2 / sy, m 1 0 / sy⟩ :=
    atan2SC_eq sqrt _ _ sy ((congrArg sqrt (by linear_combination 0)).trans hsy) hz
  have ey : atan2SC sqrt sy (m 1 1) = ⟨sy / 1, m 1 1 / 1⟩ :=
    atan2SC_eq sqrt _ _ 1 ((congrArg sqrt (by linear_combination hS + (1) * h.r11)).trans h1) one_ne_zero
  have ez : atan2SC sqrt (m 2 1) (-m 0 1) = ⟨m 2 1 / sy, -m 0 1 / sy⟩ :=
    atan2SC_eq sqrt _ _ sy ((congrArg sqrt (by linear_combination (-1) * h.r11 + (1) * h.c11)).trans hsy) hz
  have q00 : -m 1 2 * m 2 1 - m 0 1 * m 1 0 * m 1 1 = m 0 0 * (sy * sy) := by
    rw [hS]; linear_combination (m 2 0) * h.r02 + (-m 0 0) * h.r11 + (-m 0 0) * h.r22 + (-m 0 1) * h.c01 + (m 0 0) * h.c11 + (1) * h.f00 + (m 2 2) * h.f11
  have q02 : m 1 0 * m 2 1 - m 0 1 * m 1 1 * m 1 2 = m 0 2 * (sy * sy) := by
    rw [hS]; linear_combination (-m 1 2) * h.r01 + (-m 2 2) * h.r02 + (m 0 2) * h.r22 + (-m 0 2) * h.c00 + (m 0 0) * h.c02 + (-m 2 1) * h.f10
  have q20 : -m 1 0 * m 1 1 * m 2 1 + m 0 1 * m 1 2 = m 2 0 * (sy * sy) := by
    rw [hS]; linear_combination (-m 1 0) * h.r12 + (-m 1 2) * h.f01
  have q22 : -m 1 1 * m 1 2 * m 2 1 - m 0 1 * m 1 0 = m 2 2 * (sy * sy) := by
    rw [hS]; linear_combination (-m 1 2) * h.r12 + (m 1 0) * h.f01
  refine forall_lt3_2 ⟨?_, ?_, ?_, ?_, ?_, ?_, ?_, ?_, ?_⟩ <;>
    simp [toEuler, fromEuler, eulerIJK, nextAxis, Mat.set, SC.neg, hsy, hs, ex, ey, ez] <;> (try field_simp)
  all_goals first
    | linear_combination q00
    | linear_combination -q00
    | linear_combination q02
    | linear_combination -q02
    | linear_combination q20
    | linear_combination -q20
    | linear_combination q22
    | linear_combination -q22

theorem to_euler_row_rzxy (sqrt : K → K) (small : K → Bool) (m : Mat K) (h : SO3 m) (m0 : Mat K)
    (hsq : ∀ x y : K, sqrt (x * x + y * y) * sqrt (x * x + y * y) = x * x + y * y) (h1 : sqrt 1 = 1)
    (hs : small (eulerPivot sqrt ⟨1, 1, 0, 1⟩ m) = false) (hz : eulerPivot sqrt ⟨1, 1, 0, 1⟩ m ≠ 0) :
    Eq3 (fromEuler ⟨1, 1, 0, 1⟩ (toEuler sqrt small ⟨1, 1, 0, 1⟩ m).1 (toEuler sqrt small ⟨1, 1, 0, 1⟩ m).2.1
        (toEuler sqrt small ⟨1, 1, 0, 1⟩ m).2.2 m0) m := by
  change small (sqrt (m 1 1 * m 1 1 + m 0 1 * m 0 1)) = false at hs
  change sqrt (m 1 1 * m 1 1 + m 0 1 * m 0 1) ≠ 0 at hz
  have hS := hsq (m 1 1) (m 0 1)
  generalize hsy : sqrt (m 1 1 * m 1 1 + m 0 1 * m 0 1) = sy at hs hz hS
  have ex : atan2SC sqrt (m 2 0) (m 2 2) = ⟨m 2 0 / sy, m 2 2 / sy⟩ :=
    atan2SC_eq sqrt _ _ sy ((congrArg sqrt (by linear_combination (1) * h.r22 + (-1) * h.c11)).trans hsy) hz
  have ey : atan2SC sqrt (-m 2 1) sy = ⟨-m 2 1 / 1, sy / 1⟩ :=
    atan2SC_eq sqrt _ _ 1 ((congrArg sqrt (by linear_combination hS + (1) * h.c11)).trans h1) one_ne_zero
  have ez : atan2SC sqrt (m 0 1) (m 1 1) = ⟨m 0 1 / sy, m 1 1 / sy⟩ :=
    atan2SC_eq sqrt _ _ sy ((congrArg sqrt (by linear_combination 0)).trans hsy) hz
  have q00 : m 1 1 * m 2 2 - m 0 1 * m 2 0 * m 2 1 = m 0 0 * (sy * sy) := by
    rw [hS]; linear_combination (-m 2 0) * h.r02 + (m 0 0) * h.r22 + (-m 0 0) * h.c11 + (-m 2 2) * h.f11
  have q02 : -m 1 1 * m 2 0 - m 0 1 * m 2 1 * m 2 2 = m 0 2 * (sy * sy) := by
    rw [hS]; linear_combination (-m 0 2) * h.c11 + (1) * h.f02 + (m 2 1) * h.f10
  have q10 : -m 1 1 * m 2 0 * m 2 1 - m 0 1 * m 2 2 = m 1 0 * (sy * sy) := by
    rw [hS]; linear_combination (-m 2 0) * h.r12 + (m 1 0) * h.r22 + (-m 1 0) * h.c11 + (m 2 2) * h.f01
  have q12 : -m 1 1 * m 2 1 * m 2 2 + m 0 1 * m 2 0 = m 1 2 * (sy * sy) := by
    rw [hS]; linear_combination (-m 2 2) * h.r12 + (m 1 2) * h.r22 + (-m 1 2) * h.c11 + (-m 2 0) * h.f01
  refine forall_lt3_2 ⟨?_, ?_, ?_, ?_, ?_, ?_, ?_, ?_, ?_⟩ <;>
    simp [toEuler, fromEuler, eulerIJK, nextAxis, Mat.set, SC.neg, hsy, hs, ex, ey, ez] <;> (try field_simp)
  all_goals first
    | linear_combination q00
    | linear_combination -q00
    | linear_combination q02
    | linear_combination -q02
    | linear_combination q10
    | linear_combination -q10
    | linear_combination q12
    | linear_combination -q12

theorem to_euler_row_ryxy (sqrt : K → K) (small : K → Bool) (m : Mat K) (h : SO3 m) (m0 : Mat K)
    (hsq : ∀ x y : K, sqrt (x * x + y * y) * sqrt (x * x + y * y) = x * x + y * y) (h1 : sqrt 1 = 1)
    (hs : small (eulerPivot sqrt ⟨1, 1, 1, 1⟩ m) = false) (hz : eulerPivot sqrt ⟨1, 1, 1, 1⟩ m ≠ 0) :
    Eq3 (fromEuler ⟨1, 1, 1, 1⟩ (toEuler sqrt small ⟨1, 1, 1, 1⟩ m).1 (toEuler sqrt small ⟨1, 1, 1, 1⟩ m).2.1
        (toEuler sqrt small ⟨1, 1, 1, 1⟩ m).2.2 m0) m := by
  change small (sqrt (m 1 0 * m 1 0 + m 1 2 * m 1 2)) = false at hs
  change sqrt (m 1 0 * m 1 0 + m 1 2 * m 1 2) ≠ 0 at hz
  have hS := hsq (m 1 0) (m 1 2)
  generalize hsy : sqrt (m 1 0 * m 1 0 + m 1 2 * m 1 2) = sy at hs hz hS
  have ex : atan2SC sqrt (m 1 0) (m 1 2) = ⟨m 1 0 / sy, m 1 2 / sy⟩ :=
    atan2SC_eq sqrt _ _ sy ((congrArg sqrt (by linear_combination 0)).trans hsy) hz
  have ey : atan2SC sqrt sy (m 1 1) = ⟨sy / 1, m 1 1 / 1⟩ :=
    atan2SC_eq sqrt _ _ 1 ((congrArg sqrt (by linear_combination hS + (1) * h.r11)).trans h1) one_ne_zero
  have ez : atan2SC sqrt (m 0 1) (-m 2 1) = ⟨m 0 1 / sy, -m 2 1 / sy⟩ :=
    atan2SC_eq sqrt _ _ sy ((congrArg sqrt (by linear_combination (-1) * h.r11 + (1) * h.c11)).trans hsy) hz
  have q00 : -m 1 2 * m 2 1 - m 0 1 * m 1 0 * m 1 1 = m 0 0 * (sy * sy) := by
    rw [hS]; linear_combination (m 2 0) * h.r02 + (-m 0 0) * h.r11 + (-m 0 0) * h.r22 + (-m 0 1) * h.c01 + (m 0 0) * h.c11 + (1) * h.f00 + (m 2 2) * h.f11
  have q02 : m 1 0 * m 2 1 - m 0 1 * m 1 1 * m 1 2 = m 0 2 * (sy * sy) := by
    rw [hS]; linear_combination (-m 1 2) * h.r01 + (-m 2 2) * h.r02 + (m 0 2) * h.r22 + (-m 0 2) * h.c00 + (m 0 0) * h.c02 + (-m 2 1) * h.f10
  have q20 : -m 1 0 * m 1 1 * m 2 1 + m 0 1 * m 1 2 = m 2 0 * (sy * sy) := by
    rw [hS]; linear_combination (-m 1 0) * h.r12 + (-m 1 2) * h.f01
  have q22 : -m 1 1 * m 1 2 * m 2 1 - m 0 1 * m 1 0 = m 2 2 * (sy * sy) := by
    rw [hS]; linear_combination (-m 1 2) * h.r12 + (m 1 0) * h.f01
  refine forall_lt3_2 ⟨?_, ?_, ?_, ?_, ?_, ?_, ?_, ?_, ?_⟩ <;>
    simp [toEuler, fromEuler, eulerIJK, nextAxis, Mat.set, SC.neg, hsy, hs, ex, ey, ez] <;> (try field_simp)
  all_goals first
    | linear_combination q00
    | linear_combination -q00
    | linear_combination q02
    | linear_combination -q02
    | linear_combination q20
    | linear_combination -q20
    | linear_combination q22
    | linear_combination -q22

theorem to_euler_row_ryxz (sqrt : K → K) (small : K → Bool) (m : Mat K) (h : SO3 m) (m0 : Mat K)
    (hsq : ∀ x y : K, sqrt (x * x + y * y) * sqrt (x * x + y * y) = x * x + y * y) (h1 : sqrt 1 = 1)
    (hs : small (eulerPivot sqrt ⟨2, 0, 0, 1⟩ m) = false) (hz : eulerPivot sqrt ⟨2, 0, 0, 1⟩ m ≠ 0) :
    Eq3 (fromEuler ⟨2, 0, 0, 1⟩ (toEuler sqrt small ⟨2, 0, 0, 1⟩ m).1 (toEuler sqrt small ⟨2, 0, 0, 1⟩ m).2.1
        (toEuler sqrt small ⟨2, 0, 0, 1⟩ m).2.2 m0) m := by
  change small (sqrt (m 2 2 * m 2 2 + m 0 2 * m 0 2)) = false at hs
  change sqrt (m 2 2 * m 2 2 + m 0 2 * m 0 2) ≠ 0 at hz
  have hS := hsq (m 2 2) (m 0 2)
  generalize hsy : sqrt (m 2 2 * m 2 2 + m 0 2 * m 0 2) = sy at hs hz hS
  have ex : atan2SC sqrt (m 1 0) (m 1 1) = ⟨m 1 0 / sy, m 1 1 / sy⟩ :=
    atan2SC_eq sqrt _ _ sy ((congrArg sqrt (by linear_combination (-1) * h.r00 + (-1) * h.r22 + (1) * h.c00 + (1) * h.c11)).trans hsy) hz
  have ey : atan2SC sqrt (-m 1 2) sy = ⟨-m 1 2 / 1, sy / 1⟩ :=
    atan2SC_eq sqrt _ _ 1 ((congrArg sqrt (by linear_combination hS + (1) * h.r00 + (1) * h.r11 + (1) * h.r22 + (-1) * h.c00 + (-1) * h.c11)).trans h1) one_ne_zero
  have ez : atan2SC sqrt (m 0 2) (m 2 2) = ⟨m 0 2 / sy, m 2 2 / sy⟩ :=
    atan2SC_eq sqrt _ _ sy ((congrArg sqrt (by linear_combination 0)).trans hsy) hz
  have q00 : m 1 1 * m 2 2 - m 0 2 * m 1 0 * m 1 2 = m 0 0 * (sy * sy) := by
    rw [hS]; linear_combination (-m 0 0) * h.r00 + (-m 1 0) * h.r01 + (-m 2 0) * h.r02 + (m 0 0) * h.c00 + (m 0 1) * h.c01 + (-m 2 2) * h.f11
  have q01 : -m 1 0 * m 2 2 - m 0 2 * m 1 1 * m 1 2 = m 0 1 * (sy * sy) := by
    rw [hS]; linear_combination (-m 0 1) * h.r00 + (-m 1 1) * h.r01 + (-m 2 1) * h.r02 + (m 0 0) * h.c01 + (m 0 1) * h.c11 + (m 2 2) * h.f10
  have q20 : -m 1 0 * m 1 2 * m 2 2 - m 0 2 * m 1 1 = m 2 0 * (sy * sy) := by
    rw [hS]; linear_combination (-m 2 0) * h.r00 + (-m 1 0) * h.r12 + (-m 2 0) * h.r22 + (m 2 0) * h.c00 + (m 2 0) * h.c11 + (m 1 1) * h.f02
  have q21 : -m 1 1 * m 1 2 * m 2 2 + m 0 2 * m 1 0 = m 2 1 * (sy * sy) := by
    rw [hS]; linear_combination (-m 2 1) * h.r00 + (-m 1 1) * h.r12 + (-m 2 1) * h.r22 + (m 2 1) * h.c00 + (m 2 1) * h.c11 + (-m 1 0) * h.f02
  refine forall_lt3_2 ⟨?_, ?_, ?_, ?_, ?_, ?_, ?_, ?_, ?_⟩ <;>
    simp [toEuler, fromEuler, eulerIJK, nextAxis, Mat.set, SC.neg, hsy, hs, ex, ey, ez] <;> (try field_simp)
  all_goals first
    | linear_combination q00
    | linear_combination -q00
    | linear_combination q01
    | linear_combination -q01
    | linear_combination q20
    | linear_combination -q20
    | linear_combination q21
    | linear_combination -q21

theorem to_euler_row_rzxz (sqrt : K → K) (small : K → Bool) (m : Mat K) (h : SO3 m) (m0 : Mat K)
    (hsq : ∀ x y : K, sqrt (x * x + y * y) * sqrt (x * x + y * y) = x * x + y * y) (h1 : sqrt 1 = 1)
    (hs : small (eulerPivot sqrt ⟨2, 0, 1, 1⟩ m) = false) (hz : eulerPivot sqrt ⟨2, 0, 1, 1⟩ m ≠ 0) :
    Eq3 (fromEuler ⟨2, 0, 1, 1⟩ (toEuler sqrt small ⟨2, 0, 1, 1⟩ m).1 (toEuler sqrt small ⟨2, 0, 1, 1⟩ m).2.1
        (toEuler sqrt small ⟨2, 0, 1, 1⟩ m).2.2 m0) m := by
  change small (sqrt (m 2 0 * m 2 0 + m 2 1 * m 2 1)) = false at hs
  change sqrt (m 2 0 * m 2 0 + m 2 1 * m 2 1) ≠ 0 at hz
  have hS := hsq (m 2 0) (m 2 1)
  generalize hsy : sqrt (m 2 0 * m 2 0 + m 2 1 * m 2 1) = sy at hs hz hS
  have ex : atan2SC sqrt (m 2 0) (m 2 1) = ⟨m 2 0 / sy, m 2 1 / sy⟩ :=
    atan2SC_eq sqrt _ _ sy ((congrArg sqrt (by linear_combination 0)).trans hsy) hz
  have ey : atan2SC sqrt sy (m 2 2) = ⟨sy / 1, m 2 2 / 1⟩ :=
    atan2SC_eq sqrt _ _ 1 ((congrArg sqrt (by linear_combination hS + (1) * h.r22)).trans h1) one_ne_zero
  have ez : atan2SC sqrt (m 0 2) (-m 1 2) = ⟨m 0 2 / sy, -m 1 2 / sy⟩ :=
    atan2SC_eq sqrt _ _ sy ((congrArg sqrt (by linear_combination (1) * h.r00 + (1) * h.r11 + (-1) * h.c00 + (-1) * h.c11)).trans hsy) hz
  have q00 : -m 1 2 * m 2 1 - m 0 2 * m 2 0 * m 2 2 = m 0 0 * (sy * sy) := by
    rw [hS]; linear_combination (-m 0 0) * h.r22 + (1) * h.f00 + (m 2 2) * h.f11
  have q01 : m 1 2 * m 2 0 - m 0 2 * m 2 1 * m 2 2 = m 0 1 * (sy * sy) := by
    rw [hS]; linear_combination (-m 0 1) * h.r22 + (1) * h.f01 + (-m 2 2) * h.f10
  have q10 : -m 1 2 * m 2 0 * m 2 2 + m 0 2 * m 2 1 = m 1 0 * (sy * sy) := by
    rw [hS]; linear_combination (-m 2 0) * h.r12 + (-m 2 1) * h.f02
  have q11 : -m 1 2 * m 2 1 * m 2 2 - m 0 2 * m 2 0 = m 1 1 * (sy * sy) := by
    rw [hS]; linear_combination (-m 2 1) * h.r12 + (m 2 0) * h.f02
  refine forall_lt3_2 ⟨?_, ?_, ?_, ?_, ?_, ?_, ?_, ?_, ?_⟩ <;>
    simp [toEuler, fromEuler, eulerIJK, nextAxis, Mat.set, SC.neg, hsy, hs, ex, ey, ez] <;> (try field_simp)
  all_goals first
    | linear_combination q00
    | linear_combination -q00
    | linear_combination q01
    | linear_combination -q01
    | linear_combination q10
    | linear_combination -q10
    | linear_combination q11
    | linear_combination -q11

theorem to_euler_row_rxyz (sqrt : K → K) (small : K → Bool) (m : Mat K) (h : SO3 m) (m0 : Mat K)
    (hsq : ∀ x y : K, sqrt (x * x + y * y) * sqrt (x * x + y * y) = x * x + y * y) (h1 : sqrt 1 = 1)
    (hs : small (eulerPivot sqrt ⟨2, 1, 0, 1⟩ m) = false) (hz : eulerPivot sqrt ⟨2, 1, 0, 1⟩ m ≠ 0) :
    Eq3 (fromEuler ⟨2, 1, 0, 1⟩ (toEuler sqrt small ⟨2, 1, 0, 1⟩ m).1 (toEuler sqrt small ⟨2, 1, 0, 1⟩ m).2.1
        (toEuler sqrt small ⟨2, 1, 0, 1⟩ m).2.2 m0) m := by
  change small (sqrt (m 2 2 * m 2 2 + m 1 2 * m 1 2)) = false at hs
  change sqrt (m 2 2 * m 2 2 + m 1 2 * m 1 2) ≠ 0 at hz
  have hS := hsq (m 2 2) (m 1 2)
  generalize hsy : sqrt (m 2 2 * m 2 2 + m 1 2 * m 1 2) = sy at hs hz hS
  have ex : atan2SC sqrt (m 0 1) (m 0 0) = ⟨m 0 1 / sy, m 0 0 / sy⟩ :=
    atan2SC_eq sqrt _ _ sy ((congrArg sqrt (by linear_combination (-1) * h.r11 + (-1) * h.r22 + (1) * h.c00 + (1) * h.c11)).trans hsy) hz
  have ey : atan2SC sqrt (-m 0 2) sy = ⟨-m 0 2 / 1, sy / 1⟩ :=
    atan2SC_eq sqrt _ _ 1 ((congrArg sqrt (by linear_combination hS + (1) * h.r00 + (1) * h.r11 + (1) * h.r22 + (-1) * h.c00 + (-1) * h.c11)).trans h1) one_ne_zero
  have ez : atan2SC sqrt (m 1 2) (m 2 2) = ⟨m 1 2 / sy, m 2 2 / sy⟩ :=
    atan2SC_eq sqrt _ _ sy ((congrArg sqrt (by linear_combination 0)).trans hsy) hz
  have q10 : -m 0 1 * m 2 2 - m 0 0 * m 0 2 * m 1 2 = m 1 0 * (sy * sy) := by
    rw [hS]; linear_combination (-m 0 0) * h.r01 + (-m 1 0) * h.r11 + (-m 2 0) * h.r12 + (m 1 0) * h.c00 + (m 1 1) * h.c01 + (m 2 2) * h.f01
  have q11 : -m 0 1 * m 0 2 * m 1 2 + m 0 0 * m 2 2 = m 1 1 * (sy * sy) := by
    rw [hS]; linear_combination (-m 0 1) * h.r01 + (-m 1 1) * h.r11 + (-m 2 1) * h.r12 + (m 1 0) * h.c01 + (m 1 1) * h.c11 + (-m 2 2) * h.f00
  have q20 : m 0 1 * m 1 2 - m 0 0 * m 0 2 * m 2 2 = m 2 0 * (sy * sy) := by
    rw [hS]; linear_combination (-m 0 0) * h.r02 + (-m 1 0) * h.r12 + (-m 2 0) * h.r22 + (m 2 0) * h.c00 + (m 2 1) * h.c01 + (-m 1 2) * h.f01
  have q21 : -m 0 1 * m 0 2 * m 2 2 - m 0 0 * m 1 2 = m 2 1 * (sy * sy) := by
    rw [hS]; linear_combination (-m 0 1) * h.r02 + (-m 1 1) * h.r12 + (-m 2 1) * h.r22 + (m 2 0) * h.c01 + (m 2 1) * h.c11 + (m 1 2) * h.f00
  refine forall_lt3_2 ⟨?_, ?_, ?_, ?_, ?_, ?_, ?_, ?_, ?_⟩ <;>
    simp [toEuler, fromEuler, eulerIJK, nextAxis, Mat.set, SC.neg, hsy, hs, ex, ey, ez] <;> (try field_simp)
  all_goals first
    | linear_combination q10
    | linear_combination -q10
    | linear_combination q11
    | linear_combination -q11
    | linear_combination q20
    | linear_combination -q20
    | linear_combination q21
    | linear_combination -q21

theorem to_euler_row_rzyz (sqrt : K → K) (small : K → Bool) (m : Mat K) (h : SO3 m) (m0 : Mat K)
    (hsq : ∀ x y : K, sqrt (x * x + y * y) * sqrt (x * x + y * y) = x * x + y * y) (h1 : sqrt 1 = 1)
    (hs : small (eulerPivot sqrt ⟨2, 1, 1, 1⟩ m) = false) (hz : eulerPivot sqrt ⟨2, 1, 1, 1⟩ m ≠ 0) :
    Eq3 (fromEuler ⟨2, 1, 1, 1⟩ (toEuler sqrt small ⟨2, 1, 1, 1⟩ m).1 (toEuler sqrt small ⟨2, 1, 1, 1⟩ m).2.1
        (toEuler sqrt small ⟨2, 1, 1, 1⟩ m).2.2 m0) m := by
  change small (sqrt (m 2 1 * m 2 1 + m 2 0 * m 2 0)) = false at hs
  change sqrt (m 2 1 * m 2 1 + m 2 0 * m 2 0) ≠ 0 at hz
  have hS := hsq (m 2 1) (m 2 0)
  generalize hsy : sqrt (m 2 1 * m 2 1 + m 2 0 * m 2 0) = sy at hs hz hS
  have ex : atan2SC sqrt (m 2 1) (m 2 0) = ⟨m 2 1 / sy, m 2 0 / sy⟩ :=
    atan2SC_eq sqrt _ _ sy ((congrArg sqrt (by linear_combination 0)).trans hsy) hz
  have ey : atan2SC sqrt sy (m 2 2) = ⟨sy / 1, m 2 2 / 1⟩ :=
    atan2SC_eq sqrt _ _ 1 ((congrArg sqrt (by linear_combination hS + (1) * h.r22)).trans h1) one_ne_zero
  have ez : atan2SC sqrt (m 1 2) (-m 0 2) = ⟨m 1 2 / sy, -m 0 2 / sy⟩ :=
    atan2SC_eq sqrt _ _ sy ((congrArg sqrt (by linear_combination (1) * h.r00 + (1) * h.r11 + (-1) * h.c00 + (-1) * h.c11)).trans hsy) hz
  have q00 : -m 1 2 * m 2 1 - m 0 2 * m 2 0 * m 2 2 = m 0 0 * (sy * sy) := by
    rw [hS]; linear_combination (-m 0 0) * h.r22 + (1) * h.f00 + (m 2 2) * h.f11
  have q01 : m 1 2 * m 2 0 - m 0 2 * m 2 1 * m 2 2 = m 0 1 * (sy * sy) := by
    rw [hS]; linear_combination (-m 0 1) * h.r22 + (1) * h.f01 + (-m 2 2) * h.f10
  have q10 : -m 1 2 * m 2 0 * m 2 2 + m 0 2 * m 2 1 = m 1 0 * (sy * sy) := by
    rw [hS]; linear_combination (-m 2 0) * h.r12 + (-m 2 1) * h.f02
  have q11 : -m 1 2 * m 2 1 * m 2 2 - m 0 2 * m 2 0 = m 1 1 * (sy * sy) := by
    rw [hS]; linear_combination (-m 2 1) * h.r12 + (m 2 0) * h.f02
  refine forall_lt3_2 ⟨?_, ?_, ?_, ?_, ?_, ?_, ?_, ?_, ?_⟩ <;>
    simp [toEuler, fromEuler, eulerIJK, nextAxis, Mat.set, SC.neg, hsy, hs, ex, ey, ez] <;> (try field_simp)
  all_goals first
    | linear_combination q00
    | linear_combination -q00
    | linear_combination q01
    | linear_combination -q01
    | linear_combination q10
    | linear_combination -q10
    | linear_combination q11
    | linear_combination -q11

end PMV.Algebra
