import PMV.Model.Reduce
/-
  `_check_axis` accepts exactly the legal axis arguments: None, an in-range integer, or a tuple
  of in-range integers that name pairwise distinct axes.  Core Lean only.
-/
namespace PMV.Reduce

/-- `-rank ≤ i < rank` -/
def InRange (rank : Nat) (i : Int) : Prop := -(rank : Int) ≤ i ∧ i < rank

instance (rank : Nat) (i : Int) : Decidable (InRange rank i) := by unfold InRange; infer_instance

/-- the axis an in-range integer names -/
def normAx (rank : Nat) (i : Int) : Nat := (i % (rank : Int)).toNat

/-- the axis arguments the property quantifies over -/
def LegalAxis (rank : Nat) : Axis → Prop
  | .none => True
  | .int a => InRange rank a
  | .tup l => (∀ a ∈ l, InRange rank a) ∧ (l.map (normAx rank)).Nodup

instance (rank : Nat) : (axis : Axis) → Decidable (LegalAxis rank axis)
  | .none => isTrue trivial
  | .int a => inferInstanceAs (Decidable (InRange rank a))
  | .tup l => inferInstanceAs (Decidable ((∀ a ∈ l, InRange rank a) ∧ (l.map (normAx rank)).Nodup))

theorem normAx_lt (rank : Nat) (i : Int) (h : InRange rank i) : normAx rank i < rank := by
  unfold normAx
  obtain ⟨h1, h2⟩ := h
  have hr : (0 : Int) < rank := by omega
  have := Int.emod_lt_of_pos i hr
  have := Int.emod_nonneg i (Int.ne_of_gt hr)
  omega

theorem pyIndex_eq (rank : Nat) (i : Int) :
    pyIndex rank i = if InRange rank i then some (normAx rank i) else none := by
  by_cases h1 : 0 ≤ i ∧ i < rank
  · have hr : InRange rank i := ⟨by omega, h1.2⟩
    rw [if_pos hr]
    unfold pyIndex normAx
    rw [if_pos h1, Int.emod_eq_of_lt h1.1 h1.2]
  · by_cases h2 : i < 0 ∧ -i ≤ rank
    · have hr : InRange rank i := ⟨by omega, by omega⟩
      rw [if_pos hr]
      unfold pyIndex normAx
      rw [if_neg h1, if_pos h2]
      have : (i + rank) % (rank : Int) = i % rank := Int.add_emod_right i rank
      rw [← this, Int.emod_eq_of_lt (by omega) (by omega)]
    · have hr : ¬ InRange rank i := by unfold InRange; omega
      rw [if_neg hr]
      unfold pyIndex
      rw [if_neg h1, if_neg h2]

theorem getD_set_true (sel : List Bool) (k j : Nat) (hk : k < sel.length) :
    (sel.set k true).getD j false = (decide (j = k) || sel.getD j false) := by
  simp only [List.getD_eq_getElem?_getD, List.getElem?_set]
  by_cases h : k = j
  · subst h; simp [hk]
  · have : ¬ (j = k) := fun e => h e.symm
    simp [h, this]

theorem checkLoop_iff (n : Nat) (l : List Int) (sel : List Bool) (hlen : sel.length = n) :
    checkLoop n l sel = true ↔
      (∀ a ∈ l, InRange n a) ∧ (l.map (normAx n)).Nodup ∧ ∀ a ∈ l, sel.getD (normAx n a) false = false := by
  induction l generalizing sel with
  | nil => simp [checkLoop]
  | cons i rest ih =>
    unfold checkLoop
    rw [pyIndex_eq]
    by_cases hi : InRange n i
    · rw [if_pos hi]
      simp only
      have hk : normAx n i < sel.length := by rw [hlen]; exact normAx_lt n i hi
      cases hs : sel.getD (normAx n i) false
      · simp only [Bool.false_eq_true, if_false]
        rw [ih (sel.set (normAx n i) true) (by simp [hlen])]
        simp only [getD_set_true sel _ _ hk, List.mem_cons, List.map_cons, List.nodup_cons, List.mem_map]
        constructor
        · rintro ⟨h1, h2, h3⟩
          refine ⟨?_, ⟨?_, h2⟩, ?_⟩
          · rintro a (rfl | ha)
            · exact hi
            · exact h1 a ha
          · rintro ⟨a, ha, e⟩
            have := h3 a ha
            simp [e] at this
          · rintro a (rfl | ha)
            · exact hs
            · have := h3 a ha
              simp at this
              exact this.2
        · rintro ⟨h1, ⟨h2, h2'⟩, h3⟩
          refine ⟨fun a ha => h1 a (Or.inr ha), h2', ?_⟩
          intro a ha
          have hne : ¬ (normAx n a = normAx n i) := fun e => h2 ⟨a, ha, e⟩
          have := h3 a (Or.inr ha)
          rw [List.getD_eq_getElem?_getD] at this
          simp [hne, this]
      · simp only [if_true]
        constructor
        · intro h; cases h
        · rintro ⟨_, _, h3⟩
          have := h3 i (by simp)
          rw [hs] at this; cases this
    · rw [if_neg hi]
      constructor
      · intro h; cases h
      · rintro ⟨h1, _⟩
        exact absurd (h1 i (by simp)) hi

/-- `_check_axis` passes exactly for the legal axis arguments -/
theorem checkAxis_iff (rank : Nat) (axis : Axis) : checkAxis rank axis = true ↔ LegalAxis rank axis := by
  cases axis with
  | none => simp [checkAxis, LegalAxis]
  | int a =>
    simp only [checkAxis, LegalAxis]
    rw [checkLoop_iff rank [a] _ (by simp)]
    have : ∀ k : Nat, (List.replicate rank false)[k]?.getD false = false := by
      intro k; simp [List.getElem?_replicate]; split <;> rfl
    simp [this]
  | tup l =>
    simp only [checkAxis, LegalAxis]
    rw [checkLoop_iff rank l _ (by simp)]
    have : ∀ k : Nat, (List.replicate rank false)[k]?.getD false = false := by
      intro k; simp [List.getElem?_replicate]; split <;> rfl
    simp [this]

theorem normAxes_tup (rank : Nat) (l : List Int) : normAxes rank (.tup l) = l.map (normAx rank) := rfl
theorem normAxes_int (rank : Nat) (a : Int) : normAxes rank (.int a) = [normAx rank a] := rfl

/-- the normalised axes of a legal argument are in range and pairwise distinct -/
theorem normAxes_legal (rank : Nat) (axis : Axis) (h : LegalAxis rank axis) :
    (normAxes rank axis).Nodup ∧ ∀ k ∈ normAxes rank axis, k < rank := by
  cases axis with
  | none => exact ⟨List.nodup_range, fun k hk => List.mem_range.1 hk⟩
  | int a => simp [normAxes_int]; exact normAx_lt rank a h
  | tup l =>
    rw [normAxes_tup]
    refine ⟨h.2, ?_⟩
    intro k hk
    obtain ⟨a, ha, rfl⟩ := List.mem_map.1 hk
    exact normAx_lt rank a (h.1 a ha)

/-! ### NumPy's `normalize_axis_tuple` -/

theorem pySet_sub (l : List Nat) (x : Nat) (h : x ∈ pySet l) : x ∈ l := by
  induction l with
  | nil => simp [pySet] at h
  | cons z zs ih =>
    unfold pySet at h
    split at h
    · exact List.mem_cons_of_mem _ (ih h)
    · rcases List.mem_cons.1 h with e | e
      · simp [e]
      · exact List.mem_cons_of_mem _ (ih e)

theorem mem_pySet (l : List Nat) (x : Nat) : x ∈ pySet l ↔ x ∈ l := by
  induction l with
  | nil => simp [pySet]
  | cons y ys ih =>
    unfold pySet
    by_cases h : (pySet ys).contains y = true
    · rw [if_pos h]
      have hy' : y ∈ pySet ys := by simpa using h
      have hy : y ∈ ys := pySet_sub ys y hy'
      rw [ih]
      constructor
      · intro hx; exact List.mem_cons_of_mem _ hx
      · intro hx
        rcases List.mem_cons.1 hx with rfl | hx
        · exact hy
        · exact hx
    · rw [if_neg h]
      simp only [List.mem_cons, ih]

theorem pySet_length_le (l : List Nat) : (pySet l).length ≤ l.length := by
  induction l with
  | nil => simp [pySet]
  | cons y ys ih =>
    unfold pySet
    split
    · simp; omega
    · simp; omega

/-- `len(set(axis)) == len(axis)` says exactly that no axis is repeated -/
theorem pySet_length_eq_iff (l : List Nat) : (pySet l).length = l.length ↔ l.Nodup := by
  induction l with
  | nil => simp [pySet]
  | cons y ys ih =>
    have hle := pySet_length_le ys
    unfold pySet
    rw [List.nodup_cons]
    by_cases h : (pySet ys).contains y = true
    · rw [if_pos h]
      have hy : y ∈ ys := ((mem_pySet ys y).1 (by simpa using h))
      constructor
      · intro e; simp at e; omega
      · intro e; exact absurd hy e.1
    · rw [if_neg h]
      have hy : ¬ y ∈ ys := fun hy => h (by simpa using (mem_pySet ys y).2 hy)
      simp only [List.length_cons, Nat.add_right_cancel_iff, ih]
      exact ⟨fun e => ⟨hy, e⟩, fun e => e.2⟩

theorem pyIndex_isSome (rank : Nat) (i : Int) : (pyIndex rank i).isSome = true ↔ InRange rank i := by
  rw [pyIndex_eq]
  by_cases h : InRange rank i
  · simp [h]
  · simp [h]

/-- NumPy's validation accepts exactly the legal axis arguments … -/
theorem npCheckAxis_ok_iff (rank : Nat) (axis : Axis) : npCheckAxis rank axis = .ok () ↔ LegalAxis rank axis := by
  cases axis with
  | none => simp [npCheckAxis, LegalAxis]
  | int a =>
    simp only [npCheckAxis, LegalAxis]
    rw [← pyIndex_isSome]
    cases (pyIndex rank a).isSome <;> simp
  | tup l =>
    simp only [npCheckAxis, LegalAxis]
    have hall : (l.all fun a => (pyIndex rank a).isSome) = true ↔ ∀ a ∈ l, InRange rank a := by
      rw [List.all_eq_true]
      exact ⟨fun h a ha => (pyIndex_isSome rank a).1 (h a ha), fun h a ha => (pyIndex_isSome rank a).2 (h a ha)⟩
    have hdup : ((pySet (l.map fun (a : Int) => (a % (rank : Int)).toNat)).length == l.length) = true
        ↔ (l.map (normAx rank)).Nodup := by
      rw [← pySet_length_eq_iff, List.length_map]
      show _ ↔ (pySet (l.map fun (a : Int) => (a % (rank : Int)).toNat)).length = l.length
      simp
    by_cases h1 : (l.all fun a => (pyIndex rank a).isSome) = true
    · rw [if_pos h1]
      by_cases h2 : ((pySet (l.map fun (a : Int) => (a % (rank : Int)).toNat)).length == l.length) = true
      · rw [if_pos h2]; exact ⟨fun _ => ⟨hall.1 h1, hdup.1 h2⟩, fun _ => rfl⟩
      · rw [if_neg h2]
        constructor
        · intro e; cases e
        · intro e; exact absurd (hdup.2 e.2) h2
    · rw [if_neg h1]
      constructor
      · intro e; cases e
      · intro e; exact absurd (hall.2 e.1) h1

/-- … raises AxisError (IndexError) exactly when an entry is out of range … -/
theorem npCheckAxis_index_iff (rank : Nat) (l : List Int) :
    npCheckAxis rank (.tup l) = .error .index ↔ ∃ a ∈ l, ¬ InRange rank a := by
  simp only [npCheckAxis]
  have hall : (l.all fun a => (pyIndex rank a).isSome) = true ↔ ∀ a ∈ l, InRange rank a := by
    rw [List.all_eq_true]
    exact ⟨fun h a ha => (pyIndex_isSome rank a).1 (h a ha), fun h a ha => (pyIndex_isSome rank a).2 (h a ha)⟩
  by_cases h1 : (l.all fun a => (pyIndex rank a).isSome) = true
  · rw [if_pos h1]
    constructor
    · intro e; split at e <;> cases e
    · rintro ⟨a, ha, hn⟩; exact absurd (hall.1 h1 a ha) hn
  · rw [if_neg h1]
    refine ⟨fun _ => ?_, fun _ => rfl⟩
    apply Classical.byContradiction
    intro hne
    apply h1
    rw [hall]
    intro a ha
    apply Classical.byContradiction
    intro hn
    exact hne ⟨a, ha, hn⟩

/-- … and ValueError exactly when all entries are in range and an axis is repeated -/
theorem npCheckAxis_value_iff (rank : Nat) (l : List Int) :
    npCheckAxis rank (.tup l) = .error .value ↔ (∀ a ∈ l, InRange rank a) ∧ ¬ (l.map (normAx rank)).Nodup := by
  have hok := npCheckAxis_ok_iff rank (.tup l)
  have hidx := npCheckAxis_index_iff rank l
  simp only [LegalAxis] at hok
  constructor
  · intro e
    have h1 : ∀ a ∈ l, InRange rank a := by
      intro a ha
      apply Classical.byContradiction
      intro hn
      have := hidx.2 ⟨a, ha, hn⟩
      rw [e] at this; cases this
    refine ⟨h1, fun hnd => ?_⟩
    have := hok.2 ⟨h1, hnd⟩
    rw [e] at this; cases this
  · rintro ⟨h1, h2⟩
    cases hc : npCheckAxis rank (.tup l) with
    | ok u => exact absurd (hok.1 (by rw [hc])).2 h2
    | error err =>
      cases err with
      | index =>
        obtain ⟨a, ha, hn⟩ := hidx.1 hc
        exact absurd (h1 a ha) hn
      | value => rfl
      | type =>
        exfalso
        simp only [npCheckAxis] at hc
        split at hc
        · split at hc <;> cases hc
        · cases hc

end PMV.Reduce
