import PMV.Model.Reduce
/-
  `_check_axis` accepts exactly the legal axis arguments: None, an in-range integer, or a tuple
  of in-range integers that name pairwise distinct axes.  Core Lean only.
-/
namespace PMV.Reduce

/-- `-rank ≤ i < rank` -/
def InRange (rank : Nat) (i : Int) : Prop := -(rank : Int) ≤ i ∧ i < rank

instance (rank : Nat) (i : Int) : Decidable (InRange rank i) := by unfold InRange; infer_instance

/-- the axis an in-range integer names -/
def normAx (rank : Nat) (i : Int) : Nat := (i % (rank : Int)).toNat

/-- the axis arguments the property quantifies over -/
def LegalAxis (rank : Nat) : Axis → Prop
  | .none => True
  | .int a => InRange rank a
  | .tup l => (∀ a ∈ l, InRange rank a) ∧ (l.map (normAx rank)).Nodup

instance (rank : Nat) : (axis : Axis) → Decidable (LegalAxis rank axis)
  | .none => isTrue trivial
  | .int a => inferInstanceAs (Decidable (InRange rank a))
  | .tup l => inferInstanceAs (Decidable ((∀ a ∈ l, InRange rank a) ∧ (l.map (normAx rank)).Nodup))

theorem normAx_lt (rank : Nat) (i : Int) (h : InRange rank i) : normAx rank i < rank := by
  unfold normAx
  obtain ⟨h1, h2⟩ := h
  have hr : (0 : Int) < rank := by omega
  have := Int.emod_lt_of_pos i hr
  have := Int.emod_nonneg i (Int.ne_of_gt hr)
  omega

theorem pyIndex_eq (rank : Nat) (i : Int) :
    pyIndex rank i = if InRange rank i then some (normAx rank i) else none := by
  by_cases h1 : 0 ≤ i ∧ i < rank
  · have hr : InRange rank i := ⟨by omega, h1.2⟩
    rw [if_pos hr]
    unfold pyIndex normAx
    rw [if_pos h1, Int.emod_eq_of_lt h1.1 h1.2]
  · by_cases h2 : i < 0 ∧ -i ≤ rank
    · have hr : InRange rank i := ⟨by omega, by omega⟩
      rw [if_pos hr]
      unfold pyIndex normAx
      rw [if_neg h1, if_pos h2]
      have : (i + rank) % (rank : Int) = i % rank := Int.add_emod_right i rank
      rw [← this, Int.emod_eq_of_lt (by omega) (by omega)]
    · have hr : ¬ InRange rank i := by unfold InRange; omega
      rw [if_neg hr]
      unfold pyIndex
      rw [if_neg h1, if_neg h2]

theorem getD_set_true (sel : List Bool) (k j : Nat) (hk : k < sel.length) :
    (sel.set k true).getD j false = (decide (j = k) || sel.getD j false) := by
  simp only [List.getD_eq_getElem?_getD, List.getElem?_set]
  by_cases h : k = j
  · subst h; simp [hk]
  · have : ¬ (j = k) := fun e => h e.symm
    simp [h, this]

theorem checkLoop_iff (n : Nat) (l : List Int) (sel : List Bool) (hlen : sel.length = n) :
    checkLoop n l sel = true ↔
      (∀ a ∈ l, InRange n a) ∧ (l.map (normAx n)).Nodup ∧ ∀ a ∈ l, sel.getD (normAx n a) false = false := by
  induction l generalizing sel with
  | nil => simp [checkLoop]
  | cons i rest ih =>
    unfold checkLoop
    rw [pyIndex_eq]
    by_cases hi : InRange n i
    · rw [if_pos hi]
      simp only
      have hk : normAx n i < sel.length := by rw [hlen]; exact normAx_lt n i hi
      cases hs : sel.getD (normAx n i) false
      · simp only [Bool.false_eq_true, if_false]
        rw [ih (sel.set (normAx n i) true) (by simp [hlen])]
        simp only [getD_set_true sel _ _ hk, List.mem_cons, List.map_cons, List.nodup_cons, List.mem_map]
        constructor
        · rintro ⟨h1, h2, h3⟩
          refine ⟨?_, ⟨?_, h2⟩, ?_⟩
          · rintro a (rfl | ha)
            · exact hi
            · exact h1 a ha
          · rintro ⟨a, ha, e⟩
            have := h3 a ha
            simp [e] at this
          · rintro a (rfl | ha)
            · exact hs
            · have := h3 a ha
              simp at this
              exact this.2
        · rintro ⟨h1, ⟨h2, h2'⟩, h3⟩
          refine ⟨fun a ha => h1 a (Or.inr ha), h2', ?_⟩
          intro a ha
          have hne : ¬ (normAx n a = normAx n i) := fun e => h2 ⟨a, ha, e⟩
          have := h3 a (Or.inr ha)
          rw [List.getD_eq_getElem?_getD] at this
          simp [hne, this]
      · simp only [if_true]
        constructor
        · intro h; cases h
        · rintro ⟨_, _, h3⟩
          have := h3 i (by simp)
          rw [hs] at this; cases this
    · rw [if_neg hi]
      constructor
      · intro h; cases h
      · rintro ⟨h1, _⟩
        exact absurd (h1 i (by simp)) hi

/-- `_check_axis` passes exactly for the legal axis arguments -/
theorem checkAxis_iff (rank : Nat) (axis : Axis) : checkAxis rank axis = true ↔ LegalAxis rank axis := by
  cases axis with
  | none => simp [checkAxis, LegalAxis]
  | int a =>
    simp only [checkAxis, LegalAxis]
    rw [checkLoop_iff rank [a] _ (by simp)]
    have : ∀ k : Nat, (List.replicate rank false)[k]?.getD false = false := by
      intro k; simp [List.getElem?_replicate]; split <;> rfl
    simp [this]
  | tup l =>
    simp only [checkAxis, LegalAxis]
    rw [checkLoop_iff rank l _ (by simp)]
    have : ∀ k : Nat, (List.replicate rank false)[k]?.getD false = false := by
      intro k; simp [List.getElem?_replicate]; split <;> rfl
    simp [this]

theorem normAxes_tup (rank : Nat) (l : List Int) : normAxes rank (.tup l) = l.map (normAx rank) := rfl
theorem normAxes_int (rank : Nat) (a : Int) : normAxes rank (.int a) = [normAx rank a] := rfl

/-- the normalised axes of a legal argument are in range and pairwise distinct -/
theorem normAxes_legal (rank : Nat) (axis : Axis) (h : LegalAxis rank axis) :
    (normAxes rank axis).Nodup ∧ ∀ k ∈ normAxes rank axis, k < rank := by
  cases axis with
  | none => exact ⟨List.nodup_range, fun k hk => List.mem_range.1 hk⟩
  | int a => simp [normAxes_int]; exact normAx_lt rank a h
  | tup l =>
    rw [normAxes_tup]
    refine ⟨h.2, ?_⟩
    intro k hk
    obtain ⟨a, ha, rfl⟩ := List.mem_map.1 hk
    exact normAx_lt rank a (h.1 a ha)

end PMV.Reduce
