import PMV.Model.Shaper
import PMV.Model.ItemOps
import PMV.Lemmas.Ravel
import PMV.Lemmas.AxisPerm
import PMV.Lemmas.AxisOps
/-
  C15 — reshaping and item-restructuring operations are pure relabelings.
  Theorems about the argument normalisation and about the individual NumPy calls each operation makes
  (values over `shape ++ item`, mask over `shape`), bijectivity, inverse pairs, mask counts.
  The object-level statements (whole object incl. every derivative) are in PMV/Props/C15.lean.
-/
namespace PMV.C15
open PMV PMV.NpShape PMV.Shaper PMV.ItemOps

/-! ## 1. argument normalisation: equals NumPy's reading of the arguments, rejects what NumPy
       rejects, and is idempotent (so the recursive calls on derivatives use the same map) -/

theorem normAxis_of_nonneg {n : Nat} {b : Int} (h0 : 0 ≤ b) (h1 : b < n) : NpShape.normAxis n b = .ok b.toNat := by
  unfold NpShape.normAxis
  rw [if_pos ⟨by omega, h1⟩, if_neg (by omega)]

theorem emod_of_range {n : Nat} {a : Int} (h0 : -(n : Int) ≤ a) (h1 : a < n) :
    a % (n : Int) = if a < 0 then a + n else a := by
  split
  · rw [← Int.add_emod_right, Int.emod_eq_of_lt (by omega) (by omega)]
  · exact Int.emod_eq_of_lt (by omega) h1

/-- `swap_axes` accepts exactly the axes NumPy accepts and reads them as NumPy does -/
theorem swapNorm_ok {n : Nat} {ax1 ax2 b1 b2 : Int} (h : swapNorm n ax1 ax2 = .ok (b1, b2)) :
    NpShape.normAxis n ax1 = .ok b1.toNat ∧ NpShape.normAxis n ax2 = .ok b2.toNat ∧
      0 ≤ b1 ∧ b1 < n ∧ 0 ≤ b2 ∧ b2 < n := by
  unfold swapNorm at h
  simp only at h
  by_cases c1 : ax1 < -(n : Int) ∨ ax1 ≥ n
  · rw [if_pos c1] at h; cases h
  rw [if_neg c1] at h
  by_cases c2 : ax2 < -(n : Int) ∨ ax2 ≥ n
  · rw [if_pos c2] at h; cases h
  rw [if_neg c2] at h
  injection h with h; injection h with e1 e2
  have g1 : -(n : Int) ≤ ax1 ∧ ax1 < n := by omega
  have g2 : -(n : Int) ≤ ax2 ∧ ax2 < n := by omega
  have r1 := emod_of_range g1.1 g1.2
  have r2 := emod_of_range g2.1 g2.2
  subst e1 e2
  unfold NpShape.normAxis
  rw [if_pos g1, if_pos g2, r1, r2]
  refine ⟨rfl, rfl, ?_⟩
  split <;> split <;> omega

/-- illegal axes are rejected with ValueError, and they are exactly those NumPy rejects -/
theorem swapNorm_error {n : Nat} {ax1 ax2 : Int} {e : Err} (h : swapNorm n ax1 ax2 = .error e) :
    e = .value ∧ (NpShape.normAxis n ax1 = .error .axis ∨ NpShape.normAxis n ax2 = .error .axis) := by
  unfold swapNorm at h
  simp only at h
  unfold NpShape.normAxis
  by_cases c1 : ax1 < -(n : Int) ∨ ax1 ≥ n
  · rw [if_pos c1] at h; injection h with h
    exact ⟨h.symm, Or.inl (by rw [if_neg (by omega)])⟩
  rw [if_neg c1] at h
  by_cases c2 : ax2 < -(n : Int) ∨ ax2 ≥ n
  · rw [if_pos c2] at h; injection h with h
    exact ⟨h.symm, Or.inr (by rw [if_neg (by omega)])⟩
  rw [if_neg c2] at h; cases h

/-- norm_idem (swap_axes): the normalised axes are a fixed point of the normalisation -/
theorem swapNorm_idem {n : Nat} {ax1 ax2 b1 b2 : Int} (h : swapNorm n ax1 ax2 = .ok (b1, b2)) :
    swapNorm n b1 b2 = .ok (b1, b2) := by
  obtain ⟨_, _, h1, h2, h3, h4⟩ := swapNorm_ok h
  unfold swapNorm
  simp only
  rw [if_neg (by omega), if_neg (by omega), Int.emod_eq_of_lt h1 h2, Int.emod_eq_of_lt h3 h4]

example : swapNorm 3 (-1) 0 = .ok (2, 0) ∧ swapNorm 3 2 0 = .ok (2, 0) := by decide

/-- `roll_axis` (repaired) reads `axis` and `start` as `numpy.rollaxis` does -/
theorem rollNorm_ok {n : Nat} {axis start a1 a2 : Int} (h : rollNorm n axis start = .ok (a1, a2)) :
    NpShape.normAxis n axis = .ok a1.toNat ∧ a2 = (if start < 0 then start + n else start) ∧
      0 ≤ a1 ∧ a1 < n ∧ 0 ≤ a2 ∧ a2 ≤ n := by
  unfold rollNorm at h
  simp only at h
  generalize hA : (if axis < 0 then axis + (n : Int) else axis) = A at h
  generalize hS : (if start < 0 then start + (n : Int) else start) = S at h
  by_cases c1 : A < 0 ∨ A ≥ n
  · rw [if_pos c1] at h; cases h
  rw [if_neg c1] at h
  by_cases c2 : S < 0 ∨ S ≥ (n : Int) + 1
  · rw [if_pos c2] at h; cases h
  rw [if_neg c2] at h
  injection h with h; injection h with e1 e2
  subst e1 e2
  unfold NpShape.normAxis
  refine ⟨?_, rfl, by omega, by omega, by omega, by omega⟩
  have : -(n : Int) ≤ axis ∧ axis < n := by split at hA <;> omega
  rw [if_pos this, hA]

theorem rollNorm_error {n : Nat} {axis start : Int} {e : Err} (h : rollNorm n axis start = .error e) :
    e = .value ∧ (NpShape.normAxis n axis = .error .axis ∨
      ¬ (0 ≤ (if start < 0 then start + (n : Int) else start) ∧ (if start < 0 then start + (n : Int) else start) < n + 1)) := by
  unfold rollNorm at h
  simp only at h
  generalize hA : (if axis < 0 then axis + (n : Int) else axis) = A at h
  generalize hS : (if start < 0 then start + (n : Int) else start) = S at h
  by_cases c1 : A < 0 ∨ A ≥ n
  · rw [if_pos c1] at h; injection h with h
    refine ⟨h.symm, Or.inl ?_⟩
    unfold NpShape.normAxis
    rw [if_neg]
    split at hA <;> omega
  rw [if_neg c1] at h
  by_cases c2 : S < 0 ∨ S ≥ (n : Int) + 1
  · rw [if_pos c2] at h; injection h with h
    exact ⟨h.symm, Or.inr (by omega)⟩
  rw [if_neg c2] at h; cases h

/-- norm_idem (roll_axis): `deriv.roll_axis(a1, a2, False, rank)` re-normalises to the same pair -/
theorem rollNorm_idem {n : Nat} {axis start a1 a2 : Int} (h : rollNorm n axis start = .ok (a1, a2)) :
    rollNorm n a1 a2 = .ok (a1, a2) := by
  obtain ⟨_, _, h1, h2, h3, h4⟩ := rollNorm_ok h
  unfold rollNorm
  simp only
  rw [if_neg (by omega), if_neg (by omega), if_neg (by omega), if_neg (by omega)]

example : rollNorm 2 (-1) (-2) = .ok (1, 0) ∧ rollNorm 2 1 0 = .ok (1, 0) ∧ rollNorm 2 1 1 = .ok (1, 1) := by decide

/-- the effective rank is a fixed point too: the derivative (already padded to `rk` axes) computes `rk` again -/
theorem effRank_idem {len rk : Nat} {rank : Option Nat} (h : effRank len rank = .ok rk) (hlen : len ≠ 0) :
    effRank rk (some rk) = .ok rk ∧ len ≤ rk := by
  unfold effRank at h
  generalize hr : rankOr len rank = r at h
  by_cases c : r < len
  · rw [if_pos c] at h; cases h
  rw [if_neg c, if_neg hlen] at h
  injection h with h
  subst h
  refine ⟨?_, by omega⟩
  unfold effRank
  cases r with
  | zero => omega
  | succ r => simp [rankOr]

/-- `move_axis` (repaired): every entry is read as NumPy's `normalize_axis_index` reads it -/
theorem moveNorm_ok {n : Nat} {src dst s' d' : List Int} (h : moveNorm n src dst = .ok (s', d')) :
    s' = src.map (· % (n : Int)) ∧ d' = dst.map (· % (n : Int)) ∧
      ∀ x ∈ src ++ dst, NpShape.normAxis n x = .ok (x % (n : Int)).toNat ∧ 0 ≤ x % (n : Int) ∧ x % (n : Int) < n := by
  unfold moveNorm at h
  simp only at h
  split at h; · cases h
  rename_i hany
  injection h with h; injection h with e1 e2
  refine ⟨e1.symm, e2.symm, fun x hx => ?_⟩
  have hx' : ¬ (x < -(n : Int) ∨ x ≥ n) := by
    intro hc
    apply hany
    rw [List.any_eq_true]
    exact ⟨x, hx, by simpa using hc⟩
  have r := emod_of_range (n := n) (a := x) (by omega) (by omega)
  unfold NpShape.normAxis
  rw [if_pos ⟨by omega, by omega⟩, r]
  refine ⟨rfl, ?_⟩
  split <;> omega

/-- norm_idem (move_axis) -/
theorem moveNorm_idem {n : Nat} {src dst s' d' : List Int} (h : moveNorm n src dst = .ok (s', d')) :
    moveNorm n s' d' = .ok (s', d') := by
  obtain ⟨e1, e2, hall⟩ := moveNorm_ok h
  have hfix : ∀ l : List Int, (∀ x ∈ l, 0 ≤ x % (n : Int) ∧ x % (n : Int) < n) →
      (l.map (· % (n : Int))).map (· % (n : Int)) = l.map (· % (n : Int)) := by
    intro l hl
    rw [List.map_map]
    apply List.map_congr_left
    intro x hx
    exact Int.emod_eq_of_lt (hl x hx).1 (hl x hx).2
  unfold moveNorm
  simp only
  rw [if_neg]
  · subst e1 e2
    rw [hfix src (fun x hx => (hall x (List.mem_append_left _ hx)).2),
      hfix dst (fun x hx => (hall x (List.mem_append_right _ hx)).2)]
  · rw [List.any_eq_true]
    rintro ⟨y, hy, hc⟩
    subst e1 e2
    rw [← List.map_append, List.mem_map] at hy
    obtain ⟨x, hx, rfl⟩ := hy
    have := (hall x hx).2
    simp at hc
    omega

example : moveNorm 3 [-1, 0] [0, -2] = .ok ([2, 0], [0, 1]) ∧ moveNorm 3 [2, 0] [0, 1] = .ok ([2, 0], [0, 1]) := by
  decide

/-! ## 2. every operation is ONE index map on the leading part; the item part of an index is untouched -/

/-- `y` is `x` with its axes permuted by `p` -/
def IsTranspose {α} (x y : Arr α) (p : List Nat) : Prop :=
  y.shape = permute p x.shape ∧ ∀ idx, y.get idx = x.get (unpermute p idx)

/-- transposing a values array over `shape ++ item` by an order that permutes leading axes only:
    the leading shape is permuted, the item shape stays, element `(i, k)` comes from `(π i, k)` -/
theorem transpose_lead {α} (vals : Arr α) (shape item : Shape) (p : List Nat)
    (hp : IsPerm shape.length p) (hv : vals.shape = shape ++ item) :
    (transpose vals (p ++ tailAxes shape.length item.length)).shape = permute p shape ++ item ∧
    ∀ i k : Index, i.length = shape.length → k.length = item.length →
      (transpose vals (p ++ tailAxes shape.length item.length)).get (i ++ k) = vals.get (unpermute p i ++ k) := by
  refine ⟨?_, fun i k hi hk => ?_⟩
  · show permute _ vals.shape = _
    rw [hv, permute_lead_shape shape item hp rfl]
  · show vals.get (unpermute _ (i ++ k)) = _
    rw [← hk, unpermute_lead_index i k hp hi]

theorem swapaxes_ok {α} (x : Arr α) {a1 a2 : Int} {a b : Nat}
    (h1 : NpShape.normAxis x.shape.length a1 = .ok a) (h2 : NpShape.normAxis x.shape.length a2 = .ok b) :
    NpShape.swapaxes x a1 a2 = .ok (transpose x (swapPerm x.shape.length a b)) := by
  unfold NpShape.swapaxes
  simp only [h1, h2]
  rfl

/-- op_is_reindex + pi_eq_numpy for `swap_axes`: with the axes as normalised by the code, the NumPy
    call on the mask (leading shape) and the NumPy call on the values (`shape ++ item`) realise ONE
    axis permutation `p`; that permutation is the one `numpy.swapaxes` derives from the ORIGINAL
    arguments on an array of the leading shape; the item index `k` is never touched. -/
theorem swap_axes_is_reindex {α} (vals : Arr α) (m : Arr Bool) (shape item : Shape)
    (ax1 ax2 b1 b2 : Int) (hv : vals.shape = shape ++ item) (hm : m.shape = shape)
    (hn : swapNorm shape.length ax1 ax2 = .ok (b1, b2)) :
    ∃ p, IsPerm shape.length p ∧
      NpShape.swapaxes m ax1 ax2 = .ok (transpose m p) ∧
      NpShape.swapaxes m b1 b2 = .ok (transpose m p) ∧
      ∃ v', NpShape.swapaxes vals b1 b2 = .ok v' ∧ v'.shape = permute p shape ++ item ∧
        ∀ i k : Index, i.length = shape.length → k.length = item.length →
          v'.get (i ++ k) = vals.get (unpermute p i ++ k) := by
  obtain ⟨n1, n2, h1, h2, h3, h4⟩ := swapNorm_ok hn
  have ha : b1.toNat < shape.length := by omega
  have hb : b2.toNat < shape.length := by omega
  refine ⟨swapPerm shape.length b1.toNat b2.toNat, swapPerm_isPerm ha hb, ?_, ?_, ?_⟩
  · have := swapaxes_ok m (a1 := ax1) (a2 := ax2) (hm ▸ n1) (hm ▸ n2)
    rwa [hm] at this
  · have := swapaxes_ok m (a1 := b1) (a2 := b2) (hm ▸ normAxis_of_nonneg h1 h2) (hm ▸ normAxis_of_nonneg h3 h4)
    rwa [hm] at this
  · have hlen : vals.shape.length = shape.length + item.length := by rw [hv, List.length_append]
    have e1 : NpShape.normAxis vals.shape.length b1 = .ok b1.toNat :=
      normAxis_of_nonneg h1 (by rw [hlen]; push_cast; omega)
    have e2 : NpShape.normAxis vals.shape.length b2 = .ok b2.toNat :=
      normAxis_of_nonneg h3 (by rw [hlen]; push_cast; omega)
    refine ⟨_, swapaxes_ok vals e1 e2, ?_⟩
    rw [hlen, swapPerm_lead item.length ha hb]
    exact transpose_lead vals shape item _ (swapPerm_isPerm ha hb) hv

example : swapNorm 2 (-1) 0 = .ok (1, 0) ∧ swapPerm 2 1 0 = [1, 0] := by decide

/-- illegal axis arguments of `swap_axes` are rejected, as by NumPy -/
theorem swap_axes_rejects {α} (m : Arr α) (ax1 ax2 : Int) (e : Err)
    (h : swapNorm m.shape.length ax1 ax2 = .error e) : NpShape.swapaxes m ax1 ax2 = .error .axis := by
  obtain ⟨_, h | h⟩ := swapNorm_error h
  · unfold NpShape.swapaxes; simp only [h]; rfl
  · unfold NpShape.swapaxes
    cases h1 : NpShape.normAxis m.shape.length ax1 with
    | error e1 =>
      have : e1 = .axis := by
        unfold NpShape.normAxis at h1; split at h1 <;> [cases h1; (injection h1 with h1; exact h1.symm)]
      subst this; simp only [h1]; rfl
    | ok a => simp only [h1, h]; rfl

theorem rollPerm_self {n a : Nat} (ha : a < n) : rollPerm n a a = List.range n := by
  rw [rollPerm_eq ha ha]
  apply List.map_id''
  intro k
  unfold rollFn
  split <;> (try split) <;> (try split) <;> omega

theorem isPerm_range (n : Nat) : IsPerm n (List.range n) :=
  ⟨by simp, List.nodup_range, fun _ hm => List.mem_range.1 hm⟩

theorem unpermute_range {n : Nat} (idx : Index) (h : idx.length = n) : unpermute (List.range n) idx = idx := by
  subst h
  have := unpermute_permute (isPerm_range idx.length) rfl
  rwa [permute_range] at this

/-- what `numpy.rollaxis` returns once its arguments are known to be legal -/
theorem rollaxis_ok {α} (x : Arr α) {axis start : Int} {a : Nat} {s : Int}
    (h1 : NpShape.normAxis x.shape.length axis = .ok a)
    (hs : (if start < 0 then start + (x.shape.length : Int) else start) = s) (h0 : 0 ≤ s)
    (hn : s < (x.shape.length : Int) + 1) :
    NpShape.rollaxis x axis start =
      .ok (if a = (if a < s.toNat then s.toNat - 1 else s.toNat) then x
           else transpose x (rollPerm x.shape.length a (if a < s.toNat then s.toNat - 1 else s.toNat))) := by
  unfold NpShape.rollaxis
  simp only [h1, hs, bind, Except.bind]
  rw [if_neg (by omega)]
  split <;> split <;> rfl

/-- op_is_reindex + pi_eq_numpy for `roll_axis` (repaired code): the NumPy calls the code makes on the
    mask (leading shape) and on the values (`shape ++ item`) with the normalised pair realise ONE axis
    permutation `p`, the one `numpy.rollaxis` derives from the ORIGINAL arguments on an array of the
    leading shape; the item index is never touched. -/
theorem roll_axis_is_reindex {α} (vals : Arr α) (m : Arr Bool) (shape item : Shape)
    (axis start a1 a2 : Int) (hv : vals.shape = shape ++ item) (hm : m.shape = shape)
    (hn : rollNorm shape.length axis start = .ok (a1, a2)) :
    ∃ p, IsPerm shape.length p ∧ ∃ m' v',
      NpShape.rollaxis m axis start = .ok m' ∧
      NpShape.rollaxis m a1 a2 = .ok m' ∧
      NpShape.rollaxis vals a1 a2 = .ok v' ∧
      m'.shape = permute p shape ∧ v'.shape = permute p shape ++ item ∧
      (∀ i : Index, i.length = shape.length → m'.get i = m.get (unpermute p i)) ∧
      (∀ i k : Index, i.length = shape.length → k.length = item.length →
        v'.get (i ++ k) = vals.get (unpermute p i ++ k)) := by
  obtain ⟨n1, e2, h1, h2, h3, h4⟩ := rollNorm_ok hn
  have hL : vals.shape.length = shape.length + item.length := by rw [hv, List.length_append]
  have ha : a1.toNat < shape.length := by omega
  generalize hs' : (if a1.toNat < a2.toNat then a2.toNat - 1 else a2.toNat) = s'
  have hs'lt : s' < shape.length := by subst hs'; split <;> omega
  -- the three NumPy calls
  have r1 := rollaxis_ok m (axis := axis) (start := start) (a := a1.toNat) (s := a2)
    (hm ▸ n1) (by rw [hm]; exact e2.symm) h3 (by rw [hm]; omega)
  have r2 := rollaxis_ok m (axis := a1) (start := a2) (a := a1.toNat) (s := a2)
    (hm ▸ normAxis_of_nonneg h1 h2) (by rw [if_neg (by omega)]) h3 (by rw [hm]; omega)
  have r3 := rollaxis_ok vals (axis := a1) (start := a2) (a := a1.toNat) (s := a2)
    (normAxis_of_nonneg h1 (by rw [hL]; push_cast; omega)) (by rw [if_neg (by omega)]) h3
    (by rw [hL]; push_cast; omega)
  rw [hs'] at r1 r2 r3
  by_cases hc : a1.toNat = s'
  · rw [if_pos hc] at r1 r2 r3
    refine ⟨List.range shape.length, isPerm_range _, m, vals, r1, r2, r3, ?_, ?_, ?_, ?_⟩
    · rw [hm, permute_range]
    · rw [hv, permute_range]
    · intro i hi; rw [unpermute_range i hi]
    · intro i k hi _; rw [unpermute_range i hi]
  · rw [if_neg hc] at r1 r2 r3
    rw [hm] at r1 r2
    rw [hL, rollPerm_lead item.length ha hs'lt] at r3
    have hp := rollPerm_isPerm ha hs'lt
    obtain ⟨t1, t2⟩ := transpose_lead vals shape item _ hp hv
    refine ⟨rollPerm shape.length a1.toNat s', hp, _, _, r1, r2, r3, ?_, t1, ?_, t2⟩
    · show permute _ m.shape = _; rw [hm]
    · intro i _; rfl

example : rollNorm 3 (-1) 0 = .ok (2, 0) ∧ rollPerm 3 2 0 = [2, 0, 1] := by decide

/-- op_is_reindex for `reshape`: the NumPy reshape of the values (`new ++ item`) and of the mask
    (`new`) move element `(i, k)` from `(π i, k)` with ONE map `π = unravel old ∘ ravel new`;
    the item index is untouched. -/
theorem reshape_is_reindex {α} (vals : Arr α) (m : Arr Bool) (old item new : Shape)
    (hv : vals.shape = old ++ item) (hm : m.shape = old) (hsz : size new = size old) :
    ∀ i k : Index, Valid new i → Valid item k →
      (reshapeTo vals (new ++ item)).get (i ++ k) = vals.get (unravel old (ravel new i) ++ k) ∧
      (reshapeTo m new).get i = m.get (unravel old (ravel new i)) := by
  intro i k hi hk
  constructor
  · show vals.get (unravel vals.shape (ravel (new ++ item) (i ++ k))) = _
    rw [hv, reshape_lead_item old new item i k hsz hi hk]
  · show m.get (unravel m.shape (ravel new i)) = _
    rw [hm]

theorem reshape_eq {α} (a : Arr α) (new : List Int) (s : Shape) (h : resolve (size a.shape) new = .ok s) :
    NpShape.reshape a new = .ok (reshapeTo a s) := by
  unfold NpShape.reshape; simp only [h]; rfl

theorem prodInt_nonneg : ∀ l : List Int, (∀ x ∈ l, 0 ≤ x) → 0 ≤ prodInt l
  | [], _ => by simp [prodInt]
  | x :: xs, h => by
    have h1 := h x (by simp)
    have h2 := prodInt_nonneg xs (fun y hy => h y (by simp [hy]))
    show 0 ≤ x * prodInt xs
    exact Int.mul_nonneg h1 h2

theorem size_subst (u : Nat) : ∀ new : List Int,
    size (new.map fun d => if d < 0 then u else d.toNat)
      = (prodInt (new.filter (fun d => decide (¬ d < 0)))).toNat * u ^ (new.filter (fun d => decide (d < 0))).length
  | [] => by simp [size_nil, prodInt]
  | d :: ds => by
    have ih := size_subst u ds
    by_cases hd : d < 0
    · simp only [List.map_cons, size_cons, hd, if_true, List.filter_cons, decide_true, decide_false, not_true_eq_false,
        List.length_cons, ih, Nat.pow_succ]
      simp [Nat.mul_comm, Nat.mul_left_comm]
    · have hnn : ∀ x ∈ ds.filter (fun d => decide (¬ d < 0)), 0 ≤ x := by
        intro x hx
        have := (List.mem_filter.1 hx).2
        simp at this; exact this
      have hp := prodInt_nonneg _ hnn
      simp only [List.map_cons, size_cons, hd, if_false, List.filter_cons, decide_true, decide_false, not_false_eq_true,
        ih]
      show d.toNat * _ = (d * prodInt _).toNat * _
      rw [Int.toNat_mul (by omega) hp, Nat.mul_assoc]
      simp

/-- a successful resolution of the target shape (with or without an unknown dimension) has exactly the
    size of the array: reshape never drops or invents elements -/
theorem resolve_size {total : Nat} {new : List Int} {s : Shape} (h : resolve total new = .ok s) : size s = total := by
  unfold resolve at h
  simp only at h
  split at h
  · rename_i h0
    split at h
    · rename_i hk
      injection h with h
      subst h
      have e := size_subst 0 new
      have hmap : (new.map fun d => if d < 0 then 0 else d.toNat) = new.map Int.toNat := by
        apply List.map_congr_left
        intro d _
        split
        · rename_i hd; simp [Int.toNat_of_nonpos (Int.le_of_lt hd)]
        · rfl
      rw [hmap] at e
      rw [e, h0, Nat.pow_zero, Nat.mul_one]
      exact hk
    · cases h
  · rename_i h1
    split at h
    · cases h
    · rename_i hk
      injection h with h
      subst h
      rw [size_subst, h1, Nat.pow_one]
      have : total % (prodInt (List.filter (fun x => decide ¬x < 0) new)).toNat = 0 := by omega
      exact Nat.mul_div_cancel' (Nat.dvd_of_mod_eq_zero this)
  · cases h

example : resolve 6 [2, -1] = .ok [2, 3] ∧ resolve 6 [-3, 2] = .ok [3, 2] ∧ resolve 6 [] = .error .value := by decide

/- FULL (not proved; the pieces above are, their composition inside the object-level functions is
   checked by the correspondence run only):
     ∀ q ax1 ax2 r, WF q → swapAxes q ax1 ax2 true = .ok r →
       ∃ p, IsPerm q.base.shape.length p ∧ LeadReindex (unpermute p) q.base r.base ∧
            List.Forall₂ (fun kd kd' => kd.1 = kd'.1 ∧ LeadReindex (unpermute p) kd.2 kd'.2) q.derivs r.derivs
   (and likewise for rollAxis / moveAxis / reshape / broadcastTo), where LeadReindex π q q' says: same class,
   numer, denom; q'.vals (i ++ k) = q.vals (π i ++ k); q'.mask.at i = q.mask.at (π i).
   `swap_axes_is_reindex`, `roll_axis_is_reindex`, `reshape_is_reindex` are this statement for the two NumPy
   calls each function makes; `swapNorm_idem`, `rollNorm_idem`, `moveNorm_idem`, `effRank_idem` are what makes
   the derivative recursion use the same `p`; `construct_ok`, `suitableMask_at` cover the constructor.
 -/

theorem filter_neg_ofNats (item : Shape) : (ofNats item).filter (fun d => decide (d < 0)) = [] := by
  induction item with
  | nil => rfl
  | cons x xs ih =>
    show List.filter _ (Int.ofNat x :: ofNats xs) = []
    rw [List.filter_cons]
    have : ¬ (Int.ofNat x < 0) := by simp
    simp only [this, decide_false]
    exact ih

theorem filter_nonneg_ofNats (item : Shape) : (ofNats item).filter (fun d => decide (¬ d < 0)) = ofNats item := by
  apply List.filter_eq_self.2
  intro d hd
  unfold ofNats at hd
  obtain ⟨x, _, rfl⟩ := List.mem_map.1 hd
  simp

theorem prodInt_append (a b : List Int) : prodInt (a ++ b) = prodInt a * prodInt b := by
  induction a with
  | nil => simp [prodInt]
  | cons x xs ih =>
    show x * prodInt (xs ++ b) = x * prodInt xs * prodInt b
    rw [ih, Int.mul_assoc]

theorem prodInt_ofNats (item : Shape) : prodInt (ofNats item) = (size item : Int) := by
  induction item with
  | nil => rfl
  | cons x xs ih =>
    show Int.ofNat x * prodInt (ofNats xs) = ((x * size xs : Nat) : Int)
    rw [ih]; simp

theorem map_toNat_ofNats (item : Shape) : (ofNats item).map Int.toNat = item := by
  unfold ofNats; rw [List.map_map]; apply List.map_id''; intro x; simp

/-- item-size independence of the unknown-dimension arithmetic: reshaping the values (`shape ++ item`,
    total `T * size item`) resolves to the SAME leading shape as reshaping the mask (`shape`, total `T`),
    whatever the item shape — so values, mask and derivatives with different denominators all get one `π` -/
theorem resolve_append_item (T : Nat) (shape : List Int) (item : Shape) (hI : 0 < size item) :
    resolve (T * size item) (shape ++ ofNats item) = (resolve T shape).map (· ++ item) := by
  unfold resolve
  simp only [List.filter_append, filter_neg_ofNats, filter_nonneg_ofNats, List.append_nil, prodInt_append,
    prodInt_ofNats]
  have hnn : 0 ≤ prodInt (shape.filter fun d => decide (¬ d < 0)) := by
    apply prodInt_nonneg
    intro x hx
    have := (List.mem_filter.1 hx).2
    simpa using this
  have hk : (prodInt (shape.filter fun d => decide (¬ d < 0)) * (size item : Int)).toNat
      = (prodInt (shape.filter fun d => decide (¬ d < 0))).toNat * size item := by
    rw [Int.toNat_mul hnn (by omega)]; simp
  rw [hk]
  generalize (prodInt (shape.filter fun d => decide (¬ d < 0))).toNat = kp
  have hmapT : (shape ++ ofNats item).map Int.toNat = shape.map Int.toNat ++ item := by
    rw [List.map_append, map_toNat_ofNats]
  cases hc : (shape.filter fun d => decide (d < 0)).length with
  | zero =>
    simp only
    by_cases h : kp = T
    · rw [if_pos (by rw [h]), if_pos h, hmapT]; rfl
    · rw [if_neg (fun e => h (Nat.eq_of_mul_eq_mul_right hI e)), if_neg h]; rfl
  | succ n =>
    cases n with
    | zero =>
      simp only
      have hq : T * size item / (kp * size item) = T / kp := Nat.mul_div_mul_right _ _ hI
      have hm : T * size item % (kp * size item) = (T % kp) * size item := Nat.mul_mod_mul_right _ _ _
      by_cases h : kp = 0 ∨ T % kp ≠ 0
      · rw [if_pos h, if_pos]
        · rfl
        · rcases h with h | h
          · exact Or.inl (by rw [h]; simp)
          · right; rw [hm]; exact fun e => h ((Nat.mul_eq_zero.1 e).resolve_right (by omega))
      · rw [if_neg h, if_neg]
        · simp only [Except.map, hq, List.map_append]
          congr 2
          unfold ofNats
          rw [List.map_map]
          apply List.map_id''
          intro x
          have : ¬ ((x : Int) < 0) := by omega
          simp [this]
        · intro hc2
          apply h
          rcases hc2 with h2 | h2
          · exact Or.inl ((Nat.mul_eq_zero.1 h2).resolve_right (by omega))
          · right; rw [hm] at h2; exact fun e => h2 (by rw [e]; simp)
    | succ n => rfl

example : resolve (6 * 3) ([-1, 2] ++ ofNats [3]) = .ok [3, 2, 3] ∧ resolve 6 [-1, 2] = .ok [3, 2] := by decide

theorem resolve_ofNats (s : Shape) : resolve (size s) (ofNats s) = .ok s := by
  unfold resolve
  simp only [filter_neg_ofNats, filter_nonneg_ofNats, prodInt_ofNats, List.length_nil, Int.toNat_natCast,
    if_true, map_toNat_ofNats]

/-! ## 3. bijectivity: nothing lost, nothing duplicated -/

/-- the reshape map is a bijection between the valid index sets of two shapes of equal size -/
theorem reshape_bijective (old new : Shape) (hsz : size new = size old) :
    (∀ i, Valid new i → Valid old (unravel old (ravel new i))) ∧
    (∀ i, Valid new i → unravel new (ravel old (unravel old (ravel new i))) = i) ∧
    (∀ j, Valid old j → Valid new (unravel new (ravel old j)) ∧
      unravel old (ravel new (unravel new (ravel old j))) = j) := by
  refine ⟨fun i hi => unravel_valid old _ (hsz ▸ ravel_lt hi), fun i hi => ?_, fun j hj => ?_⟩
  · rw [ravel_unravel old _ (hsz ▸ ravel_lt hi), unravel_ravel hi]
  · have hlt : ravel old j < size new := hsz ▸ ravel_lt hj
    exact ⟨unravel_valid new _ hlt, by rw [ravel_unravel new _ hlt, unravel_ravel hj]⟩

/-- an axis permutation is a bijection between the valid index sets, for every rank -/
theorem transpose_bijective {n : Nat} (p : List Nat) (s : Shape) (hp : IsPerm n p) (hs : s.length = n) :
    (∀ idx, Valid (permute p s) idx → Valid s (unpermute p idx) ∧ permute p (unpermute p idx) = idx) ∧
    (∀ j, Valid s j → Valid (permute p s) (permute p j) ∧ unpermute p (permute p j) = j) := by
  constructor
  · intro idx hi
    refine ⟨valid_unpermute hp hs hi, permute_unpermute hp ?_⟩
    rw [valid_length hi, length_permute, hp.1]
  · intro j hj
    exact ⟨valid_permute hp hs hj, unpermute_permute hp (by rw [valid_length hj, hs])⟩

/-! ## 4. inverse pairs compose to the identity -/

/-- swapping the same two axes twice gives back every element and the shape -/
theorem swap_swap {α} (x : Arr α) {n a b : Nat} (hx : x.shape.length = n) (ha : a < n) (hb : b < n) :
    let p := swapPerm n a b
    (transpose (transpose x p) p).shape = x.shape ∧
    ∀ idx : Index, idx.length = n → (transpose (transpose x p) p).get idx = x.get idx := by
  have hp := swapPerm_isPerm ha hb
  refine ⟨?_, fun idx hi => ?_⟩
  · show permute _ (permute _ x.shape) = x.shape
    rw [permute_permute _ _ _ (fun m hm => by rw [hp.1]; exact hp.2.2 m hm), swapPerm_invol ha hb, ← hx, permute_range]
  · show x.get (unpermute _ (unpermute _ idx)) = _
    rw [unpermute_unpermute_of_inverse hp hp (swapPerm_invol ha hb) hi]

/-- rolling axis `a` to position `s` and rolling it back restores every element and the shape -/
theorem roll_roll_back {α} (x : Arr α) {n a s : Nat} (hx : x.shape.length = n) (ha : a < n) (hs : s < n) :
    (transpose (transpose x (rollPerm n a s)) (rollPerm n s a)).shape = x.shape ∧
    ∀ idx : Index, idx.length = n →
      (transpose (transpose x (rollPerm n a s)) (rollPerm n s a)).get idx = x.get idx := by
  have hp := rollPerm_isPerm ha hs
  have hp' := rollPerm_isPerm hs ha
  refine ⟨?_, fun idx hi => ?_⟩
  · show permute _ (permute _ x.shape) = x.shape
    rw [permute_permute _ _ _ (fun m hm => by rw [hp.1]; exact hp'.2.2 m hm), rollPerm_inverse ha hs, ← hx, permute_range]
  · show x.get (unpermute _ (unpermute _ idx)) = _
    rw [unpermute_unpermute_of_inverse hp hp' (rollPerm_inverse ha hs) hi]

/-- moving one axis and moving it back: `moveaxis(s, d)` then `moveaxis(d, s)` -/
theorem move_move_back {α} (x : Arr α) {n s d : Nat} (hx : x.shape.length = n) (hs : s < n) (hd : d < n) :
    (transpose (transpose x (movePerm n [s] [d])) (movePerm n [d] [s])).shape = x.shape ∧
    ∀ idx : Index, idx.length = n →
      (transpose (transpose x (movePerm n [s] [d])) (movePerm n [d] [s])).get idx = x.get idx := by
  rw [movePerm_single n s d hs, movePerm_single n d s hd]
  exact roll_roll_back x hx hs hd

/-- reshape to a shape of the same size and back restores every element -/
theorem reshape_reshape {α} (x : Arr α) (new : Shape) (hsz : size new = size x.shape) :
    (reshapeTo (reshapeTo x new) x.shape).shape = x.shape ∧
    ∀ j : Index, Valid x.shape j → (reshapeTo (reshapeTo x new) x.shape).get j = x.get j := by
  refine ⟨rfl, fun j hj => ?_⟩
  show x.get (unravel x.shape (ravel new (unravel new (ravel x.shape j)))) = _
  rw [ravel_unravel new _ (hsz ▸ ravel_lt hj), unravel_ravel hj]

/-- `flatten` then `reshape` to the old shape restores every element -/
theorem flatten_reshape {α} (x : Arr α) :
    ∀ j : Index, Valid x.shape j → (reshapeTo (reshapeTo x [size x.shape]) x.shape).get j = x.get j :=
  (reshape_reshape x [size x.shape] (by simp [size_cons, size_nil])).2

/-! ## 5. the number of masked elements never changes -/

/-- reshape lists the same mask bits in the same order: the count of masked elements is preserved -/
theorem reshape_mask_count (m : Arr Bool) (new : Shape) (hsz : size new = size m.shape) :
    (reshapeTo m new).toList.countP id = m.toList.countP id := by
  rw [toList_reshapeTo m new hsz]

/-- an axis permutation lists a rearrangement of the same mask bits: the count is preserved -/
theorem transpose_mask_count {n : Nat} (m : Arr Bool) (p : List Nat) (hp : IsPerm n p) (hm : m.shape.length = n) :
    (transpose m p).toList.countP id = m.toList.countP id := by
  unfold Arr.toList transpose
  simp only
  have hperm : ((indices (permute p m.shape)).map (unpermute p)).Perm (indices m.shape) := by
    rw [List.perm_ext_iff_of_nodup]
    · intro j
      constructor
      · intro hj
        obtain ⟨idx, hidx, rfl⟩ := List.mem_map.1 hj
        exact valid_mem_indices (valid_unpermute hp hm (mem_indices_valid hidx))
      · intro hj
        have hv := mem_indices_valid hj
        refine List.mem_map.2 ⟨permute p j, valid_mem_indices (valid_permute hp hm hv), ?_⟩
        exact unpermute_permute hp (by rw [valid_length hv, hm])
    · apply List.Nodup.map_on _ (indices_nodup _)
      intro x hx y hy hxy
      have lx : x.length = n := by rw [valid_length (mem_indices_valid hx), length_permute, hp.1]
      have ly : y.length = n := by rw [valid_length (mem_indices_valid hy), length_permute, hp.1]
      rw [← permute_unpermute hp lx, ← permute_unpermute hp ly, hxy]
    · exact indices_nodup _
  have e : (indices (permute p m.shape)).map (fun idx => m.get (unpermute p idx))
      = ((indices (permute p m.shape)).map (unpermute p)).map m.get := by rw [List.map_map]; rfl
  rw [e]
  exact (hperm.map m.get).countP_eq _

/-! ## 5b. item-axis transposes act on the item part of the index only -/

/-- an order that keeps the `L` leading axes in place and permutes the item axes by `q` -/
def itemOrder (L : Nat) (q : List Nat) : List Nat := List.range L ++ q.map (L + ·)

theorem permute_item_shape {m : Nat} {q : List Nat} (s t : List Nat) (_hq : IsPerm m q) (_ht : t.length = m) :
    permute (itemOrder s.length q) (s ++ t) = s ++ permute q t := by
  unfold permute itemOrder
  rw [List.map_append]
  congr 1
  · apply List.ext_getElem (by simp)
    intro k h1 h2
    simp only [List.getElem_map, List.getElem_range]
    rw [getD_append_left _ _ _ h2, getD_of_lt _ _ h2]
  · rw [List.map_map]
    apply List.map_congr_left
    intro y _
    simp only [Function.comp]
    exact getD_append_right s t y

theorem unpermute_item_index {m : Nat} {q : List Nat} (i k : List Nat) (hq : IsPerm m q) (_hk : k.length = m) :
    unpermute (itemOrder i.length q) (i ++ k) = i ++ unpermute q k := by
  have hl := hq.1
  unfold unpermute
  have hlen : (itemOrder i.length q).length = i.length + q.length := by simp [itemOrder]
  rw [hlen, List.range_add, List.map_append]
  congr 1
  · apply List.ext_getElem (by simp)
    intro x h1 h2
    simp only [List.getElem_map, List.getElem_range]
    have hmem : x ∈ List.range i.length := List.mem_range.2 h2
    have hidx : (List.range i.length).idxOf x = x := by
      have : (List.range i.length)[x]'(by simpa using h2) = x := by simp
      conv => lhs; rw [← this]
      exact List.nodup_range.idxOf_getElem _ _
    unfold itemOrder
    rw [List.idxOf_append_of_mem hmem, hidx, getD_append_left _ _ _ h2, getD_of_lt _ _ h2]
  · rw [List.map_map]
    apply List.map_congr_left
    intro y hy
    have hy' : y < m := hl ▸ List.mem_range.1 hy
    simp only [Function.comp]
    have hnot : i.length + y ∉ List.range i.length := by simp
    have hmemq : y ∈ q := hq.mem hy'
    have hj : q.idxOf y < q.length := List.idxOf_lt_length_of_mem hmemq
    have hnd : (q.map (i.length + ·)).Nodup := hq.2.1.map (fun a b h => by omega)
    have hidx : (q.map (i.length + ·)).idxOf (i.length + y) = q.idxOf y := by
      have hlt : q.idxOf y < (q.map (i.length + ·)).length := by simpa using hj
      have hget : (q.map (i.length + ·))[q.idxOf y] = i.length + y := by
        simp [List.getElem_idxOf hj]
      conv => lhs; rw [← hget]
      exact hnd.idxOf_getElem _ _
    unfold itemOrder
    rw [List.idxOf_append_of_notMem hnot, hidx, List.length_range, getD_append_right]

theorem swapPerm_item (L m a b : Nat) (_ha : a < m) (_hb : b < m) :
    swapPerm (L + m) (L + a) (L + b) = itemOrder L (swapPerm m a b) := by
  unfold itemOrder
  rw [swapPerm_eq, swapPerm_eq, List.range_add, List.map_append, List.map_map, List.map_map]
  congr 1
  · conv => rhs; rw [← List.map_id (List.range L)]
    apply List.map_congr_left
    intro k hk
    have := List.mem_range.1 hk
    simp only [id, swapFn]
    split <;> (try split) <;> omega
  · apply List.map_congr_left
    intro k _
    simp only [Function.comp, swapFn]
    split <;> (try split) <;> (try split) <;> (try split) <;> omega

/-- op_is_reindex for `transpose_numer` / `transpose_denom` (item part): the NumPy call the code makes,
    `np.swapaxes(values, len(shape)+a1, len(shape)+a2)`, permutes the ITEM index only — the leading index `i`
    is untouched, so the mask (handed over as is) still belongs to the same elements. -/
theorem transpose_items_is_reindex {α} (vals : Arr α) (shape item : Shape) (a1 a2 : Nat)
    (hv : vals.shape = shape ++ item) (h1 : a1 < item.length) (h2 : a2 < item.length) :
    ∃ q, IsPerm item.length q ∧ ∃ v',
      NpShape.swapaxes vals ((shape.length + a1 : Nat) : Int) ((shape.length + a2 : Nat) : Int) = .ok v' ∧
      v'.shape = shape ++ permute q item ∧
      ∀ i k : Index, i.length = shape.length → k.length = item.length →
        v'.get (i ++ k) = vals.get (i ++ unpermute q k) := by
  have hq := swapPerm_isPerm h1 h2
  have hL : vals.shape.length = shape.length + item.length := by rw [hv, List.length_append]
  have e1 : NpShape.normAxis vals.shape.length ((shape.length + a1 : Nat) : Int) = .ok (shape.length + a1) := by
    have := normAxis_of_nonneg (n := vals.shape.length) (b := ((shape.length + a1 : Nat) : Int)) (by omega) (by rw [hL]; omega)
    rwa [Int.toNat_natCast] at this
  have e2 : NpShape.normAxis vals.shape.length ((shape.length + a2 : Nat) : Int) = .ok (shape.length + a2) := by
    have := normAxis_of_nonneg (n := vals.shape.length) (b := ((shape.length + a2 : Nat) : Int)) (by omega) (by rw [hL]; omega)
    rwa [Int.toNat_natCast] at this
  refine ⟨swapPerm item.length a1 a2, hq, _, swapaxes_ok vals e1 e2, ?_, ?_⟩
  · show permute _ vals.shape = _
    rw [hL, swapPerm_item _ _ _ _ h1 h2, hv, permute_item_shape shape item hq rfl]
  · intro i k hi hk
    show vals.get (unpermute _ (i ++ k)) = _
    rw [hL, swapPerm_item _ _ _ _ h1 h2, ← hi, unpermute_item_index i k hq hk]

/-! ## 6. item restructuring: join_items / split_items / casts re-label the item axes and touch nothing else -/

/-- what the constructor keeps: the values array as given; the full shape is only re-split -/
theorem construct_ok {α} {cls : Cls} {vals : Arr α} {mask : Mask} {nr dr : Nat} {q : Q0 α}
    (h : construct cls vals mask nr dr = .ok q) :
    q.cls = cls ∧ q.vals = vals ∧ q.shape ++ q.numer ++ q.denom = vals.shape ∧
      q.numer.length = nr ∧ q.denom.length = dr ∧ suitableMask mask q.shape = .ok q.mask := by
  unfold construct at h
  split at h; · cases h
  split at h; · cases h
  split at h; · cases h
  rename_i hlen
  simp only at h
  split at h; · cases h
  cases hm : suitableMask mask (List.take (vals.shape.length - dr - nr) vals.shape) with
  | error e => simp only [hm] at h; cases h
  | ok m =>
    simp only [hm] at h
    injection h with h
    subst h
    have hlen' : nr + dr ≤ vals.shape.length := by omega
    refine ⟨rfl, rfl, ?_, ?_, ?_, hm⟩
    · show List.take _ vals.shape ++ List.take nr (List.drop _ vals.shape) ++ List.drop _ vals.shape = _
      have e1 : vals.shape.length - dr = (vals.shape.length - dr - nr) + nr := by omega
      conv => lhs; rw [List.append_assoc]
      conv => lhs; arg 2; arg 2; rw [e1, ← List.drop_drop]
      rw [List.take_append_drop, List.take_append_drop]
    · show (List.take nr (List.drop _ vals.shape)).length = nr
      rw [List.length_take, List.length_drop]; omega
    · show (List.drop _ vals.shape).length = dr
      rw [List.length_drop]; omega

/-- a scalar mask stays the scalar; an array mask of the right shape stays that array -/
theorem suitableMask_at {m m' : Mask} {shape : Shape} (h : suitableMask m shape = .ok m')
    (hm : ∀ a, m = .arr a → a.shape = shape) : m' = m := by
  unfold suitableMask at h
  cases m with
  | all b => injection h with h; exact h.symm
  | arr a =>
    simp only [hm a rfl, if_true] at h
    injection h with h; exact h.symm

/-- `Qube.cast` hands over the values array and the item split unchanged; only the class changes -/
theorem cast_ok {α} (q q' : Q0 α) : ∀ (cs : List Cls), ItemOps.cast q cs = .ok q' →
    q'.vals = q.vals ∧ q'.shape ++ q'.numer ++ q'.denom = q.vals.shape ∨ q' = q
  | [], h => by unfold ItemOps.cast at h; injection h with h; exact Or.inr h.symm
  | c :: cs, h => by
    unfold ItemOps.cast at h
    split at h
    · injection h with h; exact Or.inr h.symm
    · split at h
      · exact cast_ok q q' cs h
      · split at h
        · exact cast_ok q q' cs h
        · obtain ⟨_, hv, hs, _⟩ := construct_ok h
          exact Or.inl ⟨hv, hv ▸ hs⟩

/-- join_items: the result holds the SAME values array (every element, same order); the item axes
    are merely re-labelled numerator ++ denominator → numerator -/
theorem join_items_vals {α} (q r : Q α) (cs : List Cls) (hwf : q.base.shape ++ q.base.numer ++ q.base.denom = q.base.vals.shape)
    (h : joinItems q cs = .ok r) :
    r.base.vals = q.base.vals ∧ r.base.shape ++ r.base.numer ++ r.base.denom = q.base.vals.shape := by
  unfold joinItems at h
  split at h
  · injection h with h; subst h; exact ⟨rfl, hwf⟩
  · simp only [bind, Except.bind, pure, Except.pure] at h
    cases h1 : construct Cls.qube q.base.vals q.base.mask (q.base.numer.length + q.base.denom.length) 0 with
    | error e => rw [h1] at h; cases h
    | ok obj =>
      rw [h1] at h
      simp only at h
      cases h2 : ItemOps.cast obj cs with
      | error e => rw [h2] at h; cases h
      | ok obj' =>
        rw [h2] at h
        simp only at h
        injection h with h; subst h
        obtain ⟨_, hv, hs, _⟩ := construct_ok h1
        rcases cast_ok obj obj' cs h2 with ⟨e1, e2⟩ | e
        · exact ⟨e1.trans hv, hv ▸ e2⟩
        · subst e; exact ⟨hv, hs⟩

/-- split_items: likewise the same values array, re-split after `nrank` item axes -/
theorem split_items_vals {α} (q r : Q α) (nrank : Nat) (cs : List Cls) (h : splitItems q nrank cs = .ok r) :
    r.base.vals = q.base.vals ∧ r.base.shape ++ r.base.numer ++ r.base.denom = q.base.vals.shape := by
  unfold splitItems at h
  simp only at h
  split at h; · cases h
  simp only [bind, Except.bind, pure, Except.pure] at h
  cases h1 : construct Cls.qube q.base.vals q.base.mask nrank (q.base.numer.length + q.base.denom.length - nrank) with
  | error e => rw [h1] at h; cases h
  | ok obj =>
    rw [h1] at h
    simp only at h
    cases h2 : ItemOps.cast obj cs with
    | error e => rw [h2] at h; cases h
    | ok obj' =>
      rw [h2] at h
      simp only at h
      injection h with h; subst h
      obtain ⟨_, hv, hs, _⟩ := construct_ok h1
      rcases cast_ok obj obj' cs h2 with ⟨e1, e2⟩ | e
      · exact ⟨e1.trans hv, hv ▸ e2⟩
      · subst e; exact ⟨hv, hs⟩

example : (splitItems (α := Int) ⟨⟨.matrix, [2], [2, 3], [], ⟨[2, 2, 3], fun _ => 0⟩, .all false⟩, []⟩ 1 [.vector]).toOption.map
    (fun r => (r.base.cls, r.base.numer, r.base.denom)) = some (.vector, [2], [3]) := by decide

end PMV.C15
