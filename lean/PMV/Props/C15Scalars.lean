import PMV.Props.C15Conv
/-
  C15 — from_scalars and to_scalars: the components of a vector put back together give the vector
  (`from_scalars ∘ to_scalars = id`), one object level: values (every element, item index untouched), mask, shapes.
-/
namespace PMV.C15
open PMV PMV.NpShape PMV.Shaper PMV.ItemOps

variable {α : Type}

/-- if `p'` undoes `p`, the source index under `transpose(p)` is the transposed index under `p'` -/
theorem unpermute_eq_permute_of_inverse {n : Nat} {p p' : List Nat} (hp : IsPerm n p) (hp' : IsPerm n p')
    (hinv : permute p' p = List.range n) (idx : Index) (hi : idx.length = n) :
    unpermute p idx = permute p' idx := by
  have h1 : permute p (unpermute p idx) = idx := permute_unpermute hp hi
  have hl : (unpermute p idx).length = n := by rw [length_unpermute, hp.1]
  have h2 : permute p' (permute p (unpermute p idx)) = unpermute p idx := by
    rw [permute_permute _ _ _ (fun m hm => by rw [hp.1]; exact hp'.2.2 m hm), hinv, ← hl, permute_range]
  rw [h1] at h2
  exact h2.symm

/-- `np.rollaxis(x, 0, s+1)`: the first axis goes to position `s` -/
theorem rollaxis_to {β : Type} (x : Arr β) {s : Nat} (hs : s < x.shape.length) :
    ∃ y, NpShape.rollaxis x 0 ((s + 1 : Nat) : Int) = .ok y ∧
      y.shape = x.shape.tail.insertIdx s (x.shape.headD 0) ∧
      ∀ idx : Index, idx.length = x.shape.length → y.get idx = x.get (idx.getD s 0 :: idx.eraseIdx s) := by
  have hn : 0 < x.shape.length := by omega
  have r := rollaxis_ok x (axis := 0) (start := ((s + 1 : Nat) : Int)) (a := 0) (s := ((s + 1 : Nat) : Int))
    (by have := normAxis_of_nonneg (n := x.shape.length) (b := 0) (by omega) (by omega); simpa using this)
    (by rw [if_neg (by omega)]) (by omega) (by omega)
  have hd : (if 0 < ((s + 1 : Nat) : Int).toNat then ((s + 1 : Nat) : Int).toNat - 1 else ((s + 1 : Nat) : Int).toNat) = s := by
    simp
  rw [hd] at r
  obtain ⟨d, ds, hsh⟩ : ∃ d ds, x.shape = d :: ds := by
    cases h : x.shape with
    | nil => rw [h] at hn; simp at hn
    | cons d ds => exact ⟨d, ds, rfl⟩
  by_cases h0 : 0 = s
  · subst h0
    rw [if_pos rfl] at r
    refine ⟨x, r, by rw [hsh]; simp, fun idx hi => ?_⟩
    cases idx with
    | nil => rw [hsh] at hi; simp at hi
    | cons a as => simp
  · rw [if_neg h0] at r
    have hp := rollPerm_isPerm hn hs
    have hp' := rollPerm_isPerm hs hn
    refine ⟨_, r, ?_, fun idx hi => ?_⟩
    · show permute _ x.shape = _
      have e := unpermute_eq_permute_of_inverse hp' hp (rollPerm_inverse hs hn) x.shape rfl
      rw [← e, hsh]
      have hs' : s < (d :: ds).length := by rw [← hsh]; exact hs
      rw [unpermute_rollFront d ds hs' (by simp)]
      simp
    · show x.get (unpermute _ idx) = _
      rw [unpermute_eq_permute_of_inverse hp hp' (rollPerm_inverse hn hs) idx hi,
        permute_rollFront idx hs hi]

theorem getD_mid (i kd : Index) (k : Nat) : (i ++ [k] ++ kd).getD i.length 0 = k := by
  simp [List.getD_eq_getElem?_getD, List.getElem?_append_left, List.getElem?_append_right]

theorem eraseIdx_mid (i kd : Index) (k : Nat) : (i ++ [k] ++ kd).eraseIdx i.length = i ++ kd := by
  rw [List.append_assoc, List.eraseIdx_append_of_length_le (Nat.le_refl _), Nat.sub_self]
  simp


theorem bcastShapes_same (S : Shape) : ∀ (l : List Shape), l ≠ [] → (∀ s ∈ l, s = S) → bcastShapes l = .ok S
  | [], h, _ => absurd rfl h
  | s :: ss, _, hall => by
    have hs : s = S := hall s (by simp)
    subst hs
    unfold bcastShapes
    cases hss : ss with
    | nil => simp [bcastShapes, bind, Except.bind, bcast_nil_right]
    | cons t ts =>
      have := bcastShapes_same s (t :: ts) (by simp) (fun u hu => hall u (by simp [hss, hu]))
      rw [this]
      simp [bind, Except.bind, bcast_self]

theorem mapM_id_of_forall {β : Type} {f : β → Except Err β} : ∀ (l : List β), (∀ x ∈ l, f x = .ok x) →
    l.mapM f = .ok l
  | [], _ => rfl
  | x :: xs, h => by
    rw [List.mapM_cons, h x (by simp), mapM_id_of_forall xs (fun y hy => h y (by simp [hy]))]
    rfl

theorem any_congr_mem {β : Type} {f g : β → Bool} : ∀ {l : List β}, (∀ x ∈ l, f x = g x) → l.any f = l.any g
  | [], _ => rfl
  | x :: xs, h => by
    rw [List.any_cons, List.any_cons, h x (by simp), any_congr_mem (fun y hy => h y (by simp [hy]))]

/-- `from_scalars` of components of one leading shape `S` (no numerator, denominator `D`), one object level:
    the components become the new FIRST numerator axis — element `(i, [k], kd)` of the result is element
    `(i, kd)` of component `k`; the mask is the union of the component masks -/
theorem fromScalars0_spec {zero : α} {first : Q0 α} {rest : List (Q0 α)} {S D : Shape} {cs : List Cls} {r : Q0 α}
    (hc : ∀ c ∈ first :: rest, WF0 c ∧ c.shape = S ∧ c.numer = [] ∧ c.denom = D)
    (h : fromScalars0 zero ((first :: rest).map some) cs = .ok r) :
    r.shape = S ∧ r.numer = [(first :: rest).length] ∧ r.denom = D ∧ WF0 r ∧
    (∀ i, r.mask.at i = (first :: rest).any (·.mask.at i)) ∧
    ∀ (k : Nat) (hk : k < (first :: rest).length) (i kd : Index), i.length = S.length → kd.length = D.length →
      r.vals.get (i ++ [k] ++ kd) = (first :: rest)[k].vals.get (i ++ kd) := by
  have hf := hc first (by simp)
  unfold fromScalars0 at h
  simp only [filterMap_id_map_some] at h
  obtain ⟨out, hout, h⟩ := bind_ok.1 h
  rw [bcastShapes_same S _ (by simp) (by
    intro s hs; obtain ⟨c, hcm, rfl⟩ := List.mem_map.1 hs; exact (hc c hcm).2.1)] at hout
  injection hout with hout; subst hout
  obtain ⟨bs, hbs, h⟩ := bind_ok.1 h
  have hbs2 : ((first :: rest).mapM (broadcastTo0 · (ofNats S))).map (·.map some) = .ok bs :=
    (mapM_some_eq (ofNats S) (first :: rest)).symm.trans hbs
  rw [mapM_id_of_forall _ (fun c hcm => by
    unfold broadcastTo0; rw [if_pos (by rw [(hc c hcm).2.1])])] at hbs2
  have := (map_ok.1 hbs2).choose_spec
  obtain ⟨bs', e1, e2⟩ := map_ok.1 hbs2
  injection e1 with e1; subst e1; subst e2
  have hden : ((first :: rest).any fun q => decide (q.denom ≠ first.denom)) = false := by
    rw [List.any_eq_false]
    intro q hq
    simp [(hc q hq).2.2.2, hf.2.2.2]
  rw [if_neg (by rw [hden]; simp)] at h
  obtain ⟨nv, hnv, h⟩ := bind_ok.1 h
  obtain ⟨obj, h1, h2⟩ := bind_ok.1 h
  -- the stacked array and its roll
  have hmapv : ((first :: rest).map some).map (·.map (·.vals)) = ((first :: rest).map (·.vals)).map some := by
    simp [List.map_map]
  have hstk : (stackVals zero (S ++ first.denom) (((first :: rest).map some).map (·.map (·.vals)))).shape
      = (first :: rest).length :: (S ++ D) := by
    show _ :: _ = _; rw [hf.2.2.2]; simp
  have hlenS : S.length < (stackVals zero (S ++ first.denom) (((first :: rest).map some).map (·.map (·.vals)))).shape.length := by
    rw [hstk]; simp; omega
  obtain ⟨y, hy, hysh, hyget⟩ := rollaxis_to _ hlenS
  have harg : Int.ofNat ((stackVals zero (S ++ first.denom) (((first :: rest).map some).map (·.map (·.vals)))).shape.length
      - first.denom.length) = ((S.length + 1 : Nat) : Int) := by
    rw [hstk, hf.2.2.2]; simp; omega
  rw [harg] at hnv
  have e : nv = y := by have := hnv.symm.trans hy; injection this
  subst e
  have hnvsh : nv.shape = S ++ [(first :: rest).length] ++ D := by
    rw [hysh, hstk]
    simp only [List.tail_cons, List.headD_cons]
    have := insertIdx_append_right (first :: rest).length S D 0
    simpa using this
  have hmm : ∀ a, orMasks S ((((first :: rest).map some).filterMap id).map (·.mask)) = .arr a → a.shape = S := by
    intro a ha
    unfold orMasks at ha
    split at ha
    · cases ha
    · injection ha with ha; subst ha; rfl
  obtain ⟨_, a1, a2, a3, a4, a5, a6⟩ := construct_split (s := S) (n := [(first :: rest).length]) (d := D) h1 hnvsh rfl
    (by rw [hf.2.2.2]) hmm
  obtain ⟨b1, b2, b3, b4, b5, b6⟩ := cast_keeps a6 cs h2
  refine ⟨b2.trans a2, b3.trans a3, b4.trans a4, b6, ?_, ?_⟩
  · intro i
    rw [b5, a5, filterMap_id_map_some]
    unfold orMasks
    split
    · rename_i hall
      show (List.any _ _) = _
      rw [List.any_map]
      apply any_congr_mem
      intro c hcm
      rw [List.all_map, List.all_eq_true] at hall
      have := hall c hcm
      simp only [Function.comp] at this ⊢
      cases hm : c.mask with
      | all b => rfl
      | arr a => rw [hm] at this; cases this
    · show (List.any _ _) = _
      rw [List.any_map]; rfl
  · intro k hk i kd hi hkd
    rw [b1, a1, hyget (i ++ [k] ++ kd) (by
      rw [hstk]; simp only [List.length_append, List.length_cons, List.length_nil]; omega)]
    rw [← hi, getD_mid, eraseIdx_mid]
    show (match (((first :: rest).map some).map (·.map (·.vals)))[k]? with
      | some (some a) => a.get (i ++ kd)
      | _ => zero) = _
    cases k with
    | zero => simp
    | succ k' =>
      have hk' : k' < rest.length := by simpa using hk
      simp [List.getElem?_map, List.getElem?_eq_getElem hk']


theorem pyIndex_nat {n k : Nat} (hk : k < n) : pyIndex n (Int.ofNat k) = .ok k := by
  unfold pyIndex
  have h1 : -(n : Int) ≤ Int.ofNat k ∧ Int.ofNat k < (n : Int) := by
    constructor
    · have : (0 : Int) ≤ Int.ofNat k := Int.natCast_nonneg k
      omega
    · show ((k : Nat) : Int) < (n : Int); omega
  have h2 : ¬ (Int.ofNat k < 0) := by
    have : (0 : Int) ≤ Int.ofNat k := Int.natCast_nonneg k
    omega
  rw [if_pos h1, if_neg h2]
  rfl

theorem any_const_of_mem {β : Type} {l : List β} {f : β → Bool} {b : Bool} (hne : l ≠ []) (h : ∀ x ∈ l, f x = b) :
    l.any f = b := by
  cases l with
  | nil => exact absurd rfl hne
  | cons x xs =>
    cases b with
    | true => rw [List.any_eq_true]; exact ⟨x, by simp, h x (by simp)⟩
    | false => rw [List.any_eq_false]; intro y hy; simp [h y hy]

/-- **`from_scalars ∘ to_scalars = id`** (one object level): taking the `n` components of a vector (numerator
    `(n,)`, any denominator, any leading shape) with `to_scalar(k)` and putting them back with `from_scalars`
    gives an object with the vector's shapes, the vector's mask, and every element `(i, [k], kd)` in place -/
theorem from_to_scalars0 {zero : α} {v r : Q0 α} {n : Nat} {comps : List (Q0 α)} {cs : List Cls} (hwf : WF0 v)
    (hn : v.numer = [n]) (hpos : 0 < n)
    (hcomps : (List.range n).mapM (fun k => extractNumer0 v 0 (Int.ofNat k) [.scalar]) = .ok comps)
    (h : fromScalars0 zero (comps.map some) cs = .ok r) :
    r.shape = v.shape ∧ r.numer = v.numer ∧ r.denom = v.denom ∧ (∀ i, r.mask.at i = v.mask.at i) ∧
    ∀ (k : Nat) (i kd : Index), k < n → Valid v.shape i → Valid v.denom kd →
      r.vals.get (i ++ [k] ++ kd) = v.vals.get (i ++ [k] ++ kd) := by
  obtain ⟨hlen, hget⟩ := mapM_getElem hcomps
  rw [List.length_range] at hlen
  have hax : itemAxis v.numer.length 0 = .ok 0 := by
    rw [hn]; unfold itemAxis; simp
  have hcomp : ∀ k (hk : k < comps.length), NumerReindex (fun kn => kn.insertIdx 0 k) [] v comps[k] := by
    intro k hk
    have hkn : k < n := hlen ▸ hk
    have := hget k (by rw [List.length_range]; exact hkn) hk
    simp only [List.getElem_range] at this
    obtain ⟨k', hk', hr⟩ := extractNumer0_numer hwf hax this
    rw [hn] at hk' hr
    simp only [List.getD_cons_zero, List.eraseIdx_cons_zero] at hk' hr
    rw [pyIndex_nat hkn] at hk'
    injection hk' with hk'; subst hk'
    exact hr
  cases hcs : comps with
  | nil => rw [hcs] at hlen; simp at hlen; omega
  | cons first rest =>
    subst hcs
    have hc : ∀ c ∈ first :: rest, WF0 c ∧ c.shape = v.shape ∧ c.numer = [] ∧ c.denom = v.denom := by
      intro c hcm
      obtain ⟨k, hk, rfl⟩ := List.mem_iff_getElem.1 hcm
      have := hcomp k hk
      exact ⟨this.wf, this.shape, this.numer, this.denom⟩
    obtain ⟨s1, s2, s3, _, s5, s6⟩ := fromScalars0_spec hc h
    refine ⟨s1, by rw [s2, hn, hlen], s3, fun i => ?_, fun k i kd hk hi hkd => ?_⟩
    · rw [s5 i]
      apply any_const_of_mem (by simp)
      intro c hcm
      obtain ⟨k, hk, rfl⟩ := List.mem_iff_getElem.1 hcm
      rw [(hcomp k hk).mask]
    · have hk' : k < (first :: rest).length := hlen ▸ hk
      rw [s6 k hk' i kd (NpShape.valid_length hi) (NpShape.valid_length hkd)]
      have := (hcomp k hk').vals i [] kd hi trivial hkd
      simpa using this

