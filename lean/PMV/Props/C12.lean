import PMV.Model.Units
import Mathlib.Data.Nat.GCD.Basic
import Mathlib.Data.Nat.Sqrt
import Mathlib.Data.Rat.Lemmas
import Mathlib.Tactic.Ring
import Mathlib.Tactic.FieldSimp
import Mathlib.Tactic.Push
/-
  C12 — units behave as dimensional algebra over values held in standard units.
  Theorems about the code-shaped definitions of PMV/Model/Units.lean.
-/
namespace PMV.Units

/-! #### the gcd loop and the constructor's normal form -/

theorem gcdLoop_eq : ∀ (fuel a b : Nat), b < fuel → gcdLoop fuel a b = Nat.gcd a b
  | 0, _, _, h => absurd h (Nat.not_lt_zero _)
  | fuel + 1, a, b, h => by
    unfold gcdLoop
    by_cases hb : b = 0
    · simp [hb]
    · have hlt : a % b < fuel := by
        have := Nat.mod_lt a (Nat.pos_of_ne_zero hb); omega
      rw [if_neg hb, gcdLoop_eq fuel b (a % b) hlt, Nat.gcd_comm a b, Nat.gcd_rec b a, Nat.gcd_comm]

/-- the `while` loop of units.py:15-24 computes the greatest common divisor -/
theorem pyGcd_eq (a b : Nat) : pyGcd a b = Nat.gcd a b := gcdLoop_eq _ _ _ (Nat.lt_succ_self b)

/-- `__init__` on a positive integer pair stores the pair in lowest terms; the fall-back branch
    (`numer * triple[1] != denom * triple[0]`) is never taken -/
theorem mk_eq (e0 e1 e2 : Int) (n d : Nat) (p : Int) (hn : 0 < n) :
    mk' e0 e1 e2 n d p = ⟨e0, e1, e2, n / Nat.gcd n d, d / Nat.gcd n d, p⟩ := by
  have hg : 0 < Nat.gcd n d := Nat.gcd_pos_of_pos_left d hn
  have h1 : n * 256 / (Nat.gcd n d * 256) = n / Nat.gcd n d :=
    Nat.mul_div_mul_right n (Nat.gcd n d) (by norm_num)
  have h2 : d * 256 / (Nat.gcd n d * 256) = d / Nat.gcd n d :=
    Nat.mul_div_mul_right d (Nat.gcd n d) (by norm_num)
  have h3 : n / Nat.gcd n d * d = d / Nat.gcd n d * n := by
    obtain ⟨x, hx⟩ := Nat.gcd_dvd_left n d
    obtain ⟨y, hy⟩ := Nat.gcd_dvd_right n d
    have e1 : n / Nat.gcd n d = x := Nat.div_eq_of_eq_mul_right hg hx
    have e2 : d / Nat.gcd n d = y := Nat.div_eq_of_eq_mul_right hg hy
    rw [e1, e2]
    calc x * d = x * (Nat.gcd n d * y) := by rw [← hy]
      _ = y * (Nat.gcd n d * x) := by ring
      _ = y * n := by rw [← hx]
  simp only [mk', pyGcd_eq, Nat.gcd_mul_right, h1, h2, h3, bne_self_eq_false, Bool.false_eq_true,
    if_false]

/-- what a unit's factor is without its power of π -/
def val (u : U) : ℚ := (u.numer : ℚ) / (u.denom : ℚ)

theorem WF.mkP (e0 e1 e2 : Int) (n d : Nat) (p : Int) (hn : 0 < n) (hd : 0 < d) :
    WF (mk' e0 e1 e2 n d p) := by
  rw [mk_eq _ _ _ _ _ _ hn]
  have hg : 0 < Nat.gcd n d := Nat.gcd_pos_of_pos_left d hn
  refine ⟨?_, ?_, ?_⟩
  · exact Nat.div_pos (Nat.le_of_dvd hn (Nat.gcd_dvd_left n d)) hg
  · exact Nat.div_pos (Nat.le_of_dvd hd (Nat.gcd_dvd_right n d)) hg
  · exact Nat.coprime_div_gcd_div_gcd hg

theorem val_mk (e0 e1 e2 : Int) (n d : Nat) (p : Int) (hn : 0 < n) (hd : 0 < d) :
    val (mk' e0 e1 e2 n d p) = (n : ℚ) / (d : ℚ) := by
  rw [mk_eq _ _ _ _ _ _ hn]
  have hg : 0 < Nat.gcd n d := Nat.gcd_pos_of_pos_left d hn
  obtain ⟨x, hx⟩ := Nat.gcd_dvd_left n d
  obtain ⟨y, hy⟩ := Nat.gcd_dvd_right n d
  have e1 : n / Nat.gcd n d = x := Nat.div_eq_of_eq_mul_right hg hx
  have e2 : d / Nat.gcd n d = y := Nat.div_eq_of_eq_mul_right hg hy
  have hy0 : (y : ℚ) ≠ 0 := by
    intro h; have : y = 0 := by exact_mod_cast h
    subst this; omega
  have hg0 : ((Nat.gcd n d : ℕ) : ℚ) ≠ 0 := by exact_mod_cast hg.ne'
  have cx : (n : ℚ) = (Nat.gcd n d : ℕ) * x := by exact_mod_cast hx
  have cy : (d : ℚ) = (Nat.gcd n d : ℕ) * y := by exact_mod_cast hy
  simp only [val, e1, e2]
  rw [cx, cy]
  field_simp

@[simp] theorem exps_mk (e0 e1 e2 : Int) (n d : Nat) (p : Int) :
    (mk' e0 e1 e2 n d p).exps = (e0, e1, e2) := by
  unfold mk'; dsimp only; split <;> rfl

@[simp] theorem piexp_mk (e0 e1 e2 : Int) (n d : Nat) (p : Int) :
    (mk' e0 e1 e2 n d p).piexp = p := by
  unfold mk'; dsimp only; split <;> rfl

/-- two well-formed units with the same exponents, the same rational factor and the same power of π
    are the same value: the representation is canonical -/
theorem WF.ext {a b : U} (ha : WF a) (hb : WF b) (he : a.exps = b.exps) (hp : a.piexp = b.piexp)
    (hv : val a = val b) : a = b := by
  obtain ⟨a0, a1, a2, an, ad, ap⟩ := a
  obtain ⟨b0, b1, b2, bn, bd, bp⟩ := b
  obtain ⟨han, had, hac⟩ := ha
  obtain ⟨hbn, hbd, hbc⟩ := hb
  simp only [U.exps, Prod.mk.injEq] at he
  simp only at hp han had hac hbn hbd hbc
  have had0 : (ad : ℚ) ≠ 0 := by exact_mod_cast had.ne'
  have hbd0 : (bd : ℚ) ≠ 0 := by exact_mod_cast hbd.ne'
  have hx : an * bd = bn * ad := by
    have : (an : ℚ) * bd = bn * ad := by
      simp only [val] at hv
      field_simp at hv
      rw [hv]; ring
    exact_mod_cast this
  have h1 : an ∣ bn := by
    have : an ∣ bn * ad := ⟨bd, hx.symm⟩
    exact (Nat.Coprime.dvd_mul_right hac).mp this
  have h2 : bn ∣ an := by
    have : bn ∣ an * bd := ⟨ad, hx⟩
    exact (Nat.Coprime.dvd_mul_right hbc).mp this
  have hn : an = bn := Nat.dvd_antisymm h1 h2
  subst hn
  have hd : ad = bd := by
    have := Nat.eq_of_mul_eq_mul_left han hx
    exact this.symm
  obtain ⟨h0, h1', h2'⟩ := he
  subst hd h0 h1' h2' hp
  rfl

/-- `mk'_canonical`: a value is well-formed exactly when the constructor reproduces it -/
theorem mkP_canonical (u : U) :
    WF u ↔ (0 < u.numer ∧ 0 < u.denom ∧ u = mk' u.e0 u.e1 u.e2 u.numer u.denom u.piexp) := by
  constructor
  · intro h
    refine ⟨h.npos, h.dpos, ?_⟩
    rw [mk_eq _ _ _ _ _ _ h.npos, h.cop, Nat.div_one, Nat.div_one]
  · rintro ⟨hn, hd, he⟩
    rw [he]; exact WF.mkP _ _ _ _ _ _ hn hd

@[simp] theorem e0_mk (e0 e1 e2 : Int) (n d : Nat) (p : Int) : (mk' e0 e1 e2 n d p).e0 = e0 := by
  unfold mk'; dsimp only; split <;> rfl
@[simp] theorem e1_mk (e0 e1 e2 : Int) (n d : Nat) (p : Int) : (mk' e0 e1 e2 n d p).e1 = e1 := by
  unfold mk'; dsimp only; split <;> rfl
@[simp] theorem e2_mk (e0 e1 e2 : Int) (n d : Nat) (p : Int) : (mk' e0 e1 e2 n d p).e2 = e2 := by
  unfold mk'; dsimp only; split <;> rfl

theorem val_ne_zero {a : U} (h : WF a) : val a ≠ 0 := by
  have h1 : (a.numer : ℚ) ≠ 0 := by exact_mod_cast h.npos.ne'
  have h2 : (a.denom : ℚ) ≠ 0 := by exact_mod_cast h.dpos.ne'
  exact div_ne_zero h1 h2

/-! #### multiplication and division -/

theorem WF.mul {a b : U} (ha : WF a) (hb : WF b) : WF (mul a b) :=
  WF.mkP _ _ _ _ _ _ (Nat.mul_pos ha.npos hb.npos) (Nat.mul_pos ha.dpos hb.dpos)

theorem WF.div {a b : U} (ha : WF a) (hb : WF b) : WF (div a b) :=
  WF.mkP _ _ _ _ _ _ (Nat.mul_pos ha.npos hb.dpos) (Nat.mul_pos ha.dpos hb.npos)

/-- the factor of a product is the product of the factors, exactly -/
theorem val_mul {a b : U} (ha : WF a) (hb : WF b) : val (mul a b) = val a * val b := by
  unfold mul
  rw [val_mk _ _ _ _ _ _ (Nat.mul_pos ha.npos hb.npos) (Nat.mul_pos ha.dpos hb.dpos)]
  simp only [val]; push_cast
  rw [mul_div_mul_comm]

theorem val_div {a b : U} (ha : WF a) (hb : WF b) : val (div a b) = val a / val b := by
  unfold div
  rw [val_mk _ _ _ _ _ _ (Nat.mul_pos ha.npos hb.dpos) (Nat.mul_pos ha.dpos hb.npos)]
  have h1 : (b.numer : ℚ) ≠ 0 := by exact_mod_cast hb.npos.ne'
  have h2 : (b.denom : ℚ) ≠ 0 := by exact_mod_cast hb.dpos.ne'
  have h3 : (a.denom : ℚ) ≠ 0 := by exact_mod_cast ha.dpos.ne'
  simp only [val]; push_cast
  field_simp

/-- `Units.__mul__` is commutative (for all values, well-formed or not) -/
theorem mul_comm (a b : U) : mul a b = mul b a := by
  unfold mul
  rw [Int.add_comm a.e0, Int.add_comm a.e1, Int.add_comm a.e2, Int.add_comm a.piexp,
    Nat.mul_comm a.numer, Nat.mul_comm a.denom]

/-- `Units.__mul__` is associative on well-formed values: exponents, reduced triple and π exponent
    of both bracketings coincide -/
theorem mul_assoc {a b c : U} (ha : WF a) (hb : WF b) (hc : WF c) :
    mul (mul a b) c = mul a (mul b c) := by
  apply WF.ext ((ha.mul hb).mul hc) (ha.mul (hb.mul hc))
  · simp only [U.exps, mul, e0_mk, e1_mk, e2_mk, Int.add_assoc]
  · simp only [mul, piexp_mk, Int.add_assoc]
  · rw [val_mul (ha.mul hb) hc, val_mul ha hb, val_mul ha (hb.mul hc), val_mul hb hc, _root_.mul_assoc]

/-- `(a * b) / b == a` -/
theorem mul_div_cancel {a b : U} (ha : WF a) (hb : WF b) : div (mul a b) b = a := by
  apply WF.ext ((ha.mul hb).div hb) ha
  · simp only [U.exps, div, mul, e0_mk, e1_mk, e2_mk, Int.add_sub_cancel]
  · simp only [div, mul, piexp_mk, Int.add_sub_cancel]
  · rw [val_div (ha.mul hb) hb, val_mul ha hb, mul_div_assoc, div_self (val_ne_zero hb), mul_one]

/-- `(a / b) * b == a` -/
theorem div_mul_cancel {a b : U} (ha : WF a) (hb : WF b) : mul (div a b) b = a := by
  apply WF.ext ((ha.div hb).mul hb) ha
  · simp only [U.exps, div, mul, e0_mk, e1_mk, e2_mk, Int.sub_add_cancel]
  · simp only [div, mul, piexp_mk, Int.sub_add_cancel]
  · rw [val_mul (ha.div hb) hb, val_div ha hb, div_mul_cancel₀ _ (val_ne_zero hb)]

theorem WF.unitless : WF unitless := ⟨by decide, by decide, by decide⟩

/-- `a / a` is the unitless unit with factor exactly 1 -/
theorem div_self_eq {a : U} (ha : WF a) : div a a = unitless := by
  apply WF.ext (ha.div ha) WF.unitless
  · simp only [U.exps, div, e0_mk, e1_mk, e2_mk, Int.sub_self]; rfl
  · simp only [div, piexp_mk, Int.sub_self]; rfl
  · rw [val_div ha ha, div_self (val_ne_zero ha)]; simp [val, unitless]

/-- `(a * b) / c == a * (b / c)` -/
theorem mul_div_assoc_units {a b c : U} (ha : WF a) (hb : WF b) (hc : WF c) :
    div (mul a b) c = mul a (div b c) := by
  apply WF.ext ((ha.mul hb).div hc) (ha.mul (hb.div hc))
  · simp only [U.exps, div, mul, e0_mk, e1_mk, e2_mk, Int.add_sub_assoc]
  · simp only [div, mul, piexp_mk, Int.add_sub_assoc]
  · rw [val_div (ha.mul hb) hc, val_mul ha hb, val_mul ha (hb.div hc), val_div hb hc, mul_div_assoc]

/-- `==` on well-formed units (equal exponents, equal factor) holds exactly for identical values, so
    every law above is also a law about `==` -/
theorem eqU_iff {a b : U} (ha : WF a) (hb : WF b) : eqU a b = true ↔ a = b := by
  constructor
  · intro h
    simp only [eqU, Bool.and_eq_true, beq_iff_eq] at h
    obtain ⟨he, hx, hp⟩ := h
    have h1 : (a.denom : ℚ) ≠ 0 := by exact_mod_cast ha.dpos.ne'
    have h2 : (b.denom : ℚ) ≠ 0 := by exact_mod_cast hb.dpos.ne'
    have hxq : (a.numer : ℚ) * b.denom = b.numer * a.denom := by exact_mod_cast hx
    refine WF.ext ha hb he hp ?_
    simp only [val]
    field_simp
    rw [hxq]; ring
  · rintro rfl
    simp [eqU]

/-! #### powers and square roots -/

theorem WF.pow {a : U} (ha : WF a) (p : Int) : WF (Units.pow a p) := by
  unfold Units.pow
  split
  · exact WF.mkP _ _ _ _ _ _ (Nat.pos_of_ne_zero (pow_ne_zero _ ha.npos.ne'))
      (Nat.pos_of_ne_zero (pow_ne_zero _ ha.dpos.ne'))
  · exact WF.mkP _ _ _ _ _ _ (Nat.pos_of_ne_zero (pow_ne_zero _ ha.dpos.ne'))
      (Nat.pos_of_ne_zero (pow_ne_zero _ ha.npos.ne'))

/-- the factor of `a ** p` is the p-th power of the factor of `a` (both branches of `__pow__`) -/
theorem val_pow {a : U} (ha : WF a) (p : Int) : val (pow a p) = val a ^ p := by
  have hn : (a.numer : ℚ) ≠ 0 := by exact_mod_cast ha.npos.ne'
  have hd : (a.denom : ℚ) ≠ 0 := by exact_mod_cast ha.dpos.ne'
  unfold pow
  split
  · rename_i h
    rw [val_mk _ _ _ _ _ _ (Nat.pos_of_ne_zero (pow_ne_zero _ ha.npos.ne'))
      (Nat.pos_of_ne_zero (pow_ne_zero _ ha.dpos.ne'))]
    have hp : p = (p.toNat : ℤ) := (Int.toNat_of_nonneg (le_of_lt h)).symm
    conv_rhs => rw [hp, zpow_natCast]
    simp only [val]; push_cast
    rw [div_pow]
  · rename_i h
    rw [val_mk _ _ _ _ _ _ (Nat.pos_of_ne_zero (pow_ne_zero _ ha.dpos.ne'))
      (Nat.pos_of_ne_zero (pow_ne_zero _ ha.npos.ne'))]
    have hp : p = -((-p).toNat : ℤ) := by
      have : ((-p).toNat : ℤ) = -p := Int.toNat_of_nonneg (by omega)
      omega
    conv_rhs => rw [hp, zpow_neg, zpow_natCast]
    simp only [val]; push_cast
    rw [div_pow, inv_div]

theorem exps_pow (a : U) (p : Int) : (pow a p).exps = (p * a.e0, p * a.e1, p * a.e2) := by
  unfold pow; split <;> simp only [exps_mk]

theorem piexp_pow (a : U) (p : Int) : (pow a p).piexp = p * a.piexp := by
  unfold pow; split <;> simp only [piexp_mk]

/-- `a**(p+q) == a**p * a**q` -/
theorem pow_add {a : U} (ha : WF a) (p q : Int) : pow a (p + q) = mul (pow a p) (pow a q) := by
  apply WF.ext (ha.pow _) ((ha.pow p).mul (ha.pow q))
  · have h1 := exps_pow a p; have h2 := exps_pow a q
    simp only [U.exps, Prod.mk.injEq] at h1 h2
    rw [exps_pow]
    simp only [U.exps, mul, e0_mk, e1_mk, e2_mk, h1.1, h1.2.1, h1.2.2, h2.1, h2.2.1, h2.2.2, Int.add_mul]
  · rw [piexp_pow]; simp only [mul, piexp_mk, piexp_pow, Int.add_mul]
  · rw [val_pow ha, val_mul (ha.pow p) (ha.pow q), val_pow ha, val_pow ha, zpow_add₀ (val_ne_zero ha)]

/-- `a**(-p) == 1 / a**p` (the route `__rtruediv__` takes: `(self / 1) ** -1`) -/
theorem pow_neg {a : U} (ha : WF a) (p : Int) : pow a (-p) = rdivNat 1 (pow a p) := by
  have hone : WF (mk' 0 0 0 1 1 0) := WF.mkP _ _ _ _ _ _ (by decide) (by decide)
  have hv1 : val (mk' 0 0 0 1 1 0) = 1 := by
    rw [val_mk _ _ _ _ _ _ (by decide) (by decide)]; simp
  have hq : WF (divNat (pow a p) 1) := (ha.pow p).mul hone
  apply WF.ext (ha.pow _) (hq.pow _)
  · rw [exps_pow, exps_pow]
    have h1 := exps_pow a p
    simp only [U.exps, Prod.mk.injEq] at h1
    simp only [divNat, mul, e0_mk, e1_mk, e2_mk, h1.1, h1.2.1, h1.2.2, Int.add_zero, Int.neg_mul, Int.one_mul]
  · rw [piexp_pow, piexp_pow]
    simp only [divNat, mul, piexp_mk, piexp_pow, Int.add_zero, Int.neg_mul, Int.one_mul]
  · rw [val_pow ha, val_pow hq, divNat, val_mul (ha.pow p) hone, hv1, mul_one, val_pow ha,
      zpow_neg, zpow_neg, zpow_one]

theorem pow_one {a : U} (ha : WF a) : pow a 1 = a := by
  apply WF.ext (ha.pow 1) ha
  · rw [exps_pow]; simp only [U.exps, Int.one_mul]
  · rw [piexp_pow, Int.one_mul]
  · rw [val_pow ha, zpow_one]

theorem pow_zero {a : U} (ha : WF a) : pow a 0 = unitless := by
  apply WF.ext (ha.pow 0) WF.unitless
  · rw [exps_pow]; simp only [Int.zero_mul]; rfl
  · rw [piexp_pow, Int.zero_mul]; rfl
  · rw [val_pow ha, zpow_zero]; simp [val, unitless]

/-- `(a**p)**q == a**(p*q)` -/
theorem pow_pow {a : U} (ha : WF a) (p q : Int) : pow (pow a p) q = pow a (p * q) := by
  apply WF.ext ((ha.pow p).pow q) (ha.pow _)
  · have h1 := exps_pow a p
    simp only [U.exps, Prod.mk.injEq] at h1
    rw [exps_pow, exps_pow, h1.1, h1.2.1, h1.2.2]
    simp only [Prod.mk.injEq]
    refine ⟨?_, ?_, ?_⟩ <;> ring
  · rw [piexp_pow, piexp_pow, piexp_pow]; ring
  · rw [val_pow (ha.pow p), val_pow ha, val_pow ha, zpow_mul]

/-- the product of a well-formed unit with itself needs no reduction -/
theorem mul_self_eq {a : U} (ha : WF a) :
    mul a a = ⟨a.e0 + a.e0, a.e1 + a.e1, a.e2 + a.e2, a.numer * a.numer, a.denom * a.denom,
      a.piexp + a.piexp⟩ := by
  unfold mul
  rw [mk_eq _ _ _ _ _ _ (Nat.mul_pos ha.npos ha.npos)]
  have h : Nat.Coprime a.numer a.denom := ha.cop
  have hc : Nat.gcd (a.numer * a.numer) (a.denom * a.denom) = 1 := by
    have := Nat.Coprime.pow 2 2 h
    simpa [pow_two] using this
  rw [hc, Nat.div_one, Nat.div_one]

/-- `sqrt(a*a) == a`: the square root is taken exactly and lands on the canonical value -/
theorem sqrt_mul_self {a : U} (ha : WF a) : sqrt (mul a a) = .ok (.exact a) := by
  rw [mul_self_eq ha]
  have h0 : (a.e0 + a.e0) % 2 = 0 := by omega
  have h1 : (a.e1 + a.e1) % 2 = 0 := by omega
  have h2 : (a.e2 + a.e2) % 2 = 0 := by omega
  have d0 : (a.e0 + a.e0) / 2 = a.e0 := by omega
  have d1 : (a.e1 + a.e1) / 2 = a.e1 := by omega
  have d2 : (a.e2 + a.e2) / 2 = a.e2 := by omega
  have hp : 2 * a.piexp / 2 = a.piexp := by omega
  have hp2 : a.piexp + a.piexp = 2 * a.piexp := by omega
  have hm : mk' a.e0 a.e1 a.e2 a.numer a.denom a.piexp = a := ((mkP_canonical a).1 ha).2.2.symm
  simp only [sqrt, h0, h1, h2, d0, d1, d2, hp, hp2, Nat.sqrt_eq, bne_self_eq_false, Bool.or_self,
    Bool.false_eq_true, if_false, beq_self_eq_true, Bool.and_self, if_true, hm]

/-! #### conversion between units of the same dimension -/

/-- what `convert` multiplies a value by: a rational and a power of π (`none` = value returned as is) -/
def convQ : Option Factor → ℚ × Int
  | none => (1, 0)
  | some f => ((f.n : ℚ) / (f.d : ℚ), f.p)

/-- `convert` applied to a value of ℚ·π^k -/
def applyConv : Option Factor → QPi → QPi
  | none, v => v
  | some f, v => v.scale f

theorem applyConv_eq (f : Option Factor) (v : QPi) :
    applyConv f v = ⟨v.q * (convQ f).1, v.k + (convQ f).2⟩ := by
  cases f with
  | none => simp [applyConv, convQ]
  | some f => simp [applyConv, convQ, QPi.scale, mul_div_assoc]

/-- `convert_exact`: between units of equal dimension the conversion factor is exactly the quotient
    of the two rational factors times π^(difference of the π exponents) -/
theorem convert_exact {a b : U} (ha : WF a) (hb : WF b) (he : a.exps = b.exps) :
    ∃ f, convert a (some b) = .ok f ∧ convQ f = (val a / val b, a.piexp - b.piexp) := by
  have h1 : (a.denom : ℚ) ≠ 0 := by exact_mod_cast ha.dpos.ne'
  have h2 : (b.denom : ℚ) ≠ 0 := by exact_mod_cast hb.dpos.ne'
  have h3 : (b.numer : ℚ) ≠ 0 := by exact_mod_cast hb.npos.ne'
  have h4 : (a.numer : ℚ) ≠ 0 := by exact_mod_cast ha.npos.ne'
  unfold convert
  simp only [Option.getD_some, he, bne_self_eq_false, Bool.false_eq_true, if_false]
  by_cases hc : (a.piexp == b.piexp && a.numer * b.denom == a.denom * b.numer) = true
  · rw [if_pos hc]
    refine ⟨none, rfl, ?_⟩
    simp only [Bool.and_eq_true, beq_iff_eq] at hc
    obtain ⟨hp, hx⟩ := hc
    have hxq : (a.numer : ℚ) * b.denom = a.denom * b.numer := by exact_mod_cast hx
    simp only [convQ, val, Prod.mk.injEq]
    constructor
    · field_simp; rw [hxq]
    · omega
  · rw [if_neg hc]
    refine ⟨some ⟨a.numer * b.denom, a.denom * b.numer, a.piexp - b.piexp⟩, rfl, ?_⟩
    simp only [convQ, val, Prod.mk.injEq, and_true]
    push_cast
    field_simp

/-- different dimensions: `ValueError` -/
theorem convert_rejects {a b : U} (he : a.exps ≠ b.exps) : convert a (some b) = .error .valueError := by
  unfold convert
  have : (a.exps != b.exps) = true := by simpa using he
  simp only [Option.getD_some, this, if_true]

/-- converting there and back is the identity on ℚ·π^k -/
theorem convert_round_trip {a b : U} (ha : WF a) (hb : WF b) (he : a.exps = b.exps) (v : QPi) :
    ∃ f g, convert a (some b) = .ok f ∧ convert b (some a) = .ok g ∧ applyConv g (applyConv f v) = v := by
  obtain ⟨f, hf, hfq⟩ := convert_exact ha hb he
  obtain ⟨g, hg, hgq⟩ := convert_exact hb ha he.symm
  refine ⟨f, g, hf, hg, ?_⟩
  rw [applyConv_eq, applyConv_eq, hfq, hgq]
  have ha0 := val_ne_zero ha
  have hb0 := val_ne_zero hb
  obtain ⟨q, k⟩ := v
  simp only [QPi.mk.injEq]
  constructor
  · field_simp
  · omega

/-! #### into_units / from_units / set_units / without_units -/

theorem scale_inv_factor {u : U} (hu : WF u) (v : QPi) : (v.scale u.factorInv).scale u.factor = v := by
  have h1 : (u.denom : ℚ) ≠ 0 := by exact_mod_cast hu.dpos.ne'
  have h2 : (u.numer : ℚ) ≠ 0 := by exact_mod_cast hu.npos.ne'
  obtain ⟨q, k⟩ := v
  simp only [QPi.scale, U.factor, U.factorInv, QPi.mk.injEq]
  constructor
  · field_simp
  · omega

theorem scale_factor_inv {u : U} (hu : WF u) (v : QPi) : (v.scale u.factor).scale u.factorInv = v := by
  have h1 : (u.denom : ℚ) ≠ 0 := by exact_mod_cast hu.dpos.ne'
  have h2 : (u.numer : ℚ) ≠ 0 := by exact_mod_cast hu.npos.ne'
  obtain ⟨q, k⟩ := v
  simp only [QPi.scale, U.factor, U.factorInv, QPi.mk.injEq]
  constructor
  · field_simp
  · omega

theorem isOne_inv (u : U) : u.factorInv.isOne = u.factor.isOne := by
  simp only [Factor.isOne, U.factor, U.factorInv]
  rw [Bool.eq_iff_iff]
  simp only [Bool.and_eq_true, beq_iff_eq]
  constructor <;> rintro ⟨h1, h2⟩ <;> exact ⟨h1.symm, by omega⟩

theorem map_scale_inv_factor {u : U} (hu : WF u) (l : List QPi) :
    (l.map (QPi.scale u.factorInv)).map (QPi.scale u.factor) = l := by
  rw [List.map_map]
  conv_rhs => rw [← List.map_id l]
  exact List.map_congr_left fun v _ => scale_inv_factor hu v

theorem map_scale_factor_inv {u : U} (hu : WF u) (l : List QPi) :
    (l.map (QPi.scale u.factor)).map (QPi.scale u.factorInv) = l := by
  rw [List.map_map]
  conv_rhs => rw [← List.map_id l]
  exact List.map_congr_left fun v _ => scale_factor_inv hu v

/-- an object without derivatives: `from_units` undoes `into_units` exactly -/
theorem Leaf.from_into (l : Leaf) (h : ∀ u, l.units = some u → WF u) : l.intoUnits.fromUnits = l := by
  obtain ⟨vals, units⟩ := l
  cases units with
  | none => rfl
  | some u =>
    have hu := h u rfl
    by_cases h1 : u.factorInv.isOne = true
    · have h2 : u.factor.isOne = true := by rw [← isOne_inv]; exact h1
      simp [Leaf.intoUnits, Leaf.fromUnits, h1, h2]
    · have h2 : ¬ u.factor.isOne = true := by rw [← isOne_inv]; exact h1
      simp [Leaf.intoUnits, Leaf.fromUnits, h1, h2, map_scale_inv_factor hu]

theorem Leaf.into_from (l : Leaf) (h : ∀ u, l.units = some u → WF u) : l.fromUnits.intoUnits = l := by
  obtain ⟨vals, units⟩ := l
  cases units with
  | none => rfl
  | some u =>
    have hu := h u rfl
    by_cases h1 : u.factorInv.isOne = true
    · have h2 : u.factor.isOne = true := by rw [← isOne_inv]; exact h1
      simp [Leaf.intoUnits, Leaf.fromUnits, h1, h2]
    · have h2 : ¬ u.factor.isOne = true := by rw [← isOne_inv]; exact h1
      simp [Leaf.intoUnits, Leaf.fromUnits, h1, h2, map_scale_factor_inv hu]

/-- all units occurring in an object (its own and those of its derivatives) are well-formed -/
def Obj.WFUnits (o : Obj) : Prop :=
  (∀ u, o.units = some u → WF u) ∧ ∀ kd ∈ o.derivs, ∀ u, kd.2.units = some u → WF u

/-- `into_from_inverse`: `from_units ∘ into_units` is the identity on the stored values and on the
    values of every derivative, exactly (over ℚ·π^k) -/
theorem Obj.from_into (o : Obj) (h : o.WFUnits) : o.intoUnits.fromUnits = o := by
  obtain ⟨vals, units, derivs, ok⟩ := o
  obtain ⟨hu, hd⟩ := h
  cases units with
  | none => rfl
  | some u =>
    have hu := hu u rfl
    have hder : (derivs.map fun kd => (kd.1, kd.2.intoUnits)).map (fun kd => (kd.1, kd.2.fromUnits)) = derivs := by
      rw [List.map_map]
      conv_rhs => rw [← List.map_id derivs]
      refine List.map_congr_left fun kd hk => ?_
      simp only [Function.comp, id]
      rw [Leaf.from_into kd.2 (hd kd hk)]
    by_cases h1 : u.factorInv.isOne = true
    · have h2 : u.factor.isOne = true := by rw [← isOne_inv]; exact h1
      simp [Obj.intoUnits, Obj.fromUnits, h1, h2]
    · have h2 : ¬ u.factor.isOne = true := by rw [← isOne_inv]; exact h1
      simp only [Obj.intoUnits, Obj.fromUnits, h1, h2, if_false, Bool.false_eq_true, map_scale_inv_factor hu, hder]

theorem Obj.into_from (o : Obj) (h : o.WFUnits) : o.fromUnits.intoUnits = o := by
  obtain ⟨vals, units, derivs, ok⟩ := o
  obtain ⟨hu, hd⟩ := h
  cases units with
  | none => rfl
  | some u =>
    have hu := hu u rfl
    have hder : (derivs.map fun kd => (kd.1, kd.2.fromUnits)).map (fun kd => (kd.1, kd.2.intoUnits)) = derivs := by
      rw [List.map_map]
      conv_rhs => rw [← List.map_id derivs]
      refine List.map_congr_left fun kd hk => ?_
      simp only [Function.comp, id]
      rw [Leaf.into_from kd.2 (hd kd hk)]
    by_cases h1 : u.factorInv.isOne = true
    · have h2 : u.factor.isOne = true := by rw [← isOne_inv]; exact h1
      simp [Obj.intoUnits, Obj.fromUnits, h1, h2]
    · have h2 : ¬ u.factor.isOne = true := by rw [← isOne_inv]; exact h1
      simp only [Obj.intoUnits, Obj.fromUnits, h1, h2, if_false, Bool.false_eq_true, map_scale_factor_inv hu, hder]

/-- `into_units` scales the values by exactly 1/factor and each derivative by 1/(its own factor):
    derivatives are treated exactly like values -/
theorem Obj.intoUnits_vals (o : Obj) (u : U) (hu : o.units = some u) (h1 : u.factorInv.isOne = false) :
    o.intoUnits.vals = o.vals.map (QPi.scale u.factorInv) ∧
    o.intoUnits.derivs = o.derivs.map (fun kd => (kd.1, kd.2.intoUnits)) ∧
    o.intoUnits.units = o.units := by
  simp [Obj.intoUnits, hu, h1]

/-- `set_units_frame`: attaching or changing units never touches the stored values or derivatives -/
theorem set_units_frame (o o' : Obj) (u : Option U) (h : o.setUnits u = .ok o') :
    o'.vals = o.vals ∧ o'.derivs = o.derivs ∧ o'.units = u := by
  unfold Obj.setUnits at h
  split at h
  · cases h
  · split at h
    · cases h
    · cases h; exact ⟨rfl, rfl, rfl⟩

/-- removing units never touches the stored values, nor the values of any derivative; the object and all its
    derivatives end up without units -/
theorem without_units_frame (o : Obj) :
    o.withoutUnits.vals = o.vals ∧ o.withoutUnits.units = none ∧
    o.withoutUnits.derivs.map (fun kd => (kd.1, kd.2.vals)) = o.derivs.map (fun kd => (kd.1, kd.2.vals)) ∧
    ∀ kd ∈ o.withoutUnits.derivs, kd.2.units = none := by
  refine ⟨rfl, rfl, ?_, ?_⟩
  · simp [Obj.withoutUnits, List.map_map, Function.comp_def]
  · intro kd hk
    simp only [Obj.withoutUnits, List.mem_map] at hk
    obtain ⟨x, _, rfl⟩ := hk
    rfl

/-- a class that disallows units rejects every attempt to attach some (TypeError) -/
theorem set_units_disallowed (o : Obj) (u : U) (h : o.unitsOk = false) :
    o.setUnits (some u) = .error .typeError := by
  simp [Obj.setUnits, h]

/-- units of another dimension cannot be attached (ValueError); absent units match anything -/
theorem set_units_compat (o : Obj) (u c : U) (hok : o.unitsOk = true) (hc : o.units = some c) :
    (o.setUnits (some u) = .error .valueError ↔ u.exps ≠ c.exps) := by
  by_cases he : u.exps = c.exps <;> simp [Obj.setUnits, hok, hc, canMatch, he]

/-! #### unit changes reach the cached derivative-free view -/

/-- the cache, when filled, holds the view of the object as it is now -/
def CObj.Coherent (c : CObj) : Prop := ∀ w, c.wodCache = some w → w = ⟨c.obj.vals, c.obj.units⟩

theorem CObj.wod_spec (c : CObj) (h : c.Coherent) :
    c.wod.1 = ⟨c.obj.vals, c.obj.units⟩ ∧ c.wod.2.Coherent ∧ c.wod.2.obj = c.obj := by
  unfold CObj.wod
  by_cases hd : c.obj.derivs.isEmpty = true
  · simp only [hd, if_true]; exact ⟨trivial, h, trivial⟩
  · simp only [hd, Bool.false_eq_true, if_false]
    cases hc : c.wodCache with
    | some w => exact ⟨h w hc, h, rfl⟩
    | none =>
      refine ⟨rfl, ?_, rfl⟩
      intro w hw
      simp only [Option.some.injEq] at hw
      exact hw.symm

theorem CObj.touches_spec : ∀ (n : Nat) (c : CObj), c.Coherent →
    (CObj.touches n c).Coherent ∧ (CObj.touches n c).obj = c.obj
  | 0, _, h => ⟨h, rfl⟩
  | n + 1, c, h => by
    obtain ⟨_, h2, h3⟩ := CObj.wod_spec c h
    obtain ⟨i1, i2⟩ := CObj.touches_spec n c.touch h2
    exact ⟨i1, by show (CObj.touches n c.touch).obj = c.obj; rw [i2]; exact h3⟩

/-- `set_units` after any number of uses of the cached view: the object AND its `.wod` carry the new units,
    stored values untouched (this is what `self._cache_.clear()` in `set_units` is for) -/
theorem set_units_reaches_wod (n : Nat) (o : Obj) (u : Option U) (c' : CObj)
    (h : (CObj.touches n ⟨o, none⟩).setUnits u = .ok c') :
    c'.obj.units = u ∧ c'.wod.1.units = u ∧ c'.obj.vals = o.vals ∧ c'.wod.1.vals = o.vals ∧
    c'.obj.derivs = o.derivs := by
  have h0 : (⟨o, none⟩ : CObj).Coherent := by intro w hw; cases hw
  obtain ⟨_, hobj⟩ := CObj.touches_spec n ⟨o, none⟩ h0
  unfold CObj.setUnits at h
  rw [hobj] at h
  cases hs : o.setUnits u with
  | error e => simp [hs] at h
  | ok o' =>
    simp only [hs] at h
    injection h with h
    subst h
    obtain ⟨f1, f2, f3⟩ := set_units_frame o o' u hs
    have hc : (⟨o', none⟩ : CObj).Coherent := by intro w hw; cases hw
    obtain ⟨w1, _, _⟩ := CObj.wod_spec ⟨o', none⟩ hc
    refine ⟨f3, ?_, f1, ?_, f2⟩
    · rw [w1]; exact f3
    · rw [w1]; exact f1

theorem CObj.step_coherent (c c' : CObj) (h : HOp) (hc : c.Coherent) (hs : c.step h = .ok c') : c'.Coherent := by
  have fresh : ∀ o : Obj, (⟨o, none⟩ : CObj).Coherent := by intro o w hw; cases hw
  cases h with
  | touch => simp only [CObj.step] at hs; injection hs with hs; rw [← hs]; exact (CObj.wod_spec c hc).2.1
  | setUnits u =>
    simp only [CObj.step, CObj.setUnits] at hs
    cases ho : c.obj.setUnits u with
    | error e => simp [ho] at hs
    | ok o => simp only [ho] at hs; injection hs with hs; rw [← hs]; exact fresh o
  | without =>
    simp only [CObj.step, CObj.withoutUnits] at hs
    injection hs with hs; rw [← hs]
    split
    · exact hc
    · exact fresh _
  | into =>
    simp only [CObj.step, CObj.intoUnits] at hs
    injection hs with hs; rw [← hs]
    split
    · exact hc
    · split
      · exact hc
      · exact fresh _
  | «from» =>
    simp only [CObj.step, CObj.fromUnits] at hs
    injection hs with hs; rw [← hs]
    split
    · exact hc
    · split
      · exact hc
      · exact fresh _
  | clone => simp only [CObj.step, CObj.clone] at hs; injection hs with hs; rw [← hs]; exact fresh _

/-- histories of ANY length, mixing uses of the cached view, `set_units`, `without_units`, `into_units`,
    `from_units` and `clone()`: the object reached always hands out a `.wod` that carries the object's own
    current units and values — no step leaves a stale view behind -/
theorem history_wod_coherent : ∀ (hs : List HOp) (c c' : CObj), c.Coherent → CObj.run hs c = .ok c' →
    c'.Coherent ∧ c'.wod.1.units = c'.obj.units ∧ c'.wod.1.vals = c'.obj.vals
  | [], c, c', hc, h => by
    simp only [CObj.run] at h; injection h with h; subst h
    have := (CObj.wod_spec c hc).1
    exact ⟨hc, by rw [this], by rw [this]⟩
  | x :: xs, c, c', hc, h => by
    simp only [CObj.run] at h
    cases hx : c.step x with
    | error e => simp [hx] at h
    | ok c1 =>
      simp only [hx] at h
      exact history_wod_coherent xs c1 c' (CObj.step_coherent c c1 x hc hx) h

/-- the units of the object after each step are what the step says: `set_units u` → u, `without_units` → None,
    everything else leaves them alone -/
def stepUnits : HOp → Option U → Option U
  | .setUnits u, _ => u
  | .without, _ => none
  | _, cur => cur

theorem step_units (c c' : CObj) (h : HOp) (hs : c.step h = .ok c') :
    c'.obj.units = stepUnits h c.obj.units := by
  cases h with
  | touch =>
    simp only [CObj.step] at hs; injection hs with hs; rw [← hs]
    show c.wod.2.obj.units = c.obj.units
    unfold CObj.wod
    split
    · rfl
    · split <;> rfl
  | setUnits u =>
    simp only [CObj.step, CObj.setUnits] at hs
    cases ho : c.obj.setUnits u with
    | error e => simp [ho] at hs
    | ok o => simp only [ho] at hs; injection hs with hs; rw [← hs]; exact (set_units_frame _ _ _ ho).2.2
  | without =>
    simp only [CObj.step, CObj.withoutUnits] at hs; injection hs with hs; rw [← hs]
    split
    · rename_i hcond
      simp only [Bool.and_eq_true, Option.isNone_iff_eq_none] at hcond
      exact hcond.1
    · rfl
  | into =>
    simp only [CObj.step, CObj.intoUnits] at hs; injection hs with hs; rw [← hs]
    split
    · rfl
    · rename_i u hu
      split
      · rfl
      · simp [Obj.intoUnits, stepUnits, *]
  | «from» =>
    simp only [CObj.step, CObj.fromUnits] at hs; injection hs with hs; rw [← hs]
    split
    · rfl
    · rename_i u hu
      split
      · rfl
      · simp [Obj.fromUnits, stepUnits, *]
  | clone => simp only [CObj.step, CObj.clone] at hs; injection hs with hs; rw [← hs]; rfl

/-! #### the units rule of object operations -/

/-- the dimension bookkeeping the property asks for: exponents add, factors multiply, π exponents add -/
structure IsProduct (r a b : U) : Prop where
  wf : WF r
  e0 : r.e0 = a.e0 + b.e0
  e1 : r.e1 = a.e1 + b.e1
  e2 : r.e2 = a.e2 + b.e2
  v : val r = val a * val b
  p : r.piexp = a.piexp + b.piexp

structure IsQuotient (r a b : U) : Prop where
  wf : WF r
  e0 : r.e0 = a.e0 - b.e0
  e1 : r.e1 = a.e1 - b.e1
  e2 : r.e2 = a.e2 - b.e2
  v : val r = val a / val b
  p : r.piexp = a.piexp - b.piexp

structure IsPower (r a : U) (k : Int) : Prop where
  wf : WF r
  e0 : r.e0 = k * a.e0
  e1 : r.e1 = k * a.e1
  e2 : r.e2 = k * a.e2
  v : val r = val a ^ k
  p : r.piexp = k * a.piexp

theorem isProduct_mul {a b : U} (ha : WF a) (hb : WF b) : IsProduct (mul a b) a b :=
  ⟨ha.mul hb, by simp [mul], by simp [mul], by simp [mul], val_mul ha hb, by simp [mul]⟩

theorem isQuotient_div {a b : U} (ha : WF a) (hb : WF b) : IsQuotient (div a b) a b :=
  ⟨ha.div hb, by simp [div], by simp [div], by simp [div], val_div ha hb, by simp [div]⟩

theorem isPower_pow {a : U} (ha : WF a) (k : Int) : IsPower (pow a k) a k := by
  have h := exps_pow a k
  simp only [U.exps, Prod.mk.injEq] at h
  exact ⟨ha.pow k, h.1, h.2.1, h.2.2, val_pow ha k, piexp_pow a k⟩

/-- `unitsRule_dim` (products): `*`, dot, cross and outer products carry the product of the units;
    an operand without units is neutral -/
theorem unitsRule_dim_mul (op : OpSym) (hop : op = .mul ∨ op = .dot ∨ op = .cross ∨ op = .outer)
    {a b : U} (ha : WF a) (hb : WF b) :
    (∃ r, unitsRule op (some a) (some b) = .ok (.obj (some r)) ∧ IsProduct r a b) ∧
    unitsRule op (some a) none = .ok (.obj (some a)) ∧
    unitsRule op none (some b) = .ok (.obj (some b)) ∧
    unitsRule op none none = .ok (.obj none) := by
  rcases hop with h | h | h | h <;> subst h <;>
    exact ⟨⟨mul a b, rfl, isProduct_mul ha hb⟩, rfl, rfl, rfl⟩

/-- `unitsRule_dim` (quotients) -/
theorem unitsRule_dim_div {a b : U} (ha : WF a) (hb : WF b) :
    (∃ r, unitsRule .div (some a) (some b) = .ok (.obj (some r)) ∧ IsQuotient r a b) ∧
    unitsRule .div (some a) none = .ok (.obj (some a)) ∧
    (∃ r, unitsRule .div none (some b) = .ok (.obj (some r)) ∧ IsPower r b (-1)) ∧
    unitsRule .div none none = .ok (.obj none) :=
  ⟨⟨div a b, rfl, isQuotient_div ha hb⟩, rfl, ⟨pow b (-1), rfl, isPower_pow hb (-1)⟩, rfl⟩

/-- norm keeps the units, norm_sq squares them, reciprocal / matrix inverse inverts them -/
theorem unitsRule_dim_norm {a : U} (ha : WF a) (b : Option U) :
    unitsRule .norm (some a) b = .ok (.obj (some a)) ∧
    (∃ r, unitsRule .normSq (some a) b = .ok (.obj (some r)) ∧ IsProduct r a a) ∧
    (∃ r, unitsRule .recip (some a) b = .ok (.obj (some r)) ∧ IsPower r a (-1)) := by
  refine ⟨rfl, ⟨mul a a, rfl, isProduct_mul ha ha⟩, ⟨pow a (-1), ?_, isPower_pow ha (-1)⟩⟩
  simp [unitsRule, unitsPower, powR, ofSq]

/-- integer powers: whichever route `Scalar.__pow__` takes (shortcut table, rank-0 path, array path),
    a quantity with units comes back with the k-th power of its units (exponents scaled, factor raised) — except k = 0,
    where the result carries no units at all, and k = 1, where the operand's own units are kept -/
theorem unitsRule_dim_pow {a : U} (ha : WF a) (k : Int) (z : Bool) (b : Option U)
    (hk0 : k ≠ 0) (hk1 : k ≠ 1) :
    ∃ r, unitsRule (.pow (.half (2 * k)) z) (some a) b = .ok (.obj (some r)) ∧ IsPower r a k := by
  have hk : (2 * k) % 2 = 0 := by omega
  have hd : (2 * k) / 2 = k := by omega
  have hup : unitsPower (some a) (.half (2 * k)) = .ok (some (.exact (pow a k))) := by
    simp [unitsPower, powR, hk, hd]
  have hgen : ofSq (unitsPower (some a) (.half (2 * k))) = .ok (.obj (some (pow a k))) := by
    rw [hup]; rfl
  refine ⟨pow a k, ?_, isPower_pow ha k⟩
  simp only [unitsRule]
  unfold powRule
  split
  · rename_i h; have := Pw.half.inj h; omega
  · rename_i h; have := Pw.half.inj h; omega
  · rename_i h; rw [← h]; exact hgen
  · rename_i h; rw [← h]; exact hgen
  · rename_i h; rw [← h]; exact hgen
  · rename_i h; rw [← h]; exact hgen
  · rename_i h; have := Pw.half.inj h; omega
  · rename_i h; have := Pw.half.inj h; omega
  · simp only [hup]; rfl

/-- a power that is neither an integer nor a half-integer (repaired rule, the same for a single value and an
    array): a pure number may be raised to it and stays what it was; a quantity with any other dimension is
    rejected; absent units stay absent -/
theorem pow_other (a : U) (z : Bool) (b : Option U) :
    (isUnitless (some a) = true → unitsRule (.pow .other z) (some a) b = .ok (.obj (some a))) ∧
    (isUnitless (some a) = false → unitsRule (.pow .other z) (some a) b = .error .valueError) ∧
    unitsRule (.pow .other z) none b = .ok (.obj none) := by
  refine ⟨fun h => ?_, fun h => ?_, rfl⟩ <;> simp [unitsRule, powRule, unitsPower, powR, h]

/-- KNOWN FINDING KF-C12-1 (open): `Scalar.log` has no units test at all — the log of a distance is accepted and
    comes back as a plain number, whereas its inverse `exp` rejects anything but a pure number or an angle.
    FULL (not provable for the faithful model): log ∈ the functions of `angle_functions_reject`. -/
theorem log_accepts_any_units_counterexample :
    unitsRule .log (some ⟨1, 0, 0, 1, 1, 0⟩) none = .ok (.obj none) ∧
    unitsRule .exp (some ⟨1, 0, 0, 1, 1, 0⟩) none = .error .valueError := by decide

/-- the operations that need matching dimensions -/
def needsMatch : OpSym → Bool
  | .add | .sub | .lt | .le | .gt | .ge | .stack | .fromScalars | .arctan2 => true
  | _ => false

/-- `add_requires_match`: + − order comparisons, stacking (and arctan2) raise ValueError exactly when
    both operands have units and their exponents differ; an operand without units matches anything -/
theorem add_requires_match (op : OpSym) (hop : needsMatch op = true) :
    (∀ a b : U, unitsRule op (some a) (some b) = .error .valueError ↔ a.exps ≠ b.exps) ∧
    (∀ b : Option U, unitsRule op none b ≠ .error .valueError) ∧
    (∀ a : Option U, unitsRule op a none ≠ .error .valueError) := by
  cases op <;> simp only [needsMatch] at hop <;> try (exact absurd hop (by decide))
  all_goals
    refine ⟨fun a b => ?_, fun b => ?_, fun a => ?_⟩
    · by_cases he : a.exps = b.exps <;> simp [unitsRule, canMatch, he]
    · simp [unitsRule, canMatch]
    · cases a <;> simp [unitsRule, canMatch]

/-- never a TypeError, and on success the result carries the units of an operand (the left one first) -/
theorem add_result_units (op : OpSym) (hop : op = .add ∨ op = .sub ∨ op = .stack ∨ op = .fromScalars)
    (a b : Option U) (h : canMatch a b = true) : unitsRule op a b = .ok (.obj (orUnits a b)) := by
  rcases hop with h' | h' | h' | h' <;> subst h' <;> simp [unitsRule, h]

/-- `eq_incompatible_false`: `==` never raises; with incompatible units it answers False (and `!=` True)
    without looking at the values; otherwise the stored values are compared -/
theorem eq_incompatible_false (a b : U) :
    (unitsRule .eq (some a) (some b) = .ok (.const false) ↔ a.exps ≠ b.exps) ∧
    (unitsRule .ne (some a) (some b) = .ok (.const true) ↔ a.exps ≠ b.exps) ∧
    (a.exps = b.exps → unitsRule .eq (some a) (some b) = .ok .cmp ∧ unitsRule .ne (some a) (some b) = .ok .cmp) := by
  by_cases he : a.exps = b.exps <;> simp [unitsRule, canMatch, he]

theorem eq_none_compares (a : Option U) :
    unitsRule .eq a none = .ok .cmp ∧ unitsRule .eq none a = .ok .cmp ∧
    unitsRule .ne a none = .ok .cmp ∧ unitsRule .ne none a = .ok .cmp := by
  cases a <;> simp [unitsRule, canMatch]

def needsAngle : OpSym → Bool
  | .sin | .cos | .tan | .exp => true
  | _ => false

def needsPure : OpSym → Bool
  | .arcsin | .arccos | .arctan | .int | .frac => true
  | _ => false

/-- `angle_functions_reject`: sin cos tan exp accept only a pure number or an angle, arcsin arccos arctan
    int frac only a pure number; every other dimension is a ValueError; absent units are accepted;
    the result carries no units -/
theorem angle_functions_reject (op : OpSym) (a : U) (b : Option U) :
    (needsAngle op = true →
      (unitsRule op (some a) b = .error .valueError ↔ ¬ (a.exps = (0, 0, 0) ∨ a.exps = (0, 0, 1))) ∧
      ((a.exps = (0, 0, 0) ∨ a.exps = (0, 0, 1)) → unitsRule op (some a) b = .ok (.obj none)) ∧
      unitsRule op none b = .ok (.obj none)) ∧
    (needsPure op = true →
      (unitsRule op (some a) b = .error .valueError ↔ a.exps ≠ (0, 0, 0)) ∧
      (a.exps = (0, 0, 0) → unitsRule op (some a) b = .ok (.obj none)) ∧
      unitsRule op none b = .ok (.obj none)) := by
  constructor
  · intro h
    cases op <;> simp only [needsAngle] at h <;> try (exact absurd h (by decide))
    all_goals
      by_cases h0 : a.exps = (0, 0, 0) <;> by_cases h1 : a.exps = (0, 0, 1) <;>
        simp [unitsRule, isAngle, h0, h1]
  · intro h
    cases op <;> simp only [needsPure] at h <;> try (exact absurd h (by decide))
    all_goals
      by_cases h0 : a.exps = (0, 0, 0) <;> simp [unitsRule, isUnitless, h0]

/-! #### the static helpers never touch an operand (repaired defect 13) and respect the algebra -/

theorem mulUnits_none (a : Option U) : mulUnits a none = a ∧ mulUnits none a = a := by
  cases a <;> exact ⟨rfl, rfl⟩

theorem mulUnits_comm (a b : Option U) : mulUnits a b = mulUnits b a := by
  cases a <;> cases b <;> simp [mulUnits, mul_comm]

theorem divUnits_mulUnits_cancel {a b : U} (ha : WF a) (hb : WF b) :
    divUnits (mulUnits (some a) (some b)) (some b) = some a := by
  simp [mulUnits, divUnits, mul_div_cancel ha hb]

theorem divUnits_none_left {b : U} (hb : WF b) :
    ∃ r, divUnits none (some b) = some r ∧ IsPower r b (-1) := ⟨pow b (-1), rfl, isPower_pow hb (-1)⟩

/-! #### soundness of an exact square root -/

/-- whenever `sqrt` answers with an exact value, that value is well-formed and squares back to the
    operand; and an exact answer is given whenever one exists (`sqrt_mul_self`) -/
theorem sqrt_sound {a r : U} (ha : WF a) (h : sqrt a = .ok (.exact r)) : WF r ∧ mul r r = a := by
  unfold sqrt at h
  dsimp only at h
  split at h
  · cases h
  · rename_i hodd
    split at h
    · rename_i hc
      injection h with h; injection h with h
      simp only [Bool.and_eq_true, beq_iff_eq] at hc
      obtain ⟨⟨hn, hd⟩, hp⟩ := hc
      simp only [Bool.or_eq_true, bne_iff_ne, ne_eq, not_or, Decidable.not_not] at hodd
      obtain ⟨⟨o0, o1⟩, o2⟩ := hodd
      have hrn : 0 < Nat.sqrt a.numer := by
        rcases Nat.eq_zero_or_pos (Nat.sqrt a.numer) with h0 | h0
        · rw [h0] at hn; have := ha.npos; omega
        · exact h0
      have hrd : 0 < Nat.sqrt a.denom := by
        rcases Nat.eq_zero_or_pos (Nat.sqrt a.denom) with h0 | h0
        · rw [h0] at hd; have := ha.dpos; omega
        · exact h0
      have hwf : WF r := by rw [← h]; exact WF.mkP _ _ _ _ _ _ hrn hrd
      refine ⟨hwf, ?_⟩
      apply WF.ext (hwf.mul hwf) ha
      · rw [← h]; simp only [U.exps, mul, e0_mk, e1_mk, e2_mk, Prod.mk.injEq]
        refine ⟨?_, ?_, ?_⟩ <;> omega
      · rw [← h]; simp only [mul, piexp_mk]; omega
      · rw [val_mul hwf hwf, ← h, val_mk _ _ _ _ _ _ hrn hrd]
        have e1 : (a.numer : ℚ) = (Nat.sqrt a.numer : ℚ) * (Nat.sqrt a.numer : ℚ) := by exact_mod_cast hn.symm
        have e2 : (a.denom : ℚ) = (Nat.sqrt a.denom : ℚ) * (Nat.sqrt a.denom : ℚ) := by exact_mod_cast hd.symm
        simp only [val]
        rw [e1, e2, mul_div_mul_comm]
    · cases h

/-- `unitsRule_dim` (square roots): whenever `Scalar.sqrt` answers with exact units r, then r·r are the
    operand's units (exponents halve, factor and π exponent are exact roots); odd exponents are rejected -/
theorem unitsRule_dim_sqrt {a r : U} (ha : WF a) (b : Option U)
    (h : unitsRule .sqrt (some a) b = .ok (.obj (some r))) : IsProduct a r r := by
  have hs : sqrt a = .ok (.exact r) := by
    simp only [unitsRule, sqrtUnits] at h
    cases hq : sqrt a with
    | error e => rw [hq] at h; simp [ofSq] at h
    | ok q =>
      rw [hq] at h
      cases q with
      | inexact => simp [ofSq] at h
      | exact r' => simp only [ofSq] at h; injection h with h; injection h with h; injection h with h; rw [h]
  obtain ⟨hr, hm⟩ := sqrt_sound ha hs
  have hp := isProduct_mul hr hr
  rw [hm] at hp
  exact hp

/-- odd exponents are rejected -/
theorem sqrt_rejects_odd (a : U) (h : a.e0 % 2 ≠ 0 ∨ a.e1 % 2 ≠ 0 ∨ a.e2 % 2 ≠ 0) :
    sqrt a = .error .valueError := by
  unfold sqrt
  have : (a.e0 % 2 != 0 || a.e1 % 2 != 0 || a.e2 % 2 != 0) = true := by
    simp only [Bool.or_eq_true, bne_iff_ne, ne_eq]
    rcases h with h | h | h
    · exact Or.inl (Or.inl h)
    · exact Or.inl (Or.inr h)
    · exact Or.inr h
  rw [if_pos this]

/-! #### n-ary combiners (from_scalars of every class, stack): all units that are present must be compatible -/

/-- the units that are present, in order -/
def present (us : List (Option U)) : List U := us.filterMap id

/-- the specification: no units if none is present; otherwise the first one present, provided every other one
    present has the same exponents — wherever the components without units sit -/
def narySpec (us : List (Option U)) : Except Rej (Option U) :=
  match present us with
  | [] => .ok none
  | r :: rest => if rest.all (fun a => a.exps == r.exps) then .ok (some r) else .error .valueError

theorem fromScalarsGo_some (r : U) : ∀ us : List (Option U),
    fromScalarsGo (some r) us =
      if (present us).all (fun a => a.exps == r.exps) then .ok (some r) else .error .valueError
  | [] => by simp [fromScalarsGo, present]
  | none :: us => by
    have ih := fromScalarsGo_some r us
    simp only [fromScalarsGo, orUnits, canMatch, if_true, ih, present, List.filterMap_cons, id]
  | some a :: us => by
    have ih := fromScalarsGo_some r us
    simp only [fromScalarsGo, orUnits, canMatch, present, List.filterMap_cons, id, List.all_cons]
    by_cases h : a.exps = r.exps
    · have h' : (r.exps == a.exps) = true := by simp [h]
      have h'' : (a.exps == r.exps) = true := by simp [h]
      simp only [h', h'', if_true, Bool.true_and]
      exact ih
    · have h' : (r.exps == a.exps) = false := by simpa using fun e => h e.symm
      have h'' : (a.exps == r.exps) = false := by simpa using h
      simp [h', h'']

theorem fromScalarsGo_none : ∀ us : List (Option U), fromScalarsGo none us = narySpec us
  | [] => rfl
  | none :: us => by
    have ih := fromScalarsGo_none us
    simp only [fromScalarsGo, orUnits, canMatch, if_true, ih, narySpec, present, List.filterMap_cons, id]
  | some a :: us => by
    simp only [fromScalarsGo, orUnits, canMatch, beq_self_eq_true, if_true, fromScalarsGo_some a us, narySpec, present,
      List.filterMap_cons, id]

/-- `from_scalars` with any number of components: the running-units loop computes the specification -/
theorem fromScalarsN_spec (us : List (Option U)) : fromScalarsN us = narySpec us := fromScalarsGo_none us

theorem stackGo_some (r : U) : ∀ us : List (Option U),
    stackGo (some r) us =
      if (present us).all (fun a => a.exps == r.exps) then .ok (some r) else .error .valueError
  | [] => by simp [stackGo, present]
  | none :: us => by
    have ih := stackGo_some r us
    simp only [stackGo, ih, present, List.filterMap_cons, id]
  | some a :: us => by
    have ih := stackGo_some r us
    simp only [stackGo, canMatch, present, List.filterMap_cons, id, List.all_cons]
    by_cases h : a.exps = r.exps
    · have h'' : (a.exps == r.exps) = true := by simp [h]
      simp only [h'', if_true, Bool.true_and]
      exact ih
    · have h'' : (a.exps == r.exps) = false := by simpa using h
      simp [h'']

theorem stackGo_none : ∀ us : List (Option U), stackGo none us = narySpec us
  | [] => rfl
  | none :: us => by
    have ih := stackGo_none us
    simp only [stackGo, ih, narySpec, present, List.filterMap_cons, id]
  | some a :: us => by
    simp only [stackGo, stackGo_some a us, narySpec, present, List.filterMap_cons, id]

/-- `stack` with any number of operands computes the same specification -/
theorem stackN_spec (us : List (Option U)) : stackN us = narySpec us := stackGo_none us

/-- `nary_requires_match`: an n-ary combiner raises ValueError exactly when two of the units that are present have
    different exponents — whichever pair it is (first/later, later/later) and wherever the components without
    units sit (first, middle, last); otherwise the result carries the first units present (none if there are none) -/
theorem nary_requires_match (us : List (Option U)) :
    (narySpec us = .error .valueError ↔ ∃ a ∈ present us, ∃ b ∈ present us, a.exps ≠ b.exps) ∧
    ((∀ a ∈ present us, ∀ b ∈ present us, a.exps = b.exps) → narySpec us = .ok (present us).head?) := by
  unfold narySpec
  cases hp : present us with
  | nil => simp
  | cons r rest =>
    simp only [List.head?_cons]
    constructor
    · constructor
      · intro h
        by_cases hall : rest.all (fun a => a.exps == r.exps) = true
        · simp [hall] at h
        · simp only [List.all_eq_true, beq_iff_eq, not_forall] at hall
          obtain ⟨b, hb, hne⟩ := hall
          exact ⟨b, List.mem_cons_of_mem _ hb, r, List.mem_cons_self, hne⟩
      · rintro ⟨a, ha, b, hb, hne⟩
        have hall : ¬ rest.all (fun a => a.exps == r.exps) = true := by
          intro hall
          simp only [List.all_eq_true, beq_iff_eq] at hall
          have ea : a.exps = r.exps := by
            rcases List.mem_cons.mp ha with rfl | h
            · rfl
            · exact hall a h
          have eb : b.exps = r.exps := by
            rcases List.mem_cons.mp hb with rfl | h
            · rfl
            · exact hall b h
          exact hne (ea.trans eb.symm)
        simp [hall]
    · intro h
      have hall : rest.all (fun a => a.exps == r.exps) = true := by
        simp only [List.all_eq_true, beq_iff_eq]
        intro a ha
        exact h a (List.mem_cons_of_mem _ ha) r List.mem_cons_self
      simp [hall]

/-- components without units are immaterial at every position -/
theorem nary_none_irrelevant (us vs : List (Option U)) :
    narySpec (us ++ none :: vs) = narySpec (us ++ vs) := by
  simp [narySpec, present, List.filterMap_append]

example : fromScalarsN [none, some ⟨1, 0, 0, 1, 1, 0⟩, some ⟨0, 1, 0, 1, 1, 0⟩] = .error .valueError := by decide
example : stackN [none, some ⟨1, 0, 0, 1, 1, 0⟩, none, some ⟨1, 0, 0, 1, 1000, 0⟩] = .ok (some ⟨1, 0, 0, 1, 1, 0⟩) := by decide

/-! #### units of the derivatives of results: result units / denominator units -/

theorem e0_pow (a : U) (p : Int) : (pow a p).e0 = p * a.e0 := by
  have h := exps_pow a p; simp only [U.exps, Prod.mk.injEq] at h; exact h.1
theorem e1_pow (a : U) (p : Int) : (pow a p).e1 = p * a.e1 := by
  have h := exps_pow a p; simp only [U.exps, Prod.mk.injEq] at h; exact h.2.1
theorem e2_pow (a : U) (p : Int) : (pow a p).e2 = p * a.e2 := by
  have h := exps_pow a p; simp only [U.exps, Prod.mk.injEq] at h; exact h.2.2

theorem canMatch_self (x : U) : canMatch (some x) (some x) = true := by simp [canMatch]

theorem addTerm_same (x : U) : addTerm (some (some x)) (some x) = .ok (.units (some x)) := by
  simp [addTerm, addU, canMatch_self, orUnits]

/-- dx·y with dx in a/T is in (a·b)/T -/
theorem dmul_left {a b T : U} (ha : WF a) (hb : WF b) (hT : WF T) : mul (div a T) b = div (mul a b) T := by
  apply WF.ext ((ha.div hT).mul hb) ((ha.mul hb).div hT)
  · simp only [U.exps, mul, div, e0_mk, e1_mk, e2_mk, Prod.mk.injEq]; refine ⟨?_, ?_, ?_⟩ <;> omega
  · simp only [mul, div, piexp_mk]; omega
  · rw [val_mul (ha.div hT) hb, val_div ha hT, val_div (ha.mul hb) hT, val_mul ha hb]
    have := val_ne_zero hT; field_simp

/-- x·dy with dy in b/T is in (a·b)/T -/
theorem dmul_right {a b T : U} (ha : WF a) (hb : WF b) (hT : WF T) : mul a (div b T) = div (mul a b) T := by
  apply WF.ext (ha.mul (hb.div hT)) ((ha.mul hb).div hT)
  · simp only [U.exps, mul, div, e0_mk, e1_mk, e2_mk, Prod.mk.injEq]; refine ⟨?_, ?_, ?_⟩ <;> omega
  · simp only [mul, div, piexp_mk]; omega
  · rw [val_mul ha (hb.div hT), val_div hb hT, val_div (ha.mul hb) hT, val_mul ha hb]
    have := val_ne_zero hT; field_simp

/-- `deriv_units_mul`: for × (and dot, cross, outer, element_mul), with dx/dT in a/T and dy/dT in b/T, the
    derivative of the result is in (a·b)/T — whichever of the two operands carry the derivative -/
theorem deriv_units_mul {a b T : U} (ha : WF a) (hb : WF b) (hT : WF T) :
    derivRule .mulLike (some a) (some b) (some (some (div a T))) (some (some (div b T)))
      = .ok (.units (some (div (mul a b) T))) ∧
    derivRule .mulLike (some a) (some b) (some (some (div a T))) none = .ok (.units (some (div (mul a b) T))) ∧
    derivRule .mulLike (some a) (some b) none (some (some (div b T))) = .ok (.units (some (div (mul a b) T))) ∧
    derivRule .mulLike (some a) none (some (some (div a T))) none = .ok (.units (some (div a T))) := by
  refine ⟨?_, ?_, ?_, ?_⟩
  · simp only [derivRule, derivMul, Option.map_some, mulUnits, dmul_left ha hb hT, dmul_right ha hb hT, addTerm_same]
  · simp only [derivRule, derivMul, Option.map_some, mulUnits, dmul_left ha hb hT]
  · simp only [derivRule, derivMul, Option.map_none, mulUnits, dmul_right ha hb hT, addTerm]
  · simp only [derivRule, derivMul, Option.map_some, mulUnits]

theorem ddiv_left {a b T : U} (ha : WF a) (hb : WF b) (hT : WF T) :
    mul (div a T) (pow b (-1)) = div (div a b) T := by
  apply WF.ext ((ha.div hT).mul (hb.pow _)) ((ha.div hb).div hT)
  · simp only [U.exps, mul, div, e0_mk, e1_mk, e2_mk, e0_pow, e1_pow, e2_pow, Prod.mk.injEq]
    refine ⟨?_, ?_, ?_⟩ <;> omega
  · simp only [mul, div, piexp_mk, piexp_pow]; omega
  · rw [val_mul (ha.div hT) (hb.pow _), val_div ha hT, val_pow hb, val_div (ha.div hb) hT, val_div ha hb]
    have := val_ne_zero hT; have := val_ne_zero hb
    rw [zpow_neg, zpow_one]; field_simp

theorem ddiv_right {a b T : U} (ha : WF a) (hb : WF b) (hT : WF T) :
    mul a (mul (mul (div b T) (pow b (-1))) (pow b (-1))) = div (div a b) T := by
  have h1 := (hb.div hT).mul (hb.pow (-1))
  have h2 := h1.mul (hb.pow (-1))
  apply WF.ext (ha.mul h2) ((ha.div hb).div hT)
  · simp only [U.exps, mul, div, e0_mk, e1_mk, e2_mk, e0_pow, e1_pow, e2_pow, Prod.mk.injEq]
    refine ⟨?_, ?_, ?_⟩ <;> omega
  · simp only [mul, div, piexp_mk, piexp_pow]; omega
  · rw [val_mul ha h2, val_mul h1 (hb.pow _), val_mul (hb.div hT) (hb.pow _), val_div hb hT, val_pow hb,
      val_div (ha.div hb) hT, val_div ha hb]
    have := val_ne_zero hT; have := val_ne_zero hb
    rw [zpow_neg, zpow_one]; field_simp

/-- `deriv_units_div`: for ÷ (qube `_div_derivs`), the derivative of the result is in (a/b)/T -/
theorem deriv_units_div {a b T : U} (ha : WF a) (hb : WF b) (hT : WF T) :
    derivRule .div (some a) (some b) (some (some (div a T))) (some (some (div b T)))
      = .ok (.units (some (div (div a b) T))) ∧
    derivRule .div (some a) (some b) (some (some (div a T))) none = .ok (.units (some (div (div a b) T))) ∧
    derivRule .div (some a) (some b) none (some (some (div b T))) = .ok (.units (some (div (div a b) T))) := by
  refine ⟨?_, ?_, ?_⟩
  · simp only [derivRule, derivDiv, recipU, Option.map_some, mulUnits, ddiv_left ha hb hT, ddiv_right ha hb hT,
      addTerm_same]
  · simp only [derivRule, derivDiv, recipU, Option.map_some, mulUnits, ddiv_left ha hb hT]
  · simp only [derivRule, derivDiv, recipU, Option.map_none, mulUnits, ddiv_right ha hb hT, addTerm]

theorem delem_right {a b T : U} (ha : WF a) (hb : WF b) (hT : WF T) :
    mul (div b T) (mul a (pow b (-2))) = div (div a b) T := by
  have h1 := ha.mul (hb.pow (-2))
  apply WF.ext ((hb.div hT).mul h1) ((ha.div hb).div hT)
  · simp only [U.exps, mul, div, e0_mk, e1_mk, e2_mk, e0_pow, e1_pow, e2_pow, Prod.mk.injEq]
    refine ⟨?_, ?_, ?_⟩ <;> omega
  · simp only [mul, div, piexp_mk, piexp_pow]; omega
  · rw [val_mul (hb.div hT) h1, val_mul ha (hb.pow _), val_div hb hT, val_pow hb, val_div (ha.div hb) hT, val_div ha hb]
    have := val_ne_zero hT; have := val_ne_zero hb
    rw [show (-2 : ℤ) = -(2 : ℕ) by norm_num, zpow_neg, zpow_natCast]; field_simp

/-- `deriv_units_elem_div`: `Vector.element_div` (repaired form, factor y⁻² in units y⁻²) -/
theorem deriv_units_elem_div {a b T : U} (ha : WF a) (hb : WF b) (hT : WF T) :
    derivRule .elemDiv (some a) (some b) (some (some (div a T))) (some (some (div b T)))
      = .ok (.units (some (div (div a b) T))) := by
  simp only [derivRule, derivElemDiv, recipU, Option.map_some, mulUnits, ddiv_left ha hb hT, delem_right ha hb hT,
    addTerm_same]

theorem dsqrt_core {a r T : U} (ha : WF a) (hr : WF r) (hT : WF T) (hm : mul r r = a) :
    mul (pow r (-1)) (div a T) = div r T := by
  have e0 : a.e0 = r.e0 + r.e0 := by rw [← hm]; simp [mul]
  have e1 : a.e1 = r.e1 + r.e1 := by rw [← hm]; simp [mul]
  have e2 : a.e2 = r.e2 + r.e2 := by rw [← hm]; simp [mul]
  have ep : a.piexp = r.piexp + r.piexp := by rw [← hm]; simp [mul]
  have ev : val a = val r * val r := by rw [← hm]; exact val_mul hr hr
  apply WF.ext ((hr.pow _).mul (ha.div hT)) (hr.div hT)
  · simp only [U.exps, mul, div, e0_mk, e1_mk, e2_mk, e0_pow, e1_pow, e2_pow, Prod.mk.injEq, e0, e1, e2]
    refine ⟨?_, ?_, ?_⟩ <;> omega
  · simp only [mul, div, piexp_mk, piexp_pow, ep]; omega
  · rw [val_mul (hr.pow _) (ha.div hT), val_pow hr, val_div ha hT, val_div hr hT, ev]
    have := val_ne_zero hT; have := val_ne_zero hr
    rw [zpow_neg, zpow_one]; field_simp

/-- `deriv_units_sqrt`: whenever the square root is exact (units r with r·r = a), the derivative of
    sqrt(x) is in r/T -/
theorem deriv_units_sqrt {a r T : U} (ha : WF a) (hT : WF T) (hs : sqrt a = .ok (.exact r)) :
    derivRule .sqrt (some a) none (some (some (div a T))) none = .ok (.units (some (div r T))) := by
  obtain ⟨hr, hm⟩ := sqrt_sound ha hs
  simp only [derivRule, derivSqrt, sqrtUnits, hs, ofSq, timesFactor, outUnits, recipU, mulUnits, dsqrt_core ha hr hT hm]

theorem dpow_core {a T : U} (ha : WF a) (hT : WF T) (k : Int) :
    mul (pow a (k - 1)) (div a T) = div (pow a k) T := by
  apply WF.ext ((ha.pow _).mul (ha.div hT)) ((ha.pow k).div hT)
  · simp only [U.exps, mul, div, e0_mk, e1_mk, e2_mk, e0_pow, e1_pow, e2_pow, Prod.mk.injEq]
    refine ⟨?_, ?_, ?_⟩ <;> ring
  · simp only [mul, div, piexp_mk, piexp_pow]; ring
  · rw [val_mul (ha.pow _) (ha.div hT), val_pow ha, val_div ha hT, val_div (ha.pow k) hT, val_pow ha]
    have h0 := val_ne_zero ha; have := val_ne_zero hT
    rw [zpow_sub_one₀ h0]; field_simp

/-- `deriv_units_recip`: d(1/x) is in a⁻¹/T; norm and norm_sq likewise carry result units / T -/
theorem deriv_units_recip_norm {a T : U} (ha : WF a) (hT : WF T) :
    derivRule .recip (some a) none (some (some (div a T))) none = .ok (.units (some (div (pow a (-1)) T))) ∧
    derivRule .normSq (some a) none (some (some (div a T))) none = .ok (.units (some (div (mul a a) T))) ∧
    derivRule .norm (some a) none (some (some (div a T))) none = .ok (.units (some (div a T))) := by
  refine ⟨?_, ?_, ?_⟩
  · have h : mul (mul (pow a (-1)) (pow a (-1))) (div a T) = div (pow a (-1)) T := by
      have e : mul (pow a (-1)) (pow a (-1)) = pow a (-1 - 1) := by
        rw [show (-1 - 1 : ℤ) = -1 + -1 by norm_num, pow_add ha]
      rw [e, dpow_core ha hT (-1)]
    simp only [derivRule, derivRecip, timesFactor, outUnits, recipU, mulUnits, h]
  · simp only [derivRule, timesFactor, outUnits, mulUnits, dmul_right ha ha hT]
  · have h : mul (div a a) (div a T) = div a T := by
      rw [div_self_eq ha]
      apply WF.ext (WF.unitless.mul (ha.div hT)) (ha.div hT)
      · simp only [U.exps, mul, div, unitless, e0_mk, e1_mk, e2_mk, Int.zero_add]
      · simp only [mul, div, unitless, piexp_mk, Int.zero_add]
      · rw [val_mul WF.unitless (ha.div hT)]; simp [val, unitless]
    simp only [derivRule, timesFactor, outUnits, divUnits, mulUnits, h]

/-- `deriv_units_pow`: x**2, x**3, x**4 (the shortcut table): the derivative is in a^k/T -/
theorem deriv_units_pow_small {a T : U} (ha : WF a) (hT : WF T) (z : Bool) :
    derivRule (.pow (.half 4) z) (some a) none (some (some (div a T))) none = .ok (.units (some (div (pow a 2) T))) ∧
    derivRule (.pow (.half 6) z) (some a) none (some (some (div a T))) none = .ok (.units (some (div (pow a 3) T))) ∧
    derivRule (.pow (.half 8) z) (some a) none (some (some (div a T))) none = .ok (.units (some (div (pow a 4) T))) := by
  have h2 := dpow_core ha hT 2
  have h3 := dpow_core ha hT 3
  have h4 := dpow_core ha hT 4
  rw [show (2 - 1 : ℤ) = 1 by norm_num, pow_one ha] at h2
  rw [show (3 - 1 : ℤ) = 2 by norm_num] at h3
  rw [show (4 - 1 : ℤ) = 3 by norm_num] at h4
  have p4 : (4 : ℤ) / 2 = 2 := by decide
  have p6 : (6 : ℤ) / 2 = 3 := by decide
  refine ⟨?_, ?_, ?_⟩
  · simp [derivRule, derivPow, powRule, unitsPower, powR, ofSq, timesFactor, outUnits, mulUnits, h2]
  · simp [derivRule, derivPow, powRule, unitsPower, powR, ofSq, timesFactor, outUnits, mulUnits, h3, p4]
  · simp [derivRule, derivPow, powRule, unitsPower, powR, ofSq, timesFactor, outUnits, mulUnits, h4, p6]

/-- `deriv_units_pow` (generic route `expo · x**(expo−1) · dx`): every integer power k outside the shortcut table,
    rank-0 or array route alike: the derivative is in a^k/T -/
theorem deriv_units_pow_generic {a T : U} (ha : WF a) (hT : WF T) (k : Int) (z : Bool)
    (hk : k ≠ 0 ∧ k ≠ 1 ∧ k ≠ 2 ∧ k ≠ 3 ∧ k ≠ 4 ∧ k ≠ -1) :
    derivRule (.pow (.half (2 * k)) z) (some a) none (some (some (div a T))) none
      = .ok (.units (some (div (pow a k) T))) := by
  obtain ⟨r, hr, _⟩ := unitsRule_dim_pow ha k z none hk.1 hk.2.1
  obtain ⟨r', hr', hp'⟩ := unitsRule_dim_pow ha (k - 1) z none (by omega) (by omega)
  simp only [unitsRule] at hr hr'
  have e2 : 2 * k - 2 = 2 * (k - 1) := by ring
  -- the factor's units are a^(k-1), exactly
  have hfac : r' = pow a (k - 1) := by
    have hk2 : (2 * (k - 1)) % 2 = 0 := by omega
    have hd : (2 * (k - 1)) / 2 = k - 1 := by omega
    have hup : unitsPower (some a) (.half (2 * (k - 1))) = .ok (some (.exact (pow a (k - 1)))) := by
      simp [unitsPower, powR, hk2, hd]
    have hgen : ofSq (unitsPower (some a) (.half (2 * (k - 1)))) = .ok (.obj (some (pow a (k - 1)))) := by
      rw [hup]; rfl
    have : powRule (.half (2 * (k - 1))) z (some a) = .ok (.obj (some (pow a (k - 1)))) := by
      unfold powRule
      split
      · rename_i h; have := Pw.half.inj h; omega
      · rename_i h; have := Pw.half.inj h; omega
      · rename_i h; rw [← h]; exact hgen
      · rename_i h; rw [← h]; exact hgen
      · rename_i h; rw [← h]; exact hgen
      · rename_i h; rw [← h]; exact hgen
      · rename_i h; have := Pw.half.inj h; omega
      · rename_i h; have := Pw.half.inj h; omega
      · simp only [hup]; rfl
    rw [this] at hr'
    injection hr' with hr'; injection hr' with hr'; injection hr' with hr'
    exact hr'.symm
  simp only [derivRule, derivPow, hr]
  split
  · rename_i h; have := Pw.half.inj h; omega
  · rename_i h; have := Pw.half.inj h; omega
  · rename_i h; have := Pw.half.inj h; omega
  · rename_i h; have := Pw.half.inj h; omega
  · rename_i h; have := Pw.half.inj h; omega
  · rename_i h; have := Pw.half.inj h; omega
  · rename_i h; have := Pw.half.inj h; omega
  · rename_i h; have := Pw.half.inj h; omega
  · rename_i h; cases h
  · rename_i k2 _ _ _ _ _ _ _ _ h
    have hk2 : k2 = 2 * k := (Pw.half.inj h).symm
    subst hk2
    rw [e2, hr', hfac]
    simp only [timesFactor, outUnits, mulUnits, dpow_core ha hT k]

/-! #### the name algebra on dictionaries (units.py:452-520, repaired `pop`) -/

/-- the exponent a name gives to a unit name (absent = 0) -/
def den (d : NameDict) (k : String) : Int := (ndGet d k).getD 0

theorem ndGet_cons (k0 : String) (e0 : Int) (d : NameDict) (k : String) :
    ndGet ((k0, e0) :: d) k = if k0 = k then some e0 else ndGet d k := by
  by_cases h : k0 = k
  · simp [ndGet, h]
  · have hb : (k0 == k) = false := by simpa using h
    simp [ndGet, h, hb]

theorem den_cons (k0 : String) (e0 : Int) (d : NameDict) (k : String) :
    den ((k0, e0) :: d) k = if k0 = k then e0 else den d k := by
  by_cases h : k0 = k <;> simp [den, ndGet_cons, h]

theorem den_nil (k : String) : den [] k = 0 := rfl

theorem den_pop (d : NameDict) (k k' : String) :
    den (ndPop d k) k' = if k' = k then 0 else den d k' := by
  induction d with
  | nil => simp [ndPop, den_nil]
  | cons x xs ih =>
    obtain ⟨k0, e0⟩ := x
    by_cases h0 : k0 = k
    · subst h0
      have : ndPop ((k0, e0) :: xs) k0 = ndPop xs k0 := by simp [ndPop]
      rw [this, ih, den_cons]
      by_cases h1 : k' = k0
      · simp [h1]
      · have : ¬ k0 = k' := fun h => h1 h.symm
        simp [h1, this]
    · have : ndPop ((k0, e0) :: xs) k = (k0, e0) :: ndPop xs k := by simp [ndPop, h0]
      rw [this, den_cons, den_cons, ih]
      by_cases h1 : k0 = k'
      · subst h1; simp [h0]
      · simp [h1]
theorem den_eq_zero_of_none {d : NameDict} {k : String} (h : ndGet d k = none) : den d k = 0 := by
  simp [den, h]

theorem den_map_set (d : NameDict) (k : String) (v : Int) (k' : String) :
    den (d.map (fun kv => if kv.1 == k then (k, v) else kv)) k' =
      if k' = k then (if (ndGet d k).isSome then v else 0) else den d k' := by
  induction d with
  | nil => by_cases h : k' = k <;> simp [den_nil, ndGet, h]
  | cons x xs ih =>
    obtain ⟨k0, e0⟩ := x
    by_cases h0 : k0 = k
    · subst h0
      simp only [List.map_cons, beq_self_eq_true, if_true]
      rw [den_cons, ndGet_cons]
      by_cases h1 : k0 = k'
      · subst h1; simp
      · have : ¬ k' = k0 := fun h => h1 h.symm
        rw [if_neg h1, ih, if_neg this, if_neg this, den_cons, if_neg h1]
    · have hb : (k0 == k) = false := by simpa using h0
      simp only [List.map_cons, hb, Bool.false_eq_true, if_false]
      rw [den_cons, ih, den_cons, ndGet_cons, if_neg h0]
      by_cases h1 : k0 = k'
      · subst h1; simp [h0]
      · simp [h1]

theorem den_append_one (d : NameDict) (k : String) (v : Int) (k' : String) :
    den (d ++ [(k, v)]) k' = if (ndGet d k').isSome then den d k' else if k' = k then v else 0 := by
  induction d with
  | nil =>
    simp only [List.nil_append]
    rw [den_cons]
    by_cases h : k = k'
    · subst h; simp [ndGet]
    · have : ¬ k' = k := fun e => h e.symm
      simp [ndGet, h, this, den_nil]
  | cons x xs ih =>
    obtain ⟨k0, e0⟩ := x
    simp only [List.cons_append]
    rw [den_cons, ndGet_cons, den_cons]
    by_cases h1 : k0 = k'
    · subst h1; simp
    · simp only [if_neg h1]; exact ih

theorem den_set (d : NameDict) (k : String) (v : Int) (k' : String) :
    den (ndSet d k v) k' = if k' = k then v else den d k' := by
  unfold ndSet
  by_cases hs : (ndGet d k).isSome = true
  · rw [if_pos hs, den_map_set, hs]; simp
  · rw [if_neg hs, den_append_one]
    have hn : ndGet d k = none := by simpa using hs
    by_cases h : k' = k
    · subst h; simp [hn]
    · by_cases h2 : (ndGet d k').isSome = true
      · simp [h, h2]
      · have : ndGet d k' = none := by simpa using h2
        simp [h, this, den_eq_zero_of_none this]

theorem den_mulStep (acc : NameDict) (kv : String × Int) (k : String) :
    den (mulStep acc kv) k = if k = kv.1 then den acc k + kv.2 else den acc k := by
  obtain ⟨k0, e0⟩ := kv
  unfold mulStep
  cases hg : ndGet acc k0 with
  | none =>
    have hz := den_eq_zero_of_none hg
    simp only
    by_cases he : (e0 == 0) = true
    · have : e0 = 0 := by simpa using he
      rw [if_pos he, den_pop]
      by_cases h : k = k0
      · subst h; simp [this, hz]
      · simp [h]
    · rw [if_neg he, den_set]
      by_cases h : k = k0
      · subst h; simp [hz]
      · simp [h]
  | some x =>
    have hx : den acc k0 = x := by simp [den, hg]
    simp only
    by_cases he : (e0 + x == 0) = true
    · have : e0 + x = 0 := by simpa using he
      rw [if_pos he, den_pop]
      by_cases h : k = k0
      · subst h; simp [hx]; omega
      · simp [h]
    · rw [if_neg he, den_set]
      by_cases h : k = k0
      · subst h; simp [hx]; omega
      · simp [h]

theorem den_divStep (acc : NameDict) (kv : String × Int) (k : String) :
    den (divStep acc kv) k = if k = kv.1 then den acc k - kv.2 else den acc k := by
  obtain ⟨k0, e0⟩ := kv
  unfold divStep
  cases hg : ndGet acc k0 with
  | none =>
    have hz := den_eq_zero_of_none hg
    simp only
    by_cases he : (e0 == 0) = true
    · have : e0 = 0 := by simpa using he
      rw [if_pos he, den_pop]
      by_cases h : k = k0
      · subst h; simp [this, hz]
      · simp [h]
    · rw [if_neg he, den_set]
      by_cases h : k = k0
      · subst h; simp [hz]
      · simp [h]
  | some x =>
    have hx : den acc k0 = x := by simp [den, hg]
    simp only
    by_cases he : (e0 - x == 0) = true
    · have : e0 - x = 0 := by simpa using he
      rw [if_pos he, den_pop]
      by_cases h : k = k0
      · subst h; simp [hx]; omega
      · simp [h]
    · rw [if_neg he, den_set]
      by_cases h : k = k0
      · subst h; simp [hx]
      · simp [h]

theorem den_of_not_mem (d : NameDict) (k : String) (h : k ∉ d.map (·.1)) : den d k = 0 := by
  induction d with
  | nil => rfl
  | cons x xs ih =>
    obtain ⟨k0, e0⟩ := x
    simp only [List.map_cons, List.mem_cons, not_or] at h
    rw [den_cons, if_neg (fun e => h.1 e.symm), ih h.2]

theorem den_foldl_mul (b : NameDict) (hb : (b.map (·.1)).Nodup) (acc : NameDict) (k : String) :
    den (b.foldl mulStep acc) k = den acc k + den b k := by
  induction b generalizing acc with
  | nil => simp [den_nil]
  | cons x xs ih =>
    obtain ⟨k0, e0⟩ := x
    simp only [List.map_cons, List.nodup_cons] at hb
    rw [List.foldl_cons, ih hb.2, den_mulStep, den_cons]
    by_cases h : k = k0
    · subst h; simp [den_of_not_mem xs k hb.1]
    · have : ¬ k0 = k := fun e => h e.symm
      simp [h, this]

theorem den_foldl_div (b : NameDict) (hb : (b.map (·.1)).Nodup) (acc : NameDict) (k : String) :
    den (b.foldl divStep acc) k = den acc k - den b k := by
  induction b generalizing acc with
  | nil => simp [den_nil]
  | cons x xs ih =>
    obtain ⟨k0, e0⟩ := x
    simp only [List.map_cons, List.nodup_cons] at hb
    rw [List.foldl_cons, ih hb.2, den_divStep, den_cons]
    by_cases h : k = k0
    · subst h; simp [den_of_not_mem xs k hb.1]
    · have : ¬ k0 = k := fun e => h e.symm
      simp [h, this]

/-- `mul_names` never fails on dictionaries and the exponents of the name add, key by key
    (so the name of a product describes the product) -/
theorem mulNames_den (a b : NameDict) (hb : (b.map (·.1)).Nodup) :
    ∃ r, mulNames (some a) (some b) = some r ∧ ∀ k, den r k = den a k + den b k :=
  ⟨_, rfl, den_foldl_mul b hb a⟩

/-- `div_names`: the exponents subtract -/
theorem divNames_den (a b : NameDict) (hb : (b.map (·.1)).Nodup) :
    ∃ r, divNames (some a) (some b) = some r ∧ ∀ k, den r k = den a k - den b k :=
  ⟨_, rfl, den_foldl_div b hb a⟩

/-- a missing name stays missing (it is then constructed on demand by `create_name`) -/
theorem names_none (a : Option NameDict) :
    mulNames none a = none ∧ mulNames a none = none ∧ divNames none a = none ∧ divNames a none = none := by
  cases a <;> exact ⟨rfl, rfl, rfl, rfl⟩

theorem mapM_power_den (k2 : Int) : ∀ (a r : NameDict),
    a.mapM (powEntry k2) = some r → ∀ k, 2 * den r k = k2 * den a k
  | [], r, h, k => by
    simp at h; subst h; simp [den_nil]
  | (k0, e0) :: xs, r, h, k => by
    rw [List.mapM_cons] at h
    cases hp : powEntry k2 (k0, e0) with
    | none => simp [hp] at h
    | some y =>
      cases hrec : xs.mapM (powEntry k2) with
      | none => simp [hp, hrec] at h
      | some r' =>
        simp [hp, hrec] at h
        subst h
        have ih := mapM_power_den k2 xs r' hrec k
        unfold powEntry at hp
        by_cases hpar : ((e0 * k2) % 2 == 0) = true
        · rw [if_pos hpar] at hp
          injection hp with hp; subst hp
          rw [den_cons, den_cons]
          by_cases hk : k0 = k
          · simp only [if_pos hk]
            have hm : (e0 * k2) % 2 = 0 := by simpa using hpar
            have hc : k2 * e0 = e0 * k2 := Int.mul_comm _ _
            rw [hc]
            generalize e0 * k2 = m at hm ⊢
            omega
          · simp only [if_neg hk]; exact ih
        · rw [if_neg hpar] at hp; cases hp

/-- `name_power`: on success every exponent of the name is multiplied by the power k2/2 -/
theorem namePower_den (a r : NameDict) (k2 : Int) (h : namePower (some a) k2 = .ok (some r)) :
    ∀ k, 2 * den r k = k2 * den a k := by
  simp only [namePower] at h
  cases hm : a.mapM (powEntry k2) with
  | none => rw [hm] at h; cases h
  | some r' =>
    rw [hm] at h
    injection h with h; injection h with h; subst h
    exact mapM_power_den k2 a r' hm


/-! #### non-vacuity: concrete instances (metre, second, degree) -/

def exM : U := ⟨1, 0, 0, 1, 1000, 0⟩
def exMin : U := ⟨0, 1, 0, 60, 1, 0⟩
def exDeg : U := ⟨0, 0, 1, 1, 180, 1⟩

example : WF exM := ⟨by decide, by decide, by decide⟩
example : WF exDeg := ⟨by decide, by decide, by decide⟩
example : mul exM exMin = ⟨1, 1, 0, 3, 50, 0⟩ := by decide
example : div (mul exM exMin) exMin = exM := by decide
example : sqrt (mul exDeg exDeg) = .ok (.exact exDeg) := sqrt_mul_self ⟨by decide, by decide, by decide⟩
example : sqrt exM = .error .valueError := by decide
example : pow exMin (-2) = ⟨0, -2, 0, 1, 3600, 0⟩ := by decide
example : convert exDeg (some ⟨0, 0, 1, 2, 1, 1⟩) = .ok (some ⟨1, 360, 0⟩) := by decide
example : unitsRule .add (some exM) (some exMin) = .error .valueError := by decide
example : unitsRule .add (some exM) none = .ok (.obj (some exM)) := by decide
example : unitsRule .eq (some exM) (some exMin) = .ok (.const false) := by decide
example : unitsRule .sin (some exM) none = .error .valueError := by decide
example : unitsRule .sin (some exDeg) none = .ok (.obj none) := by decide
example : unitsRule .arcsin (some exDeg) none = .error .valueError := by decide
set_option maxRecDepth 4000 in
example : unitsRule (.pow (.half 6) true) (some exMin) none = .ok (.obj (some ⟨0, 3, 0, 216000, 1, 0⟩)) := by decide
example : mulNames (some [("km", 1)]) (some [("s", -1), ("km", -1)]) = some [("s", -1)] := by decide
example : divNames (some [("km", 1), ("s", 2)]) (some [("s", 2), ("m", 1)]) = some [("km", 1), ("m", -1)] := by decide
example : namePower (some [("ster", 1)]) 1 = .error .valueError := by decide
example : sqrtName (some [("ster", 1)]) = none := by decide
example : (([("s", -1), ("km", -1)] : NameDict).map (·.1)).Nodup := by decide
example : (Obj.mk [⟨1, 0⟩] (some exM) [("t", ⟨[⟨3, 0⟩], some exMin⟩)] true).WFUnits := by
  refine ⟨?_, ?_⟩
  · intro u h; cases h; exact ⟨by decide, by decide, by decide⟩
  · intro kd hk u h
    simp only [List.mem_singleton] at hk
    subst hk; cases h; exact ⟨by decide, by decide, by decide⟩

end PMV.Units
