import PMV.Props.C15Items
/-
  C15 — the class conversions as_scalar / as_vector / as_vector3 / as_pair / as_matrix (modelled as the code
  behaves): where a conversion is a relabeling it is "class coercion with values, mask and derivatives in place";
  the corner where it is NOT (recorded finding KF-C15-conv-leading: the raw array is re-read with the target's
  numerator rank, so a leading axis becomes an item axis) is exhibited by `…_counterexample` theorems.
-/
namespace PMV.C15
open PMV PMV.NpShape PMV.Shaper PMV.ItemOps

variable {α : Type}

/-- values, mask, shape, numerator, denominator and every derivative are the operand's; only the class may differ -/
structure SameData (q r : Q α) : Prop where
  vals : r.base.vals = q.base.vals
  shape : r.base.shape = q.base.shape
  numer : r.base.numer = q.base.numer
  denom : r.base.denom = q.base.denom
  mask : r.base.mask = q.base.mask
  derivs : r.derivs = q.derivs

theorem SameData.refl (q : Q α) : SameData q q := ⟨rfl, rfl, rfl, rfl, rfl, rfl⟩

theorem mapDerivs_pure {b : Q0 α} {ds r : List (String × Q0 α)} (hs : ∀ kd ∈ ds, kd.2.shape = b.shape)
    (h : mapDerivs b ds pure = .ok r) : r = ds := by
  have := mapDerivs_forall₂ (b := b) (f := pure) (fun d d' => d' = d) ds r
    (fun kd hkd d1 hd1 => by have := pure_ok.1 hd1; subst this; exact ⟨rfl, hs kd hkd⟩) h
  clear h
  induction this with
  | nil => rfl
  | cons hh _ ih =>
    rename_i a b' l1 l2 _
    have : b' = a := by
      obtain ⟨k1, d1⟩ := a; obtain ⟨k2, d2⟩ := b'
      simp only at hh; obtain ⟨e1, e2⟩ := hh; subst e1 e2; rfl
    rw [this, ih (fun kd hkd => hs kd (by simp [hkd]))]

/-- the class constructor called on an object whose numerator rank it takes over: pure class coercion -/
theorem ctorFromQube_same {cls : Cls} {q r : Q α} (hwf : WF q)
    (hnr : q.base.numer.length ≠ 0 ∨ cls.nrank.getD 0 = 0) (h : ctorFromQube cls q = .ok r) :
    r.base.cls = cls ∧ SameData q r := by
  unfold ctorFromQube at h
  simp only at h
  obtain ⟨b, hb, h⟩ := bind_ok.1 h
  obtain ⟨ds, hds, h⟩ := bind_ok.1 h
  have := pure_ok.1 h; subst this
  have hn : (if q.base.numer.length ≠ 0 then q.base.numer.length else cls.nrank.getD 0) = q.base.numer.length := by
    rcases hnr with h1 | h1
    · rw [if_pos h1]
    · by_cases h0 : q.base.numer.length ≠ 0
      · rw [if_pos h0]
      · rw [if_neg h0, h1]; omega
  rw [hn] at hb
  obtain ⟨c0, c1, c2, c3, c4, c5, _⟩ := construct_split (s := q.base.shape) (n := q.base.numer) (d := q.base.denom)
    hb hwf.base.vshape rfl rfl hwf.base.mshape
  refine ⟨c0, c1, c2, c3, c4, c5, ?_⟩
  exact mapDerivs_pure (fun kd hkd => ((hwf.derivs kd hkd).2.1).trans c2.symm) hds

theorem ctorFromArrays_same {cls : Cls} {q r : Q α} (hwf : WF q)
    (hnr : cls.nrank.getD q.base.numer.length = q.base.numer.length) (h : ctorFromArrays cls q = .ok r) :
    r.base.cls = cls ∧ SameData q r := by
  unfold ctorFromArrays at h
  obtain ⟨b, hb, h⟩ := bind_ok.1 h
  obtain ⟨ds, hds, h⟩ := bind_ok.1 h
  have := pure_ok.1 h; subst this
  rw [hnr] at hb
  obtain ⟨c0, c1, c2, c3, c4, c5, _⟩ := construct_split (s := q.base.shape) (n := q.base.numer) (d := q.base.denom)
    hb hwf.base.vshape rfl rfl hwf.base.mshape
  refine ⟨c0, c1, c2, c3, c4, c5, ?_⟩
  exact mapDerivs_pure (fun kd hkd => ((hwf.derivs kd hkd).2.1).trans c2.symm) hds

/-- **as_scalar** (recursive=True) is a pure class coercion: values, mask, shapes and every derivative in
    place (a Boolean operand, which has no derivatives, becomes the Scalar of its 0/1 values) -/
theorem asScalar_same {q r : Q α} (hwf : WF q)
    (hb : q.base.cls = .boolean → q.base.numer = [] ∧ q.base.denom = [] ∧ q.derivs = [])
    (h : asScalar q true = .ok r) : SameData q r := by
  unfold asScalar at h
  split at h
  · rename_i hc
    obtain ⟨b, hb', e⟩ := map_ok.1 h
    subst e
    have hn : q.base.numer.length = 0 ∧ q.base.denom.length = 0 := by
      obtain ⟨h1, h2, _⟩ := hb hc
      rw [h1, h2]; exact ⟨rfl, rfl⟩
    obtain ⟨_, c1, c2, c3, c4, c5, _⟩ := construct_split (s := q.base.shape) (n := q.base.numer) (d := q.base.denom)
      hb' hwf.base.vshape hn.1 hn.2 hwf.base.mshape
    exact ⟨c1, c2, c3, c4, c5, (hb hc).2.2.symm⟩
  · split at h
    · injection h with h; subst h; exact SameData.refl q
    · obtain ⟨r', hr, e⟩ := map_ok.1 h
      subst e
      exact (ctorFromQube_same hwf (Or.inr rfl) hr).2


/-- the `nrank == 0` branch of `as_vector`: a unit numerator axis is inserted; element `(i, [0], kd)` is element
    `(i, [], kd)` of the operand -/
theorem scalarToVector0_numer {q r : Q0 α} (hwf : WF0 q) (hn : q.numer = []) (h : scalarToVector0 q = .ok r) :
    NumerReindex (fun kn => unravel [] (ravel [1] kn)) [1] q r := by
  unfold scalarToVector0 at h
  obtain ⟨nv, hnv, h⟩ := bind_ok.1 h
  have hitem : q.item = q.denom := by unfold Q0.item; rw [hn]; rfl
  have htarget : ofNats q.shape ++ [1] ++ ofNats q.item = ofNats (q.shape ++ [1] ++ q.denom) := by
    rw [hitem]; unfold ofNats; rw [List.map_append, List.map_append]; rfl
  have hvs : q.vals.shape = q.shape ++ [] ++ q.denom := by rw [hwf.vshape, hn]
  have hres : resolve (size q.vals.shape) (ofNats (q.shape ++ [1] ++ q.denom)) = .ok (q.shape ++ [1] ++ q.denom) := by
    have := resolve_ofNats (q.shape ++ [1] ++ q.denom)
    rwa [show size (q.shape ++ [1] ++ q.denom) = size q.vals.shape by
      rw [hvs, size_append, size_append, size_append, size_append]; simp [size_cons, size_nil]] at this
  rw [htarget, reshape_eq q.vals _ _ hres] at hnv
  injection hnv with hnv; subst hnv
  obtain ⟨_, c1, c2, c3, c4, c5, c6⟩ := construct_split (s := q.shape) (n := [1]) (d := q.denom) h rfl rfl rfl hwf.mshape
  refine ⟨c2, c3, c4, c5, fun i kn kd hi hkn hkd => ?_, c6⟩
  rw [c1]
  show q.vals.get (unravel q.vals.shape (ravel (q.shape ++ [1] ++ q.denom) (i ++ kn ++ kd))) = _
  rw [hvs, reshape_mid q.shape [] [1] q.denom i kn kd (by simp [size_cons, size_nil]) hi hkn hkd]

/-- `q'` is `q` with its item axes re-split after the first `k`: the SAME values array, leading shape and mask -/
structure SplitOf (k : Nat) (q q' : Q0 α) : Prop where
  vals : q'.vals = q.vals
  shape : q'.shape = q.shape
  mask : q'.mask = q.mask
  item : q'.numer ++ q'.denom = q.numer ++ q.denom
  nrank : q'.numer.length = k

theorem splitItems_splitOf {q r : Q α} {cs : List Cls} (hwf : WF0 q.base) (hn : 1 ≤ q.base.numer.length)
    (h : splitItems q 1 cs = .ok r) : SplitOf 1 q.base r.base ∧ WF0 r.base := by
  obtain ⟨a1, a2, a3, a4, a5, a6⟩ := splitItems_spec (n := (q.base.numer ++ q.base.denom).take 1)
    (d := (q.base.numer ++ q.base.denom).drop 1) hwf (List.take_append_drop _ _).symm
    (by rw [List.length_take, List.length_append]; omega) h
  refine ⟨⟨a1, a2, a5, by rw [a3, a4, List.take_append_drop], ?_⟩, a6⟩
  rw [a3, List.length_take, List.length_append]; omega

/-- **as_vector** (recursive=True), branch by branch: already a vector class → unchanged; numerator rank 1 or a
    1×N / N×1 matrix → `flatten_numer` (one numerator map for values and every derivative); item-less → a unit
    numerator axis is inserted in values and every derivative; anything else → `split_items(1)` applied to the
    object AND (since the repair of the split branch) to every derivative: the same values arrays and masks, the
    item axes re-split after the first -/
theorem asVector_relabel {q r : Q α} (hwf : WF q) (h : asVector q true = .ok r) :
    SameData q r ∨
    ObjNumerReindex (fun kn => unravel q.base.numer (ravel [size q.base.numer] kn)) [size q.base.numer] q r ∨
    (q.base.numer = [] ∧ ObjNumerReindex (fun kn => unravel [] (ravel [1] kn)) [1] q r) ∨
    (SplitOf 1 q.base r.base ∧
      List.Forall₂ (fun kd kd' => kd.1 = kd'.1 ∧ SplitOf 1 kd.2 kd'.2) q.derivs r.derivs) := by
  unfold asVector at h
  split at h
  · injection h with h; subst h; exact Or.inl (SameData.refl q)
  · split at h
    · exact Or.inr (Or.inl (flattenNumer_reindex hwf h))
    · split at h
      · exact Or.inr (Or.inl (flattenNumer_reindex hwf h))
      · split at h
        · rename_i h0
          have hn : q.base.numer = [] := List.length_eq_zero_iff.1 h0
          obtain ⟨b, hb, h⟩ := bind_ok.1 h
          obtain ⟨ds, hds, h⟩ := bind_ok.1 h
          have := pure_ok.1 h; subst this
          have hbase := scalarToVector0_numer hwf.base hn hb
          refine Or.inr (Or.inr (Or.inl ⟨hn, hbase, ?_⟩))
          apply mapDerivs_forall₂ _ q.derivs ds _ hds
          intro kd hkd d1 hd1
          obtain ⟨w, hs, hnn⟩ := hwf.derivs kd hkd
          have := scalarToVector0_numer w (hnn.trans hn) hd1
          exact ⟨this, this.shape.trans (hs.trans hbase.shape.symm)⟩
        · split at h
          · rename_i h0 h1 h2 h3 hrank
            have hlen : 1 ≤ q.base.numer.length := by omega
            obtain ⟨r0, hr0, h⟩ := bind_ok.1 h
            obtain ⟨ds, hds, h⟩ := bind_ok.1 h
            have := pure_ok.1 h; subst this
            obtain ⟨hsp, _⟩ := splitItems_splitOf hwf.base hlen hr0
            refine Or.inr (Or.inr (Or.inr ⟨hsp, ?_⟩))
            apply mapDerivs_forall₂ _ q.derivs ds _ hds
            intro kd hkd d1 hd1
            obtain ⟨w, hs, hnn⟩ := hwf.derivs kd hkd
            unfold splitItems0 at hd1
            obtain ⟨rd, hrd, e⟩ := map_ok.1 hd1
            subst e
            obtain ⟨hd, _⟩ := splitItems_splitOf (q := ⟨kd.2, []⟩) w (by show 1 ≤ kd.2.numer.length; rw [hnn]; exact hlen) hrd
            exact ⟨hd, hd.shape.trans (hs.trans hsp.shape.symm)⟩
          · rename_i h0 h1 h2 h3 hrank
            exfalso; omega

example : ((asVector (α := Int) ⟨⟨.scalar, [2], [], [], ⟨[2], fun i => (ravel [2] i : Int)⟩, .all false⟩, []⟩ true).toOption.map
    fun r => (r.base.cls, r.base.shape, r.base.numer)) = some (.vector, [2], [1]) := by decide


/-! ## as_vector3 / as_pair / as_matrix: relabelings for operands of the right numerator rank; the recorded
       corner KF-C15-conv-leading otherwise -/

/- FULL (FALSE on the code as it is — recorded finding KF-C15-conv-leading, see the counterexamples below):
     ∀ q r, WF q → asVector3 q true = .ok r → r.base.shape = q.base.shape ∧ (values, mask, derivatives in place)
   and the same for asPair, asMatrix. -/

/-- as_vector3 of an operand that HAS a numerator axis and no denominator (a 3-vector of another class):
    pure class coercion, derivatives included.  (With a denominator the operand AND every derivative go through
    `split_items(1)` first — a no-op re-split for numerator rank 1 — and the derivatives are kept; that branch is
    tied, not stated here.) -/
theorem asVector3_partial {q r : Q α} (hwf : WF q) (hn : q.base.numer.length ≠ 0)
    (hrank : q.base.numer.length + q.base.denom.length ≤ 1) (h : asVector3 q true = .ok r) : SameData q r := by
  unfold asVector3 at h
  split at h
  · injection h with h; subst h; exact SameData.refl q
  · split at h
    · rename_i hc
      exfalso
      rcases hc with hc | hc <;> (rw [hc] at hrank; simp at hrank; omega)
    · simp only at h
      rw [if_neg (by omega)] at h
      obtain ⟨q1, hq1, h⟩ := bind_ok.1 h
      have := pure_ok.1 hq1; subst this
      obtain ⟨r', hr, e⟩ := map_ok.1 h
      subst e
      exact (ctorFromQube_same hwf (Or.inl hn) hr).2

/-- the 1×3 / 3×1 branch of as_vector3 is `flatten_numer`: one numerator map for values and every derivative -/
theorem asVector3_flatten {q r : Q α} (hwf : WF q) (hc : q.base.cls ≠ .vector3)
    (hn : q.base.numer = [1, 3] ∨ q.base.numer = [3, 1]) (h : asVector3 q true = .ok r) :
    ObjNumerReindex (fun kn => unravel q.base.numer (ravel [size q.base.numer] kn)) [size q.base.numer] q r := by
  unfold asVector3 at h
  rw [if_neg hc, if_pos hn] at h
  exact flattenNumer_reindex hwf h

def itemless23 (cls : Cls) : Q Int :=
  ⟨⟨cls, [2, 3], [], [], ⟨[2, 3], fun i => (ravel [2, 3] i : Int)⟩, .all false⟩, []⟩

/-- KF-C15-conv-leading, as the code behaves: `Vector3.as_vector3(Scalar of shape (2,3))` has leading shape
    `(2,)` — the last LEADING axis has become the item axis (`nrank or self.NRANK` turns rank 0 into 1) -/
theorem asVector3_counterexample :
    ¬ (∀ r, asVector3 (itemless23 .scalar) true = .ok r → r.base.shape = (itemless23 .scalar).base.shape) := by
  intro h
  have : ((asVector3 (itemless23 .scalar) true).toOption.map fun r => (r.base.shape, r.base.numer))
      = some ([2], [3]) := by decide
  cases hr : asVector3 (itemless23 .scalar) true with
  | error e => rw [hr] at this; cases this
  | ok r =>
    have hs := h r hr
    rw [hr] at this
    simp only [Except.toOption, Option.map_some, Option.some.injEq, Prod.mk.injEq] at this
    rw [hs] at this
    exact absurd this.1 (by decide)

/-- as_pair / as_matrix of an operand whose numerator rank IS the target's (1 resp. 2) and that is not routed
    through split_items / join_items: pure class coercion, derivatives included -/
theorem asPair_partial {q r : Q α} (hwf : WF q) (hn : q.base.numer.length = 1) (hd : q.base.denom = [])
    (h : asPair q true = .ok r) : SameData q r := by
  unfold asPair at h
  split at h
  · injection h with h; subst h; exact SameData.refl q
  · split at h
    · rename_i hc
      exfalso
      rcases hc with hc | hc <;> (rw [hc] at hn; simp at hn)
    · simp only at h
      rw [if_neg (by rw [hn, hd]; simp)] at h
      obtain ⟨q1, hq1, h⟩ := bind_ok.1 h
      have := pure_ok.1 hq1; subst this
      obtain ⟨r', hr, e⟩ := map_ok.1 h
      subst e
      exact (ctorFromArrays_same hwf (by rw [hn]; rfl) hr).2

theorem asMatrix_partial {q r : Q α} (hwf : WF q) (hn : q.base.numer.length = 2) (hv : q.base.cls.isVector = false)
    (h : asMatrix q true = .ok r) : SameData q r := by
  unfold asMatrix at h
  split at h
  · injection h with h; subst h; exact SameData.refl q
  · rw [if_neg (by rw [hv]; simp)] at h
    obtain ⟨r', hr, e⟩ := map_ok.1 h
    subst e
    exact (ctorFromArrays_same hwf (by rw [hn]; rfl) hr).2

theorem asMatrix_counterexample :
    ¬ (∀ r, asMatrix (itemless23 .scalar) true = .ok r → r.base.shape = (itemless23 .scalar).base.shape) := by
  intro h
  have : ((asMatrix (itemless23 .scalar) true).toOption.map fun r => (r.base.shape, r.base.numer))
      = some ([], [2, 3]) := by decide
  cases hr : asMatrix (itemless23 .scalar) true with
  | error e => rw [hr] at this; cases this
  | ok r =>
    have hs := h r hr
    rw [hr] at this
    simp only [Except.toOption, Option.map_some, Option.some.injEq, Prod.mk.injEq] at this
    rw [hs] at this
    exact absurd this.1 (by decide)

def itemless12 : Q Int :=
  ⟨⟨.scalar, [1, 2], [], [], ⟨[1, 2], fun i => (ravel [1, 2] i : Int)⟩, .all false⟩, []⟩

theorem asPair_counterexample :
    ¬ (∀ r, asPair itemless12 true = .ok r → r.base.shape = itemless12.base.shape) := by
  intro h
  have : ((asPair itemless12 true).toOption.map fun r => (r.base.shape, r.base.numer)) = some ([1], [2]) := by decide
  cases hr : asPair itemless12 true with
  | error e => rw [hr] at this; cases this
  | ok r =>
    have hs := h r hr
    rw [hr] at this
    simp only [Except.toOption, Option.map_some, Option.some.injEq, Prod.mk.injEq] at this
    rw [hs] at this
    exact absurd this.1 (by decide)

end PMV.C15
