import PMV.Model.SetItem
/-
  C10 — item assignment writes exactly the selected elements and nothing else.
  Theorems about the code-shaped `setitem` of PMV.Model.SetItem (general path of `__setitem__`).
-/
namespace PMV.SetItem
open PMV PMV.NpIndex PMV.Index

/-! ### NumPy's assignment kernel: update, frame, read-back -/

/-- frame: an element no KEPT selection coordinate points at keeps its value -/
theorem npAssign_frame {α : Type} (s : Sel) (keep : Index → Bool) (a v : Index → α) (x : Index)
    (h : ∀ o ∈ indices s.shape, keep o = true → s.src o ≠ x) : npAssign s keep a v x = a x := by
  unfold npAssign
  have : (indices s.shape).reverse.find? (fun o => keep o && s.src o == x) = none := by
    rw [List.find?_eq_none]
    intro o ho
    have := h o (List.mem_reverse.mp ho)
    cases hk : keep o with
    | false => simp
    | true => simpa using this hk
  rw [this]

/-- update: a selected element receives the value of ONE of the kept coordinates that select it -/
theorem npAssign_update {α : Type} (s : Sel) (keep : Index → Bool) (a v : Index → α) (x : Index)
    (h : ∃ o ∈ indices s.shape, keep o = true ∧ s.src o = x) :
    ∃ o ∈ indices s.shape, keep o = true ∧ s.src o = x ∧ npAssign s keep a v x = v o := by
  unfold npAssign
  cases hf : (indices s.shape).reverse.find? (fun o => keep o && s.src o == x) with
  | none =>
    obtain ⟨o, ho, hk, hx⟩ := h
    rw [List.find?_eq_none] at hf
    have := hf o (List.mem_reverse.mpr ho)
    simp [hx, hk] at this
  | some o =>
    have hm := List.mem_of_find?_eq_some hf
    have hp := List.find?_some hf
    simp only [Bool.and_eq_true, beq_iff_eq] at hp
    exact ⟨o, List.mem_reverse.mp hm, hp.1, hp.2, rfl⟩

/-- read-back for a duplicate-free selection: every element selected through a kept coordinate
    holds exactly the value assigned through that coordinate -/
theorem npAssign_readback {α : Type} (s : Sel) (keep : Index → Bool) (a v : Index → α) (o : Index)
    (ho : o ∈ indices s.shape) (hk : keep o = true)
    (inj : ∀ o1 ∈ indices s.shape, ∀ o2 ∈ indices s.shape, keep o1 = true → keep o2 = true →
      s.src o1 = s.src o2 → o1 = o2) :
    npAssign s keep a v (s.src o) = v o := by
  obtain ⟨o', ho', hk', hx, hv⟩ := npAssign_update s keep a v (s.src o) ⟨o, ho, hk, rfl⟩
  rw [hv, inj o' ho' o ho hk' hk hx]

/-! ### `__setitem__` (general path) -/

/-- the selection coordinates `__setitem__` writes through: all of them, or — when the index has
    masked / out-of-range elements — those whose index elements are all unmasked and in range -/
def kept (p : Prep) : Index → Bool :=
  if p.post.any? then fun o => !flagged p o else fun _ => true

theorem expandMask_bit (shape : Shape) (a b : Mask) (x : Index) :
    (expandMask shape a b).bit x = a.bit x := by
  cases a with
  | all c =>
    cases b with
    | all d => simp only [expandMask]; split <;> rfl
    | arr _ => rfl
  | arr m => rfl

/-- **the state after a successful assignment**: same shape; values AND mask are NumPy's
    assignment, through the kept coordinates of the prepared index, of the right-hand side's
    values and mask (read at `pos o`, the broadcast / relocated position of coordinate `o`) —
    whatever the representations of the two masks -/
theorem setitem_state (q q' : Obj) (indx : List Entry) (rhs : Rhs) (p : Prep) (s : Sel)
    (hp : prepIndex q.shape indx = some p) (hs : npIndex q.shape p.pre = some s)
    (hall : p.post.all? = false) (h : setitem q indx rhs = .ok q') :
    q'.shape = q.shape ∧ ∃ pos : Index → Index,
      q'.vals = npAssign s (kept p) q.vals (fun o => rhs.vals (pos o)) ∧
      ∀ x, q'.mask.bit x = npAssign s (kept p) q.mask.bit (fun o => rhs.mask.bit (pos o)) x := by
  unfold setitem at h
  simp only [hp, hs, hall] at h
  split at h
  · rename_i hc; simp at hc
  · split at h
    · simp at h
    · -- the mask: an array after expansion, or both masks the same scalar
      have hmask : ∀ (keep : Index → Bool) (pos : Index → Index) (x : Index),
          (match expandMask q.shape q.mask rhs.mask with
            | .arr m => Mask.arr ⟨q.shape, npAssign s keep m.get (fun o => rhs.mask.bit (pos o))⟩
            | .all b => Mask.all b).bit x
          = npAssign s keep q.mask.bit (fun o => rhs.mask.bit (pos o)) x := by
        intro keep pos x
        cases q.mask with
        | arr m => cases rhs.mask <;> rfl
        | all a =>
          cases rhs.mask with
          | arr m' => rfl
          | all b =>
            by_cases hab : a = b
            · subst hab
              have e : expandMask q.shape (.all a) (.all a) = .all a := by simp [expandMask]
              rw [e]
              show a = npAssign s keep (fun _ => a) (fun _ => a) x
              unfold npAssign
              cases (indices s.shape).reverse.find? (fun o => keep o && s.src o == x) <;> rfl
            · have e : expandMask q.shape (.all a) (.all b) = .arr ⟨q.shape, fun _ => a⟩ := by
                simp [expandMask, hab]
              rw [e]; rfl
      split at h
      · rename_i hany
        simp only [Outcome.ok.injEq] at h
        subst h
        have hk : kept p = fun _ => true := by
          have : p.post.any? = false := by simpa using hany
          simp [kept, this]
        exact ⟨rfl, _, by rw [hk], fun x => by rw [hk]; exact hmask _ _ x⟩
      · rename_i hany
        simp only [Outcome.ok.injEq] at h
        subst h
        have hk : kept p = fun o => !flagged p o := by
          have : p.post.any? = true := by simpa using hany
          simp [kept, this]
        exact ⟨rfl, _, by rw [hk], fun x => by rw [hk]; exact hmask _ _ x⟩

/-- **setitem_frame.**  An element that no kept coordinate of the selection points at — in
    particular every element selected only through masked or out-of-range index elements — keeps
    its value AND its mask state. -/
theorem setitem_frame (q q' : Obj) (indx : List Entry) (rhs : Rhs) (p : Prep) (s : Sel)
    (hp : prepIndex q.shape indx = some p) (hs : npIndex q.shape p.pre = some s)
    (hall : p.post.all? = false) (h : setitem q indx rhs = .ok q') (x : Index)
    (hx : ∀ o ∈ indices s.shape, kept p o = true → s.src o ≠ x) :
    q'.vals x = q.vals x ∧ q'.mask.bit x = q.mask.bit x := by
  obtain ⟨_, pos, hv, hm⟩ := setitem_state q q' indx rhs p s hp hs hall h
  exact ⟨by rw [hv]; exact npAssign_frame s _ _ _ x hx, by rw [hm]; exact npAssign_frame s _ _ _ x hx⟩

/-- **setitem_update.**  An element selected through some kept coordinate ends up with the value
    and the mask state the right-hand side has at ONE such coordinate (the same one for both). -/
theorem setitem_update (q q' : Obj) (indx : List Entry) (rhs : Rhs) (p : Prep) (s : Sel)
    (hp : prepIndex q.shape indx = some p) (hs : npIndex q.shape p.pre = some s)
    (hall : p.post.all? = false) (h : setitem q indx rhs = .ok q') (x : Index)
    (hx : ∃ o ∈ indices s.shape, kept p o = true ∧ s.src o = x) :
    ∃ pos : Index → Index, ∃ o ∈ indices s.shape, kept p o = true ∧ s.src o = x ∧
      q'.vals x = rhs.vals (pos o) ∧ q'.mask.bit x = rhs.mask.bit (pos o) := by
  obtain ⟨_, pos, hv, hm⟩ := setitem_state q q' indx rhs p s hp hs hall h
  -- the same (last) writer serves values and mask: both are `find?` of the same predicate
  have key : ∀ {α : Type} (a v : Index → α), ∀ o,
      (indices s.shape).reverse.find? (fun o => kept p o && s.src o == x) = some o →
      npAssign s (kept p) a v x = v o := by
    intro α a v o ho; unfold npAssign; rw [ho]
  cases hf : (indices s.shape).reverse.find? (fun o => kept p o && s.src o == x) with
  | none =>
    obtain ⟨o, ho, hk, hsx⟩ := hx
    rw [List.find?_eq_none] at hf
    have := hf o (List.mem_reverse.mpr ho)
    simp [hsx, hk] at this
  | some o =>
    have hmem := List.mem_of_find?_eq_some hf
    have hpred := List.find?_some hf
    simp only [Bool.and_eq_true, beq_iff_eq] at hpred
    exact ⟨pos, o, List.mem_reverse.mp hmem, hpred.1, hpred.2,
      by rw [hv]; exact key _ _ o hf, by rw [hm x]; exact key _ _ o hf⟩

/-- **masked_entry_writes_nothing.**  A fully masked index changes nothing at all; otherwise an
    element all of whose selecting coordinates are flagged (masked or out of range) keeps value and
    mask state — even if the index has no "unused" element to park the masked entries on. -/
theorem masked_entry_writes_nothing (q q' : Obj) (indx : List Entry) (rhs : Rhs) (p : Prep) (s : Sel)
    (hp : prepIndex q.shape indx = some p) (hs : npIndex q.shape p.pre = some s)
    (h : setitem q indx rhs = .ok q') :
    (p.post.all? = true → q' = q) ∧
    (p.post.all? = false → p.post.any? = true →
      ∀ x, (∀ o ∈ indices s.shape, s.src o = x → flagged p o = true) →
        q'.vals x = q.vals x ∧ q'.mask.bit x = q.mask.bit x) := by
  constructor
  · intro hall
    unfold setitem at h
    simp only [hp, hall, if_true, Outcome.ok.injEq] at h
    exact h.symm
  · intro hall hany x hf
    apply setitem_frame q q' indx rhs p s hp hs hall h x
    intro o ho hk hsx
    have := hf o ho hsx
    simp [kept, hany, this] at hk

/-- **readback** for duplicate-free indices: every element selected through a kept coordinate
    holds the right-hand side's value and mask state at that coordinate. -/
theorem readback (q q' : Obj) (indx : List Entry) (rhs : Rhs) (p : Prep) (s : Sel)
    (hp : prepIndex q.shape indx = some p) (hs : npIndex q.shape p.pre = some s)
    (hall : p.post.all? = false) (h : setitem q indx rhs = .ok q')
    (inj : ∀ o1 ∈ indices s.shape, ∀ o2 ∈ indices s.shape, kept p o1 = true → kept p o2 = true →
      s.src o1 = s.src o2 → o1 = o2) :
    ∃ pos : Index → Index, ∀ o ∈ indices s.shape, kept p o = true →
      q'.vals (s.src o) = rhs.vals (pos o) ∧ q'.mask.bit (s.src o) = rhs.mask.bit (pos o) := by
  obtain ⟨_, pos, hv, hm⟩ := setitem_state q q' indx rhs p s hp hs hall h
  exact ⟨pos, fun o ho hk => ⟨by rw [hv]; exact npAssign_readback s _ _ _ o ho hk inj,
    by rw [hm]; exact npAssign_readback s _ _ _ o ho hk inj⟩⟩

/-! ### derivatives -/

theorem mapM_some_mem {α β : Type} (f : α → Option β) : ∀ (l : List α) (r : List β),
    l.mapM f = some r → r.length = l.length ∧ ∀ x ∈ l, ∃ y ∈ r, f x = some y := by
  intro l
  induction l with
  | nil => intro r h; simp at h; subst h; simp
  | cons a t ih =>
    intro r h
    simp only [List.mapM_cons] at h
    cases hfa : f a with
    | none => simp [hfa] at h
    | some b =>
      cases ht : t.mapM f with
      | none => simp [hfa, ht] at h
      | some r' =>
        simp [hfa, ht] at h
        subst h
        obtain ⟨i1, i2⟩ := ih r' ht
        refine ⟨by simp [i1], ?_⟩
        intro x hx
        rcases List.mem_cons.mp hx with rfl | hx'
        · exact ⟨b, by simp, hfa⟩
        · obtain ⟨y, hy, hfy⟩ := i2 x hx'
          exact ⟨y, by simp [hy], hfy⟩

/-- **derivs_updated_missing_as_zero.**  A successful assignment through an index that is not fully
    masked (a) assigns the object itself, (b) assigns THROUGH THE SAME INDEX every derivative the
    object has — from the right-hand side's derivative of that key, a missing one counting as zero
    (carrying the right-hand side's mask) — and (c) gives the object every derivative only the
    right-hand side has, as that derivative assigned through the same index into a zero derivative
    (missing on the left = zero); (d) nothing else.  A fully masked index changes nothing. -/
theorem derivs_updated_missing_as_zero (q q' : ObjD) (indx : List Entry) (rhs : RhsD) (p : Prep)
    (hp : prepIndex q.main.shape indx = some p) (h : setitemD q indx rhs = .ok q') :
    (p.post.all? = true → q' = q) ∧
    (p.post.all? = false →
      setitem q.main indx rhs.main = .ok q'.main ∧
      (∀ kd ∈ q.derivs, ∃ d', (kd.1, d') ∈ q'.derivs ∧
        setitem kd.2 indx ((lookupD kd.1 rhs.derivs).getD (zeroRhs rhs.main.shape rhs.main.mask)) = .ok d') ∧
      (∀ kr ∈ rhs.derivs, (lookupD kr.1 q.derivs).isNone = true → ∃ d', (kr.1, d') ∈ q'.derivs ∧
        setitem (zeroObj q.main.shape q'.main.mask) indx kr.2 = .ok d') ∧
      q'.derivs.length = q.derivs.length +
        (rhs.derivs.filter fun kr => (lookupD kr.1 q.derivs).isNone).length) := by
  unfold setitemD at h
  cases hm : setitem q.main indx rhs.main with
  | indexError => simp [hm] at h
  | valueError => simp [hm] at h
  | ok m' =>
    simp only [hm, hp] at h
    constructor
    · intro hall
      simp only [hall, if_true, OutcomeD.ok.injEq] at h
      exact h.symm
    · intro hall
      simp only [hall, Bool.false_eq_true, if_false] at h
      generalize hold : (q.derivs.mapM fun (kd : String × Obj) =>
          (setDeriv kd.2 indx ((lookupD kd.1 rhs.derivs).getD (zeroRhs rhs.main.shape rhs.main.mask))).map
            fun d' => (kd.1, d')) = old at h
      generalize hnew : ((rhs.derivs.filter fun kr => (lookupD kr.1 q.derivs).isNone).mapM
          fun (kr : String × Rhs) =>
            (setDeriv (zeroObj q.main.shape m'.mask) indx kr.2).map fun d' => (kr.1, d')) = new at h
      cases old with
      | none => simp at h
      | some ds1 =>
        cases new with
        | none => simp at h
        | some ds2 =>
          simp only [OutcomeD.ok.injEq] at h
          subst h
          obtain ⟨l1, m1⟩ := mapM_some_mem _ _ _ hold
          obtain ⟨l2, m2⟩ := mapM_some_mem _ _ _ hnew
          have hsd : ∀ (d : Obj) (r : Rhs) (k : String) (y : String × Obj),
              (setDeriv d indx r).map (fun d' => (k, d')) = some y →
              y.1 = k ∧ setitem d indx r = .ok y.2 := by
            intro d r k y hy
            unfold setDeriv at hy
            cases hs : setitem d indx r with
            | ok d' => simp [hs] at hy; subst hy; exact ⟨rfl, rfl⟩
            | indexError => simp [hs] at hy
            | valueError => simp [hs] at hy
          refine ⟨rfl, ?_, ?_, by simp [l1, l2]⟩
          · intro kd hkd
            obtain ⟨y, hy, hfy⟩ := m1 kd hkd
            obtain ⟨e1, e2⟩ := hsd _ _ _ y hfy
            exact ⟨y.2, by rw [← e1]; exact List.mem_append_left _ hy, e2⟩
          · intro kr hkr hnone
            have hmem : kr ∈ rhs.derivs.filter fun kr => (lookupD kr.1 q.derivs).isNone := by
              simp [List.mem_filter, hkr, hnone]
            obtain ⟨y, hy, hfy⟩ := m2 kr hmem
            obtain ⟨e1, e2⟩ := hsd _ _ _ y hfy
            exact ⟨y.2, by rw [← e1]; exact List.mem_append_right _ hy, e2⟩

/-! ### the whole-object path (`a[...] = x`, `a[True] = x`, shapeless targets) -/

/-- `broadcast_to`: the result has the target's shape and every element is the right-hand side's
    element at the broadcast position, value and mask state alike -/
theorem bcastRhs_spec (shape : Shape) (r : Rhs) (o : Obj) (h : bcastRhs shape r = some o) :
    o.shape = shape ∧
    (shape ≠ [] → bcast r.shape shape = some shape ∧
      ∀ i, o.vals i = r.vals (bidx r.shape i) ∧ o.mask.bit i = r.mask.bit (bidx r.shape i)) ∧
    (shape = [] → size r.shape = 1 ∧ ∀ i, o.vals i = r.vals [] ∧ o.mask.bit i = r.mask.bit []) := by
  unfold bcastRhs at h
  cases shape with
  | nil =>
    simp only [List.isEmpty_nil, if_true] at h
    split at h
    · rename_i hs
      simp only [Option.some.injEq] at h; subst h
      exact ⟨rfl, fun hne => absurd rfl hne, fun _ => ⟨by simpa using hs, fun i => ⟨rfl, rfl⟩⟩⟩
    · simp at h
  | cons n sh =>
    simp only [List.isEmpty_cons, Bool.false_eq_true, if_false] at h
    split at h
    · rename_i hb
      simp only [Option.some.injEq] at h; subst h
      refine ⟨rfl, fun _ => ⟨by simpa using hb, fun i => ⟨rfl, ?_⟩⟩, fun he => by simp at he⟩
      cases r.mask <;> rfl
    · simp at h

/-- **setitem_whole.**  On the whole-object path: an index with a masked Boolean or a `False`
    changes nothing; otherwise EVERY element of the object is written — the object becomes the
    right-hand side broadcast to its shape (values and mask state) — every derivative the object
    had either becomes the right-hand side's (broadcast) or, if the right-hand side lacks it, zero
    carrying the new mask; the right-hand side's other derivatives are added; nothing else. -/
theorem setitem_whole (q q' : ObjD) (s : SState) (rhs : RhsD) (h : setitemWhole q s rhs = .ok q') :
    ((s.masked || s.sizeZero) = true → q' = q) ∧
    ((s.masked || s.sizeZero) = false →
      bcastRhs q.main.shape rhs.main = some q'.main ∧
      q'.derivs.length = q.derivs.length +
        (rhs.derivs.filter fun kr => (lookupD kr.1 q.derivs).isNone).length ∧
      (∀ kd ∈ q.derivs, ∃ d', (kd.1, d') ∈ q'.derivs ∧
        match lookupD kd.1 rhs.derivs with
        | some rd => bcastRhs q.main.shape rd = some d'
        | none => d' = zeroObj q.main.shape q'.main.mask) ∧
      (∀ kr ∈ rhs.derivs, (lookupD kr.1 q.derivs).isNone = true →
        ∃ d', (kr.1, d') ∈ q'.derivs ∧ bcastRhs q.main.shape kr.2 = some d')) := by
  unfold setitemWhole at h
  constructor
  · intro hm
    simp only [hm, if_true, OutcomeD.ok.injEq] at h
    exact h.symm
  · intro hm
    simp only [hm, Bool.false_eq_true, if_false] at h
    cases hb : bcastRhs q.main.shape rhs.main with
    | none => simp [hb] at h
    | some m' =>
      simp only [hb] at h
      generalize hall : (List.map (fun (kd : String × Obj) =>
            match lookupD kd.1 rhs.derivs with
            | some rd => (bcastRhs q.main.shape rd).map fun d => (kd.1, d)
            | none => some (kd.1, zeroObj q.main.shape m'.mask)) q.derivs ++
          List.map (fun (kr : String × Rhs) => (bcastRhs q.main.shape kr.2).map fun d => (kr.1, d))
            (rhs.derivs.filter fun kr => (lookupD kr.1 q.derivs).isNone)) = L at h
      cases hL : L.mapM id with
      | none => simp [hL] at h
      | some ds =>
        simp only [hL, OutcomeD.ok.injEq] at h
        subst h
        obtain ⟨hlen, hmem⟩ := mapM_some_mem id L ds hL
        refine ⟨rfl, ?_, ?_, ?_⟩
        · rw [hlen, ← hall]; simp
        · intro kd hkd
          have hin : (match lookupD kd.1 rhs.derivs with
              | some rd => (bcastRhs q.main.shape rd).map fun d => (kd.1, d)
              | none => some (kd.1, zeroObj q.main.shape m'.mask)) ∈ L := by
            rw [← hall]; exact List.mem_append_left _ (List.mem_map.mpr ⟨kd, hkd, rfl⟩)
          obtain ⟨y, hy, hfy⟩ := hmem _ hin
          simp only [id] at hfy
          cases hl : lookupD kd.1 rhs.derivs with
          | none =>
            simp only [hl, Option.some.injEq] at hfy
            subst hfy
            exact ⟨_, hy, rfl⟩
          | some rd =>
            simp only [hl] at hfy
            cases hbr : bcastRhs q.main.shape rd with
            | none => simp [hbr] at hfy
            | some d =>
              simp only [hbr, Option.map_some, Option.some.injEq] at hfy
              subst hfy
              exact ⟨d, hy, hbr⟩
        · intro kr hkr hnone
          have hin : ((bcastRhs q.main.shape kr.2).map fun d => (kr.1, d)) ∈ L := by
            rw [← hall]
            exact List.mem_append_right _ (List.mem_map.mpr ⟨kr, by simp [List.mem_filter, hkr, hnone], rfl⟩)
          obtain ⟨y, hy, hfy⟩ := hmem _ hin
          simp only [id] at hfy
          cases hbr : bcastRhs q.main.shape kr.2 with
          | none => simp [hbr] at hfy
          | some d =>
            simp only [hbr, Option.map_some, Option.some.injEq] at hfy
            subst hfy
            exact ⟨d, hy, rfl⟩

/-! ### sequences of assignments -/

theorem step_shape (q : Obj) (a : List Entry × Rhs) : (step q a).shape = q.shape := by
  unfold step setitem
  split <;> try rfl
  rename_i q' h
  split at h <;> try simp at h
  split at h
  · simp at h; rw [← h]
  · split at h <;> try simp at h
    split at h <;> try simp at h
    split at h <;> (simp at h; rw [← h])

/-- **sequence_of_assignments.**  Along any sequence of assignments to the same target (failed
    ones included) the shape never changes, and a property of the values that every single
    assignment preserves is preserved by the whole sequence (e.g. "element `x` holds `c`" for an
    element no step selects, by `setitem_frame`). -/
theorem sequence_of_assignments (P : Obj → Prop) (q : Obj) (as : List (List Entry × Rhs))
    (hstep : ∀ q a, a ∈ as → P q → P (step q a)) (h0 : P q) :
    (assignAll q as).shape = q.shape ∧ P (assignAll q as) := by
  induction as generalizing q with
  | nil => exact ⟨rfl, h0⟩
  | cons a as ih =>
    have h1 := hstep q a (by simp) h0
    obtain ⟨i1, i2⟩ := ih (step q a) (fun q' a' ha' => hstep q' a' (by simp [ha'])) h1
    exact ⟨by simp only [assignAll, List.foldl_cons] at i1 ⊢; rw [i1, step_shape], i2⟩

theorem setitemAny_shape (q q' : ObjD) (indx : List Entry) (rhs : RhsD)
    (h : setitemAny q indx rhs = .ok q') : q'.main.shape = q.main.shape := by
  unfold setitemAny at h
  cases hw : wholePath q.main.shape indx with
  | some s =>
    simp only [hw] at h
    obtain ⟨h1, h2⟩ := setitem_whole q q' s rhs h
    cases hm : (s.masked || s.sizeZero) with
    | true => rw [h1 hm]
    | false => exact (bcastRhs_spec _ _ _ (h2 hm).1).1
  | none =>
    simp only [hw] at h
    split at h
    · simp at h
    · unfold setitemD at h
      cases hm : setitem q.main indx rhs.main with
      | indexError => simp [hm] at h
      | valueError => simp [hm] at h
      | ok m' =>
        have hs : m'.shape = q.main.shape := by
          have := step_shape q.main (indx, rhs.main)
          simpa [step, hm] using this
        simp only [hm] at h
        split at h
        · simp at h
        · split at h
          · simp only [OutcomeD.ok.injEq] at h; rw [← h]
          · split at h
            · simp only [OutcomeD.ok.injEq] at h; rw [← h]; exact hs
            · simp at h

/-- **sequence_of_assignments (any path).**  Along any sequence of assignments to the same object
    with derivatives — whole-object and general path mixed, failed ones included — the shape never
    changes and every step-invariant is preserved. -/
theorem sequence_of_assignments_any (P : ObjD → Prop) (q : ObjD) (as : List (List Entry × RhsD))
    (hstep : ∀ q a, a ∈ as → P q → P (stepAny q a)) (h0 : P q) :
    (assignAny q as).main.shape = q.main.shape ∧ P (assignAny q as) := by
  induction as generalizing q with
  | nil => exact ⟨rfl, h0⟩
  | cons a as ih =>
    have h1 := hstep q a (by simp) h0
    obtain ⟨i1, i2⟩ := ih (stepAny q a) (fun q' a' ha' => hstep q' a' (by simp [ha'])) h1
    refine ⟨?_, i2⟩
    simp only [assignAny, List.foldl_cons] at i1 ⊢
    rw [i1]
    unfold stepAny
    cases hs : setitemAny q a.1 a.2 with
    | ok q' => exact setitemAny_shape q q' a.1 a.2 hs
    | indexError => rfl
    | valueError => rfl

/-- **shared_mask_untouched.**  The mask array is copied before it is written
    (`self._mask_ = self._mask_.copy()`, indexer.py:192-194, 218-219): every mask array that
    existed before — in particular the one another object shares with the target — is unchanged. -/
theorem shared_mask_untouched (heap : Nat → Option (Arr Bool)) (fresh : Nat) (new : Arr Bool)
    (hfresh : heap fresh = none) (k : Nat) (hk : (heap k).isSome) :
    writeMaskCopy heap fresh new k = heap k := by
  unfold writeMaskCopy
  split
  · rename_i he; rw [he, hfresh] at hk; simp at hk
  · rfl

/-- a concrete instance: `a = [1,2,3]; a[[2, 9(out of range)]] = [10, 11]` writes element 2 only -/
example :
    (match setitem ⟨[3], fun i => Int.ofNat (i.headD 0) + 1, .all false⟩
        [.iarr ⟨[2], fun i => if i.headD 0 = 0 then 2 else 9⟩ (.all false)]
        ⟨[2], fun i => 10 + Int.ofNat (i.headD 0), .all false⟩ with
     | .ok q' => [q'.vals [0], q'.vals [1], q'.vals [2]]
     | _ => []) = [1, 2, 10] := by decide

end PMV.SetItem
