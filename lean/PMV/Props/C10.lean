import PMV.Model.SetItem
/-
  C10 — item assignment writes exactly the selected elements and nothing else.
  Theorems about the code-shaped `setitem` of PMV.Model.SetItem (general path of `__setitem__`).
-/
namespace PMV.SetItem
open PMV PMV.NpIndex PMV.Index

/-! ### NumPy's assignment kernel: update, frame, read-back -/

/-- frame: an element no selection coordinate points at keeps its value -/
theorem npAssign_frame {α : Type} (s : Sel) (a v : Index → α) (x : Index)
    (h : ∀ o ∈ indices s.shape, s.src o ≠ x) : npAssign s a v x = a x := by
  unfold npAssign
  have : (indices s.shape).reverse.find? (fun o => s.src o == x) = none := by
    rw [List.find?_eq_none]
    intro o ho
    have := h o (List.mem_reverse.mp ho)
    simpa using this
  rw [this]

/-- update: a selected element receives the value of ONE of the coordinates that select it -/
theorem npAssign_update {α : Type} (s : Sel) (a v : Index → α) (x : Index)
    (h : ∃ o ∈ indices s.shape, s.src o = x) :
    ∃ o ∈ indices s.shape, s.src o = x ∧ npAssign s a v x = v o := by
  unfold npAssign
  cases hf : (indices s.shape).reverse.find? (fun o => s.src o == x) with
  | none =>
    obtain ⟨o, ho, hx⟩ := h
    rw [List.find?_eq_none] at hf
    have := hf o (List.mem_reverse.mpr ho)
    simp [hx] at this
  | some o =>
    have hm := List.mem_of_find?_eq_some hf
    have hp := List.find?_some hf
    exact ⟨o, List.mem_reverse.mp hm, by simpa using hp, rfl⟩

/-- read-back for a duplicate-free selection: every selected element holds exactly the value
    assigned through its coordinate -/
theorem npAssign_readback {α : Type} (s : Sel) (a v : Index → α) (o : Index)
    (ho : o ∈ indices s.shape)
    (inj : ∀ o1 ∈ indices s.shape, ∀ o2 ∈ indices s.shape, s.src o1 = s.src o2 → o1 = o2) :
    npAssign s a v (s.src o) = v o := by
  obtain ⟨o', ho', hx, hv⟩ := npAssign_update s a v (s.src o) ⟨o, ho, rfl⟩
  rw [hv, inj o' ho' o ho hx]

/-! ### `__setitem__` (general path) -/

/-- what is laid over the selection: the right-hand side `rv`, except that — when the index has
    masked / out-of-range entries — flagged coordinates carry the OLD value of the element they
    point at (antimask selection, indexer.py:196-208) -/
def laidOver (q : Obj) (p : Prep) (s : Sel) (rv : Index → Int) : Index → Int :=
  if p.post.any? then fun o => if flagged p o then q.vals (s.src o) else rv o else rv

/-- the stages of `setitem` when nothing fails: same shape; the new values are NumPy's assignment
    of `laidOver` through the prepared index -/
theorem setitem_vals (q q' : Obj) (indx : List Entry) (rhs : Rhs) (p : Prep) (s : Sel)
    (hp : prepIndex q.shape indx = some p) (hs : npIndex q.shape p.pre = some s)
    (hall : p.post.all? = false) (h : setitem q indx rhs = .ok q') :
    q'.shape = q.shape ∧ ∃ rv : Index → Int, q'.vals = npAssign s q.vals (laidOver q p s rv) := by
  unfold setitem at h
  simp only [hp, hs, hall] at h
  split at h
  · rename_i hc; simp at hc
  · split at h
    · simp at h
    · split at h
      · rename_i hany
        simp only [Outcome.ok.injEq] at h
        subst h
        have : p.post.any? = false := by simpa using hany
        exact ⟨rfl, _, by simp only [laidOver, this]; rfl⟩
      · rename_i hany
        simp only [Outcome.ok.injEq] at h
        subst h
        have : p.post.any? = true := by simpa using hany
        exact ⟨rfl, _, by simp only [laidOver, this]; rfl⟩

/-- **setitem_frame** (values).  An element that no coordinate of the selection points at keeps its
    value. -/
theorem setitem_frame (q q' : Obj) (indx : List Entry) (rhs : Rhs) (p : Prep) (s : Sel)
    (hp : prepIndex q.shape indx = some p) (hs : npIndex q.shape p.pre = some s)
    (hall : p.post.all? = false) (h : setitem q indx rhs = .ok q') (x : Index)
    (hx : ∀ o ∈ indices s.shape, s.src o ≠ x) : q'.vals x = q.vals x := by
  obtain ⟨_, rv, hv⟩ := setitem_vals q q' indx rhs p s hp hs hall h
  rw [hv]; exact npAssign_frame s _ _ x hx

/-- **setitem_update.**  A selected element ends up with what ONE of the coordinates selecting it
    lays over it: the right-hand side's value there, or — if that coordinate is flagged — its own
    old value. -/
theorem setitem_update (q q' : Obj) (indx : List Entry) (rhs : Rhs) (p : Prep) (s : Sel)
    (hp : prepIndex q.shape indx = some p) (hs : npIndex q.shape p.pre = some s)
    (hall : p.post.all? = false) (h : setitem q indx rhs = .ok q') (x : Index)
    (hx : ∃ o ∈ indices s.shape, s.src o = x) :
    ∃ rv : Index → Int, ∃ o ∈ indices s.shape, s.src o = x ∧ q'.vals x = laidOver q p s rv o := by
  obtain ⟨_, rv, hv⟩ := setitem_vals q q' indx rhs p s hp hs hall h
  obtain ⟨o, ho, hs', hval⟩ := npAssign_update s q.vals (laidOver q p s rv) x hx
  exact ⟨rv, o, ho, hs', by rw [hv, hval]⟩

/-- **masked_entry_writes_nothing.**  If every coordinate selecting `x` is flagged (masked or out
    of range), `x` keeps its value; a fully masked index changes nothing at all. -/
theorem masked_entry_writes_nothing (q q' : Obj) (indx : List Entry) (rhs : Rhs) (p : Prep) (s : Sel)
    (hp : prepIndex q.shape indx = some p) (hs : npIndex q.shape p.pre = some s)
    (h : setitem q indx rhs = .ok q') :
    (p.post.all? = true → q' = q) ∧
    (p.post.all? = false → p.post.any? = true → ∀ x, (∀ o ∈ indices s.shape, s.src o = x → flagged p o = true) →
      q'.vals x = q.vals x) := by
  constructor
  · intro hall
    unfold setitem at h
    simp only [hp, hall, if_true, Outcome.ok.injEq] at h
    exact h.symm
  · intro hall hany x hf
    obtain ⟨_, rv, hv⟩ := setitem_vals q q' indx rhs p s hp hs hall h
    by_cases hx : ∃ o ∈ indices s.shape, s.src o = x
    · obtain ⟨o, ho, hs', hval⟩ := npAssign_update s q.vals (laidOver q p s rv) x hx
      rw [hv, hval]
      simp only [laidOver, hany, if_true, hf o ho hs', hs']
    · rw [hv]
      exact npAssign_frame s _ _ x (fun o ho he => hx ⟨o, ho, he⟩)

/-- **readback** for duplicate-free, unflagged indices: every selected element holds what the
    right-hand side lays over its coordinate. -/
theorem readback (q q' : Obj) (indx : List Entry) (rhs : Rhs) (p : Prep) (s : Sel)
    (hp : prepIndex q.shape indx = some p) (hs : npIndex q.shape p.pre = some s)
    (hall : p.post.all? = false) (h : setitem q indx rhs = .ok q')
    (inj : ∀ o1 ∈ indices s.shape, ∀ o2 ∈ indices s.shape, s.src o1 = s.src o2 → o1 = o2) :
    ∃ rv : Index → Int, ∀ o ∈ indices s.shape, q'.vals (s.src o) = laidOver q p s rv o := by
  obtain ⟨_, rv, hv⟩ := setitem_vals q q' indx rhs p s hp hs hall h
  exact ⟨rv, fun o ho => by rw [hv]; exact npAssign_readback s _ _ o ho inj⟩

/-! ### sequences of assignments -/

theorem step_shape (q : Obj) (a : List Entry × Rhs) : (step q a).shape = q.shape := by
  unfold step setitem
  split <;> try rfl
  rename_i q' h
  split at h <;> try simp at h
  split at h
  · simp at h; rw [← h]
  · split at h <;> try simp at h
    split at h <;> try simp at h
    split at h <;> (simp at h; rw [← h])

/-- **sequence_of_assignments.**  Along any sequence of assignments to the same target (failed
    ones included) the shape never changes, and a property of the values that every single
    assignment preserves is preserved by the whole sequence (e.g. "element `x` holds `c`" for an
    element no step selects, by `setitem_frame`). -/
theorem sequence_of_assignments (P : Obj → Prop) (q : Obj) (as : List (List Entry × Rhs))
    (hstep : ∀ q a, a ∈ as → P q → P (step q a)) (h0 : P q) :
    (assignAll q as).shape = q.shape ∧ P (assignAll q as) := by
  induction as generalizing q with
  | nil => exact ⟨rfl, h0⟩
  | cons a as ih =>
    have h1 := hstep q a (by simp) h0
    obtain ⟨i1, i2⟩ := ih (step q a) (fun q' a' ha' => hstep q' a' (by simp [ha'])) h1
    exact ⟨by simp only [assignAll, List.foldl_cons] at i1 ⊢; rw [i1, step_shape], i2⟩

/-- **shared_mask_untouched.**  The mask array is copied before it is written
    (`self._mask_ = self._mask_.copy()`, indexer.py:192-194, 218-219): every mask array that
    existed before — in particular the one another object shares with the target — is unchanged. -/
theorem shared_mask_untouched (heap : Nat → Option (Arr Bool)) (fresh : Nat) (new : Arr Bool)
    (hfresh : heap fresh = none) (k : Nat) (hk : (heap k).isSome) :
    writeMaskCopy heap fresh new k = heap k := by
  unfold writeMaskCopy
  split
  · rename_i he; rw [he, hfresh] at hk; simp at hk
  · rfl

/-- a concrete instance: `a = [1,2,3]; a[[2, 9(out of range)]] = [10, 11]` writes element 2 only -/
example :
    (match setitem ⟨[3], fun i => Int.ofNat (i.headD 0) + 1, .all false⟩
        [.iarr ⟨[2], fun i => if i.headD 0 = 0 then 2 else 9⟩ (.all false)]
        ⟨[2], fun i => 10 + Int.ofNat (i.headD 0), .all false⟩ with
     | .ok q' => [q'.vals [0], q'.vals [1], q'.vals [2]]
     | _ => []) = [1, 2, 10] := by decide

end PMV.SetItem
