import PMV.Model.Heap
import PMV.Lemmas.HeapFrame
import PMV.Lemmas.HeapCopy
import PMV.Lemmas.HeapTree
import PMV.Gen.WriteSites
import PMV.Gen.Summaries
/-
  C07 — non-in-place operations never modify their operands or shared constants; copy() shares no writable
  storage.  Property theorems only (the soundness development of the freshness analysis is in
  PMV/Lemmas/HeapFrame.lean).  Core Lean; no Mathlib.
-/
namespace PMV.Heap

/-! #### frame: what a summary accepted by `safe` can do to cells that existed before the call -/

/-- FRAME (strict).  For every effect summary accepted by the strict check (no `writeInto`/`setName`/`rebind`/
    `setFlag` on anything that may have existed before the call), for ALL heaps, ALL argument tuples (aliased or
    not: the same object twice, clones sharing ndarrays, views sharing buffers, module constants) and ALL raise
    schedules: every buffer, ndarray object, Units object and Qube object allocated before the call is identical
    after it — whether the run returned or raised. -/
theorem frame (p : List Eff) (hs : safe false p = true) (h : Heap) (A : Args) :
    Agree h.next h (call p h A).h :=
  (run_inv A p _ _ (Inv.init false h) hs).strict_agree

/-- the same, spelled out for the cells reachable from an argument or a constant `v` of a closed heap -/
theorem frame_reach (p : List Eff) (hs : safe false p = true) (h : Heap) (A : Args) (v : Val)
    (_hv : v ∈ A.args) (hc : h.Closed v) :
    (∀ o ∈ h.reachObjsV v, (call p h A).h.obj o = h.obj o) ∧
    (∀ a ∈ h.reachArrs v, (call p h A).h.arr a = h.arr a) ∧
    (∀ b ∈ h.reachBufs v, (call p h A).h.buf b = h.buf b) ∧
    (∀ u ∈ h.reachUnits v, (call p h A).h.uname u = h.uname u) := by
  have ag := frame p hs h A
  obtain ⟨c1, c2, c3, c4⟩ := hc
  exact ⟨fun o ho => (ag o (c1 o ho)).2.2.2, fun a ha => (ag a (c2 a ha)).2.1,
         fun b hb => (ag b (c3 b hb)).1, fun u hu => (ag u (c4 u hu)).2.2.1⟩

/-- exceptional exit is covered by `frame` (it speaks about the heap at exit, whichever exit it is); stated
    separately for the record: a run that raised has still not touched any pre-existing cell -/
theorem frame_on_raise (p : List Eff) (hs : safe false p = true) (h : Heap) (A : Args)
    (_hr : (call p h A).raised = true) : Agree h.next h (call p h A).h :=
  frame p hs h A

/-- FRAME (with the documented exception).  A summary that additionally marks pre-existing arrays/objects
    read-only (broadcasting) changes nothing else: contents of every buffer, the buffer of every ndarray, every
    Units name, and values/mask/units/derivatives references of every object are identical; the only permitted
    differences are WRITEABLE going True→False and `_readonly_` going False→True — on the broadcast operand and on
    its derivatives (`markRO` = `as_readonly`, which marks the whole derivative tree), also when the run then raises
    (the marking precedes the shape validation). -/
theorem frame_broadcast (p : List Eff) (hs : safe true p = true) (h : Heap) (A : Args) :
    Frame true h.next h (call p h A).h :=
  run_inv A p _ _ (Inv.init true h) hs

/-- strict safety implies relaxed safety (the relaxed check accepts more) -/
theorem tagStep_relax (e : Eff) (t t' : Nat → Tag) (h : tagStep false e t = some t') : tagStep true e t = some t' := by
  cases e <;> simp only [tagStep] at h ⊢ <;> first | exact h | (split at h <;> simp_all)

/-! #### the catalogued summaries pass the check, for every number of derivatives -/

open Summary in
/-- one per-derivative block of a uniform summary passes from any state in which register 0 is a new object -/
theorem derivBlock_safe (hv hm : How) (k : Nat) (t : Nat → Tag) (h0 : t 0 = .newObj) :
    ∃ t', safeFromT false ([.getDeriv 20 1 k] ++ rebuild 21 20 22 hv hm ++ [.setDeriv 0 k 21]) t = some t' ∧
          t' 0 = .newObj := by
  cases hv <;> cases hm <;>
    simp [rebuild, obtain, safeFromT, tagStep, upd, h0, viewTag]

open Summary in
/-- every uniform summary (copy, clone, wod, arithmetic, views, fancy indexing) passes the STRICT check, for every
    number of derivatives -/
theorem uniform_safe (keys : List Nat) (hv hm : How) : safe false (uniform keys hv hm) = true := by
  unfold safe uniform derivBlocks
  rw [safeFrom_eq, safeFromT_append]
  have h1 : ∃ t1, safeFromT false ([.arg 1 0] ++ rebuild 0 1 10 hv hm) (fun _ => .old) = some t1 ∧ t1 0 = .newObj := by
    cases hv <;> cases hm <;> simp [rebuild, obtain, safeFromT, tagStep, upd]
  obtain ⟨t1, e1, p1⟩ := h1
  obtain ⟨t2, e2, _⟩ := safeFromT_flatMap false
    (fun k => [.getDeriv 20 1 k] ++ rebuild 21 20 22 hv hm ++ [.setDeriv 0 k 21]) (fun t => t 0 = .newObj)
    (fun k t ht => derivBlock_safe hv hm k t ht) keys t1 p1
  rw [e1]
  simp only [Option.bind_some]
  rw [e2]; rfl


/-- the copy() summary never touches a pre-existing cell, for every number of derivatives, every heap and every
    aliasing of its receiver -/
theorem copy_frame (keys : List Nat) (h : Heap) (A : Args) :
    Agree h.next h (call (Summary.copy keys) h A).h :=
  frame _ (uniform_safe keys .copied .copied) h A

open Summary in
theorem broadcastBlock_safe (k : Nat) (t : Nat → Tag) (h0 : t 0 = .newObj) :
    ∃ t', safeFromT true ([.getDeriv 20 1 k, .markRO 20] ++ rebuild 21 20 22 .viewOf .viewOf ++
                          [.markRO 21, .setDeriv 0 k 21]) t = some t' ∧ t' 0 = .newObj := by
  simp [rebuild, obtain, safeFromT, tagStep, upd, h0, viewTag]

open Summary in
/-- `broadcast_to` passes the RELAXED check (for every number of derivatives): besides marking read-only it
    changes nothing that existed before -/
theorem broadcast_safe (keys : List Nat) : safe true (broadcast keys) = true := by
  unfold safe broadcast
  rw [safeFrom_eq, safeFromT_append]
  have h1 : ∃ t1, safeFromT true ([.arg 1 0, .markRO 1, .raiseIf 0] ++ rebuild 0 1 10 .viewOf .viewOf ++ [.markRO 0])
      (fun _ => .old) = some t1 ∧ t1 0 = .newObj := by
    simp [rebuild, obtain, safeFromT, tagStep, upd]
  obtain ⟨t1, e1, p1⟩ := h1
  obtain ⟨t2, e2, _⟩ := safeFromT_flatMap true _ (fun t => t 0 = .newObj)
    (fun k t ht => broadcastBlock_safe k t ht) keys t1 p1
  rw [e1]
  simp only [Option.bind_some]
  rw [e2]; rfl

/-- … and it does NOT pass the strict check: the read-only marking is a real effect on the operand, the single
    one the property allows -/
theorem broadcast_not_strict : safe false (Summary.broadcast []) = false := by decide

open Summary in
/-- `Matrix.inverse` as repaired passes the strict check whether or not a determinant is zero -/
theorem inverse_safe (singular : Bool) (keys : List Nat) : safe false (inverse singular keys) = true := by
  unfold safe inverse
  rw [safeFrom_eq, safeFromT_append]
  have h1 : ∃ t1, safeFromT false ([.arg 1 0, .get 10 1 .vals] ++
      (if singular then [.copyOf 11 10, .writeInto 11 1, .fresh 12, .get 13 1 .mask, .fresh 14]
       else [.fresh 12, .get 14 1 .mask]) ++
      [.raiseIf 0, .get 15 1 .units, .newUnits 16, .newObj 0 12 14 16]) (fun _ => .old) = some t1 ∧
      (t1 0 = .newObj) := by
    cases singular <;> simp [safeFromT, tagStep, upd]
  obtain ⟨t1, e1, p1⟩ := h1
  obtain ⟨t2, e2, _⟩ := safeFromT_flatMap false
    (fun k => [.fresh 21, .newObj 23 21 14 16, .setDeriv 0 k 23]) (fun t => t 0 = .newObj)
    (fun k t ht => by simp [safeFromT, tagStep, upd, ht]) keys t1 p1
  rw [e1]
  simp only [Option.bind_some]
  rw [e2]; rfl

/-- the pinned-tree body of `Matrix.inverse` (identity written into `self._values_`) is rejected … -/
theorem inversePinned_rejected : safe false (Summary.inversePinned true) = false := by decide

/-- a concrete heap: one Matrix object (cell 3) whose values are ndarray 1 on buffer 0 -/
def demoHeap : Heap :=
  { buf := fun b => if b = 0 then 5 else 0,
    arr := fun a => if a = 1 then ⟨0, true⟩ else ⟨2, true⟩,
    uname := fun _ => 0,
    obj := fun _ => ⟨some 1, none, none, [], false⟩,
    next := 4 }
def demoArgs : Args := ⟨[.obj 3], fun _ => false⟩

/-- … and rightly so: on a concrete heap it overwrites the operand's buffer (DESIGN §2.7 #8, replayed on the
    pinned code by the check's mutant list) -/
theorem inversePinned_counterexample :
    (call (Summary.inversePinned true) demoHeap demoArgs).h.buf 0 ≠ demoHeap.buf 0 := by decide

/-- the repaired body leaves it alone (instance of `frame`) -/
example : (call (Summary.inverse true [0]) demoHeap demoArgs).h.buf 0 = demoHeap.buf 0 := by decide

open Summary in
/-- `Pair.rot90` as repaired passes the strict check for every number of derivatives -/
theorem rot90_safe (keys : List Nat) : safe false (rot90 true keys) = true := by
  unfold safe rot90
  rw [safeFrom_eq, safeFromT_append]
  have h1 : ∃ t1, safeFromT false ([.arg 1 0] ++ rot90Body 0 1 10 true) (fun _ => .old) = some t1 ∧
      t1 0 = .newObj := by
    simp [rot90Body, safeFromT, tagStep, upd, viewTag]
  obtain ⟨t1, e1, p1⟩ := h1
  obtain ⟨t2, e2, _⟩ := safeFromT_flatMap false
    (fun k => [.getDeriv 20 1 k] ++ rot90Body 21 20 22 true ++ [.setDeriv 0 k 21]) (fun t => t 0 = .newObj)
    (fun k t ht => by simp [rot90Body, safeFromT, tagStep, upd, viewTag, ht]) keys t1 p1
  rw [e1]
  simp only [Option.bind_some]
  rw [e2]; rfl

/-- the pinned-tree body (negation through a chain of views of the operand) is rejected and does change the
    operand's buffer (DESIGN §2.7 #10) -/
theorem rot90Pinned_rejected : safe false (Summary.rot90 false []) = false := by decide
theorem rot90Pinned_counterexample :
    (call (Summary.rot90 false []) demoHeap demoArgs).h.buf 0 ≠ demoHeap.buf 0 := by decide

/-- renaming the operand Units object (DESIGN §2.7 #13) and multiplying the caller's `x` in place (#11) are
    rejected; the repaired forms pass -/
theorem mulUnitsPinned_rejected : safe false Summary.mulUnitsPinned = false := by decide
theorem mulUnitsFixed_safe : safe false Summary.mulUnitsFixed = true := by decide
theorem polyEvalPinned_rejected : safe false Summary.polyEvalPinned = false := by decide

/-- non-vacuity of `frame`: a catalogued summary, run on a concrete heap with the SAME object passed twice -/
example : Agree demoHeap.next demoHeap
    (call (Summary.arith false [0]) demoHeap ⟨[.obj 3, .obj 3], fun _ => false⟩).h :=
  frame _ (uniform_safe [0] .computed .same) _ _

/-! #### T2: the write sites of the real source (regenerated on every run) -/

open PMV.Gen.C07 in
/-- semantic statement over the regenerated table: no write site of any public non-mutating member targets
    storage that is definitely a parameter's (identical to it or a view of it), unless the site is on the
    allow-list of documented effects (the read-only marking of `broadcast_to`).  Survives harmless rewrites: it
    mentions no line numbers, names or code text. -/
def siteOk (s : WriteSite) : Bool :=
  match s.root with
  | .param _ _ => s.allowed
  | _ => true

open PMV.Gen.C07 in
/-- POSSIBLE sites: the target is a parameter's storage on SOME path (path-sensitive may-alias), or a bare parameter
    updated with `op=`.  Each must be on the reviewed list of the translator (reason recorded there); a new one
    breaks this theorem and gets extra draws in the sweep. -/
def possibleOk (s : WriteSite) : Bool :=
  match s.root with
  | .may _ _ => s.allowed
  | _ => true

theorem no_tainted_write : PMV.Gen.C07.writeSites.all siteOk = true := by decide +kernel

theorem no_unreviewed_possible : PMV.Gen.C07.writeSites.all possibleOk = true := by decide +kernel

/-! #### generated effect summaries (one per public non-mutating function whose write sites all have a definite
    root; regenerated from the source on every run) -/

/-- every generated summary passes the check — strictly, except the documented read-only markers, which pass the
    relaxed check -/
theorem generated_safe : PMV.Gen.C07S.summaries.all (fun s => safe s.rx s.prog) = true := by decide +kernel

/-- hence `frame` binds every function the translator can summarise: whatever the heap, the (aliased) arguments and
    the raise schedule, the write sites of the function — as extracted from the source, with the provenance of their
    targets — leave every pre-existing cell as it is (strict summaries: identical; relaxed: read-only marking only) -/
theorem generated_frame (s : PMV.Gen.C07S.GenSummary) (hs : s ∈ PMV.Gen.C07S.summaries) (h : Heap) (A : Args) :
    Frame s.rx h.next h (call s.prog h A).h := by
  have := List.all_eq_true.1 generated_safe s hs
  exact run_inv A s.prog _ _ (Inv.init s.rx h) (by simpa [safe] using this)

theorem generated_frame_strict (s : PMV.Gen.C07S.GenSummary) (hs : s ∈ PMV.Gen.C07S.summaries) (hrx : s.rx = false)
    (h : Heap) (A : Args) : Agree h.next h (call s.prog h A).h := by
  have f := generated_frame s hs h A
  rw [hrx] at f
  exact f.strict_agree

/-! #### copy() -/

-- The `_partial` theorems are the object-level building blocks (`copyFlat` = copy(recursive=False), which Qube.copy
-- applies to the object and to each derivative separately); the FULL statements for objects with any number of
-- derivatives are `copy_fresh`, `copy_independent` and `copy_then_mutate` further down.
/-- COPY_FRESH (object level).  Everything the copy owns did not exist before the call: the new object, its values
    and mask ndarrays and their buffers are new cells (`≥ h.next`), the new arrays are writable, and no cell that
    existed before — in particular nothing reachable from the source — is modified. -/
theorem copy_fresh_partial (h : Heap) (o : Nat) :
    h.next ≤ (copyFlat h o).2 ∧
    (∀ a, Owns (copyFlat h o).1 (copyFlat h o).2 a →
        h.next ≤ a ∧ h.next ≤ ((copyFlat h o).1.arr a).buf ∧ ((copyFlat h o).1.arr a).wr = true) ∧
    Agree h.next h (copyFlat h o).1 :=
  copyFlat_fresh h o

/-- hence the copy shares no ndarray object and no buffer with a source whose cells are allocated (`< h.next`) -/
theorem copy_disjoint_partial (h : Heap) (o : Nat) (a b : Nat)
    (ha : Owns (copyFlat h o).1 (copyFlat h o).2 a) (hb : b < h.next) (hbb : (h.arr b).buf < h.next) :
    a ≠ b ∧ ((copyFlat h o).1.arr a).buf ≠ ((copyFlat h o).1.arr b).buf := by
  obtain ⟨_, h2, h3⟩ := copyFlat_fresh h o
  obtain ⟨a1, a2, _⟩ := h2 a ha
  have e := (h3 b hb).2.1
  rw [e]
  exact ⟨by omega, by omega⟩

example : (copyFlat demoHeap 3).2 = 5 ∧ ((copyFlat demoHeap 3).1.obj 5).vals = some 4 := by decide

-- object level: two separated well-formed objects and every (unbounded, arbitrarily interleaved) history over
-- {item/augmented assignment to values, item assignment to the mask incl. "replace a shared read-only mask by a copy
-- first", rebinding _values_, set_units, as_readonly}.
/-- COPY_INDEPENDENT, single step: a mutation of `t` through the public API does not show in a separate object
    `x`, and keeps the two separate and well-formed -/
theorem mutate_other_unchanged (h : Heap) (t x : Nat) (m : Mut) (sep : Sep h t x) (wt : WF h t) (wx : WF h x) :
    SameObs h (applyMut h t m) x ∧ Sep (applyMut h t m) t x ∧ WF (applyMut h t m) t ∧ WF (applyMut h t m) x :=
  applyMut_other h t x m sep wt wx

/-- separation survives every interleaved history (induction over the list) -/
theorem copy_independent_inv (h : Heap) (a b : Nat) (hist : List (Bool × Mut))
    (sep : Sep h a b) (wa : WF h a) (wb : WF h b) :
    Sep (runHist h a b hist) a b ∧ WF (runHist h a b hist) a ∧ WF (runHist h a b hist) b :=
  hist_inv a b hist h sep wa wb

/-- COPY_INDEPENDENT: for every LIST of mutators applied to one of the two objects, the observation of the other
    one — its fields, its ndarray objects with their flags, the contents of their buffers — is constant -/
theorem copy_independent_partial (h : Heap) (a b : Nat) (ms : List Mut)
    (sep : Sep h a b) (wa : WF h a) (wb : WF h b) :
    SameObs h (runHist h a b (ms.map fun m => (true, m))) b ∧
    SameObs h (runHist h a b (ms.map fun m => (false, m))) a :=
  ⟨hist_first_only a b _ (by intro p hp; simp at hp; obtain ⟨m, _, e⟩ := hp; rw [← e]) h sep wa wb,
   hist_second_only a b _ (by intro p hp; simp at hp; obtain ⟨m, _, e⟩ := hp; rw [← e]) h sep wa wb⟩

/-- `copy()` establishes separation (the bridge between `copy_fresh_partial` and the independence theorems) -/
theorem copy_establishes_sep (h : Heap) (o : Nat) (wo : WF h o) :
    SameObs h (copyFlat h o).1 o ∧ Sep (copyFlat h o).1 o (copyFlat h o).2 ∧
    WF (copyFlat h o).1 o ∧ WF (copyFlat h o).1 (copyFlat h o).2 :=
  copyFlat_sep h o wo

/-- COPY_INDEPENDENT, end to end (object level): take any well-formed object `o`, `c = o.copy()`, then ANY list of
    public mutators applied to `o` leaves the observation of `c` constant, and any list applied to `c` leaves the
    observation of `o` constant — "mutating either through the public API never shows through in the other" -/
theorem copy_then_mutate_partial (h : Heap) (o : Nat) (wo : WF h o) (ms : List Mut) :
    SameObs (copyFlat h o).1 (runHist (copyFlat h o).1 o (copyFlat h o).2 (ms.map fun m => (true, m)))
      (copyFlat h o).2 ∧
    SameObs (copyFlat h o).1 (runHist (copyFlat h o).1 o (copyFlat h o).2 (ms.map fun m => (false, m))) o := by
  obtain ⟨_, sep, w1, w2⟩ := copyFlat_sep h o wo
  exact copy_independent_partial _ _ _ ms sep w1 w2

/-! #### copy(): objects with any number of derivatives (induction over the derivative list) -/

/-- COPY_FRESH.  For every heap and every object `o` with ANY number of derivatives, `c = o.copy()`:
    every member of the copy (the new object and each new derivative object), every ndarray they hold and every
    buffer of those ndarrays is a cell that did not exist before (`h.next ≤ · < next'`); no cell that existed before
    is modified; the copy has the same derivative keys. -/
theorem copy_fresh (h : Heap) (o : Nat) :
    (∀ p ∈ (copyObj h o).1.reachObjs (copyObj h o).2, Fresh h.next (copyObj h o).1 p) ∧
    Agree h.next h (copyObj h o).1 ∧
    ((copyObj h o).1.obj (copyObj h o).2).derivs.map (·.1) = (h.obj o).derivs.map (·.1) :=
  copyObj_spec h o

/-- reach (copy o) ∩ reach o = ∅: for a well-formed source, no member of the source shares an object, an ndarray
    object or a buffer with a member of the copy; both are well-formed and the source is observably unchanged -/
theorem copy_fresh_disjoint (h : Heap) (o : Nat) (wo : WFT h o) :
    SameObsT h (copyObj h o).1 o ∧ SepT (copyObj h o).1 o (copyObj h o).2 ∧
    WFT (copyObj h o).1 o ∧ WFT (copyObj h o).1 (copyObj h o).2 :=
  copyObj_sep h o wo

/-- one public mutation — of the object's values/mask/units/read-only state, of one of its derivatives, or of its
    derivative dictionary (`insert_deriv` with a non-aliased operand, `delete_deriv`) — does not show in a separated
    object and preserves separation and well-formedness -/
theorem mutateT_other_unchanged (h : Heap) (x y : Nat) (m : MutT) (sep : SepT h x y) (wx : WFT h x) (wy : WFT h y) :
    SameObsT h (applyMutT h x m) y ∧ SepT (applyMutT h x m) x y ∧ WFT (applyMutT h x m) x ∧
    WFT (applyMutT h x m) y :=
  applyMutT_other h x y m sep wx wy

/-- separation survives every interleaved history -/
theorem copy_independent_invT (h : Heap) (a b : Nat) (hist : List (Bool × MutT))
    (sep : SepT h a b) (wa : WFT h a) (wb : WFT h b) :
    SepT (runHistT h a b hist) a b ∧ WFT (runHistT h a b hist) a ∧ WFT (runHistT h a b hist) b :=
  histT_inv a b hist h sep wa wb

/-- COPY_INDEPENDENT.  For every LIST of mutators applied to one of two separated objects (with any number of
    derivatives), the complete observation of the other — the object, the set of its derivatives, every derivative
    object, all ndarray objects with their flags and the contents of all their buffers — is constant. -/
theorem copy_independent (h : Heap) (a b : Nat) (ms : List MutT)
    (sep : SepT h a b) (wa : WFT h a) (wb : WFT h b) :
    SameObsT h (runHistT h a b (ms.map fun m => (true, m))) b ∧
    SameObsT h (runHistT h a b (ms.map fun m => (false, m))) a :=
  ⟨histT_first_only a b _ (by intro p hp; simp at hp; obtain ⟨m, _, e⟩ := hp; rw [← e]) h sep wa wb,
   histT_second_only a b _ (by intro p hp; simp at hp; obtain ⟨m, _, e⟩ := hp; rw [← e]) h sep wa wb⟩

/-- end to end: `c = o.copy()`, then ANY list of mutators on `o` leaves `c` constant and vice versa -/
theorem copy_then_mutate (h : Heap) (o : Nat) (wo : WFT h o) (ms : List MutT) :
    SameObsT (copyObj h o).1 (runHistT (copyObj h o).1 o (copyObj h o).2 (ms.map fun m => (true, m)))
      (copyObj h o).2 ∧
    SameObsT (copyObj h o).1 (runHistT (copyObj h o).1 o (copyObj h o).2 (ms.map fun m => (false, m))) o := by
  obtain ⟨_, sep, w1, w2⟩ := copyObj_sep h o wo
  exact copy_independent _ _ _ ms sep w1 w2

/-- a concrete object with one derivative: object 3 (values ndarray 1) with derivative object 2 under key 0 -/
def demoHeapD : Heap :=
  { demoHeap with obj := fun o => if o = 3 then ⟨some 1, none, none, [(0, 2)], false⟩
                                  else ⟨some 0, none, none, [], false⟩ }

example : (copyObj demoHeapD 3).2 = 5 ∧ ((copyObj demoHeapD 3).1.obj 5).derivs = [(0, 7)] ∧
    ((copyObj demoHeapD 3).1.obj 7).vals = some 6 := by decide

/-! #### aliased `insert_deriv` operands: where independence ends -/

/-- inserting a derivative whose operand is ANY existing well-formed object `d` — the other object of a copy pair, or
    one of ITS derivatives — does not change anything observable of the other object `y` and keeps both well-formed
    (`insert_deriv` stores a new shallow clone of the operand) … -/
theorem insert_aliased_other_unchanged (h : Heap) (x y k d : Nat) (sep : SepT h x y) (wx : WFT h x) (wy : WFT h y)
    (wd : WF h d) :
    SameObsT h (insertAlias h x k d) y ∧ WFT (insertAlias h x k d) x ∧ WFT (insertAlias h x k d) y :=
  insertAlias_other h x y k d sep wx wy wd

/-- … but it re-establishes shared storage (the clone holds the operand's ndarrays), so the hypothesis "operands are
    not aliases of the other object" of `copy_independent` is NECESSARY: on a concrete heap, `c = o.copy();
    c.insert_deriv(0, o); c.d_d0[...] = 9` changes the buffer of `o`.  (Sharing introduced explicitly by the caller;
    not a defect of copy().) -/
theorem insert_aliased_counterexample :
    let h1 := (copyObj demoHeapD 3).1
    let c := (copyObj demoHeapD 3).2
    let h2 := insertAlias h1 c 5 3
    let h3 := applyMutT h2 c (.deriv 5 (.write 9))
    h2.buf 0 = h1.buf 0 ∧ h3.buf 0 ≠ h1.buf 0 := by decide

/-! #### Units objects -/

/-- `copy()` keeps the reference to the SAME Units cell: units are shared by reference between an object and its
    copy (and with the named constants), by design … -/
theorem copy_shares_units (h : Heap) (o : Nat) :
    ((copyObj h o).1.obj (copyObj h o).2).units = (h.obj o).units :=
  copyObj_units h o

/-- … so `Units.set_name` on that shared Units object — the in-place API of the Units object, not of either Qube —
    is seen through both (concrete heap; recorded as the boundary of the copy() clause, see DESIGN.d/C07.md §6) -/
def demoHeapU : Heap :=
  { demoHeapD with obj := fun o => if o = 3 then ⟨some 1, none, some 2, [], false⟩ else ⟨some 0, none, none, [], false⟩ }

theorem set_name_shows_through_counterexample :
    let h1 := (copyObj demoHeapU 3).1
    let c := (copyObj demoHeapU 3).2
    (renameUnits h1 2 77).unitName c ≠ h1.unitName c ∧ (renameUnits h1 2 77).unitName 3 ≠ h1.unitName 3 := by decide

/-- renaming a Units object changes nothing else: every buffer, ndarray object and Qube object is as before -/
theorem set_name_frame (h : Heap) (u : Nat) (v : Int) :
    (renameUnits h u v).buf = h.buf ∧ (renameUnits h u v).arr = h.arr ∧ (renameUnits h u v).obj = h.obj ∧
    ∀ w, w ≠ u → (renameUnits h u v).uname w = h.uname w :=
  ⟨rfl, rfl, rfl, fun _ hw => upd_other _ _ _ _ hw⟩

/-- the repaired unit-combination helpers never touch a pre-existing Units cell (named constant, registry entry or
    registry key set — all `uname` cells): `frame` applies, for every heap and every aliasing of the arguments … -/
theorem unitsMulNone_safe (named : Bool) : safe false (Summary.unitsMulNone named) = true := by
  cases named <;> decide
theorem unitsNew_safe : safe false Summary.unitsNew = true := by decide

/-- … whereas a write into a registry that existed before the call is rejected, like the renaming of an operand -/
theorem registryWrite_rejected : safe false Summary.registryWrite = false := by decide

end PMV.Heap
