import PMV.Lemmas.GatherSh
/-
  C17 — shrinking to an antimask and unshrinking afterwards does not change any result.
  Property theorems.  Core Lean only.
-/
namespace PMV.Shrink
open PMV

/-! #### gather is natural with respect to every element-wise operation -/

/-- `gather am (map2 f a b) = map2 f (gather am a) (gather am b)` for every element function `f`,
    every antimask and all broadcast-compatible operand shapes — operands with fewer axes than
    the antimask (broadcast against it) and with more axes (leading axes kept) included.
    Equality of functional arrays = same shape and same element at every valid index. -/
theorem gather_map2 {α β γ : Type} (f : α → β → γ) (am : Arr Bool) (a : Arr α) (b : Arr β)
    (c : Arr γ) (h : Arr.map2 f a b = some c) :
    ∃ c', Arr.map2 f (gather am a) (gather am b) = some c' ∧ c'.shape = (gather am c).shape ∧
      ∀ i, Valid c'.shape i → c'.get i = (gather am c).get i := by
  unfold Arr.map2 at h
  cases hb : bcast a.shape b.shape with
  | none => simp [hb] at h
  | some s =>
    simp only [hb, Option.map_some, Option.some.injEq] at h
    subst h
    have hs := bcast_take_snoc a.shape b.shape s am.shape.length (count am) hb
    refine ⟨⟨s.take (s.length - am.shape.length) ++ [count am], fun i =>
      f ((gather am a).get (bidx (gather am a).shape i))
        ((gather am b).get (bidx (gather am b).shape i))⟩, ?_, rfl, ?_⟩
    · simp only [Arr.map2, gather, hs, Option.map_some]
    intro i hi
    obtain ⟨p, k, rfl, _, hk⟩ := valid_snoc _ _ _ hi
    have hq := trues_length (sel_mem hk)
    have key : ∀ (t : Shape), bidx t (bidx (t.take (t.length - am.shape.length)) p ++ sel am k)
        = bidx t (p ++ sel am k) := by
      intro t
      rw [bidx_split, bidx_split t p, hq, bidx_idem]
    simp only [gather, bidx_singleton _ _ _ _ hk, List.dropLast_concat,
      List.getLastD_concat, key, bidx_comp_left _ _ _ _ hb, bidx_comp_right _ _ _ _ hb]

/-! #### the fully-masked stand-in is absorbed -/

variable {K : Type}

/-- An operand element replaced by the element of `masked_single` (class default under a True
    mask, masked derivatives) behaves as the masked element it stands for, under every
    operation that only looks at what is observable — in particular under every operator of the
    catalogue (`Cat.*_respects`, PMV/Lemmas/GatherCat.lean). -/
theorem masked_single_absorbs [Inhabited K] (op : Op2 K) (hop : op.Respects) (ka kb : List String)
    (a b : Cell K) (dv : K) (ha : a.m = true) :
    Cell.Same (op.f ka kb a b) (op.f ka kb ⟨dv, true, fun _ => noDeriv⟩ b) ∧
    Cell.Same (op.f ka kb b a) (op.f ka kb b ⟨dv, true, fun _ => noDeriv⟩) :=
  ⟨hop _ _ _ _ _ _ (Cell.Same.of_masked ha rfl) (Cell.Same.refl b),
   hop _ _ _ _ _ _ (Cell.Same.refl b) (Cell.Same.of_masked ha rfl)⟩

/-- every operator of the catalogue respects observational equality -/
theorem catalogue_respects [Num K] :
    (Cat.add : Op2 K).Respects ∧ (Cat.sub : Op2 K).Respects ∧ (Cat.mul : Op2 K).Respects ∧
    (Cat.div : Op2 K).Respects ∧ (Cat.eq : Op2 K).Respects ∧ (Cat.ne : Op2 K).Respects ∧
    (∀ c, (Cat.cmp c : Op2 K).Respects) ∧
    (Cat.neg : Op1 K).Respects ∧ (Cat.abs : Op1 K).Respects ∧ (Cat.recip : Op1 K).Respects ∧
    (Cat.sqrt : Op1 K).Respects ∧ (Cat.wod : Op1 K).Respects :=
  ⟨Cat.add_respects, Cat.sub_respects, Cat.mul_respects, Cat.div_respects, Cat.eq_respects,
   Cat.ne_respects, Cat.cmp_respects, Cat.neg_respects, Cat.abs_respects, Cat.recip_respects,
   Cat.sqrt_respects, Cat.wod_respects⟩

/-! #### element-wise expression trees are congruences (any depth) -/

/-- For ANY correspondence `P` between grid indices of the shrunken and of the original
    computation: if every shrunken operand stands for its original on `P`, so does the value of
    every element-wise expression tree, whatever its depth.  (Both the shrunken mode —
    `P (p ++ [rank a]) (p ++ a)` — and the test mode `_DISABLE_SHRINKING` — `P j j` on the
    antimask — are instances.) -/
theorem tree_congruence [Inhabited K] (P : Index → Index → Prop) (env' env : List (Q K))
    (henv : RelEnv P env' env) (e : Expr K) (he : e.Respects) (r' r : Q K)
    (h' : eval env' e = some r') (h : eval env e = some r) : Rel P r' r :=
  rel_eval P env' env henv e he r' r h' h

/-! #### the code-shaped `shrink` and `unshrink` -/

section
variable [Inhabited K]

/-- the correspondence of the shrunken mode: the position `a` the antimask selects, under any
    leading grid index `p`, sits at its rank on the gathered axis -/
def PShr (am : Arr Bool) (gpre : Shape) : Index → Index → Prop :=
  fun j' j => ∃ p a, a ∈ trues am ∧ Valid gpre p ∧ j' = p ++ [rnk am a] ∧ j = p ++ a

/-- operands covered by the code-level theorems: no derivatives, the trailing axes are the
    antimask's (any number of leading axes in front, broadcastable into the grid) -/
def Aligned (am : Arr Bool) (gpre : Shape) (x : Q K) : Prop :=
  x.derivs = [] ∧ ∃ pre, x.obj.shape = pre ++ am.shape ∧ bcast pre gpre = some gpre

-- FULL: `shrink_rel` for every operand whose shape broadcasts against the antimask (fewer axes,
-- unit axes) and with derivatives.  Proved here for `Aligned` operands; the remaining shapes are
-- covered at the array level by `gather_map2` and on the real code by the correspondence check.
/-- `shrink` (array antimask, shrinking enabled, every mask representation, every collapse
    branch) returns an object that stands for its operand on the antimask -/
theorem shrink_rel_partial (df : Dflt K) (cfg : Cfg) (am : Arr Bool) (gpre : Shape) (x x' : Q K)
    (hdis : cfg.disable = false) (hx : Aligned am gpre x)
    (h : shrink df cfg (.arr am) x = some x') : Rel (PShr am gpre) x' x := by
  obtain ⟨hder, pre, hsh, hG⟩ := hx
  obtain ⟨hk, hc⟩ := shrink_keys_cls df cfg am x x' pre hdis hder hsh h
  refine ⟨hk, hc, ?_⟩
  rintro j' j ⟨p, a, ha, hp, rfl, rfl⟩
  exact shrink_spec_aligned df cfg am x x' pre gpre hdis hder hsh hG h p a ha hp

/-- the cached back-pointer is not used (it is absent, ignored, the cache is disabled, or the
    object is the result of an operation, whose cache is empty) -/
def NoCachedPath (cfg : Cfg) (y : Q K) : Prop := ∀ o ds, cacheLookup cfg y.back ≠ .to o ds

theorem noCachedPath_of_switch (cfg : Cfg) (y : Q K)
    (h : cfg.ignoreCached = true ∨ cfg.disableCache = true) : NoCachedPath cfg y := by
  intro o ds
  unfold cacheLookup
  rcases h with h | h
  · split
    · simp
    · split <;> simp [h]
  · simp [h]

theorem noCachedPath_of_op (cfg : Cfg) (y : Q K) (h : y.back = .none) : NoCachedPath cfg y := by
  intro o ds; unfold cacheLookup; split <;> simp [h]

-- FULL: also through the cached path (`unshrunk.mask_where(~antimask)`), which needs the C18
-- invariant "the cached back-pointer is current", and with derivatives.
/-- `unshrink(shrink(x))` reproduces `x` on the antimask: mask state and value of every
    selected element, under every leading index -/
theorem unshrink_shrink_partial (df : Dflt K) (cfg : Cfg) (am : Arr Bool) (gpre sh : Shape)
    (x x' u : Q K) (hdis : cfg.disable = false) (hx : Aligned am gpre x)
    (hs : shrink df cfg (.arr am) x = some x') (hnc : NoCachedPath cfg x') (hder : x'.derivs = [])
    (hfit : bcast x'.obj.shape (gpre ++ [count am]) = some (gpre ++ [count am]))
    (hu : unshrink df cfg (.arr am) sh x' = some u) :
    ∀ p a, a ∈ trues am → Valid gpre p → Cell.Same (u.cellB (p ++ a)) (x.cellB (p ++ a)) := by
  intro p a ha hp
  have h1 := unshrink_spec df cfg am sh x' u hdis hder hnc hu _ hfit p a ha
    (valid_append _ _ _ _ hp ⟨rnk_lt ha, trivial⟩)
  have h2 := (shrink_rel_partial df cfg am gpre x x' hdis hx hs).2.2 _ _ ⟨p, a, ha, hp, rfl, rfl⟩
  exact h1.trans h2

theorem relEnv_shrink (df : Dflt K) (cfg : Cfg) (am : Arr Bool) (gpre : Shape)
    (hdis : cfg.disable = false) : ∀ (env senv : List (Q K)),
    (∀ x ∈ env, Aligned am gpre x) → mapM' (shrink df cfg (.arr am)) env = some senv →
    RelEnv (PShr am gpre) senv env
  | [], senv, _, h => by simp only [mapM', Option.some.injEq] at h; subst h; trivial
  | x :: xs, senv, hx, h => by
    simp only [mapM'] at h
    cases h1 : shrink df cfg (.arr am) x <;> simp only [h1] at h
    · cases h
    · cases h2 : mapM' (shrink df cfg (.arr am)) xs <;> simp only [h2] at h
      · cases h
      · cases h
        exact ⟨shrink_rel_partial df cfg am gpre x _ hdis (hx x (by simp)) h1,
          relEnv_shrink df cfg am gpre hdis xs _ (fun y hy => hx y (by simp [hy])) h2⟩

-- FULL: for all broadcast-compatible operand shapes, operands with derivatives, and all four
-- switch settings (see `shrink_rel_partial`, `unshrink_shrink_partial`; the element-level
-- congruence `tree_congruence` already carries derivatives and is not restricted).
/-- For EVERY element-wise expression tree (any depth, any operators that respect observational
    equality — the whole catalogue does), every array antimask (all True, all False, single
    True, arbitrary) and every mask representation of the operands: evaluating on the shrunken
    operands and unshrinking agrees with direct evaluation at every element the antimask
    selects (mask state, value, derivatives). -/
theorem shrink_commutes_partial (df : Dflt K) (cfg : Cfg) (am : Arr Bool) (gpre sh : Shape)
    (e : Expr K) (he : e.Respects) (env senv : List (Q K)) (r r' u : Q K)
    (hdis : cfg.disable = false) (hx : ∀ x ∈ env, Aligned am gpre x)
    (hs : mapM' (shrink df cfg (.arr am)) env = some senv)
    (h' : eval senv e = some r') (h : eval env e = some r)
    (hnc : NoCachedPath cfg r') (hder : r'.derivs = [])
    (hfit : bcast r'.obj.shape (gpre ++ [count am]) = some (gpre ++ [count am]))
    (hu : unshrink df cfg (.arr am) sh r' = some u) :
    ∀ p a, a ∈ trues am → Valid gpre p → Cell.Same (u.cellB (p ++ a)) (r.cellB (p ++ a)) := by
  intro p a ha hp
  have hrel := tree_congruence (PShr am gpre) senv env
    (relEnv_shrink df cfg am gpre hdis env senv hx hs) e he r' r h' h
  have h1 := unshrink_spec df cfg am sh r' u hdis hder hnc hu _ hfit p a ha
    (valid_append _ _ _ _ hp ⟨rnk_lt ha, trivial⟩)
  exact h1.trans (hrel.2.2 _ _ ⟨p, a, ha, hp, rfl, rfl⟩)

/-- scalar antimask True: shrink and unshrink are the identity on the arrays, so the
    commutation is literal equality of every element, for every switch setting -/
theorem shrink_unshrink_true (df : Dflt K) (cfg : Cfg) (sh : Shape) (x : Q K) :
    ∃ x' u, shrink df cfg (.all true) x = some x' ∧ unshrink df cfg (.all true) sh x' = some u ∧
      ∀ j, u.cellB j = x.cellB j := by
  cases hd : cfg.disable
  · refine ⟨x, cacheDrop cfg x, ?_, ?_, fun j => cellB_congr _ _ (cacheDrop_obj _ _) (cacheDrop_derivs _ _) j⟩
    · unfold shrink shrinkG; simp [hd]
    · unfold unshrink unshrinkG; simp [hd]
  · refine ⟨x, x, ?_, ?_, fun _ => rfl⟩
    · unfold shrink shrinkG
      simp only [hd, ↓reduceIte]
      split
      · rfl
      · rfl
      · next hne => exact absurd rfl hne
    · unfold unshrink unshrinkG; simp [hd]

-- FULL: the four configurations of `_DISABLE_SHRINKING` x (`_IGNORE_UNSHRUNK_AS_CACHED` or
-- `DISABLE_CACHE`) give equal restricted observations.  Proved: every configuration with
-- shrinking enabled in which the cached path is not taken.  The cached path needs the C18
-- invariant (the cached back-pointer is current) and the test mode needs the `mask_where`
-- lemma; both are exercised by the correspondence check under all four settings.
/-- two switch settings give the same answers on the antimask -/
theorem switches_agree_partial (df : Dflt K) (cfg₁ cfg₂ : Cfg) (am : Arr Bool) (gpre sh : Shape)
    (e : Expr K) (he : e.Respects) (env s₁ s₂ : List (Q K)) (r r₁ r₂ u₁ u₂ : Q K)
    (hd₁ : cfg₁.disable = false) (hd₂ : cfg₂.disable = false)
    (hx : ∀ x ∈ env, Aligned am gpre x)
    (hs₁ : mapM' (shrink df cfg₁ (.arr am)) env = some s₁)
    (hs₂ : mapM' (shrink df cfg₂ (.arr am)) env = some s₂)
    (h₁ : eval s₁ e = some r₁) (h₂ : eval s₂ e = some r₂) (h : eval env e = some r)
    (hn₁ : NoCachedPath cfg₁ r₁) (hn₂ : NoCachedPath cfg₂ r₂)
    (hde₁ : r₁.derivs = []) (hde₂ : r₂.derivs = [])
    (hf₁ : bcast r₁.obj.shape (gpre ++ [count am]) = some (gpre ++ [count am]))
    (hf₂ : bcast r₂.obj.shape (gpre ++ [count am]) = some (gpre ++ [count am]))
    (hu₁ : unshrink df cfg₁ (.arr am) sh r₁ = some u₁)
    (hu₂ : unshrink df cfg₂ (.arr am) sh r₂ = some u₂) :
    ∀ p a, a ∈ trues am → Valid gpre p → Cell.Same (u₁.cellB (p ++ a)) (u₂.cellB (p ++ a)) := by
  intro p a ha hp
  exact (shrink_commutes_partial df cfg₁ am gpre sh e he env s₁ r r₁ u₁ hd₁ hx hs₁ h₁ h hn₁ hde₁
      hf₁ hu₁ p a ha hp).trans
    (shrink_commutes_partial df cfg₂ am gpre sh e he env s₂ r r₂ u₂ hd₂ hx hs₂ h₂ h hn₂ hde₂
      hf₂ hu₂ p a ha hp).symm

end

/-! #### non-vacuity -/

/-- a 2x3 antimask selecting three positions -/
def exAm : Arr Bool := ⟨[2, 3], fun i => i == [0, 1] || i == [1, 0] || i == [1, 2]⟩
example : trues exAm = [[0, 1], [1, 0], [1, 2]] := by decide
example : rnk exAm [1, 0] = 1 ∧ sel exAm 2 = [1, 2] := by decide
/-- an operand with a leading axis in front of the antimask's, and one with fewer axes -/
example : (gather exAm (⟨[4, 2, 3], fun i => i⟩ : Arr Index)).shape = [4, 3] := by decide
example : (gather exAm (⟨[3], fun i => i⟩ : Arr Index)).shape = [3] ∧
    (gather exAm (⟨[3], fun i => i⟩ : Arr Index)).get [1] = [0] := by decide
example : Arr.map2 (· ++ ·) (⟨[4, 1, 3], fun i => i⟩ : Arr Index) ⟨[2, 1], fun i => i⟩ ≠ none := by
  simp [Arr.map2, bcast, bcastRev]
example : Aligned exAm [4] (⟨.scalar, ⟨[4, 2, 3], fun _ => (0 : Nat), .arr, fun i => i == [0, 0, 1]⟩, [], false, .none⟩ : Q Nat) :=
  ⟨rfl, [4], rfl, by decide⟩

end PMV.Shrink
