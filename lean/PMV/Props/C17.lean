import PMV.Lemmas.GatherTree
/-
  C17 — shrinking to an antimask and unshrinking afterwards does not change any result.
  Property theorems.  Core Lean only.
-/
namespace PMV.Shrink
open PMV

/-! #### gather is natural with respect to every element-wise operation -/

/-- `gather am (map2 f a b) = map2 f (gather am a) (gather am b)` for every element function `f`,
    every antimask and all broadcast-compatible operand shapes — operands with fewer axes than
    the antimask (broadcast against it) and with more axes (leading axes kept) included.
    Equality of functional arrays = same shape and same element at every valid index. -/
theorem gather_map2 {α β γ : Type} (f : α → β → γ) (am : Arr Bool) (a : Arr α) (b : Arr β)
    (c : Arr γ) (h : Arr.map2 f a b = some c) :
    ∃ c', Arr.map2 f (gather am a) (gather am b) = some c' ∧ c'.shape = (gather am c).shape ∧
      ∀ i, Valid c'.shape i → c'.get i = (gather am c).get i := by
  unfold Arr.map2 at h
  cases hb : bcast a.shape b.shape with
  | none => simp [hb] at h
  | some s =>
    simp only [hb, Option.map_some, Option.some.injEq] at h
    subst h
    have hs := bcast_take_snoc a.shape b.shape s am.shape.length (count am) hb
    refine ⟨⟨s.take (s.length - am.shape.length) ++ [count am], fun i =>
      f ((gather am a).get (bidx (gather am a).shape i))
        ((gather am b).get (bidx (gather am b).shape i))⟩, ?_, rfl, ?_⟩
    · simp only [Arr.map2, gather, hs, Option.map_some]
    intro i hi
    obtain ⟨p, k, rfl, _, hk⟩ := valid_snoc _ _ _ hi
    have hq := trues_length (sel_mem hk)
    have key : ∀ (t : Shape), bidx t (bidx (t.take (t.length - am.shape.length)) p ++ sel am k)
        = bidx t (p ++ sel am k) := by
      intro t
      rw [bidx_split, bidx_split t p, hq, bidx_idem]
    simp only [gather, bidx_singleton _ _ _ _ hk, List.dropLast_concat,
      List.getLastD_concat, key, bidx_comp_left _ _ _ _ hb, bidx_comp_right _ _ _ _ hb]

/-! #### the fully-masked stand-in is absorbed -/

variable {K : Type}

/-- An operand element replaced by the element of `masked_single` (class default under a True
    mask, masked derivatives) behaves as the masked element it stands for, under every
    operation that only looks at what is observable — in particular under every operator of the
    catalogue (`Cat.*_respects`, PMV/Lemmas/GatherCat.lean). -/
theorem masked_single_absorbs [Inhabited K] (op : Op2 K) (hop : op.Respects) (ka kb : List String)
    (a b : Cell K) (dv : K) (ha : a.m = true) :
    Cell.Same (op.f ka kb a b) (op.f ka kb ⟨dv, true, fun _ => noDeriv⟩ b) ∧
    Cell.Same (op.f ka kb b a) (op.f ka kb b ⟨dv, true, fun _ => noDeriv⟩) :=
  ⟨hop _ _ _ _ _ _ (Cell.Same.of_masked ha rfl) (Cell.Same.refl b),
   hop _ _ _ _ _ _ (Cell.Same.refl b) (Cell.Same.of_masked ha rfl)⟩

/-- every operator of the catalogue respects observational equality -/
theorem catalogue_respects [Num K] :
    (Cat.add : Op2 K).Respects ∧ (Cat.sub : Op2 K).Respects ∧ (Cat.mul : Op2 K).Respects ∧
    (Cat.div : Op2 K).Respects ∧ (Cat.eq : Op2 K).Respects ∧ (Cat.ne : Op2 K).Respects ∧
    (∀ c, (Cat.cmp c : Op2 K).Respects) ∧
    (Cat.neg : Op1 K).Respects ∧ (Cat.abs : Op1 K).Respects ∧ (Cat.recip : Op1 K).Respects ∧
    (Cat.sqrt : Op1 K).Respects ∧ (Cat.wod : Op1 K).Respects :=
  ⟨Cat.add_respects, Cat.sub_respects, Cat.mul_respects, Cat.div_respects, Cat.eq_respects,
   Cat.ne_respects, Cat.cmp_respects, Cat.neg_respects, Cat.abs_respects, Cat.recip_respects,
   Cat.sqrt_respects, Cat.wod_respects⟩

/-! #### element-wise expression trees are congruences (any depth) -/

/-- For ANY correspondence `P` between grid indices of the shrunken and of the original
    computation: if every shrunken operand stands for its original on `P`, so does the value of
    every element-wise expression tree, whatever its depth.  (Both the shrunken mode —
    `P (p ++ [rank a]) (p ++ a)` — and the test mode `_DISABLE_SHRINKING` — `P j j` on the
    antimask — are instances.) -/
theorem tree_congruence [Inhabited K] (P : Index → Index → Prop) (env' env : List (Q K))
    (henv : RelEnv P env' env) (e : Expr K) (he : e.Respects) (r' r : Q K)
    (h' : eval env' e = some r') (h : eval env e = some r) : Rel P r' r :=
  rel_eval P env' env henv e he r' r h' h

/-! #### the code-shaped `shrink` and `unshrink` -/

section
variable [Inhabited K]

/-- the correspondence of the shrunken mode: the position `a` the antimask selects, under any
    leading grid index `p`, sits at its rank on the gathered axis -/
def PShr (am : Arr Bool) (gpre : Shape) : Index → Index → Prop :=
  fun j' j => ∃ p a, a ∈ trues am ∧ Valid gpre p ∧ j' = p ++ [rnk am a] ∧ j = p ++ a

/-- the correspondence of the test mode `_DISABLE_SHRINKING`: the same grid index, selected -/
def PDis (am : Arr Bool) (gpre : Shape) : Index → Index → Prop :=
  fun j' j => ∃ p a, a ∈ trues am ∧ Valid gpre p ∧ j' = p ++ a ∧ j = p ++ a

/-- the operands the property quantifies over: well formed (every derivative has the shape of
    its parent) and broadcastable into the grid `gpre ++ antimask.shape` — shape `()`, fewer
    axes than the antimask, unit axes, leading axes in front of the antimask's; any mask
    representation; any derivatives.  (The antimask itself is not stretched.) -/
def Fits (am : Arr Bool) (gpre : Shape) (x : Q K) : Prop :=
  x.WF ∧ bcast x.obj.shape (gpre ++ am.shape) = some (gpre ++ am.shape)

/-- `shrink` (array antimask, shrinking enabled): the returned object stands for its operand
    on the antimask — every branch (stand-in before / after gathering, shapeless pass-through,
    rank reconciliation by broadcasting the operand, mask and value gather, collapse of the
    gathered mask, derivative recursion) -/
theorem shrink_rel (df : Dflt K) (cfg : Cfg) (am : Arr Bool) (gpre : Shape) (x x' : Q K)
    (hdis : cfg.disable = false) (hx : Fits am gpre x)
    (h : shrink df cfg (.arr am) x = some x') : Rel (PShr am gpre) x' x := by
  obtain ⟨⟨hk, hc, _, _, _⟩, hsame⟩ := shrink_spec df cfg am x x' gpre hdis hx.1 hx.2 h
  refine ⟨hk, hc, ?_⟩
  rintro j' j ⟨p, a, ha, hp, rfl, rfl⟩
  exact hsame p a ha hp

/-- the same in the test mode: `shrink` = `mask_where(~antimask)` after broadcasting -/
theorem shrink_rel_disabled (df : Dflt K) (cfg : Cfg) (am : Arr Bool) (gpre : Shape) (x x' : Q K)
    (hdis : cfg.disable = true) (hx : x.WF)
    (h : shrink df cfg (.arr am) x = some x') : Rel (PDis am gpre) x' x := by
  obtain ⟨hk, hc, hsame⟩ := shrink_disabled_spec df cfg am x x' hdis hx h
  refine ⟨hk, hc, ?_⟩
  rintro j' j ⟨p, a, ha, _, rfl, rfl⟩
  rw [hsame p a ha]; exact Cell.Same.refl _

/-- a freshly shrunken object satisfies what `unshrink` needs: its back-pointer is current and
    so are those of its derivatives whenever they are consulted -/
theorem fresh_shrink_current (df : Dflt K) (cfg : Cfg) (am : Arr Bool) (gpre : Shape) (x x' : Q K)
    (hdis : cfg.disable = false) (hx : Fits am gpre x)
    (h : shrink df cfg (.arr am) x = some x') :
    Good am gpre x' ∧ BackCurrent cfg am (gpre ++ [count am]) x' ∧
    (NoCachedPath cfg x'.back → x'.obj.shape ≠ [] →
      ∀ k d, lookupD x'.derivs k = some d → BackCurrent cfg am (gpre ++ [count am]) d.toQ) := by
  obtain ⟨⟨_, _, hw, hf, hb1, hb2⟩, hsame⟩ := shrink_spec df cfg am x x' gpre hdis hx.1 hx.2 h
  refine ⟨⟨hw, hf⟩, ?_, ?_⟩
  · intro o ds e
    obtain ⟨hwf, hcell⟩ := hb1 o ds (cacheLookup_to cfg _ o ds e)
    refine ⟨hwf, fun p a ha hv => ?_⟩
    rw [hcell]
    have hp : Valid gpre p := (valid_append_inv gpre p [count am] [rnk am a] rfl hv).1
    exact (hsame p a ha hp).symm
  · intro hn hs k d _
    obtain ⟨o, ds, e⟩ := hb2 hs
    rw [e] at hn
    exact backCurrent_of_noCachedPath _ _ _ _
      (noCachedPath_of_switch cfg _ (switch_of_noCachedPath_to cfg o ds hn))

/-- `unshrink(shrink(x))` reproduces `x` on the antimask — mask state, value and derivatives of
    every selected element, under every leading index — in all four switch settings (the cached
    path included: the back-pointer `shrink` has just stored is current) -/
theorem unshrink_shrink (df : Dflt K) (cfg : Cfg) (am : Arr Bool) (gpre sh : Shape)
    (x x' u : Q K) (hx : Fits am gpre x)
    (hs : shrink df cfg (.arr am) x = some x')
    (hu : unshrink df cfg (.arr am) sh x' = some u) :
    ∀ p a, a ∈ trues am → Valid gpre p → Cell.Same (u.cellB (p ++ a)) (x.cellB (p ++ a)) := by
  intro p a ha hp
  cases hdis : cfg.disable
  · obtain ⟨hg, hc, hcd⟩ := fresh_shrink_current df cfg am gpre x x' hdis hx hs
    have h1 := unshrink_spec df cfg am sh x' u _ hdis hg.1 hc hcd hg.2 hu p a ha
      (valid_append _ _ _ _ hp ⟨rnk_lt ha, trivial⟩)
    exact h1.trans ((shrink_rel df cfg am gpre x x' hdis hx hs).2.2 _ _ ⟨p, a, ha, hp, rfl, rfl⟩)
  · rw [unshrink_disabled df cfg _ sh x' hdis] at hu
    cases hu
    exact (shrink_rel_disabled df cfg am gpre x x' hdis hx.1 hs).2.2 _ _ ⟨p, a, ha, hp, rfl, rfl⟩

theorem relEnv_of (P : Index → Index → Prop) (f : Q K → Option (Q K))
    (hf : ∀ x x', f x = some x' → Rel P x' x) : ∀ (env senv : List (Q K)),
    mapOpt f env = some senv → RelEnv P senv env
  | [], senv, h => by simp only [mapOpt, Option.some.injEq] at h; subst h; trivial
  | x :: xs, senv, h => by
    simp only [mapOpt] at h
    cases h1 : f x <;> simp only [h1] at h
    · cases h
    · cases h2 : mapOpt f xs <;> simp only [h2] at h
      · cases h
      · cases h
        exact ⟨hf x _ h1, relEnv_of P f hf xs _ h2⟩

theorem relEnv_mem (P : Index → Index → Prop) (f : Q K → Option (Q K)) (S : Q K → Prop)
    (hf : ∀ x x', S x → f x = some x' → Rel P x' x) : ∀ (env senv : List (Q K)),
    (∀ x ∈ env, S x) → mapOpt f env = some senv → RelEnv P senv env
  | [], senv, _, h => by simp only [mapOpt, Option.some.injEq] at h; subst h; trivial
  | x :: xs, senv, hS, h => by
    simp only [mapOpt] at h
    cases h1 : f x <;> simp only [h1] at h
    · cases h
    · cases h2 : mapOpt f xs <;> simp only [h2] at h
      · cases h
      · cases h
        exact ⟨hf x _ (hS x (by simp)) h1,
          relEnv_mem P f S hf xs _ (fun y hy => hS y (by simp [hy])) h2⟩

/-- **C17.**  For EVERY element-wise expression tree (any depth; any operators that respect
    observational equality — the whole catalogue does), every array antimask (all True, all
    False, single True, arbitrary), all operand tuples that broadcast into the grid (shape `()`,
    fewer or more axes than the antimask, unit axes, fully masked, any mask representation, with
    derivatives) and all four settings of the switches: evaluating on the shrunken operands and
    unshrinking agrees with direct evaluation at every element the antimask selects — mask
    state, value and derivatives. -/
theorem shrink_commutes (df : Dflt K) (cfg : Cfg) (am : Arr Bool) (gpre sh : Shape)
    (e : Expr K) (he : e.Respects) (env senv : List (Q K)) (r r' u : Q K)
    (hx : ∀ x ∈ env, Fits am gpre x)
    (hs : mapOpt (shrink df cfg (.arr am)) env = some senv)
    (h' : eval senv e = some r') (h : eval env e = some r)
    (hu : unshrink df cfg (.arr am) sh r' = some u) :
    ∀ p a, a ∈ trues am → Valid gpre p → Cell.Same (u.cellB (p ++ a)) (r.cellB (p ++ a)) := by
  intro p a ha hp
  cases hdis : cfg.disable
  · -- shrinking enabled
    have hrel := tree_congruence (PShr am gpre) senv env
      (relEnv_mem _ _ (Fits am gpre) (fun x x' hx h => shrink_rel df cfg am gpre x x' hdis hx h)
        env senv hx hs) e he r' r h' h
    have hgood : ∀ y ∈ senv, Good am gpre y := by
      intro y hy
      obtain ⟨x, hxm, hfx⟩ := mapOpt_mem _ _ _ hs y hy
      exact (fresh_shrink_current df cfg am gpre x y hdis (hx x hxm) hfx).1
    obtain ⟨hg, hkind⟩ := eval_good am gpre senv hgood e r' h'
    have hcur : BackCurrent cfg am (gpre ++ [count am]) r' ∧
        (NoCachedPath cfg r'.back → r'.obj.shape ≠ [] →
          ∀ k d, lookupD r'.derivs k = some d → BackCurrent cfg am (gpre ++ [count am]) d.toQ) := by
      rcases hkind with ⟨n, rfl⟩ | hfresh
      · simp only [eval] at h'
        obtain ⟨x, hxn, hfx⟩ := mapOpt_get _ _ _ hs n r' h'
        exact (fresh_shrink_current df cfg am gpre x r' hdis (hx x (List.mem_of_getElem? hxn)) hfx).2
      · refine ⟨backCurrent_of_noCachedPath _ _ _ _ (hfresh.1 ▸ noCachedPath_none cfg), ?_⟩
        intro _ _ k d hk
        exact backCurrent_of_noCachedPath _ _ _ _ (by
          show NoCachedPath cfg d.toQ.back
          rw [show d.toQ.back = d.back from rfl, hfresh.2 k d hk]; exact noCachedPath_none cfg)
    have h1 := unshrink_spec df cfg am sh r' u _ hdis hg.1 hcur.1 hcur.2 hg.2 hu p a ha
      (valid_append _ _ _ _ hp ⟨rnk_lt ha, trivial⟩)
    exact h1.trans (hrel.2.2 _ _ ⟨p, a, ha, hp, rfl, rfl⟩)
  · -- the test mode
    have hrel := tree_congruence (PDis am gpre) senv env
      (relEnv_mem _ _ (Fits am gpre)
        (fun x x' hx h => shrink_rel_disabled df cfg am gpre x x' hdis hx.1 h) env senv hx hs)
      e he r' r h' h
    rw [unshrink_disabled df cfg _ sh r' hdis] at hu
    cases hu
    exact hrel.2.2 _ _ ⟨p, a, ha, hp, rfl, rfl⟩

/-- the four configurations of `_DISABLE_SHRINKING` x (`_IGNORE_UNSHRUNK_AS_CACHED` or
    `DISABLE_CACHE`) — any two settings of the three switches — give observationally equal
    answers on the antimask -/
theorem switches_agree (df : Dflt K) (cfg₁ cfg₂ : Cfg) (am : Arr Bool) (gpre sh : Shape)
    (e : Expr K) (he : e.Respects) (env s₁ s₂ : List (Q K)) (r r₁ r₂ u₁ u₂ : Q K)
    (hx : ∀ x ∈ env, Fits am gpre x)
    (hs₁ : mapOpt (shrink df cfg₁ (.arr am)) env = some s₁)
    (hs₂ : mapOpt (shrink df cfg₂ (.arr am)) env = some s₂)
    (h₁ : eval s₁ e = some r₁) (h₂ : eval s₂ e = some r₂) (h : eval env e = some r)
    (hu₁ : unshrink df cfg₁ (.arr am) sh r₁ = some u₁)
    (hu₂ : unshrink df cfg₂ (.arr am) sh r₂ = some u₂) :
    ∀ p a, a ∈ trues am → Valid gpre p → Cell.Same (u₁.cellB (p ++ a)) (u₂.cellB (p ++ a)) := by
  intro p a ha hp
  exact (shrink_commutes df cfg₁ am gpre sh e he env s₁ r r₁ u₁ hx hs₁ h₁ h hu₁ p a ha hp).trans
    (shrink_commutes df cfg₂ am gpre sh e he env s₂ r r₂ u₂ hx hs₂ h₂ h hu₂ p a ha hp).symm

/-- for an object that is NOT fresh from `shrink` (one held while other code runs), the cached
    path is correct exactly under `BackCurrent` — C18's invariant for the 'unshrunk' entry:
    the referenced original still holds the arrays it held when the entry was stored (C18:
    `unshrunk_held_partial`, hypothesis `a.v = s.v ∧ a.m = s.m`; its failure is KF-C18-1) -/
theorem unshrink_held (df : Dflt K) (cfg : Cfg) (am : Arr Bool) (sh G' : Shape) (y u : Q K)
    (hdis : cfg.disable = false) (hwf : y.WF) (hfit : bcast y.obj.shape G' = some G')
    (hcur : BackCurrent cfg am G' y)
    (hcurd : NoCachedPath cfg y.back → y.obj.shape ≠ [] →
      ∀ k d, lookupD y.derivs k = some d → BackCurrent cfg am G' d.toQ)
    (hu : unshrink df cfg (.arr am) sh y = some u) :
    ∀ p a, a ∈ trues am → Valid G' (p ++ [rnk am a]) →
      Cell.Same (u.cellB (p ++ a)) (y.cellB (p ++ [rnk am a])) :=
  unshrink_spec df cfg am sh y u G' hdis hwf hcur hcurd hfit hu

/-- `unshrink` dereferences the cached reference when it runs: the entry then shows the
    CURRENT arrays `now` of the original, not those at shrink time -/
def deref (y : Q K) (now : Obj K × List (String × Obj K)) : Q K :=
  match y.back with
  | .to _ _ => { y with back := .to now.1 now.2 }
  | _ => y

/-- a shrunken object HELD while other code runs: if the original has not been modified since it
    was shrunk (C18: value and mask stamps unchanged, `unshrunk_held_partial`), un-shrinking agrees
    with the original on the antimask in every switch setting.  This is the only assumption the
    cached path needs; without it the statement is false (`unshrink_held_counterexample`). -/
theorem unshrink_held_unmodified (df : Dflt K) (cfg : Cfg) (am : Arr Bool) (gpre sh : Shape)
    (x y u : Q K) (now : Obj K × List (String × Obj K)) (hx : Fits am gpre x)
    (hs : shrink df cfg (.arr am) x = some y)
    (hnow : ∀ o ds, y.back = .to o ds → now = (o, ds))
    (hu : unshrink df cfg (.arr am) sh (deref y now) = some u) :
    ∀ p a, a ∈ trues am → Valid gpre p → Cell.Same (u.cellB (p ++ a)) (x.cellB (p ++ a)) := by
  have : deref y now = y := by
    unfold deref
    split
    · next o ds e => rw [hnow o ds e, ← e]
    · rfl
  rw [this] at hu
  exact unshrink_shrink df cfg am gpre sh x y u hx hs hu

/-- scalar antimask True: shrink and unshrink are the identity on the arrays, so the
    commutation is literal equality of every element, for every switch setting -/
theorem shrink_unshrink_true (df : Dflt K) (cfg : Cfg) (sh : Shape) (x : Q K) :
    ∃ x' u, shrink df cfg (.all true) x = some x' ∧ unshrink df cfg (.all true) sh x' = some u ∧
      ∀ j, u.cellB j = x.cellB j := by
  cases hd : cfg.disable
  · refine ⟨x, cacheDrop cfg x, ?_, ?_, fun j => cellB_congr _ _ (cacheDrop_obj _ _) (cacheDrop_derivs _ _) j⟩
    · unfold shrink shrinkG; simp [hd]
    · unfold unshrink unshrinkG; simp [hd]
  · refine ⟨x, x, ?_, ?_, fun _ => rfl⟩
    · unfold shrink shrinkG
      simp only [hd, ↓reduceIte]
      split
      · rfl
      · rfl
      · next hne => exact absurd rfl hne
    · unfold unshrink unshrinkG; simp [hd]

theorem shrink_true (df : Dflt K) (cfg : Cfg) (x : Q K) : shrink df cfg (.all true) x = some x := by
  unfold shrink shrinkG
  cases hd : cfg.disable
  · simp
  · simp only [↓reduceIte]
    split
    · rfl
    · rfl
    · next hne => exact absurd rfl hne

theorem mapOpt_id {α : Type} (f : α → Option α) (hf : ∀ x, f x = some x) : ∀ l : List α, mapOpt f l = some l
  | [] => rfl
  | a :: as => by simp [mapOpt, hf a, mapOpt_id f hf as]

/-- scalar antimask True, whole trees: the shrunken environment IS the environment, and
    `unshrink` hands the value back (minus its cache entry): literal equality of every element, in
    all four switch settings.  (Scalar antimask False selects no element.) -/
theorem shrink_commutes_true (df : Dflt K) (cfg : Cfg) (sh : Shape) (e : Expr K) (env senv : List (Q K))
    (r r' u : Q K) (hs : mapOpt (shrink df cfg (.all true)) env = some senv)
    (h' : eval senv e = some r') (h : eval env e = some r)
    (hu : unshrink df cfg (.all true) sh r' = some u) : ∀ j, u.cellB j = r.cellB j := by
  rw [mapOpt_id _ (shrink_true df cfg) env] at hs
  cases hs
  rw [h] at h'; cases h'
  intro j
  unfold unshrink unshrinkG at hu
  cases hd : cfg.disable
  · simp only [hd, Bool.false_eq_true, ↓reduceIte, Option.some.injEq] at hu
    subst hu
    exact cellB_congr _ _ (cacheDrop_obj _ _) (cacheDrop_derivs _ _) j
  · simp only [hd, ↓reduceIte, Option.some.injEq] at hu
    subst hu; rfl

end

/-! #### the assumption of the cached path is necessary (KF-C18-1 seen from C17) -/

def heldX : Q Nat := ⟨.scalar, ⟨[2], fun i => if i == [0] then 1 else 2, .allF, fun _ => false⟩, [], false, .none⟩
def heldAm : Arr Bool := ⟨[2], fun _ => true⟩
/-- the original after `a[0] = 5`, executed while the shrunken object is held -/
def heldNow : Obj Nat × List (String × Obj Nat) :=
  (⟨[2], fun i => if i == [0] then 5 else 2, .allF, fun _ => false⟩, [])
def valueAt (q : Option (Q Nat)) (j : Index) : Option Nat := q.map fun u => (u.cellB j).v

/-- `s = a.shrink(m); a[0] = 5; s.unshrink(m)`: with the default switches the answer shows the
    NEW value, with `_IGNORE_UNSHRUNK_AS_CACHED` the value at shrink time — the switch settings
    disagree once the back-pointer is not current -/
theorem unshrink_held_counterexample :
    valueAt ((shrink ⟨1, 0⟩ ⟨false, false, false⟩ (.arr heldAm) heldX).bind fun y =>
      unshrink ⟨1, 0⟩ ⟨false, false, false⟩ (.arr heldAm) [] (deref y heldNow)) [0] = some 5 ∧
    valueAt ((shrink ⟨1, 0⟩ ⟨false, true, false⟩ (.arr heldAm) heldX).bind fun y =>
      unshrink ⟨1, 0⟩ ⟨false, true, false⟩ (.arr heldAm) [] (deref y heldNow)) [0] = some 1 := by
  decide

/-! #### non-vacuity -/

/-- a 2x3 antimask selecting three positions -/
def exAm : Arr Bool := ⟨[2, 3], fun i => i == [0, 1] || i == [1, 0] || i == [1, 2]⟩
example : trues exAm = [[0, 1], [1, 0], [1, 2]] := by decide
example : rnk exAm [1, 0] = 1 ∧ sel exAm 2 = [1, 2] := by decide
/-- an operand with a leading axis in front of the antimask's, and one with fewer axes -/
example : (gather exAm (⟨[4, 2, 3], fun i => i⟩ : Arr Index)).shape = [4, 3] := by decide
example : (gather exAm (⟨[3], fun i => i⟩ : Arr Index)).shape = [3] ∧
    (gather exAm (⟨[3], fun i => i⟩ : Arr Index)).get [1] = [0] := by decide
example : Arr.map2 (· ++ ·) (⟨[4, 1, 3], fun i => i⟩ : Arr Index) ⟨[2, 1], fun i => i⟩ ≠ none := by
  simp [Arr.map2, bcast, bcastRev]
/-- operands that `Fits` admits for the grid [4] ++ [2, 3]: fewer axes + unit axis, with a
    derivative; leading axis; shapeless -/
example : Fits exAm [4] (⟨.scalar, ⟨[1, 3], fun _ => (0 : Nat), .arr, fun i => i == [0, 1]⟩,
    [("t", ⟨⟨[1, 3], fun _ => 1, .allF, fun _ => false⟩, false, .none⟩)], false, .none⟩ : Q Nat) := by
  refine ⟨?_, by decide⟩
  intro k d hk
  simp only [lookupD] at hk
  split at hk
  · cases hk; rfl
  · cases hk
example : Fits exAm [4] (⟨.scalar, ⟨[4, 2, 3], fun _ => (0 : Nat), .allF, fun _ => false⟩, [], false, .none⟩ : Q Nat) :=
  ⟨fun k d hk => by simp [lookupD] at hk, by decide⟩
example : Fits exAm [4] (⟨.scalar, ⟨[], fun _ => (0 : Nat), .allT, fun _ => false⟩, [], false, .none⟩ : Q Nat) :=
  ⟨fun k d hk => by simp [lookupD] at hk, by decide⟩

end PMV.Shrink
