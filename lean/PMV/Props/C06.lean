import PMV.Lemmas.DualReal
import PMV.Lemmas.DualVec
/-
  C06 — derivatives carried through any computation equal the true derivative.
  Property theorems.  `Num ℝ` (the mathematical functions) is in Lemmas/DualReal.lean.
-/
namespace PMV.Dual
open PMV

/-! ### Soundness of the scalar derivative clauses, for expression trees of any depth -/

/-- **der_sound.**  Let every operand element `n` be a differentiable function `x n` of a parameter
    with derivative `dx n` at `t` (`none`: the operand does not carry the key and is constant — its
    derivative is 0).  For every expression tree `e`, of any depth, if polymath leaves value and
    derivative unmasked at the point (`e.ok`), then the derivative polymath attaches
    (`e.der`, `0` when no operand carries the key) is the derivative of the value polymath computes. -/
theorem der_sound (e : E ℝ) (x : ℕ → ℝ → ℝ) (dx : ℕ → Option ℝ) (um : ℕ → Bool) (t : ℝ)
    (hx : ∀ n, HasDerivAt (x n) ((dx n).getD 0) t)
    (hok : e.ok (fun n => x n t) um = true) :
    HasDerivAt (fun s => e.val (fun n => x n s)) ((e.der (fun n => x n t) dx).getD 0) t := by
  induction e with
  | var i => exact hx i
  | lit c => exact hasDerivAt_const t c
  | add a b iha ihb =>
    simp only [E.ok, Bool.and_eq_true] at hok
    have ha := iha hok.1; have hb := ihb hok.2
    show HasDerivAt (fun s => a.val (fun n => x n s) + b.val (fun n => x n s)) ((dAdd _ _).getD 0) t
    rw [getD_dAdd]; exact ha.add hb
  | sub a b iha ihb =>
    simp only [E.ok, Bool.and_eq_true] at hok
    have ha := iha hok.1; have hb := ihb hok.2
    show HasDerivAt (fun s => a.val (fun n => x n s) - b.val (fun n => x n s)) ((dSub _ _).getD 0) t
    rw [getD_dSub]; exact ha.sub hb
  | mul a b iha ihb =>
    simp only [E.ok, Bool.and_eq_true] at hok
    have ha := iha hok.1; have hb := ihb hok.2
    show HasDerivAt (fun s => a.val (fun n => x n s) * b.val (fun n => x n s)) ((dMul _ _ _ _).getD 0) t
    rw [getD_dMul]; exact ha.mul hb
  | div a b iha ihb =>
    simp only [E.ok, Bool.and_eq_true, nz_real] at hok
    have ha := iha hok.1.1; have hb := ihb hok.1.2
    have hne := hok.2
    show HasDerivAt (fun s => a.val (fun n => x n s) / b.val (fun n => x n s)) ((dDiv _ _ _ _).getD 0) t
    rw [getD_dDiv]
    refine (ha.div hb hne).congr_deriv ?_
    field_simp
  | neg a iha =>
    simp only [E.ok] at hok
    have ha := iha hok
    show HasDerivAt (fun s => -(a.val (fun n => x n s))) ((Option.map (fun x => -x) _).getD 0) t
    rw [getD_map_neg]; exact ha.neg
  | abs a iha =>
    simp only [E.ok, Bool.and_eq_true, nz_real] at hok
    have ha := iha hok.1
    show HasDerivAt (fun s => |a.val (fun n => x n s)|) ((dFacR _ _).getD 0) t
    rw [getD_dFacR]
    rcases lt_or_gt_of_ne hok.2 with hneg | hpos
    · have h := (hasDerivAt_abs_neg hneg).comp t ha
      rw [sign_real_neg hneg]
      exact h.congr_deriv (by ring)
    · have h := (hasDerivAt_abs_pos hpos).comp t ha
      rw [sign_real_pos hpos]
      exact h.congr_deriv (by ring)
  | scale c a iha =>
    simp only [E.ok] at hok
    have ha := iha hok
    show HasDerivAt (fun s => a.val (fun n => x n s) * c) ((dFacR _ _).getD 0) t
    rw [getD_dFacR]; exact ha.mul_const c
  | divn a c iha =>
    simp only [E.ok, Bool.and_eq_true] at hok
    have ha := iha hok.1
    show HasDerivAt (fun s => a.val (fun n => x n s) / c) ((Option.map (fun x => x / c) _).getD 0) t
    rw [getD_map_div]; exact ha.div_const c
  | recip a iha =>
    simp only [E.ok, Bool.and_eq_true, nz_real] at hok
    have ha := iha hok.1
    have hne := hok.2
    show HasDerivAt (fun s => (Num.one : ℝ) / a.val (fun n => x n s)) ((dFac _ _).getD 0) t
    rw [getD_dFac]
    simp only [one_real]
    refine ((hasDerivAt_const t (1 : ℝ)).div ha hne).congr_deriv ?_
    field_simp
    ring
  | pow0 a _ =>
    show HasDerivAt (fun _ => (Num.one : ℝ)) ((Option.map (fun _ => (Num.zero : ℝ)) _).getD 0) t
    rw [getD_map_zero]; exact hasDerivAt_const t _
  | pow2 a iha =>
    simp only [E.ok] at hok
    have ha := iha hok
    show HasDerivAt (fun s => a.val (fun n => x n s) * a.val (fun n => x n s)) ((dFac _ _).getD 0) t
    rw [getD_dFac]
    refine (ha.mul ha).congr_deriv ?_
    simp only [two_real]; ring
  | pow3 a iha =>
    simp only [E.ok] at hok
    have ha := iha hok
    show HasDerivAt (fun s => a.val (fun n => x n s) * (a.val (fun n => x n s) * a.val (fun n => x n s)))
      ((dFac _ _).getD 0) t
    rw [getD_dFac]
    refine (ha.mul (ha.mul ha)).congr_deriv ?_
    simp only [ofInt_real, Pi.mul_apply]; push_cast; ring
  | pow4 a iha =>
    simp only [E.ok] at hok
    have ha := iha hok
    show HasDerivAt (fun s => (a.val (fun n => x n s) * a.val (fun n => x n s))
        * (a.val (fun n => x n s) * a.val (fun n => x n s))) ((dFac _ _).getD 0) t
    rw [getD_dFac]
    refine ((ha.mul ha).mul (ha.mul ha)).congr_deriv ?_
    simp only [ofInt_real, Pi.mul_apply]; push_cast; ring
  | powi k a iha =>
    simp only [E.ok, Bool.and_eq_true, Bool.or_eq_true, nz_real, decide_eq_true_eq] at hok
    have ha := iha hok.1
    show HasDerivAt (fun s => (a.val (fun n => x n s)) ^ ((k : ℤ) : ℝ)) ((dFac _ _).getD 0) t
    rw [getD_dFac]
    have hc : a.val (fun n => x n t) ≠ 0 ∨ (1 : ℝ) ≤ ((k : ℤ) : ℝ) := by
      rcases hok.2 with h | h
      · exact Or.inl h
      · exact Or.inr (by exact_mod_cast h)
    refine (ha.rpow_const hc).congr_deriv ?_
    simp only [ofInt_real, pow_real]; push_cast; ring
  | powg p a iha =>
    simp only [E.ok, Bool.and_eq_true, lt_real, zero_real] at hok
    have ha := iha hok.1
    show HasDerivAt (fun s => (a.val (fun n => x n s)) ^ p) ((dFac _ _).getD 0) t
    rw [getD_dFac]
    refine (ha.rpow_const (Or.inl (ne_of_gt hok.2))).congr_deriv ?_
    simp only [one_real, pow_real]; ring
  | sin a iha =>
    simp only [E.ok] at hok
    have ha := iha hok
    show HasDerivAt (fun s => Real.sin (a.val (fun n => x n s))) ((dFac _ _).getD 0) t
    rw [getD_dFac]; exact ha.sin
  | cos a iha =>
    simp only [E.ok] at hok
    have ha := iha hok
    show HasDerivAt (fun s => Real.cos (a.val (fun n => x n s))) ((dFac _ _).getD 0) t
    rw [getD_dFac]; exact ha.cos
  | tan a iha =>
    simp only [E.ok, Bool.and_eq_true, nz_real] at hok
    have ha := iha hok.1
    have hne : Real.cos (a.val (fun n => x n t)) ≠ 0 := hok.2
    show HasDerivAt (fun s => Real.tan (a.val (fun n => x n s))) ((dFac _ _).getD 0) t
    rw [getD_dFac]
    refine ((Real.hasDerivAt_tan hne).comp t ha).congr_deriv ?_
    show _ = Real.cos (a.val (fun n => x n t)) ^ (((-2 : ℤ) : ℝ)) * _
    rw [Real.rpow_intCast, zpow_neg, zpow_ofNat]
    field_simp
  | asin a iha =>
    simp only [E.ok, Bool.and_eq_true, lt_real, one_real, ofInt_real] at hok
    have ha := iha hok.1.1
    have h1 : a.val (fun n => x n t) ≠ -1 := by have := hok.1.2; push_cast at this; exact ne_of_gt this
    have h2 : a.val (fun n => x n t) ≠ 1 := ne_of_lt hok.2
    show HasDerivAt (fun s => Real.arcsin (a.val (fun n => x n s))) ((dFac _ _).getD 0) t
    rw [getD_dFac]
    refine ((Real.hasDerivAt_arcsin h1 h2).comp t ha).congr_deriv ?_
    simp only [one_real, sqrt_real]; ring_nf
  | acos a iha =>
    simp only [E.ok, Bool.and_eq_true, lt_real, one_real, ofInt_real] at hok
    have ha := iha hok.1.1
    have h1 : a.val (fun n => x n t) ≠ -1 := by have := hok.1.2; push_cast at this; exact ne_of_gt this
    have h2 : a.val (fun n => x n t) ≠ 1 := ne_of_lt hok.2
    show HasDerivAt (fun s => Real.arccos (a.val (fun n => x n s))) ((dFac _ _).getD 0) t
    rw [getD_dFac]
    refine ((Real.hasDerivAt_arccos h1 h2).comp t ha).congr_deriv ?_
    simp only [one_real, sqrt_real]; ring_nf
  | atan a iha =>
    simp only [E.ok] at hok
    have ha := iha hok
    show HasDerivAt (fun s => Real.arctan (a.val (fun n => x n s))) ((dFac _ _).getD 0) t
    rw [getD_dFac]
    refine ha.arctan.congr_deriv ?_
    simp only [one_real]; ring
  | exp a iha =>
    simp only [E.ok] at hok
    have ha := iha hok
    show HasDerivAt (fun s => Real.exp (a.val (fun n => x n s))) ((dFac _ _).getD 0) t
    rw [getD_dFac]
    exact ha.exp
  | log a iha =>
    simp only [E.ok, Bool.and_eq_true, lt_real, zero_real] at hok
    have ha := iha hok.1
    show HasDerivAt (fun s => Real.log (a.val (fun n => x n s)))
      ((Option.map (fun y => y / a.val (fun n => x n t)) _).getD 0) t
    rw [getD_map_div]
    exact ha.log (ne_of_gt hok.2)
  | sqrt a iha =>
    simp only [E.ok, Bool.and_eq_true, lt_real, zero_real] at hok
    have ha := iha hok.1
    have hpos := hok.2
    show HasDerivAt (fun s => Real.sqrt (a.val (fun n => x n s))) ((dFac _ _).getD 0) t
    rw [getD_dFac]
    refine (ha.sqrt (ne_of_gt hpos)).congr_deriv ?_
    have : Real.sqrt (a.val (fun n => x n t)) ≠ 0 := (Real.sqrt_pos.mpr hpos).ne'
    show _ = (Num.one : ℝ) / Real.sqrt (a.val fun n => x n t) * (1 / 2) * _
    simp only [one_real]
    field_simp
  | atan2 y z ihy ihz =>
    simp only [E.ok, Bool.and_eq_true, Bool.or_eq_true, lt_real, nz_real, zero_real] at hok
    have hy := ihy hok.1.1; have hz := ihz hok.1.2
    show HasDerivAt (fun s => atan2R (y.val (fun n => x n s)) (z.val (fun n => x n s)))
      ((dAtan2 _ _ _ _).getD 0) t
    rw [getD_dAtan2]
    exact hasDerivAt_atan2R hy hz hok.2
  | sgn a iha =>
    simp only [E.ok, Bool.and_eq_true, nz_real] at hok
    exact hasDerivAt_step _ _ (iha hok.1) hok.2
  | isneg a iha =>
    simp only [E.ok, Bool.and_eq_true, nz_real] at hok
    exact hasDerivAt_step _ _ (iha hok.1) hok.2


/-- non-vacuity of `der_sound`: `sqrt(x0) * sin(x1) / x2` with all three operands carrying the key, at
    the point (4, 0, 2), satisfies the hypotheses. -/
example : (E.div (E.mul (E.sqrt (E.var 0)) (E.sin (E.var 1))) (E.var 2) : E ℝ).ok
    (fun n => if n = 0 then 4 else if n = 1 then 0 else 2) (fun _ => true) = true := by
  simp [E.ok, E.val]

/-! ### Keys: union of the operands' keys; an operand lacking the key is a constant -/

section keys
variable (a b : ℝ) (da db : Option ℝ)
theorem isSome_dAdd : (dAdd da db).isSome = (da.isSome || db.isSome) := by cases da <;> cases db <;> rfl
theorem isSome_dSub : (dSub da db).isSome = (da.isSome || db.isSome) := by cases da <;> cases db <;> rfl
theorem isSome_dMul : (dMul a da b db).isSome = (da.isSome || db.isSome) := by cases da <;> cases db <;> rfl
theorem isSome_dDiv : (dDiv a da b db).isSome = (da.isSome || db.isSome) := by cases da <;> cases db <;> rfl
theorem isSome_dAtan2 : (dAtan2 a da b db).isSome = (da.isSome || db.isSome) := by cases da <;> cases db <;> rfl
theorem isSome_dFac : (dFac a da).isSome = da.isSome := by cases da <;> rfl
theorem isSome_dFacR : (dFacR a da).isSome = da.isSome := by cases da <;> rfl
end keys

/-- **keys_union.**  The result carries a derivative for the key iff some operand element it is built
    from carries one (`_add_derivs`, `_sub_derivs`, `_mul_derivs`, `_div_derivs`, arctan2: union of the
    key sets; every unary clause keeps the key set), for every tree. -/
theorem keys_union (e : E ℝ) (env : ℕ → ℝ) (denv : ℕ → Option ℝ) :
    (e.der env denv).isSome = e.vars.any fun i => (denv i).isSome := by
  induction e <;>
    simp [E.der, E.vars, isSome_dAdd, isSome_dSub, isSome_dMul, isSome_dDiv, isSome_dAtan2, isSome_dFac,
      isSome_dFacR, List.any_append, *]

/-- **missing_key_is_constant.**  If no operand under `e` carries the key, polymath attaches no
    derivative (and by `der_sound` with `getD 0` the true derivative is 0: the operands are constants). -/
theorem missing_key_is_constant (e : E ℝ) (env : ℕ → ℝ) (denv : ℕ → Option ℝ)
    (h : ∀ i ∈ e.vars, denv i = none) : e.der env denv = none := by
  have := keys_union e env denv
  rw [Option.eq_none_iff_forall_ne_some]
  intro x hx
  rw [hx] at this
  simp only [Option.isSome_some] at this
  obtain ⟨i, hi, hs⟩ := List.any_eq_true.mp this.symm
  rw [h i hi] at hs
  exact absurd hs (by simp)

/-- the three cases of the merges, spelled out: a key on one side only is taken over unchanged
    (negated on the right of a subtraction), never padded -/
theorem merge_one_sided (a b x : ℝ) :
    dAdd (some x) none = some x ∧ dAdd none (some x) = some x ∧
    dSub (some x) none = some x ∧ dSub none (some x) = some (-x) ∧
    dMul a (some x) b none = some (x * b) ∧ dMul a none b (some x) = some (a * x) ∧
    dDiv a (some x) b none = some (x * (1 / b)) ∧ dDiv a none b (some x) = some (-(a * (x * (1 / b) * (1 / b)))) := by
  simp [dAdd, dSub, dMul, dDiv]

/-- **wod_strips / recursive_false_strips.**  Evaluated on operands stripped of their derivatives
    (`wod`, `without_derivs`, `recursive=False`), every tree yields an object without derivatives. -/
theorem wod_strips (e : E ℝ) (env : ℕ → ℝ) : e.der env (fun _ => none) = none :=
  missing_key_is_constant e env _ (fun _ _ => rfl)

/-! ### Vector / matrix / quaternion formulas of the source = component derivatives

  `Rep env denv um a es` (Lemmas/DualVec.lean): the item `a` computed by the source's item-level
  formula has the values, the derivative components and (at most) the unmasked flag of the component
  expressions `es`.  Each theorem below: if the inputs are represented by component expressions, the
  output of the *source's formula* (`Val.…`, the definitions the driver executes) is represented by
  the component expansion of the operation — for arbitrary component expressions, i.e. at any depth of
  composition.  With `der_sound` on the components (`rep_sound`) the derivative transfers. -/

section rep
variable {env : ℕ → ℝ} {denv : ℕ → Option ℝ} {um : ℕ → Bool}

attribute [local simp] Val.add Val.sub Val.neg Val.nscale Val.ndiv Val.smul Val.sdiv Val.dot Val.normSq Val.norm
  Val.cross3 Val.cross2 Val.cross3V Val.cross2V Val.outer Val.outerV Val.emul Val.comp Val.slice Val.cat Val.qmul Val.qmulV
  Val.qconj Val.qconjV Val.rot Val.rotV Val.matmul Val.matmulV Val.rows Val.col Val.inverse Val.inv2V Val.det2
  Val.transpose Val.transposeV Val.widen
  bilin linmap mergeAdd zipAdd zipSub zipMul sumL dotV Val.dvec
  dot3E normSq3E cross3E qmulE matmul2E inv2E rotE
  E.val E.der E.ok getD_dAdd getD_dSub getD_dMul getD_dDiv getD_dFac getD_dFacR getD_map_neg getD_map_div

syntax "rep2 " ident ident ident ident : tactic
macro_rules
  | `(tactic| rep2 $a $b $ha $hb) => `(tactic| (
    obtain ⟨va, da, oka⟩ := $a
    obtain ⟨vb, db, okb⟩ := $b
    obtain ⟨hva, hda, hoka⟩ := $ha
    obtain ⟨hvb, hdb, hokb⟩ := $hb
    simp only [List.map] at hva hvb
    subst hva hvb
    refine ⟨?_, ?_, ?_⟩
    · simp
    · cases da <;> cases db <;> simp at hda hdb ⊢ <;> (try subst_vars) <;> (try simp_all) <;>
        (try (repeat' apply And.intro)) <;> (try ring)
    · intro h
      simp at h hoka hokb ⊢
      simp_all))

syntax "rep1 " ident ident : tactic
macro_rules
  | `(tactic| rep1 $a $ha) => `(tactic| (
    obtain ⟨va, da, oka⟩ := $a
    obtain ⟨hva, hda, hoka⟩ := $ha
    simp only [List.map] at hva
    subst hva
    refine ⟨?_, ?_, ?_⟩
    · simp
    · cases da <;> simp at hda ⊢ <;> (try subst_vars) <;> (try simp_all) <;>
        (try (repeat' apply And.intro)) <;> (try ring)
    · intro h
      simp at h hoka ⊢
      simp_all))

/-- an operand element (all components carry the key, or none does) is represented by its variables -/
theorem rep_opd3 (i j k : ℕ) (h : ((denv i).isSome = (denv j).isSome) ∧ ((denv j).isSome = (denv k).isSome)) :
    Rep env denv um (Val.opd [i, j, k] env denv um) [.var i, .var j, .var k] := by
  refine ⟨by simp [Val.opd], ?_, ?_⟩
  · rcases hi : denv i with _ | x <;> rcases hj : denv j with _ | y <;> rcases hk : denv k with _ | z <;>
      simp_all [Val.opd, Val.dvec, E.der]
  · intro h; simp [Val.opd] at h; simp [E.ok, h]

theorem rep_opd1 (i : ℕ) : Rep env denv um (Val.opd [i] env denv um) [.var i] := by
  refine ⟨by simp [Val.opd], ?_, ?_⟩
  · rcases hi : denv i with _ | x <;> simp_all [Val.opd, Val.dvec, E.der]
  · intro h; simp [Val.opd] at h; simp [E.ok, h]

/-! scalars (items of one component) -/
theorem rep_add1 {a b : Val ℝ} {a0 b0 : E ℝ} (ha : Rep env denv um a [a0]) (hb : Rep env denv um b [b0]) :
    Rep env denv um (Val.add a b) [.add a0 b0] := by rep2 a b ha hb
theorem rep_sub1 {a b : Val ℝ} {a0 b0 : E ℝ} (ha : Rep env denv um a [a0]) (hb : Rep env denv um b [b0]) :
    Rep env denv um (Val.sub a b) [.sub a0 b0] := by rep2 a b ha hb
theorem rep_smul1 {a s : Val ℝ} {a0 s0 : E ℝ} (ha : Rep env denv um a [a0]) (hs : Rep env denv um s [s0]) :
    Rep env denv um (Val.smul a s) [.mul a0 s0] := by rep2 a s ha hs
theorem rep_sdiv1 {a s : Val ℝ} {a0 s0 : E ℝ} (ha : Rep env denv um a [a0]) (hs : Rep env denv um s [s0]) :
    Rep env denv um (Val.sdiv a s) [.div a0 s0] := by rep2 a s ha hs
theorem rep_neg1 {a : Val ℝ} {a0 : E ℝ} (ha : Rep env denv um a [a0]) :
    Rep env denv um (Val.neg a) [.neg a0] := by rep1 a ha
theorem rep_nscale1 {a : Val ℝ} {a0 : E ℝ} (c : ℝ) (ha : Rep env denv um a [a0]) :
    Rep env denv um (Val.nscale c a) [.scale c a0] := by rep1 a ha
theorem rep_ndiv1 {a : Val ℝ} {a0 : E ℝ} (c : ℝ) (ha : Rep env denv um a [a0]) :
    Rep env denv um (Val.ndiv a c) [.divn a0 c] := by rep1 a ha

/-! 3-vectors: `+ - unary- *number /number *Scalar /Scalar` (qube.py arithmetic on items) -/
theorem rep_add3 {a b : Val ℝ} {a0 a1 a2 b0 b1 b2 : E ℝ}
    (ha : Rep env denv um a [a0, a1, a2]) (hb : Rep env denv um b [b0, b1, b2]) :
    Rep env denv um (Val.add a b) [.add a0 b0, .add a1 b1, .add a2 b2] := by rep2 a b ha hb
theorem rep_sub3 {a b : Val ℝ} {a0 a1 a2 b0 b1 b2 : E ℝ}
    (ha : Rep env denv um a [a0, a1, a2]) (hb : Rep env denv um b [b0, b1, b2]) :
    Rep env denv um (Val.sub a b) [.sub a0 b0, .sub a1 b1, .sub a2 b2] := by rep2 a b ha hb
theorem rep_neg3 {a : Val ℝ} {a0 a1 a2 : E ℝ} (ha : Rep env denv um a [a0, a1, a2]) :
    Rep env denv um (Val.neg a) [.neg a0, .neg a1, .neg a2] := by rep1 a ha
theorem rep_nscale3 {a : Val ℝ} {a0 a1 a2 : E ℝ} (c : ℝ) (ha : Rep env denv um a [a0, a1, a2]) :
    Rep env denv um (Val.nscale c a) [.scale c a0, .scale c a1, .scale c a2] := by rep1 a ha
theorem rep_ndiv3 {a : Val ℝ} {a0 a1 a2 : E ℝ} (c : ℝ) (ha : Rep env denv um a [a0, a1, a2]) :
    Rep env denv um (Val.ndiv a c) [.divn a0 c, .divn a1 c, .divn a2 c] := by rep1 a ha
/-- `_mul_by_scalar` / `_mul_derivs` on a vector: each component is the scalar product rule -/
theorem rep_smul3 {a s : Val ℝ} {a0 a1 a2 s0 : E ℝ}
    (ha : Rep env denv um a [a0, a1, a2]) (hs : Rep env denv um s [s0]) :
    Rep env denv um (Val.smul a s) [.mul a0 s0, .mul a1 s0, .mul a2 s0] := by rep2 a s ha hs
/-- `_div_by_scalar` / `_div_derivs` on a vector: each component is the scalar quotient rule -/
theorem rep_sdiv3 {a s : Val ℝ} {a0 a1 a2 s0 : E ℝ}
    (ha : Rep env denv um a [a0, a1, a2]) (hs : Rep env denv um s [s0]) :
    Rep env denv um (Val.sdiv a s) [.div a0 s0, .div a1 s0, .div a2 s0] := by rep2 a s ha hs

/-! products -/
/-- `Qube.dot`: `dot(da, b) + dot(a, db)` is the derivative of `a0 b0 + a1 b1 + a2 b2` -/
theorem rep_dot3 {a b : Val ℝ} {a0 a1 a2 b0 b1 b2 : E ℝ}
    (ha : Rep env denv um a [a0, a1, a2]) (hb : Rep env denv um b [b0, b1, b2]) :
    Rep env denv um (Val.dot a b) [dot3E [a0, a1, a2] [b0, b1, b2]] := by rep2 a b ha hb
/-- `Qube.cross`: `cross(da, b) + cross(a, db)` componentwise -/
theorem rep_cross3 {a b : Val ℝ} {a0 a1 a2 b0 b1 b2 : E ℝ}
    (ha : Rep env denv um a [a0, a1, a2]) (hb : Rep env denv um b [b0, b1, b2]) :
    Rep env denv um (Val.cross3 a b) (cross3E [a0, a1, a2] [b0, b1, b2]) := by rep2 a b ha hb
theorem rep_cross2 {a b : Val ℝ} {a0 a1 b0 b1 : E ℝ}
    (ha : Rep env denv um a [a0, a1]) (hb : Rep env denv um b [b0, b1]) :
    Rep env denv um (Val.cross2 a b) [.sub (.mul a0 b1) (.mul a1 b0)] := by rep2 a b ha hb
/-- `Vector.element_mul` -/
theorem rep_emul3 {a b : Val ℝ} {a0 a1 a2 b0 b1 b2 : E ℝ}
    (ha : Rep env denv um a [a0, a1, a2]) (hb : Rep env denv um b [b0, b1, b2]) :
    Rep env denv um (Val.emul a b) [.mul a0 b0, .mul a1 b1, .mul a2 b2] := by rep2 a b ha hb
/-- `Qube.outer` of two 2-vectors -/
theorem rep_outer2 {a b : Val ℝ} {a0 a1 b0 b1 : E ℝ}
    (ha : Rep env denv um a [a0, a1]) (hb : Rep env denv um b [b0, b1]) :
    Rep env denv um (Val.outer a b) [.mul a0 b0, .mul a0 b1, .mul a1 b0, .mul a1 b1] := by rep2 a b ha hb
/-- `Qube.norm_sq`: `dot(2 a, da)` -/
theorem rep_normSq3 {a : Val ℝ} {a0 a1 a2 : E ℝ} (ha : Rep env denv um a [a0, a1, a2]) :
    Rep env denv um (Val.normSq a) [normSq3E [a0, a1, a2]] := by rep1 a ha
/-- `Quaternion.__mul__`: `da * b + a * db` with `mul_values` -/
theorem rep_qmul {a b : Val ℝ} {a0 a1 a2 a3 b0 b1 b2 b3 : E ℝ}
    (ha : Rep env denv um a [a0, a1, a2, a3]) (hb : Rep env denv um b [b0, b1, b2, b3]) :
    Rep env denv um (Val.qmul a b) (qmulE [a0, a1, a2, a3] [b0, b1, b2, b3]) := by rep2 a b ha hb
theorem rep_qconj {a : Val ℝ} {a0 a1 a2 a3 : E ℝ} (ha : Rep env denv um a [a0, a1, a2, a3]) :
    Rep env denv um (Val.qconj a) [a0, .neg a1, .neg a2, .neg a3] := by rep1 a ha

/-! structure -/
theorem rep_comp3 {a : Val ℝ} {a0 a1 a2 : E ℝ} (ha : Rep env denv um a [a0, a1, a2]) :
    Rep env denv um (Val.comp 0 a) [a0] ∧ Rep env denv um (Val.comp 1 a) [a1] ∧ Rep env denv um (Val.comp 2 a) [a2] := by
  refine ⟨?_, ?_, ?_⟩ <;> rep1 a ha
/-- `from_scalars`: union of the keys, zeros for a part lacking the key -/
theorem rep_cat {a b : Val ℝ} {a0 b0 : E ℝ} (ha : Rep env denv um a [a0]) (hb : Rep env denv um b [b0]) :
    Rep env denv um (Val.cat a b) [a0, b0] := by rep2 a b ha hb
theorem rep_cat21 {a b : Val ℝ} {a0 a1 b0 : E ℝ} (ha : Rep env denv um a [a0, a1]) (hb : Rep env denv um b [b0]) :
    Rep env denv um (Val.cat a b) [a0, a1, b0] := by rep2 a b ha hb

end rep

section rep2
variable {env : ℕ → ℝ} {denv : ℕ → Option ℝ} {um : ℕ → Bool}

theorem getD_map_zero0 (d : Option ℝ) : (d.map fun _ => (0 : ℝ)).getD 0 = 0 := by cases d <;> simp

/-- the attached derivative depends on the operands' derivatives only through "absent = 0" -/
theorem E.der_getD_congr (f : E ℝ) (env : ℕ → ℝ) (d1 d2 : ℕ → Option ℝ)
    (h : ∀ i, (d1 i).getD 0 = (d2 i).getD 0) :
    (f.der env d1).getD 0 = (f.der env d2).getD 0 := by
  induction f <;>
    simp [E.der, getD_dAdd, getD_dSub, getD_dMul, getD_dDiv, getD_dFac, getD_dFacR, getD_map_neg, getD_map_div,
      getD_map_zero0, getD_dAtan2, *]

theorem E.ok_mono (f : E ℝ) (env : ℕ → ℝ) (u1 u2 : ℕ → Bool) (h : ∀ i, u1 i = true → u2 i = true)
    (h1 : f.ok env u1 = true) : f.ok env u2 = true := by
  induction f <;> simp_all [E.ok]

/-- every scalar clause (layer 1) applied to a Scalar item: template `f` over `var 0` -/
theorem rep_sc1 {a : Val ℝ} {a0 : E ℝ} (f : E ℝ) (ha : Rep env denv um a [a0]) :
    Rep env denv um (Val.sc1 f a) [f.subst fun _ => a0] := by
  obtain ⟨va, da, oka⟩ := a
  obtain ⟨hva, hda, hoka⟩ := ha
  simp only [List.map] at hva
  subst hva
  refine ⟨?_, ?_, ?_⟩
  · simp [Val.sc1, E.val_subst]
  · have key : ∀ i : ℕ, ((fun _ : ℕ => a0.der env denv) i).getD 0 = ((fun _ : ℕ => da.bind (·.head?)) i).getD 0 := by
      intro _
      cases da
      · simp_all [Val.dvec]
      · simp only [Val.dvec, Option.getD_some] at hda
        subst hda
        simp
    have := E.der_getD_congr f (fun _ => a0.val env) _ _ key
    simp only [List.map, E.der_subst, this]
    cases hf : f.der (fun _ => a0.val env) (fun _ => da.bind (·.head?)) <;> simp [Val.sc1, Val.dvec, hf]
  · intro h
    simp only [Val.sc1] at h
    simp only [List.mem_singleton, forall_eq, E.ok_subst]
    refine E.ok_mono f _ _ _ ?_ h
    intro _ hh
    simpa using hoka hh

/-- two-argument scalar clauses (arctan2, and `+ - * /` between Scalars): template over `var 0`, `var 1` -/
theorem rep_sc2 {a b : Val ℝ} {a0 b0 : E ℝ} (f : E ℝ) (ha : Rep env denv um a [a0]) (hb : Rep env denv um b [b0]) :
    Rep env denv um (Val.sc2 f a b) [f.subst fun i => if i = 0 then a0 else b0] := by
  obtain ⟨va, da, oka⟩ := a
  obtain ⟨vb, db, okb⟩ := b
  obtain ⟨hva, hda, hoka⟩ := ha
  obtain ⟨hvb, hdb, hokb⟩ := hb
  simp only [List.map] at hva hvb
  subst hva hvb
  have hval : (fun i : ℕ => (if i = 0 then a0 else b0).val env) = fun i : ℕ => if i = 0 then a0.val env else b0.val env := by
    funext i; split <;> rfl
  refine ⟨?_, ?_, ?_⟩
  · simp [Val.sc2, E.val_subst, hval]
  · have key : ∀ i : ℕ, ((fun i : ℕ => (if i = 0 then a0 else b0).der env denv) i).getD 0
        = ((fun i : ℕ => if i = 0 then da.bind (·.head?) else db.bind (·.head?)) i).getD 0 := by
      intro i
      by_cases hi : i = 0
      · simp only [hi, if_true]
        cases da
        · simp_all [Val.dvec]
        · simp only [Val.dvec, Option.getD_some] at hda
          subst hda
          simp
      · simp only [hi, if_false]
        cases db
        · simp_all [Val.dvec]
        · simp only [Val.dvec, Option.getD_some] at hdb
          subst hdb
          simp
    have := E.der_getD_congr f (fun i => if i = 0 then a0.val env else b0.val env) _ _ key
    simp only [List.map, E.der_subst, hval, this]
    cases hf : f.der (fun i => if i = 0 then a0.val env else b0.val env)
      (fun i => if i = 0 then da.bind (·.head?) else db.bind (·.head?)) <;> simp [Val.sc2, Val.dvec, hf]
  · intro h
    simp only [Val.sc2] at h
    simp only [List.mem_singleton, forall_eq, E.ok_subst, hval]
    refine E.ok_mono f _ _ _ ?_ h
    intro i hh
    by_cases hi : i = 0
    · simp only [hi, if_true] at hh ⊢; simpa using hoka hh
    · simp only [hi, if_false] at hh ⊢; simpa using hokb hh

/-- **rep_sound.**  If an item computed by the source's formulas is represented by component
    expressions at every parameter value (values) and at `t` (derivative, mask), and it is unmasked at
    `t`, then each attached derivative component is the derivative of the corresponding value component. -/
theorem rep_sound (x : ℕ → ℝ → ℝ) (dx : ℕ → Option ℝ) (um : ℕ → Bool) (t : ℝ)
    (hx : ∀ n, HasDerivAt (x n) ((dx n).getD 0) t)
    (run : (ℕ → ℝ) → Val ℝ) (es : List (E ℝ))
    (hrep : ∀ s, Rep (fun n => x n s) dx um (run fun n => x n s) es)
    (hok : (run fun n => x n t).ok = true) (j : ℕ) (hj : j < es.length) :
    HasDerivAt (fun s => ((run fun n => x n s).v).getD j 0) (((run fun n => x n t).dvec).getD j 0) t := by
  have hv : (fun s => ((run fun n => x n s).v).getD j 0) = fun s => (es[j]).val (fun n => x n s) := by
    funext s
    rw [(hrep s).v]
    simp [List.getD, hj]
  have hd : ((run fun n => x n t).dvec).getD j 0 = ((es[j]).der (fun n => x n t) dx).getD 0 := by
    rw [← (hrep t).d]
    simp [List.getD, hj]
  rw [hv, hd]
  exact der_sound _ x dx um t hx ((hrep t).ok hok _ (List.getElem_mem hj))

end rep2

section rep3
variable {env : ℕ → ℝ} {denv : ℕ → Option ℝ} {um : ℕ → Bool}
attribute [local simp] Val.add Val.sub Val.neg Val.nscale Val.ndiv Val.smul Val.sdiv Val.dot Val.normSq Val.norm
  Val.cross3 Val.cross2 Val.cross3V Val.cross2V Val.outer Val.outerV Val.emul Val.comp Val.slice Val.cat Val.qmul Val.qmulV
  Val.qconj Val.qconjV Val.rot Val.rotV Val.matmul Val.matmulV Val.rows Val.col Val.inverse Val.inv2V Val.det2
  Val.transpose Val.transposeV Val.widen
  bilin linmap mergeAdd zipAdd zipSub zipMul sumL dotV Val.dvec
  dot3E normSq3E cross3E qmulE matmul2E inv2E rotE
  E.val E.der E.ok getD_dAdd getD_dSub getD_dMul getD_dDiv getD_dFac getD_dFacR getD_map_neg getD_map_div

theorem rep_matmul2 {a b : Val ℝ} {a0 a1 a2 a3 b0 b1 b2 b3 : E ℝ}
    (ha : Rep env denv um a [a0, a1, a2, a3]) (hb : Rep env denv um b [b0, b1, b2, b3]) :
    Rep env denv um (Val.matmul 2 2 2 a b) (matmul2E [a0, a1, a2, a3] [b0, b1, b2, b3]) := by
  obtain ⟨va, da, oka⟩ := a
  obtain ⟨vb, db, okb⟩ := b
  obtain ⟨hva, hda, hoka⟩ := ha
  obtain ⟨hvb, hdb, hokb⟩ := hb
  simp only [List.map] at hva hvb
  subst hva hvb
  refine ⟨?_, ?_, ?_⟩
  · simp [List.range, List.range.loop]
  · cases da <;> cases db <;> simp [List.range, List.range.loop] at hda hdb ⊢ <;> (try subst_vars) <;>
      (try simp_all [List.range, List.range.loop]) <;> (try (repeat' apply And.intro)) <;> (try ring)
  · intro h
    simp at h hoka hokb ⊢
    simp_all
theorem rep_norm3 {a : Val ℝ} {a0 a1 a2 : E ℝ} (ha : Rep env denv um a [a0, a1, a2]) :
    Rep env denv um (Val.norm a) [.sqrt (normSq3E [a0, a1, a2])] := by
  obtain ⟨va, da, oka⟩ := a
  obtain ⟨hva, hda, hoka⟩ := ha
  simp only [List.map] at hva
  subst hva
  refine ⟨?_, ?_, ?_⟩
  · simp
  · cases da <;> simp at hda ⊢ <;> (try subst_vars) <;> (try simp_all) <;> (try ring)
  · intro h
    simp at h hoka ⊢
    have h2 : Real.sqrt (a0.val env * a0.val env + a1.val env * a1.val env + a2.val env * a2.val env) ≠ 0 := h.2
    have h2 := Real.sqrt_ne_zero'.mp h2
    simp_all

theorem rep_rot {a : Val ℝ} {a0 : E ℝ} (axis : ℕ) (ha : Rep env denv um a [a0]) :
    Rep env denv um (Val.rot axis a) (rotE axis a0) := by
  obtain ⟨va, da, oka⟩ := a
  obtain ⟨hva, hda, hoka⟩ := ha
  simp only [List.map] at hva
  subst hva
  rcases axis with _ | _ | n
  all_goals
    refine ⟨?_, ?_, ?_⟩
    · simp
    · cases da <;> simp at hda ⊢ <;> (try subst_vars) <;> (try simp_all)
    · intro h
      simp at h hoka ⊢
      simp_all
theorem rep_inv2 {a : Val ℝ} {a0 a1 a2 a3 : E ℝ} (ha : Rep env denv um a [a0, a1, a2, a3]) :
    Rep env denv um (Val.inverse 2 a) (inv2E [a0, a1, a2, a3]) := by
  obtain ⟨va, da, oka⟩ := a
  obtain ⟨hva, hda, hoka⟩ := ha
  simp only [List.map] at hva
  subst hva
  refine ⟨?_, ?_, ?_⟩
  · simp
  · by_cases hdet : a0.val env * a3.val env - a1.val env * a2.val env = 0
    · cases da <;> simp [List.range, List.range.loop, hdet] at hda ⊢ <;> (try subst_vars) <;>
        (try simp_all [List.range, List.range.loop])
    · cases da <;> simp [List.range, List.range.loop] at hda ⊢ <;> (try subst_vars) <;>
        (try simp_all [List.range, List.range.loop]) <;> (try (repeat' apply And.intro)) <;>
        (try (field_simp; ring))
  · intro h
    simp at h hoka ⊢
    simp_all

/-! composite methods are the same compositions as in the source, so their representation is the
    composition of the lemmas above (this is how the lemmas compose for any program) -/

/-- `Vector.unit`: `self / self.norm()` -/
theorem rep_unit3 {a : Val ℝ} {a0 a1 a2 : E ℝ} (ha : Rep env denv um a [a0, a1, a2]) :
    Rep env denv um (Val.unit a)
      [.div a0 (.sqrt (normSq3E [a0, a1, a2])), .div a1 (.sqrt (normSq3E [a0, a1, a2])),
       .div a2 (.sqrt (normSq3E [a0, a1, a2]))] :=
  rep_sdiv3 ha (rep_norm3 ha)

/-- `Vector.proj`: `u * self.dot(u)` with `u = arg.unit()` -/
theorem rep_proj3 {a b : Val ℝ} {a0 a1 a2 b0 b1 b2 : E ℝ}
    (ha : Rep env denv um a [a0, a1, a2]) (hb : Rep env denv um b [b0, b1, b2]) :
    ∃ u0 u1 u2 : E ℝ, Rep env denv um (Val.unit b) [u0, u1, u2] ∧
      Rep env denv um (Val.proj a b)
        [.mul u0 (dot3E [a0, a1, a2] [u0, u1, u2]), .mul u1 (dot3E [a0, a1, a2] [u0, u1, u2]),
         .mul u2 (dot3E [a0, a1, a2] [u0, u1, u2])] :=
  ⟨_, _, _, rep_unit3 hb, rep_smul3 (rep_unit3 hb) (rep_dot3 ha (rep_unit3 hb))⟩

/-- `Vector.perp`: `self - u * self.dot(u)` -/
theorem rep_perp3 {a b : Val ℝ} {a0 a1 a2 b0 b1 b2 : E ℝ}
    (ha : Rep env denv um a [a0, a1, a2]) (hb : Rep env denv um b [b0, b1, b2]) :
    ∃ u0 u1 u2 : E ℝ, Rep env denv um (Val.unit b) [u0, u1, u2] ∧
      Rep env denv um (Val.perp a b)
        [.sub a0 (.mul u0 (dot3E [a0, a1, a2] [u0, u1, u2])), .sub a1 (.mul u1 (dot3E [a0, a1, a2] [u0, u1, u2])),
         .sub a2 (.mul u2 (dot3E [a0, a1, a2] [u0, u1, u2]))] :=
  ⟨_, _, _, rep_unit3 hb, rep_sub3 ha (rep_smul3 (rep_unit3 hb) (rep_dot3 ha (rep_unit3 hb)))⟩

/-- `Vector.ucross` -/
theorem rep_ucross3 {a b : Val ℝ} {a0 a1 a2 b0 b1 b2 : E ℝ}
    (ha : Rep env denv um a [a0, a1, a2]) (hb : Rep env denv um b [b0, b1, b2]) :
    ∃ c0 c1 c2 : E ℝ, cross3E [a0, a1, a2] [b0, b1, b2] = [c0, c1, c2] ∧
      Rep env denv um (Val.ucross a b)
        [.div c0 (.sqrt (normSq3E [c0, c1, c2])), .div c1 (.sqrt (normSq3E [c0, c1, c2])),
         .div c2 (.sqrt (normSq3E [c0, c1, c2]))] :=
  ⟨_, _, _, rfl, rep_unit3 (rep_cross3 ha hb)⟩

/-- end-to-end instance: the derivative polymath attaches to `a.unit()` for a 3-vector operand is the
    derivative of each component of the unit vector wherever it is unmasked. -/
theorem unit3_sound (x : ℕ → ℝ → ℝ) (dx : ℕ → Option ℝ) (um : ℕ → Bool) (t : ℝ)
    (hx : ∀ n, HasDerivAt (x n) ((dx n).getD 0) t)
    (hk : ((dx 0).isSome = (dx 1).isSome) ∧ ((dx 1).isSome = (dx 2).isSome))
    (hok : (Val.unit (Val.opd [0, 1, 2] (fun n => x n t) dx um)).ok = true) (j : ℕ) (hj : j < 3) :
    HasDerivAt (fun s => ((Val.unit (Val.opd [0, 1, 2] (fun n => x n s) dx um)).v).getD j 0)
      (((Val.unit (Val.opd [0, 1, 2] (fun n => x n t) dx um)).dvec).getD j 0) t :=
  rep_sound x dx um t hx (fun env => Val.unit (Val.opd [0, 1, 2] env dx um)) _
    (fun _ => rep_unit3 (rep_opd3 0 1 2 hk)) hok j hj

end rep3

section rep4
variable {env : ℕ → ℝ} {denv : ℕ → Option ℝ} {um : ℕ → Bool}

attribute [local simp] Val.add Val.sub Val.neg Val.nscale Val.ndiv Val.smul Val.sdiv Val.dot Val.normSq Val.norm
  Val.cross3 Val.cross2 Val.cross3V Val.cross2V Val.outer Val.outerV Val.emul Val.comp Val.slice Val.cat Val.qmul Val.qmulV
  Val.qconj Val.qconjV Val.rot Val.rotV Val.matmul Val.matmulV Val.rows Val.col Val.inverse Val.inv2V Val.det2
  Val.transpose Val.transposeV Val.widen
  bilin linmap mergeAdd zipAdd zipSub zipMul sumL dotV Val.dvec
  dot3E normSq3E cross3E qmulE matmul2E inv2E rotE
  E.val E.der E.ok getD_dAdd getD_dSub getD_dMul getD_dDiv getD_dFac getD_dFacR getD_map_neg getD_map_div
  List.range List.range.loop

syntax "rep2' " ident ident ident ident : tactic
macro_rules
  | `(tactic| rep2' $a $b $ha $hb) => `(tactic| (
    obtain ⟨va, da, oka⟩ := $a
    obtain ⟨vb, db, okb⟩ := $b
    obtain ⟨hva, hda, hoka⟩ := $ha
    obtain ⟨hvb, hdb, hokb⟩ := $hb
    simp only [List.map] at hva hvb
    subst hva hvb
    refine ⟨?_, ?_, ?_⟩
    · simp
    · cases da <;> cases db <;> simp at hda hdb ⊢ <;> (try subst_vars) <;> (try simp_all) <;>
        (try (repeat' apply And.intro)) <;> (try ring)
    · intro h
      simp at h hoka hokb ⊢
      simp_all))

syntax "rep1' " ident ident : tactic
macro_rules
  | `(tactic| rep1' $a $ha) => `(tactic| (
    obtain ⟨va, da, oka⟩ := $a
    obtain ⟨hva, hda, hoka⟩ := $ha
    simp only [List.map] at hva
    subst hva
    refine ⟨?_, ?_, ?_⟩
    · simp
    · cases da <;> simp at hda ⊢ <;> (try subst_vars) <;> (try simp_all) <;>
        (try (repeat' apply And.intro)) <;> (try ring)
    · intro h
      simp at h hoka ⊢
      simp_all))

/-! 2-vectors, 2×2 matrices, quaternion parts -/
theorem rep_add2 {a b : Val ℝ} {a0 a1 b0 b1 : E ℝ} (ha : Rep env denv um a [a0, a1]) (hb : Rep env denv um b [b0, b1]) :
    Rep env denv um (Val.add a b) [.add a0 b0, .add a1 b1] := by rep2' a b ha hb
theorem rep_sub2 {a b : Val ℝ} {a0 a1 b0 b1 : E ℝ} (ha : Rep env denv um a [a0, a1]) (hb : Rep env denv um b [b0, b1]) :
    Rep env denv um (Val.sub a b) [.sub a0 b0, .sub a1 b1] := by rep2' a b ha hb
theorem rep_smul2 {a s : Val ℝ} {a0 a1 s0 : E ℝ} (ha : Rep env denv um a [a0, a1]) (hs : Rep env denv um s [s0]) :
    Rep env denv um (Val.smul a s) [.mul a0 s0, .mul a1 s0] := by rep2' a s ha hs
theorem rep_sdiv2 {a s : Val ℝ} {a0 a1 s0 : E ℝ} (ha : Rep env denv um a [a0, a1]) (hs : Rep env denv um s [s0]) :
    Rep env denv um (Val.sdiv a s) [.div a0 s0, .div a1 s0] := by rep2' a s ha hs
theorem rep_dot2 {a b : Val ℝ} {a0 a1 b0 b1 : E ℝ} (ha : Rep env denv um a [a0, a1]) (hb : Rep env denv um b [b0, b1]) :
    Rep env denv um (Val.dot a b) [.add (.mul a0 b0) (.mul a1 b1)] := by rep2' a b ha hb
theorem rep_emul2 {a b : Val ℝ} {a0 a1 b0 b1 : E ℝ} (ha : Rep env denv um a [a0, a1]) (hb : Rep env denv um b [b0, b1]) :
    Rep env denv um (Val.emul a b) [.mul a0 b0, .mul a1 b1] := by rep2' a b ha hb
theorem rep_normSq2 {a : Val ℝ} {a0 a1 : E ℝ} (ha : Rep env denv um a [a0, a1]) :
    Rep env denv um (Val.normSq a) [.add (.pow2 a0) (.pow2 a1)] := by rep1' a ha
/-- matrix × vector (2×2 · 2) -/
theorem rep_matvec2 {a b : Val ℝ} {a0 a1 a2 a3 b0 b1 : E ℝ}
    (ha : Rep env denv um a [a0, a1, a2, a3]) (hb : Rep env denv um b [b0, b1]) :
    Rep env denv um (Val.matmul 2 2 1 a b) [.add (.mul a0 b0) (.mul a1 b1), .add (.mul a2 b0) (.mul a3 b1)] := by
  rep2' a b ha hb
/-- `transpose_numer` of a 2×2 item -/
theorem rep_transpose2 {a : Val ℝ} {a0 a1 a2 a3 : E ℝ} (ha : Rep env denv um a [a0, a1, a2, a3]) :
    Rep env denv um (Val.transpose 2 2 a) [a0, a2, a1, a3] := by rep1' a ha
/-- `Quaternion.to_parts`: scalar part and vector part -/
theorem rep_qparts {a : Val ℝ} {a0 a1 a2 a3 : E ℝ} (ha : Rep env denv um a [a0, a1, a2, a3]) :
    Rep env denv um (Val.comp 0 a) [a0] ∧ Rep env denv um (Val.slice 1 4 a) [a1, a2, a3] := by
  refine ⟨?_, ?_⟩ <;> rep1' a ha
/-- `Quaternion.from_parts` -/
theorem rep_cat13 {a b : Val ℝ} {a0 b0 b1 b2 : E ℝ} (ha : Rep env denv um a [a0]) (hb : Rep env denv um b [b0, b1, b2]) :
    Rep env denv um (Val.cat a b) [a0, b0, b1, b2] := by rep2' a b ha hb
/-- `Qube.outer` of two 3-vectors -/
theorem rep_outer3 {a b : Val ℝ} {a0 a1 a2 b0 b1 b2 : E ℝ}
    (ha : Rep env denv um a [a0, a1, a2]) (hb : Rep env denv um b [b0, b1, b2]) :
    Rep env denv um (Val.outer a b)
      [.mul a0 b0, .mul a0 b1, .mul a0 b2, .mul a1 b0, .mul a1 b1, .mul a1 b2, .mul a2 b0, .mul a2 b1, .mul a2 b2] := by
  rep2' a b ha hb
/-- matrix × vector (3×3 · 3), e.g. `Matrix3.rotate` -/
theorem rep_matvec3 {a b : Val ℝ} {a0 a1 a2 a3 a4 a5 a6 a7 a8 b0 b1 b2 : E ℝ}
    (ha : Rep env denv um a [a0, a1, a2, a3, a4, a5, a6, a7, a8]) (hb : Rep env denv um b [b0, b1, b2]) :
    Rep env denv um (Val.matmul 3 3 1 a b)
      [dot3E [a0, a1, a2] [b0, b1, b2], dot3E [a3, a4, a5] [b0, b1, b2], dot3E [a6, a7, a8] [b0, b1, b2]] := by
  rep2' a b ha hb

/-- matrix × matrix (3×3) -/
theorem rep_matmul3 {a b : Val ℝ} {a0 a1 a2 a3 a4 a5 a6 a7 a8 b0 b1 b2 b3 b4 b5 b6 b7 b8 : E ℝ}
    (ha : Rep env denv um a [a0, a1, a2, a3, a4, a5, a6, a7, a8])
    (hb : Rep env denv um b [b0, b1, b2, b3, b4, b5, b6, b7, b8]) :
    Rep env denv um (Val.matmul 3 3 3 a b)
      [dot3E [a0, a1, a2] [b0, b3, b6], dot3E [a0, a1, a2] [b1, b4, b7], dot3E [a0, a1, a2] [b2, b5, b8],
       dot3E [a3, a4, a5] [b0, b3, b6], dot3E [a3, a4, a5] [b1, b4, b7], dot3E [a3, a4, a5] [b2, b5, b8],
       dot3E [a6, a7, a8] [b0, b3, b6], dot3E [a6, a7, a8] [b1, b4, b7], dot3E [a6, a7, a8] [b2, b5, b8]] := by
  rep2' a b ha hb

end rep4


section rep5
variable {env : ℕ → ℝ} {denv : ℕ → Option ℝ} {um : ℕ → Bool}

attribute [local simp] Val.add Val.sub Val.neg Val.nscale Val.ndiv Val.smul Val.sdiv Val.dot Val.normSq Val.norm
  Val.emul Val.ediv Val.comp Val.slice Val.cat Val.qconj Val.qconjV Val.rows Val.col
  Val.transpose Val.transposeV Val.widen
  bilin linmap mergeAdd zipAdd zipSub zipMul sumL dotV Val.dvec
  E.val E.der E.ok getD_dAdd getD_dSub getD_dMul getD_dDiv getD_dFac getD_dFacR getD_map_neg getD_map_div
  List.range List.range.loop

syntax "rep2'' " ident ident ident ident : tactic
macro_rules
  | `(tactic| rep2'' $a $b $ha $hb) => `(tactic| (
    obtain ⟨va, da, oka⟩ := $a
    obtain ⟨vb, db, okb⟩ := $b
    obtain ⟨hva, hda, hoka⟩ := $ha
    obtain ⟨hvb, hdb, hokb⟩ := $hb
    simp only [List.map] at hva hvb
    subst hva hvb
    refine ⟨?_, ?_, ?_⟩
    · simp
    · cases da <;> cases db <;> simp at hda hdb ⊢ <;> (try subst_vars) <;> (try simp_all) <;>
        (try (repeat' apply And.intro)) <;> (try ring)
    · intro h
      simp at h hoka hokb ⊢
      simp_all))

syntax "rep1'' " ident ident : tactic
macro_rules
  | `(tactic| rep1'' $a $ha) => `(tactic| (
    obtain ⟨va, da, oka⟩ := $a
    obtain ⟨hva, hda, hoka⟩ := $ha
    simp only [List.map] at hva
    subst hva
    refine ⟨?_, ?_, ?_⟩
    · simp
    · cases da <;> simp at hda ⊢ <;> (try subst_vars) <;> (try simp_all) <;>
        (try (repeat' apply And.intro)) <;> (try ring)
    · intro h
      simp at h hoka ⊢
      simp_all))

theorem rep_sdiv4 {a s : Val ℝ} {a0 a1 a2 a3 s0 : E ℝ} (ha : Rep env denv um a [a0, a1, a2, a3]) (hs : Rep env denv um s [s0]) :
    Rep env denv um (Val.sdiv a s) [.div a0 s0, .div a1 s0, .div a2 s0, .div a3 s0] := by rep2'' a s ha hs
theorem rep_normSq4 {a : Val ℝ} {a0 a1 a2 a3 : E ℝ} (ha : Rep env denv um a [a0, a1, a2, a3]) :
    Rep env denv um (Val.normSq a) [.add (.add (.add (.pow2 a0) (.pow2 a1)) (.pow2 a2)) (.pow2 a3)] := by rep1'' a ha
/-- `Quaternion.reciprocal`: `conj / norm_sq` -/
theorem rep_qrecip {a : Val ℝ} {a0 a1 a2 a3 : E ℝ} (ha : Rep env denv um a [a0, a1, a2, a3]) :
    ∃ n : E ℝ, Rep env denv um (Val.qrecip a) [.div a0 n, .div (.neg a1) n, .div (.neg a2) n, .div (.neg a3) n] :=
  ⟨_, rep_sdiv4 (rep_qconj ha) (rep_normSq4 ha)⟩
/-- `Vector.with_norm`: `self * (norm / self.norm())` -/
theorem rep_withNorm3 {a n : Val ℝ} {a0 a1 a2 n0 : E ℝ}
    (ha : Rep env denv um a [a0, a1, a2]) (hn : Rep env denv um n [n0]) :
    ∃ s : E ℝ, Rep env denv um (Val.withNorm a n) [.mul a0 s, .mul a1 s, .mul a2 s] :=
  ⟨_, rep_smul3 ha (rep_sc2 (.div (.var 0) (.var 1)) hn (rep_norm3 ha))⟩
/-- `transpose_numer` of a 3×3 item -/
theorem rep_transpose3 {a : Val ℝ} {a0 a1 a2 a3 a4 a5 a6 a7 a8 : E ℝ}
    (ha : Rep env denv um a [a0, a1, a2, a3, a4, a5, a6, a7, a8]) :
    Rep env denv um (Val.transpose 3 3 a) [a0, a3, a6, a1, a4, a7, a2, a5, a8] := by rep1'' a ha

theorem rpow_neg_two (t : ℝ) : Num.pow t (Num.ofInt (-2)) = t⁻¹ * t⁻¹ := by
  show t ^ (((-2 : ℤ)) : ℝ) = _
  rw [Real.rpow_intCast, zpow_neg, zpow_ofNat, sq, mul_inv]

/-- `Vector.element_div`: `da ⊙ (1/b) − db ⊙ (a ⊙ b**(-2))` is the componentwise quotient rule -/
theorem rep_ediv3 {a b : Val ℝ} {a0 a1 a2 b0 b1 b2 : E ℝ}
    (ha : Rep env denv um a [a0, a1, a2]) (hb : Rep env denv um b [b0, b1, b2]) :
    Rep env denv um (Val.ediv a b) [.div a0 b0, .div a1 b1, .div a2 b2] := by
  obtain ⟨va, da, oka⟩ := a
  obtain ⟨vb, db, okb⟩ := b
  obtain ⟨hva, hda, hoka⟩ := ha
  obtain ⟨hvb, hdb, hokb⟩ := hb
  simp only [List.map] at hva hvb
  subst hva hvb
  refine ⟨?_, ?_, ?_⟩
  · simp
  · cases da <;> cases db <;> simp [rpow_neg_two] at hda hdb ⊢ <;> (try subst_vars) <;> (try simp_all) <;>
      (try (repeat' apply And.intro)) <;> (try ring)
  · intro h
    simp at h hoka hokb ⊢
    simp_all

end rep5

/-! ### Composition: every item program over Scalars and 3-vectors

  `Prog` is the item-level program language restricted to Scalars and 3-vectors (the operations for
  which `rep_*` theorems exist at these sizes).  `Prog.run` evaluates a program with the source's
  item-level formulas (`Val.…`, what the driver executes), `Prog.expand` is its component expansion
  into layer-1 expressions, `Prog.size` the type check.  `prog_rep`: for EVERY well-typed program, of any
  depth, the run is represented by the expansion; `prog_sound`: hence every attached derivative component
  is the derivative of the value component wherever the result is unmasked. -/

inductive Prog where
  | opdS (i : ℕ)
  | opdV (i j k : ℕ)
  | lit (c : ℝ)
  | add (a b : Prog) | sub (a b : Prog) | neg (a : Prog)
  | nscale (c : ℝ) (a : Prog) | ndiv (a : Prog) (c : ℝ)
  | smul (a s : Prog) | sdiv (a s : Prog)
  | sc1 (f : E ℝ) (a : Prog) | sc2 (f : E ℝ) (a b : Prog)
  | dot (a b : Prog) | normSq (a : Prog) | norm (a : Prog)
  | cross (a b : Prog) | emul (a b : Prog) | ediv (a b : Prog)
  | comp (i : ℕ) (a : Prog)
  | cat3 (a b c : Prog)
  | unit (a : Prog) | proj (a b : Prog) | perp (a b : Prog) | ucross (a b : Prog) | withNorm (a n : Prog)

namespace Prog

/-- number of components (1 = Scalar, 3 = 3-vector) of a well-typed program; operands of a vector
    carry the key on all components or on none -/
def size (denv : ℕ → Option ℝ) : Prog → Option ℕ
  | opdS _ => some 1
  | opdV i j k => if (denv i).isSome = (denv j).isSome ∧ (denv j).isSome = (denv k).isSome then some 3 else none
  | lit _ => some 1
  | add a b | sub a b =>
    match a.size denv, b.size denv with
    | some 1, some 1 => some 1
    | some 3, some 3 => some 3
    | _, _ => none
  | neg a | nscale _ a | ndiv a _ =>
    match a.size denv with
    | some 1 => some 1
    | some 3 => some 3
    | _ => none
  | smul a s | sdiv a s =>
    match a.size denv, s.size denv with
    | some 1, some 1 => some 1
    | some 3, some 1 => some 3
    | _, _ => none
  | sc1 _ a => match a.size denv with | some 1 => some 1 | _ => none
  | sc2 _ a b => match a.size denv, b.size denv with | some 1, some 1 => some 1 | _, _ => none
  | dot a b => match a.size denv, b.size denv with | some 3, some 3 => some 1 | _, _ => none
  | normSq a | norm a => match a.size denv with | some 3 => some 1 | _ => none
  | cross a b | emul a b | ediv a b | proj a b | perp a b | ucross a b =>
    match a.size denv, b.size denv with | some 3, some 3 => some 3 | _, _ => none
  | comp i a => match a.size denv with | some 3 => if i < 3 then some 1 else none | _ => none
  | cat3 a b c =>
    match a.size denv, b.size denv, c.size denv with | some 1, some 1, some 1 => some 3 | _, _, _ => none
  | unit a => match a.size denv with | some 3 => some 3 | _ => none
  | withNorm a n => match a.size denv, n.size denv with | some 3, some 1 => some 3 | _, _ => none

/-- evaluation with the source's item-level formulas -/
noncomputable def run (env : ℕ → ℝ) (denv : ℕ → Option ℝ) (um : ℕ → Bool) : Prog → Val ℝ
  | opdS i => Val.opd [i] env denv um
  | opdV i j k => Val.opd [i, j, k] env denv um
  | lit c => ⟨[c], none, true⟩
  | add a b => Val.add (a.run env denv um) (b.run env denv um)
  | sub a b => Val.sub (a.run env denv um) (b.run env denv um)
  | neg a => Val.neg (a.run env denv um)
  | nscale c a => Val.nscale c (a.run env denv um)
  | ndiv a c => Val.ndiv (a.run env denv um) c
  | smul a s => Val.smul (a.run env denv um) (s.run env denv um)
  | sdiv a s => Val.sdiv (a.run env denv um) (s.run env denv um)
  | sc1 f a => Val.sc1 f (a.run env denv um)
  | sc2 f a b => Val.sc2 f (a.run env denv um) (b.run env denv um)
  | dot a b => Val.dot (a.run env denv um) (b.run env denv um)
  | normSq a => Val.normSq (a.run env denv um)
  | norm a => Val.norm (a.run env denv um)
  | cross a b => Val.cross3 (a.run env denv um) (b.run env denv um)
  | emul a b => Val.emul (a.run env denv um) (b.run env denv um)
  | ediv a b => Val.ediv (a.run env denv um) (b.run env denv um)
  | comp i a => Val.comp i (a.run env denv um)
  | cat3 a b c => Val.cat (Val.cat (a.run env denv um) (b.run env denv um)) (c.run env denv um)
  | unit a => Val.unit (a.run env denv um)
  | proj a b => Val.proj (a.run env denv um) (b.run env denv um)
  | perp a b => Val.perp (a.run env denv um) (b.run env denv um)
  | ucross a b => Val.ucross (a.run env denv um) (b.run env denv um)
  | withNorm a n => Val.withNorm (a.run env denv um) (n.run env denv um)

def map2E (f : E ℝ → E ℝ → E ℝ) (a b : List (E ℝ)) : List (E ℝ) := List.zipWith f a b
def unit3E (a : List (E ℝ)) : List (E ℝ) := a.map fun x => E.div x (.sqrt (normSq3E a))

/-- component expansion -/
def expand : Prog → List (E ℝ)
  | opdS i => [.var i]
  | opdV i j k => [.var i, .var j, .var k]
  | lit c => [.lit c]
  | add a b => map2E .add a.expand b.expand
  | sub a b => map2E .sub a.expand b.expand
  | neg a => a.expand.map .neg
  | nscale c a => a.expand.map (.scale c)
  | ndiv a c => a.expand.map (E.divn · c)
  | smul a s => a.expand.map (E.mul · (s.expand.headD (.lit 0)))
  | sdiv a s => a.expand.map (E.div · (s.expand.headD (.lit 0)))
  | sc1 f a => [f.subst fun _ => a.expand.headD (.lit 0)]
  | sc2 f a b => [f.subst fun i => if i = 0 then a.expand.headD (.lit 0) else b.expand.headD (.lit 0)]
  | dot a b => [dot3E a.expand b.expand]
  | normSq a => [normSq3E a.expand]
  | norm a => [.sqrt (normSq3E a.expand)]
  | cross a b => cross3E a.expand b.expand
  | emul a b => map2E .mul a.expand b.expand
  | ediv a b => map2E .div a.expand b.expand
  | comp i a => [a.expand.getD i (.lit 0)]
  | cat3 a b c => a.expand ++ b.expand ++ c.expand
  | unit a => unit3E a.expand
  | proj a b => (unit3E b.expand).map (E.mul · (dot3E a.expand (unit3E b.expand)))
  | perp a b => map2E .sub a.expand ((unit3E b.expand).map (E.mul · (dot3E a.expand (unit3E b.expand))))
  | ucross a b => unit3E (cross3E a.expand b.expand)
  | withNorm a n => a.expand.map (E.mul ·
      ((E.div (.var 0) (.var 1)).subst fun i => if i = 0 then n.expand.headD (.lit 0) else .sqrt (normSq3E a.expand)))

end Prog

theorem len1 {α : Type} {l : List α} (h : l.length = 1) : ∃ a, l = [a] := by
  match l, h with
  | [a], _ => exact ⟨a, rfl⟩

theorem len3 {α : Type} {l : List α} (h : l.length = 3) : ∃ a b c, l = [a, b, c] := by
  match l, h with
  | [a, b, c], _ => exact ⟨a, b, c, rfl⟩

section prog
variable (env : ℕ → ℝ) (denv : ℕ → Option ℝ) (um : ℕ → Bool)

/-- **prog_rep.**  Every well-typed item program, of any depth, evaluated by the source's item-level
    formulas is represented by its component expansion. -/
theorem prog_rep (p : Prog) : ∀ n, p.size denv = some n →
    Rep env denv um (p.run env denv um) p.expand ∧ p.expand.length = n := by
  induction p with
  | opdS i => intro n h; simp only [Prog.size, Option.some.injEq] at h; subst h; exact ⟨rep_opd1 i, rfl⟩
  | opdV i j k =>
    intro n h
    simp only [Prog.size] at h
    split at h
    · rename_i hk; simp only [Option.some.injEq] at h; subst h; exact ⟨rep_opd3 i j k hk, rfl⟩
    · simp at h
  | lit c =>
    intro n h; simp only [Prog.size, Option.some.injEq] at h; subst h
    exact ⟨⟨rfl, by simp [Val.dvec, E.der, Prog.run, Prog.expand], fun _ => by simp [E.ok, Prog.expand]⟩, rfl⟩
  | add a b iha ihb =>
    intro n h; simp only [Prog.size] at h
    split at h
    · rename_i h1 h2; obtain ⟨ra, la⟩ := iha _ h1; obtain ⟨rb, lb⟩ := ihb _ h2
      obtain ⟨a0, ea⟩ := len1 la; obtain ⟨b0, eb⟩ := len1 lb
      simp only [Option.some.injEq] at h; subst h
      rw [ea] at ra; rw [eb] at rb; rw [Prog.run, Prog.expand, ea, eb]
      exact ⟨rep_add1 ra rb, rfl⟩
    · rename_i h1 h2; obtain ⟨ra, la⟩ := iha _ h1; obtain ⟨rb, lb⟩ := ihb _ h2
      obtain ⟨a0, a1, a2, ea⟩ := len3 la; obtain ⟨b0, b1, b2, eb⟩ := len3 lb
      simp only [Option.some.injEq] at h; subst h
      rw [ea] at ra; rw [eb] at rb; rw [Prog.run, Prog.expand, ea, eb]
      exact ⟨rep_add3 ra rb, rfl⟩
    · simp at h
  | sub a b iha ihb =>
    intro n h; simp only [Prog.size] at h
    split at h
    · rename_i h1 h2; obtain ⟨ra, la⟩ := iha _ h1; obtain ⟨rb, lb⟩ := ihb _ h2
      obtain ⟨a0, ea⟩ := len1 la; obtain ⟨b0, eb⟩ := len1 lb
      simp only [Option.some.injEq] at h; subst h
      rw [ea] at ra; rw [eb] at rb; rw [Prog.run, Prog.expand, ea, eb]
      exact ⟨rep_sub1 ra rb, rfl⟩
    · rename_i h1 h2; obtain ⟨ra, la⟩ := iha _ h1; obtain ⟨rb, lb⟩ := ihb _ h2
      obtain ⟨a0, a1, a2, ea⟩ := len3 la; obtain ⟨b0, b1, b2, eb⟩ := len3 lb
      simp only [Option.some.injEq] at h; subst h
      rw [ea] at ra; rw [eb] at rb; rw [Prog.run, Prog.expand, ea, eb]
      exact ⟨rep_sub3 ra rb, rfl⟩
    · simp at h
  | neg a iha =>
    intro n h; simp only [Prog.size] at h
    split at h
    · rename_i h1; obtain ⟨ra, la⟩ := iha _ h1; obtain ⟨a0, ea⟩ := len1 la
      simp only [Option.some.injEq] at h; subst h
      rw [ea] at ra; rw [Prog.run, Prog.expand, ea]; exact ⟨rep_neg1 ra, rfl⟩
    · rename_i h1; obtain ⟨ra, la⟩ := iha _ h1; obtain ⟨a0, a1, a2, ea⟩ := len3 la
      simp only [Option.some.injEq] at h; subst h
      rw [ea] at ra; rw [Prog.run, Prog.expand, ea]; exact ⟨rep_neg3 ra, rfl⟩
    · simp at h
  | nscale c a iha =>
    intro n h; simp only [Prog.size] at h
    split at h
    · rename_i h1; obtain ⟨ra, la⟩ := iha _ h1; obtain ⟨a0, ea⟩ := len1 la
      simp only [Option.some.injEq] at h; subst h
      rw [ea] at ra; rw [Prog.run, Prog.expand, ea]; exact ⟨rep_nscale1 c ra, rfl⟩
    · rename_i h1; obtain ⟨ra, la⟩ := iha _ h1; obtain ⟨a0, a1, a2, ea⟩ := len3 la
      simp only [Option.some.injEq] at h; subst h
      rw [ea] at ra; rw [Prog.run, Prog.expand, ea]; exact ⟨rep_nscale3 c ra, rfl⟩
    · simp at h
  | ndiv a c iha =>
    intro n h; simp only [Prog.size] at h
    split at h
    · rename_i h1; obtain ⟨ra, la⟩ := iha _ h1; obtain ⟨a0, ea⟩ := len1 la
      simp only [Option.some.injEq] at h; subst h
      rw [ea] at ra; rw [Prog.run, Prog.expand, ea]; exact ⟨rep_ndiv1 c ra, rfl⟩
    · rename_i h1; obtain ⟨ra, la⟩ := iha _ h1; obtain ⟨a0, a1, a2, ea⟩ := len3 la
      simp only [Option.some.injEq] at h; subst h
      rw [ea] at ra; rw [Prog.run, Prog.expand, ea]; exact ⟨rep_ndiv3 c ra, rfl⟩
    · simp at h
  | smul a s iha ihs =>
    intro n h; simp only [Prog.size] at h
    split at h
    · rename_i h1 h2; obtain ⟨ra, la⟩ := iha _ h1; obtain ⟨rs, ls⟩ := ihs _ h2
      obtain ⟨a0, ea⟩ := len1 la; obtain ⟨s0, es⟩ := len1 ls
      simp only [Option.some.injEq] at h; subst h
      rw [ea] at ra; rw [es] at rs; rw [Prog.run, Prog.expand, ea, es]
      exact ⟨rep_smul1 ra rs, rfl⟩
    · rename_i h1 h2; obtain ⟨ra, la⟩ := iha _ h1; obtain ⟨rs, ls⟩ := ihs _ h2
      obtain ⟨a0, a1, a2, ea⟩ := len3 la; obtain ⟨s0, es⟩ := len1 ls
      simp only [Option.some.injEq] at h; subst h
      rw [ea] at ra; rw [es] at rs; rw [Prog.run, Prog.expand, ea, es]
      exact ⟨rep_smul3 ra rs, rfl⟩
    · simp at h
  | sdiv a s iha ihs =>
    intro n h; simp only [Prog.size] at h
    split at h
    · rename_i h1 h2; obtain ⟨ra, la⟩ := iha _ h1; obtain ⟨rs, ls⟩ := ihs _ h2
      obtain ⟨a0, ea⟩ := len1 la; obtain ⟨s0, es⟩ := len1 ls
      simp only [Option.some.injEq] at h; subst h
      rw [ea] at ra; rw [es] at rs; rw [Prog.run, Prog.expand, ea, es]
      exact ⟨rep_sdiv1 ra rs, rfl⟩
    · rename_i h1 h2; obtain ⟨ra, la⟩ := iha _ h1; obtain ⟨rs, ls⟩ := ihs _ h2
      obtain ⟨a0, a1, a2, ea⟩ := len3 la; obtain ⟨s0, es⟩ := len1 ls
      simp only [Option.some.injEq] at h; subst h
      rw [ea] at ra; rw [es] at rs; rw [Prog.run, Prog.expand, ea, es]
      exact ⟨rep_sdiv3 ra rs, rfl⟩
    · simp at h
  | sc1 f a iha =>
    intro n h; simp only [Prog.size] at h
    split at h
    · rename_i h1; obtain ⟨ra, la⟩ := iha _ h1; obtain ⟨a0, ea⟩ := len1 la
      simp only [Option.some.injEq] at h; subst h
      rw [ea] at ra; rw [Prog.run, Prog.expand, ea]; exact ⟨rep_sc1 f ra, rfl⟩
    · simp at h
  | sc2 f a b iha ihb =>
    intro n h; simp only [Prog.size] at h
    split at h
    · rename_i h1 h2; obtain ⟨ra, la⟩ := iha _ h1; obtain ⟨rb, lb⟩ := ihb _ h2
      obtain ⟨a0, ea⟩ := len1 la; obtain ⟨b0, eb⟩ := len1 lb
      simp only [Option.some.injEq] at h; subst h
      rw [ea] at ra; rw [eb] at rb; rw [Prog.run, Prog.expand, ea, eb]
      exact ⟨rep_sc2 f ra rb, rfl⟩
    · simp at h
  | dot a b iha ihb =>
    intro n h; simp only [Prog.size] at h
    split at h
    · rename_i h1 h2; obtain ⟨ra, la⟩ := iha _ h1; obtain ⟨rb, lb⟩ := ihb _ h2
      obtain ⟨a0, a1, a2, ea⟩ := len3 la; obtain ⟨b0, b1, b2, eb⟩ := len3 lb
      simp only [Option.some.injEq] at h; subst h
      rw [ea] at ra; rw [eb] at rb; rw [Prog.run, Prog.expand, ea, eb]
      exact ⟨rep_dot3 ra rb, rfl⟩
    · simp at h
  | normSq a iha =>
    intro n h; simp only [Prog.size] at h
    split at h
    · rename_i h1; obtain ⟨ra, la⟩ := iha _ h1; obtain ⟨a0, a1, a2, ea⟩ := len3 la
      simp only [Option.some.injEq] at h; subst h
      rw [ea] at ra; rw [Prog.run, Prog.expand, ea]; exact ⟨rep_normSq3 ra, rfl⟩
    · simp at h
  | norm a iha =>
    intro n h; simp only [Prog.size] at h
    split at h
    · rename_i h1; obtain ⟨ra, la⟩ := iha _ h1; obtain ⟨a0, a1, a2, ea⟩ := len3 la
      simp only [Option.some.injEq] at h; subst h
      rw [ea] at ra; rw [Prog.run, Prog.expand, ea]; exact ⟨rep_norm3 ra, rfl⟩
    · simp at h
  | cross a b iha ihb =>
    intro n h; simp only [Prog.size] at h
    split at h
    · rename_i h1 h2; obtain ⟨ra, la⟩ := iha _ h1; obtain ⟨rb, lb⟩ := ihb _ h2
      obtain ⟨a0, a1, a2, ea⟩ := len3 la; obtain ⟨b0, b1, b2, eb⟩ := len3 lb
      simp only [Option.some.injEq] at h; subst h
      rw [ea] at ra; rw [eb] at rb; rw [Prog.run, Prog.expand, ea, eb]
      exact ⟨rep_cross3 ra rb, rfl⟩
    · simp at h
  | emul a b iha ihb =>
    intro n h; simp only [Prog.size] at h
    split at h
    · rename_i h1 h2; obtain ⟨ra, la⟩ := iha _ h1; obtain ⟨rb, lb⟩ := ihb _ h2
      obtain ⟨a0, a1, a2, ea⟩ := len3 la; obtain ⟨b0, b1, b2, eb⟩ := len3 lb
      simp only [Option.some.injEq] at h; subst h
      rw [ea] at ra; rw [eb] at rb; rw [Prog.run, Prog.expand, ea, eb]
      exact ⟨rep_emul3 ra rb, rfl⟩
    · simp at h
  | ediv a b iha ihb =>
    intro n h; simp only [Prog.size] at h
    split at h
    · rename_i h1 h2; obtain ⟨ra, la⟩ := iha _ h1; obtain ⟨rb, lb⟩ := ihb _ h2
      obtain ⟨a0, a1, a2, ea⟩ := len3 la; obtain ⟨b0, b1, b2, eb⟩ := len3 lb
      simp only [Option.some.injEq] at h; subst h
      rw [ea] at ra; rw [eb] at rb; rw [Prog.run, Prog.expand, ea, eb]
      exact ⟨rep_ediv3 ra rb, rfl⟩
    · simp at h
  | comp i a iha =>
    intro n h; simp only [Prog.size] at h
    split at h
    · rename_i h1; obtain ⟨ra, la⟩ := iha _ h1; obtain ⟨a0, a1, a2, ea⟩ := len3 la
      split at h
      · rename_i hi
        simp only [Option.some.injEq] at h; subst h
        rw [ea] at ra; rw [Prog.run, Prog.expand, ea]
        have hc := rep_comp3 ra
        interval_cases i
        · exact ⟨hc.1, rfl⟩
        · exact ⟨hc.2.1, rfl⟩
        · exact ⟨hc.2.2, rfl⟩
      · simp at h
    · simp at h
  | cat3 a b c iha ihb ihc =>
    intro n h; simp only [Prog.size] at h
    split at h
    · rename_i h1 h2 h3; obtain ⟨ra, la⟩ := iha _ h1; obtain ⟨rb, lb⟩ := ihb _ h2; obtain ⟨rc, lc⟩ := ihc _ h3
      obtain ⟨a0, ea⟩ := len1 la; obtain ⟨b0, eb⟩ := len1 lb; obtain ⟨c0, ec⟩ := len1 lc
      simp only [Option.some.injEq] at h; subst h
      rw [ea] at ra; rw [eb] at rb; rw [ec] at rc; rw [Prog.run, Prog.expand, ea, eb, ec]
      exact ⟨rep_cat21 (rep_cat ra rb) rc, rfl⟩
    · simp at h
  | unit a iha =>
    intro n h; simp only [Prog.size] at h
    split at h
    · rename_i h1; obtain ⟨ra, la⟩ := iha _ h1; obtain ⟨a0, a1, a2, ea⟩ := len3 la
      simp only [Option.some.injEq] at h; subst h
      rw [ea] at ra; rw [Prog.run, Prog.expand, ea]; exact ⟨rep_unit3 ra, rfl⟩
    · simp at h
  | proj a b iha ihb =>
    intro n h; simp only [Prog.size] at h
    split at h
    · rename_i h1 h2; obtain ⟨ra, la⟩ := iha _ h1; obtain ⟨rb, lb⟩ := ihb _ h2
      obtain ⟨a0, a1, a2, ea⟩ := len3 la; obtain ⟨b0, b1, b2, eb⟩ := len3 lb
      simp only [Option.some.injEq] at h; subst h
      rw [ea] at ra; rw [eb] at rb; rw [Prog.run, Prog.expand, ea, eb]
      exact ⟨rep_smul3 (rep_unit3 rb) (rep_dot3 ra (rep_unit3 rb)), rfl⟩
    · simp at h
  | perp a b iha ihb =>
    intro n h; simp only [Prog.size] at h
    split at h
    · rename_i h1 h2; obtain ⟨ra, la⟩ := iha _ h1; obtain ⟨rb, lb⟩ := ihb _ h2
      obtain ⟨a0, a1, a2, ea⟩ := len3 la; obtain ⟨b0, b1, b2, eb⟩ := len3 lb
      simp only [Option.some.injEq] at h; subst h
      rw [ea] at ra; rw [eb] at rb; rw [Prog.run, Prog.expand, ea, eb]
      exact ⟨rep_sub3 ra (rep_smul3 (rep_unit3 rb) (rep_dot3 ra (rep_unit3 rb))), rfl⟩
    · simp at h
  | ucross a b iha ihb =>
    intro n h; simp only [Prog.size] at h
    split at h
    · rename_i h1 h2; obtain ⟨ra, la⟩ := iha _ h1; obtain ⟨rb, lb⟩ := ihb _ h2
      obtain ⟨a0, a1, a2, ea⟩ := len3 la; obtain ⟨b0, b1, b2, eb⟩ := len3 lb
      simp only [Option.some.injEq] at h; subst h
      rw [ea] at ra; rw [eb] at rb; rw [Prog.run, Prog.expand, ea, eb]
      exact ⟨rep_unit3 (rep_cross3 ra rb), rfl⟩
    · simp at h
  | withNorm a m iha ihm =>
    intro n h; simp only [Prog.size] at h
    split at h
    · rename_i h1 h2; obtain ⟨ra, la⟩ := iha _ h1; obtain ⟨rm, lm⟩ := ihm _ h2
      obtain ⟨a0, a1, a2, ea⟩ := len3 la; obtain ⟨m0, em⟩ := len1 lm
      simp only [Option.some.injEq] at h; subst h
      rw [ea] at ra; rw [em] at rm; rw [Prog.run, Prog.expand, ea, em]
      exact ⟨rep_smul3 ra (rep_sc2 (.div (.var 0) (.var 1)) rm (rep_norm3 ra)), rfl⟩
    · simp at h

/-- **prog_sound.**  For every well-typed item program `p` (any depth): wherever polymath leaves the
    result unmasked, each component of the derivative item it attaches is the derivative of the
    corresponding value component. -/
theorem prog_sound (p : Prog) (x : ℕ → ℝ → ℝ) (dx : ℕ → Option ℝ) (t : ℝ) (n : ℕ)
    (hx : ∀ k, HasDerivAt (x k) ((dx k).getD 0) t)
    (hty : p.size dx = some n)
    (hok : (p.run (fun k => x k t) dx um).ok = true) (j : ℕ) (hj : j < n) :
    HasDerivAt (fun s => ((p.run (fun k => x k s) dx um).v).getD j 0)
      (((p.run (fun k => x k t) dx um).dvec).getD j 0) t :=
  rep_sound x dx um t hx (fun env => p.run env dx um) p.expand
    (fun s => (prog_rep (fun k => x k s) dx um p n hty).1) hok j
    (by rw [(prog_rep (fun k => x k t) dx um p n hty).2]; exact hj)

end prog

/-- non-vacuity of `prog_rep` / `prog_sound`: `a.perp(b.cross(a)).norm() * sin(s)`-like program of depth 4 is well typed -/
example : (Prog.smul (.norm (.perp (.opdV 0 1 2) (.cross (.opdV 3 4 5) (.opdV 0 1 2)))) (.sc1 (.sin (.var 0)) (.opdS 6))).size
    (fun _ => some 1) = some 1 := by
  simp [Prog.size]

end PMV.Dual
