import PMV.Gen.C01Routes
/-
  C01, tie T2: obligations about the table regenerated from /repo's source on every run.
  Closed by evaluation (`decide`), so they are re-proved against what the code says now.
-/
namespace PMV.C01Routes
open PMV.Gen.C01Routes

/-- every entry function and helper named by the harness still exists in the source -/
theorem routes_no_missing_function : PMV.Gen.C01Routes.missing = [] := by decide

/-- every model path the harness uses for an operation is justified by the source: the path's
    characteristic mask-handling tokens are reachable from the operation's entry functions -/
theorem routes_paths_justified : rows.all (rowOK fns) = true := by decide

/-- every arithmetic helper still contains its characteristic tokens in its own body
    (`_div_by_scalar`: mask_where_eq + Qube.or_; `_mod_by_scalar`: mask_where_eq + `|`;
    sqrt: mask_where_lt; `Scalar.__pow__`: or_ + isnan + isinf + masked_single; …) -/
theorem routes_helpers_intact : helpers.all (helperOK fns) = true := by decide

/-- the table is not empty (non-vacuity) -/
theorem routes_nonempty : rows.length ≥ 60 ∧ helpers.length = 19 := by decide

end PMV.C01Routes
