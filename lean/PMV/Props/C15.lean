import PMV.Lemmas.C15Calls
import PMV.Lemmas.Bcast
/-
  C15 — reshaping and item-restructuring operations are pure relabelings: OBJECT-LEVEL theorems.
  For the code-shaped functions the driver executes (`Shaper.reshape`, `flatten`, `swapAxes`,
  `rollAxis`, `moveAxis` on objects WITH their derivative dictionaries) the result is the input
  re-indexed by ONE map `π` on the leading part: values, mask and EVERY derivative follow the same
  `π`; class, numerator, denominator and the item part of every index are untouched.
  By induction over the derivative list; the call-level facts are in PMV/Lemmas/C15Calls.lean.
-/
namespace PMV.C15
open PMV PMV.NpShape PMV.Shaper PMV.ItemOps

variable {α : Type}

/-! ## well-formed objects and the re-indexing relation -/

/-- the invariant every constructed object satisfies: the values array spans `shape ++ numer ++ denom`
    and an array mask spans the leading shape -/
structure WF0 (q : Q0 α) : Prop where
  vshape : q.vals.shape = q.shape ++ q.numer ++ q.denom
  mshape : ∀ a, q.mask = .arr a → a.shape = q.shape

/-- an object with derivatives: each derivative is well-formed, has the object's leading shape and numerator -/
structure WF (q : Q α) : Prop where
  base : WF0 q.base
  derivs : ∀ kd ∈ q.derivs, WF0 kd.2 ∧ kd.2.shape = q.base.shape ∧ kd.2.numer = q.base.numer

/-- `q'` is `q` with its LEADING index re-labelled by `π` onto the leading shape `s'`:
    same class, numerator, denominator; element `(i, k)` of `q'` is element `(π i, k)` of `q`
    (the item index `k` is untouched); mask bit `i` of `q'` is mask bit `π i` of `q`. -/
structure LeadReindex (π : Index → Index) (s' : Shape) (q q' : Q0 α) : Prop where
  cls : q'.cls = q.cls
  shape : q'.shape = s'
  numer : q'.numer = q.numer
  denom : q'.denom = q.denom
  vals : ∀ i k : Index, Valid s' i → Valid q.item k → q'.vals.get (i ++ k) = q.vals.get (π i ++ k)
  mask : ∀ i : Index, Valid s' i → q'.mask.at i = q.mask.at (π i)
  wf : WF0 q'

/-- the whole object: base and every derivative (same keys, same order) are re-indexed by the SAME `π` -/
def ObjReindex (π : Index → Index) (s' : Shape) (q r : Q α) : Prop :=
  LeadReindex π s' q.base r.base ∧
  List.Forall₂ (fun kd kd' => kd.1 = kd'.1 ∧ LeadReindex π s' kd.2 kd'.2) q.derivs r.derivs

theorem LeadReindex.refl {q : Q0 α} (hwf : WF0 q) (π : Index → Index) (hπ : ∀ i, Valid q.shape i → π i = i) :
    LeadReindex π q.shape q q :=
  ⟨rfl, rfl, rfl, rfl, fun i k hi _ => by rw [hπ i hi], fun i hi => by rw [hπ i hi], hwf⟩

theorem LeadReindex.trans {π₁ π₂ : Index → Index} {s₁ s₂ : Shape} {q q₁ q₂ : Q0 α}
    (h₁ : LeadReindex π₁ s₁ q q₁) (h₂ : LeadReindex π₂ s₂ q₁ q₂)
    (hmap : ∀ i, Valid s₂ i → Valid s₁ (π₂ i)) : LeadReindex (fun i => π₁ (π₂ i)) s₂ q q₂ := by
  have hitem : q₁.item = q.item := by unfold Q0.item; rw [h₁.numer, h₁.denom]
  refine ⟨h₂.cls.trans h₁.cls, h₂.shape, h₂.numer.trans h₁.numer, h₂.denom.trans h₁.denom, ?_, ?_, h₂.wf⟩
  · intro i k hi hk
    rw [h₂.vals i k hi (hitem ▸ hk), h₁.vals _ k (hmap i hi) hk]
  · intro i hi
    rw [h₂.mask i hi, h₁.mask _ (hmap i hi)]

theorem append3_inj {a b c a' b' c' : List Nat} (h : a ++ b ++ c = a' ++ b' ++ c')
    (hb : b.length = b'.length) (hc : c.length = c'.length) : a = a' ∧ b = b' ∧ c = c' := by
  obtain ⟨h1, h2⟩ := List.append_inj' h hc
  obtain ⟨h3, h4⟩ := List.append_inj' h1 hb
  exact ⟨h3, h4, h2⟩

/-- the constructor step shared by every leading-axis operation: new values over `s' ++ item`
    that follow `π`, and a mask that is either the same scalar or an array over `s'` that follows `π` -/
theorem likeSelf_reindex {q q' : Q0 α} {π : Index → Index} {s' : Shape} {nv : Arr α} {nm : Mask}
    (hnv : nv.shape = s' ++ q.numer ++ q.denom)
    (hvals : ∀ i k : Index, Valid s' i → Valid q.item k → nv.get (i ++ k) = q.vals.get (π i ++ k))
    (hnm : (∃ b, q.mask = .all b ∧ nm = .all b) ∨
      (∃ a a', q.mask = .arr a ∧ nm = .arr a' ∧ a'.shape = s' ∧ ∀ i, Valid s' i → a'.get i = a.get (π i)))
    (h : likeSelf q nv nm = .ok q') : LeadReindex π s' q q' := by
  obtain ⟨hc, hv, hs, hn, hd, hm⟩ := construct_ok h
  rw [hnv] at hs
  obtain ⟨e1, e2, e3⟩ := append3_inj hs hn hd
  have hmask : q'.mask = nm := by
    apply suitableMask_at hm
    intro a ha
    rcases hnm with ⟨b, _, hb⟩ | ⟨a0, a', _, ha', hsh, _⟩
    · rw [hb] at ha; cases ha
    · rw [ha'] at ha; injection ha with ha; subst ha; rw [hsh, e1]
  refine ⟨hc, e1, e2, e3, ?_, ?_, ⟨?_, ?_⟩⟩
  · intro i k hi hk; rw [hv]; exact hvals i k hi hk
  · intro i hi
    rw [hmask]
    rcases hnm with ⟨b, hq, hb⟩ | ⟨a0, a', hq, ha', _, hget⟩
    · rw [hq, hb]; rfl
    · rw [hq, ha']; exact hget i hi
  · rw [hv, hnv, e1, e2, e3]
  · intro a ha
    rw [hmask] at ha
    rcases hnm with ⟨b, _, hb⟩ | ⟨a0, a', _, ha', hsh, _⟩
    · rw [hb] at ha; cases ha
    · rw [ha'] at ha; injection ha with ha; subst ha; rw [hsh, e1]

/-! ## the derivative recursion -/

theorem insertDeriv_same {b d d' : Q0 α} (hs : d.shape = b.shape) (h : insertDeriv b d = .ok d') : d' = d := by
  unfold insertDeriv at h
  split at h; · cases h
  split at h; · cases h
  rw [if_neg (by simpa using hs)] at h
  injection h with h; exact h.symm

theorem bind_ok {ε β γ : Type} {x : Except ε β} {f : β → Except ε γ} {c : γ} :
    (x >>= f) = .ok c ↔ ∃ a, x = .ok a ∧ f a = .ok c := by
  cases x <;> simp [bind, Except.bind]

theorem pure_ok {ε β : Type} {a c : β} : (pure a : Except ε β) = .ok c ↔ a = c := by
  simp [pure, Except.pure]

/-- induction over the derivative list: if the `recursive=False` call `f` relates every derivative to its
    image by `P` and produces the leading shape of the new base, so does the whole dictionary, key by key -/
theorem mapDerivs_forall₂ {b : Q0 α} {f : Q0 α → Except Err (Q0 α)} (P : Q0 α → Q0 α → Prop) :
    ∀ (ds r : List (String × Q0 α)),
      (∀ kd ∈ ds, ∀ d1, f kd.2 = .ok d1 → P kd.2 d1 ∧ d1.shape = b.shape) →
      mapDerivs b ds f = .ok r →
      List.Forall₂ (fun kd kd' => kd.1 = kd'.1 ∧ P kd.2 kd'.2) ds r
  | [], r, _, h => by
    unfold mapDerivs at h
    rw [List.mapM_nil] at h
    rw [← pure_ok.1 h]; exact List.Forall₂.nil
  | kd :: ds, r, hf, h => by
    unfold mapDerivs at h
    rw [List.mapM_cons] at h
    obtain ⟨x, hx, h⟩ := bind_ok.1 h
    obtain ⟨rs, hrs, h⟩ := bind_ok.1 h
    obtain ⟨d1, h1, hx⟩ := bind_ok.1 hx
    obtain ⟨d2, h2, hx⟩ := bind_ok.1 hx
    have hx := pure_ok.1 hx
    have h := pure_ok.1 h
    subst hx h
    obtain ⟨hP, hs⟩ := hf kd (by simp) d1 h1
    have e : d2 = d1 := insertDeriv_same hs h2
    subst e
    exact List.Forall₂.cons ⟨rfl, hP⟩
      (mapDerivs_forall₂ P ds rs (fun kd' hkd' => hf kd' (by simp [hkd'])) hrs)


theorem map_ok {ε β γ : Type} {x : Except ε β} {f : β → γ} {c : γ} :
    (x.map f) = .ok c ↔ ∃ a, x = .ok a ∧ f a = c := by
  cases x <;> simp [Except.map]

/-! ## axis-permuting operations (swap_axes, roll_axis, move_axis): the common core -/

/-- what a NumPy axis operation `np` does when it is called with LEADING axes on an array over
    `shape ++ item`, for any item shape (values: `numer ++ denom`, mask: `[]`): it transposes by ONE
    order `p` of the leading axes and leaves the item part of every index alone -/
def ActsAs (np : {β : Type} → Arr β → Except Err (Arr β)) (shape : Shape) (p : List Nat) : Prop :=
  ∀ {β : Type} (x : Arr β) (item : Shape), x.shape = shape ++ item →
    ∃ x', np x = .ok x' ∧ x'.shape = permute p shape ++ item ∧
      ∀ i k : Index, i.length = shape.length → k.length = item.length →
        x'.get (i ++ k) = x.get (unpermute p i ++ k)

/-- the body shared by `swap_axes`, `roll_axis`, `move_axis` after normalisation: NumPy call on the values,
    NumPy call on an array mask (a scalar mask is kept), new object of the same class -/
def maskThrough (np : {β : Type} → Arr β → Except Err (Arr β)) : Mask → Except Err Mask
  | .all b => pure (Mask.all b)
  | .arr a => (np a).map Mask.arr

def permCore (np : {β : Type} → Arr β → Except Err (Arr β)) (q : Q0 α) : Except Err (Q0 α) :=
  np q.vals >>= fun nv => maskThrough np q.mask >>= fun nm => likeSelf q nv nm

theorem swapCore_eq (q : Q0 α) (a1 a2 : Int) :
    swapCore q a1 a2 = permCore (fun x => NpShape.swapaxes x a1 a2) q := by
  unfold swapCore permCore maskThrough; cases q.mask <;> rfl
theorem rollCore_eq (q : Q0 α) (a1 a2 : Int) :
    rollCore q a1 a2 = permCore (fun x => NpShape.rollaxis x a1 a2) q := by
  unfold rollCore permCore maskThrough; cases q.mask <;> rfl
theorem moveCore_eq (q : Q0 α) (src dst : List Int) :
    moveCore q src dst = permCore (fun x => NpShape.moveaxis x src dst) q := by
  unfold moveCore permCore maskThrough; cases q.mask <;> rfl

/-- op_is_reindex for the common core: values and mask follow the SAME `π = unpermute p` -/
theorem permCore_reindex {np : {β : Type} → Arr β → Except Err (Arr β)} {q q' : Q0 α} {p : List Nat}
    (hwf : WF0 q) (hpl : p.length = q.shape.length) (hnp : ActsAs np q.shape p) (h : permCore np q = .ok q') :
    LeadReindex (unpermute p) (permute p q.shape) q q' := by
  unfold permCore at h
  obtain ⟨nv, hnv, h⟩ := bind_ok.1 h
  obtain ⟨nm, hnm, h⟩ := bind_ok.1 h
  obtain ⟨nv', e1, hsh, hget⟩ := hnp q.vals (q.numer ++ q.denom) (by rw [hwf.vshape, List.append_assoc])
  rw [hnv] at e1; injection e1 with e1; subst e1
  refine likeSelf_reindex (by rw [hsh, List.append_assoc]) ?_ ?_ h
  · intro i k hi hk
    exact hget i k (by rw [NpShape.valid_length hi, length_permute, hpl]) (NpShape.valid_length hk)
  · cases hm : q.mask with
    | all b =>
      rw [hm] at hnm
      exact Or.inl ⟨b, rfl, (pure_ok.1 hnm).symm⟩
    | arr a =>
      rw [hm] at hnm
      unfold maskThrough at hnm
      obtain ⟨a', ha', e⟩ := map_ok.1 hnm
      obtain ⟨a'', e2, hsh2, hget2⟩ := hnp a [] (by rw [hwf.mshape a hm, List.append_nil])
      rw [ha'] at e2; injection e2 with e2; subst e2
      refine Or.inr ⟨a, a', rfl, e.symm, by simpa using hsh2, fun i hi => ?_⟩
      have := hget2 i [] (by rw [NpShape.valid_length hi, length_permute, hpl]) rfl
      simpa using this


/-! ## swap_axes -/

theorem swapPerm_self {n a : Nat} : swapPerm n a a = List.range n := by
  rw [swapPerm_eq]
  apply List.map_id''
  intro k; unfold swapFn; split <;> (try split) <;> omega

theorem swap_acts (shape : Shape) {b1 b2 : Int} (h1 : 0 ≤ b1) (h2 : b1 < shape.length) (h3 : 0 ≤ b2)
    (h4 : b2 < shape.length) :
    ActsAs (fun x => NpShape.swapaxes x b1 b2) shape (swapPerm shape.length b1.toNat b2.toNat) := by
  intro β x item hx
  have ha : b1.toNat < shape.length := by omega
  have hb : b2.toNat < shape.length := by omega
  have hlen : x.shape.length = shape.length + item.length := by rw [hx, List.length_append]
  have e1 : NpShape.normAxis x.shape.length b1 = .ok b1.toNat :=
    normAxis_of_nonneg h1 (by rw [hlen]; push_cast; omega)
  have e2 : NpShape.normAxis x.shape.length b2 = .ok b2.toNat :=
    normAxis_of_nonneg h3 (by rw [hlen]; push_cast; omega)
  refine ⟨_, swapaxes_ok x e1 e2, ?_⟩
  rw [hlen, swapPerm_lead item.length ha hb]
  exact transpose_lead x shape item _ (swapPerm_isPerm ha hb) hx

/-- the leading-axis order of `swap_axes` for normalised axes `(b1, b2)` -/
def swapOrder (n : Nat) (b1 b2 : Int) : List Nat := swapPerm n b1.toNat b2.toNat

/-- op_is_reindex, one object (`recursive=False`): whatever pair of arguments normalises to `(b1, b2)` —
    the original axes or the already normalised ones — the result is `q` re-indexed by the one map
    `unpermute (swapOrder n b1 b2)` on the leading part. -/
theorem swapAxes0_reindex {q q' : Q0 α} {x1 x2 b1 b2 : Int} (hwf : WF0 q)
    (hn : swapNorm q.shape.length x1 x2 = .ok (b1, b2)) (h : swapAxes0 q x1 x2 = .ok q') :
    LeadReindex (unpermute (swapOrder q.shape.length b1 b2)) (permute (swapOrder q.shape.length b1 b2) q.shape) q q' := by
  obtain ⟨_, _, h1, h2, h3, h4⟩ := swapNorm_ok hn
  unfold swapAxes0 at h
  obtain ⟨⟨a1, a2⟩, hn', h⟩ := bind_ok.1 h
  rw [hn] at hn'; injection hn' with hn'; injection hn' with e1 e2; subst e1 e2
  simp only at h
  split at h
  · rename_i heq
    have := pure_ok.1 h; subst this
    unfold swapOrder
    rw [heq, swapPerm_self, permute_range]
    exact LeadReindex.refl hwf _ (fun i hi => unpermute_range i (NpShape.valid_length hi))
  · rw [swapCore_eq] at h
    exact permCore_reindex hwf (swapPerm_isPerm (by omega) (by omega)).1 (swap_acts q.shape h1 h2 h3 h4) h

/-- **op_is_reindex for `swap_axes`, whole object**: values, mask and EVERY derivative of the result are the
    input's, re-indexed by ONE axis permutation of the leading part; items untouched.  The recursive calls
    receive the normalised axes; `swapNorm_idem` is what makes them use the same permutation. -/
theorem swapAxes_reindex {q r : Q α} {ax1 ax2 b1 b2 : Int} (hwf : WF q)
    (hn : swapNorm q.base.shape.length ax1 ax2 = .ok (b1, b2)) (h : swapAxes q ax1 ax2 true = .ok r) :
    ObjReindex (unpermute (swapOrder q.base.shape.length b1 b2))
      (permute (swapOrder q.base.shape.length b1 b2) q.base.shape) q r := by
  obtain ⟨_, _, h1, h2, h3, h4⟩ := swapNorm_ok hn
  unfold swapAxes at h
  obtain ⟨⟨a1, a2⟩, hn', h⟩ := bind_ok.1 h
  rw [hn] at hn'; injection hn' with hn'; injection hn' with e1 e2; subst e1 e2
  simp only at h
  split at h
  · rename_i heq
    have := pure_ok.1 h; subst this
    unfold swapOrder
    rw [heq, swapPerm_self, permute_range]
    have hid : ∀ i, Valid q.base.shape i → unpermute (List.range q.base.shape.length) i = i :=
      fun i hi => unpermute_range i (NpShape.valid_length hi)
    refine ⟨LeadReindex.refl hwf.base _ hid, ?_⟩
    have : ∀ ds : List (String × Q0 α), (∀ kd ∈ ds, WF0 kd.2 ∧ kd.2.shape = q.base.shape ∧ kd.2.numer = q.base.numer) →
        List.Forall₂ (fun kd kd' => kd.1 = kd'.1 ∧
          LeadReindex (unpermute (List.range q.base.shape.length)) q.base.shape kd.2 kd'.2) ds ds := by
      intro ds
      induction ds with
      | nil => intro _; exact List.Forall₂.nil
      | cons kd ds ih =>
        intro hds
        obtain ⟨w, hs, _⟩ := hds kd (by simp)
        refine List.Forall₂.cons ⟨rfl, ?_⟩ (ih fun kd' h' => hds kd' (by simp [h']))
        have := LeadReindex.refl w (unpermute (List.range q.base.shape.length)) (fun i hi => hid i (hs ▸ hi))
        rwa [hs] at this
    exact this q.derivs hwf.derivs
  · obtain ⟨b, hb, h⟩ := bind_ok.1 h
    obtain ⟨ds, hds, h⟩ := bind_ok.1 h
    have := pure_ok.1 h; subst this
    rw [swapCore_eq] at hb
    have hbase := permCore_reindex hwf.base (swapPerm_isPerm (by omega) (by omega)).1
      (swap_acts q.base.shape h1 h2 h3 h4) hb
    refine ⟨hbase, ?_⟩
    apply mapDerivs_forall₂ _ q.derivs ds _ hds
    intro kd hkd d1 hd1
    obtain ⟨w, hs, _⟩ := hwf.derivs kd hkd
    have hidem : swapNorm kd.2.shape.length b1 b2 = .ok (b1, b2) := by rw [hs]; exact swapNorm_idem hn
    have := swapAxes0_reindex w hidem hd1
    rw [hs] at this
    exact ⟨this, this.shape.trans hbase.shape.symm⟩


/-! ## reshape / flatten -/

/-- identical derivative dictionaries are related by any map that is the identity on valid indices -/
theorem derivs_refl {s : Shape} {numer : Shape} (π : Index → Index) (hπ : ∀ i, Valid s i → π i = i) :
    ∀ ds : List (String × Q0 α), (∀ kd ∈ ds, WF0 kd.2 ∧ kd.2.shape = s ∧ kd.2.numer = numer) →
      List.Forall₂ (fun kd kd' => kd.1 = kd'.1 ∧ LeadReindex π s kd.2 kd'.2) ds ds
  | [], _ => List.Forall₂.nil
  | kd :: ds, hds => by
    obtain ⟨w, hs, _⟩ := hds kd (by simp)
    refine List.Forall₂.cons ⟨rfl, ?_⟩ (derivs_refl π hπ ds fun kd' h' => hds kd' (by simp [h']))
    have := LeadReindex.refl w π (fun i hi => hπ i (hs ▸ hi))
    rwa [hs] at this

theorem reshape0_eq (q : Q0 α) (shape : List Int) :
    reshape0 q shape = if shape = ofNats q.shape then .ok q
      else NpShape.reshape q.vals (shape ++ ofNats q.item) >>= fun nv =>
        maskThrough (fun x => NpShape.reshape x shape) q.mask >>= fun nm => likeSelf q nv nm := by
  unfold reshape0 maskThrough; cases q.mask <;> rfl

/-- the leading map of a reshape from `old` to `new` -/
def reshapeIdx (old new : Shape) : Index → Index := fun i => unravel old (ravel new i)

/-- op_is_reindex for `reshape`, one object: with `new` the shape NumPy resolves the target to on the LEADING
    size (the `-1` arithmetic does not see the item, `resolve_append_item`), the result is `q` re-indexed by
    `unravel old ∘ ravel new` on the leading part -/
theorem reshape0_reindex {q q' : Q0 α} {shape : List Int} {new : Shape} (hwf : WF0 q) (hitem : 0 < size q.item)
    (hres : resolve (size q.shape) shape = .ok new) (h : reshape0 q shape = .ok q') :
    LeadReindex (reshapeIdx q.shape new) new q q' := by
  rw [reshape0_eq] at h
  split at h
  · rename_i heq
    injection h with h; subst h
    rw [heq, resolve_ofNats] at hres
    injection hres with hres; subst hres
    exact LeadReindex.refl hwf _ (fun i hi => unravel_ravel hi)
  · obtain ⟨nv, hnv, h⟩ := bind_ok.1 h
    obtain ⟨nm, hnm, h⟩ := bind_ok.1 h
    have hsz := resolve_size hres
    have hvs : q.vals.shape = q.shape ++ q.item := by rw [hwf.vshape, List.append_assoc]; rfl
    have hres' : resolve (size q.vals.shape) (shape ++ ofNats q.item) = .ok (new ++ q.item) := by
      rw [hvs, size_append, resolve_append_item _ _ _ hitem, hres]; rfl
    rw [reshape_eq q.vals _ _ hres'] at hnv
    injection hnv with hnv; subst hnv
    refine likeSelf_reindex (show (reshapeTo q.vals (new ++ q.item)).shape = new ++ q.numer ++ q.denom by
      show new ++ q.item = _; unfold Q0.item; rw [List.append_assoc]) ?_ ?_ h
    · intro i k hi hk
      exact (reshape_is_reindex q.vals ⟨q.shape, fun _ => false⟩ q.shape q.item new hvs rfl hsz i k hi hk).1
    · cases hm : q.mask with
      | all b =>
        rw [hm] at hnm
        exact Or.inl ⟨b, rfl, (pure_ok.1 hnm).symm⟩
      | arr a =>
        rw [hm] at hnm
        unfold maskThrough at hnm
        obtain ⟨a', ha', e⟩ := map_ok.1 hnm
        have hash := hwf.mshape a hm
        simp only at ha'
        rw [reshape_eq a shape new (by rw [hash]; exact hres)] at ha'
        injection ha' with ha'; subst ha'
        refine Or.inr ⟨a, _, rfl, e.symm, rfl, fun i _ => ?_⟩
        show a.get (unravel a.shape (ravel new i)) = _
        rw [hash]; rfl

/-- **op_is_reindex for `reshape`, whole object**: values, mask and every derivative (each with its own
    denominator, hence its own item size) are re-indexed by the ONE map `unravel old ∘ ravel new` -/
theorem reshape_reindex {q r : Q α} {shape : List Int} {new : Shape} (hwf : WF q)
    (hitem : 0 < size q.base.item) (hditem : ∀ kd ∈ q.derivs, 0 < size kd.2.item)
    (hres : resolve (size q.base.shape) shape = .ok new) (h : Shaper.reshape q shape true = .ok r) :
    ObjReindex (reshapeIdx q.base.shape new) new q r := by
  unfold Shaper.reshape at h
  split at h
  · rename_i heq
    injection h with h; subst h
    rw [heq, resolve_ofNats] at hres
    injection hres with hres; subst hres
    have hid : ∀ i, Valid q.base.shape i → reshapeIdx q.base.shape q.base.shape i = i := fun i hi => unravel_ravel hi
    exact ⟨LeadReindex.refl hwf.base _ hid, derivs_refl _ hid q.derivs hwf.derivs⟩
  · obtain ⟨b, hb, h⟩ := bind_ok.1 h
    obtain ⟨ds, hds, h⟩ := bind_ok.1 h
    have := pure_ok.1 h; subst this
    have hbase := reshape0_reindex hwf.base hitem hres hb
    refine ⟨hbase, ?_⟩
    apply mapDerivs_forall₂ _ q.derivs ds _ hds
    intro kd hkd d1 hd1
    obtain ⟨w, hs, _⟩ := hwf.derivs kd hkd
    have := reshape0_reindex w (hditem kd hkd) (by rw [hs]; exact hres) hd1
    rw [hs] at this
    exact ⟨this, this.shape.trans hbase.shape.symm⟩

/-- `flatten` is `reshape((size,))` (objects of rank < 2 are returned as they are) -/
theorem flatten_reindex {q r : Q α} (hwf : WF q) (hitem : 0 < size q.base.item)
    (hditem : ∀ kd ∈ q.derivs, 0 < size kd.2.item) (hrank : 2 ≤ q.base.shape.length)
    (h : flatten q true = .ok r) :
    ObjReindex (reshapeIdx q.base.shape [size q.base.shape]) [size q.base.shape] q r := by
  unfold flatten at h
  rw [if_neg (by omega)] at h
  refine reshape_reindex hwf hitem hditem ?_ h
  have := resolve_ofNats [size q.base.shape]
  simpa [size_cons, size_nil, ofNats] using this


/-! ## roll_axis / move_axis: optional padding with length-1 axes (the `rank=` extension), then an axis permutation -/

theorem LeadReindex.congr {π π' : Index → Index} {s' : Shape} {q q' : Q0 α} (h : LeadReindex π s' q q')
    (hπ : ∀ i, Valid s' i → π' i = π i) : LeadReindex π' s' q q' :=
  ⟨h.cls, h.shape, h.numer, h.denom, fun i k hi hk => by rw [hπ i hi]; exact h.vals i k hi hk,
    fun i hi => by rw [hπ i hi]; exact h.mask i hi, h.wf⟩

theorem ObjReindex.wf {π : Index → Index} {s' : Shape} {q r : Q α} (h : ObjReindex π s' q r) (hwf : WF q) : WF r := by
  refine ⟨h.1.wf, ?_⟩
  have : ∀ (ds rs : List (String × Q0 α)),
      List.Forall₂ (fun kd kd' => kd.1 = kd'.1 ∧ LeadReindex π s' kd.2 kd'.2) ds rs →
      (∀ kd ∈ ds, kd.2.numer = q.base.numer) →
      ∀ kd' ∈ rs, WF0 kd'.2 ∧ kd'.2.shape = r.base.shape ∧ kd'.2.numer = r.base.numer := by
    intro ds rs hf
    induction hf with
    | nil => intro _ kd' hkd'; cases hkd'
    | cons hhead _ ih =>
      intro hn kd' hkd'
      rcases List.mem_cons.1 hkd' with e | e
      · subst e
        exact ⟨hhead.2.wf, hhead.2.shape.trans h.1.shape.symm,
          (hhead.2.numer.trans (hn _ (by simp))).trans h.1.numer.symm⟩
      · exact ih (fun kd hkd => hn kd (by simp [hkd])) kd' e
  exact this q.derivs r.derivs h.2 (fun kd hkd => (hwf.derivs kd hkd).2.2)

theorem ObjReindex.trans {π₁ π₂ : Index → Index} {s₁ s₂ : Shape} {q q₁ q₂ : Q α}
    (h₁ : ObjReindex π₁ s₁ q q₁) (h₂ : ObjReindex π₂ s₂ q₁ q₂) (hmap : ∀ i, Valid s₂ i → Valid s₁ (π₂ i)) :
    ObjReindex (fun i => π₁ (π₂ i)) s₂ q q₂ := by
  refine ⟨h₁.1.trans h₂.1 hmap, ?_⟩
  have : ∀ (a b c : List (String × Q0 α)),
      List.Forall₂ (fun kd kd' => kd.1 = kd'.1 ∧ LeadReindex π₁ s₁ kd.2 kd'.2) a b →
      List.Forall₂ (fun kd kd' => kd.1 = kd'.1 ∧ LeadReindex π₂ s₂ kd.2 kd'.2) b c →
      List.Forall₂ (fun kd kd' => kd.1 = kd'.1 ∧ LeadReindex (fun i => π₁ (π₂ i)) s₂ kd.2 kd'.2) a c := by
    intro a b c hab
    induction hab generalizing c with
    | nil => intro hbc; cases hbc; exact List.Forall₂.nil
    | cons hh _ ih =>
      intro hbc
      cases hbc with
      | cons hh2 ht2 => exact List.Forall₂.cons ⟨hh.1.trans hh2.1, hh.2.trans hh2.2 hmap⟩ (ih _ ht2)
  exact this _ _ _ h₁.2 h₂.2

/-- the leading shape after "Add missing axes if necessary" -/
def padded (rk : Nat) (shape : Shape) : Shape := List.replicate (rk - shape.length) 1 ++ shape

theorem size_replicate_one (k : Nat) : size (List.replicate k 1) = 1 := by
  induction k with
  | zero => rfl
  | succ k ih => rw [List.replicate_succ, size_cons, ih]

theorem padShape_eq (rk : Nat) (shape : Shape) : padShape rk shape = ofNats (padded rk shape) := by
  unfold padShape padded ofNats
  rw [List.map_append, List.map_replicate]; rfl

theorem resolve_pad (rk : Nat) (shape : Shape) : resolve (size shape) (padShape rk shape) = .ok (padded rk shape) := by
  rw [padShape_eq]
  have := resolve_ofNats (padded rk shape)
  have hs : size (padded rk shape) = size shape := by
    unfold padded; rw [size_append, size_replicate_one, Nat.one_mul]
  rwa [hs] at this

theorem padded_length {rk : Nat} {shape : Shape} (h : shape.length ≤ rk) : (padded rk shape).length = rk := by
  unfold padded; simp; omega

theorem padded_self {rk : Nat} {shape : Shape} (h : shape.length = rk) : padded rk shape = shape := by
  unfold padded; rw [h, Nat.sub_self]; rfl

/-- one object: "Add missing axes if necessary" is a reshape to the padded shape (or nothing) -/
theorem pad0_reindex {q q1 : Q0 α} {rk : Nat} (hwf : WF0 q) (hitem : 0 < size q.item) (hrk : q.shape.length ≤ rk)
    (hq1 : (if q.shape.length < rk then reshape0 q (padShape rk q.shape) else pure q) = .ok q1) :
    LeadReindex (reshapeIdx q.shape (padded rk q.shape)) (padded rk q.shape) q q1 := by
  split at hq1
  · exact reshape0_reindex hwf hitem (resolve_pad rk q.shape) hq1
  · have := pure_ok.1 hq1; subst this
    rw [padded_self (by omega)]
    exact LeadReindex.refl hwf _ (fun i hi => unravel_ravel hi)

/-- one object: optional padding (a reshape), then the permuting core -/
theorem padPerm0_reindex {np : {β : Type} → Arr β → Except Err (Arr β)} {q q1 q' : Q0 α} {rk : Nat} {p : List Nat}
    (hwf : WF0 q) (hitem : 0 < size q.item) (hrk : q.shape.length ≤ rk)
    (hq1 : (if q.shape.length < rk then reshape0 q (padShape rk q.shape) else pure q) = .ok q1)
    (hp : IsPerm rk p) (hacts : ActsAs np (padded rk q.shape) p) (h : permCore np q1 = .ok q') :
    LeadReindex (fun i => reshapeIdx q.shape (padded rk q.shape) (unpermute p i))
      (permute p (padded rk q.shape)) q q' := by
  have h1 := pad0_reindex hwf hitem hrk hq1
  have hlen := padded_length hrk
  have h2 := permCore_reindex h1.wf (by rw [h1.shape, hlen]; exact hp.1) (h1.shape ▸ hacts) h
  rw [h1.shape] at h2
  exact h1.trans h2 (fun i hi => valid_unpermute hp hlen hi)

/-! ## roll_axis -/

/-- the position the rolled axis ends up at (`numpy.rollaxis`: `if axis < start: start -= 1`) -/
def rollDest (a1 a2 : Int) : Nat := if a1.toNat < a2.toNat then a2.toNat - 1 else a2.toNat

/-- the leading-axis order of `roll_axis` for the normalised pair `(a1, a2)` at rank `rk` -/
def rollOrder (rk : Nat) (a1 a2 : Int) : List Nat := rollPerm rk a1.toNat (rollDest a1 a2)

theorem rollDest_lt {L : Nat} {a1 a2 : Int} (h1 : 0 ≤ a1) (h2 : a1 < L) (h3 : 0 ≤ a2) (h4 : a2 ≤ L) :
    rollDest a1 a2 < L := by unfold rollDest; split <;> omega

theorem roll_acts (shape : Shape) {a1 a2 : Int} (h1 : 0 ≤ a1) (h2 : a1 < shape.length) (h3 : 0 ≤ a2)
    (h4 : a2 ≤ shape.length) :
    ActsAs (fun x => NpShape.rollaxis x a1 a2) shape (rollOrder shape.length a1 a2) := by
  intro β x item hx
  have ha : a1.toNat < shape.length := by omega
  have hd := rollDest_lt h1 h2 h3 h4
  have hlen : x.shape.length = shape.length + item.length := by rw [hx, List.length_append]
  have r := rollaxis_ok x (axis := a1) (start := a2) (a := a1.toNat) (s := a2)
    (normAxis_of_nonneg h1 (by rw [hlen]; push_cast; omega)) (by rw [if_neg (by omega)]) h3
    (by rw [hlen]; push_cast; omega)
  change NpShape.rollaxis x a1 a2 = .ok (if a1.toNat = rollDest a1 a2 then x
    else transpose x (rollPerm x.shape.length a1.toNat (rollDest a1 a2))) at r
  unfold rollOrder
  by_cases hc : a1.toNat = rollDest a1 a2
  · rw [if_pos hc] at r
    refine ⟨x, r, ?_, ?_⟩
    · rw [← hc, rollPerm_self ha, permute_range, hx]
    · intro i k hi _
      rw [← hc, rollPerm_self ha, unpermute_range i hi]
  · rw [if_neg hc, hlen, rollPerm_lead item.length ha hd] at r
    exact ⟨_, r, transpose_lead x shape item _ (rollPerm_isPerm ha hd) hx⟩

theorem rollOrder_isPerm {L : Nat} {a1 a2 : Int} (h1 : 0 ≤ a1) (h2 : a1 < L) (h3 : 0 ≤ a2) (h4 : a2 ≤ L) :
    IsPerm L (rollOrder L a1 a2) := rollPerm_isPerm (by omega) (rollDest_lt h1 h2 h3 h4)

/-- the leading map of `roll_axis`: un-permute, then un-pad -/
def rollIdx (shape : Shape) (rk : Nat) (a1 a2 : Int) : Index → Index :=
  fun i => reshapeIdx shape (padded rk shape) (unpermute (rollOrder rk a1 a2) i)

theorem rollAxis0_eq (q : Q0 α) (axis start : Int) (rank : Option Nat) :
    rollAxis0 q axis start rank = effRank q.shape.length rank >>= fun rk =>
      rollNorm rk axis start >>= fun a => if q.shape = [] then pure q
        else (if q.shape.length < rk then reshape0 q (padShape rk q.shape) else pure q) >>= fun q1 =>
          rollCore q1 a.1 a.2 := by
  unfold rollAxis0
  simp only [bind, Except.bind, pure, Except.pure]
  cases effRank q.shape.length rank with
  | error e => rfl
  | ok rk =>
    simp only
    cases rollNorm rk axis start with
    | error e => rfl
    | ok a =>
      obtain ⟨a1, a2⟩ := a
      simp only
      split
      · rfl
      · split <;> rfl

/-- op_is_reindex for `roll_axis`, one object, for ANY arguments that normalise to `(a1, a2)` at rank `rk` -/
theorem rollAxis0_reindex {q q' : Q0 α} {x1 x2 a1 a2 : Int} {rank : Option Nat} {rk : Nat} (hwf : WF0 q)
    (hitem : 0 < size q.item) (hne : q.shape ≠ []) (hrk : effRank q.shape.length rank = .ok rk)
    (hn : rollNorm rk x1 x2 = .ok (a1, a2)) (h : rollAxis0 q x1 x2 rank = .ok q') :
    LeadReindex (rollIdx q.shape rk a1 a2) (permute (rollOrder rk a1 a2) (padded rk q.shape)) q q' := by
  obtain ⟨_, _, h1, h2, h3, h4⟩ := rollNorm_ok hn
  have hle : q.shape.length ≤ rk := (effRank_idem hrk (by intro e; exact hne (List.length_eq_zero_iff.1 e))).2
  rw [rollAxis0_eq] at h
  obtain ⟨rk', e1, h⟩ := bind_ok.1 h
  rw [hrk] at e1; injection e1 with e1; subst e1
  obtain ⟨a, e2, h⟩ := bind_ok.1 h
  rw [hn] at e2; injection e2 with e2; subst e2
  rw [if_neg hne] at h
  obtain ⟨q1, hq1, h⟩ := bind_ok.1 h
  rw [rollCore_eq] at h
  have hl := padded_length hle
  exact padPerm0_reindex hwf hitem hle hq1 (rollOrder_isPerm h1 h2 h3 h4)
    (by have this : ActsAs (fun x => NpShape.rollaxis x a1 a2) (padded rk q.shape)
            (rollOrder (padded rk q.shape).length a1 a2) :=
          roll_acts (padded rk q.shape) h1 (by rw [hl]; exact h2) h3 (by rw [hl]; exact h4)
        rwa [hl] at this) h


theorem forall₂_mem_right {R : (String × Q0 α) → (String × Q0 α) → Prop} :
    ∀ {ds rs : List (String × Q0 α)}, List.Forall₂ R ds rs → ∀ kd' ∈ rs, ∃ kd ∈ ds, R kd kd'
  | _, _, .nil, _, h => by cases h
  | _, _, .cons hh ht, kd', h => by
    rcases List.mem_cons.1 h with e | e
    · subst e; exact ⟨_, by simp, hh⟩
    · obtain ⟨kd, hkd, hr⟩ := forall₂_mem_right ht kd' e
      exact ⟨kd, by simp [hkd], hr⟩

/-- whole object: `self.reshape((rank - len) * (1,) + shape, recursive=True)` or nothing -/
theorem padObj_reindex {q q1 : Q α} {rk : Nat} (hwf : WF q) (hitem : 0 < size q.base.item)
    (hditem : ∀ kd ∈ q.derivs, 0 < size kd.2.item) (hrk : q.base.shape.length ≤ rk)
    (hq1 : (if q.base.shape.length < rk then Shaper.reshape q (padShape rk q.base.shape) true else pure q) = .ok q1) :
    ObjReindex (reshapeIdx q.base.shape (padded rk q.base.shape)) (padded rk q.base.shape) q q1 := by
  split at hq1
  · exact reshape_reindex hwf hitem hditem (resolve_pad rk q.base.shape) hq1
  · have := pure_ok.1 hq1; subst this
    rw [padded_self (by omega)]
    have hid : ∀ i, Valid q.base.shape i → reshapeIdx q.base.shape q.base.shape i = i := fun i hi => unravel_ravel hi
    exact ⟨LeadReindex.refl hwf.base _ hid, derivs_refl _ hid q.derivs hwf.derivs⟩

/-- whole object: optional padding of the object AND its derivatives (`self.reshape(..., recursive)`), the
    permuting core on the base, and a `recursive=False` call `f` on every (padded) derivative that realises the
    same permutation: everything is re-indexed by the ONE map "un-permute, then un-pad" -/
theorem padPermObj_reindex {np : {β : Type} → Arr β → Except Err (Arr β)} {q q1 : Q α} {b : Q0 α}
    {ds : List (String × Q0 α)} {rk : Nat} {p : List Nat} {f : Q0 α → Except Err (Q0 α)}
    (hwf : WF q) (hitem : 0 < size q.base.item) (hditem : ∀ kd ∈ q.derivs, 0 < size kd.2.item)
    (hrk : q.base.shape.length ≤ rk)
    (hq1 : (if q.base.shape.length < rk then Shaper.reshape q (padShape rk q.base.shape) true else pure q) = .ok q1)
    (hp : IsPerm rk p) (hacts : ActsAs np (padded rk q.base.shape) p) (hb : permCore np q1.base = .ok b)
    (hf : ∀ d d', WF0 d → 0 < size d.item → d.shape = padded rk q.base.shape → f d = .ok d' →
      LeadReindex (unpermute p) (permute p (padded rk q.base.shape)) d d')
    (hds : mapDerivs b q1.derivs f = .ok ds) :
    ObjReindex (fun i => reshapeIdx q.base.shape (padded rk q.base.shape) (unpermute p i))
      (permute p (padded rk q.base.shape)) q ⟨b, ds⟩ := by
  have h1 := padObj_reindex hwf hitem hditem hrk hq1
  have wf1 := h1.wf hwf
  have hlen := padded_length hrk
  have hbase := permCore_reindex wf1.base (by rw [h1.1.shape, hlen]; exact hp.1) (h1.1.shape ▸ hacts) hb
  rw [h1.1.shape] at hbase
  have h2 : ObjReindex (unpermute p) (permute p (padded rk q.base.shape)) q1 ⟨b, ds⟩ := by
    refine ⟨hbase, ?_⟩
    apply mapDerivs_forall₂ _ q1.derivs ds _ hds
    intro kd' hkd' d1 hd1
    obtain ⟨w, hs, _⟩ := wf1.derivs kd' hkd'
    obtain ⟨kd, hkd, _, hr⟩ := forall₂_mem_right h1.2 kd' hkd'
    have hit : 0 < size kd'.2.item := by
      have := hditem kd hkd
      unfold Q0.item at this ⊢
      rwa [hr.numer, hr.denom]
    have := hf kd'.2 d1 w hit (hs.trans h1.1.shape) hd1
    exact ⟨this, this.shape.trans hbase.shape.symm⟩
  exact h1.trans h2 (fun i hi => valid_unpermute hp hlen hi)

theorem rollAxis_eq (q : Q α) (axis start : Int) (rank : Option Nat) :
    rollAxis q axis start true rank = effRank q.base.shape.length rank >>= fun rk =>
      rollNorm rk axis start >>= fun a => if q.base.shape = [] then pure q
        else (if q.base.shape.length < rk then Shaper.reshape q (padShape rk q.base.shape) true else pure q) >>=
          fun q1 => rollCore q1.base a.1 a.2 >>= fun b =>
            mapDerivs b q1.derivs (rollAxis0 · a.1 a.2 (some rk)) >>= fun ds => pure ⟨b, ds⟩ := by
  unfold rollAxis
  simp only [bind, Except.bind, pure, Except.pure]
  cases effRank q.base.shape.length rank with
  | error e => rfl
  | ok rk =>
    simp only
    cases rollNorm rk axis start with
    | error e => rfl
    | ok a =>
      obtain ⟨a1, a2⟩ := a
      simp only
      split
      · rfl
      · split <;> rfl

/-- **op_is_reindex for `roll_axis`, whole object** (incl. the `rank=` extension): values, mask and every
    derivative are re-indexed by ONE map on the leading part; the recursive calls `deriv.roll_axis(a1, a2,
    False, rank)` re-normalise to the same pair and rank (`rollNorm_idem`, `effRank_idem`) -/
theorem rollAxis_reindex {q r : Q α} {axis start a1 a2 : Int} {rank : Option Nat} {rk : Nat} (hwf : WF q)
    (hitem : 0 < size q.base.item) (hditem : ∀ kd ∈ q.derivs, 0 < size kd.2.item) (hne : q.base.shape ≠ [])
    (hrk : effRank q.base.shape.length rank = .ok rk) (hn : rollNorm rk axis start = .ok (a1, a2))
    (h : rollAxis q axis start true rank = .ok r) :
    ObjReindex (rollIdx q.base.shape rk a1 a2) (permute (rollOrder rk a1 a2) (padded rk q.base.shape)) q r := by
  obtain ⟨_, _, h1, h2, h3, h4⟩ := rollNorm_ok hn
  have hlen0 : q.base.shape.length ≠ 0 := fun e => hne (List.length_eq_zero_iff.1 e)
  obtain ⟨hrk', hle⟩ := effRank_idem hrk hlen0
  rw [rollAxis_eq] at h
  obtain ⟨rk', e1, h⟩ := bind_ok.1 h
  rw [hrk] at e1; injection e1 with e1; subst e1
  obtain ⟨a, e2, h⟩ := bind_ok.1 h
  rw [hn] at e2; injection e2 with e2; subst e2
  rw [if_neg hne] at h
  obtain ⟨q1, hq1, h⟩ := bind_ok.1 h
  obtain ⟨b, hb, h⟩ := bind_ok.1 h
  obtain ⟨ds, hds, h⟩ := bind_ok.1 h
  have := pure_ok.1 h; subst this
  rw [rollCore_eq] at hb
  have hl := padded_length hle
  have hacts : ActsAs (fun x => NpShape.rollaxis x a1 a2) (padded rk q.base.shape) (rollOrder rk a1 a2) := by
    have this : ActsAs (fun x => NpShape.rollaxis x a1 a2) (padded rk q.base.shape)
        (rollOrder (padded rk q.base.shape).length a1 a2) :=
      roll_acts (padded rk q.base.shape) h1 (by rw [hl]; exact h2) h3 (by rw [hl]; exact h4)
    rwa [hl] at this
  have hp := rollOrder_isPerm h1 h2 h3 h4
  refine padPermObj_reindex hwf hitem hditem hle hq1 hp hacts hb ?_ hds
  intro d d' wd hid hsd hd
  have hdl : d.shape.length = rk := by rw [hsd, hl]
  have hdne : d.shape ≠ [] := by
    intro e; rw [e] at hdl; simp at hdl; omega
  have := rollAxis0_reindex wd hid hdne (by rw [hdl]; exact hrk') (rollNorm_idem hn) hd
  rw [padded_self hdl, hsd] at this
  refine this.congr (fun i hi => ?_)
  show unpermute _ i = reshapeIdx _ (padded rk (padded rk q.base.shape)) (unpermute _ i)
  rw [padded_self hl]
  exact (unravel_ravel (valid_unpermute hp hl hi)).symm


/-! ## move_axis (any number of axes) -/

theorem mapM_normAxis (n : Nat) : ∀ (l : List Int), (∀ x ∈ l, 0 ≤ x ∧ x < n) →
    l.mapM (NpShape.normAxis n) = .ok (l.map Int.toNat)
  | [], _ => rfl
  | x :: xs, h => by
    rw [List.mapM_cons, normAxis_of_nonneg (h x (by simp)).1 (h x (by simp)).2,
      mapM_normAxis n xs (fun y hy => h y (by simp [hy]))]
    rfl

theorem normAxisTuple_eq (n : Nat) (l : List Int) (h : ∀ x ∈ l, 0 ≤ x ∧ x < n) :
    normAxisTuple n l = if hasDup (l.map Int.toNat) then .error .value else .ok (l.map Int.toNat) := by
  unfold normAxisTuple
  rw [mapM_normAxis n l h]
  rfl

theorem moveaxis_eq {β : Type} (x : Arr β) (s' d' : List Int)
    (hs : ∀ y ∈ s', 0 ≤ y ∧ y < x.shape.length) (hd : ∀ y ∈ d', 0 ≤ y ∧ y < x.shape.length) :
    NpShape.moveaxis x s' d' =
      if hasDup (s'.map Int.toNat) then .error .value
      else if hasDup (d'.map Int.toNat) then .error .value
      else if (s'.map Int.toNat).length ≠ (d'.map Int.toNat).length then .error .value
      else .ok (transpose x (movePerm x.shape.length (s'.map Int.toNat) (d'.map Int.toNat))) := by
  unfold NpShape.moveaxis
  simp only [normAxisTuple_eq _ _ hs, normAxisTuple_eq _ _ hd]
  split
  · rfl
  · split
    · rfl
    · simp only [bind, Except.bind, pure, Except.pure]

/-- the leading-axis order of `move_axis` for normalised axis lists at rank `rk` -/
def moveOrder (rk : Nat) (s' d' : List Int) : List Nat := movePerm rk (s'.map Int.toNat) (d'.map Int.toNat)

/-- the facts about normalised axis lists under which `numpy.moveaxis` accepts them -/
structure MoveOk (L : Nat) (s' d' : List Int) : Prop where
  srange : ∀ y ∈ s', 0 ≤ y ∧ y < (L : Int)
  drange : ∀ y ∈ d', 0 ≤ y ∧ y < (L : Int)
  snodup : hasDup (s'.map Int.toNat) = false
  dnodup : hasDup (d'.map Int.toNat) = false
  len : (s'.map Int.toNat).length = (d'.map Int.toNat).length

theorem MoveOk.lt {L : Nat} {l : List Int} (h : ∀ y ∈ l, 0 ≤ y ∧ y < (L : Int)) : ∀ x ∈ l.map Int.toNat, x < L := by
  intro x hx
  obtain ⟨y, hy, rfl⟩ := List.mem_map.1 hx
  have := h y hy; omega

theorem moveOrder_isPerm {L : Nat} {s' d' : List Int} (h : MoveOk L s' d') : IsPerm L (moveOrder L s' d') :=
  movePerm_isPerm (hasDup_false_nodup _ h.snodup) (MoveOk.lt h.srange) h.len.symm

theorem move_acts (shape : Shape) {s' d' : List Int} (h : MoveOk shape.length s' d') :
    ActsAs (fun x => NpShape.moveaxis x s' d') shape (moveOrder shape.length s' d') := by
  intro β x item hx
  have hlen : x.shape.length = shape.length + item.length := by rw [hx, List.length_append]
  have hs : ∀ y ∈ s', 0 ≤ y ∧ y < (x.shape.length : Int) := fun y hy => by
    have := h.srange y hy; rw [hlen]; push_cast; omega
  have hd : ∀ y ∈ d', 0 ≤ y ∧ y < (x.shape.length : Int) := fun y hy => by
    have := h.drange y hy; rw [hlen]; push_cast; omega
  have e := moveaxis_eq x s' d' hs hd
  rw [if_neg (by rw [h.snodup]; simp), if_neg (by rw [h.dnodup]; simp), if_neg (by rw [h.len]; simp)] at e
  refine ⟨_, e, ?_⟩
  unfold moveOrder
  rw [hlen, movePerm_lead item.length (hasDup_false_nodup _ h.snodup) (hasDup_false_nodup _ h.dnodup)
    (MoveOk.lt h.srange) (MoveOk.lt h.drange) h.len.symm]
  exact transpose_lead x shape item _ (moveOrder_isPerm h) hx

/-- if NumPy accepted the normalised lists on some array of at least `L` axes, they are acceptable -/
theorem moveOk_of_ok {β : Type} {L : Nat} (x y : Arr β) {s' d' : List Int} (hL : L ≤ x.shape.length)
    (hs : ∀ z ∈ s', 0 ≤ z ∧ z < (L : Int)) (hd : ∀ z ∈ d', 0 ≤ z ∧ z < (L : Int))
    (h : NpShape.moveaxis x s' d' = .ok y) : MoveOk L s' d' := by
  have hs' : ∀ z ∈ s', 0 ≤ z ∧ z < (x.shape.length : Int) := fun z hz => by have := hs z hz; omega
  have hd' : ∀ z ∈ d', 0 ≤ z ∧ z < (x.shape.length : Int) := fun z hz => by have := hd z hz; omega
  rw [moveaxis_eq x s' d' hs' hd'] at h
  split at h; · cases h
  split at h; · cases h
  split at h; · cases h
  rename_i h1 h2 h3
  exact ⟨hs, hd, by simpa using h1, by simpa using h2, by simpa using h3⟩


/-- the leading map of `move_axis`: un-permute, then un-pad -/
def moveIdx (shape : Shape) (rk : Nat) (s' d' : List Int) : Index → Index :=
  fun i => reshapeIdx shape (padded rk shape) (unpermute (moveOrder rk s' d') i)

theorem moveAxis0_eq (q : Q0 α) (source destination : List Int) (rank : Option Nat) :
    moveAxis0 q source destination rank = effRank q.shape.length rank >>= fun rk =>
      moveNorm rk source destination >>= fun a => if q.shape = [] then pure q
        else (if q.shape.length < rk then reshape0 q (padShape rk q.shape) else pure q) >>= fun q1 =>
          moveCore q1 a.1 a.2 := by
  unfold moveAxis0
  simp only [bind, Except.bind, pure, Except.pure]
  cases effRank q.shape.length rank with
  | error e => rfl
  | ok rk =>
    simp only
    cases moveNorm rk source destination with
    | error e => rfl
    | ok a =>
      obtain ⟨a1, a2⟩ := a
      simp only
      split
      · rfl
      · split <;> rfl

theorem moveNorm_ranges {n : Nat} {src dst s' d' : List Int} (h : moveNorm n src dst = .ok (s', d')) :
    (∀ y ∈ s', 0 ≤ y ∧ y < (n : Int)) ∧ (∀ y ∈ d', 0 ≤ y ∧ y < (n : Int)) := by
  obtain ⟨e1, e2, hall⟩ := moveNorm_ok h
  subst e1 e2
  constructor
  · intro y hy
    obtain ⟨x, hx, rfl⟩ := List.mem_map.1 hy
    exact (hall x (List.mem_append_left _ hx)).2
  · intro y hy
    obtain ⟨x, hx, rfl⟩ := List.mem_map.1 hy
    exact (hall x (List.mem_append_right _ hx)).2

/-- a successful permuting core tells that NumPy accepted the arguments on the values array -/
theorem permCore_vals_ok {np : {β : Type} → Arr β → Except Err (Arr β)} {q q' : Q0 α} (h : permCore np q = .ok q') :
    ∃ nv, np q.vals = .ok nv := by
  unfold permCore at h
  obtain ⟨nv, hnv, _⟩ := bind_ok.1 h
  exact ⟨nv, hnv⟩

/-- op_is_reindex for `move_axis`, one object, any number of axes, for ANY arguments normalising to `(s', d')` -/
theorem moveAxis0_reindex {q q' : Q0 α} {x1 x2 s' d' : List Int} {rank : Option Nat} {rk : Nat} (hwf : WF0 q)
    (hitem : 0 < size q.item) (hne : q.shape ≠ []) (hrk : effRank q.shape.length rank = .ok rk)
    (hn : moveNorm rk x1 x2 = .ok (s', d')) (h : moveAxis0 q x1 x2 rank = .ok q') :
    LeadReindex (moveIdx q.shape rk s' d') (permute (moveOrder rk s' d') (padded rk q.shape)) q q' := by
  obtain ⟨hsr, hdr⟩ := moveNorm_ranges hn
  have hle : q.shape.length ≤ rk := (effRank_idem hrk (by intro e; exact hne (List.length_eq_zero_iff.1 e))).2
  rw [moveAxis0_eq] at h
  obtain ⟨rk', e1, h⟩ := bind_ok.1 h
  rw [hrk] at e1; injection e1 with e1; subst e1
  obtain ⟨a, e2, h⟩ := bind_ok.1 h
  rw [hn] at e2; injection e2 with e2; subst e2
  rw [if_neg hne] at h
  obtain ⟨q1, hq1, h⟩ := bind_ok.1 h
  rw [moveCore_eq] at h
  have hl := padded_length hle
  have h1 := pad0_reindex hwf hitem hle hq1
  obtain ⟨nv, hnv⟩ := permCore_vals_ok h
  have hok : MoveOk rk s' d' := moveOk_of_ok q1.vals nv
    (by rw [h1.wf.vshape, h1.shape, List.length_append, List.length_append, hl]; omega) hsr hdr hnv
  exact padPerm0_reindex hwf hitem hle hq1 (moveOrder_isPerm hok)
    (by have this : ActsAs (fun x => NpShape.moveaxis x s' d') (padded rk q.shape)
            (moveOrder (padded rk q.shape).length s' d') := move_acts (padded rk q.shape) (by rw [hl]; exact hok)
        rwa [hl] at this) h

theorem moveAxis_eq (q : Q α) (source destination : List Int) (rank : Option Nat) :
    moveAxis q source destination true rank = effRank q.base.shape.length rank >>= fun rk =>
      moveNorm rk source destination >>= fun a => if q.base.shape = [] then pure q
        else (if q.base.shape.length < rk then Shaper.reshape q (padShape rk q.base.shape) true else pure q) >>=
          fun q1 => moveCore q1.base a.1 a.2 >>= fun b =>
            mapDerivs b q1.derivs (moveAxis0 · a.1 a.2 (some rk)) >>= fun ds => pure ⟨b, ds⟩ := by
  unfold moveAxis
  simp only [bind, Except.bind, pure, Except.pure]
  cases effRank q.base.shape.length rank with
  | error e => rfl
  | ok rk =>
    simp only
    cases moveNorm rk source destination with
    | error e => rfl
    | ok a =>
      obtain ⟨a1, a2⟩ := a
      simp only
      split
      · rfl
      · split <;> rfl

/-- **op_is_reindex for `move_axis`, whole object**, any number of axes moved at once, incl. `rank=` -/
theorem moveAxis_reindex {q r : Q α} {source destination s' d' : List Int} {rank : Option Nat} {rk : Nat}
    (hwf : WF q) (hitem : 0 < size q.base.item) (hditem : ∀ kd ∈ q.derivs, 0 < size kd.2.item)
    (hne : q.base.shape ≠ []) (hrk : effRank q.base.shape.length rank = .ok rk)
    (hn : moveNorm rk source destination = .ok (s', d')) (h : moveAxis q source destination true rank = .ok r) :
    ObjReindex (moveIdx q.base.shape rk s' d') (permute (moveOrder rk s' d') (padded rk q.base.shape)) q r := by
  obtain ⟨hsr, hdr⟩ := moveNorm_ranges hn
  have hlen0 : q.base.shape.length ≠ 0 := fun e => hne (List.length_eq_zero_iff.1 e)
  obtain ⟨hrk', hle⟩ := effRank_idem hrk hlen0
  rw [moveAxis_eq] at h
  obtain ⟨rk', e1, h⟩ := bind_ok.1 h
  rw [hrk] at e1; injection e1 with e1; subst e1
  obtain ⟨a, e2, h⟩ := bind_ok.1 h
  rw [hn] at e2; injection e2 with e2; subst e2
  rw [if_neg hne] at h
  obtain ⟨q1, hq1, h⟩ := bind_ok.1 h
  obtain ⟨b, hb, h⟩ := bind_ok.1 h
  obtain ⟨ds, hds, h⟩ := bind_ok.1 h
  have := pure_ok.1 h; subst this
  rw [moveCore_eq] at hb
  have hl := padded_length hle
  have h1 := padObj_reindex hwf hitem hditem hle hq1
  obtain ⟨nv, hnv⟩ := permCore_vals_ok hb
  have hok : MoveOk rk s' d' := moveOk_of_ok q1.base.vals nv
    (by rw [h1.1.wf.vshape, h1.1.shape, List.length_append, List.length_append, hl]; omega) hsr hdr hnv
  have hacts : ActsAs (fun x => NpShape.moveaxis x s' d') (padded rk q.base.shape) (moveOrder rk s' d') := by
    have this : ActsAs (fun x => NpShape.moveaxis x s' d') (padded rk q.base.shape)
        (moveOrder (padded rk q.base.shape).length s' d') := move_acts (padded rk q.base.shape) (by rw [hl]; exact hok)
    rwa [hl] at this
  have hp := moveOrder_isPerm hok
  refine padPermObj_reindex hwf hitem hditem hle hq1 hp hacts hb ?_ hds
  intro d d' wd hid hsd hd
  have hdl : d.shape.length = rk := by rw [hsd, hl]
  have hdne : d.shape ≠ [] := by
    intro e; rw [e] at hdl; simp at hdl; omega
  have := moveAxis0_reindex wd hid hdne (by rw [hdl]; exact hrk') (moveNorm_idem hn) hd
  rw [padded_self hdl, hsd] at this
  refine this.congr (fun i hi => ?_)
  show unpermute _ i = reshapeIdx _ (padded rk (padded rk q.base.shape)) (unpermute _ i)
  rw [padded_self hl]
  exact (unravel_ravel (valid_unpermute hp hl hi)).symm


/-! ## pi_eq_numpy: on an array of the LEADING shape, NumPy called with the ORIGINAL arguments does what it does
       with the code's normalised arguments — so the `π` of the theorems above is NumPy's own map -/

theorem swapaxes_norm_eq {β : Type} (x : Arr β) {ax1 ax2 b1 b2 : Int}
    (hn : swapNorm x.shape.length ax1 ax2 = .ok (b1, b2)) :
    NpShape.swapaxes x ax1 ax2 = NpShape.swapaxes x b1 b2 := by
  obtain ⟨n1, n2, h1, h2, h3, h4⟩ := swapNorm_ok hn
  rw [swapaxes_ok x n1 n2, swapaxes_ok x (normAxis_of_nonneg h1 h2) (normAxis_of_nonneg h3 h4)]

theorem rollaxis_norm_eq {β : Type} (x : Arr β) {axis start a1 a2 : Int}
    (hn : rollNorm x.shape.length axis start = .ok (a1, a2)) :
    NpShape.rollaxis x axis start = NpShape.rollaxis x a1 a2 := by
  obtain ⟨n1, e2, h1, h2, h3, h4⟩ := rollNorm_ok hn
  rw [rollaxis_ok x n1 e2.symm h3 (by omega),
    rollaxis_ok x (normAxis_of_nonneg h1 h2) (by rw [if_neg (by omega)]) h3 (by omega)]

theorem mapM_normAxis_orig (n : Nat) : ∀ (l : List Int),
    (∀ x ∈ l, NpShape.normAxis n x = .ok (x % (n : Int)).toNat) →
    l.mapM (NpShape.normAxis n) = .ok ((l.map (· % (n : Int))).map Int.toNat)
  | [], _ => rfl
  | x :: xs, h => by
    rw [List.mapM_cons, h x (by simp), mapM_normAxis_orig n xs (fun y hy => h y (by simp [hy]))]
    rfl

theorem moveaxis_norm_eq {β : Type} (x : Arr β) {src dst s' d' : List Int}
    (hn : moveNorm x.shape.length src dst = .ok (s', d')) :
    NpShape.moveaxis x src dst = NpShape.moveaxis x s' d' := by
  obtain ⟨hsr, hdr⟩ := moveNorm_ranges hn
  obtain ⟨e1, e2, hall⟩ := moveNorm_ok hn
  unfold NpShape.moveaxis normAxisTuple
  simp only
  rw [mapM_normAxis _ s' hsr, mapM_normAxis _ d' hdr,
    mapM_normAxis_orig _ src (fun y hy => (hall y (List.mem_append_left _ hy)).1),
    mapM_normAxis_orig _ dst (fun y hy => (hall y (List.mem_append_right _ hy)).1), ← e1, ← e2]

/-! ## broadcast_to: the re-indexing map is NumPy's broadcast projection `bidx` (elements are duplicated, by
       broadcasting only; none is lost or re-masked) -/

theorem broadcastTo0_eq (q : Q0 α) (shape : List Int) :
    broadcastTo0 q shape = if shape = ofNats q.shape then .ok q
      else if shape = [] then
        NpShape.reshape q.vals (ofNats q.item) >>= fun nv =>
          likeSelf q nv (match q.mask with | .all b => .all b | .arr a => .all (a.get (unravel a.shape 0)))
      else NpShape.broadcastTo q.vals (shape ++ ofNats q.item) >>= fun nv =>
        maskThrough (fun x => NpShape.broadcastTo x shape) q.mask >>= fun nm => likeSelf q nv nm := by
  unfold broadcastTo0 maskThrough
  split
  · rfl
  · split
    · cases NpShape.reshape q.vals (ofNats q.item) <;> rfl
    · cases q.mask <;> rfl

theorem npBroadcastTo_ok {β : Type} {x y : Arr β} {shape : List Int} (h : NpShape.broadcastTo x shape = .ok y) :
    y = x.bto (shape.map Int.toNat) := by
  unfold NpShape.broadcastTo at h
  split at h; · cases h
  simp only at h
  split at h
  · injection h with h; exact h.symm
  · cases h

/-- op_is_reindex for `broadcast_to` (target other than `()`), one object: `π = bidx q.shape`, the NumPy
    projection of a result index onto the operand (right-aligned, length-1 axes ↦ 0) -/
theorem broadcastTo0_reindex {q q' : Q0 α} {shape : List Int} (hwf : WF0 q) (hne : shape = [] → q.shape = [])
    (h : broadcastTo0 q shape = .ok q') :
    LeadReindex (bidx q.shape) (shape.map Int.toNat) q q' := by
  rw [broadcastTo0_eq] at h
  split at h
  · rename_i heq
    injection h with h; subst h
    have e : shape.map Int.toNat = q.shape := by rw [heq]; exact map_toNat_ofNats q.shape
    rw [e]
    exact LeadReindex.refl hwf _ (fun i hi => bidx_self hi)
  · rename_i hns
    have hne' : shape ≠ [] := fun e => hns (by rw [e, hne e]; rfl)
    rw [if_neg hne'] at h
    obtain ⟨nv, hnv, h⟩ := bind_ok.1 h
    obtain ⟨nm, hnm, h⟩ := bind_ok.1 h
    have hnv' := npBroadcastTo_ok hnv
    have hvs : q.vals.shape = q.shape ++ q.item := by rw [hwf.vshape, List.append_assoc]; rfl
    have hmap : (shape ++ ofNats q.item).map Int.toNat = shape.map Int.toNat ++ q.item := by
      rw [List.map_append, map_toNat_ofNats]
    subst hnv'
    refine likeSelf_reindex (by show (shape ++ ofNats q.item).map Int.toNat = _; rw [hmap]; unfold Q0.item
                                rw [List.append_assoc]) ?_ ?_ h
    · intro i k _ hk
      show q.vals.get (bidx q.vals.shape (i ++ k)) = _
      rw [hvs, bidx_append _ _ _ _ (NpShape.valid_length hk), bidx_self hk]
    · cases hm : q.mask with
      | all b =>
        rw [hm] at hnm
        exact Or.inl ⟨b, rfl, (pure_ok.1 hnm).symm⟩
      | arr a =>
        rw [hm] at hnm
        unfold maskThrough at hnm
        obtain ⟨a', ha', e⟩ := map_ok.1 hnm
        simp only at ha'
        have := npBroadcastTo_ok ha'; subst this
        refine Or.inr ⟨a, _, rfl, e.symm, rfl, fun i _ => ?_⟩
        show a.get (bidx a.shape i) = _
        rw [hwf.mshape a hm]

theorem broadcastTo_eq (q : Q α) (shape : List Int) :
    Shaper.broadcastTo q shape true = if shape = ofNats q.base.shape then .ok q
      else broadcastTo0 q.base shape >>= fun b =>
        mapDerivs b q.derivs (broadcastTo0 · shape) >>= fun ds => pure ⟨b, ds⟩ := by
  unfold Shaper.broadcastTo
  split <;> rfl

/-- **op_is_reindex for `broadcast_to`, whole object**: values, mask and every derivative are projected by
    the ONE map `bidx shape`; items untouched -/
theorem broadcastTo_reindex {q r : Q α} {shape : List Int} (hwf : WF q) (hne : shape = [] → q.base.shape = [])
    (h : Shaper.broadcastTo q shape true = .ok r) :
    ObjReindex (bidx q.base.shape) (shape.map Int.toNat) q r := by
  rw [broadcastTo_eq] at h
  split at h
  · rename_i heq
    injection h with h; subst h
    have e : shape.map Int.toNat = q.base.shape := by rw [heq]; exact map_toNat_ofNats q.base.shape
    rw [e]
    have hid : ∀ i, Valid q.base.shape i → bidx q.base.shape i = i := fun i hi => bidx_self hi
    exact ⟨LeadReindex.refl hwf.base _ hid, derivs_refl _ hid q.derivs hwf.derivs⟩
  · obtain ⟨b, hb, h⟩ := bind_ok.1 h
    obtain ⟨ds, hds, h⟩ := bind_ok.1 h
    have := pure_ok.1 h; subst this
    have hbase := broadcastTo0_reindex hwf.base hne hb
    refine ⟨hbase, ?_⟩
    apply mapDerivs_forall₂ _ q.derivs ds _ hds
    intro kd hkd d1 hd1
    obtain ⟨w, hs, _⟩ := hwf.derivs kd hkd
    have := broadcastTo0_reindex w (fun e => hs.trans (hne e)) hd1
    rw [hs] at this
    exact ⟨this, this.shape.trans hbase.shape.symm⟩

/-! ## join_items / split_items: inverse pair; casts change the class only -/

/-- the constructor re-splits the full shape at the ranks it is told; values and mask are taken as given -/
theorem construct_split {cls : Cls} {vals : Arr α} {mask : Mask} {nr dr : Nat} {q' : Q0 α} {s n d : Shape}
    (h : construct cls vals mask nr dr = .ok q') (hv : vals.shape = s ++ n ++ d) (hn : n.length = nr)
    (hd : d.length = dr) (hm : ∀ a, mask = .arr a → a.shape = s) :
    q'.cls = cls ∧ q'.vals = vals ∧ q'.shape = s ∧ q'.numer = n ∧ q'.denom = d ∧ q'.mask = mask ∧ WF0 q' := by
  obtain ⟨hc, hvv, hs, hnn, hdd, hmm⟩ := construct_ok h
  rw [hv] at hs
  obtain ⟨e1, e2, e3⟩ := append3_inj hs (hnn.trans hn.symm) (hdd.trans hd.symm)
  have hmask : q'.mask = mask := suitableMask_at hmm (fun a ha => by rw [hm a ha, e1])
  refine ⟨hc, hvv, e1, e2, e3, hmask, ⟨by rw [hvv, hv, e1, e2, e3], fun a ha => ?_⟩⟩
  rw [hmask] at ha; rw [hm a ha, e1]

/-- `Qube.cast`: class may change, nothing else does -/
theorem cast_keeps {q q' : Q0 α} (hwf : WF0 q) : ∀ (cs : List Cls), ItemOps.cast q cs = .ok q' →
    q'.vals = q.vals ∧ q'.shape = q.shape ∧ q'.numer = q.numer ∧ q'.denom = q.denom ∧ q'.mask = q.mask ∧ WF0 q'
  | [], h => by
    unfold ItemOps.cast at h; injection h with h; subst h; exact ⟨rfl, rfl, rfl, rfl, rfl, hwf⟩
  | c :: cs, h => by
    unfold ItemOps.cast at h
    split at h
    · injection h with h; subst h; exact ⟨rfl, rfl, rfl, rfl, rfl, hwf⟩
    · split at h
      · exact cast_keeps hwf cs h
      · split at h
        · exact cast_keeps hwf cs h
        · obtain ⟨_, h1, h2, h3, h4, h5, h6⟩ := construct_split h hwf.vshape rfl rfl hwf.mshape
          exact ⟨h1, h2, h3, h4, h5, h6⟩

theorem joinItems_spec {q r : Q α} {cs : List Cls} (hwf : WF0 q.base) (hd : q.base.denom ≠ [])
    (h : joinItems q cs = .ok r) :
    r.base.vals = q.base.vals ∧ r.base.shape = q.base.shape ∧ r.base.numer = q.base.numer ++ q.base.denom ∧
      r.base.denom = [] ∧ r.base.mask = q.base.mask ∧ WF0 r.base := by
  unfold joinItems at h
  rw [if_neg (by intro e; exact hd (List.length_eq_zero_iff.1 e))] at h
  obtain ⟨obj, h1, h⟩ := bind_ok.1 h
  obtain ⟨obj', h2, h⟩ := bind_ok.1 h
  have := pure_ok.1 h; subst this
  obtain ⟨_, a1, a2, a3, a4, a5, a6⟩ := construct_split (s := q.base.shape) (n := q.base.numer ++ q.base.denom) (d := [])
    h1 (by rw [hwf.vshape, List.append_nil, List.append_assoc]) (by rw [List.length_append]) rfl hwf.mshape
  obtain ⟨b1, b2, b3, b4, b5, b6⟩ := cast_keeps a6 cs h2
  exact ⟨b1.trans a1, b2.trans a2, b3.trans a3, b4.trans a4, b5.trans a5, b6⟩

theorem splitItems_spec {q r : Q α} {cs : List Cls} {k : Nat} {n d : Shape} (hwf : WF0 q.base)
    (hsplit : q.base.numer ++ q.base.denom = n ++ d) (hk : n.length = k) (h : splitItems q k cs = .ok r) :
    r.base.vals = q.base.vals ∧ r.base.shape = q.base.shape ∧ r.base.numer = n ∧ r.base.denom = d ∧
      r.base.mask = q.base.mask ∧ WF0 r.base := by
  have hlen : q.base.numer.length + q.base.denom.length = n.length + d.length := by
    rw [← List.length_append, hsplit, List.length_append]
  unfold splitItems at h
  simp only at h
  rw [if_neg (by omega)] at h
  obtain ⟨obj, h1, h⟩ := bind_ok.1 h
  obtain ⟨obj', h2, h⟩ := bind_ok.1 h
  have := pure_ok.1 h; subst this
  obtain ⟨_, a1, a2, a3, a4, a5, a6⟩ := construct_split (s := q.base.shape) (n := n) (d := d)
    h1 (by rw [hwf.vshape, List.append_assoc, hsplit, List.append_assoc]) hk (by omega) hwf.mshape
  obtain ⟨b1, b2, b3, b4, b5, b6⟩ := cast_keeps a6 cs h2
  exact ⟨b1.trans a1, b2.trans a2, b3.trans a3, b4.trans a4, b5.trans a5, b6⟩

/-- **inverse pair**: `join_items` followed by `split_items(nrank)` gives back values, mask and the whole
    shape / numerator / denominator split (whatever classes are asked for) -/
theorem split_join {q r r2 : Q α} {cs cs2 : List Cls} (hwf : WF0 q.base) (hd : q.base.denom ≠ [])
    (hj : joinItems q cs = .ok r) (hs : splitItems r q.base.numer.length cs2 = .ok r2) :
    r2.base.vals = q.base.vals ∧ r2.base.shape = q.base.shape ∧ r2.base.numer = q.base.numer ∧
      r2.base.denom = q.base.denom ∧ r2.base.mask = q.base.mask := by
  obtain ⟨a1, a2, a3, a4, a5, a6⟩ := joinItems_spec hwf hd hj
  obtain ⟨b1, b2, b3, b4, b5, _⟩ := splitItems_spec (n := q.base.numer) (d := q.base.denom) a6
    (by rw [a3, a4, List.append_nil]) rfl hs
  exact ⟨b1.trans a1, b2.trans a2, b3, b4, b5.trans a5⟩

/-- **inverse pair**: `split_items(k)` followed by `join_items` gives back an object without denominator -/
theorem join_split {q r r2 : Q α} {cs cs2 : List Cls} {k : Nat} (hwf : WF0 q.base) (hden : q.base.denom = [])
    (hk : k < q.base.numer.length) (hs : splitItems q k cs = .ok r) (hj : joinItems r cs2 = .ok r2) :
    r2.base.vals = q.base.vals ∧ r2.base.shape = q.base.shape ∧ r2.base.numer = q.base.numer ∧
      r2.base.denom = [] ∧ r2.base.mask = q.base.mask := by
  obtain ⟨a1, a2, a3, a4, a5, a6⟩ := splitItems_spec (n := q.base.numer.take k) (d := q.base.numer.drop k) hwf
    (by rw [hden, List.append_nil, List.take_append_drop]) (by rw [List.length_take]; omega) hs
  have hdne : r.base.denom ≠ [] := by
    rw [a4]; intro e
    have := congrArg List.length e
    rw [List.length_drop] at this; simp at this; omega
  obtain ⟨b1, b2, b3, b4, b5, _⟩ := joinItems_spec a6 hdne hj
  exact ⟨b1.trans a1, b2.trans a2, by rw [b3, a3, a4, List.take_append_drop], b4, b5.trans a5⟩

/-! ## reshape_numer / flatten_numer / as_row / as_column: the numerator part of the index is re-labelled,
       leading and denominator parts are untouched -/

/-- reshaping the middle block of `s ++ n ++ d` to `n'` (same size) moves `(i, k', kd)` from `(i, π k', kd)` -/
theorem reshape_mid (s n n' d : Shape) (i k' kd : Index) (hsz : size n' = size n) (hi : Valid s i)
    (hk : Valid n' k') (hkd : Valid d kd) :
    unravel (s ++ n ++ d) (ravel (s ++ n' ++ d) (i ++ k' ++ kd)) = i ++ unravel n (ravel n' k') ++ kd := by
  have hv : Valid (s ++ n') (i ++ k') := NpShape.valid_append hi hk
  rw [reshape_lead_item (s ++ n) (s ++ n') d (i ++ k') kd (by rw [size_append, size_append, hsz]) hv hkd]
  congr 1
  rw [ravel_append s n' i k' (NpShape.valid_length hi), hsz,
    unravel_append s n _ _ (ravel_lt hi) (hsz ▸ ravel_lt hk), unravel_ravel hi]

theorem size_ofNats_int (s : Shape) : prodInt (ofNats s) = (size s : Int) := prodInt_ofNats s

/-- op_is_reindex (item part) for `reshape_numer` with a target `new` of the numerator's size, one object -/
theorem reshapeNumer0_reindex {q r : Q0 α} {new : Shape} {cs : List Cls} (hwf : WF0 q)
    (h : reshapeNumer0 q (ofNats new) cs = .ok r) :
    size new = size q.numer ∧ r.shape = q.shape ∧ r.numer = new ∧ r.denom = q.denom ∧ r.mask = q.mask ∧ WF0 r ∧
    ∀ i k' kd : Index, Valid q.shape i → Valid new k' → Valid q.denom kd →
      r.vals.get (i ++ k' ++ kd) = q.vals.get (i ++ unravel q.numer (ravel new k') ++ kd) := by
  unfold reshapeNumer0 at h
  split at h; · cases h
  rename_i hsz
  have hsz' : size new = size q.numer := by
    have : (size q.numer : Int) = prodInt (ofNats new) := by simpa using hsz
    rw [prodInt_ofNats] at this; exact_mod_cast this.symm
  obtain ⟨nv, hnv, h⟩ := bind_ok.1 h
  obtain ⟨obj, h1, h2⟩ := bind_ok.1 h
  have htarget : ofNats q.shape ++ ofNats new ++ ofNats q.denom = ofNats (q.shape ++ new ++ q.denom) := by
    unfold ofNats; rw [List.map_append, List.map_append]
  have hres : resolve (size q.vals.shape) (ofNats (q.shape ++ new ++ q.denom)) = .ok (q.shape ++ new ++ q.denom) := by
    have := resolve_ofNats (q.shape ++ new ++ q.denom)
    rwa [show size (q.shape ++ new ++ q.denom) = size q.vals.shape by
      rw [hwf.vshape, size_append, size_append, size_append, size_append, hsz']] at this
  rw [htarget, reshape_eq q.vals _ _ hres] at hnv
  injection hnv with hnv; subst hnv
  obtain ⟨_, a1, a2, a3, a4, a5, a6⟩ := construct_split (s := q.shape) (n := new) (d := q.denom) h1 rfl
    (by unfold ofNats; simp) rfl hwf.mshape
  obtain ⟨b1, b2, b3, b4, b5, b6⟩ := cast_keeps a6 cs h2
  refine ⟨hsz', b2.trans a2, b3.trans a3, b4.trans a4, b5.trans a5, b6, ?_⟩
  intro i k' kd hi hk hkd
  rw [b1, a1]
  show q.vals.get (unravel q.vals.shape (ravel (q.shape ++ new ++ q.denom) (i ++ k' ++ kd))) = _
  rw [hwf.vshape, reshape_mid q.shape q.numer new q.denom i k' kd hsz' hi hk hkd]

/-- **inverse pair**: `as_row` / `as_column` / any `reshape_numer` followed by `reshape_numer` back to the
    original numerator gives back every element, the mask and the shapes -/
theorem reshapeNumer_roundtrip {q r r2 : Q0 α} {new : Shape} {cs cs2 : List Cls} (hwf : WF0 q)
    (h1 : reshapeNumer0 q (ofNats new) cs = .ok r) (h2 : reshapeNumer0 r (ofNats q.numer) cs2 = .ok r2) :
    r2.shape = q.shape ∧ r2.numer = q.numer ∧ r2.denom = q.denom ∧ r2.mask = q.mask ∧
    ∀ i k kd : Index, Valid q.shape i → Valid q.numer k → Valid q.denom kd →
      r2.vals.get (i ++ k ++ kd) = q.vals.get (i ++ k ++ kd) := by
  obtain ⟨s1, a2, a3, a4, a5, a6, a7⟩ := reshapeNumer0_reindex hwf h1
  obtain ⟨_, b2, b3, b4, b5, _, b7⟩ := reshapeNumer0_reindex a6 h2
  refine ⟨b2.trans a2, b3, b4.trans a4, b5.trans a5, fun i k kd hi hk hkd => ?_⟩
  rw [b7 i k kd (a2 ▸ hi) hk (a4 ▸ hkd), a3]
  have hlt : ravel q.numer k < size new := s1 ▸ ravel_lt hk
  rw [a7 i _ kd hi (unravel_valid new _ hlt) hkd, ravel_unravel new _ hlt, unravel_ravel hk]

/-! ## extract_numer / to_scalar: one numerator axis is indexed away; leading index and mask untouched -/

/-- the order that brings axis `a` to the front: `[a, 0, …, a-1, a+1, …]` -/
theorem rollFn_front (a k : Nat) : rollFn a 0 k = if k = 0 then a else if k - 1 < a then k - 1 else k := by
  unfold rollFn; simp

theorem idxOf_rollFront {n a m : Nat} (ha : a < n) (hm : m < n) :
    (rollPerm n a 0).idxOf m = if m = a then 0 else if m < a then m + 1 else m := by
  have hp := rollPerm_isPerm ha (show 0 < n by omega)
  have key : ∀ k (hk : k < n), (rollPerm n a 0)[k]'(by rw [hp.1]; exact hk) = m → (rollPerm n a 0).idxOf m = k := by
    intro k hk h
    rw [← h]; exact hp.2.1.idxOf_getElem _ _
  have hget : ∀ k (hk : k < n), (rollPerm n a 0)[k]'(by rw [hp.1]; exact hk) = rollFn a 0 k := by
    intro k hk
    simp [rollPerm_eq ha (show 0 < n by omega)]
  split
  · rename_i h; subst h
    exact key 0 (by omega) (by rw [hget 0 (by omega), rollFn_front]; simp)
  · split
    · exact key (m + 1) (by omega) (by rw [hget _ (by omega), rollFn_front]; simp; omega)
    · exact key m hm (by rw [hget _ hm, rollFn_front]; split <;> (try split) <;> omega)

/-- the source index of result index `x0 :: j` after rolling axis `a` to the front: `j` with `x0` put back at `a` -/
theorem unpermute_rollFront {n a : Nat} (x0 : Nat) (j : Index) (ha : a < n) (hj : j.length + 1 = n) :
    unpermute (rollPerm n a 0) (x0 :: j) = j.insertIdx a x0 := by
  have hp := rollPerm_isPerm ha (show 0 < n by omega)
  apply list_eq_of_getD
  · rw [length_unpermute, hp.1, List.length_insertIdx, if_pos (by omega)]; omega
  · intro m hm
    rw [length_unpermute, hp.1] at hm
    rw [getD_unpermute _ _ _ (by rw [hp.1]; exact hm), idxOf_rollFront ha hm]
    have hl : m < (j.insertIdx a x0).length := by rw [List.length_insertIdx, if_pos (by omega)]; omega
    rw [getD_of_lt _ _ hl, List.getElem_insertIdx]
    split
    · rename_i h; subst h; simp
    · split
      · rename_i h1 h2
        have hmj : m < j.length := by omega
        simp [List.getD_eq_getElem?_getD, List.getElem?_eq_getElem hmj]
      · rename_i h1 h2
        cases m with
        | zero => omega
        | succ m' =>
          have hmj : m' < j.length := by omega
          simp [List.getD_eq_getElem?_getD, List.getElem?_eq_getElem hmj]

theorem insertIdx_append_right (x : Nat) : ∀ (A B : List Nat) (t : Nat),
    (A ++ B).insertIdx (A.length + t) x = A ++ B.insertIdx t x
  | [], B, t => by simp
  | a :: A, B, t => by
    have : (a :: A).length + t = (A.length + t) + 1 := by simp; omega
    rw [this, List.cons_append, List.insertIdx_succ_cons, insertIdx_append_right x A B t]; rfl


theorem permute_rollFront {n a : Nat} (s : Shape) (ha : a < n) (hs : s.length = n) :
    permute (rollPerm n a 0) s = s.getD a 0 :: s.eraseIdx a := by
  have hp := rollPerm_isPerm ha (show 0 < n by omega)
  apply list_eq_of_getD
  · rw [length_permute, hp.1, List.length_cons, List.length_eraseIdx, if_pos (by omega)]; omega
  · intro k hk
    rw [length_permute, hp.1] at hk
    rw [getD_permute _ _ _ (by rw [hp.1]; exact hk)]
    have hget : (rollPerm n a 0)[k]'(by rw [hp.1]; exact hk) = rollFn a 0 k := by
      simp [rollPerm_eq ha (show 0 < n by omega)]
    rw [hget, rollFn_front]
    cases k with
    | zero => simp
    | succ k' =>
      have hk' : k' < (s.eraseIdx a).length := by rw [List.length_eraseIdx, if_pos (by omega)]; omega
      simp only [Nat.add_sub_cancel, Nat.succ_ne_zero, if_false, List.getD_cons_succ]
      rw [getD_of_lt _ _ hk', List.getElem_eraseIdx]
      split
      · exact getD_of_lt _ _ (by omega)
      · exact getD_of_lt _ _ (by omega)

/-- `np.rollaxis(x, a, 0)`: axis `a` to the front -/
theorem rollaxis_front {β : Type} (x : Arr β) {a : Nat} (ha : a < x.shape.length) :
    ∃ y, NpShape.rollaxis x (a : Int) 0 = .ok y ∧ y.shape = x.shape.getD a 0 :: x.shape.eraseIdx a ∧
      ∀ (x0 : Nat) (j : Index), j.length + 1 = x.shape.length → y.get (x0 :: j) = x.get (j.insertIdx a x0) := by
  have r := rollaxis_ok x (axis := (a : Int)) (start := 0) (a := a) (s := 0)
    (by have := normAxis_of_nonneg (n := x.shape.length) (b := (a : Int)) (by omega) (by omega); simpa using this)
    (by simp) (by omega) (by omega)
  simp only [Int.toNat_zero, Nat.not_lt_zero, if_false] at r
  by_cases h0 : a = 0
  · subst h0
    rw [if_pos rfl] at r
    refine ⟨x, r, ?_, fun x0 j _ => by simp⟩
    cases hs : x.shape with
    | nil => rw [hs] at ha; simp at ha
    | cons d ds => simp
  · rw [if_neg h0] at r
    refine ⟨_, r, permute_rollFront x.shape ha rfl, fun x0 j hj => ?_⟩
    show x.get (unpermute _ (x0 :: j)) = _
    rw [unpermute_rollFront x0 j ha hj]

theorem pyIndex_ok {n : Nat} {i : Int} {k : Nat} (h : pyIndex n i = .ok k) : k < n := by
  unfold pyIndex at h
  split at h
  · injection h with h; subst h; split <;> omega
  · cases h

/-- op_is_reindex (item part) for `extract_numer` / `to_scalar`, one object: the result drops numerator axis
    `a1`; element `(i, kk)` comes from `(i, kk with k inserted at a1)`; the leading index `i` and the mask are
    untouched -/
theorem extractNumerCore_reindex {q r : Q0 α} {a1 : Nat} {index : Int} {cs : List Cls} (hwf : WF0 q)
    (ha : a1 < q.numer.length) (h : extractNumerCore q a1 index cs = .ok r) :
    ∃ k, pyIndex (q.numer.getD a1 0) index = .ok k ∧ k < q.numer.getD a1 0 ∧
      r.shape = q.shape ∧ r.numer = q.numer.eraseIdx a1 ∧ r.denom = q.denom ∧ r.mask = q.mask ∧ WF0 r ∧
      ∀ i kk : Index, i.length = q.shape.length → kk.length + 1 = q.item.length →
        r.vals.get (i ++ kk) = q.vals.get (i ++ kk.insertIdx a1 k) := by
  unfold extractNumerCore at h
  simp only at h
  obtain ⟨rolled, hroll, h⟩ := bind_ok.1 h
  obtain ⟨k, hk, h⟩ := bind_ok.1 h
  obtain ⟨obj, h1, h2⟩ := bind_ok.1 h
  have hvs : q.vals.shape = q.shape ++ (q.numer ++ q.denom) := by rw [hwf.vshape, List.append_assoc]
  have hlen : q.shape.length + a1 < q.vals.shape.length := by
    rw [hvs, List.length_append, List.length_append]; omega
  obtain ⟨y, hy, hysh, hyget⟩ := rollaxis_front q.vals hlen
  rw [show ((q.shape.length + a1 : Nat) : Int) = ((q.shape.length + a1 : Nat) : Int) from rfl] at hy
  have e : rolled = y := by
    have := hroll.symm.trans hy; injection this
  subst e
  have hhead : rolled.shape.headD 0 = q.numer.getD a1 0 := by
    rw [hysh, List.headD_cons, hvs]
    simp [List.getD_eq_getElem?_getD, List.getElem?_append_right, List.getElem?_append_left ha]
  rw [hhead] at hk
  have herase : rolled.shape.tail = q.shape ++ q.numer.eraseIdx a1 ++ q.denom := by
    rw [hysh, List.tail_cons, hvs, List.eraseIdx_append_of_length_le (by omega), Nat.add_sub_cancel_left,
      List.eraseIdx_append_of_lt_length ha, List.append_assoc]
  obtain ⟨_, a1', a2, a3, a4, a5, a6⟩ := construct_split (s := q.shape) (n := q.numer.eraseIdx a1) (d := q.denom)
    h1 herase (by rw [List.length_eraseIdx, if_pos ha]) rfl hwf.mshape
  obtain ⟨b1, b2, b3, b4, b5, b6⟩ := cast_keeps a6 cs h2
  refine ⟨k, hk, pyIndex_ok hk, b2.trans a2, b3.trans a3, b4.trans a4, b5.trans a5, b6, ?_⟩
  intro i kk hi hkk
  rw [b1, a1']
  show rolled.get (k :: (i ++ kk)) = _
  rw [hyget k (i ++ kk) (by rw [List.length_append, hvs, List.length_append, hi]; unfold Q0.item at hkk; omega),
    ← hi, insertIdx_append_right]

/-- "Position axis from left" accepts exactly NumPy's range and reads negatives as NumPy does; the result is
    a fixed point (the recursive calls on derivatives pass `a1`) -/
theorem itemAxis_ok {rank : Nat} {axis : Int} {a1 : Nat} (h : itemAxis rank axis = .ok a1) :
    a1 < rank ∧ NpShape.normAxis rank axis = .ok a1 ∧ itemAxis rank (a1 : Int) = .ok a1 := by
  unfold itemAxis at h
  simp only at h
  generalize hA : (if axis ≥ 0 then axis else axis + (rank : Int)) = A at h
  by_cases c : A < 0 ∨ A ≥ rank
  · rw [if_pos c] at h; cases h
  rw [if_neg c] at h
  injection h with h; subst h
  refine ⟨by omega, ?_, ?_⟩
  · unfold NpShape.normAxis
    have : -(rank : Int) ≤ axis ∧ axis < rank := by split at hA <;> omega
    rw [if_pos this]
    congr 1
    split at hA <;> split <;> omega
  · unfold itemAxis
    simp only
    have e : (if ((A.toNat : Nat) : Int) ≥ 0 then ((A.toNat : Nat) : Int) else ((A.toNat : Nat) : Int) + (rank : Int))
        = ((A.toNat : Nat) : Int) := if_pos (by omega)
    rw [e, if_neg (by omega)]
    simp
    congr 1
    omega

/-- `extract_numer(axis, index, classes, recursive=False)` for any `axis` that normalises to `a1` -/
theorem extractNumer0_reindex {q r : Q0 α} {axis index : Int} {a1 : Nat} {cs : List Cls} (hwf : WF0 q)
    (hax : itemAxis q.numer.length axis = .ok a1) (h : extractNumer0 q axis index cs = .ok r) :
    ∃ k, pyIndex (q.numer.getD a1 0) index = .ok k ∧ k < q.numer.getD a1 0 ∧
      r.shape = q.shape ∧ r.numer = q.numer.eraseIdx a1 ∧ r.denom = q.denom ∧ r.mask = q.mask ∧ WF0 r ∧
      ∀ i kk : Index, i.length = q.shape.length → kk.length + 1 = q.item.length →
        r.vals.get (i ++ kk) = q.vals.get (i ++ kk.insertIdx a1 k) := by
  unfold extractNumer0 at h
  obtain ⟨a, e, h⟩ := bind_ok.1 h
  rw [hax] at e; injection e with e; subst e
  exact extractNumerCore_reindex hwf (itemAxis_ok hax).1 h

/-! ## stack: row k of the result is operand k, projected by the broadcast map -/

theorem mapM_getElem {β γ : Type} {f : β → Except Err γ} : ∀ {l : List β} {r : List γ}, l.mapM f = .ok r →
    r.length = l.length ∧ ∀ k (h1 : k < l.length) (h2 : k < r.length), f l[k] = .ok r[k]
  | [], r, h => by
    rw [List.mapM_nil] at h; rw [← pure_ok.1 h]; exact ⟨rfl, fun k h1 => by simp at h1⟩
  | x :: xs, r, h => by
    rw [List.mapM_cons] at h
    obtain ⟨y, hy, h⟩ := bind_ok.1 h
    obtain ⟨ys, hys, h⟩ := bind_ok.1 h
    have := pure_ok.1 h; subst this
    obtain ⟨hl, hg⟩ := mapM_getElem hys
    refine ⟨by simp [hl], fun k h1 h2 => ?_⟩
    cases k with
    | zero => simpa using hy
    | succ k' => simpa using hg k' (by simpa using h1) (by simpa using h2)

theorem mapM_some_eq (out : List Int) : ∀ (qs : List (Q0 α)),
    (qs.map some).mapM (fun a => match a with
        | none => (pure none : Except Err (Option (Q0 α)))
        | some q => (broadcastTo0 q out).map some)
      = (qs.mapM (broadcastTo0 · out)).map (·.map some)
  | [] => rfl
  | q :: qs => by
    rw [List.map_cons, List.mapM_cons, List.mapM_cons, mapM_some_eq out qs]
    simp only [bind, Except.bind, Except.map, pure, Except.pure]
    cases broadcastTo0 q out with
    | error e => rfl
    | ok b =>
      simp only
      cases List.mapM (fun x => broadcastTo0 x out) qs <;> rfl

/-- values and mask of the stacked object, row by row -/
theorem stackFinal {zero : α} {bs : List (Q0 α)} {out numer denom : Shape} {cls : Cls} {r : Q0 α}
    (hb : ∀ b ∈ bs, WF0 b ∧ b.shape = out ∧ b.numer = numer ∧ b.denom = denom)
    (h : construct cls (stackVals zero (out ++ (numer ++ denom)) ((bs.map some).map (·.map (·.vals))))
          (stackMask out ((bs.map some).map (·.map (·.mask)))) numer.length denom.length = .ok r) :
    r.shape = bs.length :: out ∧ r.numer = numer ∧ r.denom = denom ∧ WF0 r ∧
    ∀ k (hk : k < bs.length) (i kk : Index),
      r.vals.get ((k :: i) ++ kk) = bs[k].vals.get (i ++ kk) ∧ r.mask.at (k :: i) = bs[k].mask.at i := by
  have hlenv : ((bs.map some).map (·.map (·.vals))).length = bs.length := by simp
  have hlenm : ((bs.map some).map (·.map (·.mask))).length = bs.length := by simp
  have hmshape : ∀ a, stackMask out ((bs.map some).map (·.map (·.mask))) = .arr a → a.shape = bs.length :: out := by
    intro a ha
    unfold stackMask at ha
    simp only at ha
    split at ha
    · injection ha with ha; subst ha; simp
    · cases ha
  obtain ⟨_, a1, a2, a3, a4, a5, a6⟩ := construct_split (s := bs.length :: out) (n := numer) (d := denom) h
    (by show _ :: (out ++ (numer ++ denom)) = _; rw [hlenv]; simp) rfl rfl hmshape
  refine ⟨a2, a3, a4, a6, fun k hk i kk => ⟨?_, ?_⟩⟩
  · rw [a1]
    show (match ((bs.map some).map (·.map (·.vals)))[k]? with
      | some (some a) => a.get (i ++ kk)
      | _ => zero) = _
    simp [hk]
  · rw [a5]
    unfold stackMask
    simp only
    split
    · show (match ((bs.map some).map (·.map (·.mask)))[k]? with
        | some (some m) => m.at i
        | _ => false) = _
      simp [hk]
    · -- no array mask and not both scalar values: every mask is the same scalar
      rename_i hc
      have hmem := List.getElem_mem hk
      cases hm : bs[k].mask with
      | arr a =>
        exfalso; apply hc; left
        simp only [List.any_map, List.any_eq_true, Function.comp]
        exact ⟨bs[k], hmem, by simp [hm]⟩
      | all b =>
        show (List.any _ _) = b
        cases b with
        | true =>
          simp only [List.any_map, List.any_eq_true, Function.comp]
          exact ⟨bs[k], hmem, by simp [hm]⟩
        | false =>
          rw [Bool.eq_false_iff]
          intro ht
          apply hc; right
          refine ⟨?_, ht⟩
          simp only [List.any_map, List.any_eq_true, Function.comp]
          exact ⟨bs[k], hmem, by simp [hm]⟩


theorem filterMap_id_map_some (qs : List (Q0 α)) : (qs.map some).filterMap id = qs := by
  induction qs with
  | nil => rfl
  | cons q qs ih => simp [List.filterMap_cons, ih]

/-- **op_is_reindex for `stack`** (operands without place-holders, one object level): row `k` of the result is
    operand `k` projected by NumPy's broadcast map `bidx` — values with the item index untouched, and the mask,
    whichever of the three mask constructions (all false / all true / array) the code takes -/
theorem stack0_reindex {zero : α} {first : Q0 α} {rest : List (Q0 α)} {out : Shape} {r : Q0 α}
    (hwf : ∀ q ∈ first :: rest, WF0 q ∧ q.numer = first.numer ∧ q.denom = first.denom)
    (hout : bcastShapes ((first :: rest).map (·.shape)) = .ok out)
    (hrank : out = [] → ∀ q ∈ first :: rest, q.shape = [])
    (h : stack0 zero ((first :: rest).map some) = .ok r) :
    r.shape = (first :: rest).length :: out ∧ r.numer = first.numer ∧ r.denom = first.denom ∧ WF0 r ∧
    ∀ k (hk : k < (first :: rest).length) (i kk : Index), Valid out i → Valid first.item kk →
      r.vals.get ((k :: i) ++ kk) = (first :: rest)[k].vals.get (bidx (first :: rest)[k].shape i ++ kk) ∧
      r.mask.at (k :: i) = (first :: rest)[k].mask.at (bidx (first :: rest)[k].shape i) := by
  unfold stack0 at h
  simp only [filterMap_id_map_some] at h
  have hden : ((first :: rest).any fun q => decide (q.denom ≠ first.denom)) = false := by
    rw [List.any_eq_false]
    intro q hq
    simp [(hwf q hq).2.2]
  rw [if_neg (by rw [hden]; simp)] at h
  obtain ⟨out', e, h⟩ := bind_ok.1 h
  rw [hout] at e; injection e with e; subst e
  obtain ⟨bs, hbs, h⟩ := bind_ok.1 h
  have hbs2 : ((first :: rest).mapM (broadcastTo0 · (ofNats out))).map (·.map some) = .ok bs :=
    (mapM_some_eq (ofNats out) (first :: rest)).symm.trans hbs
  obtain ⟨bs', hbs', e⟩ := map_ok.1 hbs2
  subst e
  obtain ⟨hlen, hget⟩ := mapM_getElem hbs'
  have hout_map : (ofNats out).map Int.toNat = out := map_toNat_ofNats out
  have hre : ∀ k (h1 : k < (first :: rest).length) (h2 : k < bs'.length),
      LeadReindex (bidx (first :: rest)[k].shape) out (first :: rest)[k] bs'[k] := by
    intro k h1 h2
    have hq := hwf _ (List.getElem_mem h1)
    have := broadcastTo0_reindex hq.1
      (fun e => hrank (by have := congrArg (List.map Int.toNat) e; rwa [hout_map] at this) _ (List.getElem_mem h1))
      (hget k h1 h2)
    rwa [hout_map] at this
  have hb : ∀ b ∈ bs', WF0 b ∧ b.shape = out ∧ b.numer = first.numer ∧ b.denom = first.denom := by
    intro b hb
    obtain ⟨k, hk, rfl⟩ := List.mem_iff_getElem.1 hb
    have hr := hre k (hlen ▸ hk) hk
    have hq := hwf _ (List.getElem_mem (hlen ▸ hk))
    exact ⟨hr.wf, hr.shape, hr.numer.trans hq.2.1, hr.denom.trans hq.2.2⟩
  obtain ⟨s1, s2, s3, s4, s5⟩ := stackFinal (zero := zero) (cls := first.cls) hb h
  refine ⟨by rw [s1, hlen], s2, s3, s4, fun k hk i kk hi hkk => ?_⟩
  have hk' : k < bs'.length := hlen ▸ hk
  obtain ⟨v, m⟩ := s5 k hk' i kk
  have hr := hre k hk hk'
  have hq := hwf _ (List.getElem_mem hk)
  refine ⟨v.trans (hr.vals i kk hi ?_), m.trans (hr.mask i hi)⟩
  unfold Q0.item at hkk ⊢
  rw [hq.2.1, hq.2.2]; exact hkk

/-! ## non-vacuity: a concrete object with a derivative goes through the object-level functions -/

def exQ : Q Int :=
  ⟨⟨.vector, [2, 3], [2], [], ⟨[2, 3, 2], fun i => (ravel [2, 3, 2] i : Int)⟩, .arr ⟨[2, 3], fun i => i == [0, 1]⟩⟩,
   [("t", ⟨.vector, [2, 3], [2], [3], ⟨[2, 3, 2, 3], fun i => (100 + ravel [2, 3, 2, 3] i : Int)⟩, .all false⟩)]⟩

example : swapNorm 2 (-1) 0 = .ok (1, 0) ∧
    ((swapAxes exQ (-1) 0 true).toOption.map fun r => (r.base.shape, r.derivs.map (·.2.shape))) = some ([3, 2], [[3, 2]]) := by
  decide
example : effRank 2 (some 3) = .ok 3 ∧ rollNorm 3 (-1) 0 = .ok (2, 0) ∧
    ((rollAxis exQ (-1) 0 true (some 3)).toOption.map fun r => (r.base.shape, r.derivs.map (·.2.shape)))
      = some ([3, 1, 2], [[3, 1, 2]]) := by
  decide
example : resolve 6 [-1, 2] = .ok [3, 2] ∧
    ((Shaper.reshape exQ [-1, 2] true).toOption.map fun r => (r.base.shape, r.derivs.map (·.2.shape)))
      = some ([3, 2], [[3, 2]]) := by
  decide

end PMV.C15
