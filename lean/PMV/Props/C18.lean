import PMV.Lemmas.Cache
import PMV.Gen.EventPaths
/-
  C18 — cached views never go stale: answers do not depend on caching or query order.
  Property theorems only (helper development: PMV/Lemmas/Cache.lean).  Core Lean; no Mathlib.

  `publicTable` is REGENERATED from the source of /repo on every run (harness/c18_py2lean.py); the theorems
  `translator_complete`, `policy_covers_writes`, `policy_raising_partial` are closed by evaluation of a semantic
  condition on that table, so they are re-proved against what the code says now.
-/
namespace PMV.Cache
open PMV.Gen.EventPaths

/-! #### T2: the cache policy read off the source -/

/-- the translator understood every mutator it found (otherwise the tie is broken, never silently skipped) -/
theorem translator_complete : parseFailures = [] := by decide

/-- For every public mutator and every control-flow path on which it returns: whatever cached entry the writes
    of the path can invalidate (given what may be cached at that point, for an ndarray and for a Python-scalar
    `_values_`) is removed by the path afterwards. -/
theorem policy_covers_writes :
    ∀ m ∈ publicTable, ∀ es ∈ m.2, endsRet es = true → pathOK es = true := by
  have h : publicTable.coversReturning = true := by decide +kernel
  intro m hm es hes hr
  have := (List.all_eq_true.mp ((List.all_eq_true.mp h) m hm)) es hes
  simpa [hr] using this

-- FULL: the same for the paths that end in an exception.
/-- Raising paths: covered too, except a validation failure inside an inlined helper (`insert_derivs`,
    `delete_derivs`) after the caller has already written — such an exception leaves the object half-updated
    (property C19); the correspondence run watches these paths on the real code. -/
theorem policy_raising_partial :
    ∀ m ∈ publicTable, ∀ es ∈ m.2, endsRet es = false →
      pathOK es = true ∨ raisesInHelperAfterWrite es = true := by
  have h : publicTable.coversRaising = true := by decide +kernel
  intro m hm es hes hr
  have := (List.all_eq_true.mp ((List.all_eq_true.mp h) m hm)) es hes
  simpa [hr] using this

example : ∃ m ∈ publicTable, ∃ es ∈ m.2, endsRet es = true ∧ es.any (· == .write .mask .rebind) = true := by decide

theorem path_mem {T : Table} {n : String} {i : Nat} {es : List Event} (h : T.path n i = some es) :
    ∃ m ∈ T, es ∈ m.2 := by
  unfold Table.path at h
  cases hl : T.lookup n with
  | none => simp [hl] at h
  | some ps =>
    simp only [hl] at h
    refine ⟨(n, ps), ?_, List.mem_of_getElem? h⟩
    clear h
    induction T with
    | nil => simp [List.lookup] at hl
    | cons p T ih =>
      obtain ⟨k, v⟩ := p
      simp only [List.lookup] at hl
      cases hk : n == k with
      | true =>
        simp only [hk] at hl
        have : n = k := by simpa using hk
        cases hl; subst this; exact List.mem_cons_self
      | false =>
        simp only [hk] at hl
        exact List.mem_cons_of_mem _ (ih hl)

/-- the table theorem discharges the policy hypothesis of the history theorems -/
theorem admissible_covered {st : Step} (h : st.admissible publicTable = true) : st.covered publicTable = true := by
  cases st with
  | query q => rfl
  | mutate n i post fills =>
    simp only [Step.admissible, Step.covered] at h ⊢
    cases hp : publicTable.path n i with
    | none => rfl
    | some es =>
      simp only [hp] at h ⊢
      obtain ⟨m, hm, hes⟩ := path_mem hp
      cases hr : endsRet es with
      | true => exact policy_covers_writes m hm es hes hr
      | false => simpa [hr] using h
  | events es post fills => simp [Step.admissible] at h

/-! #### loops: any number of iterations -/

/-- T2 for `loopTable` (regenerated): every returning path of a public mutator that contains a loop, in segmented
    form (straight pieces; loops with their alternative bodies), passes `segsOK`: an iterate of the abstract
    interpretation of the bodies is CHECKED to be a post-fixpoint, and what follows the loop ends with nothing stale. -/
theorem loop_policy_checked : ∀ m ∈ loopTable, ∀ segs ∈ m.2, segsOK segs = true := by
  have h : (loopTable.all fun m => m.2.all segsOK) = true := by decide +kernel
  intro m hm segs hs
  exact (List.all_eq_true.mp ((List.all_eq_true.mp h) m hm)) segs hs

/-- **hence every unrolling — every number of iterations of every loop, the alternative bodies in any order —
    satisfies the policy** (`segsOK_expands`: monotonicity of `absEvent` + the checked post-fixpoint) -/
theorem policy_covers_all_iterations :
    ∀ m ∈ loopTable, ∀ segs ∈ m.2, ∀ es, Expands segs es → pathOK es = true :=
  fun m hm segs hs _ he => segsOK_expands (loop_policy_checked m hm segs hs) he

/-- e.g. three iterations of a loop whose body writes a derivative, followed by the final clear -/
example : pathOK ([.requireWritable, .mayFill] ++
    [[.write .derivs .store], [.write .derivs .store], [.write .derivs .store]].flatten ++
    [.write .derivs .rebind, .cacheClear, .ret]) = true :=
  segsOK_expands (segs := [⟨false, [[.requireWritable, .mayFill]]⟩, ⟨true, [[.write .derivs .store]]⟩,
                           ⟨false, [[.write .derivs .rebind, .cacheClear, .ret]]⟩]) (by decide)
    (.straight (.loop (alts := [[.write .derivs .store]])
      (iters := [[.write .derivs .store], [.write .derivs .store], [.write .derivs .store]]) (by decide)
      (.straight .nil)))

/-- a loop whose body invalidates without clearing is rejected whatever follows only if nothing clears afterwards -/
example : segsOK [⟨true, [[.write .mask .rebind]]⟩, ⟨false, [[.ret]]⟩] = false := by decide

example : ∃ m ∈ loopTable, ∃ segs ∈ m.2, segs.any (·.isLoop) = true := by decide

/-! #### exceptional exits: an exception that leaves a mutator in the middle of a path -/

/-- REVIEWED list of helpers whose possible exception is NOT covered (they are called after the in-place operators
    have started to write and before the final `clear`; each can only fail on input that the validation phase of
    the same path has already excluded — argued, not proved):
    * `_require_compatible_deriv` (inside `insert_derivs`): the derivatives come from `_add_derivs/_sub_derivs/
      _mul_derivs` of operands that passed `_require_broadcast_into` and the numerator/denominator checks;
    * `Units.mul_units` / `Units.div_units`: raise only through the `Units` constructor on malformed exponents;
      `_require_units_allowed` ran before;
    * `Qube._dtype` (in `_new_values_`/`_set_values_`): raises only for a dtype kind other than bool/int/float;
    * `Qube.remask` (in `require_writable`, re-entered through `delete_derivs`): normalises the object's own mask.
    * `"rep:numpy.store"` — KNOWN FINDING KF-C18-2 (real, replayed by the harness): `__setitem__` expands a single-bool
      mask to an array (indexer.py:175-179) BEFORE the store into the values can be refused by NumPy (a right-hand
      side of the wrong shape); the exception leaves a cached antimask that is still a single bool next to an array
      mask; no cached ANSWER is wrong, but `corners`/`_slicer` then raise ValueError in `_find_corners` (with the
      cache disabled they answer).  Only this representation mismatch is tolerated at a refused store. -/
def exemptExits : List String :=
  ["Qube._require_compatible_deriv", "Units.mul_units", "Units.div_units", "Qube._dtype", "Qube.remask",
   "rep:numpy.store"]

-- FULL: the same with `exemptExits = []`.
/-- T2: at EVERY point of every path of every public mutator where a helper that can raise is called (a polymath
    function with an explicit `raise`, followed through `self.`/`Class.`/`super()` calls and constructors), or where
    NumPy can refuse the in-place update of the values, nothing is stale — except at the reviewed sites. -/
theorem policy_exceptional_exits_partial :
    ∀ m ∈ publicTable, ∀ es ∈ m.2, pathExitsOK exemptExits es = true := by
  have h : (publicTable.all fun m => m.2.all (pathExitsOK exemptExits)) = true := by decide +kernel
  intro m hm es hes
  exact (List.all_eq_true.mp ((List.all_eq_true.mp h) m hm)) es hes

/-- … and in every iteration of every loop -/
theorem loop_exceptional_exits_partial :
    ∀ m ∈ loopTable, ∀ segs ∈ m.2, segsAllExitsOK exemptExits segs = true := by
  have h : (loopTable.all fun m => m.2.all (segsAllExitsOK exemptExits)) = true := by decide +kernel
  intro m hm segs hs
  exact (List.all_eq_true.mp ((List.all_eq_true.mp h) m hm)) segs hs

example : ∃ m ∈ publicTable, ∃ es ∈ m.2, es.any (fun e => match e with | .mayRaise _ => true | _ => false) = true ∧
    es.any (· == .write .mask .rebind) = true := by decide

/-- an exit after the mask has been written and before the clear is rejected -/
example : pathExitsOK [] [.write .mask .rebind, .mayRaise "helper", .cacheClear, .ret] = false := by decide

/-- KF-C18-2 in the abstract: the shape of `__setitem__` on main — expansion of the mask, then a store that may be
    refused — is rejected without the `rep:` exemption, accepted with it; the seeded variant that stores into the
    MASK first (mutant C18x-b) is rejected even with it -/
theorem mask_expansion_exit_counterexample :
    pathExitsOK [] [.write .mask .same, .maskRepChanged, .mayRaise "numpy.store", .write .values .store,
                    .cacheClear, .ret] = false ∧
    pathExitsOK ["rep:numpy.store"] [.write .mask .same, .maskRepChanged, .mayRaise "numpy.store",
                    .write .values .store, .cacheClear, .ret] = true ∧
    pathExitsOK ["rep:numpy.store"] [.write .mask .same, .maskRepChanged, .mayRaise "numpy.store",
                    .write .mask .store, .mayRaise "numpy.store", .write .values .store, .cacheClear, .ret] = false := by
  refine ⟨?_, ?_, ?_⟩ <;> decide

/-- the mutator steps the history theorems speak about:
    * a path of the regenerated table on which the mutator returns (or raises on a covered path),
    * ANY unrolling of a segmented path of `loopTable` (every number of iterations),
    * the prefix of either that an exception cuts off at a `mayRaise` point whose site is not in `exemptExits`. -/
def Admissible (st : Step) : Prop :=
  st.admissible publicTable = true ∨
  (∃ es post fills, st = .events es post fills ∧ ∃ m ∈ loopTable, ∃ segs ∈ m.2, Expands segs es) ∨
  (∃ pre rest site post fills, st = .events pre post fills ∧ exemptExits.contains site = false ∧
    exemptExits.contains ("rep:" ++ site) = false ∧
    ((∃ m ∈ publicTable, (pre ++ .mayRaise site :: rest) ∈ m.2) ∨
     (∃ m ∈ loopTable, ∃ segs ∈ m.2, Expands segs (pre ++ .mayRaise site :: rest))))

theorem admissible_covered_all {st : Step} (h : Admissible st) : st.covered publicTable = true := by
  rcases h with h | ⟨es, post, fills, rfl, m, hm, segs, hs, he⟩ | ⟨pre, rest, site, post, fills, rfl, hsite, hrep, h⟩
  · exact admissible_covered h
  · exact policy_covers_all_iterations m hm segs hs es he
  · rcases h with ⟨m, hm, hes⟩ | ⟨m, hm, segs, hs, he⟩
    · exact pathExitsOK_prefix exemptExits pre rest site (policy_exceptional_exits_partial m hm _ hes) hsite hrep
    · exact segsAllExits_prefix exemptExits (loop_exceptional_exits_partial m hm segs hs) he hsite hrep

/-! #### the invariant, for histories of any length -/

/-- one step keeps the invariant, for ANY table, provided the step's path satisfies the policy -/
theorem good_step (T : Table) (st : Step) {s : St} (h : Good s) (hc : st.covered T = true) :
    Good (step T true st s).2 := by
  cases st with
  | query q => exact good_query true q h
  | mutate n i post fills =>
    simp only [step]
    cases hp : T.path n i with
    | none => exact h
    | some es =>
      simp only [Step.covered, hp] at hc
      exact good_path post es fills h hc
  | events es post fills => exact good_path post es fills h hc

theorem good_run (T : Table) (h : List Step) {s : St} (g : Good s) (hc : ∀ st ∈ h, st.covered T = true) :
    Good (run T true h s) := by
  induction h generalizing s with
  | nil => exact g
  | cons st h ih =>
    exact ih (good_step T st g (hc st List.mem_cons_self)) (fun st' hst' => hc st' (List.mem_cons_of_mem _ hst'))

/-- **Cached views never go stale.**  After every history (no bound on its length) of cached queries and public
    mutators — each taking any path of the regenerated table on which it returns, or raises on a covered path —
    applied to an object in any state with an empty cache (a new object), every cached entry equals its
    recomputation from the current values, mask, units and read-only flag. -/
theorem cache_ok_reachable (h : List Step) (c : Core)
    (hadm : ∀ st ∈ h, Admissible st) :
    CacheOK (run publicTable true h ⟨c, Cache.empty⟩) :=
  good_cacheOK (good_run publicTable h (good_empty c) (fun st hst => admissible_covered_all (hadm st hst)))

example : (Step.mutate "Qube.__iand__" 1 ⟨true, .arr, false, false⟩ []).admissible publicTable = true := by decide
example : (Step.mutate "Qube.__iadd__" 1 ⟨false, .sFalse, true, false⟩ [[.wod]]).admissible publicTable = true := by decide

/-! #### the same answers with the cache disabled -/

theorem answers_eq (T : Table) (h : List Step) {s1 s2 : St} (g : Good s1) (e : s1.core = s2.core)
    (hc : ∀ st ∈ h, st.covered T = true) : answers T true h s1 = answers T false h s2 := by
  induction h generalizing s1 s2 with
  | nil => rfl
  | cons st h ih =>
    have hst := hc st List.mem_cons_self
    have g' := good_step T st g hst
    have hrest : ∀ st' ∈ h, st'.covered T = true := fun st' m => hc st' (List.mem_cons_of_mem _ m)
    simp only [answers]
    cases st with
    | query q =>
      have a1 : (step T true (.query q) s1).1 = (step T false (.query q) s2).1 := by
        simp only [step]
        rw [query_ans_good q g, query_ans_disabled, e]
      have c1 : (step T true (.query q) s1).2.core = (step T false (.query q) s2).2.core := by
        simp only [step]
        rw [query_core, query_core, e]
      rw [a1, ih g' c1 hrest]
    | mutate n i post fills =>
      have a1 : (step T true (.mutate n i post fills) s1).1 = (step T false (.mutate n i post fills) s2).1 := by
        simp only [step]; cases T.path n i <;> rfl
      have c1 : (step T true (.mutate n i post fills) s1).2.core = (step T false (.mutate n i post fills) s2).2.core := by
        simp only [step]
        cases T.path n i with
        | none => exact e
        | some es => simp only []; rw [execPath_core, execPath_core, e]
      rw [a1, ih g' c1 hrest]
    | events es post fills =>
      have c1 : (step T true (.events es post fills) s1).2.core = (step T false (.events es post fills) s2).2.core := by
        simp only [step]; rw [execPath_core, execPath_core, e]
      have a1 : (step T true (.events es post fills) s1).1 = (step T false (.events es post fills) s2).1 := rfl
      rw [a1, ih g' c1 hrest]

/-- **The same history gives the same observable answers with the cache globally disabled**
    (`Qube.DISABLE_CACHE = True`: every lookup misses, qube.py:1272 etc.; `as_readonly` skips the cached objects). -/
theorem same_as_uncached (h : List Step) (c : Core) (hadm : ∀ st ∈ h, Admissible st) :
    answers publicTable true h ⟨c, Cache.empty⟩ = answers publicTable false h ⟨c, Cache.empty⟩ :=
  answers_eq publicTable h (good_empty c) rfl (fun st hst => admissible_covered_all (hadm st hst))

/-! #### asking twice, or asking other questions in between, never changes an answer -/

/-- in every reachable state a question asked twice in a row gets the same answer -/
theorem query_idempotent (h : List Step) (c : Core) (hadm : ∀ st ∈ h, Admissible st)
    (q : Query) :
    let s := run publicTable true h ⟨c, Cache.empty⟩
    (query true q (query true q s).2).1 = (query true q s).1 := by
  intro s
  have g : Good s := good_run publicTable h (good_empty c) (fun st hst => admissible_covered_all (hadm st hst))
  rw [query_ans_good q (good_query true q g), query_ans_good q g, query_core]

/-- in every reachable state asking `q'` first does not change the answer to `q` -/
theorem queries_commute (h : List Step) (c : Core) (hadm : ∀ st ∈ h, Admissible st)
    (q q' : Query) :
    let s := run publicTable true h ⟨c, Cache.empty⟩
    (query true q (query true q' s).2).1 = (query true q s).1 := by
  intro s
  have g : Good s := good_run publicTable h (good_empty c) (fun st hst => admissible_covered_all (hadm st hst))
  rw [query_ans_good q (good_query true q' g), query_ans_good q g, query_core]

/-- … and the general form: an extra question inserted ANYWHERE in a history changes none of the later answers,
    however many mutators and questions follow -/
theorem inserted_query_irrelevant (h1 h2 : List Step) (c : Core) (q' : Query)
    (hadm1 : ∀ st ∈ h1, Admissible st) (hadm2 : ∀ st ∈ h2, Admissible st) :
    let s := run publicTable true h1 ⟨c, Cache.empty⟩
    answers publicTable true h2 (query true q' s).2 = answers publicTable true h2 s := by
  intro s
  have g : Good s := good_run publicTable h1 (good_empty c) (fun st hst => admissible_covered_all (hadm1 st hst))
  have hc2 : ∀ st ∈ h2, st.covered publicTable = true := fun st hst => admissible_covered_all (hadm2 st hst)
  rw [answers_eq publicTable h2 (good_query true q' g) (query_core true q' s) hc2,
      answers_eq publicTable h2 g rfl hc2]

/-! #### new objects that START with a copy of the cache: `clone(retain_cache=True)` fast paths -/

/-- T2 for `derivedTable` (regenerated): `b = a + 1`, `a - 1`, `a * 2`, `a / 2`, `a // 2`, `a % 2` on the fast paths
    build `b` from `a.clone(retain_cache=True)` and then modify it; every such path of the NEW object satisfies the
    policy — i.e. the entries that the clone keeps are exactly those the later writes cannot invalidate. -/
theorem derived_policy_covers : ∀ m ∈ derivedTable, ∀ es ∈ m.2, pathOK es = true := by
  have h : (derivedTable.all fun m => m.2.all pathOK) = true := by decide +kernel
  intro m hm es hes
  exact (List.all_eq_true.mp ((List.all_eq_true.mp h) m hm)) es hes

/-- the object produced by such a fast path from ANY reachable state of the original has a cache without stale
    entries (the new object shares the arrays and starts with the same cache content as the original: the same
    model state) -/
theorem derived_cache_ok (h : List Step) (c : Core) (hadm : ∀ st ∈ h, Admissible st)
    (m : String × List (List Event)) (hm : m ∈ derivedTable) (es : List Event) (hes : es ∈ m.2)
    (post : Facts) (fills : List (List Query)) :
    CacheOK (execPath true post es fills (run publicTable true h ⟨c, Cache.empty⟩)) :=
  good_cacheOK (good_path post es fills
    (good_run publicTable h (good_empty c) (fun st hst => admissible_covered_all (hadm st hst)))
    (derived_policy_covers m hm es hes))

example : ∃ m ∈ derivedTable, ∃ es ∈ m.2,
    es.any (· == .write .values .rebind) = true ∧ es.any (· == .cacheDel .wod) = true := by decide

/-- what the retained cache must NOT keep: without the `del obj._cache_['wod']` of `clone` the policy fails -/
theorem derived_needs_wod_removed :
    pathOK [.call "Qube.clone", .cacheDel .shrunk, .call "Qube._set_values_", .write .values .rebind,
            .write .readonly .rebind, .cacheDel .unshrunk, .write .mask .same, .ret] = false := by decide

/-! #### the derivative objects, when a mutator of the parent writes to them directly -/

/-- T2 for `derivAliasTable` (regenerated): the loops `for key, deriv in self._derivs_.items(): deriv._values_ *= arg;
    deriv._new_values_()` of the number fast paths of `*=` and `/=` (every other change of a derivative goes through
    the derivative's own public mutators, i.e. rows of `publicTable`): as seen by the derivative object, each of
    these paths satisfies the policy. -/
theorem deriv_alias_policy_covers : ∀ m ∈ derivAliasTable, ∀ es ∈ m.2, pathOK es = true := by
  have h : (derivAliasTable.all fun m => m.2.all pathOK) = true := by decide
  intro m hm es hes
  exact (List.all_eq_true.mp ((List.all_eq_true.mp h) m hm)) es hes

/-- hence a derivative object whose cache has no stale entry still has none after its parent's `*= number` -/
theorem deriv_alias_cache_ok (d : St) (g : Good d) (m : String × List (List Event)) (hm : m ∈ derivAliasTable)
    (es : List Event) (hes : es ∈ m.2) (post : Facts) (fills : List (List Query)) :
    CacheOK (execPath true post es fills d) :=
  good_cacheOK (good_path post es fills g (deriv_alias_policy_covers m hm es hes))

example : ∃ m ∈ derivAliasTable, ∃ es ∈ m.2, es.any (· == .write .values .aug) = true := by decide

/-! #### the 'unshrunk' entry of a SHRUNK object: mutators applied to the shrunk object itself -/

/-- T2: on every returning path of every public mutator, whatever is written to the content of the object (values,
    mask, derivatives, units) is followed by `clear` or by the removal of 'unshrunk'.  (A shrunk object is read-only:
    `insert_deriv`, and `delete_deriv`/`set_units` with `override=True`, are the mutators that reach their writes.) -/
theorem policy_unshrunk_covers :
    ∀ m ∈ publicTable, ∀ es ∈ m.2, endsRet es = true → unOK es = true := by
  have h : (publicTable.all fun m => m.2.all fun es => !endsRet es || unOK es) = true := by decide +kernel
  intro m hm es hes hr
  have := (List.all_eq_true.mp ((List.all_eq_true.mp h) m hm)) es hes
  simpa [hr] using this

/-- hence: after any sequence of completed public mutators applied to a shrunk object whose cached original was
    right, `unshrink` answers the same with and without the cache -/
theorem unshrunk_of_mutated_shrunk_object (paths : List (List Event))
    (hp : ∀ es ∈ paths, endsRet es = true ∧ ∃ m ∈ publicTable, es ∈ m.2)
    (s0 : ShrunkSt) (h0 : ShrunkOK s0) :
    sUnshrink true (paths.foldl (fun s es => sRun es s) s0) =
      sUnshrink false (paths.foldl (fun s es => sRun es s) s0) := by
  apply shrunk_same_answer
  induction paths generalizing s0 with
  | nil => exact h0
  | cons es paths ih =>
    obtain ⟨hr, m, hm, hes⟩ := hp es List.mem_cons_self
    exact ih (fun e he => hp e (List.mem_cons_of_mem _ he)) _
      (shrunk_ok_path es h0 (policy_unshrunk_covers m hm es hes hr))

example : ∃ m ∈ publicTable, ∃ es ∈ m.2, endsRet es = true ∧ es.any (· == .write .derivs .store) = true := by
  decide +kernel

/-- regression witness (seeded change C18y-b): `insert_deriv` ending with `_cache_.pop('wod', None)` instead of
    `clear()` is rejected, and the model shows the two answers: `s = a.shrink(m); s.insert_deriv(…); s.unshrink(m)` -/
theorem insert_deriv_pop_wod_counterexample :
    unOK [.mayFill, .write .derivs .store, .write .derivs .store, .cacheDel .wod, .ret] = false ∧
    sUnshrink true (sRun [.mayFill, .write .derivs .store, .write .derivs .store, .cacheDel .wod, .ret] ⟨5, 0, true, 0⟩)
      ≠ sUnshrink false (sRun [.mayFill, .write .derivs .store, .write .derivs .store, .cacheDel .wod, .ret]
          ⟨5, 0, true, 0⟩) := by
  constructor <;> decide

/-! #### regression witnesses: the two defects repaired in /repo, as they were on the pinned tree -/

/-- pinned `Qube.__iand__` with a Qube argument (qube.py:4070-4082 before the fix): no `cacheClear` -/
def pinnedIand : List Event := [.requireWritable, .write .values .aug, .write .mask .rebind, .ret]
/-- pinned fast path of `Qube.__iadd__` (qube.py:2931-2934) with the pinned `_new_values_`: drops 'unshrunk' only -/
def pinnedIadd : List Event := [.requireWritable, .write .values .aug, .call "Qube._new_values_", .cacheDel .unshrunk, .ret]
def pinnedTable : Table := [("Qube.__iand__", [pinnedIand]), ("Qube.__iadd__", [pinnedIadd])]

/-- defect 20: `a.antimask; a &= b` leaves a stale antimask — the policy check rejects the path and the model
    exhibits the stale entry -/
theorem pinned_iand_counterexample :
    pathOK pinnedIand = false ∧
    ¬ CacheOK (run pinnedTable true [.query .antimask, .mutate "Qube.__iand__" 0 ⟨true, .arr, false, false⟩ []]
                ⟨⟨10, 0, 1, 2, true, .arr, false, false, false⟩, Cache.empty⟩) := by
  constructor <;> decide

/-- defect 21: `a = Scalar(1.)` with a derivative; `a.wod; a += 1` leaves a stale wod (a Python-scalar `_values_`
    is rebound); with an ndarray `_values_` the same path is harmless (the clone shares the array) -/
theorem pinned_iadd_counterexample :
    pathOK pinnedIadd = false ∧
    ¬ CacheOK (run pinnedTable true [.query .wod, .mutate "Qube.__iadd__" 0 ⟨false, .sFalse, true, false⟩ []]
                ⟨⟨10, 0, 1, 2, false, .sFalse, false, true, true⟩, Cache.empty⟩) ∧
    CacheOK (run pinnedTable true [.query .wod, .mutate "Qube.__iadd__" 0 ⟨true, .sFalse, true, false⟩ []]
                ⟨⟨10, 0, 1, 2, true, .sFalse, false, true, false⟩, Cache.empty⟩) := by
  refine ⟨?_, ?_, ?_⟩ <;> decide

/-! #### known finding KF-C18-1: the 'unshrunk' entry of a shrunk object is a reference to its original -/

-- FULL: ∀ s a, unshrinkHeld true s a = unshrinkHeld false s a   (false: see the counterexample)
/-- as long as the original has not been modified since it was shrunk, un-shrinking gives the same answer
    with and without the cache -/
theorem unshrunk_held_partial (s : Shrunk) (a : Core) (h : a.v = s.v ∧ a.m = s.m) :
    unshrinkHeld true s a = unshrinkHeld false s a := by
  unfold unshrinkHeld
  cases s.hasRef <;> simp [h.1, h.2]

/-- `s = a.shrink(am); a -= x; s.unshrink(am)`: the cached reference shows the original's NEW values, the
    cache-free run the values at shrink time (replayed on the real code by the harness: `hold:arr, isub:arr, unheld`) -/
theorem unshrunk_held_counterexample :
    let a0 : Core := ⟨10, 0, 1, 2, true, .sFalse, false, false, false⟩
    let s := shrinkHold a0
    let a1 := a0.write .values .aug ⟨true, .sFalse, false, false⟩
    unshrinkHeld true s a1 ≠ unshrinkHeld false s a1 := by decide

end PMV.Cache
