import PMV.Lemmas.FaultsSafe
import PMV.Lemmas.FaultsReject2
import PMV.Gen.Events
/-
  C19 — rejected operations fail cleanly: documented exception class, target left untouched.
  Property theorems only (helper developments: PMV/Lemmas/FaultsBasic.lean, FaultsSafe.lean,
  checker soundness for the event trees: PMV/Model/EventTree.lean).  Core Lean; no Mathlib.
-/
namespace PMV.Faults

/-! ### 1. Validation raises only documented classes -/

/-- **explicit raises are only of the three documented classes**: whatever a validation chain raises is a
    TypeError, a ValueError or an IndexError — for every mutator, target and operand -/
theorem validate_allowed (s : Obj) (c : Call) (e : Exc) (h : validate s c = .error e) : e.allowed = true := by
  cases c <;> simp only [validate] at h
  · exact ok3_vAdd _ _ _ h
  · exact ok3_vAdd _ _ _ h
  · exact ok3_vMul _ _ _ h
  · exact ok3_vDiv _ _ _ h
  · exact ok3_vFloorMod _ _ _ _ h
  · exact ok3_vFloorMod _ _ _ _ h
  · exact ok3_vLogic _ _ _ h
  · exact ok3_vSetItem _ _ _ _ h
  · exact ok3_vInsertDeriv _ _ _ _ _ h
  · exact ok3_vInsertDerivs _ _ _ _ h
  · exact ok3_vDeleteDeriv _ _ _ _ h
  · exact ok3_vDeleteDerivs _ _ _ _ h
  · exact ok3_vSetUnits _ _ _ _ h

example : validate ⟨.scalar, .int, [3], [], [], none, false, 0, []⟩
    (.iadd (.q ⟨.scalar, .float, [3], [], [], none, false, 0, []⟩)) = .error .typeError := by rfl

/-! ### 2. An accepted call cannot fail after its first write -/

/-- typing hypothesis: the `derivs` argument of insert_derivs is a Python dict, so its keys are distinct
    (the model passes it as an association list) -/
def Call.dictKeysDistinct : Call → Prop
  | .insertDerivs ds _ => (ds.map (·.1)).Nodup
  | _ => True

/-- **accept_no_late_failure** (full): if validation accepts, the precondition of EVERY write primitive holds in the
    state in which it is executed (each primitive re-checks it and would raise otherwise), so the plan runs to its
    end: no failure can occur after the first write.  All mutators, all targets and operands — including
    insert_derivs on a read-only object without override, where the k-th insert depends on the earlier ones. -/
theorem accept_no_late_failure (s : Obj) (c : Call) (plan : List Prim) (hc : c.dictKeysDistinct)
    (h : validate s c = .ok plan) : (execAll s plan).2 = none := by
  cases c <;> simp only [validate] at h
  · exact safe_vAdd _ _ _ h
  · exact safe_vAdd _ _ _ h
  · exact safe_vMul _ _ _ h
  · exact safe_vDiv _ _ _ h
  · exact safe_vFloorMod _ _ _ _ h
  · exact safe_vFloorMod _ _ _ _ h
  · exact safe_vLogic _ _ _ h
  · exact safe_vSetItem _ _ _ _ h
  · exact safe_vInsertDeriv _ _ _ _ _ h
  · exact safe_vInsertDerivs _ _ _ hc _ h
  · exact safe_vDeleteDeriv _ _ _ _ h
  · exact safe_vDeleteDerivs _ _ _ _ h
  · exact safe_vSetUnits _ _ _ _ h

/-- a non-trivial accepted instance: Scalar(shape (3,), derivative t) += Scalar(shape (), derivatives t, u) —
    four writes, all executed -/
example :
    let s : Obj := ⟨.scalar, .float, [3], [], [], some 1, false, 0, [⟨"t", [2], false, 0⟩]⟩
    let a : Obj := ⟨.scalar, .float, [], [], [], none, false, 0, [⟨"t", [2], false, 0⟩, ⟨"u", [], false, 0⟩]⟩
    (validate s (.iadd (.q a))).toOption.map List.length = some 5 ∧ (run s (.iadd (.q a))).2 = none := by decide

/-! ### 3. A rejected call leaves the target exactly as it was -/

/-- **reject_clean** (full): whenever a mutator call ends with an exception, the state is the one it started from
    (no write was executed: every write increments a version counter) and the exception is a TypeError, ValueError
    or IndexError. -/
theorem reject_clean (s s' : Obj) (c : Call) (e : Exc) (hc : c.dictKeysDistinct)
    (h : run s c = (s', some e)) : s' = s ∧ e.allowed = true := by
  unfold run at h
  split at h
  · next e' he =>
    cases h
    exact ⟨rfl, validate_allowed s c _ he⟩
  · next plan hp =>
    have := accept_no_late_failure s c plan hc hp
    rw [h] at this
    cases this

/-- the read-only corner, concretely: three new derivatives into a read-only Scalar without override -/
example :
    let s : Obj := ⟨.scalar, .float, [3], [], [], none, true, 0, [⟨"t", [], true, 0⟩]⟩
    let d : Arg := .q ⟨.scalar, .float, [3], [], [], none, false, 0, []⟩
    (run s (.insertDerivs [("u", d), ("v", d), ("w", d)] false)).2 = none := by decide

/-- the statement is not vacuous: executing a write changes the state (version counter), so `s' = s` really
    says that nothing was written -/
theorem write_changes_state (s : Obj) (p : Prim) : p.apply s ≠ s := by
  intro h
  have : (p.apply s).ver = s.ver := by rw [h]
  cases p <;> simp [Prim.apply] at this

/-- a primitive executed although its precondition fails is observed as a DIRTY failure by `run`: the model can
    exhibit the defect the property is about (this is what the unrepaired `insert_derivs` did) -/
example :
    let s : Obj := ⟨.scalar, .float, [3], [], [], none, false, 0, []⟩
    execAll s [.insertDeriv "a" [3] [] [] true false, .insertDeriv "b" [2] [] [] true false]
      = (Prim.apply s (.insertDeriv "a" [3] [] [] true false), some .valueError) := by decide

/-! ### 4. Index errors of item assignment surface as IndexError -/

/-- the `try … except Exception as e: raise IndexError(e)` wrapper of `_prep_index`: whatever the index preparation
    raises internally (`other` included: AttributeError, a NumPy error …) comes out as IndexError -/
theorem prep_index_wrapper_indexerror {α} (inner : Exc) :
    prepIndexWrapper (α := α) (.error inner) = .error .indexError := rfl

/-- **setitem_index_errors_are_indexerror**: item assignment to a writable object with an index whose preparation
    fails raises IndexError — before the operand is even looked at — and changes nothing -/
theorem setitem_index_errors_are_indexerror (s : Obj) (inner : Exc) (a : Arg) (hro : s.ro = false) :
    run s (.setitem (.fails inner) a) = (s, some .indexError) := by
  simp [run, validate, vSetItem, requireWritable, guard', hro, prepIndex, prepIndexWrapper, bind, Except.bind]

/-! ### 5. Every fault class of the property is rejected -/

/-- the fault classes named by the property -/
inductive Fault where
  | shape | units | numer | denom | kind | type | deriv | readOnly | index
  deriving DecidableEq, Repr


/-- a read-only target: every mutator; insert_deriv(s) only when it would REPLACE a derivative without override
    (documented: new derivatives may be inserted into a read-only object); not the calls that explicitly override -/
def roFault (s : Obj) : Call → Prop
  | .iadd _ | .isub _ | .imul _ | .itruediv _ | .ifloordiv _ | .imod _ | .ilogic _ | .setitem _ _
  | .deleteDeriv _ false | .deleteDerivs _ false | .setUnits _ false => s.ro = true
  | .insertDeriv k _ false => s.ro = true ∧ s.hasKey k = true
  | .insertDerivs ds false => s.ro = true ∧ ∃ p ∈ ds, s.hasKey p.1 = true
  | _ => False
/-- a Qube operand that does not broadcast INTO the target (for item assignment: into the selection, NumPy's rule) -/
def shapeFault (s : Obj) : Call → Prop
  | .iadd (.q a) | .isub (.q a) | .imul (.q a) | .itruediv (.q a) | .ifloordiv (.q a) | .imod (.q a)
  | .ilogic (.q a) | .insertDeriv _ (.q a) _ => into a.shape s.shape = false
  | .setitem (.sel sel) (.q a) => assignable a.shape sel = false
  | .insertDerivs ds _ => ∃ p ∈ ds, ∃ a, p.2 = .q a ∧ into a.shape s.shape = false
  | _ => False
/-- incompatible units, or an operand with units for a class that disallows units (`_require_units_allowed`) -/
def unitsFault (s : Obj) : Call → Prop
  | .iadd (.q a) | .isub (.q a) => canMatch s.units a.units = false ∨ unitsAllowed s a = false
  | .imul (.q a) => a.rank = 0 ∧ unitsAllowed s a = false
  | .ifloordiv (.q a) | .imod (.q a) => unitsAllowed s a = false
  | .setUnits (.unit d) _ => canMatch (some d) s.units = false
  | _ => False
def numerFault (s : Obj) : Call → Prop
  | .iadd (.q a) | .isub (.q a) | .setitem (.sel _) (.q a) => (s.numer == a.numer) = false
  | .insertDeriv _ (.q a) _ => (a.numer == s.numer) = false
  | .insertDerivs ds _ => ∃ p ∈ ds, ∃ a, p.2 = .q a ∧ (a.numer == s.numer) = false
  | .ilogic (.q a) => (a.item == s.item) = false          -- &= |= ^= combine items one by one
  | _ => False
def denomFault (s : Obj) : Call → Prop
  | .iadd (.q a) | .isub (.q a) | .setitem (.sel _) (.q a) => (s.denom == a.denom) = false
  | _ => False
/-- a float (or Boolean) operand for an integer target: a Qube operand, or a Python float when the target's values
    are an array (NumPy's cast test).  The remaining corner — a Python float for a shapeless integer object whose
    value is a Python int — is carried out by Python (`Scalar(1) += 1.5` gives Scalar(2.5)) and is not a fault of the
    property: "cannot be carried out" does not apply. -/
def kindFault (s : Obj) : Call → Prop
  | .iadd (.q a) | .isub (.q a) => s.isInt = true ∧ a.isInt = false
  | .imul (.q a) => a.rank = 0 ∧ s.isInt = true ∧ a.isInt = false
  | .iadd (.num .float _) | .isub (.num .float _) | .imul (.num .float _) | .ifloordiv (.num .float _)
  | .imod (.num .float _) => s.kind = .int ∧ s.pyScalar = false
  | .itruediv _ => s.isFloat = false
  | _ => False
/-- an operand of a type polymath cannot convert -/
def typeFault : Call → Prop
  | .iadd .bad | .isub .bad | .imul .bad | .itruediv .bad | .ifloordiv .bad | .imod .bad
  | .setitem (.sel _) .bad | .insertDeriv _ .bad _ | .setUnits .bad _ => True
  | .insertDerivs ds _ => ∃ p ∈ ds, p.2 = .bad
  | _ => False
/-- derivative structure: a derivative present on both sides with different denominators (+=, -=, item assignment),
    derivative terms that cannot be summed or two denominators in one product (*=, /=, `mulClash`), a read-only
    derivative that item assignment would have to write into (`setitemClash`) -/
def derivFault (s : Obj) : Call → Prop
  | .iadd (.q a) | .isub (.q a) => ∃ d ∈ s.derivs, ∃ e, a.find d.key = some e ∧ (e.denom == d.denom) = false
  | .imul (.q a) | .itruediv (.q a) => a.rank = 0 ∧ ∃ e ∈ a.derivs, mulClash s e
  | .setitem (.sel _) (.q a) => s.cls.derivsOk = true ∧ ∃ d ∈ s.derivs, setitemClash a d
  | _ => False
def indexFault : Call → Prop
  | .setitem (.fails _) _ => True
  | _ => False

/-- `HasFault s f c`: call `c` on target `s` exhibits fault class `f` (whatever else is right or wrong with it).
    Only combinations for which the property demands a rejection are listed (DESIGN.d/C19.md §2 and §6 name the
    deliberate omissions: kind faults with bare numbers, units in item assignment, operands of &=, |=, ^=). -/
def HasFault (s : Obj) : Fault → Call → Prop
  | .readOnly => roFault s | .shape => shapeFault s | .units => unitsFault s | .numer => numerFault s
  | .denom => denomFault s | .kind => kindFault s | .type => typeFault | .deriv => derivFault s
  | .index => indexFault

theorem ro_detected (s : Obj) (c : Call) (h : roFault s c) : Rejected (validate s c) := by
  unfold roFault at h
  split at h <;> simp only [validate] <;> first
    | exact absurd h id
    | exact rej_ro_vAdd _ _ h | exact rej_ro_vMul _ _ h | exact rej_ro_vDiv _ _ h | exact rej_ro_vFloorMod _ _ _ h
    | exact rej_ro_vLogic _ _ h | exact rej_ro_vSetItem _ _ _ h | exact rej_ro_vDeleteDeriv _ _ h
    | exact rej_ro_vDeleteDerivs _ _ h | exact rej_ro_vSetUnits _ _ h
    | exact rej_ro_vInsertDeriv _ _ _ h.1 h.2
    | (obtain ⟨hro, p, hp, hk⟩ := h; exact rej_ro_vInsertDerivs _ _ hro p hp hk)
theorem shape_detected (s : Obj) (c : Call) (h : shapeFault s c) : Rejected (validate s c) := by
  unfold shapeFault at h
  split at h <;> simp only [validate] <;> first
    | exact absurd h id
    | exact rejected_vAdd_q _ _ (rejected_vAddQ_of _ _ (Or.inr (Or.inr (Or.inr (Or.inl h)))))
    | exact rej_shape_vFloorMod _ _ _ h | exact rej_shape_vLogic _ _ h | exact rej_shape_vInsertDeriv _ _ _ _ h
    | exact rej_shape_vMul _ _ h | exact rej_shape_vDiv _ _ h | exact rej_shape_vSetItem _ _ _ h
    | (obtain ⟨p, hp, a, ha, hs⟩ := h
       exact rej_vInsertDerivs_of _ _ _ p hp (by rw [ha]; exact compatibleDeriv_shape _ _ hs))
theorem units_detected (s : Obj) (c : Call) (h : unitsFault s c) : Rejected (validate s c) := by
  unfold unitsFault at h
  split at h <;> simp only [validate] <;> first
    | exact absurd h id
    | (rcases h with h | h
       · exact rejected_vAdd_q _ _ (rejected_vAddQ_of _ _ (Or.inl h))
       · exact rej_unitsAllowed_vAdd _ _ h)
    | exact rej_unitsAllowed_vMul _ _ h.1 h.2 | exact rej_unitsAllowed_vFloorMod _ _ _ h
    | exact rej_units_vSetUnits _ _ _ h
theorem numer_detected (s : Obj) (c : Call) (h : numerFault s c) : Rejected (validate s c) := by
  unfold numerFault at h
  split at h <;> simp only [validate] <;> first
    | exact absurd h id
    | exact rejected_vAdd_q _ _ (rejected_vAddQ_of _ _ (Or.inr (Or.inl h)))
    | exact rej_numer_vInsertDeriv _ _ _ _ h | exact rej_numer_vSetItem _ _ _ h | exact rej_item_vLogic _ _ h
    | (obtain ⟨p, hp, a, ha, hs⟩ := h
       exact rej_vInsertDerivs_of _ _ _ p hp (by rw [ha]; exact compatibleDeriv_numer _ _ hs))
theorem denom_detected (s : Obj) (c : Call) (h : denomFault s c) : Rejected (validate s c) := by
  unfold denomFault at h
  split at h <;> simp only [validate] <;> first
    | exact absurd h id
    | exact rejected_vAdd_q _ _ (rejected_vAddQ_of _ _ (Or.inr (Or.inr (Or.inl h))))
    | exact rej_denom_vSetItem _ _ _ h
theorem kind_detected (s : Obj) (c : Call) (h : kindFault s c) : Rejected (validate s c) := by
  unfold kindFault at h
  split at h <;> simp only [validate] <;> first
    | exact absurd h id
    | exact rejected_vAdd_q _ _ (rejected_vAddQ_of _ _ (Or.inr (Or.inr (Or.inr (Or.inr (Or.inl h))))))
    | exact rej_kind_vDiv _ _ h | exact rej_kind_vMul _ _ h.1 h.2.1 h.2.2
    | exact rej_kindnum_vAdd _ _ h.1 h.2 | exact rej_kindnum_vMul _ _ h.1 h.2
    | exact rej_kindnum_vFloorMod _ _ _ h.1 h.2
theorem type_detected (s : Obj) (c : Call) (h : typeFault c) : Rejected (validate s c) := by
  unfold typeFault at h
  split at h <;> simp only [validate] <;> first
    | exact absurd h id
    | exact rej_type_vAdd _ | exact rej_type_vMul _ | exact rej_type_vDiv _ | exact rej_type_vFloorMod _ _
    | exact rej_type_vInsertDeriv _ _ _ | exact rej_type_vSetUnits _ _ | exact rej_type_vSetItem _ _
    | (obtain ⟨p, hp, hb⟩ := h
       exact rej_vInsertDerivs_of _ _ _ p hp (by rw [hb]; exact compatibleDeriv_bad _))
theorem deriv_detected (s : Obj) (c : Call) (h : derivFault s c) : Rejected (validate s c) := by
  unfold derivFault at h
  split at h <;> simp only [validate] <;> first
    | exact absurd h id
    | exact rejected_vAdd_q _ _ (rejected_vAddQ_of _ _ (Or.inr (Or.inr (Or.inr (Or.inr (Or.inr h))))))
    | (obtain ⟨hr, e, he, hc⟩ := h; exact rej_deriv_vMul _ _ hr e he hc)
    | (obtain ⟨hr, e, he, hc⟩ := h; exact rej_deriv_vDiv _ _ hr e he hc)
    | (obtain ⟨hok, d, hd, hc⟩ := h; exact rej_deriv_vSetItem _ _ _ hok d hd hc)
theorem index_detected (s : Obj) (c : Call) (h : indexFault c) : Rejected (validate s c) := by
  unfold indexFault at h
  split at h <;> simp only [validate] <;> first
    | exact absurd h id
    | exact rej_index_vSetItem _ _ _

/-- **fault_detected**: every fault class of the property, on every mutator it applies to (`HasFault`), for every
    target class with or without derivatives and WHATEVER ELSE is true of the call, yields a rejection — no fault is
    silently accepted. -/
theorem fault_detected (s : Obj) (f : Fault) (c : Call) (h : HasFault s f c) : Rejected (validate s c) := by
  cases f
  · exact shape_detected s c h
  · exact units_detected s c h
  · exact numer_detected s c h
  · exact denom_detected s c h
  · exact kind_detected s c h
  · exact type_detected s c h
  · exact deriv_detected s c h
  · exact ro_detected s c h
  · exact index_detected s c h

/-- pairs of faults: a call that exhibits two fault classes at once is rejected (either one suffices, whatever the
    other does to the control flow) -/
theorem fault_pair_detected (s : Obj) (f g : Fault) (c : Call) (h : HasFault s f c ∧ HasFault s g c) :
    Rejected (validate s c) := fault_detected s f c h.1

/-- non-vacuity: a target with derivatives, operand with a mismatched derivative denominator AND incompatible units -/
example :
    let s : Obj := ⟨.vector, .float, [2, 3], [3], [], some 1, false, 0, [⟨"t", [2], false, 0⟩]⟩
    let a : Obj := ⟨.vector, .float, [3], [3], [], some 2, false, 0, [⟨"t", [3], false, 0⟩]⟩
    HasFault s .deriv (.iadd (.q a)) ∧ HasFault s .units (.iadd (.q a)) := by
  refine ⟨⟨⟨"t", [2], false, 0⟩, by simp, ⟨"t", [3], false, 0⟩, by rfl, by rfl⟩, ?_⟩
  exact Or.inl rfl

/-! ### 6. T2: the same ordering, re-proved on the event trees regenerated from the source on every run -/

open PMV.Events PMV.Gen.Events in
/-- the checker accepts every regenerated mutator body (evaluated, so it is re-proved against what the code says now) -/
theorem no_raise_after_write_table : ∀ e ∈ table, ok e.2 = true := by decide

open PMV.Events PMV.Gen.Events in
/-- **no_raise_after_write**: on NO execution path of any mutator (all branches, any number of loop iterations,
    early returns) does an explicit `raise` — or a call of a `Qube._raise_*` helper — come after a write to an
    attribute of `self` or of one of its derivatives.  Stated about traces, not about the shape of the code. -/
theorem no_raise_after_write (name : String) (p : Prog) (t : List Ev) (st : Bool)
    (hm : (name, p) ∈ table) (h : Trace p t st) : raw t = false :=
  ok_sound h (no_raise_after_write_table _ hm)

open PMV.Events PMV.Gen.Events in
theorem raises_allowed_table : ∀ e ∈ table, raisesIn ["TypeError", "ValueError", "IndexError"] e.2 = true := by decide

open PMV.Events PMV.Gen.Events in
/-- **explicit raises are only of the three allowed classes**, on every path of every mutator (a misspelled
    `Qube.raise_…` helper is translated to the AttributeError it would produce and fails this theorem) -/
theorem explicit_raises_allowed (name : String) (p : Prog) (t : List Ev) (st : Bool) (c : String)
    (hm : (name, p) ∈ table) (h : Trace p t st) (hc : Ev.raise c ∈ t) :
    c = "TypeError" ∨ c = "ValueError" ∨ c = "IndexError" := by
  have := raisesIn_sound _ h (raises_allowed_table _ hm) c hc
  simpa using this

/-- the polymath helpers that may be called after the first write of a mutator: cache bookkeeping
    (`_new_values_`), the mask write of the in-place operators (`_merge_mask_`: `Qube.or_` of the two masks, then
    `np.broadcast_to` into the object's shape, which cannot fail because the operand's shape was validated to broadcast
    into it — the model's `Prim.setMask`, precondition `true`), mask / units algebra on validated operands (`or_`,
    `mul_units`, `div_units`, `copy` of the mask), iteration over the derivative dictionary (`items`), construction of a zero derivative (`zeros`) and the
    commit primitives whose preconditions the model carries (`insert_deriv`, `insert_derivs`, `delete_derivs`).
    NumPy and builtin calls, and methods that ndarray / dict also have when called on a local variable, are not
    events (kernel contract). -/
def commitHelpers : List String :=
  ["_new_values_", "_merge_mask_", "or_", "mul_units", "div_units", "copy", "items", "zeros",
   "insert_deriv", "insert_derivs", "delete_derivs"]

open PMV.Events PMV.Gen.Events in
theorem calls_after_write_table : ∀ e ∈ table, okP (Ev.callOutside commitHelpers) e.2 = true := by decide

open PMV.Events PMV.Gen.Events in
/-- **only commit helpers after a write**: on no execution path of any mutator is a polymath function outside
    `commitHelpers` (a conversion, a validation, anything new that could raise) called after a write to self.  This is
    what ties the regenerated code to the model's split into `validate` and write primitives: a check moved or added
    after the first write breaks this theorem. -/
theorem only_commit_helpers_after_write (name : String) (p : Prog) (t : List Ev) (st : Bool)
    (hm : (name, p) ∈ table) (h : Trace p t st) : rawP (Ev.callOutside commitHelpers) t = false :=
  okP_sound _ h (calls_after_write_table _ hm)

open PMV.Events PMV.Gen.Events in
/-- `_prep_index` raises nothing but IndexError explicitly, and its catch-all handler re-raises as IndexError -/
theorem prep_index_raises_indexerror_only : raisesIn ["IndexError"] p_indexer_prep_index = true := by decide

open PMV.Gen.Events in
/-- the translator found every mutator it is told to look for (a renamed function cannot silently drop out) -/
theorem translator_found_every_mutator : missing = [] := by decide

end PMV.Faults
