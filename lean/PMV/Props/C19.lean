import PMV.Lemmas.FaultsSafe
import PMV.Gen.Events
/-
  C19 — rejected operations fail cleanly: documented exception class, target left untouched.
  Property theorems only (helper developments: PMV/Lemmas/FaultsBasic.lean, FaultsSafe.lean,
  checker soundness for the event trees: PMV/Model/EventTree.lean).  Core Lean; no Mathlib.
-/
namespace PMV.Faults

/-! ### 1. Validation raises only documented classes -/

/-- **explicit raises are only of the three documented classes**: whatever a validation chain raises is a
    TypeError, a ValueError or an IndexError — for every mutator, target and operand -/
theorem validate_allowed (s : Obj) (c : Call) (e : Exc) (h : validate s c = .error e) : e.allowed = true := by
  cases c <;> simp only [validate] at h
  · exact ok3_vAdd _ _ _ h
  · exact ok3_vAdd _ _ _ h
  · exact ok3_vMul _ _ _ h
  · exact ok3_vDiv _ _ _ h
  · exact ok3_vFloorMod _ _ _ _ h
  · exact ok3_vFloorMod _ _ _ _ h
  · exact ok3_vLogic _ _ _ h
  · exact ok3_vSetItem _ _ _ _ h
  · exact ok3_vInsertDeriv _ _ _ _ _ h
  · exact ok3_vInsertDerivs _ _ _ _ h
  · exact ok3_vDeleteDeriv _ _ _ _ h
  · exact ok3_vDeleteDerivs _ _ _ _ h
  · exact ok3_vSetUnits _ _ _ _ h

example : validate ⟨.scalar, .int, [3], [], [], none, false, 0, []⟩
    (.iadd (.q ⟨.scalar, .float, [3], [], [], none, false, 0, []⟩)) = .error .typeError := by rfl

/-! ### 2. An accepted call cannot fail after its first write -/

/-- the one corner not covered: `insert_derivs` on a READ-ONLY object without override — there the precondition of
    the k-th insert depends on the earlier inserts (a key must not be inserted twice), i.e. on the keys of the
    Python dict being distinct, which the list model does not express -/
def Call.covered (s : Obj) : Call → Prop
  | .insertDerivs _ ov => s.ro = false ∨ ov = true
  | _ => True

-- FULL: ∀ s c plan, validate s c = .ok plan → (execAll s plan).2 = none     (with distinct keys in insertDerivs)
/-- **accept_no_late_failure**: if validation accepts, the precondition of EVERY write primitive holds in the state
    in which it is executed (each primitive re-checks it and would raise otherwise), so the plan runs to its end:
    no failure can occur after the first write.  All mutators, all targets and operands. -/
theorem accept_no_late_failure_partial (s : Obj) (c : Call) (plan : List Prim) (hc : c.covered s)
    (h : validate s c = .ok plan) : (execAll s plan).2 = none := by
  cases c <;> simp only [validate] at h
  · exact safe_vAdd _ _ _ h
  · exact safe_vAdd _ _ _ h
  · exact safe_vMul _ _ _ h
  · exact safe_vDiv _ _ _ h
  · exact safe_vFloorMod _ _ _ _ h
  · exact safe_vFloorMod _ _ _ _ h
  · exact safe_vLogic _ _ _ h
  · exact safe_vSetItem _ _ _ _ h
  · exact safe_vInsertDeriv _ _ _ _ _ h
  · exact safe_vInsertDerivs _ _ _ hc _ h
  · exact safe_vDeleteDeriv _ _ _ _ h
  · exact safe_vDeleteDerivs _ _ _ _ h
  · exact safe_vSetUnits _ _ _ _ h

/-- a non-trivial accepted instance: Scalar(shape (3,), derivative t) += Scalar(shape (), derivatives t, u) —
    four writes, all executed -/
example :
    let s : Obj := ⟨.scalar, .float, [3], [], [], some 1, false, 0, [⟨"t", [2], false, 0⟩]⟩
    let a : Obj := ⟨.scalar, .float, [], [], [], none, false, 0, [⟨"t", [2], false, 0⟩, ⟨"u", [], false, 0⟩]⟩
    (validate s (.iadd (.q a))).toOption.map List.length = some 5 ∧ (run s (.iadd (.q a))).2 = none := by decide

/-! ### 3. A rejected call leaves the target exactly as it was -/

-- FULL: the same without `hc`
/-- **reject_clean**: whenever a mutator call ends with an exception, the state is the one it started from (no write
    was executed: every write increments a version counter) and the exception is a TypeError, ValueError or
    IndexError. -/
theorem reject_clean_partial (s s' : Obj) (c : Call) (e : Exc) (hc : c.covered s)
    (h : run s c = (s', some e)) : s' = s ∧ e.allowed = true := by
  unfold run at h
  split at h
  · next e' he =>
    cases h
    exact ⟨rfl, validate_allowed s c _ he⟩
  · next plan hp =>
    have := accept_no_late_failure_partial s c plan hc hp
    rw [h] at this
    cases this

/-- the statement is not vacuous: executing a write changes the state (version counter), so `s' = s` really
    says that nothing was written -/
theorem write_changes_state (s : Obj) (p : Prim) : p.apply s ≠ s := by
  intro h
  have : (p.apply s).ver = s.ver := by rw [h]
  cases p <;> simp [Prim.apply] at this

/-- a primitive executed although its precondition fails is observed as a DIRTY failure by `run`: the model can
    exhibit the defect the property is about (this is what the unrepaired `insert_derivs` did) -/
example :
    let s : Obj := ⟨.scalar, .float, [3], [], [], none, false, 0, []⟩
    execAll s [.insertDeriv "a" [3] [] [] true false, .insertDeriv "b" [2] [] [] true false]
      = (Prim.apply s (.insertDeriv "a" [3] [] [] true false), some .valueError) := by decide

/-! ### 4. Index errors of item assignment surface as IndexError -/

/-- the `try … except Exception as e: raise IndexError(e)` wrapper of `_prep_index`: whatever the index preparation
    raises internally (`other` included: AttributeError, a NumPy error …) comes out as IndexError -/
theorem prep_index_wrapper_indexerror {α} (inner : Exc) :
    prepIndexWrapper (α := α) (.error inner) = .error .indexError := rfl

/-- **setitem_index_errors_are_indexerror**: item assignment to a writable object with an index whose preparation
    fails raises IndexError — before the operand is even looked at — and changes nothing -/
theorem setitem_index_errors_are_indexerror (s : Obj) (inner : Exc) (a : Arg) (hro : s.ro = false) :
    run s (.setitem (.fails inner) a) = (s, some .indexError) := by
  simp [run, validate, vSetItem, requireWritable, guard', hro, prepIndex, prepIndexWrapper, bind, Except.bind]

/-! ### 5. Every fault class of the property is rejected -/

/-- the fault classes named by the property -/
inductive Fault where
  | shape | units | numer | denom | kind | type | deriv | readOnly | index
  deriving DecidableEq, Repr

def Rejected (v : V) : Prop := ∃ e, v = .error e

/-- a read-only target: every mutator except insert_deriv(s) (documented: new derivatives may be inserted into a
    read-only object) and the calls that explicitly override -/
def roFault (s : Obj) : Call → Prop
  | .iadd _ | .isub _ | .imul _ | .itruediv _ | .ifloordiv _ | .imod _ | .ilogic _ | .setitem _ _
  | .deleteDeriv _ false | .deleteDerivs _ false | .setUnits _ false => s.ro = true
  | _ => False
/-- a Qube operand that does not broadcast INTO the target -/
def shapeFault (s : Obj) : Call → Prop
  | .iadd (.q a) | .isub (.q a) | .ifloordiv (.q a) | .imod (.q a) | .ilogic (.q a) | .insertDeriv _ (.q a) _ =>
      into a.shape s.shape = false
  | _ => False
def unitsFault (s : Obj) : Call → Prop
  | .iadd (.q a) | .isub (.q a) => canMatch s.units a.units = false
  | .setUnits (.unit d) _ => canMatch (some d) s.units = false
  | _ => False
def numerFault (s : Obj) : Call → Prop
  | .iadd (.q a) | .isub (.q a) => (s.numer == a.numer) = false
  | .insertDeriv _ (.q a) _ => (a.numer == s.numer) = false
  | _ => False
def denomFault (s : Obj) : Call → Prop
  | .iadd (.q a) | .isub (.q a) => (s.denom == a.denom) = false
  | _ => False
/-- a float (or Boolean) operand for an integer target; the Python-int corner (number operand, shapeless target)
    is carried out by Python and is not a fault of the property -/
def kindFault (s : Obj) : Call → Prop
  | .iadd (.q a) | .isub (.q a) => s.isInt = true ∧ a.isInt = false
  | .itruediv _ => s.isFloat = false
  | _ => False
/-- an operand of a type polymath cannot convert -/
def typeFault : Call → Prop
  | .iadd .bad | .isub .bad | .imul .bad | .itruediv .bad | .ifloordiv .bad | .imod .bad
  | .insertDeriv _ .bad _ | .setUnits .bad _ => True
  | _ => False
/-- a derivative present on both sides with different denominators -/
def derivFault (s : Obj) : Call → Prop
  | .iadd (.q a) | .isub (.q a) => ∃ d ∈ s.derivs, ∃ e, a.find d.key = some e ∧ (e.denom == d.denom) = false
  | _ => False
def indexFault : Call → Prop
  | .setitem (.fails _) _ => True
  | _ => False

/-- `HasFault s f c`: call `c` on target `s` exhibits fault class `f` (whatever else is right or wrong with it).
    Only combinations for which the property demands a rejection are listed
    (see DESIGN.d/C19.md for the combinations left to the correspondence run). -/
def HasFault (s : Obj) : Fault → Call → Prop
  | .readOnly => roFault s | .shape => shapeFault s | .units => unitsFault s | .numer => numerFault s
  | .denom => denomFault s | .kind => kindFault s | .type => typeFault | .deriv => derivFault s
  | .index => indexFault

theorem rej_error (e : Exc) : Rejected (.error e) := ⟨e, rfl⟩
theorem rej_throw (e : Exc) : Rejected (throw e) := ⟨e, rfl⟩
theorem rej_raise (e : Exc) : Rejected (raise e) := ⟨e, rfl⟩
theorem rej_bind {α} {x : Except Exc α} {f : α → V} (h : ∀ a, x = .ok a → Rejected (f a)) : Rejected (x >>= f) := by
  cases x with
  | error e => exact ⟨e, rfl⟩
  | ok a => exact h a rfl
theorem rej_guard {c : Bool} {e : Exc} {f : Unit → V} (h : c = false) : Rejected (guard' c e >>= f) := by
  subst h; exact ⟨e, rfl⟩

theorem filterMapE_error {α β} (f : α → Except Exc (Option β)) (l : List α) (x : α) (e : Exc)
    (hx : x ∈ l) (hf : f x = .error e) : ∃ e', filterMapE f l = .error e' := by
  induction l with
  | nil => cases hx
  | cons y ys ih =>
    simp only [filterMapE]
    rcases List.mem_cons.1 hx with rfl | hx'
    · rw [hf]; exact ⟨e, rfl⟩
    · obtain ⟨e', he'⟩ := ih hx'
      split
      · exact ⟨_, rfl⟩
      · exact ⟨e', he'⟩
      · rw [he']; exact ⟨e', rfl⟩

/-- walking down a chain: a step that already failed rejects; otherwise continue with what it returned -/
macro "rej_walk" : tactic => `(tactic| repeat (first
  | exact rej_guard (by assumption)
  | exact rej_error _ | exact rej_throw _ | exact rej_raise _
  | refine rej_bind (fun _ _ => ?_)))

theorem rejected_vAddQ_of (s a : Obj)
    (h : canMatch s.units a.units = false ∨ (s.numer == a.numer) = false ∨ (s.denom == a.denom) = false
      ∨ into a.shape s.shape = false ∨ (s.isInt = true ∧ a.isInt = false)
      ∨ (∃ d ∈ s.derivs, ∃ e, a.find d.key = some e ∧ (e.denom == d.denom) = false)) :
    Rejected (vAddQ s a) := by
  unfold vAddQ
  rcases h with h | h | h | h | ⟨h1, h2⟩ | ⟨d, hd, e, he, hne⟩
  · rej_walk
  · rej_walk
  · rej_walk
  · rej_walk
  · have hk : (!(s.isInt && !a.isInt)) = false := by simp [h1, h2]
    rej_walk
  · refine rej_bind (fun _ _ => ?_)
    refine rej_bind (fun _ _ => ?_)
    refine rej_bind (fun _ _ => ?_)
    refine rej_bind (fun _ _ => ?_)
    refine rej_bind (fun _ _ => ?_)
    unfold addDerivs
    obtain ⟨e', he'⟩ := filterMapE_error (addStep s a) s.derivs d .valueError hd (by simp [addStep, he, hne])
    rw [he']
    exact ⟨e', rfl⟩

theorem rejected_vAdd_q (s a : Obj) (h : Rejected (vAddQ s a)) : Rejected (vAdd s (.q a)) := by
  unfold vAdd
  refine rej_bind (fun _ _ => ?_)
  refine rej_bind (fun _ _ => ?_)
  simp only [fastPath, toQubeAdd]
  exact rej_bind (fun a' ha' => by cases ha'; exact h)

theorem rej_ro_vAdd (s : Obj) (a : Arg) (h : s.ro = true) : Rejected (vAdd s a) := by
  have h' : (!s.ro) = false := by simp [h]
  unfold vAdd requireWritable; rej_walk
theorem rej_ro_vMul (s : Obj) (a : Arg) (h : s.ro = true) : Rejected (vMul s a) := by
  have h' : (!s.ro) = false := by simp [h]
  unfold vMul requireWritable; rej_walk
theorem rej_ro_vDiv (s : Obj) (a : Arg) (h : s.ro = true) : Rejected (vDiv s a) := by
  have h' : (!s.ro) = false := by simp [h]
  unfold vDiv requireWritable; rej_walk
theorem rej_ro_vFloorMod (fl : Bool) (s : Obj) (a : Arg) (h : s.ro = true) : Rejected (vFloorMod fl s a) := by
  have h' : (!s.ro) = false := by simp [h]
  unfold vFloorMod requireWritable; rej_walk
theorem rej_ro_vLogic (s : Obj) (a : Arg) (h : s.ro = true) : Rejected (vLogic s a) := by
  have h' : (!s.ro) = false := by simp [h]
  unfold vLogic requireWritable; rej_walk
theorem rej_ro_vSetItem (s : Obj) (ix : Idx) (a : Arg) (h : s.ro = true) : Rejected (vSetItem s ix a) := by
  have h' : (!s.ro) = false := by simp [h]
  unfold vSetItem requireWritable; rej_walk
theorem rej_ro_vDeleteDeriv (s : Obj) (k : String) (h : s.ro = true) : Rejected (vDeleteDeriv s k false) := by
  have h' : (false || !s.ro) = false := by simp [h]
  unfold vDeleteDeriv; rej_walk
theorem rej_ro_vDeleteDerivs (s : Obj) (p : List String) (h : s.ro = true) : Rejected (vDeleteDerivs s p false) := by
  have h' : (false || !s.ro) = false := by simp [h]
  unfold vDeleteDerivs; rej_walk
theorem rej_ro_vSetUnits (s : Obj) (u : UArg) (h : s.ro = true) : Rejected (vSetUnits s u false) := by
  have h' : (false || !s.ro) = false := by simp [h]
  unfold vSetUnits; rej_walk

theorem rej_shape_vFloorMod (fl : Bool) (s a : Obj) (h : into a.shape s.shape = false) :
    Rejected (vFloorMod fl s (.q a)) := by
  unfold vFloorMod
  refine rej_bind (fun _ _ => ?_)
  refine rej_bind (fun _ _ => ?_)
  refine rej_bind (fun _ _ => ?_)
  simp only [toScalarArg, asScalar]
  refine rej_bind (fun a' ha' => ?_)
  cases ha'
  split
  · rej_walk
  · exact rej_raise _
theorem rej_shape_vLogic (s a : Obj) (h : into a.shape s.shape = false) : Rejected (vLogic s (.q a)) := by
  unfold vLogic; rej_walk
theorem rej_shape_vInsertDeriv (s a : Obj) (k : String) (o : Bool) (h : into a.shape s.shape = false) :
    Rejected (vInsertDeriv s k (.q a) o) := by
  unfold vInsertDeriv; simp only [compatibleDeriv]
  refine rej_bind (fun _ hx => ?_)
  obtain ⟨_, _, hx⟩ := (bind_ok _ _ _).1 hx
  obtain ⟨_, _, hx⟩ := (bind_ok _ _ _).1 hx
  obtain ⟨_, h3, _⟩ := (bind_ok _ _ _).1 hx
  have := (guard_ok _ _).1 h3
  rw [h] at this; cases this
theorem rej_numer_vInsertDeriv (s a : Obj) (k : String) (o : Bool) (h : (a.numer == s.numer) = false) :
    Rejected (vInsertDeriv s k (.q a) o) := by
  unfold vInsertDeriv; simp only [compatibleDeriv]
  refine rej_bind (fun _ hx => ?_)
  obtain ⟨_, _, hx⟩ := (bind_ok _ _ _).1 hx
  obtain ⟨_, h2, _⟩ := (bind_ok _ _ _).1 hx
  have := (guard_ok _ _).1 h2
  rw [h] at this; cases this
theorem rej_units_vSetUnits (s : Obj) (d : Nat) (o : Bool) (h : canMatch (some d) s.units = false) :
    Rejected (vSetUnits s (.unit d) o) := by
  unfold vSetUnits; rej_walk
theorem rej_kind_vDiv (s : Obj) (a : Arg) (h : s.isFloat = false) : Rejected (vDiv s a) := by
  unfold vDiv; rej_walk
theorem rej_type_vAdd (s : Obj) : Rejected (vAdd s .bad) := by
  unfold vAdd
  refine rej_bind (fun _ _ => ?_)
  refine rej_bind (fun _ _ => ?_)
  simp only [fastPath, toQubeAdd, asThisType0]
  exact rej_bind (fun _ h => by cases h)
theorem rej_type_vMul (s : Obj) : Rejected (vMul s .bad) := by
  unfold vMul
  refine rej_bind (fun _ _ => ?_)
  refine rej_bind (fun _ _ => ?_)
  split
  · exact rej_raise _
  · simp only [toScalarArg, asScalar]
    exact rej_bind (fun _ h => by cases h)
theorem rej_type_vDiv (s : Obj) : Rejected (vDiv s .bad) := by
  unfold vDiv
  refine rej_bind (fun _ _ => ?_)
  refine rej_bind (fun _ _ => ?_)
  refine rej_bind (fun _ _ => ?_)
  simp only [toScalarArg, asScalar]
  exact rej_bind (fun _ h => by cases h)
theorem rej_type_vFloorMod (fl : Bool) (s : Obj) : Rejected (vFloorMod fl s .bad) := by
  unfold vFloorMod
  refine rej_bind (fun _ _ => ?_)
  refine rej_bind (fun _ _ => ?_)
  refine rej_bind (fun _ _ => ?_)
  simp only [toScalarArg, asScalar]
  exact rej_bind (fun _ h => by cases h)
theorem rej_type_vInsertDeriv (s : Obj) (k : String) (o : Bool) : Rejected (vInsertDeriv s k .bad o) := by
  unfold vInsertDeriv; simp only [compatibleDeriv]
  refine rej_bind (fun _ hx => ?_)
  obtain ⟨_, _, hx⟩ := (bind_ok _ _ _).1 hx
  cases hx
theorem rej_type_vSetUnits (s : Obj) (o : Bool) : Rejected (vSetUnits s .bad o) := by
  unfold vSetUnits
  refine rej_bind (fun _ _ => ?_)
  refine rej_bind (fun _ _ => ?_)
  exact rej_raise _
theorem rej_index_vSetItem (s : Obj) (e : Exc) (a : Arg) : Rejected (vSetItem s (.fails e) a) := by
  unfold vSetItem
  refine rej_bind (fun _ _ => ?_)
  simp only [prepIndex, prepIndexWrapper]
  exact rej_bind (fun _ h => by cases h)

theorem ro_detected (s : Obj) (c : Call) (h : roFault s c) : Rejected (validate s c) := by
  unfold roFault at h
  split at h <;> simp only [validate] <;> first
    | exact absurd h id
    | exact rej_ro_vAdd _ _ h | exact rej_ro_vMul _ _ h | exact rej_ro_vDiv _ _ h | exact rej_ro_vFloorMod _ _ _ h
    | exact rej_ro_vLogic _ _ h | exact rej_ro_vSetItem _ _ _ h | exact rej_ro_vDeleteDeriv _ _ h
    | exact rej_ro_vDeleteDerivs _ _ h | exact rej_ro_vSetUnits _ _ h
theorem shape_detected (s : Obj) (c : Call) (h : shapeFault s c) : Rejected (validate s c) := by
  unfold shapeFault at h
  split at h <;> simp only [validate] <;> first
    | exact absurd h id
    | exact rejected_vAdd_q _ _ (rejected_vAddQ_of _ _ (Or.inr (Or.inr (Or.inr (Or.inl h)))))
    | exact rej_shape_vFloorMod _ _ _ h | exact rej_shape_vLogic _ _ h | exact rej_shape_vInsertDeriv _ _ _ _ h
theorem units_detected (s : Obj) (c : Call) (h : unitsFault s c) : Rejected (validate s c) := by
  unfold unitsFault at h
  split at h <;> simp only [validate] <;> first
    | exact absurd h id
    | exact rejected_vAdd_q _ _ (rejected_vAddQ_of _ _ (Or.inl h))
    | exact rej_units_vSetUnits _ _ _ h
theorem numer_detected (s : Obj) (c : Call) (h : numerFault s c) : Rejected (validate s c) := by
  unfold numerFault at h
  split at h <;> simp only [validate] <;> first
    | exact absurd h id
    | exact rejected_vAdd_q _ _ (rejected_vAddQ_of _ _ (Or.inr (Or.inl h)))
    | exact rej_numer_vInsertDeriv _ _ _ _ h
theorem denom_detected (s : Obj) (c : Call) (h : denomFault s c) : Rejected (validate s c) := by
  unfold denomFault at h
  split at h <;> simp only [validate] <;> first
    | exact absurd h id
    | exact rejected_vAdd_q _ _ (rejected_vAddQ_of _ _ (Or.inr (Or.inr (Or.inl h))))
theorem kind_detected (s : Obj) (c : Call) (h : kindFault s c) : Rejected (validate s c) := by
  unfold kindFault at h
  split at h <;> simp only [validate] <;> first
    | exact absurd h id
    | exact rejected_vAdd_q _ _ (rejected_vAddQ_of _ _ (Or.inr (Or.inr (Or.inr (Or.inr (Or.inl h))))))
    | exact rej_kind_vDiv _ _ h
theorem type_detected (s : Obj) (c : Call) (h : typeFault c) : Rejected (validate s c) := by
  unfold typeFault at h
  split at h <;> simp only [validate] <;> first
    | exact absurd h id
    | exact rej_type_vAdd _ | exact rej_type_vMul _ | exact rej_type_vDiv _ | exact rej_type_vFloorMod _ _
    | exact rej_type_vInsertDeriv _ _ _ | exact rej_type_vSetUnits _ _
theorem deriv_detected (s : Obj) (c : Call) (h : derivFault s c) : Rejected (validate s c) := by
  unfold derivFault at h
  split at h <;> simp only [validate] <;> first
    | exact absurd h id
    | exact rejected_vAdd_q _ _ (rejected_vAddQ_of _ _ (Or.inr (Or.inr (Or.inr (Or.inr (Or.inr h))))))
theorem index_detected (s : Obj) (c : Call) (h : indexFault c) : Rejected (validate s c) := by
  unfold indexFault at h
  split at h <;> simp only [validate] <;> first
    | exact absurd h id
    | exact rej_index_vSetItem _ _ _

/-- **fault_detected**: every fault class of the property, on every mutator it applies to (`HasFault`), for every
    target class with or without derivatives and WHATEVER ELSE is true of the call, yields a rejection — no fault is
    silently accepted. -/
theorem fault_detected (s : Obj) (f : Fault) (c : Call) (h : HasFault s f c) : Rejected (validate s c) := by
  cases f
  · exact shape_detected s c h
  · exact units_detected s c h
  · exact numer_detected s c h
  · exact denom_detected s c h
  · exact kind_detected s c h
  · exact type_detected s c h
  · exact deriv_detected s c h
  · exact ro_detected s c h
  · exact index_detected s c h

/-- pairs of faults: a call that exhibits two fault classes at once is rejected (either one suffices, whatever the
    other does to the control flow) -/
theorem fault_pair_detected (s : Obj) (f g : Fault) (c : Call) (h : HasFault s f c ∧ HasFault s g c) :
    Rejected (validate s c) := fault_detected s f c h.1

/-- non-vacuity: a target with derivatives, operand with a mismatched derivative denominator AND incompatible units -/
example :
    let s : Obj := ⟨.vector, .float, [2, 3], [3], [], some 1, false, 0, [⟨"t", [2], false, 0⟩]⟩
    let a : Obj := ⟨.vector, .float, [3], [3], [], some 2, false, 0, [⟨"t", [3], false, 0⟩]⟩
    HasFault s .deriv (.iadd (.q a)) ∧ HasFault s .units (.iadd (.q a)) := by
  refine ⟨⟨⟨"t", [2], false, 0⟩, by simp, ⟨"t", [3], false, 0⟩, by rfl, by rfl⟩, ?_⟩
  show canMatch (some 1) (some 2) = false
  rfl

/-! ### 6. T2: the same ordering, re-proved on the event trees regenerated from the source on every run -/

open PMV.Events PMV.Gen.Events in
/-- the checker accepts every regenerated mutator body (evaluated, so it is re-proved against what the code says now) -/
theorem no_raise_after_write_table : ∀ e ∈ table, ok e.2 = true := by decide

open PMV.Events PMV.Gen.Events in
/-- **no_raise_after_write**: on NO execution path of any mutator (all branches, any number of loop iterations,
    early returns) does an explicit `raise` — or a call of a `Qube._raise_*` helper — come after a write to an
    attribute of `self` or of one of its derivatives.  Stated about traces, not about the shape of the code. -/
theorem no_raise_after_write (name : String) (p : Prog) (t : List Ev) (st : Bool)
    (hm : (name, p) ∈ table) (h : Trace p t st) : raw t = false :=
  ok_sound h (no_raise_after_write_table _ hm)

open PMV.Events PMV.Gen.Events in
theorem raises_allowed_table : ∀ e ∈ table, raisesIn ["TypeError", "ValueError", "IndexError"] e.2 = true := by decide

open PMV.Events PMV.Gen.Events in
/-- **explicit raises are only of the three allowed classes**, on every path of every mutator (a misspelled
    `Qube.raise_…` helper is translated to the AttributeError it would produce and fails this theorem) -/
theorem explicit_raises_allowed (name : String) (p : Prog) (t : List Ev) (st : Bool) (c : String)
    (hm : (name, p) ∈ table) (h : Trace p t st) (hc : Ev.raise c ∈ t) :
    c = "TypeError" ∨ c = "ValueError" ∨ c = "IndexError" := by
  have := raisesIn_sound _ h (raises_allowed_table _ hm) c hc
  simpa using this

open PMV.Events PMV.Gen.Events in
/-- `_prep_index` raises nothing but IndexError explicitly, and its catch-all handler re-raises as IndexError -/
theorem prep_index_raises_indexerror_only : raisesIn ["IndexError"] p_indexer_prep_index = true := by decide

open PMV.Gen.Events in
/-- the translator found every mutator it is told to look for (a renamed function cannot silently drop out) -/
theorem translator_found_every_mutator : missing = [] := by decide

end PMV.Faults
