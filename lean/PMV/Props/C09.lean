import PMV.Lemmas.IndexEntries
import PMV.Lemmas.IndexAssemble
import PMV.Lemmas.IndexValid
import PMV.Lemmas.IndexOneArr
import PMV.Lemmas.IndexArrays
import PMV.Lemmas.IndexNp
/-
  C09 — indexing reads exactly the selected elements; masked index entries mask results.
-/
namespace PMV.Index
open PMV PMV.NpIndex

/-! ### shapeless objects (`_prep_scalar_index`, indexer.py:11-26, 524-593) — complete -/

/-- loop invariant of `_prep_scalar_index` -/
def SState.Inv (s : SState) : Prop :=
  (s.hasEll = false → s.after = []) ∧ (s.masked = true → s.sizeZero = false) ∧
  (s.hasBool = false → s.masked = false)

theorem scalarStep_none (s : SState) (e : Entry) (es : List Entry) (h : scalarStep s e = none) :
    scalarOK s.hasBool s.hasEll (e :: es) = false := by
  cases e <;> simp_all [scalarStep, scalarOK]

theorem scalarStep_some (s s' : SState) (e : Entry) (es : List Entry) (hi : s.Inv)
    (h : scalarStep s e = some s') :
    s'.Inv ∧ scalarOK s.hasBool s.hasEll (e :: es) = scalarOK s'.hasBool s'.hasEll es ∧
    s'.before ++ s'.after = s.before ++ s.after ++ e.sdim ∧
    s'.masked = (s.masked || e.smasked) := by
  obtain ⟨h1, h2, h3⟩ := hi
  cases e with
  | none =>
    simp only [scalarStep, Option.some.injEq] at h; subst h
    unfold SState.push
    cases hE : s.hasEll <;> simp_all [SState.Inv, scalarOK, Entry.sdim, Entry.smasked]
  | ell =>
    simp only [scalarStep] at h
    cases hE : s.hasEll <;> simp_all [SState.Inv, scalarOK, Entry.sdim, Entry.smasked]
    subst h; simp_all
  | slice full l =>
    cases full <;> simp_all [scalarStep, SState.Inv, scalarOK, Entry.sdim, Entry.smasked]
  | bool v m =>
    simp only [scalarStep] at h
    cases hB : s.hasBool with
    | true => simp [hB] at h
    | false =>
      simp only [hB, Bool.false_eq_true, if_false, Option.some.injEq] at h
      subst h
      unfold SState.push
      cases m <;> cases v <;> cases hE : s.hasEll <;>
        simp_all [SState.Inv, scalarOK, Entry.sdim, Entry.smasked]
  | _ => simp [scalarStep] at h

theorem scalarLoop_spec : ∀ (es : List Entry) (s : SState), s.Inv →
    (scalarLoop s es = none → scalarOK s.hasBool s.hasEll es = false) ∧
    (∀ t, scalarLoop s es = some t → scalarOK s.hasBool s.hasEll es = true ∧ t.Inv ∧
        t.before ++ t.after = s.before ++ s.after ++ scalarDims es ∧
        t.masked = (s.masked || scalarMasked es)) := by
  intro es
  induction es with
  | nil =>
    intro s h
    simp [scalarLoop, scalarOK, scalarDims, scalarMasked, h]
  | cons e es ih =>
    intro s h
    simp only [scalarLoop]
    cases hs : scalarStep s e with
    | none => simp [scalarStep_none s e es hs]
    | some s' =>
      obtain ⟨a, b, c, d⟩ := scalarStep_some s s' e es h hs
      obtain ⟨i1, i2⟩ := ih s' a
      refine ⟨fun hn => by rw [b]; exact i1 hn, fun t ht => ?_⟩
      obtain ⟨j1, j2, j3, j4⟩ := i2 t ht
      refine ⟨by rw [b]; exact j1, j2, ?_, ?_⟩
      · rw [j3, c]; simp [scalarDims]
      · rw [j4, d]; simp [scalarMasked, Bool.or_assoc]

/-- **scalar_index_exact.**  Indexing a shapeless object: the index is accepted iff it consists of
    at most one boolean (True / False / masked Boolean), at most one Ellipsis, `None`s and full
    slices; the result then has one axis of length 1 per `None` and one of length 0 per unmasked
    `False`, in the order written, every element is the object's single element, and it is masked
    iff the object is masked or the Boolean in the index is masked.  Anything else: IndexError. -/
theorem scalar_index_exact (mask : Bool) (es : List Entry) :
    getitemScalar mask es =
      if scalarOK false false es then
        some ⟨scalarDims es, fun _ => [], .all (mask || scalarMasked es)⟩
      else none := by
  have hinv : ({} : SState).Inv := ⟨fun _ => rfl, fun h => by simp at h, fun _ => rfl⟩
  obtain ⟨h1, h2⟩ := scalarLoop_spec es {} hinv
  unfold getitemScalar
  cases hl : scalarLoop {} es with
  | none => simp [h1 hl]
  | some t =>
    obtain ⟨a, b, c, d⟩ := h2 t hl
    simp only [a, if_true]
    simp only [List.nil_append] at c
    have hd : t.masked = scalarMasked es := by simpa using d
    have hm : (if t.sizeZero = true then mask else if t.masked = true then true else mask)
        = (mask || scalarMasked es) := by
      obtain ⟨_, b2, _⟩ := b
      cases hz : t.sizeZero <;> cases hm : t.masked <;> cases mask <;> simp_all
    simp only [c, hm]

example : getitemScalar false [.none, .bool true true, .ell, .none] =
    some ⟨[1, 1], fun _ => [], .all true⟩ := by rw [scalar_index_exact]; rfl

/-- **scalar_rejects_nonboolean** (the rank-0 rejection rule).  A shapeless object accepts only
    True / False / a Boolean object, None, the Ellipsis and the full slice: ANY other entry — an
    integer or integer index object, a Pair / Vector, an array, a float, … — anywhere in the index
    makes `__getitem__` raise IndexError ("too many indices"), and whether it does so does NOT depend
    on that entry's mask (a masked `Scalar` index object is rejected exactly like an unmasked one). -/
theorem scalar_rejects_nonboolean (mask : Bool) (pre suf : List Entry) (e : Entry)
    (he : match e with
          | .bool _ _ => False | .none => False | .ell => False | .slice true _ => False
          | _ => True) :
    getitemScalar mask (pre ++ e :: suf) = none := by
  rw [scalar_index_exact]
  have : ∀ (l : List Entry) (hb hE : Bool), scalarOK hb hE (l ++ e :: suf) = false := by
    intro l
    induction l with
    | nil =>
      intro hb hE
      cases e with
      | slice full l' => cases full <;> simp_all [scalarOK]
      | bool v m => exact he.elim
      | none => exact he.elim
      | ell => exact he.elim
      | _ => simp [scalarOK]
    | cons x r ih =>
      intro hb hE
      cases x with
      | slice full l' => cases full <;> simp [scalarOK, ih]
      | _ => simp [scalarOK, ih]
  simp [this]

example : getitemScalar true [.none, .int 0 true] = none ∧ getitemScalar true [.none, .int 0 false] = none :=
  ⟨scalar_rejects_nonboolean true [.none] [] (.int 0 true) trivial,
   scalar_rejects_nonboolean true [.none] [] (.int 0 false) trivial⟩

/-! ### end-to-end refinement for basic index tuples: `__getitem__` = `sel`

`sel` (PMV/Lemmas/IndexSpec.lean) is the per-element specification: each entry is read against the
axes that remain, an integer fixes a coordinate (flagged when masked / out of range), slices, single
booleans, None and the Ellipsis produce axes.  The proof links `_prep_index`'s absolute `inlocs`
bookkeeping to this progressive reading (`locs_progressive`, `prepLoop_prog`, `prepIndex_eq`), then
shows entry by entry that the loop, NumPy's resolution of the prepared index and the specification
agree (`agree_basic`), and finally assembles guards, the implicit Ellipsis, shape and source map. -/

/-- **getitem_basic.**  Index tuples of None / Ellipsis / slices / integers (masked or out of range
    included) / single booleans (masked included), ANY number of entries, ANY rank and shape, every
    mask representation of the object: `__getitem__` raises IndexError exactly when the
    specification rejects the index, and otherwise returns an object of the specified shape whose
    every element is read from the specified source element and is masked iff that source element
    is masked or a selecting entry is masked / out of range.
    Hypothesis `hok`: no integer entry sits on an axis of length 0 (recorded defect KF-C09-1). -/
theorem getitem_basic_expanded (shape : Shape) (mask : Mask) (es0 : List Entry)
    (hb0 : (expand es0).all Entry.isBasic = true) :
    (sel shape (expand es0) = none → getitemShaped shape mask es0 = none) ∧
    (∀ sp, sel shape (expand es0) = some sp →
      (∀ sats, selAtoms shape (expand es0) = some sats → sats.all SAtom.ok = true) →
      ∃ r, getitemShaped shape mask es0 = some r ∧ r.shape = sp.shape ∧
        ∀ o, r.src o = sp.src o ∧ r.mask.bit o = (mask.bit (sp.src o) || sp.flag o)) := by
  generalize hex : expand es0 = es at *
  have hb : es.all Entry.isBasic = true := hb0
  by_cases hc : ellCountE es > 1
  · -- two Ellipses
    have hp : prepIndex shape es0 = none := by
      unfold prepIndex; simp only [hex]
      have : (es.filter Entry.isEll).length > 1 := hc
      simp [this]
    exact ⟨fun _ => getitemShaped_prep_none _ _ _ hp, fun sp h => by simp [sel, selAtoms, hc] at h⟩
  have hc1 : ellCountE (expand es0) ≤ 1 := by rw [hex]; omega
  by_cases ht : totalAdvance es > shape.length
  · -- more entries than axes
    refine ⟨fun _ => ?_, fun sp h => by simp [sel, selAtoms, hc, ht] at h⟩
    cases hany : es.any Entry.isEll with
    | true =>
      apply getitemShaped_prep_none
      unfold prepIndex; simp only [hex]
      have g1 : ¬ (es.filter Entry.isEll).length > 1 := hc
      have g2 : (es.findIdx? Entry.isEll).isSome = true := by rw [List.findIdx?_isSome]; exact hany
      simp [g1, g2, ht]
    | false =>
      have hpe := prepIndex_eq shape es0 hc1 (by rw [hex, hany]; intro h; cases h)
      rw [hex] at hpe
      cases hR : prog (shape.length - totalAdvance es) shape es (.all false) with
      | none => exact getitemShaped_prep_none _ _ _ (by rw [hpe, hR])
      | some x =>
        obtain ⟨pre, post, shs⟩ := x
        obtain ⟨i1, i2, i3, i4, i5⟩ := prog_image _ es hb _ _ _ _ _ hR
        subst i1
        simp only [hR, bcastAll] at hpe
        refine getitemShaped_np_none _ _ _ _ hpe ?_
        show npIndex shape pre = none
        unfold npIndex
        have : consTotal pre > shape.length := by omega
        simp [this]
  -- the main case
  have ht' : totalAdvance es ≤ shape.length := by omega
  generalize hw : shape.length - totalAdvance es = w
  have hpe := prepIndex_eq shape es0 hc1 (by rw [hex]; intro _; exact ht')
  rw [hex, hw] at hpe
  -- the index with its (possibly implicit) Ellipsis
  generalize hes' : (if es.any Entry.isEll then es else es ++ [.ell]) = es'
  have hb' : es'.all Entry.isBasic = true := by
    rw [← hes']; split
    · exact hb
    · simp [List.all_append, hb, Entry.isBasic]
  have hsel : selAtoms shape es = specAtoms w shape es' := by
    simp only [selAtoms, hc, ht, if_false, hw, hes']
  obtain ⟨ag1, ag2⟩ := agree_basic w es' hb' shape (.all false)
  have hprog' : prog w shape es' (.all false) =
      (prog w shape es (.all false)).map fun x =>
        (if es.any Entry.isEll then x.1 else x.1 ++ [NEntry.ell], x.2.1, x.2.2) := by
    rw [← hes']
    cases hany : es.any Entry.isEll with
    | true => simp
    | false => simp [prog_append_ell]
  cases hR : prog w shape es (.all false) with
  | none =>
    -- `_prep_index` rejects the index: so does the specification
    rw [hR] at hprog'
    have hs := ag1 (by rw [hprog']; rfl)
    refine ⟨fun _ => getitemShaped_prep_none _ _ _ (by rw [hpe, hR]), fun sp h => ?_⟩
    simp [sel, hsel, hs] at h
  | some x =>
    obtain ⟨pre, post, shs⟩ := x
    obtain ⟨i1, i2, i3, i4, i5⟩ := prog_image _ es hb _ _ _ _ _ hR
    subst i1
    rw [hR] at hprog'
    simp only [Option.map_some] at hprog'
    obtain ⟨a1, a2⟩ := ag2 _ _ _ hprog'
    -- what `_prep_index` returns
    have hnoarr : pre.findIdx? NEntry.isArr = none := by
      rw [List.findIdx?_eq_none_iff]
      intro p hp
      have := List.all_eq_true.mp i5 p hp
      simpa using this
    have hidx : (if pre.any NEntry.isEll then pre else pre ++ [NEntry.ell]) =
        (if es.any Entry.isEll then pre else pre ++ [NEntry.ell]) := by rw [i4]
    have hwpre : shape.length - consTotal pre = w := by rw [i3]; exact hw
    cases hS : specAtoms w shape es' with
    | none =>
      have hnp : npIndex shape pre = none := by
        unfold npIndex
        have g1 : ¬ ellCount pre > 1 := by rw [i2]; exact hc
        have g2 : ¬ consTotal pre > shape.length := by rw [i3]; exact ht
        simp only [g1, g2, if_false, hwpre, hidx, a1 hS]
      refine ⟨fun _ => ?_, fun sp h => by simp [sel, hsel, hS] at h⟩
      have hp : ∃ p, prepIndex shape es0 = some p ∧ p.pre = pre := by
        rw [hpe, hR]; simp [bcastAll]
      obtain ⟨p, hp1, hp2⟩ := hp
      exact getitemShaped_np_none _ _ _ p hp1 (by rw [hp2]; exact hnp)
    | some sats =>
      obtain ⟨b1, b2⟩ := a2 sats hS
      have harr := specAtoms_basic_arrShapes w es' hb' shape sats hS
      obtain ⟨sp0, hsp0, hshape0, hsp0'⟩ := specOf_noarr sats harr
      have hselsp : sel shape es = some sp0 := by simp [sel, hsel, hS, hsp0]
      refine ⟨fun h => (by rw [hselsp] at h; cases h), fun sp h hok => ?_⟩
      rw [hselsp] at h
      cases h
      have hok' := hok sats (by rw [hsel, hS])
      have hat := b2 hok'
      obtain ⟨s, hs1, hs2, hs3⟩ := npIndex_noarr shape pre sats (by rw [i2]; omega) (by rw [i3]; exact ht')
        (by rw [hwpre, hidx]; exact hat) harr
      have hp : prepIndex shape es0 = some ⟨pre, .all (SAtom.flag sats []), (es.findIdx? Entry.isEll).isSome, false, [], 0⟩ := by
        rw [hpe, hR]
        simp only [bcastAll, locate, hnoarr, b1, Bool.false_or]
        cases SAtom.flag sats [] <;> simp [PostMask.all?]
      obtain ⟨r, hr1, hr2, hr3⟩ := getitemShaped_noarr shape mask es0 pre _ _ s hp hs1
      refine ⟨r, hr1, by rw [hr2, hs2, hshape0], fun o => ?_⟩
      obtain ⟨q1, q2⟩ := hr3 o
      obtain ⟨t1, t2⟩ := hsp0' o
      exact ⟨by rw [q1, hs3, t1], by rw [q2, hs3, t1, t2]⟩

/-- `getitem_basic_expanded` for an index without Pair / Vector objects -/
theorem getitem_basic (shape : Shape) (mask : Mask) (es : List Entry)
    (hb : es.all Entry.isBasic = true) :
    (sel shape es = none → getitemShaped shape mask es = none) ∧
    (∀ sp, sel shape es = some sp →
      (∀ sats, selAtoms shape es = some sats → sats.all SAtom.ok = true) →
      ∃ r, getitemShaped shape mask es = some r ∧ r.shape = sp.shape ∧
        ∀ o, r.src o = sp.src o ∧ r.mask.bit o = (mask.bit (sp.src o) || sp.flag o)) := by
  have hex := expand_basic es hb
  have := getitem_basic_expanded shape mask es (by rw [hex]; exact hb)
  rw [hex] at this
  exact this

/-- a SHAPELESS Pair / Vector index object expands into integers (masked iff the object is): such
    an index is covered by `getitem_basic_expanded` -/
example : expand [.vec 2 ⟨[], fun _ => [1, 5]⟩ (.all true), .slice true [0, 1]] =
    [.int 1 true, .int 5 false, .slice true [0, 1]] := by rfl

/-- non-vacuity: `q[-1, ..., None, True]` on shape (3,4): accepted, no integer on an empty axis -/
example : (sel [3, 4] [.int (-1) false, .ell, .none, .bool true false]).isSome = true ∧
    ((selAtoms [3, 4] [.int (-1) false, .ell, .none, .bool true false]).map (·.all SAtom.ok)) = some true := by
  constructor <;> rfl

/-! ### the per-entry steps of `_prep_index` (indexer.py:343-495): replacement of masked and
    out-of-range entries by a safe index, and what each entry contributes to the post-mask -/
/-- **integer entry.**  An unmasked in-range integer is handed to NumPy as the same element NumPy
    itself would pick (negative values normalised) and leaves the post-mask alone; a masked or
    out-of-range integer is replaced by the safe index 0 and masks the whole result. -/
theorem int_entry (n : Nat) (k : Int) (m : Bool) :
    (intFlag n k m = false →
      ∃ j, prepInt n k m = (.int j, .keep) ∧ normIdx n j = normIdx n k) ∧
    (intFlag n k m = true → prepInt n k m = (.int 0, .setTrue)) :=
  int_entry_exact n k m

/-- **integer-array entry** (the replacement step of `_prep_index`).  For every element `i` of the
    index array: (1) if it is neither masked nor out of range, NumPy is handed an index that selects
    the same source element as the original one; (2) its contribution to the post-mask is exactly
    "masked or out of range"; (3) on a non-empty axis every value handed to NumPy is in range, so
    NumPy never raises — whatever the mask representation of the index object. -/
theorem int_array_entry_exact (n : Nat) (v : Arr Int) (m : Mask) :
    ∃ vals, (prepIntArr n v m).1 = .arr ⟨v.shape, vals⟩ ∧ (prepIntArr n v m).2.2 = v.shape ∧
      ∀ i ∈ indices v.shape,
        (iarrFlag n v m i = false → normIdx n (vals i) = normIdx n (v.get i)) ∧
        ((prepIntArr n v m).2.1.bit i = iarrFlag n v m i) ∧
        (0 < n → (normIdx n (vals i)).isSome = true) := by
  refine ⟨_, rfl, rfl, ?_⟩
  intro i hi
  have hb := prepIntArrMask_bit n v m i hi
  refine ⟨?_, ?_, fun hn => prepIntArrVals_safe n v _ _ i hn⟩
  · intro hf
    rw [hf] at hb
    have h2 : (normIdx n (v.get i)).isNone = false := by
      unfold iarrFlag at hf; simp at hf; simp [hf.2]
    simp only [prepIntArrVals, hb, Bool.and_false, Bool.false_eq_true, if_false]
    exact normIdx_emod n _ h2
  · show (prepIntArrUpd v (prepIntArrMask n v m)).bit i = _
    rw [prepIntArrUpd_bit, hb]


example : (prepIntArr 4 ⟨[3], fun i => [0, 9, 2].getD (i.headD 0) 0⟩ (.arr ⟨[3], fun i => [false, false, true].getD (i.headD 0) false⟩)).2.1.bit [1] = true := by
  decide

/-- **single-boolean entry**: `True` keeps the axis, `False` empties it, a masked Boolean keeps one
    element (none on an empty axis) and masks the whole result. -/
theorem bool_entry_exact (n : Nat) (v m : Bool) :
    prepBool n v m =
      match m, v with
      | true, _ => (.coords (List.range (min 1 n)), .setTrue)
      | false, true => (.coords (List.range n), .keep)
      | false, false => (.coords [], .keep) := by
  cases m <;> cases v <;> rfl

/-- **boolean-array entry**: it is accepted iff its shape equals the lengths of the axes it
    consumes; NumPy is handed "True or masked"; the result axis has one element per selected
    position, in row-major order, and the `j`-th is flagged iff the Boolean is masked there —
    for each of the three mask representations of the Boolean. -/
theorem bool_array_entry_exact (shape : Shape) (inloc : Nat) (v : Arr Bool) (m : Mask) :
    ((shape.drop inloc).take v.shape.length ≠ v.shape → prepBoolArr shape inloc v m = none) ∧
    ((shape.drop inloc).take v.shape.length = v.shape →
      ∃ u, prepBoolArr shape inloc v m =
          some (.barr ⟨v.shape, fun i => v.get i || m.bit i⟩, u,
                [(trues ⟨v.shape, fun i => v.get i || m.bit i⟩).length]) ∧
        ∀ j, u.bit [j] = m.bit ((trues ⟨v.shape, fun i => v.get i || m.bit i⟩).getD j [])) := by
  constructor
  · intro h; simp [prepBoolArr, h]
  · intro h
    cases m with
    | all b =>
      cases b
      · exact ⟨.keep, by simp [prepBoolArr, h], fun j => rfl⟩
      · exact ⟨.setTrue, by simp [prepBoolArr, h], fun j => rfl⟩
    | arr a =>
      exact ⟨.orArr ⟨[(trues ⟨v.shape, fun i => v.get i || a.get i⟩).length],
          fun i => a.get ((trues ⟨v.shape, fun i => v.get i || a.get i⟩).getD (i.headD 0) [])⟩,
        by simp [prepBoolArr, h, Mask.bit], fun j => by simp [PostUpd.bit, Mask.bit]⟩

/-! ### relocation of the array axes (indexer.py:73-81) -/

/-- **relocation_exact.**  `np.moveaxis(result, (0..r-1), (loc..loc+r-1))` applied to NumPy's
    "array axes first" layout yields the layout with the array axes at position `loc`: the element at
    result coordinate `o` is the one NumPy's front layout holds at (array coordinate, plain
    coordinate) = (`o[loc:loc+r]`, `o[:loc] ++ o[loc+r:]`).  Any atoms, any rank. -/
theorem relocation_exact (ats : List Atom) (B pl : Shape) (loc : Nat) (o : Index)
    (ho : loc + B.length ≤ o.length) :
    (moveFront loc B.length ⟨B ++ pl, fun x => walk ats (splitAt 0 B.length x).1 (splitAt 0 B.length x).2⟩).src o
      = walk ats (splitAt loc B.length o).1 (splitAt loc B.length o).2 ∧
    (moveFront loc B.length ⟨B ++ pl, fun x => walk ats (splitAt 0 B.length x).1 (splitAt 0 B.length x).2⟩).shape
      = pl.take loc ++ B ++ pl.drop loc := by
  have hl : ((o.drop loc).take B.length).length = B.length := by
    simp [List.length_take, List.length_drop]; omega
  constructor
  · simp only [moveFront, splitAt, List.take_zero, List.nil_append, Nat.zero_add, List.drop_zero]
    rw [List.drop_left' hl, List.take_left' hl]
  · simp [moveFront]

/-! ### merging the post-mask into the result mask (indexer.py:44-71), all representation branches -/

/-- the mask-merge stage of `__getitem__`, isolated: what `getitemShaped` computes between NumPy's
    indexing and the relocation -/
def mergeMask (mask : Mask) (post : PostMask) (s : Sel) (ashape : Shape) (loc : Nat) : Mask :=
  if !post.any? then
    match mask with
    | .arr a => .arr ⟨s.shape, fun o => a.get (s.src o)⟩
    | .all b => .all b
  else if post.all? then .all true
  else
    match post with
    | .all b => .all b
    | .arr pm =>
      match mask with
      | .arr a => .arr ⟨s.shape, fun o => a.get (s.src o) || alignedPost pm ashape loc o⟩
      | .all true => .all true
      | .all false => .arr ⟨s.shape, fun o => alignedPost pm ashape loc o⟩

/-- the post-mask as a predicate on result coordinates -/
def postAt (post : PostMask) (ashape : Shape) (loc : Nat) (o : Index) : Bool :=
  match post with
  | .all b => b
  | .arr pm => alignedPost pm ashape loc o

/-- **mask_iff** (merge stage).  Whatever the representation of the object's mask (False, True,
    array) and of the post-mask (False, True, array — and whichever of the `np.any` / `np.all`
    shortcuts is taken), an element of the result (`o` a valid coordinate of a result whose array
    axes `ashape` stand at `loc`) is masked iff its source element is masked or the post-mask flags
    its array coordinate.  The post-mask array only has to broadcast to the array shape. -/
theorem mask_iff (mask : Mask) (post : PostMask) (s : Sel) (ashape pl : Shape) (loc : Nat) (o : Index)
    (hshape : s.shape = pl.take loc ++ ashape ++ pl.drop loc) (hloc : loc ≤ pl.length)
    (hv : Valid s.shape o)
    (hb : ∀ pm, post = .arr pm → bcast pm.shape ashape = some ashape) :
    (mergeMask mask post s ashape loc).bit o = (mask.bit (s.src o) || postAt post ashape loc o) := by
  have hin : ∀ pm, post = .arr pm →
      bidx pm.shape ((o.drop loc).take ashape.length) ∈ indices pm.shape := by
    intro pm hpm
    rw [hshape] at hv
    have hmid := valid_mid hv
    simp only [List.length_take, Nat.min_eq_left hloc] at hmid
    exact (mem_indices _ _).2 (bidx_valid (hb pm hpm) hmid)
  unfold mergeMask
  cases post with
  | all b =>
    cases b <;> cases mask with
    | all c => cases c <;> rfl
    | arr a => simp [PostMask.any?, PostMask.all?, Mask.bit, postAt]
  | arr pm =>
    have hmem := hin pm rfl
    cases hany : (PostMask.arr pm).any? with
    | false =>
      have hf : alignedPost pm ashape loc o = false := by
        simp only [PostMask.any?] at hany
        exact (by simpa [alignedPost] using List.any_eq_false.mp hany _ hmem)
      cases mask with
      | all c => simp [Mask.bit, postAt, hf]
      | arr a => simp [Mask.bit, postAt, hf]
    | true =>
      cases hall : (PostMask.arr pm).all? with
      | true =>
        have ht : alignedPost pm ashape loc o = true := by
          simp only [PostMask.all?] at hall
          exact (by simpa [alignedPost] using List.all_eq_true.mp hall _ hmem)
        cases mask with
        | all c => simp [Mask.bit, postAt, ht]
        | arr a => simp [Mask.bit, postAt, ht]
      | false =>
        cases mask with
        | all c => cases c <;> simp [Mask.bit, postAt]
        | arr a => simp [Mask.bit, postAt]

/-- `getitemShaped` is: prepare, index with NumPy, merge the masks (`mergeMask`), relocate. -/
theorem getitemShaped_stages (shape : Shape) (mask : Mask) (indx : List Entry) (p : Prep) (s : Sel)
    (hp : prepIndex shape indx = some p) (hs : npIndex shape p.pre = some s) :
    getitemShaped shape mask indx =
      (let rmask := mergeMask mask p.post s p.arrayShape (if p.moved then 0 else p.loc)
       if p.moved then
         some ⟨(moveFront p.loc p.arrayShape.length s).shape, (moveFront p.loc p.arrayShape.length s).src,
               match rmask with
               | .arr a => .arr (moveFrontArr p.loc p.arrayShape.length a)
               | .all b => .all b⟩
       else some ⟨s.shape, s.src, rmask⟩) := by
  unfold getitemShaped mergeMask
  simp only [hp, hs]
  cases p.post with
  | all b => rfl
  | arr pm => rfl

/-! ### end-to-end refinement with ONE array entry in any position (the class of defect 14) -/

/-- the value of the (normalised) post-mask at a valid result coordinate is the per-element flag -/
theorem postAt_norm (post : PostMask) (sh : Shape) (F : Index → Bool) (loc : Nat) (o : Index)
    (hrep : PostRep post sh F) (hac : Valid sh ((o.drop loc).take sh.length)) (hnz : sh.all (· != 0) = true) :
    postAt (if !(sh.all (· != 0)) then .all false else if post.all? then .all true else post) sh loc o
      = F ((o.drop loc).take sh.length) := by
  simp only [hnz, Bool.not_true, Bool.false_eq_true, if_false]
  cases post with
  | all c =>
    have := hrep _ hac
    cases c <;> simp [PostMask.all?, postAt, this]
  | arr a =>
    obtain ⟨hsh, hget⟩ := hrep
    have hmem : (o.drop loc).take sh.length ∈ indices a.shape := by rw [hsh]; exact (mem_indices _ _).2 hac
    cases hall : (PostMask.arr a).all? with
    | true =>
      simp only [if_true, postAt]
      have := List.all_eq_true.mp (by simpa [PostMask.all?] using hall) _ hmem
      rw [← hget _ hac]; exact this.symm
    | false =>
      simp only [Bool.false_eq_true, if_false, postAt, alignedPost]
      rw [hsh, bidx_self hac, hget _ hac]

/-- FULL (DESIGN §3 `getitem_one_array`): the same statement for a prefix that may also contain
    integer entries, for shapes with empty axes (where KF-C09-1 applies to integer arrays), and —
    with NumPy's placement in the conclusion — for an integer separated from the array (§8.2).

    **getitem_one_array_partial.**  Index = plain entries (None / Ellipsis / slices / single
    booleans, masked ones included) ++ ONE array entry (integer or boolean array or index object
    with masked and out-of-range elements, any mask representation) ++ basic entries (integers
    included), any rank, shape without empty axes, integers not separated from the array:
    `__getitem__` raises IndexError exactly when the specification rejects the index; otherwise the
    result has the specified shape — the array axes standing where the array entry stood — and
    every element is masked iff its source element is masked or the selecting array element (or a
    scalar entry) is masked / out of range, and reads the specified source element when it is not.
    This is the class of DESIGN §2.7 defect 14 (`q[:, idx]`, `q[..., idx]`, `q[None, :, idx]`). -/
theorem getitem_one_array_partial (shape : Shape) (mask : Mask) (pfx : List Entry) (e : Entry)
    (suf : List Entry) (hpfx : pfx.all Entry.isPlain = true) (he : e.isArrE = true)
    (hsuf : suf.all Entry.isBasic = true) (hpos : ∀ n ∈ shape, 0 < n)
    (hsep : separated ((pfx ++ e :: suf).map Entry.isAdvE) = false) :
    (sel shape (pfx ++ e :: suf) = none → getitemShaped shape mask (pfx ++ e :: suf) = none) ∧
    (∀ sp, sel shape (pfx ++ e :: suf) = some sp →
      ∃ r, getitemShaped shape mask (pfx ++ e :: suf) = some r ∧ r.shape = sp.shape ∧
        ∀ o, Valid sp.shape o →
          r.mask.bit o = (mask.bit (sp.src o) || sp.flag o) ∧
          (sp.flag o = false → r.src o = sp.src o)) := by
  have heE : e.isEll = false := by cases e <;> simp_all [Entry.isArrE, Entry.isEll]
  have hokall := all_ok_one pfx e suf hpfx he hsuf
  have hpfxarr : ∀ x ∈ pfx, x.isArrE = false := by
    intro x hx
    have := List.all_eq_true.mp hpfx x hx
    cases x <;> simp_all [Entry.isPlain, Entry.isArrE]
  have hsufarr : ∀ x ∈ suf.reverse, x.isArrE = false := by
    intro x hx
    have := List.all_eq_true.mp hsuf x (List.mem_reverse.mp hx)
    cases x <;> simp_all [Entry.isBasic, Entry.isArrE]
  have hk0 := findIdx_one pfx e suf hpfxarr he
  have hkr : (pfx ++ e :: suf).reverse.findIdx? Entry.isArrE = some suf.length := by
    have := findIdx_one suf.reverse e pfx.reverse hsufarr he
    simpa using this
  have hellk := ellK_lt (shape.length - totalAdvance (pfx ++ e :: suf)) pfx e suf heE
  have htake : (pfx ++ e :: suf).take pfx.length = pfx := by simp
  have hlen : (pfx ++ e :: suf).length = pfx.length + 1 + suf.length := by simp; omega
  have hes'shape : (if (pfx ++ e :: suf).any Entry.isEll then pfx ++ e :: suf else (pfx ++ e :: suf) ++ [.ell])
      = pfx ++ e :: (if (pfx ++ e :: suf).any Entry.isEll then suf else suf ++ [.ell]) := by
    split <;> simp
  generalize hes : pfx ++ e :: suf = es at *
  have hex := expand_ok es hokall
  by_cases hc : ellCountE es > 1
  · have hp : prepIndex shape es = none := by
      unfold prepIndex; simp only [hex]
      have : (es.filter Entry.isEll).length > 1 := hc
      simp [this]
    exact ⟨fun _ => getitemShaped_prep_none _ _ _ hp, fun sp h => by simp [sel, selAtoms, hc] at h⟩
  have hc1 : ellCountE (expand es) ≤ 1 := by rw [hex]; omega
  by_cases ht : totalAdvance es > shape.length
  · refine ⟨fun _ => ?_, fun sp h => by simp [sel, selAtoms, hc, ht] at h⟩
    cases hany : es.any Entry.isEll with
    | true =>
      apply getitemShaped_prep_none
      unfold prepIndex; simp only [hex]
      have g1 : ¬ (es.filter Entry.isEll).length > 1 := hc
      have g2 : (es.findIdx? Entry.isEll).isSome = true := by rw [List.findIdx?_isSome]; exact hany
      simp [g1, g2, ht]
    | false =>
      have hpe := prepIndex_eq shape es hc1 (by rw [hex, hany]; intro h; cases h)
      rw [hex] at hpe
      cases hR : prog (shape.length - totalAdvance es) shape es (.all false) with
      | none => exact getitemShaped_prep_none _ _ _ (by rw [hpe, hR])
      | some x =>
        obtain ⟨pre, post, shs⟩ := x
        obtain ⟨_, m2, _, _, _⟩ := prog_maps _ es hokall _ _ _ _ _ hR
        have hcons : consTotal pre = totalAdvance es := by
          simp only [consTotal, totalAdvance, m2]
        simp only [hR] at hpe
        cases hB : bcastAll shs with
        | none => exact getitemShaped_prep_none _ _ _ (by rw [hpe, hB])
        | some ash =>
          simp only [hB] at hpe
          refine getitemShaped_np_none _ _ _ _ hpe ?_
          show npIndex shape pre = none
          unfold npIndex
          have : consTotal pre > shape.length := by omega
          simp [this]
  -- the main case
  have ht' : totalAdvance es ≤ shape.length := by omega
  generalize hw : shape.length - totalAdvance es = w at *
  have hpe := prepIndex_eq shape es hc1 (by rw [hex]; intro _; exact ht')
  rw [hex, hw] at hpe
  generalize hsuf'def : (if es.any Entry.isEll then suf else suf ++ [.ell]) = suf' at hes'shape
  generalize hes' : (if es.any Entry.isEll then es else es ++ [.ell]) = es' at hes'shape
  have hsuf' : suf'.all Entry.isBasic = true := by
    rw [← hsuf'def]; split
    · exact hsuf
    · simp [List.all_append, hsuf, Entry.isBasic]
  have hsel : selAtoms shape es = specAtoms w shape es' := by
    simp only [selAtoms, hc, ht, if_false, hw, hes']
  have hag := agree1_list w pfx hpfx e suf' shape false he hsuf' hpos
  rw [← hes'shape] at hag
  obtain ⟨ag1, ag2⟩ := hag
  have hprog' : prog w shape es' (.all false) =
      (prog w shape es (.all false)).map fun x =>
        (if es.any Entry.isEll then x.1 else x.1 ++ [NEntry.ell], x.2.1, x.2.2) := by
    rw [← hes']
    cases hany : es.any Entry.isEll with
    | true => simp
    | false => simp [prog_append_ell]
  cases hR : prog w shape es (.all false) with
  | none =>
    rw [hR] at hprog'
    have hs := ag1 (by rw [hprog']; rfl)
    refine ⟨fun _ => getitemShaped_prep_none _ _ _ (by rw [hpe, hR]), fun sp h => ?_⟩
    simp [sel, hsel, hs] at h
  | some x =>
    obtain ⟨pre, post, shs⟩ := x
    obtain ⟨m1, m2, m3, m4, m5⟩ := prog_maps _ es hokall _ _ _ _ _ hR
    obtain ⟨e1, e2, e3, e4⟩ := map_eq_facts NEntry.isEll Entry.isEll pre es m1
    obtain ⟨_, _, a3, _⟩ := map_eq_facts NEntry.isArr Entry.isArrE pre es m3
    have hcons : consTotal pre = totalAdvance es := by simp only [consTotal, totalAdvance, m2]
    have hellc : ellCount pre = ellCountE es := e1
    rw [hR] at hprog'
    simp only [Option.map_some] at hprog'
    obtain ⟨b1, b2⟩ := ag2 _ _ _ hprog'
    have hidx : (if pre.any NEntry.isEll then pre else pre ++ [NEntry.ell]) =
        (if es.any Entry.isEll then pre else pre ++ [NEntry.ell]) := by rw [e2]
    have hwpre : shape.length - consTotal pre = w := by rw [hcons]; exact hw
    have hsepre : separated (pre.map NEntry.isAdv) = false := by rw [m4]; exact hsep
    cases hS : specAtoms w shape es' with
    | none =>
      refine ⟨fun _ => ?_, fun sp h => by simp [sel, hsel, hS] at h⟩
      have hnp : npIndex shape pre = none := by
        unfold npIndex
        have g1 : ¬ ellCount pre > 1 := by rw [hellc]; exact hc
        have g2 : ¬ consTotal pre > shape.length := by rw [hcons]; exact ht
        simp only [g1, g2, if_false, hwpre, hidx, b1 hS]
      simp only [hR] at hpe
      cases hB : bcastAll shs with
      | none => exact getitemShaped_prep_none _ _ _ (by rw [hpe, hB])
      | some ash =>
        simp only [hB] at hpe
        exact getitemShaped_np_none _ _ _ _ hpe hnp
    | some sats =>
      obtain ⟨sh, hshs, hrep, ats, hats, hsim⟩ := b2 sats hS
      subst hshs
      -- the specification's result
      have hBs : bcastAll (SAtom.arrShapes sats) = some sh := hsim.2.2.1
      have hselsp : sel shape es = specOf sats := by simp [sel, hsel, hS]
      have hspec : specOf sats = some ⟨(SAtom.lens sats).take (SAtom.axesBefore sats) ++ sh ++ (SAtom.lens sats).drop (SAtom.axesBefore sats),
          fun o => SAtom.walk sats (splitAt (SAtom.axesBefore sats) sh.length o).1 (splitAt (SAtom.axesBefore sats) sh.length o).2,
          fun o => SAtom.flag sats (splitAt (SAtom.axesBefore sats) sh.length o).2⟩ := by
        simp [specOf, hBs]
      refine ⟨fun h => (by rw [hselsp, hspec] at h; cases h), fun sp h => ?_⟩
      rw [hselsp, hspec] at h
      cases h
      -- NumPy's result
      have hnp := npIndex_sim shape pre ats sats sh (by rw [hellc]; omega) (by rw [hcons]; exact ht')
        (by rw [hwpre, hidx]; exact hats) hsim hsepre
      -- where `_prep_index` says the array axes are
      have hfit : EllFits w shape.length es' := by
        have htot : totalAdvance es' = totalAdvance es := by
          rw [← hes']; split
          · rfl
          · simp [totalAdvance, Entry.advance]
        have hcnt : ellCountE es' ≤ 1 := by
          rw [← hes']
          cases hany : es.any Entry.isEll with
          | true => simp; omega
          | false =>
            have : (es.filter Entry.isEll).length = 0 := by
              have := List.any_eq_false.mp hany
              rw [List.length_eq_zero_iff, List.filter_eq_nil_iff]
              intro x hx; simpa using this x hx
            simp [ellCountE, List.filter_append, this, Entry.isEll, List.filter]
        have := ellFits_guard es' shape.length hcnt (by rw [htot]; exact ht')
        rw [htot, hw] at this
        exact this
      have hLspec : SAtom.axesBefore sats = pfxAxes w pfx := by
        rw [hes'shape] at hS hfit
        exact specAtoms_axesBefore w e suf' he pfx hpfx shape sats hfit hS
      have hpfxell : (pfx.filter Entry.isEll).length ≤ 1 := by
        have : (pfx.filter Entry.isEll).length ≤ (es.filter Entry.isEll).length := by
          rw [← hes, List.filter_append, List.length_append]; omega
        have : ellCountE es ≤ 1 := by omega
        unfold ellCountE at this; omega
      have hloc : locate pre (es.findIdx? Entry.isEll) w = (SAtom.axesBefore sats, false) := by
        have hprelen : pre.length = pfx.length + 1 + suf.length := by rw [e4, hlen]
        have hrev : pre.reverse.findIdx? NEntry.isArr = some suf.length := by
          have hm : pre.reverse.map NEntry.isArr = es.reverse.map Entry.isArrE := by
            rw [List.map_reverse, List.map_reverse, m3]
          rw [(map_eq_facts NEntry.isArr Entry.isArrE pre.reverse es.reverse hm).2.2.1]; exact hkr
        rw [locate_one pre _ w pfx.length suf.length (by rw [a3]; exact hk0) hrev hprelen, hsepre]
        simp only [Bool.false_eq_true, if_false, Prod.mk.injEq, and_true]
        have hm : (pre.take pfx.length).map NEntry.isNC = (es.take pfx.length).map Entry.isNCE := by
          rw [List.map_take, List.map_take, m5]
        rw [(map_eq_facts NEntry.isNC Entry.isNCE _ _ hm).1, htake, hellk, hLspec,
          pfxAxes_count w pfx hpfx hpfxell]
      have hp : prepIndex shape es = some ⟨pre,
          (if !(sh.all (· != 0)) then .all false else if post.all? then .all true else post),
          (es.findIdx? Entry.isEll).isSome, false, sh, SAtom.axesBefore sats⟩ := by
        rw [hpe, hR]
        simp only [bcastAll, hloc]
        rw [show bcast sh [] = some sh from bcast_nil_right sh]
      -- assemble
      have hr := getitemShaped_stages shape mask es _ _ hp hnp
      simp only [Bool.false_eq_true, if_false] at hr
      refine ⟨_, hr, rfl, ?_⟩
      intro o ho
      have hLle : SAtom.axesBefore sats ≤ (SAtom.lens sats).length := by
        rw [← hsim.2.2.2.2.1, ← hsim.1]; exact axesBefore_le ats
      have hac : Valid sh ((o.drop (SAtom.axesBefore sats)).take sh.length) := by
        have := valid_mid ho
        simpa [List.length_take, Nat.min_eq_left hLle] using this
      have hnz : sh.all (· != 0) = true := by
        rw [List.all_eq_true]
        intro n hn
        have : n ≠ 0 := by
          intro h0; subst h0
          exact not_valid_of_zero (s := (SAtom.lens sats).take (SAtom.axesBefore sats) ++ sh ++ (SAtom.lens sats).drop (SAtom.axesBefore sats)) (by simp [hn]) ho
        simpa using this
      have hmi := mask_iff mask (if !(sh.all (· != 0)) then .all false else if post.all? then .all true else post)
        ⟨(SAtom.lens sats).take (SAtom.axesBefore sats) ++ sh ++ (SAtom.lens sats).drop (SAtom.axesBefore sats),
          fun o => walk ats (splitAt (SAtom.axesBefore sats) sh.length o).1 (splitAt (SAtom.axesBefore sats) sh.length o).2⟩
        sh (SAtom.lens sats) (SAtom.axesBefore sats) o rfl hLle ho (by
          intro pm hpm
          simp only [hnz, Bool.not_true, Bool.false_eq_true, if_false] at hpm
          split at hpm
          · cases hpm
          · subst hpm
            rw [hrep.1]; exact bcast_self sh)
      have hpa := postAt_norm post sh _ (SAtom.axesBefore sats) o hrep hac hnz
      simp only [Bool.false_or] at hpa
      have hflagac : SAtom.flag sats (splitAt (SAtom.axesBefore sats) sh.length o).2
          = SAtom.flag sats ((o.drop (SAtom.axesBefore sats)).take sh.length) := rfl
      show (mergeMask mask _ _ sh (SAtom.axesBefore sats)).bit o = _ ∧ _
      rw [hmi, hpa]
      cases hfl : SAtom.flag sats ((o.drop (SAtom.axesBefore sats)).take sh.length) with
      | true => simp [hflagac, hfl]
      | false =>
        have hw' := hsim.2.2.2.2.2 (splitAt (SAtom.axesBefore sats) sh.length o).1 _ hac hfl
        have hw'' : walk ats (splitAt (SAtom.axesBefore sats) sh.length o).1 (splitAt (SAtom.axesBefore sats) sh.length o).2
            = SAtom.walk sats (splitAt (SAtom.axesBefore sats) sh.length o).1 (splitAt (SAtom.axesBefore sats) sh.length o).2 := hw'
        simp only [hflagac, hfl, Bool.or_false, hw'', true_and]
        intro _; trivial

/-- non-vacuity: `q[:, Scalar([0, 9, 2], mask=[F, F, T])]` on shape (3,4) — the defect-14 example -/
example :
    let es : List Entry := [.slice true [0, 1, 2],
      .iarr ⟨[3], fun i => [0, 9, 2].getD (i.headD 0) 0⟩ (.arr ⟨[3], fun i => [false, false, true].getD (i.headD 0) false⟩)]
    (sel [3, 4] es).isSome = true ∧ separated (es.map Entry.isAdvE) = false ∧
    (sel [3, 4] es).map (fun sp => (sp.shape, sp.flag [0, 0], sp.flag [0, 1], sp.flag [2, 2], sp.src [1, 0])) =
      some ([3, 3], false, true, true, [1, 0]) := by
  refine ⟨rfl, rfl, rfl⟩

/-! ### several array entries of one array shape, adjacent; Pair / Vector index objects -/

/-- FULL (DESIGN §3 `getitem_arrays`): array entries of DIFFERENT, broadcastable shapes; array
    entries SEPARATED by slices (NumPy moves the axes to the front, polymath relocates them:
    `relocation_exact` is the isolated stage); integers ahead of the first array; empty axes.

    **getitem_arrays_adjacent_partial.**  Expanded index = plain entries (None / Ellipsis / slices /
    single booleans) ++ an array entry of array shape `B` ++ a block of advanced entries (integers,
    masked or out of range, and further integer / boolean array entries of the same array shape `B`,
    each with masked and out-of-range elements in any mask representation) ++ plain entries; any
    rank, shape without empty axes: IndexError exactly when the specification rejects the index;
    otherwise the specified shape — the array axes `B` where the first array stood —, every element
    masked iff its source is masked or ANY of the selecting entries is masked / out of range at that
    array coordinate (the post-masks of all entries are accumulated), and the specified source
    element when not flagged. -/
theorem getitem_arrays_adjacent_partial (shape : Shape) (mask : Mask) (B : Shape) (pfx : List Entry) (e : Entry)
    (blk suf0 : List Entry) (hpfx : pfx.all Entry.isPlain = true) (heB : e.arrShape = some B)
    (hblk : blk.all (fun x => x.isAdvE && x.okB B) = true) (hsuf0 : suf0.all Entry.isPlain = true)
    (hpos : ∀ n ∈ shape, 0 < n) (es0 : List Entry) (hexp : expand es0 = pfx ++ e :: (blk ++ suf0)) :
    (sel shape (expand es0) = none → getitemShaped shape mask es0 = none) ∧
    (∀ sp, sel shape (expand es0) = some sp →
      ∃ r, getitemShaped shape mask es0 = some r ∧ r.shape = sp.shape ∧
        ∀ o, Valid sp.shape o →
          r.mask.bit o = (mask.bit (sp.src o) || sp.flag o) ∧
          (sp.flag o = false → r.src o = sp.src o)) := by
  rw [hexp]
  have he : e.isArrE = true := by cases e <;> simp_all [Entry.arrShape, Entry.isArrE]
  have heok : e.okB B = true := by simp [Entry.okB, heB]
  have heE : e.isEll = false := by cases e <;> simp_all [Entry.isArrE, Entry.isEll]
  have hpfxarr : ∀ x ∈ pfx, x.isArrE = false := by
    intro x hx
    have := List.all_eq_true.mp hpfx x hx
    cases x <;> simp_all [Entry.isPlain, Entry.isArrE]
  have hplainok : ∀ x : Entry, x.isPlain = true → x.okB B = true ∧ x.isAdvE = false ∧ x.isArrE = false := by
    intro x hx; cases x <;> simp_all [Entry.isPlain, Entry.okB, Entry.isBasic, Entry.isAdvE, Entry.isArrE]
  have hsuf0arr : ∀ x ∈ suf0.reverse, x.isArrE = false := by
    intro x hx
    exact (hplainok x (List.all_eq_true.mp hsuf0 x (List.mem_reverse.mp hx))).2.2
  -- every entry is basic or an array entry of shape `B`
  have hallB : (pfx ++ e :: (blk ++ suf0)).all (Entry.okB B) = true := by
    rw [List.all_eq_true]
    intro x hx
    simp only [List.mem_append, List.mem_cons] at hx
    rcases hx with hx | rfl | hx | hx
    · exact (hplainok x (List.all_eq_true.mp hpfx x hx)).1
    · exact heok
    · have := List.all_eq_true.mp hblk x hx; simp at this; exact this.2
    · exact (hplainok x (List.all_eq_true.mp hsuf0 x hx)).1
  have hokall : (pfx ++ e :: (blk ++ suf0)).all (fun e => e.isBasic || e.isArrE) = true := by
    rw [List.all_eq_true] at hallB ⊢
    intro x hx
    have := hallB x hx
    cases x <;> simp_all [Entry.okB, Entry.isBasic, Entry.isArrE, Entry.arrShape]
  -- the advanced entries form one block
  have hadvmap : (pfx ++ e :: (blk ++ suf0)).map Entry.isAdvE =
      List.replicate pfx.length false ++ List.replicate (1 + blk.length) true ++ List.replicate suf0.length false := by
    have h1 := map_const Entry.isAdvE false pfx (fun x hx => (hplainok x (List.all_eq_true.mp hpfx x hx)).2.1)
    have h2 := map_const Entry.isAdvE true blk (fun x hx => by
      have := List.all_eq_true.mp hblk x hx; simp at this; exact this.1)
    have h3 := map_const Entry.isAdvE false suf0 (fun x hx => (hplainok x (List.all_eq_true.mp hsuf0 x hx)).2.1)
    have h4 : e.isAdvE = true := by cases e <;> simp_all [Entry.isArrE, Entry.isAdvE]
    simp only [List.map_append, List.map_cons, h1, h2, h3, h4]
    rw [Nat.add_comm 1, List.replicate_succ]
    simp
  have hk0 := findIdx_one pfx e (blk ++ suf0) hpfxarr he
  obtain ⟨irev, hirev, hkr0⟩ := findIdx_le blk.reverse e pfx.reverse he
  have hkr : (pfx ++ e :: (blk ++ suf0)).reverse.findIdx? Entry.isArrE = some (irev + suf0.length) := by
    have := findIdx_skip suf0.reverse (blk.reverse ++ e :: pfx.reverse) hsuf0arr
    simp only [List.reverse_append, List.reverse_cons, List.append_assoc, List.singleton_append] at this ⊢
    rw [this, hkr0]; simp
  simp only [List.length_reverse] at hirev
  have hellk := ellK_lt (shape.length - totalAdvance (pfx ++ e :: (blk ++ suf0))) pfx e (blk ++ suf0) heE
  have htake : (pfx ++ e :: (blk ++ suf0)).take pfx.length = pfx := by simp
  have hlen : (pfx ++ e :: (blk ++ suf0)).length = pfx.length + 1 + blk.length + suf0.length := by simp; omega
  generalize hsufdef : blk ++ suf0 = suf at *
  have hsufB : suf.all (Entry.okB B) = true := by
    rw [List.all_eq_true] at hallB ⊢
    intro x hx; exact hallB x (by simp [hx])
  have hes'shape : (if (pfx ++ e :: suf).any Entry.isEll then pfx ++ e :: suf else (pfx ++ e :: suf) ++ [.ell])
      = pfx ++ e :: (if (pfx ++ e :: suf).any Entry.isEll then suf else suf ++ [.ell]) := by
    split <;> simp
  generalize hes : pfx ++ e :: suf = es at *
  have hex : expand es0 = es := hexp
  by_cases hc : ellCountE es > 1
  · have hp : prepIndex shape es0 = none := by
      unfold prepIndex; simp only [hex]
      have : (es.filter Entry.isEll).length > 1 := hc
      simp [this]
    exact ⟨fun _ => getitemShaped_prep_none _ _ _ hp, fun sp h => by simp [sel, selAtoms, hc] at h⟩
  have hc1 : ellCountE (expand es0) ≤ 1 := by rw [hex]; omega
  by_cases ht : totalAdvance es > shape.length
  · refine ⟨fun _ => ?_, fun sp h => by simp [sel, selAtoms, hc, ht] at h⟩
    cases hany : es.any Entry.isEll with
    | true =>
      apply getitemShaped_prep_none
      unfold prepIndex; simp only [hex]
      have g1 : ¬ (es.filter Entry.isEll).length > 1 := hc
      have g2 : (es.findIdx? Entry.isEll).isSome = true := by rw [List.findIdx?_isSome]; exact hany
      simp [g1, g2, ht]
    | false =>
      have hpe := prepIndex_eq shape es0 hc1 (by rw [hex, hany]; intro h; cases h)
      rw [hex] at hpe
      cases hR : prog (shape.length - totalAdvance es) shape es (.all false) with
      | none => exact getitemShaped_prep_none _ _ _ (by rw [hpe, hR])
      | some x =>
        obtain ⟨pre, post, shs⟩ := x
        obtain ⟨_, m2, _, _, _⟩ := prog_maps _ es hokall _ _ _ _ _ hR
        have hcons : consTotal pre = totalAdvance es := by
          simp only [consTotal, totalAdvance, m2]
        simp only [hR] at hpe
        cases hB : bcastAll shs with
        | none => exact getitemShaped_prep_none _ _ _ (by rw [hpe, hB])
        | some ash =>
          simp only [hB] at hpe
          refine getitemShaped_np_none _ _ _ _ hpe ?_
          show npIndex shape pre = none
          unfold npIndex
          have : consTotal pre > shape.length := by omega
          simp [this]
  -- the main case
  have ht' : totalAdvance es ≤ shape.length := by omega
  generalize hw : shape.length - totalAdvance es = w at *
  have hpe := prepIndex_eq shape es0 hc1 (by rw [hex]; intro _; exact ht')
  rw [hex, hw] at hpe
  generalize hsuf'def : (if es.any Entry.isEll then suf else suf ++ [.ell]) = suf' at hes'shape
  generalize hes' : (if es.any Entry.isEll then es else es ++ [.ell]) = es' at hes'shape
  have hsuf' : suf'.all (Entry.okB B) = true := by
    rw [← hsuf'def]; split
    · exact hsufB
    · simp [List.all_append, hsufB, Entry.okB, Entry.isBasic]
  have hes'B : es'.all (Entry.okB B) = true := by
    rw [hes'shape]
    simp only [List.all_append, List.all_cons, heok, hsuf', Bool.true_and, Bool.and_true]
    rw [List.all_eq_true]
    intro x hx; exact (hplainok x (List.all_eq_true.mp hpfx x hx)).1
  have hsel : selAtoms shape es = specAtoms w shape es' := by
    simp only [selAtoms, hc, ht, if_false, hw, hes']
  obtain ⟨ag1, ag2⟩ := agreeG_list w B es' hes'B shape hpos (.all false) (fun _ => false) (fun i _ => rfl)
  have hprog' : prog w shape es' (.all false) =
      (prog w shape es (.all false)).map fun x =>
        (if es.any Entry.isEll then x.1 else x.1 ++ [NEntry.ell], x.2.1, x.2.2) := by
    rw [← hes']
    cases hany : es.any Entry.isEll with
    | true => simp
    | false => simp [prog_append_ell]
  cases hR : prog w shape es (.all false) with
  | none =>
    rw [hR] at hprog'
    have hs := ag1 (by rw [hprog']; rfl)
    refine ⟨fun _ => getitemShaped_prep_none _ _ _ (by rw [hpe, hR]), fun sp h => ?_⟩
    simp [sel, hsel, hs] at h
  | some x =>
    obtain ⟨pre, post, shs⟩ := x
    obtain ⟨m1, m2, m3, m4, m5⟩ := prog_maps _ es hokall _ _ _ _ _ hR
    obtain ⟨e1, e2, e3, e4⟩ := map_eq_facts NEntry.isEll Entry.isEll pre es m1
    obtain ⟨_, _, a3, _⟩ := map_eq_facts NEntry.isArr Entry.isArrE pre es m3
    have hcons : consTotal pre = totalAdvance es := by simp only [consTotal, totalAdvance, m2]
    have hellc : ellCount pre = ellCountE es := e1
    rw [hR] at hprog'
    simp only [Option.map_some] at hprog'
    obtain ⟨b1, b2⟩ := ag2 _ _ _ hprog'
    have hidx : (if pre.any NEntry.isEll then pre else pre ++ [NEntry.ell]) =
        (if es.any Entry.isEll then pre else pre ++ [NEntry.ell]) := by rw [e2]
    have hwpre : shape.length - consTotal pre = w := by rw [hcons]; exact hw
    have hsepre : separated (pre.map NEntry.isAdv) = false := by
      rw [m4, hadvmap]; exact separated_block _ _ _
    cases hS : specAtoms w shape es' with
    | none =>
      refine ⟨fun _ => ?_, fun sp h => by simp [sel, hsel, hS] at h⟩
      have hnp : npIndex shape pre = none := by
        unfold npIndex
        have g1 : ¬ ellCount pre > 1 := by rw [hellc]; exact hc
        have g2 : ¬ consTotal pre > shape.length := by rw [hcons]; exact ht
        simp only [g1, g2, if_false, hwpre, hidx, b1 hS]
      simp only [hR] at hpe
      cases hB : bcastAll shs with
      | none => exact getitemShaped_prep_none _ _ _ (by rw [hpe, hB])
      | some ash =>
        simp only [hB] at hpe
        exact getitemShaped_np_none _ _ _ _ hpe hnp
    | some sats =>
      obtain ⟨hshs, hrep, ats, hats, hsimS, _⟩ := b2 sats hS
      subst hshs
      have hfit : EllFits w shape.length es' := by
        have htot : totalAdvance es' = totalAdvance es := by
          rw [← hes']; split
          · rfl
          · simp [totalAdvance, Entry.advance]
        have hcnt : ellCountE es' ≤ 1 := by
          rw [← hes']
          cases hany : es.any Entry.isEll with
          | true => simp; omega
          | false =>
            have : (es.filter Entry.isEll).length = 0 := by
              have := List.any_eq_false.mp hany
              rw [List.length_eq_zero_iff, List.filter_eq_nil_iff]
              intro x hx; simpa using this x hx
            simp [ellCountE, List.filter_append, this, Entry.isEll, List.filter]
        have := ellFits_guard es' shape.length hcnt (by rw [htot]; exact ht')
        rw [htot, hw] at this
        exact this
      have hLspec : SAtom.axesBefore sats = pfxAxes w pfx := by
        have h1 := hS; have h2 := hfit
        rw [hes'shape] at h1 h2
        exact specAtoms_axesBefore w e suf' he pfx hpfx shape sats h2 h1
      have hLadv : SAtom.axesBeforeAdv sats = pfxAxes w pfx := by
        have h1 := hS; have h2 := hfit
        rw [hes'shape] at h1 h2
        exact specAtoms_axesBeforeAdv w e suf' he pfx hpfx shape sats h2 h1
      have hne : SAtom.arrShapes sats ≠ [] := by
        have h1 := hS
        rw [hes'shape] at h1
        exact specAtoms_has_arr w e suf' he pfx hpfx shape sats h1
      have hBall := bcastAll_const B (SAtom.arrShapes sats) hsimS.2.2.1 hne
      have hsim : Sim ats sats B :=
        ⟨hsimS.1, by rw [hsimS.2.1, hBall], hBall, hsimS.2.2.2.1, by rw [hsimS.2.2.2.2.1, hLadv, hLspec], hsimS.2.2.2.2.2⟩
      generalize hshB : B = sh at *
      -- the specification's result
      have hBs : bcastAll (SAtom.arrShapes sats) = some sh := hsim.2.2.1
      have hselsp : sel shape es = specOf sats := by simp [sel, hsel, hS]
      have hspec : specOf sats = some ⟨(SAtom.lens sats).take (SAtom.axesBefore sats) ++ sh ++ (SAtom.lens sats).drop (SAtom.axesBefore sats),
          fun o => SAtom.walk sats (splitAt (SAtom.axesBefore sats) sh.length o).1 (splitAt (SAtom.axesBefore sats) sh.length o).2,
          fun o => SAtom.flag sats (splitAt (SAtom.axesBefore sats) sh.length o).2⟩ := by
        simp [specOf, hBs]
      refine ⟨fun h => (by rw [hselsp, hspec] at h; cases h), fun sp h => ?_⟩
      rw [hselsp, hspec] at h
      cases h
      -- NumPy's result
      have hnp := npIndex_sim shape pre ats sats sh (by rw [hellc]; omega) (by rw [hcons]; exact ht')
        (by rw [hwpre, hidx]; exact hats) hsim hsepre
      -- where `_prep_index` says the array axes are
      have hpfxell : (pfx.filter Entry.isEll).length ≤ 1 := by
        have : (pfx.filter Entry.isEll).length ≤ (es.filter Entry.isEll).length := by
          rw [← hes, List.filter_append, List.length_append]; omega
        have : ellCountE es ≤ 1 := by omega
        unfold ellCountE at this; omega
      have hloc : locate pre (es.findIdx? Entry.isEll) w = (SAtom.axesBefore sats, false) := by
        have hprelen : pre.length = pfx.length + 1 + blk.length + suf0.length := by rw [e4, hlen]
        have hrev : pre.reverse.findIdx? NEntry.isArr = some (irev + suf0.length) := by
          have hm : pre.reverse.map NEntry.isArr = es.reverse.map Entry.isArrE := by
            rw [List.map_reverse, List.map_reverse, m3]
          rw [(map_eq_facts NEntry.isArr Entry.isArrE pre.reverse es.reverse hm).2.2.1]; exact hkr
        rw [locate_block pre _ w pfx.length (1 + blk.length) suf0.length (irev + suf0.length) (blk.length - irev)
          (by rw [m4]; exact hadvmap) (by rw [a3]; exact hk0) hrev (by omega) (by omega)]
        simp only [Prod.mk.injEq, and_true]
        have hm : (pre.take pfx.length).map NEntry.isNC = (es.take pfx.length).map Entry.isNCE := by
          rw [List.map_take, List.map_take, m5]
        rw [(map_eq_facts NEntry.isNC Entry.isNCE _ _ hm).1, htake, hellk, hLspec,
          pfxAxes_count w pfx hpfx hpfxell]
      have hp : prepIndex shape es0 = some ⟨pre,
          (if !(sh.all (· != 0)) then .all false else if post.all? then .all true else post),
          (es.findIdx? Entry.isEll).isSome, false, sh, SAtom.axesBefore sats⟩ := by
        rw [hpe, hR]
        simp only [hBall, hloc]
      -- assemble
      have hr := getitemShaped_stages shape mask es0 _ _ hp hnp
      simp only [Bool.false_eq_true, if_false] at hr
      refine ⟨_, hr, rfl, ?_⟩
      intro o ho
      have hLle : SAtom.axesBefore sats ≤ (SAtom.lens sats).length := by
        rw [← hsim.2.2.2.2.1, ← hsim.1]; exact axesBefore_le ats
      have hac : Valid sh ((o.drop (SAtom.axesBefore sats)).take sh.length) := by
        have := valid_mid ho
        simpa [List.length_take, Nat.min_eq_left hLle] using this
      have hnz : sh.all (· != 0) = true := by
        rw [List.all_eq_true]
        intro n hn
        have : n ≠ 0 := by
          intro h0; subst h0
          exact not_valid_of_zero (s := (SAtom.lens sats).take (SAtom.axesBefore sats) ++ sh ++ (SAtom.lens sats).drop (SAtom.axesBefore sats)) (by simp [hn]) ho
        simpa using this
      have hmi := mask_iff mask (if !(sh.all (· != 0)) then .all false else if post.all? then .all true else post)
        ⟨(SAtom.lens sats).take (SAtom.axesBefore sats) ++ sh ++ (SAtom.lens sats).drop (SAtom.axesBefore sats),
          fun o => walk ats (splitAt (SAtom.axesBefore sats) sh.length o).1 (splitAt (SAtom.axesBefore sats) sh.length o).2⟩
        sh (SAtom.lens sats) (SAtom.axesBefore sats) o rfl hLle ho (by
          intro pm hpm
          simp only [hnz, Bool.not_true, Bool.false_eq_true, if_false] at hpm
          split at hpm
          · cases hpm
          · subst hpm
            rw [hrep.1]; exact bcast_self sh)
      have hpa := postAt_norm post sh _ (SAtom.axesBefore sats) o hrep hac hnz
      simp only [Bool.false_or] at hpa
      have hflagac : SAtom.flag sats (splitAt (SAtom.axesBefore sats) sh.length o).2
          = SAtom.flag sats ((o.drop (SAtom.axesBefore sats)).take sh.length) := rfl
      show (mergeMask mask _ _ sh (SAtom.axesBefore sats)).bit o = _ ∧ _
      rw [hmi, hpa]
      cases hfl : SAtom.flag sats ((o.drop (SAtom.axesBefore sats)).take sh.length) with
      | true => simp [hflagac, hfl]
      | false =>
        have hw' := hsim.2.2.2.2.2 (splitAt (SAtom.axesBefore sats) sh.length o).1 _ hac hfl
        have hw'' : walk ats (splitAt (SAtom.axesBefore sats) sh.length o).1 (splitAt (SAtom.axesBefore sats) sh.length o).2
            = SAtom.walk sats (splitAt (SAtom.axesBefore sats) sh.length o).1 (splitAt (SAtom.axesBefore sats) sh.length o).2 := hw'
        simp only [hflagac, hfl, Bool.or_false, hw'', true_and]
        intro _; trivial


theorem expand_plain : ∀ (l : List Entry), l.all Entry.isPlain = true → expand l = l := by
  intro l h
  apply expand_ok
  rw [List.all_eq_true] at h ⊢
  intro x hx
  have := h x hx
  cases x <;> simp_all [Entry.isPlain, Entry.isBasic]

theorem expand_append (a b : List Entry) : expand (a ++ b) = expand a ++ expand b := by
  simp [expand, List.flatMap_append]

/-- the per-axis index arrays a Pair / Vector index object with a shape is split into
    (`as_index_and_mask`): component `j` of every element, the mask on the first only -/
def vecComp (v : Arr (List Int)) (m : Mask) (j : Nat) : Entry :=
  .iarr ⟨v.shape, fun i => (v.get i).getD j 0⟩
    (if j = 0 then (if m.any v.shape then m else Mask.all false) else Mask.all false)

theorem expandEntry_vec (n : Nat) (v : Arr (List Int)) (m : Mask) (hv : v.shape ≠ []) :
    expandEntry (.vec n v m) = (List.range n).map (vecComp v m) := by
  simp only [expandEntry, hv, if_false]
  rfl

/-- **getitem_vector_index.**  A Pair / Vector index OBJECT with a shape (`n ≥ 1` components,
    masked elements and out-of-range components included, any mask representation), standing after
    plain entries and followed by plain entries: `__getitem__` agrees with the specification of its
    expansion into `n` adjacent per-axis index arrays (`as_index_and_mask`, mask on the first):
    component `j` of element `i` indexes axis `j` of the consumed block, an element is flagged iff
    the object is masked there or one of its components is out of range, the array axes (the
    object's shape) stand where the object stood.  Shape without empty axes. -/
theorem getitem_vector_index (shape : Shape) (mask : Mask) (pfx suf0 : List Entry) (n : Nat)
    (v : Arr (List Int)) (m : Mask) (hv : v.shape ≠ []) (hpfx : pfx.all Entry.isPlain = true)
    (hsuf0 : suf0.all Entry.isPlain = true) (hpos : ∀ k ∈ shape, 0 < k) :
    (sel shape (expand (pfx ++ .vec (n + 1) v m :: suf0)) = none →
      getitemShaped shape mask (pfx ++ .vec (n + 1) v m :: suf0) = none) ∧
    (∀ sp, sel shape (expand (pfx ++ .vec (n + 1) v m :: suf0)) = some sp →
      ∃ r, getitemShaped shape mask (pfx ++ .vec (n + 1) v m :: suf0) = some r ∧ r.shape = sp.shape ∧
        ∀ o, Valid sp.shape o →
          r.mask.bit o = (mask.bit (sp.src o) || sp.flag o) ∧
          (sp.flag o = false → r.src o = sp.src o)) := by
  have hexp : expand (pfx ++ .vec (n + 1) v m :: suf0) =
      pfx ++ vecComp v m 0 :: (((List.range n).map Nat.succ).map (vecComp v m) ++ suf0) := by
    have h1 : expand (pfx ++ .vec (n + 1) v m :: suf0) = expand pfx ++ (expandEntry (.vec (n + 1) v m) ++ expand suf0) := by
      rw [expand_append]; simp [expand, List.flatMap_cons]
    rw [h1, expand_plain pfx hpfx, expand_plain suf0 hsuf0, expandEntry_vec _ v m hv, List.range_succ_eq_map]
    simp
  refine getitem_arrays_adjacent_partial shape mask v.shape pfx (vecComp v m 0)
    (((List.range n).map Nat.succ).map (vecComp v m)) suf0 hpfx rfl ?_ hsuf0 hpos _ hexp
  rw [List.all_eq_true]
  intro x hx
  simp only [List.map_map, List.mem_map, Function.comp] at hx
  obtain ⟨j, _, rfl⟩ := hx
  simp [vecComp, Entry.isAdvE, Entry.okB, Entry.arrShape]

/-- non-vacuity: `q[:, Pair([[0,1],[5,0],[2,3]], mask=[F,F,T])]` on shape (2,3,4): element 1 is out
    of range in its first component, element 2 is masked -/
example :
    let es : List Entry := [.slice true [0, 1],
      .vec 2 ⟨[3], fun i => [[0, 1], [5, 0], [2, 3]].getD (i.headD 0) []⟩
        (.arr ⟨[3], fun i => [false, false, true].getD (i.headD 0) false⟩)]
    (sel [2, 3, 4] (expand es)).map (fun sp => (sp.shape, sp.flag [1, 0], sp.flag [1, 1], sp.flag [0, 2], sp.src [1, 0])) =
      some ([2, 3], false, true, true, [1, 0, 1]) := by
  rfl

/-- FULL: as for the adjacent case (different broadcastable shapes, integers ahead, empty axes), and a
    prefix that produces no axis other than through the Ellipsis.

    **getitem_arrays_separated_partial** (the relocation).  Expanded index = plain entries (at least
    one of them not the Ellipsis) ++ an array entry of array shape `B` ++ entries ++ a PLAIN entry
    ++ entries ++ another array entry of array shape `B` ++ basic entries — i.e. array entries
    separated by a slice / None / Ellipsis / boolean, for which NumPy puts the array axes FIRST and
    polymath moves them back (`moved_to_front`, `np.moveaxis`): IndexError exactly when the
    specification rejects the index; otherwise the result has the specified shape with the array axes
    where the FIRST array entry stood, every element is masked iff its source is masked or any
    selecting entry is masked / out of range at its array coordinate, and reads the specified source
    element when not flagged.  (`q[:, i, :, j]`, `q[None, i, ..., j]`, `q[:, bool1d, :, idx]` …) -/
theorem getitem_arrays_separated_partial (shape : Shape) (mask : Mask) (B : Shape) (pfx : List Entry) (e : Entry)
    (mid1 : List Entry) (p : Entry) (mid2 : List Entry) (a2 : Entry) (rest : List Entry)
    (hpfx : pfx.all Entry.isPlain = true) (hpfx1 : pfx.any (fun x => !x.isEll) = true)
    (heB : e.arrShape = some B) (hmid1 : mid1.all (Entry.okB B) = true) (hp : p.isPlain = true)
    (hmid2 : mid2.all (Entry.okB B) = true) (ha2 : a2.arrShape = some B)
    (hrest : rest.all Entry.isBasic = true)
    (hpos : ∀ n ∈ shape, 0 < n) (es0 : List Entry)
    (hexp : expand es0 = pfx ++ e :: (mid1 ++ p :: (mid2 ++ a2 :: rest))) :
    (sel shape (expand es0) = none → getitemShaped shape mask es0 = none) ∧
    (∀ sp, sel shape (expand es0) = some sp →
      ∃ r, getitemShaped shape mask es0 = some r ∧ r.shape = sp.shape ∧
        ∀ o, Valid sp.shape o →
          r.mask.bit o = (mask.bit (sp.src o) || sp.flag o) ∧
          (sp.flag o = false → r.src o = sp.src o)) := by
  rw [hexp]
  have he : e.isArrE = true := by cases e <;> simp_all [Entry.arrShape, Entry.isArrE]
  have ha2E : a2.isArrE = true := by cases a2 <;> simp_all [Entry.arrShape, Entry.isArrE]
  have heok : e.okB B = true := by simp [Entry.okB, heB]
  have ha2ok : a2.okB B = true := by simp [Entry.okB, ha2]
  have heE : e.isEll = false := by cases e <;> simp_all [Entry.isArrE, Entry.isEll]
  have hpfxarr : ∀ x ∈ pfx, x.isArrE = false := by
    intro x hx
    have := List.all_eq_true.mp hpfx x hx
    cases x <;> simp_all [Entry.isPlain, Entry.isArrE]
  have hplainok : ∀ x : Entry, x.isPlain = true → x.okB B = true ∧ x.isAdvE = false ∧ x.isArrE = false := by
    intro x hx; cases x <;> simp_all [Entry.isPlain, Entry.okB, Entry.isBasic, Entry.isAdvE, Entry.isArrE]
  have hrestarr : ∀ x ∈ rest.reverse, x.isArrE = false := by
    intro x hx
    have := List.all_eq_true.mp hrest x (List.mem_reverse.mp hx)
    cases x <;> simp_all [Entry.isBasic, Entry.isArrE]
  have hallB : (pfx ++ e :: (mid1 ++ p :: (mid2 ++ a2 :: rest))).all (Entry.okB B) = true := by
    rw [List.all_eq_true]
    intro x hx
    simp only [List.mem_append, List.mem_cons] at hx
    rcases hx with hx | rfl | hx | rfl | hx | rfl | hx
    · exact (hplainok x (List.all_eq_true.mp hpfx x hx)).1
    · exact heok
    · exact List.all_eq_true.mp hmid1 x hx
    · exact (hplainok x hp).1
    · exact List.all_eq_true.mp hmid2 x hx
    · exact ha2ok
    · have := List.all_eq_true.mp hrest x hx; simp [Entry.okB, this]
  have hokall : (pfx ++ e :: (mid1 ++ p :: (mid2 ++ a2 :: rest))).all (fun e => e.isBasic || e.isArrE) = true := by
    rw [List.all_eq_true] at hallB ⊢
    intro x hx
    have := hallB x hx
    cases x <;> simp_all [Entry.okB, Entry.isBasic, Entry.isArrE, Entry.arrShape]
  -- a plain entry stands between two array entries
  have hsepE : separated ((pfx ++ e :: (mid1 ++ p :: (mid2 ++ a2 :: rest))).map Entry.isAdvE) = true := by
    have h4 : e.isAdvE = true := by cases e <;> simp_all [Entry.isArrE, Entry.isAdvE]
    have h5 : a2.isAdvE = true := by cases a2 <;> simp_all [Entry.isArrE, Entry.isAdvE]
    have h6 : p.isAdvE = false := (hplainok p hp).2.1
    simp only [List.map_append, List.map_cons, h4, h5, h6]
    exact separated_true _ _ _ _
  have hft : ((pfx ++ e :: (mid1 ++ p :: (mid2 ++ a2 :: rest))).map Entry.isAdvE)[pfx.length + 1 + mid1.length]?
      = some false := by
    have h6 : p.isAdvE = false := (hplainok p hp).2.1
    have hsplit : pfx ++ e :: (mid1 ++ p :: (mid2 ++ a2 :: rest)) = (pfx ++ e :: mid1) ++ p :: (mid2 ++ a2 :: rest) := by simp
    rw [hsplit, List.map_append, List.getElem?_append_right (by simp; omega)]
    simp [h6]
    have : pfx.length + 1 + mid1.length - (pfx.length + (mid1.length + 1)) = 0 := by omega
    simp [this, h6]
  have hk0 := findIdx_one pfx e (mid1 ++ p :: (mid2 ++ a2 :: rest)) hpfxarr he
  have hkr : (pfx ++ e :: (mid1 ++ p :: (mid2 ++ a2 :: rest))).reverse.findIdx? Entry.isArrE = some rest.length := by
    have := findIdx_one rest.reverse a2 (mid2.reverse ++ p :: (mid1.reverse ++ e :: pfx.reverse)) hrestarr ha2E
    simpa using this
  have hellk := ellK_lt (shape.length - totalAdvance (pfx ++ e :: (mid1 ++ p :: (mid2 ++ a2 :: rest)))) pfx e
    (mid1 ++ p :: (mid2 ++ a2 :: rest)) heE
  have htake : (pfx ++ e :: (mid1 ++ p :: (mid2 ++ a2 :: rest))).take pfx.length = pfx := by simp
  have hlen : (pfx ++ e :: (mid1 ++ p :: (mid2 ++ a2 :: rest))).length
      = pfx.length + 1 + mid1.length + 1 + mid2.length + 1 + rest.length := by simp; omega
  have hNC1 : 0 < (pfx.filter Entry.isNCE).length := by
    obtain ⟨x, hx, hxe⟩ := List.any_eq_true.mp hpfx1
    have hxp := List.all_eq_true.mp hpfx x hx
    have : x.isNCE = true := by cases x <;> simp_all [Entry.isPlain, Entry.isNCE, Entry.isEll]
    exact List.length_pos_of_mem (List.mem_filter.mpr ⟨hx, this⟩)
  generalize hsufdef : mid1 ++ p :: (mid2 ++ a2 :: rest) = suf at *
  have hsufB : suf.all (Entry.okB B) = true := by
    rw [List.all_eq_true] at hallB ⊢
    intro x hx; exact hallB x (by simp [hx])
  have hes'shape : (if (pfx ++ e :: suf).any Entry.isEll then pfx ++ e :: suf else (pfx ++ e :: suf) ++ [.ell])
      = pfx ++ e :: (if (pfx ++ e :: suf).any Entry.isEll then suf else suf ++ [.ell]) := by
    split <;> simp
  generalize hes : pfx ++ e :: suf = es at *
  have hex : expand es0 = es := hexp
  by_cases hc : ellCountE es > 1
  · have hp : prepIndex shape es0 = none := by
      unfold prepIndex; simp only [hex]
      have : (es.filter Entry.isEll).length > 1 := hc
      simp [this]
    exact ⟨fun _ => getitemShaped_prep_none _ _ _ hp, fun sp h => by simp [sel, selAtoms, hc] at h⟩
  have hc1 : ellCountE (expand es0) ≤ 1 := by rw [hex]; omega
  by_cases ht : totalAdvance es > shape.length
  · refine ⟨fun _ => ?_, fun sp h => by simp [sel, selAtoms, hc, ht] at h⟩
    cases hany : es.any Entry.isEll with
    | true =>
      apply getitemShaped_prep_none
      unfold prepIndex; simp only [hex]
      have g1 : ¬ (es.filter Entry.isEll).length > 1 := hc
      have g2 : (es.findIdx? Entry.isEll).isSome = true := by rw [List.findIdx?_isSome]; exact hany
      simp [g1, g2, ht]
    | false =>
      have hpe := prepIndex_eq shape es0 hc1 (by rw [hex, hany]; intro h; cases h)
      rw [hex] at hpe
      cases hR : prog (shape.length - totalAdvance es) shape es (.all false) with
      | none => exact getitemShaped_prep_none _ _ _ (by rw [hpe, hR])
      | some x =>
        obtain ⟨pre, post, shs⟩ := x
        obtain ⟨_, m2, _, _, _⟩ := prog_maps _ es hokall _ _ _ _ _ hR
        have hcons : consTotal pre = totalAdvance es := by
          simp only [consTotal, totalAdvance, m2]
        simp only [hR] at hpe
        cases hB : bcastAll shs with
        | none => exact getitemShaped_prep_none _ _ _ (by rw [hpe, hB])
        | some ash =>
          simp only [hB] at hpe
          refine getitemShaped_np_none _ _ _ _ hpe ?_
          show npIndex shape pre = none
          unfold npIndex
          have : consTotal pre > shape.length := by omega
          simp [this]
  -- the main case
  have ht' : totalAdvance es ≤ shape.length := by omega
  generalize hw : shape.length - totalAdvance es = w at *
  have hpe := prepIndex_eq shape es0 hc1 (by rw [hex]; intro _; exact ht')
  rw [hex, hw] at hpe
  generalize hsuf'def : (if es.any Entry.isEll then suf else suf ++ [.ell]) = suf' at hes'shape
  generalize hes' : (if es.any Entry.isEll then es else es ++ [.ell]) = es' at hes'shape
  have hsuf' : suf'.all (Entry.okB B) = true := by
    rw [← hsuf'def]; split
    · exact hsufB
    · simp [List.all_append, hsufB, Entry.okB, Entry.isBasic]
  have hes'B : es'.all (Entry.okB B) = true := by
    rw [hes'shape]
    simp only [List.all_append, List.all_cons, heok, hsuf', Bool.true_and, Bool.and_true]
    rw [List.all_eq_true]
    intro x hx; exact (hplainok x (List.all_eq_true.mp hpfx x hx)).1
  have hsel : selAtoms shape es = specAtoms w shape es' := by
    simp only [selAtoms, hc, ht, if_false, hw, hes']
  obtain ⟨ag1, ag2⟩ := agreeG_list w B es' hes'B shape hpos (.all false) (fun _ => false) (fun i _ => rfl)
  have hprog' : prog w shape es' (.all false) =
      (prog w shape es (.all false)).map fun x =>
        (if es.any Entry.isEll then x.1 else x.1 ++ [NEntry.ell], x.2.1, x.2.2) := by
    rw [← hes']
    cases hany : es.any Entry.isEll with
    | true => simp
    | false => simp [prog_append_ell]
  cases hR : prog w shape es (.all false) with
  | none =>
    rw [hR] at hprog'
    have hs := ag1 (by rw [hprog']; rfl)
    refine ⟨fun _ => getitemShaped_prep_none _ _ _ (by rw [hpe, hR]), fun sp h => ?_⟩
    simp [sel, hsel, hs] at h
  | some x =>
    obtain ⟨pre, post, shs⟩ := x
    obtain ⟨m1, m2, m3, m4, m5⟩ := prog_maps _ es hokall _ _ _ _ _ hR
    obtain ⟨e1, e2, e3, e4⟩ := map_eq_facts NEntry.isEll Entry.isEll pre es m1
    obtain ⟨_, _, a3, _⟩ := map_eq_facts NEntry.isArr Entry.isArrE pre es m3
    have hcons : consTotal pre = totalAdvance es := by simp only [consTotal, totalAdvance, m2]
    have hellc : ellCount pre = ellCountE es := e1
    rw [hR] at hprog'
    simp only [Option.map_some] at hprog'
    obtain ⟨b1, b2⟩ := ag2 _ _ _ hprog'
    have hidx : (if pre.any NEntry.isEll then pre else pre ++ [NEntry.ell]) =
        (if es.any Entry.isEll then pre else pre ++ [NEntry.ell]) := by rw [e2]
    have hwpre : shape.length - consTotal pre = w := by rw [hcons]; exact hw
    have hsepre : separated (pre.map NEntry.isAdv) = true := by rw [m4]; exact hsepE
    cases hS : specAtoms w shape es' with
    | none =>
      refine ⟨fun _ => ?_, fun sp h => by simp [sel, hsel, hS] at h⟩
      have hnp : npIndex shape pre = none := by
        unfold npIndex
        have g1 : ¬ ellCount pre > 1 := by rw [hellc]; exact hc
        have g2 : ¬ consTotal pre > shape.length := by rw [hcons]; exact ht
        simp only [g1, g2, if_false, hwpre, hidx, b1 hS]
      simp only [hR] at hpe
      cases hB : bcastAll shs with
      | none => exact getitemShaped_prep_none _ _ _ (by rw [hpe, hB])
      | some ash =>
        simp only [hB] at hpe
        exact getitemShaped_np_none _ _ _ _ hpe hnp
    | some sats =>
      obtain ⟨hshs, hrep, ats, hats, hsimS, _⟩ := b2 sats hS
      subst hshs
      have hfit : EllFits w shape.length es' := by
        have htot : totalAdvance es' = totalAdvance es := by
          rw [← hes']; split
          · rfl
          · simp [totalAdvance, Entry.advance]
        have hcnt : ellCountE es' ≤ 1 := by
          rw [← hes']
          cases hany : es.any Entry.isEll with
          | true => simp; omega
          | false =>
            have : (es.filter Entry.isEll).length = 0 := by
              have := List.any_eq_false.mp hany
              rw [List.length_eq_zero_iff, List.filter_eq_nil_iff]
              intro x hx; simpa using this x hx
            simp [ellCountE, List.filter_append, this, Entry.isEll, List.filter]
        have := ellFits_guard es' shape.length hcnt (by rw [htot]; exact ht')
        rw [htot, hw] at this
        exact this
      have hLspec : SAtom.axesBefore sats = pfxAxes w pfx := by
        have h1 := hS; have h2 := hfit
        rw [hes'shape] at h1 h2
        exact specAtoms_axesBefore w e suf' he pfx hpfx shape sats h2 h1
      have hLadv : SAtom.axesBeforeAdv sats = pfxAxes w pfx := by
        have h1 := hS; have h2 := hfit
        rw [hes'shape] at h1 h2
        exact specAtoms_axesBeforeAdv w e suf' he pfx hpfx shape sats h2 h1
      have hne : SAtom.arrShapes sats ≠ [] := by
        have h1 := hS
        rw [hes'shape] at h1
        exact specAtoms_has_arr w e suf' he pfx hpfx shape sats h1
      have hBall := bcastAll_const B (SAtom.arrShapes sats) hsimS.2.2.1 hne
      have hsim : Sim ats sats B :=
        ⟨hsimS.1, by rw [hsimS.2.1, hBall], hBall, hsimS.2.2.2.1, by rw [hsimS.2.2.2.2.1, hLadv, hLspec], hsimS.2.2.2.2.2⟩
      generalize hshB : B = sh at *
      -- the specification's result
      have hBs : bcastAll (SAtom.arrShapes sats) = some sh := hsim.2.2.1
      have hselsp : sel shape es = specOf sats := by simp [sel, hsel, hS]
      have hspec : specOf sats = some ⟨(SAtom.lens sats).take (SAtom.axesBefore sats) ++ sh ++ (SAtom.lens sats).drop (SAtom.axesBefore sats),
          fun o => SAtom.walk sats (splitAt (SAtom.axesBefore sats) sh.length o).1 (splitAt (SAtom.axesBefore sats) sh.length o).2,
          fun o => SAtom.flag sats (splitAt (SAtom.axesBefore sats) sh.length o).2⟩ := by
        simp [specOf, hBs]
      refine ⟨fun h => (by rw [hselsp, hspec] at h; cases h), fun sp h => ?_⟩
      rw [hselsp, hspec] at h
      cases h
      -- NumPy's result
      have hnp : npIndex shape pre = some ⟨sh ++ SAtom.lens sats,
          fun o => walk ats (o.drop sh.length) (o.take sh.length)⟩ := by
        obtain ⟨s1, s2, _, s4, _, _⟩ := hsim
        unfold npIndex
        have g1 : ¬ ellCount pre > 1 := by rw [hellc]; omega
        have g2 : ¬ consTotal pre > shape.length := by rw [hcons]; omega
        simp only [g1, g2, if_false, hwpre, hidx, hats, s2, s4, hsepre, s1]
        simp [NpIndex.splitAt]
      -- where `_prep_index` says the array axes are
      have hpfxell : (pfx.filter Entry.isEll).length ≤ 1 := by
        have : (pfx.filter Entry.isEll).length ≤ (es.filter Entry.isEll).length := by
          rw [← hes, List.filter_append, List.length_append]; omega
        have : ellCountE es ≤ 1 := by omega
        unfold ellCountE at this; omega
      have hloc : locate pre (es.findIdx? Entry.isEll) w = (SAtom.axesBefore sats, true) := by
        have hprelen : pre.length = pfx.length + 1 + mid1.length + 1 + mid2.length + 1 + rest.length := by rw [e4, hlen]
        have hrev : pre.reverse.findIdx? NEntry.isArr = some rest.length := by
          have hm : pre.reverse.map NEntry.isArr = es.reverse.map Entry.isArrE := by
            rw [List.map_reverse, List.map_reverse, m3]
          rw [(map_eq_facts NEntry.isArr Entry.isArrE pre.reverse es.reverse hm).2.2.1]; exact hkr
        have hm : (pre.take pfx.length).map NEntry.isNC = (es.take pfx.length).map Entry.isNCE := by
          rw [List.map_take, List.map_take, m5]
        have hcnt := (map_eq_facts NEntry.isNC Entry.isNCE _ _ hm).1
        rw [htake] at hcnt
        rw [locate_sep pre _ w pfx.length rest.length (pfx.length + 1 + mid1.length) (by rw [a3]; exact hk0) hrev
          (by omega) (by omega) (by rw [m4]; exact hft) (by rw [hcnt]; omega)]
        simp only [Prod.mk.injEq, and_true]
        rw [hcnt, hellk, hLspec, pfxAxes_count w pfx hpfx hpfxell]
      have hp : prepIndex shape es0 = some ⟨pre,
          (if !(sh.all (· != 0)) then .all false else if post.all? then .all true else post),
          (es.findIdx? Entry.isEll).isSome, true, sh, SAtom.axesBefore sats⟩ := by
        rw [hpe, hR]
        simp only [hBall, hloc]
      -- assemble: the result is relocated from NumPy's "array axes first" layout
      have hr := getitemShaped_stages shape mask es0 _ _ hp hnp
      simp only [if_true] at hr
      have hLle : SAtom.axesBefore sats ≤ (SAtom.lens sats).length := by
        rw [← hsim.2.2.2.2.1, ← hsim.1]; exact axesBefore_le ats
      have hshape : (moveFront (SAtom.axesBefore sats) sh.length
          ⟨sh ++ SAtom.lens sats, fun o => walk ats (o.drop sh.length) (o.take sh.length)⟩).shape
          = (SAtom.lens sats).take (SAtom.axesBefore sats) ++ sh ++ (SAtom.lens sats).drop (SAtom.axesBefore sats) := by
        simp [moveFront]
      refine ⟨_, hr, hshape, ?_⟩
      intro o ho
      -- the coordinate in NumPy's layout
      generalize hL : SAtom.axesBefore sats = L at *
      have hlenTake : ((SAtom.lens sats).take L).length = L := by simp [List.length_take]; omega
      have ho' : Valid (sh ++ SAtom.lens sats)
          ((o.drop L).take sh.length ++ (o.take L ++ o.drop (L + sh.length))) := by
        have := valid_move (A := (SAtom.lens sats).take L) (B := sh) (C := (SAtom.lens sats).drop L) ho
        rw [hlenTake, List.take_append_drop] at this
        exact this
      have hac : Valid sh ((o.drop L).take sh.length) := by
        have := valid_mid ho
        simpa [hlenTake] using this
      have haclen : ((o.drop L).take sh.length).length = sh.length := valid_length hac
      have hnz : sh.all (· != 0) = true := by
        rw [List.all_eq_true]
        intro n hn
        have : n ≠ 0 := by
          intro h0; subst h0
          exact not_valid_of_zero (s := (SAtom.lens sats).take L ++ sh ++ (SAtom.lens sats).drop L) (by simp [hn]) ho
        simpa using this
      have hmi := mask_iff mask (if !(sh.all (· != 0)) then .all false else if post.all? then .all true else post)
        ⟨sh ++ SAtom.lens sats, fun o => walk ats (o.drop sh.length) (o.take sh.length)⟩
        sh (SAtom.lens sats) 0 ((o.drop L).take sh.length ++ (o.take L ++ o.drop (L + sh.length)))
        (by simp) (by omega) ho' (by
          intro pm hpm
          simp only [hnz, Bool.not_true, Bool.false_eq_true, if_false] at hpm
          split at hpm
          · cases hpm
          · subst hpm
            rw [hrep.1]; exact bcast_self sh)
      have hpa := postAt_norm post sh _ 0 ((o.drop L).take sh.length ++ (o.take L ++ o.drop (L + sh.length))) hrep
        (by simpa [List.take_left' haclen] using hac) hnz
      simp only [Bool.false_or, List.drop_zero, List.take_left' haclen] at hpa
      -- the relocated mask reads the merged mask at the NumPy-layout coordinate
      have hbit : ∀ (rm : Mask),
          (match rm with
            | .arr a => Mask.arr (moveFrontArr L sh.length a)
            | .all b => Mask.all b).bit o
          = rm.bit ((o.drop L).take sh.length ++ (o.take L ++ o.drop (L + sh.length))) := by
        intro rm; cases rm <;> rfl
      show (match mergeMask mask _ _ sh 0 with
            | .arr a => Mask.arr (moveFrontArr L sh.length a)
            | .all b => Mask.all b).bit o = _ ∧ _
      rw [hbit, hmi, hpa]
      have hsrc : (moveFront L sh.length ⟨sh ++ SAtom.lens sats,
            fun o => walk ats (o.drop sh.length) (o.take sh.length)⟩).src o
          = walk ats (o.take L ++ o.drop (L + sh.length)) ((o.drop L).take sh.length) := by
        simp only [moveFront]
        rw [List.drop_left' haclen, List.take_left' haclen]
      have hflagac : SAtom.flag sats (splitAt L sh.length o).2 = SAtom.flag sats ((o.drop L).take sh.length) := rfl
      simp only [List.drop_left' haclen, List.take_left' haclen]
      cases hfl : SAtom.flag sats ((o.drop L).take sh.length) with
      | true => simp [hflagac, hfl]
      | false =>
        have hw' := hsim.2.2.2.2.2 (o.take L ++ o.drop (L + sh.length)) _ hac hfl
        have hspsrc : SAtom.walk sats (splitAt L sh.length o).1 (splitAt L sh.length o).2
            = SAtom.walk sats (o.take L ++ o.drop (L + sh.length)) ((o.drop L).take sh.length) := rfl
        simp only [hflagac, hfl, Bool.or_false, hspsrc, ← hw', true_and]
        intro _
        exact hsrc

/-- non-vacuity: `q[:, [0,2], :, [1,3]]` on shape (2,3,2,4): shape (2,2,2), array axis in the middle -/
example :
    let i1 : Entry := .iarr ⟨[2], fun i => [0, 2].getD (i.headD 0) 0⟩ (.all false)
    let i2 : Entry := .iarr ⟨[2], fun i => [1, 3].getD (i.headD 0) 0⟩ (.all false)
    (sel [2, 3, 2, 4] [.slice true [0, 1], i1, .slice true [0, 1], i2]).map
        (fun sp => (sp.shape, sp.src [1, 1, 0], sp.src [0, 0, 1])) =
      some ([2, 2, 2], [1, 2, 0, 3], [0, 0, 1, 1]) := by
  rfl

/-! ### a sanity theorem for the NumPy model itself (basic indexing) -/

/-- **numpy_basic_sanity.**  On indices of None / Ellipsis / slices (coordinate lists) / integers the
    NumPy model `npIndex` — atoms, broadcast of advanced shapes, placement, `walk` — agrees, for every
    rank and shape, with `NpIndex.basicSpec`, a direct entry-by-entry definition of NumPy basic
    indexing: same failures, same result shape, same source coordinate at every valid result
    coordinate.  (NumPy's ADVANCED indexing rules in `NpIndex.lean` are validated by the kernel suite
    only.) -/
theorem numpy_basic_sanity (shape : Shape) (idx : List NEntry) (hb : idx.all NEntry.isBasicN = true)
    (h1 : ellCount idx ≤ 1) (h2 : consTotal idx ≤ shape.length) :
    match npIndex shape idx,
          basicSpec (shape.length - consTotal idx) shape (if idx.any NEntry.isEll then idx else idx ++ [.ell]) with
    | none, none => True
    | some s, some sf => s.shape = sf.1 ∧ ∀ o, Valid sf.1 o → s.src o = sf.2 o
    | _, _ => False :=
  npIndex_basic_spec shape idx hb h1 h2

example : (basicSpec 1 [3, 4, 5] [.int (-1), .ell, .coords [0, 2], .newaxis]).map (fun sf => (sf.1, sf.2 [3, 1, 0])) =
    some ([4, 2, 1], [2, 3, 2]) := by rfl

/-! ### derivatives, iteration, length -/

/-- **derivs_same_selection.**  For an object with a leading shape, the object and each of its
    derivatives are indexed with the same index: the result list is `getitem` mapped over them and
    an error in any is an error of the whole; all results share shape and source map
    (`getitem_src_indep`). -/
theorem derivs_same_selection (n : Nat) (rest : Shape) (m : Mask) (ms : List Mask) (indx : List Entry) :
    getitemObj (n :: rest) (m :: ms) indx =
      match getitem (n :: rest) m indx, getitemShapedObj (n :: rest) ms indx with
      | some r, some rs => some (r :: rs)
      | _, _ => none := by
  simp only [getitemObj, getitemShapedObj, List.mapM_cons]
  cases getitem (n :: rest) m indx with
  | none => rfl
  | some r =>
    cases List.mapM (fun m => getitem (n :: rest) m indx) ms with
    | none => rfl
    | some rs => rfl

/-- **derivs_shapeless.**  For a shapeless object the result's main part is that of `getitemScalar`,
    and every derivative comes back with the same shape and with its single element masked iff the
    derivative is masked or the Boolean in the index is masked — whatever the object's own mask. -/
theorem derivs_shapeless (mask : Bool) (dmasks : List Bool) (indx : List Entry) (rs : List Result)
    (h : getitemScalarObj mask dmasks indx = some rs) :
    (∃ r0 tl, rs = r0 :: tl ∧ getitemScalar mask indx = some r0 ∧ tl.length = dmasks.length) ∧
    rs.tail.map (fun r => (r.shape, r.mask.bit [])) =
      dmasks.map (fun d => (scalarDims indx, d || scalarMasked indx)) := by
  have hinv : ({} : SState).Inv := ⟨fun _ => rfl, fun h => by simp at h, fun _ => rfl⟩
  obtain ⟨_, h2⟩ := scalarLoop_spec indx {} hinv
  unfold getitemScalarObj at h
  cases hl : scalarLoop {} indx with
  | none => simp [hl] at h
  | some s =>
    obtain ⟨_, ⟨_, i2, _⟩, c, d⟩ := h2 s hl
    simp only [hl, Option.some.injEq] at h
    subst h
    have hd : s.masked = scalarMasked indx := by simpa using d
    have hc : s.before ++ s.after = scalarDims indx := by simpa using c
    refine ⟨⟨_, _, rfl, by simp [getitemScalar, hl], by simp⟩, ?_⟩
    simp only [List.tail_cons, List.map_map, hc]
    rw [List.map_inj_left]
    intro dd _
    cases hz : s.sizeZero with
    | true =>
      -- a `False` in the index: it is the only boolean, so no masked Boolean
      have : s.masked = false := by
        cases hmm : s.masked with
        | false => rfl
        | true => have := i2 hmm; simp [hz] at this
      simp [Function.comp, Mask.bit, ← hd, this]
    | false =>
      cases hs : s.masked <;> simp [Function.comp, Mask.bit, ← hd, hs]

/-- the former finding KF-C09-2 (repaired, 33685c7): an already masked shapeless object indexed by a
    masked Boolean hands back its derivative masked -/
example : (getitemObj [] [.all true, .all false] [.bool true true]).map (fun rs => rs.map (·.mask.bit [])) =
    some [true, true] := by rfl

/-- the selection (result shape) of `getitemShaped` does not depend on the object's mask: an object
    and its derivatives get results of one shape, read through one source map -/
theorem getitem_src_indep (shape : Shape) (m1 m2 : Mask) (indx : List Entry) :
    (getitemShaped shape m1 indx).map (fun r => (r.shape, r.src)) =
      (getitemShaped shape m2 indx).map (fun r => (r.shape, r.src)) := by
  cases hp : prepIndex shape indx with
  | none => simp [getitemShaped, hp]
  | some p =>
    cases hs : npIndex shape p.pre with
    | none => simp [getitemShaped, hp, hs]
    | some s =>
      rw [getitemShaped_stages shape m1 indx p s hp hs, getitemShaped_stages shape m2 indx p s hp hs]
      cases p.moved <;> rfl

/-- **iter_visits_in_order.**  Iterating over an object with at least one axis yields
    `q[0], q[1], …, q[n-1]` in this order (and nothing else); `len` is `n`. -/
theorem iter_visits_in_order (n : Nat) (rest : Shape) (masks : List Mask) :
    iterate (n :: rest) masks = (List.range n).map (fun i => getitemObj (n :: rest) masks [.int (Int.ofNat i) false]) ∧
    (iterate (n :: rest) masks).length = n ∧ len (n :: rest) = some n := by
  simp [iterate, len]

/-- `ndenumerate` visits every index of the shape in row-major order with `q[i0, i1, …]` -/
theorem ndenumerate_visits_in_order (n : Nat) (rest : Shape) (masks : List Mask) :
    (ndenumerate (n :: rest) masks).map (·.1) = indices (n :: rest) ∧
    ∀ p ∈ ndenumerate (n :: rest) masks,
      p.2 = getitemObj (n :: rest) masks (p.1.map fun k => .int (Int.ofNat k) false) := by
  constructor
  · simp [ndenumerate, List.map_map, Function.comp_def]
  · intro p hp
    simp only [ndenumerate, List.mem_map] at hp
    obtain ⟨i, _, rfl⟩ := hp
    rfl

/-! ### invalid indices -/

theorem prepLoop_invalid (shape : Shape) : ∀ (es : List Entry) (locs : List Nat) (post : PostMask),
    (∃ e ∈ es, e = .float ∨ e = .bad) → prepLoop shape es locs post = none := by
  intro es
  induction es with
  | nil => intro _ _ h; simp at h
  | cons e es ih =>
    intro locs post h
    cases locs with
    | nil => rfl
    | cons l locs =>
      simp only [prepLoop]
      cases hpe : prepEntry shape l e with
      | none => rfl
      | some r =>
        obtain ⟨p, u, sh⟩ := r
        have hne : ¬ (e = .float ∨ e = .bad) := by
          intro h'
          rcases h' with h' | h' <;> subst h' <;> simp [prepEntry] at hpe <;>
            (cases hs : shape[l]? <;> simp [hs] at hpe)
        have h2 : ∃ e' ∈ es, e' = .float ∨ e' = .bad := by
          obtain ⟨e', he', hv⟩ := h
          rcases List.mem_cons.mp he' with rfl | hm
          · exact absurd hv hne
          · exact ⟨e', hm, hv⟩
        simp only
        cases u.apply post with
        | none => rfl
        | some post' => simp [ih locs post' h2]

/-- **invalid_index_indexerror.**  A float or an object of an unsupported type anywhere in the
    index, or two Ellipses, make `__getitem__` fail — and the only failure the model (hence, by the
    correspondence check, the code) has is IndexError (`none`). -/
theorem invalid_index_indexerror (shape : Shape) (mask : Mask) (indx : List Entry) :
    ((∃ e ∈ indx, e = .float ∨ e = .bad) → getitemShaped shape mask indx = none) ∧
    (((expand indx).filter Entry.isEll).length > 1 → getitemShaped shape mask indx = none) := by
  constructor
  · intro h
    have h' : ∃ e ∈ expand indx, e = .float ∨ e = .bad := by
      obtain ⟨e, he, hv⟩ := h
      refine ⟨e, ?_, hv⟩
      simp only [expand, List.mem_flatMap]
      exact ⟨e, he, by rcases hv with rfl | rfl <;> simp [expandEntry]⟩
    have hp : prepIndex shape indx = none := by
      unfold prepIndex
      simp only
      split
      · rfl
      · split
        · rfl
        · rw [prepLoop_invalid shape _ _ _ h']
    simp [getitemShaped, hp]
  · intro h
    unfold getitemShaped prepIndex
    simp [h]

/-! ### the recorded defect KF-C09-1: an integer index on an axis of length zero -/

/-- FULL (what the property demands): an out-of-range integer yields masked elements, never an
    error — also on an axis of length 0, where every integer is out of range.
    The faithful model (and the code) raise IndexError there: -/
theorem int_on_zero_axis_counterexample :
    (getitem [0, 3] (.all false) [.int 5 false]).isNone = true ∧
    (getitem [0] (.all false) [.iarr ⟨[2], fun _ => 1⟩ (.all false)]).isNone = true := by
  constructor <;> rfl

end PMV.Index
