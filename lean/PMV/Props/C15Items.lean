import PMV.Props.C15
/-
  C15 — object-level theorems, part 2: `recursive=False` variants, the `broadcast_to(())` squeeze case, and the
  ITEM-axis operations (transpose_numer, reshape_numer, extract_numer, …) at the level of the whole object:
  values and every derivative are re-indexed by ONE map on the NUMERATOR part of the index; leading index,
  denominator index and mask are untouched.
-/
namespace PMV.C15
open PMV PMV.NpShape PMV.Shaper PMV.ItemOps

variable {α : Type}

/-! ## `recursive=False`: the result carries no derivatives (or is the operand itself, for an identity call) -/

theorem swapAxes_nonrec {q r : Q α} {ax1 ax2 : Int} (h : swapAxes q ax1 ax2 false = .ok r) :
    r.derivs = [] ∨ r = q := by
  unfold swapAxes at h
  obtain ⟨⟨a1, a2⟩, _, h⟩ := bind_ok.1 h
  simp only at h
  split at h
  · exact Or.inr (pure_ok.1 h).symm
  · obtain ⟨b, _, h⟩ := bind_ok.1 h
    obtain ⟨ds, hds, h⟩ := bind_ok.1 h
    have e1 := pure_ok.1 hds
    have e2 := pure_ok.1 h
    subst e1 e2; exact Or.inl rfl

theorem reshape_nonrec {q r : Q α} {shape : List Int} (h : Shaper.reshape q shape false = .ok r) :
    r.derivs = [] ∨ r = q := by
  unfold Shaper.reshape at h
  split at h
  · injection h with h; exact Or.inr h.symm
  · obtain ⟨b, _, h⟩ := bind_ok.1 h
    obtain ⟨ds, hds, h⟩ := bind_ok.1 h
    have e1 := pure_ok.1 hds
    have e2 := pure_ok.1 h
    subst e1 e2; exact Or.inl rfl

theorem flatten_nonrec {q r : Q α} (h : flatten q false = .ok r) : r.derivs = [] ∨ r = q := by
  unfold flatten at h
  split at h
  · injection h with h; exact Or.inr h.symm
  · exact reshape_nonrec h

theorem broadcastTo_nonrec {q r : Q α} {shape : List Int} (h : Shaper.broadcastTo q shape false = .ok r) :
    r.derivs = [] := by
  unfold Shaper.broadcastTo at h
  split at h
  · injection h with h; subst h; rfl
  · obtain ⟨b, _, h⟩ := bind_ok.1 h
    obtain ⟨ds, hds, h⟩ := bind_ok.1 h
    have e1 := pure_ok.1 hds
    have e2 := pure_ok.1 h
    subst e1 e2; rfl


theorem rollAxis_nonrec {q r : Q α} {axis start : Int} {rank : Option Nat}
    (h : rollAxis q axis start false rank = .ok r) : r.derivs = [] ∨ r = q := by
  unfold rollAxis at h
  simp only [bind, Except.bind, pure, Except.pure] at h
  cases h1 : effRank q.base.shape.length rank with
  | error e => rw [h1] at h; cases h
  | ok rk =>
    rw [h1] at h; simp only at h
    cases h2 : rollNorm rk axis start with
    | error e => rw [h2] at h; cases h
    | ok a =>
      rw [h2] at h; obtain ⟨a1, a2⟩ := a; simp only at h
      split at h
      · injection h with h; exact Or.inr h.symm
      · split at h
        · cases h3 : Shaper.reshape q (padShape rk q.base.shape) false with
          | error e => rw [h3] at h; cases h
          | ok q1 =>
            rw [h3] at h; simp only at h
            cases h4 : rollCore q1.base a1 a2 with
            | error e => rw [h4] at h; cases h
            | ok b => rw [h4] at h; simp only at h; injection h with h; subst h; exact Or.inl rfl
        · cases h4 : rollCore q.base a1 a2 with
          | error e => rw [h4] at h; cases h
          | ok b => rw [h4] at h; simp only at h; injection h with h; subst h; exact Or.inl rfl

theorem moveAxis_nonrec {q r : Q α} {source destination : List Int} {rank : Option Nat}
    (h : moveAxis q source destination false rank = .ok r) : r.derivs = [] ∨ r = q := by
  unfold moveAxis at h
  simp only [bind, Except.bind, pure, Except.pure] at h
  cases h1 : effRank q.base.shape.length rank with
  | error e => rw [h1] at h; cases h
  | ok rk =>
    rw [h1] at h; simp only at h
    cases h2 : moveNorm rk source destination with
    | error e => rw [h2] at h; cases h
    | ok a =>
      rw [h2] at h; obtain ⟨a1, a2⟩ := a; simp only at h
      split at h
      · injection h with h; exact Or.inr h.symm
      · split at h
        · cases h3 : Shaper.reshape q (padShape rk q.base.shape) false with
          | error e => rw [h3] at h; cases h
          | ok q1 =>
            rw [h3] at h; simp only at h
            cases h4 : moveCore q1.base a1 a2 with
            | error e => rw [h4] at h; cases h
            | ok b => rw [h4] at h; simp only at h; injection h with h; subst h; exact Or.inl rfl
        · cases h4 : moveCore q.base a1 a2 with
          | error e => rw [h4] at h; cases h
          | ok b => rw [h4] at h; simp only at h; injection h with h; subst h; exact Or.inl rfl


/-! ## item-axis operations: ONE map on the numerator part of the index, for values and every derivative -/

/-- `q'` is `q` with the NUMERATOR part of every index re-labelled by `πn` onto the numerator `n'`:
    element `(i, kn, kd)` of `q'` is element `(i, πn kn, kd)` of `q`; leading shape, denominator and mask are
    the same (the class may change: casts) -/
structure NumerReindex (πn : Index → Index) (n' : Shape) (q q' : Q0 α) : Prop where
  shape : q'.shape = q.shape
  numer : q'.numer = n'
  denom : q'.denom = q.denom
  mask : q'.mask = q.mask
  vals : ∀ i kn kd : Index, Valid q.shape i → Valid n' kn → Valid q.denom kd →
    q'.vals.get (i ++ kn ++ kd) = q.vals.get (i ++ πn kn ++ kd)
  wf : WF0 q'

/-- whole object: base and every derivative (own denominators!) follow the SAME numerator map -/
def ObjNumerReindex (πn : Index → Index) (n' : Shape) (q r : Q α) : Prop :=
  NumerReindex πn n' q.base r.base ∧
  List.Forall₂ (fun kd kd' => kd.1 = kd'.1 ∧ NumerReindex πn n' kd.2 kd'.2) q.derivs r.derivs

theorem withDerivs_numer {q r : Q α} {b : Q0 α} {f : Q0 α → Except Err (Q0 α)} {πn : Index → Index} {n' : Shape}
    (hwf : WF q) (hb : NumerReindex πn n' q.base b)
    (hf : ∀ d d', WF0 d → d.numer = q.base.numer → f d = .ok d' → NumerReindex πn n' d d')
    (h : withDerivs q true b f = .ok r) : ObjNumerReindex πn n' q r := by
  unfold withDerivs at h
  obtain ⟨ds, hds, h⟩ := bind_ok.1 h
  have := pure_ok.1 h; subst this
  refine ⟨hb, ?_⟩
  apply mapDerivs_forall₂ _ q.derivs ds _ hds
  intro kd hkd d1 hd1
  obtain ⟨w, hs, hn⟩ := hwf.derivs kd hkd
  have := hf kd.2 d1 w hn hd1
  exact ⟨this, this.shape.trans (hs.trans hb.shape.symm)⟩

/-! ### reshape_numer / flatten_numer / as_row / as_column -/

theorem reshapeNumer0_numer {q r : Q0 α} {new : Shape} {cs : List Cls} (hwf : WF0 q)
    (h : reshapeNumer0 q (ofNats new) cs = .ok r) :
    NumerReindex (fun kn => unravel q.numer (ravel new kn)) new q r := by
  obtain ⟨_, a2, a3, a4, a5, a6, a7⟩ := reshapeNumer0_reindex hwf h
  exact ⟨a2, a3, a4, a5, a7, a6⟩

/-- **op_is_reindex (item part) for `reshape_numer`, whole object** -/
theorem reshapeNumer_reindex {q r : Q α} {new : Shape} {cs : List Cls} (hwf : WF q)
    (h : reshapeNumer q (ofNats new) cs true = .ok r) :
    ObjNumerReindex (fun kn => unravel q.base.numer (ravel new kn)) new q r := by
  unfold reshapeNumer at h
  obtain ⟨b, hb, h⟩ := bind_ok.1 h
  refine withDerivs_numer hwf (reshapeNumer0_numer hwf.base hb) ?_ h
  intro d d' wd hn hd
  have := reshapeNumer0_numer wd hd
  rwa [hn] at this

theorem flattenNumer_reindex {q r : Q α} {cs : List Cls} (hwf : WF q) (h : flattenNumer q cs true = .ok r) :
    ObjNumerReindex (fun kn => unravel q.base.numer (ravel [size q.base.numer] kn)) [size q.base.numer] q r :=
  reshapeNumer_reindex (new := [size q.base.numer]) hwf h

theorem asRow_reindex {q r : Q α} (hwf : WF q) (h : asRow q true = .ok r) :
    ObjNumerReindex (fun kn => unravel q.base.numer (ravel (1 :: q.base.numer) kn)) (1 :: q.base.numer) q r :=
  reshapeNumer_reindex (new := 1 :: q.base.numer) hwf h

theorem asColumn_reindex {q r : Q α} (hwf : WF q) (h : asColumn q true = .ok r) :
    ObjNumerReindex (fun kn => unravel q.base.numer (ravel (q.base.numer ++ [1]) kn)) (q.base.numer ++ [1]) q r := by
  apply reshapeNumer_reindex (new := q.base.numer ++ [1]) hwf
  have : ofNats (q.base.numer ++ [1]) = ofNats q.base.numer ++ [1] := by unfold ofNats; rw [List.map_append]; rfl
  rw [this]; exact h


/-! ### transpose_numer -/

/-- `np.swapaxes(values, L+a1, L+a2)` with two NUMERATOR axes on an array over `shape ++ numer ++ denom` -/
theorem swapaxes_numer {β : Type} (x : Arr β) (shape numer denom : Shape) {a1 a2 : Nat}
    (hx : x.shape = shape ++ numer ++ denom) (h1 : a1 < numer.length) (h2 : a2 < numer.length) :
    ∃ y, NpShape.swapaxes x ((shape.length + a1 : Nat) : Int) ((shape.length + a2 : Nat) : Int) = .ok y ∧
      y.shape = shape ++ permute (swapPerm numer.length a1 a2) numer ++ denom ∧
      ∀ i kn kd : Index, i.length = shape.length → kn.length = numer.length → kd.length = denom.length →
        y.get (i ++ kn ++ kd) = x.get (i ++ unpermute (swapPerm numer.length a1 a2) kn ++ kd) := by
  have hx' : x.shape = shape ++ (numer ++ denom) := by rw [hx, List.append_assoc]
  have hp := swapPerm_isPerm h1 h2
  have hL : x.shape.length = shape.length + (numer.length + denom.length) := by
    rw [hx', List.length_append, List.length_append]
  have e1 : NpShape.normAxis x.shape.length ((shape.length + a1 : Nat) : Int) = .ok (shape.length + a1) := by
    have := normAxis_of_nonneg (n := x.shape.length) (b := ((shape.length + a1 : Nat) : Int)) (by omega) (by rw [hL]; omega)
    rwa [Int.toNat_natCast] at this
  have e2 : NpShape.normAxis x.shape.length ((shape.length + a2 : Nat) : Int) = .ok (shape.length + a2) := by
    have := normAxis_of_nonneg (n := x.shape.length) (b := ((shape.length + a2 : Nat) : Int)) (by omega) (by rw [hL]; omega)
    rwa [Int.toNat_natCast] at this
  have hfull : IsPerm (numer.length + denom.length) (swapPerm numer.length a1 a2 ++ tailAxes numer.length denom.length) := by
    rw [← swapPerm_lead denom.length h1 h2]; exact swapPerm_isPerm (by omega) (by omega)
  refine ⟨_, swapaxes_ok x e1 e2, ?_, ?_⟩
  · show permute _ x.shape = _
    rw [hL, swapPerm_item _ _ _ _ (by omega) (by omega), swapPerm_lead denom.length h1 h2, hx',
      permute_item_shape shape (numer ++ denom) hfull (by rw [List.length_append]),
      permute_lead_shape numer denom hp rfl, List.append_assoc]
  · intro i kn kd hi hkn hkd
    show x.get (unpermute _ (i ++ kn ++ kd)) = _
    rw [hL, swapPerm_item _ _ _ _ (by omega) (by omega), swapPerm_lead denom.length h1 h2, List.append_assoc, ← hi,
      unpermute_item_index i (kn ++ kd) hfull (by rw [List.length_append, hkn, hkd]), ← hkd, ← hkn,
      unpermute_lead_index kn kd (hkn ▸ hp) rfl, hkn, List.append_assoc]

theorem transposeNumerCore_numer {q r : Q0 α} {a1 a2 : Nat} (hwf : WF0 q) (h1 : a1 < q.numer.length)
    (h2 : a2 < q.numer.length) (h : transposeNumerCore q a1 a2 = .ok r) :
    NumerReindex (unpermute (swapPerm q.numer.length a1 a2)) (permute (swapPerm q.numer.length a1 a2) q.numer) q r := by
  unfold transposeNumerCore at h
  obtain ⟨nv, hnv, h⟩ := bind_ok.1 h
  obtain ⟨y, hy, hysh, hyget⟩ := swapaxes_numer q.vals q.shape q.numer q.denom hwf.vshape h1 h2
  rw [hnv] at hy; injection hy with hy; subst hy
  obtain ⟨_, c1, c2, c3, c4, c5, c6⟩ := construct_split (s := q.shape)
    (n := permute (swapPerm q.numer.length a1 a2) q.numer) (d := q.denom) h hysh
    (by rw [length_permute, (swapPerm_isPerm h1 h2).1]) rfl hwf.mshape
  refine ⟨c2, c3, c4, c5, fun i kn kd hi hkn hkd => ?_, c6⟩
  rw [c1]
  exact hyget i kn kd (NpShape.valid_length hi)
    (by rw [NpShape.valid_length hkn, length_permute, (swapPerm_isPerm h1 h2).1]) (NpShape.valid_length hkd)

/-- **op_is_reindex (item part) for `transpose_numer`, whole object**: values and every derivative are
    transposed by the same permutation of the numerator axes; the recursive calls get the normalised axes -/
theorem transposeNumer_reindex {q r : Q α} {axis1 axis2 : Int} {a1 a2 : Nat} (hwf : WF q)
    (hx1 : itemAxis q.base.numer.length axis1 = .ok a1) (hx2 : itemAxis q.base.numer.length axis2 = .ok a2)
    (h : transposeNumer q axis1 axis2 true = .ok r) :
    ObjNumerReindex (unpermute (swapPerm q.base.numer.length a1 a2))
      (permute (swapPerm q.base.numer.length a1 a2) q.base.numer) q r := by
  obtain ⟨l1, _, i1⟩ := itemAxis_ok hx1
  obtain ⟨l2, _, i2⟩ := itemAxis_ok hx2
  unfold transposeNumer at h
  obtain ⟨b1, e1, h⟩ := bind_ok.1 h
  rw [hx1] at e1; injection e1 with e1; subst e1
  obtain ⟨b2, e2, h⟩ := bind_ok.1 h
  rw [hx2] at e2; injection e2 with e2; subst e2
  obtain ⟨b, hb, h⟩ := bind_ok.1 h
  refine withDerivs_numer hwf (transposeNumerCore_numer hwf.base l1 l2 hb) ?_ h
  intro d d' wd hn hd
  unfold transposeNumer0 at hd
  obtain ⟨c1, f1, hd⟩ := bind_ok.1 hd
  rw [hn, i1] at f1; injection f1 with f1; subst f1
  obtain ⟨c2, f2, hd⟩ := bind_ok.1 hd
  rw [hn, i2] at f2; injection f2 with f2; subst f2
  have := transposeNumerCore_numer wd (hn ▸ l1) (hn ▸ l2) hd
  rwa [hn] at this

/-! ### extract_numer / to_scalar(s) -/

theorem extractNumer0_numer {q r : Q0 α} {axis index : Int} {a1 : Nat} {cs : List Cls} (hwf : WF0 q)
    (hax : itemAxis q.numer.length axis = .ok a1) (h : extractNumer0 q axis index cs = .ok r) :
    ∃ k, pyIndex (q.numer.getD a1 0) index = .ok k ∧
      NumerReindex (fun kn => kn.insertIdx a1 k) (q.numer.eraseIdx a1) q r := by
  have ha := (itemAxis_ok hax).1
  obtain ⟨k, hk, _, e1, e2, e3, e4, e5, e6⟩ := extractNumer0_reindex hwf hax h
  refine ⟨k, hk, e1, e2, e3, e4, fun i kn kd hi hkn hkd => ?_, e5⟩
  have hknl : kn.length = q.numer.length - 1 := by
    rw [NpShape.valid_length hkn, List.length_eraseIdx, if_pos ha]
  rw [List.append_assoc, e6 i (kn ++ kd) (NpShape.valid_length hi)
    (by unfold Q0.item; rw [List.length_append, List.length_append, hknl, NpShape.valid_length hkd]; omega),
    insertIdx_append_left k kn kd a1 (by omega), List.append_assoc]

/-- **op_is_reindex (item part) for `extract_numer`, whole object, incl. the derivative recursion**
    (`deriv.extract_numer(a1, index, classes, False)`): the same component `k` of the same numerator axis is taken
    from the values and from every derivative -/
theorem extractNumer_reindex {q r : Q α} {axis index : Int} {a1 : Nat} {cs : List Cls} (hwf : WF q)
    (hax : itemAxis q.base.numer.length axis = .ok a1) (h : extractNumer q axis index cs true = .ok r) :
    ∃ k, pyIndex (q.base.numer.getD a1 0) index = .ok k ∧
      ObjNumerReindex (fun kn => kn.insertIdx a1 k) (q.base.numer.eraseIdx a1) q r := by
  obtain ⟨_, _, hidem⟩ := itemAxis_ok hax
  unfold extractNumer at h
  obtain ⟨a, e, h⟩ := bind_ok.1 h
  rw [hax] at e; injection e with e; subst e
  obtain ⟨b, hb, h⟩ := bind_ok.1 h
  have hb0 : extractNumer0 q.base axis index cs = .ok b := by
    unfold extractNumer0; rw [hax]; exact hb
  obtain ⟨k, hk, hbase⟩ := extractNumer0_numer hwf.base hax hb0
  refine ⟨k, hk, withDerivs_numer hwf hbase ?_ h⟩
  intro d d' wd hn hd
  obtain ⟨k', hk', hr⟩ := extractNumer0_numer wd (by rw [hn]; exact hidem) hd
  rw [hn, hk] at hk'; injection hk' with hk'; subst hk'
  rwa [hn] at hr

/-- `to_scalar(i)` is `extract_numer(0, i, Scalar)` -/
theorem toScalar_reindex {q r : Q α} {indx : Int} (hwf : WF q) (hn : 0 < q.base.numer.length)
    (h : toScalar q indx true = .ok r) :
    ∃ k, pyIndex (q.base.numer.getD 0 0) indx = .ok k ∧
      ObjNumerReindex (fun kn => kn.insertIdx 0 k) (q.base.numer.eraseIdx 0) q r := by
  have hax : itemAxis q.base.numer.length 0 = .ok 0 := by
    generalize q.base.numer.length = n at hn
    unfold itemAxis; simp; omega
  exact extractNumer_reindex hwf hax h


/-! ## `broadcast_to(())` of a one-element object (polymath's "Special case: broadcast to ()") -/

theorem valid_nil_iff {i : Index} (h : Valid [] i) : i = [] := by
  cases i with
  | nil => rfl
  | cons x xs => simp [Valid] at h

/-- the single element — its values (item index untouched), its mask bit — is what the result holds:
    `π` sends the empty index to the only valid index `unravel shape 0` -/
theorem broadcastTo0_squeeze {q q' : Q0 α} (hwf : WF0 q) (hne : q.shape ≠ []) (hsz : size q.shape = 1)
    (h : broadcastTo0 q [] = .ok q') :
    LeadReindex (fun _ => unravel q.shape 0) [] q q' := by
  rw [broadcastTo0_eq] at h
  have hns : ¬ (([] : List Int) = ofNats q.shape) := by
    intro e; apply hne
    have := congrArg List.length e
    simp [ofNats] at this
    exact List.length_eq_zero_iff.1 this.symm
  rw [if_neg hns, if_pos rfl] at h
  obtain ⟨nv, hnv, h⟩ := bind_ok.1 h
  have hvs : q.vals.shape = q.shape ++ q.item := by rw [hwf.vshape, List.append_assoc]; rfl
  have hres : resolve (size q.vals.shape) (ofNats q.item) = .ok q.item := by
    have := resolve_ofNats q.item
    rwa [show size q.item = size q.vals.shape by rw [hvs, size_append, hsz, Nat.one_mul]] at this
  rw [reshape_eq q.vals _ _ hres] at hnv
  injection hnv with hnv; subst hnv
  obtain ⟨c0, c1, c2, c3, c4, c5, c6⟩ := construct_split (s := []) (n := q.numer) (d := q.denom) h
    (by show q.item = _; simp [Q0.item]) rfl rfl
    (by intro a ha; cases hm : q.mask <;> rw [hm] at ha <;> cases ha)
  refine ⟨c0, c2, c3, c4, fun i k hi hk => ?_, fun i _ => ?_, c6⟩
  · rw [valid_nil_iff hi, c1]
    show q.vals.get (unravel q.vals.shape (ravel q.item k)) = _
    have : ravel q.item k = 0 * size q.item + ravel q.item k := by simp
    rw [hvs, this, unravel_append q.shape q.item 0 _ (by omega) (ravel_lt hk), unravel_ravel hk]
  · rw [c5]
    cases hm : q.mask with
    | all b => rfl
    | arr a => show a.get (unravel a.shape 0) = a.get (unravel q.shape 0); rw [hwf.mshape a hm]

end PMV.C15
