import PMV.Model.Dispatch
import PMV.Lemmas.Bcast
import PMV.Lemmas.DispatchRules
/-
  C04 — unmasked results equal the NumPy reference; only leading axes broadcast.
  Property theorems about the code-shaped model `PMV.Dispatch` (the definitions the driver executes).
  Core Lean; no Mathlib.  The broadcast lemmas (bcast_spec, bcast_comm, bcast_assoc, bidx_valid, align_lemma,
  bcast_append, …) are in `PMV/Lemmas/Bcast.lean`.  No statement bounds rank or axis lengths.
-/
namespace PMV.Dispatch
open PMV

/-! ### the alignment step is a reshape by trailing / inner unit axes -/

theorem take_drop_mid (a b c : List Nat) (p r : Nat) (hp : p = a.length) (hr : r = b.length) :
    (a ++ b ++ c).take p ++ (a ++ b ++ c).drop (p + r) = a ++ c := by
  subst hp hr
  rw [List.append_assoc, List.take_left, ← List.append_assoc, ← List.length_append, List.drop_left]

theorem bidx_length_of_le (s : Shape) (i : Index) (h : s.length ≤ i.length) : (bidx s i).length = s.length := by
  rw [bidx_length_le]; omega

/-! ### value_ref: element-wise plans under FULL NumPy broadcasting select by LEADING-axis broadcasting only -/

/-- **value_ref, same item shape** (`self._values_ + arg._values_`, qube.py:2910, 3026): both operands carry the item
    shape `t`; the code lets NumPy broadcast the full shapes `sa ++ t` and `sb ++ t`.  The result exists iff the
    LEADING shapes broadcast, has shape `bcast sa sb ++ t`, and its element at leading index `i`, item index `j` is
    the operator applied to the operand elements at `bidx sa i`, `bidx sb i` with the SAME item index `j`. -/
theorem value_ref_same_item (f : Int → Int → Int) (A B : Arr Int) (sa sb t : Shape)
    (hA : A.shape = sa ++ t) (hB : B.shape = sb ++ t) :
    match bcast sa sb with
    | none => Arr.map2 f A B = none
    | some out => ∃ v, Arr.map2 f A B = some v ∧ v.shape = out ++ t ∧
        ∀ i j, Valid t j → j.length = t.length →
          v.get (i ++ j) = f (A.get (bidx sa i ++ j)) (B.get (bidx sb i ++ j)) := by
  have hb := bcast_append sa sb t t rfl
  rw [bcast_self] at hb
  cases h : bcast sa sb with
  | none =>
    rw [h] at hb
    simp [Arr.map2, hA, hB, hb]
  | some out =>
    rw [h] at hb
    simp only [] at hb
    refine ⟨⟨out ++ t, fun i => f (A.get (bidx A.shape i)) (B.get (bidx B.shape i))⟩, ?_, rfl, ?_⟩
    · simp [Arr.map2, hA, hB, hb]
    · intro i j hv hl
      simp only [hA, hB]
      rw [bidx_append _ _ _ _ hl, bidx_append _ _ _ _ hl, bidx_self hv]

/-- **value_ref, scaling / division by a scalar without denominators** (`_mul_by_scalar`, `_div_by_scalar`,
    `_floordiv_by_scalar`, `_mod_by_scalar`): X has shape `sx ++ n` (item `n`), S one number per leading index
    (shape `ss`), reshaped by the code to `ss ++ (1,)*|n|`.  Full NumPy broadcasting of `sx ++ n` against
    `ss ++ 1…1` exists iff the leading shapes broadcast, and the element at `(i, j)` is `f X[bidx sx i, j] S[bidx ss i]`:
    the item index never reaches S, whatever the axis lengths (e.g. vector length = leading axis length). -/
theorem value_ref_scalar (f : Int → Int → Int) (X S : Arr Int) (sx ss n : Shape)
    (hX : X.shape = sx ++ n) (hS : S.shape = ss) :
    match bcast sx ss with
    | none => Arr.map2 f X (insArr S ss.length n.length) = none
    | some out => ∃ v, Arr.map2 f X (insArr S ss.length n.length) = some v ∧ v.shape = out ++ n ∧
        ∀ i j, Valid n j → j.length = n.length → ss.length ≤ i.length →
          v.get (i ++ j) = f (X.get (bidx sx i ++ j)) (S.get (bidx ss i)) := by
  have hb := bcast_append sx ss n (List.replicate n.length 1) (by simp)
  rw [bcast_ones_right] at hb
  have hsh : (insArr S ss.length n.length).shape = ss ++ List.replicate n.length 1 := by
    simp [insArr, hS, insOnes]
  cases h : bcast sx ss with
  | none =>
    rw [h] at hb
    simp [Arr.map2, hX, hsh, hb]
  | some out =>
    rw [h] at hb
    simp only [] at hb
    refine ⟨⟨out ++ n, fun i => f (X.get (bidx X.shape i))
      ((insArr S ss.length n.length).get (bidx (insArr S ss.length n.length).shape i))⟩, ?_, rfl, ?_⟩
    · simp [Arr.map2, hX, hsh, hb]
    · intro i j hv hl hi
      simp only [hX, hsh]
      rw [bidx_append _ _ _ _ hl, bidx_self hv, align_lemma _ _ _ _ hl]
      have hlen : (bidx ss i).length = ss.length := bidx_length_of_le ss i hi
      simp only [insArr]
      congr 2
      have := take_drop_mid (bidx ss i) (List.replicate n.length 0) [] ss.length n.length hlen.symm (by simp)
      simpa using this

/-- **value_ref, scalar with a denominator** (`_mul_by_scalar` when `arg._drank_ > 0`): X (shape `sx ++ n`, no
    denominator) is reshaped to `sx ++ n ++ (1,)*|d|`, S (shape `ss ++ d`) to `ss ++ (1,)*|n| ++ d`.  The result has
    item shape `n ++ d`, and element `(i, jn, jd)` is `f X[bidx sx i, jn] S[bidx ss i, jd]`. -/
theorem value_ref_scalar_denom (f : Int → Int → Int) (X S : Arr Int) (sx ss n d : Shape)
    (hX : X.shape = sx ++ n) (hS : S.shape = ss ++ d) :
    match bcast sx ss with
    | none => Arr.map2 f (insArr X (sx.length + n.length) d.length) (insArr S ss.length n.length) = none
    | some out => ∃ v, Arr.map2 f (insArr X (sx.length + n.length) d.length) (insArr S ss.length n.length) = some v ∧
        v.shape = out ++ (n ++ d) ∧
        ∀ i jn jd, Valid n jn → jn.length = n.length → Valid d jd → jd.length = d.length →
          ss.length ≤ i.length → sx.length ≤ i.length →
          v.get (i ++ (jn ++ jd)) = f (X.get (bidx sx i ++ jn)) (S.get (bidx ss i ++ jd)) := by
  have hshX : (insArr X (sx.length + n.length) d.length).shape = sx ++ (n ++ List.replicate d.length 1) := by
    simp only [insArr, hX]
    rw [← List.length_append, insOnes_end, List.append_assoc]
  have hshS : (insArr S ss.length n.length).shape = ss ++ (List.replicate n.length 1 ++ d) := by
    simp [insArr, hS, insOnes]
  have hitem : bcast (n ++ List.replicate d.length 1) (List.replicate n.length 1 ++ d) = some (n ++ d) := by
    have := bcast_append n (List.replicate n.length 1) (List.replicate d.length 1) d (by simp)
    rw [bcast_ones_right, bcast_ones_left] at this
    exact this
  have hb := bcast_append sx ss (n ++ List.replicate d.length 1) (List.replicate n.length 1 ++ d)
    (by simp only [List.length_append, List.length_replicate])
  rw [hitem] at hb
  cases h : bcast sx ss with
  | none =>
    rw [h] at hb
    simp [Arr.map2, hshX, hshS, hb]
  | some out =>
    rw [h] at hb
    simp only [] at hb
    refine ⟨⟨out ++ (n ++ d), fun i =>
      f ((insArr X (sx.length + n.length) d.length).get (bidx (insArr X (sx.length + n.length) d.length).shape i))
        ((insArr S ss.length n.length).get (bidx (insArr S ss.length n.length).shape i))⟩, ?_, rfl, ?_⟩
    · simp [Arr.map2, hshX, hshS, hb]
    · intro i jn jd hvn hln hvd hld his hix
      simp only [hshX, hshS]
      have hl : (jn ++ jd).length = (n ++ List.replicate d.length 1).length := by
        simp only [List.length_append, List.length_replicate]; omega
      have hl' : (jn ++ jd).length = (List.replicate n.length 1 ++ d).length := by
        simp only [List.length_append, List.length_replicate]; omega
      rw [bidx_append _ _ _ _ hl, bidx_append _ _ _ _ hl']
      rw [bidx_append n _ jn jd (by simpa using hld), bidx_self hvn, bidx_ones _ _ hld]
      rw [bidx_append _ d jn jd hld, bidx_ones _ _ hln, bidx_self hvd]
      have hlenS : (bidx ss i).length = ss.length := bidx_length_of_le ss i his
      have hlenX : (bidx sx i).length = sx.length := bidx_length_of_le sx i hix
      simp only [insArr]
      congr 2
      · -- X: drop the trailing unit entries
        have := take_drop_mid (bidx sx i ++ jn) (List.replicate d.length 0) [] (sx.length + n.length) d.length
          (by simp only [List.length_append]; omega) (by simp)
        simpa using this
      · -- S: drop the |n| unit entries between the leading index and the denominator index
        have := take_drop_mid (bidx ss i) (List.replicate n.length 0) jd ss.length n.length hlenS.symm (by simp)
        simpa using this

/-- **item_never_broadcasts**: with the code's alignment an item axis of X and a leading axis of S never meet, even
    when their lengths agree: S of leading shape `[k]` against X of leading shape `[]` and item `[k]` gives leading
    shape `[k]` and item `[k]` (a `k × k` table of products), not `k` products. -/
theorem item_never_broadcasts (f : Int → Int → Int) (X S : Arr Int) (k : Nat)
    (hX : X.shape = [] ++ [k]) (hS : S.shape = [k]) :
    ∃ v, Arr.map2 f X (insArr S 1 1) = some v ∧ v.shape = [k] ++ [k] ∧
      ∀ a b, b < k → v.get ([a] ++ [b]) = f (X.get [b]) (S.get (bidx [k] [a])) := by
  have h := value_ref_scalar f X S [] [k] [k] hX hS
  rw [bcast_nil_left] at h
  obtain ⟨v, h1, h2, h3⟩ := h
  refine ⟨v, h1, h2, fun a b hb => ?_⟩
  have := h3 [a] [b] (by simp [Valid, hb]) rfl (by simp)
  simpa [bidx_nil] using this

example : (Arr.map2 (· * ·) (⟨[3], fun i => (i.headD 0 : Int) + 1⟩ : Arr Int)
    (insArr ⟨[3], fun i => 10 * ((i.headD 0 : Int) + 1)⟩ 1 1)).map Arr.toList
    = some [10, 20, 30, 20, 40, 60, 30, 60, 90] := by decide

/-! ### reject_iff at the level of the value computation: NumPy fails exactly when the LEADING shapes are incompatible -/

theorem reject_iff_same_item (f : Int → Int → Int) (A B : Arr Int) (sa sb t : Shape)
    (hA : A.shape = sa ++ t) (hB : B.shape = sb ++ t) :
    Arr.map2 f A B = none ↔ bcast sa sb = none := by
  have := value_ref_same_item f A B sa sb t hA hB
  cases h : bcast sa sb with
  | none => rw [h] at this; simp [this]
  | some out => rw [h] at this; obtain ⟨v, hv, -⟩ := this; simp [hv]

theorem reject_iff_scalar (f : Int → Int → Int) (X S : Arr Int) (sx ss n : Shape)
    (hX : X.shape = sx ++ n) (hS : S.shape = ss) :
    Arr.map2 f X (insArr S ss.length n.length) = none ↔ bcast sx ss = none := by
  have := value_ref_scalar f X S sx ss n hX hS
  cases h : bcast sx ss with
  | none => rw [h] at this; simp [this]
  | some out => rw [h] at this; obtain ⟨v, hv, -⟩ := this; simp [hv]

/-! ### dispatch level: shape_rule, class_rule, kind_rule, reject_iff for the code-shaped paths -/

/-- what `finish` (the constructor call that ends every operator) can do: fail with TypeError exactly when a Units
    object is handed to a class that cannot hold units, otherwise build the result of the class's suitable dtype -/
theorem finish_spec (c : Cls) (k : Kind) (l n d : Shape) (u : Bool) (p : Plan) :
    finish c k l n d u p =
      if u && !c.unitsOk then .error .typeError
      else .ok { cls := c, kind := suitableDtype c k, lead := l, numer := n, denom := d, plan := p } := by
  unfold finish; split <;> rfl

example : mulByScalar ⟨.qube, .vector, .float, [2], [3], [], none⟩ ⟨.qube, .scalar, .int, [3, 1], [], [], none⟩ false
    = .ok ⟨.vector, .float, [3, 2], [3], [], .ew false 2 0 2 1⟩ := rfl

/-- **class_rule / kind_rule for the number fast paths** -/
theorem mulByNumber_rule (x n : Desc) (swap : Bool) :
    (mulByNumber x n swap).cls = x.cls ∧ (mulByNumber x n swap).lead = x.shape ∧
    (mulByNumber x n swap).numer = x.numer ∧ (mulByNumber x n swap).kind = promote x.kind n.kind := by
  simp [mulByNumber]

/-- **kind_rule**: int ∘ int stays int for `+ - * // %`; any float operand gives float; bool counts as int next to an int -/
theorem kind_rule_promote :
    promote .int .int = .int ∧ promote .bool .int = .int ∧ promote .int .bool = .int ∧
    (∀ k, promote .float k = .float) ∧ (∀ k, promote k .float = .float) := by
  refine ⟨rfl, rfl, rfl, fun k => by cases k <;> rfl, fun k => by cases k <;> rfl⟩

/-- **kind_rule**: float-only classes hold floats whatever the kind of the computed values; classes that admit ints
    keep ints; Boolean holds bools -/
theorem kind_rule_class (k : Kind) :
    suitableDtype .vector3 k = .float ∧ suitableDtype .matrix k = .float ∧ suitableDtype .matrix3 k = .float ∧
    suitableDtype .quaternion k = .float ∧ suitableDtype .boolean k = .bool ∧
    suitableDtype .scalar .int = .int ∧ suitableDtype .vector .int = .int ∧ suitableDtype .pair .int = .int ∧
    suitableDtype .scalar .bool = .int := by
  cases k <;> decide

/-- **kind_rule**: true division by a scalar always yields the class's float kind; `//` and `%` keep `promote` -/
theorem divByScalar_kind (isTrue : Bool) (x s : Desc) (r : Res) (h : divByScalar isTrue x s = .ok r) :
    r.cls = x.cls ∧ r.numer = x.numer ∧ r.denom = x.denom ∧
    r.kind = suitableDtype x.cls (if isTrue then .float else promote x.kind s.kind) := by
  unfold divByScalar at h
  simp only [finish_spec] at h
  split at h
  · cases h
  · split at h
    · cases h
    · cases h; cases isTrue <;> simp

example : addSub ⟨.qube, .vector, .int, [3], [3], [], none⟩ ⟨.qube, .vector3, .float, [2, 1], [3], [], none⟩
    = .ok ⟨.vector, .float, [2, 3], [3], [], .ew false 0 0 0 0⟩ := rfl

/-- **reject_iff (error classes)**: whatever the operands, `_raise_unsupported_op` yields ValueError or TypeError -/
theorem rej_cases (r : Rej) : r = .valueError ∨ r = .typeError := by cases r <;> simp

/-- **class_rule, matrix path**: "applying a matrix to a vector X gives an X" — the result class of
    `Qube.dot(M, X, -1, 0, (type(X), type(M)))` is X's class whenever X's class admits the resulting numerator -/
theorem castFirst_head (c : Cls) (rest : List Cls) (numer : Shape)
    (h1 : c.fixedNumer = none ∨ c.fixedNumer = some numer) (h2 : c.nrank = none ∨ c.nrank = some numer.length) :
    castFirst (c :: rest) numer = c := by
  unfold castFirst
  rcases h1 with h1 | h1 <;> rcases h2 with h2 | h2 <;> simp [h1, h2]

example : dotPath ⟨.qube, .matrix, .float, [2], [2, 3], [], none⟩ ⟨.qube, .vector, .int, [], [3], [], none⟩
    = .ok ⟨.vector, .float, [2], [2], [], .dot⟩ := rfl
example : dotPath ⟨.qube, .matrix3, .float, [], [3, 3], [], none⟩ ⟨.qube, .vector3, .float, [4], [3], [], none⟩
    = .ok ⟨.vector3, .float, [4], [3], [], .dot⟩ := rfl

/-! ### reflected_eq_direct -/

/-- `__radd__` is `__add__` -/
theorem reflected_add_eq_direct (self arg : Desc) :
    reflected .add self arg = direct .add self arg false := rfl

/-- number * X (`__rmul__`) and X * number (`__mul__`) give the same class, kind and shapes -/
theorem reflected_mul_number (self n : Desc) (hn : n.isNum = true) (hm : self.cls ≠ .matrix3) :
    ∃ r r', reflected .mul self n = some (.ok r) ∧ direct .mul self n false = some (.ok r') ∧
      r.cls = r'.cls ∧ r.kind = r'.kind ∧ r.lead = r'.lead ∧ r.numer = r'.numer ∧ r.denom = r'.denom := by
  refine ⟨mulByNumber self n true, mulByNumber self n false, ?_, ?_, rfl, rfl, rfl, rfl, rfl⟩
  · simp [reflected, qrmul, hn]; rfl
  · simp [direct, hm, qmul, hn]; rfl

/-- array-like * X (`X.__rmul__(arr)`) against the direct form `Scalar(arr) * X` (`Scalar.__mul__` → swap-and-retry →
    `X._mul_by_scalar(Scalar(arr))`): whenever both are accepted the results coincide -/
theorem reflected_mul_eq_direct (self arg sc : Desc) (hraw : arg.isQ = false) (hnn : arg.isNum = false)
    (hsc : asScalar arg = .ok sc) (hscq : sc.isQ = true) (hscn : sc.isNum = false) (hscb : sc.cls = .scalar)
    (hs0 : sc.nrankV = 0) (hsd : sc.drank = 0)
    (hq : self.isQ = true) (hb : self.cls ≠ .boolean) (hn : self.nrankV ≠ 0) (r r' : Res)
    (h1 : reflected .mul self arg = some (.ok r)) (h2 : direct .mul sc self false = some (.ok r')) : r = r' := by
  have hsc' : asScalar sc = .ok sc := by simp [asScalar, hscq, hscb]; rfl
  have hself : asScalar self = .ok self := by
    simp only [asScalar, hq, if_true]; split
    · rename_i h; simp at h; exact absurd h hb
    · rfl
  simp only [reflected, qrmul, hnn, hsc] at h1
  simp only [direct, hscb] at h2
  have hnum : self.isNum = false := by
    simp [Desc.isNum]; simp [Desc.isQ] at hq; simp [hq]
  simp only [qmul, hnum, hself, hsd] at h2
  simp at h1 h2
  cases hm : mulByScalar self sc true with
  | error e => simp [hm, bind, Except.bind] at h1
  | ok v =>
    simp [hm, bind, Except.bind, pure, Except.pure] at h1
    simp [hn, hs0, hm, bind, Except.bind, pure, Except.pure] at h2
    rw [← h1, ← h2]

/-- `raw - q` (`__rsub__`) IS the direct form: the raw operand converted to `q`'s class by `as_this_type`, minus `q` -/
theorem reflected_sub_eq_direct (q r c : Desc) (h : asThisType q r = .ok c) :
    reflected .sub q r = direct .sub c q false := by
  simp [reflected, direct, h, bind, Except.bind]

/-- `raw / q`, `raw // q`, `raw % q` for an array-like (or, for `//` and `%`, any) raw operand: the reflected method
    accepts exactly when the direct form `Scalar(raw) op q` accepts, with the identical result (class, kind, shapes, plan) -/
theorem reflected_divlike_eq_direct (op : OpSym) (hop : op = .div ∨ op = .floordiv ∨ op = .mod) (q r : Desc)
    (hq : q.isQ = true) (hw : WF q) (hr : r.isQ = false) (hnum : ¬ (op = .div ∧ r.isNum = true)) (x : Res) :
    reflected op q r = some (.ok x) ↔ direct op (readScalar r) q false = some (.ok x) := by
  have hqn : q.isNum = false := isNum_of_isQ hq
  obtain ⟨f1, f2, f3, f4, f5, f6⟩ := readScalar_raw_fields r hr
  have hAm : isMatrix (readScalar r) = false := by simp [isMatrix, f4]
  rcases hop with rfl | rfl | rfl
  · have hn : r.isNum = false := by
      cases h : r.isNum with
      | false => rfl
      | true => exact absurd ⟨rfl, h⟩ hnum
    simp only [reflected, qrdiv, direct, bne_self_eq_false, Bool.false_and, Bool.false_eq_true, if_false,
      beq_self_eq_true, Bool.true_and, hn, asScalar_raw r hr, if_true]
    cases qdiv (readScalar r) q false with
    | none => simp
    | some y => cases y <;> simp [pure, Except.pure, throw, throwThe, MonadExceptOf.throw]
  · simp only [reflected, qrdiv, direct]
    by_cases hm : isMatrix q = true
    · -- Matrix overrides: both forms raise
      have hqn0 := isMatrix_numer q hw hq hm
      have hnb : q.cls ≠ .boolean := by
        intro h; simp [isMatrix, h] at hm
      have hnr : (q.nrankV == 0) = false := by
        cases h : (q.nrankV == 0) with
        | false => rfl
        | true => exact absurd ((nrankV_eq q).1 h) hqn0
      simp [hm, qfloorMod, hAm, hqn, asScalar_qube q hq hnb, hnr, bind, Except.bind, throw, throwThe,
        MonadExceptOf.throw, pure, Except.pure]
      split <;> simp
    · have hm' : isMatrix q = false := by simpa using hm
      simp only [hm', Bool.and_false, Bool.false_eq_true, if_false, asScalar_raw r hr, Bool.false_and]
      have : (OpSym.floordiv == OpSym.div) = false := by decide
      simp only [this, Bool.false_eq_true, if_false]
      have e0 : (OpSym.floordiv == OpSym.mod) = false := by decide
      rw [e0]
      cases hqf : qfloorMod false (readScalar r) q false with
      | ok y => simp [pure, Except.pure]
      | error e => simp [throw, throwThe, MonadExceptOf.throw]
  · simp only [reflected, qrdiv, direct]
    by_cases hm : isMatrix q = true
    · have hqn0 := isMatrix_numer q hw hq hm
      have hnb : q.cls ≠ .boolean := by
        intro h; simp [isMatrix, h] at hm
      have hnr : (q.nrankV == 0) = false := by
        cases h : (q.nrankV == 0) with
        | false => rfl
        | true => exact absurd ((nrankV_eq q).1 h) hqn0
      simp [hm, qfloorMod, hAm, hqn, asScalar_qube q hq hnb, hnr, bind, Except.bind, throw, throwThe,
        MonadExceptOf.throw, pure, Except.pure]
      split <;> simp
    · have hm' : isMatrix q = false := by simpa using hm
      simp only [hm', Bool.and_false, Bool.false_eq_true, if_false, asScalar_raw r hr, Bool.false_and]
      have : (OpSym.mod == OpSym.div) = false := by decide
      simp only [this, Bool.false_eq_true, if_false]
      have e0 : (OpSym.mod == OpSym.mod) = true := by decide
      rw [e0]
      cases hqf : qfloorMod true (readScalar r) q false with
      | ok y => simp [pure, Except.pure]
      | error e => simp [throw, throwThe, MonadExceptOf.throw]

/-- `number / Scalar` (`__rtruediv__` = `self.reciprocal() * number`) against the direct form `Scalar(number) / Scalar`:
    whenever both are accepted the class, kind and shapes coincide -/
theorem reflected_div_number (q n : Desc) (hq : q.isQ = true) (hs : q.cls = .scalar) (hn : n.isNum = true)
    (hnq : n.isQ = false) (r r' : Res) (h1 : reflected .div q n = some (.ok r))
    (h2 : direct .div (readScalar n) q false = some (.ok r')) (hsh : n.shape = []) :
    r.shp = r'.shp ∧ r.kind = r'.kind := by
  have hqn : q.isNum = false := isNum_of_isQ hq
  have hqb : q.cls ≠ .boolean := by rw [hs]; decide
  obtain ⟨f1, f2, f3, f4, f5, f6⟩ := readScalar_raw_fields n hnq
  simp only [reflected, qrdiv, bne_self_eq_false, Bool.false_and, Bool.false_eq_true, if_false, beq_self_eq_true,
    hn, Bool.and_self, if_true, hs] at h1
  by_cases hr0 : q.rank = 0
  · simp only [hr0, bne_self_eq_false, Bool.false_eq_true, if_false, pure, Except.pure, Option.some.injEq,
      Except.ok.injEq] at h1
    have h0 : q.numer.length + q.denom.length = 0 := hr0
    have hqn0 : q.numer = [] := List.eq_nil_of_length_eq_zero (by omega)
    have hqd0 : q.denom = [] := List.eq_nil_of_length_eq_zero (by omega)
    simp only [direct, qdiv, hqn, Bool.false_eq_true, if_false, asScalar_qube q hq hqb] at h2
    have hd : ¬ q.drank > 0 := by simp [Desc.drank, hqd0]
    have hnr : (q.nrankV == 0) = true := (nrankV_eq q).2 hqn0
    simp only [hd, if_false, hnr, if_true] at h2
    rw [divByScalar_rule true (readScalar n) q hqn0 hqd0, f3, hsh, bcast_nil_left] at h2
    simp only [f4, Cls.unitsOk, Bool.not_true, Bool.and_false, Bool.false_eq_true, if_false, pure, Except.pure,
      Option.some.injEq, Except.ok.injEq] at h2
    subst h1 h2
    simp [Res.shp, f1, f2, suitableDtype, Cls.floatsOk]
  · have : (q.rank != 0) = true := by simp [hr0]
    simp [this, throw, throwThe, MonadExceptOf.throw] at h1

/-! ### value_ref for the code-shaped functions, every alignment branch (reshape done or skipped for shape `()`) -/
theorem insArr_zero (A : Arr Int) (p : Nat) : insArr A p 0 = A := by
  cases A with
  | mk sh g => simp [insArr, insOnes]

/-- a 0-d right operand (Python scalar / shape `()`): no reshape, NumPy broadcasts it to every element -/
theorem map2_scalar0_right (f : Int → Int → Int) (X S : Arr Int) (hS : S.shape = []) :
    ∃ v, Arr.map2 f X S = some v ∧ v.shape = X.shape ∧ ∀ i, v.get i = f (X.get (bidx X.shape i)) (S.get []) := by
  refine ⟨⟨X.shape, fun i => f (X.get (bidx X.shape i)) (S.get (bidx S.shape i))⟩, ?_, rfl, ?_⟩
  · simp [Arr.map2, hS, bcast_nil_right]
  · intro i; simp [hS, bidx_nil]

theorem map2_scalar0_left (f : Int → Int → Int) (X S : Arr Int) (hX : X.shape = []) :
    ∃ v, Arr.map2 f X S = some v ∧ v.shape = S.shape ∧ ∀ i, v.get i = f (X.get []) (S.get (bidx S.shape i)) := by
  refine ⟨⟨S.shape, fun i => f (X.get (bidx X.shape i)) (S.get (bidx S.shape i))⟩, ?_, rfl, ?_⟩
  · simp [Arr.map2, hX, bcast_nil_left]
  · intro i; simp [hX, bidx_nil]


/-- **value_ref at the level of `_mul_by_scalar` (every alignment branch).** With the plan that `mulByScalar` hands to the
    driver, the values NumPy computes are, at leading index `i`, numerator index `jn` and denominator index `jd`,
    `X[bidx sx i, jn, jd restricted to X's denominator] * S[bidx ss i, jd restricted to S's denominator]`. -/
theorem mulByScalar_value (x s : Desc) (hs : s.numer = []) (hd : x.denom = [] ∨ s.denom = []) (X S : Arr Int)
    (hX : X.shape = x.full) (hS : S.shape = s.full) (out : Shape) (hb : bcast x.shape s.shape = some out) :
    ∃ v, ewValues .mul x.full.length (if s.drank > 0 && x.full != [] then s.drank else 0)
            s.shape.length (if s.full != [] then x.rank else 0) X S = some v ∧
      v.shape = out ++ (x.numer ++ (x.denom ++ s.denom)) ∧
      ∀ i jn jd, i.length = out.length → Valid x.numer jn → Valid (x.denom ++ s.denom) jd →
        v.get (i ++ (jn ++ jd)) =
          X.get (bidx x.shape i ++ (jn ++ jd.take x.denom.length)) * S.get (bidx s.shape i ++ jd.drop x.denom.length) := by
  have hsf : s.full = s.shape ++ s.denom := by simp [Desc.full, hs]
  have hlen := bcast_length hb
  unfold ewValues
  by_cases hsd : s.denom = []
  · -- S has no denominator: X is not reshaped
    have h0 : (if s.drank > 0 && x.full != [] then s.drank else 0) = 0 := by simp [Desc.drank, hsd]
    rw [h0, insArr_zero]
    have hsf' : s.full = s.shape := by simp [hsf, hsd]
    have hxf : x.full = x.shape ++ (x.numer ++ x.denom) := by simp [Desc.full]
    by_cases hss : s.shape = []
    · have : (if s.full != [] then x.rank else 0) = 0 := by simp [hsf', hss]
      rw [this, insArr_zero]
      obtain ⟨v, hv, hsh, hg⟩ := map2_scalar0_right (elemFn .mul) X S (by rw [hS, hsf', hss])
      have hout : out = x.shape := by
        rw [hss, bcast_nil_right] at hb; exact (Option.some.inj hb).symm
      refine ⟨v, hv, by rw [hsh, hX, hxf, hout, hsd]; simp, ?_⟩
      intro i jn jd hi vn vd
      rw [hsd, List.append_nil] at vd
      have hjd : jd.length = x.denom.length := valid_length vd
      rw [hg, hX, hxf, bidx_append _ _ _ _ (by simp [valid_length vn, hjd]),
        bidx_self ((valid_append (valid_length vn)).2 ⟨vn, vd⟩), hss, bidx_nil]
      simp [elemFn, ← hjd]
    · have : (if s.full != [] then x.rank else 0) = x.rank := by simp [hsf', hss]
      rw [this]
      have hr : x.rank = (x.numer ++ x.denom).length := by simp [Desc.rank]
      have h := value_ref_scalar (elemFn .mul) X S x.shape s.shape (x.numer ++ x.denom) (by rw [hX, hxf])
        (by rw [hS, hsf'])
      rw [hb] at h
      obtain ⟨v, hv, hsh, hg⟩ := h
      rw [hr]
      refine ⟨v, hv, by rw [hsh, hsd]; simp, ?_⟩
      intro i jn jd hi vn vd
      rw [hsd, List.append_nil] at vd
      have hjd : jd.length = x.denom.length := valid_length vd
      have := hg i (jn ++ jd) ((valid_append (valid_length vn)).2 ⟨vn, vd⟩) (by simp [valid_length vn, hjd])
        (by rw [hi, hlen]; omega)
      rw [this]
      simp [elemFn, ← hjd]
  · -- S carries the denominator, X has none
    have hxd : x.denom = [] := by rcases hd with h | h; exact h; exact absurd h hsd
    have hxf : x.full = x.shape ++ x.numer := by simp [Desc.full, hxd]
    have hsne : (if s.full != [] then x.rank else 0) = x.numer.length := by
      have : s.full ≠ [] := by rw [hsf]; simp [hsd]
      simp [this, Desc.rank, hxd]
    rw [hsne]
    by_cases hxe : x.full = []
    · have h0 : (if s.drank > 0 && x.full != [] then s.drank else 0) = 0 := by simp [hxe]
      have hsh0 : x.shape = [] := by rw [hxf] at hxe; exact (List.append_eq_nil_iff.mp hxe).1
      have hnu : x.numer = [] := by rw [hxf] at hxe; exact (List.append_eq_nil_iff.mp hxe).2
      rw [h0, insArr_zero, hnu]
      simp only [List.length_nil]
      rw [insArr_zero]
      obtain ⟨v, hv, hsh, hg⟩ := map2_scalar0_left (elemFn .mul) X S (by rw [hX, hxe])
      have hout : out = s.shape := by
        rw [hsh0, bcast_nil_left] at hb; exact (Option.some.inj hb).symm
      refine ⟨v, hv, by rw [hsh, hS, hsf, hout, hxd]; simp, ?_⟩
      intro i jn jd hi vn vd
      rw [hxd, List.nil_append] at vd
      have hjn : jn = [] := List.eq_nil_of_length_eq_zero (by simpa using valid_length vn)
      rw [hg, hS, hsf, hjn, List.nil_append, bidx_append _ _ _ _ (valid_length vd), bidx_self vd, hsh0, bidx_nil,
        hxd]
      simp [elemFn]
    · have h1 : (if s.drank > 0 && x.full != [] then s.drank else 0) = s.denom.length := by
        have : s.denom.length > 0 := List.length_pos_iff.mpr hsd
        simp [Desc.drank, hxe, this]
      rw [h1]
      have h := value_ref_scalar_denom (elemFn .mul) X S x.shape s.shape x.numer s.denom (by rw [hX, hxf])
        (by rw [hS, hsf])
      rw [hb] at h
      obtain ⟨v, hv, hsh, hg⟩ := h
      have hpx : x.full.length = x.shape.length + x.numer.length := by rw [hxf]; simp
      rw [hpx]
      refine ⟨v, hv, by rw [hsh, hxd]; simp, ?_⟩
      intro i jn jd hi vn vd
      rw [hxd, List.nil_append] at vd
      have := hg i jn jd vn (valid_length vn) vd (valid_length vd) (by rw [hi, hlen]; omega) (by rw [hi, hlen]; omega)
      rw [this, hxd]
      simp [elemFn]

/-- **value_ref at the level of `_div_by_scalar` / `_floordiv_by_scalar` / `_mod_by_scalar` (every alignment branch).** -/
theorem divByScalar_value (op : OpSym) (x s : Desc) (hs : s.numer = []) (hsd : s.denom = []) (X S : Arr Int)
    (hX : X.shape = x.full) (hS : S.shape = s.full) (out : Shape) (hb : bcast x.shape s.shape = some out) :
    ∃ v, ewValues op 0 0 s.shape.length (if s.full != [] && x.rank != 0 then x.rank else 0) X S = some v ∧
      v.shape = out ++ (x.numer ++ x.denom) ∧
      ∀ i j, i.length = out.length → Valid (x.numer ++ x.denom) j →
        v.get (i ++ j) = elemFn op (X.get (bidx x.shape i ++ j)) (S.get (bidx s.shape i)) := by
  have hsf : s.full = s.shape := by simp [Desc.full, hs, hsd]
  have hxf : x.full = x.shape ++ (x.numer ++ x.denom) := by simp [Desc.full]
  have hr : x.rank = (x.numer ++ x.denom).length := by simp [Desc.rank]
  have hlen := bcast_length hb
  unfold ewValues
  rw [insArr_zero]
  by_cases hskip : s.shape = [] ∨ x.rank = 0
  · have : (if s.full != [] && x.rank != 0 then x.rank else 0) = 0 := by
      rcases hskip with h | h
      · simp [hsf, h]
      · simp [h]
    rw [this, insArr_zero]
    rcases hskip with hss | hx0
    · obtain ⟨v, hv, hsh, hg⟩ := map2_scalar0_right (elemFn op) X S (by rw [hS, hsf, hss])
      have hout : out = x.shape := by
        rw [hss, bcast_nil_right] at hb; exact (Option.some.inj hb).symm
      refine ⟨v, hv, by rw [hsh, hX, hxf, hout], ?_⟩
      intro i j hi vj
      rw [hg, hX, hxf, bidx_append _ _ _ _ (valid_length vj), bidx_self vj, hss, bidx_nil]
    · have hi0 : x.numer ++ x.denom = [] := List.eq_nil_of_length_eq_zero (by rw [← hr]; exact hx0)
      have h := value_ref_same_item (elemFn op) X S x.shape s.shape [] (by rw [hX, hxf, hi0]) (by rw [hS, hsf]; simp)
      rw [hb] at h
      obtain ⟨v, hv, hsh, hg⟩ := h
      refine ⟨v, hv, by rw [hsh, hi0], ?_⟩
      intro i j hi vj
      rw [hi0] at vj
      have hj : j = [] := List.eq_nil_of_length_eq_zero (by simpa using valid_length vj)
      subst hj
      have := hg i [] (by simp [Valid]) rfl
      simpa using this
  · have hss : s.shape ≠ [] := fun h => hskip (Or.inl h)
    have hx0 : x.rank ≠ 0 := fun h => hskip (Or.inr h)
    have : (if s.full != [] && x.rank != 0 then x.rank else 0) = x.rank := by simp [hsf, hss, hx0]
    rw [this, hr]
    have h := value_ref_scalar (elemFn op) X S x.shape s.shape (x.numer ++ x.denom) (by rw [hX, hxf]) (by rw [hS, hsf])
    rw [hb] at h
    obtain ⟨v, hv, hsh, hg⟩ := h
    refine ⟨v, hv, hsh, ?_⟩
    intro i j hi vj
    exact hg i j vj (valid_length vj) (by rw [hi, hlen]; omega)

/-- **value_ref at the level of `__add__` / `__sub__`** (operands that passed the numerator / denominator checks) -/
theorem addCore_value (op : OpSym) (a b : Desc) (hn : a.numer = b.numer) (hd : a.denom = b.denom) (A B : Arr Int)
    (hA : A.shape = a.full) (hB : B.shape = b.full) (out : Shape) (hb : bcast a.shape b.shape = some out) :
    ∃ v, ewValues op 0 0 0 0 A B = some v ∧ v.shape = out ++ (a.numer ++ a.denom) ∧
      ∀ i j, Valid (a.numer ++ a.denom) j →
        v.get (i ++ j) = elemFn op (A.get (bidx a.shape i ++ j)) (B.get (bidx b.shape i ++ j)) := by
  unfold ewValues
  rw [insArr_zero, insArr_zero]
  have h := value_ref_same_item (elemFn op) A B a.shape b.shape (a.numer ++ a.denom)
    (by rw [hA]; simp [Desc.full]) (by rw [hB]; simp [Desc.full, hn, hd])
  rw [hb] at h
  obtain ⟨v, hv, hsh, hg⟩ := h
  exact ⟨v, hv, hsh, fun i j vj => hg i j vj (valid_length vj)⟩

/-! ### `**` and the Scalar math functions: class, kind, shape, rejection -/

/-- **pow rule.** `Scalar ** e` for a unit-less Scalar base without denominator and an exponent that is a rank-0 unit-less
    Scalar object: ValueError iff the LEADING shapes do not broadcast; otherwise a Scalar of the broadcast shape whose
    kind is float when an integer exponent has a negative value at an unmasked position (`negInt`), else the promoted kind
    (int ** int stays int; numbers hidden under the exponent's mask have no say). -/
theorem powDispatch_rule (a b : Desc) (negInt : Bool) (ha : a.isQ = true) (hc : a.cls = .scalar)
    (hu : a.units = none) (hd : a.denom = []) (hb : b.isQ = true) (hbc : b.cls = .scalar) (hbr : b.rank = 0)
    (hbu : unitsIsUnitless b.units = true) :
    powDispatch a b negInt = some (
      match bcast a.shape b.shape with
      | none => .error .valueError
      | some out => .ok { cls := .scalar,
                          kind := suitableDtype .scalar (if negInt then .float else promote a.kind b.kind),
                          lead := out, numer := [], denom := [], plan := .ew false 0 0 0 0 }) := by
  unfold powDispatch
  simp [ha, hc, hu, hd, hb, hbc, hbr, hbu, bind, Except.bind, pure, Except.pure]
  cases bcast a.shape b.shape <;> rfl

/-- **pow rejects** denominators on the base, and exponents that are not scalar-like -/
theorem powDispatch_rejects (a b : Desc) (negInt : Bool) (ha : a.isQ = true) (hc : a.cls = .scalar)
    (hu : a.units = none) :
    (a.denom ≠ [] → powDispatch a b negInt = some (.error .valueError)) ∧
    (a.denom = [] → b.isQ = true → b.cls = .scalar → b.rank ≠ 0 → powDispatch a b negInt = some (.error .valueError)) := by
  constructor
  · intro hd
    unfold powDispatch
    simp [ha, hc, hu, hd, bind, Except.bind, throw, throwThe, MonadExceptOf.throw]
  · intro hd hb hbc hbr
    unfold powDispatch
    simp [ha, hc, hu, hd, hb, hbc, hbr, bind, Except.bind, throw, throwThe, MonadExceptOf.throw]

/-- **math functions.** An accepted call returns a Scalar of the operand's leading shape; every function except `sign`
    returns floats and never accepts an operand with a denominator; `sign` keeps the kind and the denominator. -/
theorem mathFn_rule (f : MathFn) (a : Desc) (r : Res) (h : mathFn f a = some (.ok r)) :
    r.cls = .scalar ∧ r.lead = a.shape ∧ r.numer = [] ∧ r.denom = a.denom ∧
    (f ≠ .sign → r.kind = .float ∧ a.denom = []) ∧ (f = .sign → r.kind = a.kind) := by
  unfold mathFn at h
  split at h
  · cases h
  · cases f <;> simp only [] at h <;>
      (first
        | (split at h
           · cases h
           · simp only [Option.some.injEq, pure, Except.pure, Except.ok.injEq] at h
             subst h
             simp)
        | (simp only [Option.some.injEq] at h
           split at h
           · cases h
           · first
             | (split at h
                · cases h
                · simp only [pure, Except.pure, Except.ok.injEq] at h
                  rename_i hd _
                  subst h
                  simp at hd
                  simp [hd])
             | (simp only [pure, Except.pure, Except.ok.injEq] at h
                rename_i hd
                subst h
                simp at hd
                simp [hd])))

/-! ### in-place forms -/

/-- the condition under which the code rebinds a single Python value (recorded defect KF-C04-10) -/
def singleInt (a : Desc) : Bool := a.shape == [] && a.rank == 0 && a.kind == .int

-- FULL: the same statement with `(a.kind = .int → r.kind ≠ .float)` for EVERY target; false on the unrepaired tree for
-- single-valued integer targets (`inplace_counterexample`, KF-C04-10).
/-- **inplace_eq_direct (partial).** Whenever `a op= b` is accepted, the direct form `a op b` is accepted too, with the
    SAME plan (so every `value_ref` theorem applies), the result has the direct form's shapes and the target's class;
    and unless the target is a single-valued integer (KF-C04-10) the operand broadcasts INTO the target (result leading
    shape = target leading shape), the item shape is the target's and an integer target never ends up holding floats. -/
theorem rebindsSingle_singleInt (op : OpSym) (a b : Desc) (h : rebindsSingle op a b = true) : singleInt a = true := by
  unfold rebindsSingle at h
  simp only [Bool.and_eq_true] at h
  simp only [singleInt, Bool.and_eq_true]
  exact ⟨⟨h.1.1.1.1.1.1, h.1.1.1.1.1.2⟩, h.1.1.1.1.2⟩

theorem inplace_eq_direct_partial (op : OpSym) (a b : Desc) (zn : Bool) (r : Res)
    (h : inplace op a b zn = some (.ok r)) :
    ∃ r0, dispatch op a b zn = some (.ok r0) ∧ r.lead = r0.lead ∧ r.numer = r0.numer ∧ r.denom = r0.denom ∧
      r.cls = a.cls ∧ r.plan = r0.plan ∧ a.cls ≠ .boolean ∧
      (singleInt a = false → r.lead = a.shape ∧ r.numer = a.numer ∧ r.denom = a.denom ∧
        (a.kind = .int → r.kind ≠ .float)) := by
  unfold inplace at h
  cases hd : dispatch op a b zn with
  | none => rw [hd] at h; cases h
  | some x =>
    cases x with
    | error e => rw [hd] at h; simp at h
    | ok r0 =>
      rw [hd] at h
      simp only [] at h
      by_cases hR : (rebindsSingle op a b && a.cls != .boolean) = true
      · rw [if_pos hR] at h
        simp only [Option.some.injEq, Except.ok.injEq] at h
        subst h
        simp only [Bool.and_eq_true, bne_iff_ne, ne_eq] at hR
        refine ⟨r0, rfl, rfl, rfl, rfl, rfl, rfl, hR.2, ?_⟩
        intro hsi
        rw [rebindsSingle_singleInt op a b hR.1] at hsi
        cases hsi
      · rw [if_neg hR] at h
        by_cases hS : (storable a r0 && !inplaceLimited op a b zn) = true
        · rw [if_pos hS] at h
          simp only [Option.some.injEq, Except.ok.injEq] at h
          subst h
          simp only [storable, Bool.and_eq_true, beq_iff_eq, Bool.not_eq_true', bne_iff_ne, ne_eq] at hS
          obtain ⟨⟨⟨⟨⟨h1, h2⟩, h3⟩, h4⟩, h5⟩, _⟩ := hS
          refine ⟨r0, rfl, rfl, rfl, rfl, rfl, rfl, h5, ?_⟩
          intro _
          refine ⟨h1, h2, h3, ?_⟩
          intro hk hf
          have e : (Kind.int == Kind.float) = false := by decide
          simp only [hk, e, Bool.false_eq_true, if_false] at hf
          simp [hk, hf] at h4
        · rw [if_neg hS] at h
          simp at h

/-- **inplace_counterexample** (KF-C04-10, replayed on the real code: `a = Scalar(3); a += 0.5` gives `Scalar(3.5)`):
    an integer target holding a single value accepts a float number and ends up float. -/
theorem inplace_counterexample :
    ∃ r, inplace .add ⟨.qube, .scalar, .int, [], [], [], none⟩ ⟨.num, .qube, .float, [], [], [], none⟩ = some (.ok r) ∧
      r.kind = .float :=
  ⟨_, rfl, rfl⟩

/-- an in-place form is never accepted when the direct form is rejected -/
theorem inplace_rejects (op : OpSym) (a b : Desc) (zn : Bool) (e : Rej)
    (h : dispatch op a b zn = some (.error e)) : inplace op a b zn = some (.error e) := by
  simp [inplace, h]

/-! ### the whole operator table: dispatch = specification -/

/-- **dispatch_spec.** For every operator, every ordered pair of well-formed operands (polymath object of any class,
    Python number, ndarray, MaskedArray, nested list) and either form (direct / reflected, Boolean overrides included),
    the code-shaped `dispatch` — Python's method choice, conversions, the validations in the source's order, NumPy
    broadcasting of the ALIGNED FULL shapes, the constructor — agrees with the declarative `spec` (leading shapes
    only): outside the view ↔ `none`; rejected ↔ `some none`; accepted with class / leading shape / item shape `s`
    ↔ `some (some s)`. -/
theorem dispatch_spec (op : OpSym) (a b : Desc) (zn : Bool) (hwa : WF a) (hwb : WF b) :
    (dispatch op a b zn).map outcome = spec op a b := by
  unfold dispatch spec
  by_cases ha : a.isQ = true
  · simp only [ha, if_true, Bool.true_or]
    by_cases hab : a.cls = .boolean
    · -- Boolean.__op__: self.as_int() op arg
      have hna : normB a = asInt a := normB_bool a ha hab
      have hai : (asInt a).isQ = true := by rw [(asInt_fields a).1]; exact ha
      have hac : (asInt a).cls ≠ .matrix3 := by rw [(asInt_fields a).2.2.2.1]; decide
      simp only [hab, beq_self_eq_true, if_true, hna]
      show (direct op (asInt a) (normB b) zn).map outcome = _
      rw [direct_spec op (asInt a) (normB b) zn hai (WF_asInt a hwa ha hab) (WF_normB b hwb) (normB_nonbool b)]
      exact coreSpec_b0 op _ _ _ _ (Or.inl hac)
    · have hab' : (a.cls == Cls.boolean) = false := by simp [hab]
      have hna : normB a = a := normB_other a (fun h => hab h.2)
      simp only [hab', Bool.false_eq_true, if_false, hna]
      by_cases hbb : b.isQ = true ∧ b.cls = .boolean
      · have hnb : normB b = asInt b := normB_bool b hbb.1 hbb.2
        rw [hnb]
        by_cases hs : a.cls = .scalar
        · -- Boolean overrides every reflected method and is a subclass of Scalar: b.__rop__(a) runs first
          have hm3 : a.cls ≠ .matrix3 := by rw [hs]; decide
          simp only [hbb.1, hbb.2, hs, beq_self_eq_true, Bool.and_self, if_true]
          have hnbq : (asInt b).isQ = true → (asInt b).cls ≠ .boolean := by
            intro _; rw [(asInt_fields b).2.2.2.1]; decide
          rw [direct_spec op a (asInt b) zn ha hwa (WF_asInt b hwb hbb.1 hbb.2) hnbq]
          exact coreSpec_b0 op _ _ _ _ (Or.inl hm3)
        · have : (a.cls == Cls.scalar) = false := by simp [hs]
          simp only [this, Bool.and_false, Bool.false_eq_true, if_false]
          exact direct_bool op a b zn ha hwa hwb hab hs hbb.1 hbb.2
      · have hnb : normB b = b := normB_other b hbb
        have hcond : (b.isQ && b.cls == Cls.boolean && a.cls == Cls.scalar) = false := by
          by_cases hq : b.isQ = true
          · have : b.cls ≠ .boolean := fun h => hbb ⟨hq, h⟩
            simp [this]
          · simp [hq]
        simp only [hcond, Bool.false_eq_true, if_false, hnb]
        exact direct_spec op a b zn ha hwa hwb (fun hq hb => hbb ⟨hq, hb⟩)
  · have ha' : a.isQ = false := by simpa using ha
    have hna : normB a = a := normB_other a (fun h => ha h.1)
    simp only [ha', Bool.false_eq_true, if_false, Bool.false_or, hna]
    by_cases hb : b.isQ = true
    · simp only [hb, if_true]
      by_cases hbb : b.cls = .boolean
      · have hnb : normB b = asInt b := normB_bool b hb hbb
        have hbi : (asInt b).isQ = true := by rw [(asInt_fields b).1]; exact hb
        have hbc : (asInt b).cls ≠ .boolean := by rw [(asInt_fields b).2.2.2.1]; decide
        have hwi := WF_asInt b hwb hb hbb
        simp only [hbb, beq_self_eq_true, if_true, hnb]
        cases op with
        | add => exact reflected_spec .add (asInt b) a hbi hwi hbc ha' hwa b
        | sub => exact reflected_spec .sub (asInt b) a hbi hwi hbc ha' hwa b
        | mul => exact reflected_spec .mul (asInt b) a hbi hwi hbc ha' hwa b
        | div =>
          -- Boolean.__rtruediv__: Scalar(arg) / self.as_int()
          simp only [asScalar_raw a ha']
          obtain ⟨f1, f2, f3, f4, f5, f6⟩ := readScalar_raw_fields a ha'
          rw [direct_spec .div (readScalar a) (asInt b) false f6 (WF_readScalar a ha') hwi (fun _ => hbc)]
          obtain ⟨g1, g2, g3, g4, g5, g6, g7, g8⟩ := asInt_fields b
          have hbn : (asInt b).numer = [] := by rw [g6]; exact numer_nil_of_boolean b hwb hb hbb
          have hbd : (asInt b).denom = [] := by rw [g7]; exact denom_nil_of_boolean b hwb hb hbb
          have hbnum : (asInt b).isNum = false := isNum_of_isQ hbi
          simp only [coreSpec, divCore, hbnum, isNum_of_isQ f6, Bool.false_eq_true, if_false, readScalar_idem,
            readScalar_qube _ hbi, hbd, hbn, ne_eq, not_true_eq_false, if_true]
          by_cases hn : a.isNum = true
          · have hsh : a.shape = [] := hwa.num hn
            simp only [hn, if_true, g4, beq_self_eq_true, Desc.rank, hbn, hbd, List.length_nil, Nat.add_zero,
              not_true_eq_false, if_false, divideSpec, ewSpec, f4, f3, hsh, bcast_nil_left, f1, f2, unitsFit,
              Cls.unitsOk, Bool.or_true]
          · have hn' : a.isNum = false := by simpa using hn
            simp only [hn', Bool.false_eq_true, if_false]
        | floordiv =>
          simp only [asScalar_raw a ha']
          obtain ⟨f1, f2, f3, f4, f5, f6⟩ := readScalar_raw_fields a ha'
          rw [direct_spec .floordiv (readScalar a) (asInt b) false f6 (WF_readScalar a ha') hwi (fun _ => hbc)]
          have : isMatrix (readScalar a) = false := by simp [isMatrix, f4]
          simp only [coreSpec, floorModCore, ha', f6, this, readScalar_idem, Bool.and_false, Bool.false_and,
            Bool.false_eq_true, if_false]
        | mod =>
          simp only [asScalar_raw a ha']
          obtain ⟨f1, f2, f3, f4, f5, f6⟩ := readScalar_raw_fields a ha'
          rw [direct_spec .mod (readScalar a) (asInt b) false f6 (WF_readScalar a ha') hwi (fun _ => hbc)]
          have : isMatrix (readScalar a) = false := by simp [isMatrix, f4]
          have hbnum : (asInt b).isNum = false := isNum_of_isQ hbi
          simp only [coreSpec, floorModCore, ha', f6, this, readScalar_idem, Bool.and_false, Bool.false_and, hbnum,
            Bool.false_eq_true, if_false, f3, f4, f1, f2]
      · have hnb : normB b = b := normB_other b (fun h => hbb h.2)
        have : (b.cls == Cls.boolean) = false := by simp [hbb]
        simp only [this, Bool.false_eq_true, if_false, hnb]
        exact reflected_spec op b a hb hwb hbb ha' hwa b
    · simp [hb]

/-- the property's notion of compatibility, read off the declarative specification -/
def Compatible (op : OpSym) (a b : Desc) : Prop := ∃ s, spec op a b = some (some s)

/-- **reject_iff (dispatch-wide).** Within the view, `a op b` raises iff the operands are NOT compatible, and what it
    raises is a ValueError or a TypeError; when compatible, the result has exactly the class, leading shape (NumPy
    broadcast of the LEADING shapes) and item shape the specification names. -/
theorem reject_iff (op : OpSym) (a b : Desc) (zn : Bool) (hwa : WF a) (hwb : WF b) (x : M Res)
    (h : dispatch op a b zn = some x) :
    ((∃ e, x = .error e ∧ (e = .valueError ∨ e = .typeError)) ↔ ¬ Compatible op a b) ∧
    (∀ r, x = .ok r → spec op a b = some (some r.shp)) := by
  have hs := dispatch_spec op a b zn hwa hwb
  rw [h] at hs
  simp only [Option.map_some] at hs
  constructor
  · constructor
    · rintro ⟨e, rfl, -⟩ ⟨s, hc⟩
      rw [← hs] at hc
      simp [outcome] at hc
    · intro hnc
      cases x with
      | error e => exact ⟨e, rfl, by cases e <;> simp⟩
      | ok r => exact absurd ⟨r.shp, by rw [← hs]; rfl⟩ hnc
  · intro r hr
    rw [← hs, hr]; rfl

/-- outside the view exactly when the specification says so -/
theorem dispatch_none_iff (op : OpSym) (a b : Desc) (zn : Bool) (hwa : WF a) (hwb : WF b) :
    dispatch op a b zn = none ↔ spec op a b = none := by
  have hs := dispatch_spec op a b zn hwa hwb
  cases hd : dispatch op a b zn with
  | none => rw [hd] at hs; simp at hs; simp [← hs]
  | some x => rw [hd] at hs; simp at hs; simp [← hs]

/-! non-vacuity: well-formed operands on an accepting, a rejecting and a reflected path -/

example : WF ⟨.qube, .vector, .float, [2], [3], [], none⟩ :=
  ⟨by simp [Desc.isQ], by simp [Desc.isNum], fun _ => rfl, by simp [Cls.fixedNumer], by simp, fun _ _ => rfl⟩
example : WF ⟨.nd, .qube, .int, [3, 1], [], [], none⟩ :=
  ⟨fun _ => ⟨rfl, rfl, rfl⟩, by simp [Desc.isNum], by simp [Desc.isQ], by simp [Desc.isQ], by simp, by simp⟩
example : spec .mul ⟨.qube, .vector, .float, [2], [3], [], none⟩ ⟨.nd, .qube, .int, [3, 1], [], [], none⟩
    = some (some ⟨.vector, [3, 2], [3], []⟩) := by decide
example : spec .mul ⟨.nd, .qube, .int, [3, 1], [], [], none⟩ ⟨.qube, .vector, .float, [2], [3], [], none⟩
    = some (some ⟨.vector, [3, 2], [3], []⟩) := by decide
example : spec .add ⟨.qube, .vector, .float, [2], [3], [], none⟩ ⟨.qube, .vector, .float, [3], [3], [], none⟩
    = some none := by decide
example : spec .add ⟨.qube, .vector, .float, [3], [3], [], none⟩ ⟨.qube, .scalar, .float, [3], [], [], none⟩
    = some none := by decide
example : spec .sub ⟨.list, .qube, .int, [2, 3], [], [], none⟩ ⟨.qube, .vector, .float, [2], [3], [], none⟩
    = some (some ⟨.vector, [2], [3], []⟩) := by decide
example : spec .div ⟨.num, .qube, .int, [], [], [], none⟩ ⟨.qube, .matrix, .float, [], [2, 2], [], none⟩ = none := by
  decide

end PMV.Dispatch
