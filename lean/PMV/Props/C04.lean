import PMV.Model.Dispatch
import PMV.Lemmas.Bcast
/-
  C04 — unmasked results equal the NumPy reference; only leading axes broadcast.
  Property theorems about the code-shaped model `PMV.Dispatch` (the definitions the driver executes).
  Core Lean; no Mathlib.  The broadcast lemmas (bcast_spec, bcast_comm, bcast_assoc, bidx_valid, align_lemma,
  bcast_append, …) are in `PMV/Lemmas/Bcast.lean`.  No statement bounds rank or axis lengths.
-/
namespace PMV.Dispatch
open PMV

/-! ### the alignment step is a reshape by trailing / inner unit axes -/

theorem insOnes_end (s : Shape) (r : Nat) : insOnes s s.length r = s ++ List.replicate r 1 := by
  simp [insOnes]

theorem insOnes_zero (s : Shape) (p : Nat) : insOnes s p 0 = s := by
  simp [insOnes]

theorem insOnes_mid (s d : Shape) (r : Nat) : insOnes (s ++ d) s.length r = s ++ List.replicate r 1 ++ d := by
  simp [insOnes]

theorem take_drop_mid (a b c : List Nat) (p r : Nat) (hp : p = a.length) (hr : r = b.length) :
    (a ++ b ++ c).take p ++ (a ++ b ++ c).drop (p + r) = a ++ c := by
  subst hp hr
  rw [List.append_assoc, List.take_left, ← List.append_assoc, ← List.length_append, List.drop_left]

theorem bidx_length_of_le (s : Shape) (i : Index) (h : s.length ≤ i.length) : (bidx s i).length = s.length := by
  rw [bidx_length_le]; omega

/-! ### value_ref: element-wise plans under FULL NumPy broadcasting select by LEADING-axis broadcasting only -/

/-- **value_ref, same item shape** (`self._values_ + arg._values_`, qube.py:2910, 3026): both operands carry the item
    shape `t`; the code lets NumPy broadcast the full shapes `sa ++ t` and `sb ++ t`.  The result exists iff the
    LEADING shapes broadcast, has shape `bcast sa sb ++ t`, and its element at leading index `i`, item index `j` is
    the operator applied to the operand elements at `bidx sa i`, `bidx sb i` with the SAME item index `j`. -/
theorem value_ref_same_item (f : Int → Int → Int) (A B : Arr Int) (sa sb t : Shape)
    (hA : A.shape = sa ++ t) (hB : B.shape = sb ++ t) :
    match bcast sa sb with
    | none => Arr.map2 f A B = none
    | some out => ∃ v, Arr.map2 f A B = some v ∧ v.shape = out ++ t ∧
        ∀ i j, Valid t j → j.length = t.length →
          v.get (i ++ j) = f (A.get (bidx sa i ++ j)) (B.get (bidx sb i ++ j)) := by
  have hb := bcast_append sa sb t t rfl
  rw [bcast_self] at hb
  cases h : bcast sa sb with
  | none =>
    rw [h] at hb
    simp [Arr.map2, hA, hB, hb]
  | some out =>
    rw [h] at hb
    simp only [] at hb
    refine ⟨⟨out ++ t, fun i => f (A.get (bidx A.shape i)) (B.get (bidx B.shape i))⟩, ?_, rfl, ?_⟩
    · simp [Arr.map2, hA, hB, hb]
    · intro i j hv hl
      simp only [hA, hB]
      rw [bidx_append _ _ _ _ hl, bidx_append _ _ _ _ hl, bidx_self hv]

/-- **value_ref, scaling / division by a scalar without denominators** (`_mul_by_scalar`, `_div_by_scalar`,
    `_floordiv_by_scalar`, `_mod_by_scalar`): X has shape `sx ++ n` (item `n`), S one number per leading index
    (shape `ss`), reshaped by the code to `ss ++ (1,)*|n|`.  Full NumPy broadcasting of `sx ++ n` against
    `ss ++ 1…1` exists iff the leading shapes broadcast, and the element at `(i, j)` is `f X[bidx sx i, j] S[bidx ss i]`:
    the item index never reaches S, whatever the axis lengths (e.g. vector length = leading axis length). -/
theorem value_ref_scalar (f : Int → Int → Int) (X S : Arr Int) (sx ss n : Shape)
    (hX : X.shape = sx ++ n) (hS : S.shape = ss) :
    match bcast sx ss with
    | none => Arr.map2 f X (insArr S ss.length n.length) = none
    | some out => ∃ v, Arr.map2 f X (insArr S ss.length n.length) = some v ∧ v.shape = out ++ n ∧
        ∀ i j, Valid n j → j.length = n.length → ss.length ≤ i.length →
          v.get (i ++ j) = f (X.get (bidx sx i ++ j)) (S.get (bidx ss i)) := by
  have hb := bcast_append sx ss n (List.replicate n.length 1) (by simp)
  rw [bcast_ones_right] at hb
  have hsh : (insArr S ss.length n.length).shape = ss ++ List.replicate n.length 1 := by
    simp [insArr, hS, insOnes]
  cases h : bcast sx ss with
  | none =>
    rw [h] at hb
    simp [Arr.map2, hX, hsh, hb]
  | some out =>
    rw [h] at hb
    simp only [] at hb
    refine ⟨⟨out ++ n, fun i => f (X.get (bidx X.shape i))
      ((insArr S ss.length n.length).get (bidx (insArr S ss.length n.length).shape i))⟩, ?_, rfl, ?_⟩
    · simp [Arr.map2, hX, hsh, hb]
    · intro i j hv hl hi
      simp only [hX, hsh]
      rw [bidx_append _ _ _ _ hl, bidx_self hv, align_lemma _ _ _ _ hl]
      have hlen : (bidx ss i).length = ss.length := bidx_length_of_le ss i hi
      simp only [insArr]
      congr 2
      have := take_drop_mid (bidx ss i) (List.replicate n.length 0) [] ss.length n.length hlen.symm (by simp)
      simpa using this

/-- **value_ref, scalar with a denominator** (`_mul_by_scalar` when `arg._drank_ > 0`): X (shape `sx ++ n`, no
    denominator) is reshaped to `sx ++ n ++ (1,)*|d|`, S (shape `ss ++ d`) to `ss ++ (1,)*|n| ++ d`.  The result has
    item shape `n ++ d`, and element `(i, jn, jd)` is `f X[bidx sx i, jn] S[bidx ss i, jd]`. -/
theorem value_ref_scalar_denom (f : Int → Int → Int) (X S : Arr Int) (sx ss n d : Shape)
    (hX : X.shape = sx ++ n) (hS : S.shape = ss ++ d) :
    match bcast sx ss with
    | none => Arr.map2 f (insArr X (sx.length + n.length) d.length) (insArr S ss.length n.length) = none
    | some out => ∃ v, Arr.map2 f (insArr X (sx.length + n.length) d.length) (insArr S ss.length n.length) = some v ∧
        v.shape = out ++ (n ++ d) ∧
        ∀ i jn jd, Valid n jn → jn.length = n.length → Valid d jd → jd.length = d.length →
          ss.length ≤ i.length → sx.length ≤ i.length →
          v.get (i ++ (jn ++ jd)) = f (X.get (bidx sx i ++ jn)) (S.get (bidx ss i ++ jd)) := by
  have hshX : (insArr X (sx.length + n.length) d.length).shape = sx ++ (n ++ List.replicate d.length 1) := by
    simp only [insArr, hX]
    rw [← List.length_append, insOnes_end, List.append_assoc]
  have hshS : (insArr S ss.length n.length).shape = ss ++ (List.replicate n.length 1 ++ d) := by
    simp [insArr, hS, insOnes]
  have hitem : bcast (n ++ List.replicate d.length 1) (List.replicate n.length 1 ++ d) = some (n ++ d) := by
    have := bcast_append n (List.replicate n.length 1) (List.replicate d.length 1) d (by simp)
    rw [bcast_ones_right, bcast_ones_left] at this
    exact this
  have hb := bcast_append sx ss (n ++ List.replicate d.length 1) (List.replicate n.length 1 ++ d)
    (by simp only [List.length_append, List.length_replicate])
  rw [hitem] at hb
  cases h : bcast sx ss with
  | none =>
    rw [h] at hb
    simp [Arr.map2, hshX, hshS, hb]
  | some out =>
    rw [h] at hb
    simp only [] at hb
    refine ⟨⟨out ++ (n ++ d), fun i =>
      f ((insArr X (sx.length + n.length) d.length).get (bidx (insArr X (sx.length + n.length) d.length).shape i))
        ((insArr S ss.length n.length).get (bidx (insArr S ss.length n.length).shape i))⟩, ?_, rfl, ?_⟩
    · simp [Arr.map2, hshX, hshS, hb]
    · intro i jn jd hvn hln hvd hld his hix
      simp only [hshX, hshS]
      have hl : (jn ++ jd).length = (n ++ List.replicate d.length 1).length := by
        simp only [List.length_append, List.length_replicate]; omega
      have hl' : (jn ++ jd).length = (List.replicate n.length 1 ++ d).length := by
        simp only [List.length_append, List.length_replicate]; omega
      rw [bidx_append _ _ _ _ hl, bidx_append _ _ _ _ hl']
      rw [bidx_append n _ jn jd (by simpa using hld), bidx_self hvn, bidx_ones _ _ hld]
      rw [bidx_append _ d jn jd hld, bidx_ones _ _ hln, bidx_self hvd]
      have hlenS : (bidx ss i).length = ss.length := bidx_length_of_le ss i his
      have hlenX : (bidx sx i).length = sx.length := bidx_length_of_le sx i hix
      simp only [insArr]
      congr 2
      · -- X: drop the trailing unit entries
        have := take_drop_mid (bidx sx i ++ jn) (List.replicate d.length 0) [] (sx.length + n.length) d.length
          (by simp only [List.length_append]; omega) (by simp)
        simpa using this
      · -- S: drop the |n| unit entries between the leading index and the denominator index
        have := take_drop_mid (bidx ss i) (List.replicate n.length 0) jd ss.length n.length hlenS.symm (by simp)
        simpa using this

/-- **item_never_broadcasts**: with the code's alignment an item axis of X and a leading axis of S never meet, even
    when their lengths agree: S of leading shape `[k]` against X of leading shape `[]` and item `[k]` gives leading
    shape `[k]` and item `[k]` (a `k × k` table of products), not `k` products. -/
theorem item_never_broadcasts (f : Int → Int → Int) (X S : Arr Int) (k : Nat)
    (hX : X.shape = [] ++ [k]) (hS : S.shape = [k]) :
    ∃ v, Arr.map2 f X (insArr S 1 1) = some v ∧ v.shape = [k] ++ [k] ∧
      ∀ a b, b < k → v.get ([a] ++ [b]) = f (X.get [b]) (S.get (bidx [k] [a])) := by
  have h := value_ref_scalar f X S [] [k] [k] hX hS
  rw [bcast_nil_left] at h
  obtain ⟨v, h1, h2, h3⟩ := h
  refine ⟨v, h1, h2, fun a b hb => ?_⟩
  have := h3 [a] [b] (by simp [Valid, hb]) rfl (by simp)
  simpa [bidx_nil] using this

example : (Arr.map2 (· * ·) (⟨[3], fun i => (i.headD 0 : Int) + 1⟩ : Arr Int)
    (insArr ⟨[3], fun i => 10 * ((i.headD 0 : Int) + 1)⟩ 1 1)).map Arr.toList
    = some [10, 20, 30, 20, 40, 60, 30, 60, 90] := by decide

/-! ### reject_iff at the level of the value computation: NumPy fails exactly when the LEADING shapes are incompatible -/

theorem reject_iff_same_item (f : Int → Int → Int) (A B : Arr Int) (sa sb t : Shape)
    (hA : A.shape = sa ++ t) (hB : B.shape = sb ++ t) :
    Arr.map2 f A B = none ↔ bcast sa sb = none := by
  have := value_ref_same_item f A B sa sb t hA hB
  cases h : bcast sa sb with
  | none => rw [h] at this; simp [this]
  | some out => rw [h] at this; obtain ⟨v, hv, -⟩ := this; simp [hv]

theorem reject_iff_scalar (f : Int → Int → Int) (X S : Arr Int) (sx ss n : Shape)
    (hX : X.shape = sx ++ n) (hS : S.shape = ss) :
    Arr.map2 f X (insArr S ss.length n.length) = none ↔ bcast sx ss = none := by
  have := value_ref_scalar f X S sx ss n hX hS
  cases h : bcast sx ss with
  | none => rw [h] at this; simp [this]
  | some out => rw [h] at this; obtain ⟨v, hv, -⟩ := this; simp [hv]

/-! ### dispatch level: shape_rule, class_rule, kind_rule, reject_iff for the code-shaped paths -/

/-- what `finish` (the constructor call that ends every operator) can do: fail with TypeError exactly when a Units
    object is handed to a class that cannot hold units, otherwise build the result of the class's suitable dtype -/
theorem finish_spec (c : Cls) (k : Kind) (l n d : Shape) (u : Bool) (p : Plan) :
    finish c k l n d u p =
      if u && !c.unitsOk then .error .typeError
      else .ok { cls := c, kind := suitableDtype c k, lead := l, numer := n, denom := d, plan := p } := by
  unfold finish; split <;> rfl

/-- **shape_rule / class_rule / kind_rule / reject_iff for `X._mul_by_scalar(S)`** (S has no numerator axes, at most
    one of the two has a denominator): the code-shaped function — which broadcasts the ALIGNED FULL shapes — is
    rejected with ValueError iff the LEADING shapes do not broadcast, with TypeError iff the class cannot hold the
    units, and otherwise yields an object of X's class ("scaling an X by a Scalar gives an X") whose leading shape is
    the NumPy broadcast of the leading shapes, whose numerator is X's and whose denominator is whichever exists. -/
-- FULL: the same equality without `hne : s.full ≠ []` and `hxne : x.full ≠ []` (the branches where the code skips the
-- reshape because a value is a Python scalar of shape ()), and with a denominator on X instead of S.
theorem mulByScalar_rule_partial (x s : Desc) (swap : Bool) (hs : s.numer = []) (hx : x.denom = []) (hne : s.full ≠ [])
    (hxne : x.full ≠ []) :
    mulByScalar x s swap =
      match bcast x.shape s.shape with
      | none => .error .valueError
      | some out =>
        if unitsPresent x.units s.units && !x.cls.unitsOk then .error .typeError
        else .ok { cls := x.cls, kind := suitableDtype x.cls (promote x.kind s.kind), lead := out,
                   numer := x.numer, denom := s.denom,
                   plan := if swap then .ew true s.shape.length x.rank x.full.length (if s.drank > 0 then s.drank else 0)
                           else .ew false x.full.length (if s.drank > 0 then s.drank else 0) s.shape.length x.rank } := by
  have hxf : x.full = x.shape ++ x.numer := by simp [Desc.full, hx]
  have hsf : s.full = s.shape ++ s.denom := by simp [Desc.full, hs]
  have hxr : x.rank = x.numer.length := by simp [Desc.rank, hx]
  have hX : insOnes x.full x.full.length (if s.drank > 0 ∧ x.full ≠ [] then s.drank else 0)
      = x.shape ++ (x.numer ++ List.replicate s.denom.length 1) := by
    rw [insOnes_end, hxf]
    by_cases hd : s.drank > 0
    · simp [hxf ▸ hxne, Desc.drank]
      intro h; simp [h]
    · have : s.denom = [] := by
        simp [Desc.drank] at hd; exact hd
      simp [this, Desc.drank]
  have hS : insOnes s.full s.shape.length (if s.full ≠ [] then x.rank else 0)
      = s.shape ++ (List.replicate x.numer.length 1 ++ s.denom) := by
    rw [if_pos hne, hsf, insOnes_mid, hxr, List.append_assoc]
  have hitem : bcast (x.numer ++ List.replicate s.denom.length 1) (List.replicate x.numer.length 1 ++ s.denom)
      = some (x.numer ++ s.denom) := by
    have := bcast_append x.numer (List.replicate x.numer.length 1) (List.replicate s.denom.length 1) s.denom (by simp)
    rw [bcast_ones_right, bcast_ones_left] at this
    exact this
  have hb := bcast_append x.shape s.shape (x.numer ++ List.replicate s.denom.length 1)
    (List.replicate x.numer.length 1 ++ s.denom) (by simp only [List.length_append, List.length_replicate])
  rw [hitem] at hb
  unfold mulByScalar
  simp only [decide_eq_true_eq, Bool.and_eq_true, bne_iff_ne, ne_eq, Bool.decide_and] at *
  simp only [hX, hS, hb]
  cases h : bcast x.shape s.shape with
  | none => rfl
  | some out =>
    have hmax : max x.drank s.drank = s.denom.length := by simp [Desc.drank, hx]
    have hl1 : (out ++ (x.numer ++ s.denom)).length - (x.nrankV + s.denom.length) = out.length := by
      simp [Desc.nrankV]
    have hl2 : (out ++ (x.numer ++ s.denom)).length - s.denom.length = out.length + x.numer.length := by
      simp; omega
    simp only [hmax, hl1, hl2, finish_spec]
    have e1 : (out ++ (x.numer ++ s.denom)).take out.length = out := by simp
    have e2 : ((out ++ (x.numer ++ s.denom)).take (out.length + x.numer.length)).drop out.length = x.numer := by
      rw [← List.append_assoc, ← List.length_append, List.take_left, List.drop_left]
    have e3 : (out ++ (x.numer ++ s.denom)).drop (out.length + x.numer.length) = s.denom := by
      rw [← List.append_assoc, ← List.length_append, List.drop_left]
    simp only [e1, e2, e3]
    by_cases hd : s.drank > 0 <;> simp [hd, hxne, hne]

example : mulByScalar ⟨.qube, .vector, .float, [2], [3], [], none⟩ ⟨.qube, .scalar, .int, [3, 1], [], [], none⟩ false
    = .ok ⟨.vector, .float, [3, 2], [3], [], .ew false 2 0 2 1⟩ := rfl

/-- **class_rule / kind_rule for the number fast paths** -/
theorem mulByNumber_rule (x n : Desc) (swap : Bool) :
    (mulByNumber x n swap).cls = x.cls ∧ (mulByNumber x n swap).lead = x.shape ∧
    (mulByNumber x n swap).numer = x.numer ∧ (mulByNumber x n swap).kind = promote x.kind n.kind := by
  simp [mulByNumber]

/-- **kind_rule**: int ∘ int stays int for `+ - * // %`; any float operand gives float; bool counts as int next to an int -/
theorem kind_rule_promote :
    promote .int .int = .int ∧ promote .bool .int = .int ∧ promote .int .bool = .int ∧
    (∀ k, promote .float k = .float) ∧ (∀ k, promote k .float = .float) := by
  refine ⟨rfl, rfl, rfl, fun k => by cases k <;> rfl, fun k => by cases k <;> rfl⟩

/-- **kind_rule**: float-only classes hold floats whatever the kind of the computed values; classes that admit ints
    keep ints; Boolean holds bools -/
theorem kind_rule_class (k : Kind) :
    suitableDtype .vector3 k = .float ∧ suitableDtype .matrix k = .float ∧ suitableDtype .matrix3 k = .float ∧
    suitableDtype .quaternion k = .float ∧ suitableDtype .boolean k = .bool ∧
    suitableDtype .scalar .int = .int ∧ suitableDtype .vector .int = .int ∧ suitableDtype .pair .int = .int ∧
    suitableDtype .scalar .bool = .int := by
  cases k <;> decide

/-- **kind_rule**: true division by a scalar always yields the class's float kind; `//` and `%` keep `promote` -/
theorem divByScalar_kind (isTrue : Bool) (x s : Desc) (r : Res) (h : divByScalar isTrue x s = .ok r) :
    r.cls = x.cls ∧ r.numer = x.numer ∧ r.denom = x.denom ∧
    r.kind = suitableDtype x.cls (if isTrue then .float else promote x.kind s.kind) := by
  unfold divByScalar at h
  simp only [finish_spec] at h
  split at h
  · cases h
  · split at h
    · cases h
    · cases h; cases isTrue <;> simp

/-- **shape_rule / reject_iff for `_div_by_scalar`, `_floordiv_by_scalar`, `_mod_by_scalar`** (divisor S a scalar
    without denominator, X any class): ValueError iff the LEADING shapes do not broadcast; otherwise the leading shape
    is their NumPy broadcast and the item shape is X's. -/
-- FULL: the same equality without `hne : s.shape ≠ []` and `hxr : x.rank ≠ 0` (reshape-skip branches).
theorem divByScalar_rule_partial (isTrue : Bool) (x s : Desc) (hs : s.numer = []) (hsd : s.denom = []) (hne : s.shape ≠ [])
    (hxr : x.rank ≠ 0) :
    divByScalar isTrue x s =
      match bcast x.shape s.shape with
      | none => .error .valueError
      | some out =>
        if unitsPresent x.units s.units && !x.cls.unitsOk then .error .typeError
        else .ok { cls := x.cls, kind := suitableDtype x.cls (if isTrue then .float else promote x.kind s.kind),
                   lead := out, numer := x.numer, denom := x.denom, plan := .ew false 0 0 s.shape.length x.rank } := by
  have hsf : s.full = s.shape := by simp [Desc.full, hs, hsd]
  have hxf : x.full = x.shape ++ (x.numer ++ x.denom) := by simp [Desc.full]
  have hS : insOnes s.full s.shape.length (if s.full ≠ [] ∧ x.rank ≠ 0 then x.rank else 0)
      = s.shape ++ List.replicate (x.numer ++ x.denom).length 1 := by
    rw [hsf, if_pos ⟨hne, hxr⟩, insOnes_end]; simp [Desc.rank]
  have hb := bcast_append x.shape s.shape (x.numer ++ x.denom) (List.replicate (x.numer ++ x.denom).length 1) (by simp)
  rw [bcast_ones_right] at hb
  unfold divByScalar
  simp only [decide_eq_true_eq, Bool.and_eq_true, bne_iff_ne, ne_eq, Bool.decide_and] at *
  simp only [hS, hxf, hb]
  cases h : bcast x.shape s.shape with
  | none => rfl
  | some out =>
    have hl : (out ++ (x.numer ++ x.denom)).length - x.rank = out.length := by simp [Desc.rank]
    simp only [hl, finish_spec, List.take_left']
    simp [hsf, hne, hxr]

/-- **shape_rule / class_rule / reject_iff for `Qube.__add__` / `__sub__` on two polymath objects** that pass the
    units / numer / denom checks: ValueError iff the LEADING shapes do not broadcast (the code broadcasts the FULL
    shapes); the result has the left operand's class and item shape and the NumPy broadcast of the leading shapes. -/
-- FULL: additionally the raw-operand conversions (`asThisType`) and the failing checks, as one `reject_iff` over
-- every source kind: addSub a b = error e ↔ ¬ compatible a b.
theorem addSub_rule_partial (a b : Desc) (ha : a.isQ = true) (hb : b.isQ = true) (hnum : ¬ (a.rank == 0 && b.isNum) = true)
    (hu : unitsCanMatch a.units b.units = true) (hn : a.numer = b.numer) (hd : a.denom = b.denom) :
    addSub a b =
      match bcast a.shape b.shape with
      | none => .error .valueError
      | some out =>
        if unitsPresent a.units b.units && !a.cls.unitsOk then .error .typeError
        else .ok { cls := a.cls, kind := suitableDtype a.cls (promote a.kind b.kind), lead := out,
                   numer := a.numer, denom := a.denom, plan := .ew false 0 0 0 0 } := by
  have hbf : b.full = b.shape ++ (a.numer ++ a.denom) := by simp [Desc.full, hn, hd]
  have haf : a.full = a.shape ++ (a.numer ++ a.denom) := by simp [Desc.full]
  have hbc := bcast_append a.shape b.shape (a.numer ++ a.denom) (a.numer ++ a.denom) rfl
  rw [bcast_self] at hbc
  have hu' : (!unitsCanMatch a.units b.units) = false := by simp [hu]
  have hnum' : (a.rank == 0 && b.isNum) = false := by
    cases h : (a.rank == 0 && b.isNum) <;> simp_all
  have hnn : (a.numer != b.numer) = false := by simp [hn]
  have hdd : (a.denom != b.denom) = false := by simp [hd]
  unfold addSub
  simp only [hnum', hb, hu', hnn, hdd, haf, hbf, hbc, Bool.false_eq_true, if_false, if_true, pure, Except.pure,
    bind, Except.bind]
  cases h : bcast a.shape b.shape with
  | none => rfl
  | some out =>
    have hl : (out ++ (a.numer ++ a.denom)).length - a.rank = out.length := by simp [Desc.rank]
    simp only [hl, finish_spec, List.take_left']

example : addSub ⟨.qube, .vector, .int, [3], [3], [], none⟩ ⟨.qube, .vector3, .float, [2, 1], [3], [], none⟩
    = .ok ⟨.vector, .float, [2, 3], [3], [], .ew false 0 0 0 0⟩ := rfl

/-- **reject_iff (error classes)**: whatever the operands, `_raise_unsupported_op` yields ValueError or TypeError -/
theorem rej_cases (r : Rej) : r = .valueError ∨ r = .typeError := by cases r <;> simp

/-- **class_rule, matrix path**: "applying a matrix to a vector X gives an X" — the result class of
    `Qube.dot(M, X, -1, 0, (type(X), type(M)))` is X's class whenever X's class admits the resulting numerator -/
theorem castFirst_head (c : Cls) (rest : List Cls) (numer : Shape)
    (h1 : c.fixedNumer = none ∨ c.fixedNumer = some numer) (h2 : c.nrank = none ∨ c.nrank = some numer.length) :
    castFirst (c :: rest) numer = c := by
  unfold castFirst
  rcases h1 with h1 | h1 <;> rcases h2 with h2 | h2 <;> simp [h1, h2]

example : dotPath ⟨.qube, .matrix, .float, [2], [2, 3], [], none⟩ ⟨.qube, .vector, .int, [], [3], [], none⟩
    = .ok ⟨.vector, .float, [2], [2], [], .dot⟩ := rfl
example : dotPath ⟨.qube, .matrix3, .float, [], [3, 3], [], none⟩ ⟨.qube, .vector3, .float, [4], [3], [], none⟩
    = .ok ⟨.vector3, .float, [4], [3], [], .dot⟩ := rfl

/-! ### reflected_eq_direct -/

/-- `__radd__` is `__add__` -/
theorem reflected_add_eq_direct (self arg : Desc) :
    reflected .add self arg = direct .add self arg false := rfl

/-- number * X (`__rmul__`) and X * number (`__mul__`) give the same class, kind and shapes -/
theorem reflected_mul_number (self n : Desc) (hn : n.isNum = true) (hm : self.cls ≠ .matrix3) :
    ∃ r r', reflected .mul self n = some (.ok r) ∧ direct .mul self n false = some (.ok r') ∧
      r.cls = r'.cls ∧ r.kind = r'.kind ∧ r.lead = r'.lead ∧ r.numer = r'.numer ∧ r.denom = r'.denom := by
  refine ⟨mulByNumber self n true, mulByNumber self n false, ?_, ?_, rfl, rfl, rfl, rfl, rfl⟩
  · simp [reflected, qrmul, hn]; rfl
  · simp [direct, hm, qmul, hn]; rfl

/-- array-like * X (`X.__rmul__(arr)`) against the direct form `Scalar(arr) * X` (`Scalar.__mul__` → swap-and-retry →
    `X._mul_by_scalar(Scalar(arr))`): whenever both are accepted the results coincide -/
theorem reflected_mul_eq_direct (self arg sc : Desc) (hraw : arg.isQ = false) (hnn : arg.isNum = false)
    (hsc : asScalar arg = .ok sc) (hscq : sc.isQ = true) (hscn : sc.isNum = false) (hscb : sc.cls = .scalar)
    (hs0 : sc.nrankV = 0) (hsd : sc.drank = 0)
    (hq : self.isQ = true) (hb : self.cls ≠ .boolean) (hn : self.nrankV ≠ 0) (r r' : Res)
    (h1 : reflected .mul self arg = some (.ok r)) (h2 : direct .mul sc self false = some (.ok r')) : r = r' := by
  have hsc' : asScalar sc = .ok sc := by simp [asScalar, hscq, hscb]; rfl
  have hself : asScalar self = .ok self := by
    simp only [asScalar, hq, if_true]; split
    · rename_i h; simp at h; exact absurd h hb
    · rfl
  simp only [reflected, qrmul, hnn, hsc] at h1
  simp only [direct, hscb] at h2
  have hnum : self.isNum = false := by
    simp [Desc.isNum]; simp [Desc.isQ] at hq; simp [hq]
  simp only [qmul, hnum, hself, hsd] at h2
  simp at h1 h2
  cases hm : mulByScalar self sc true with
  | error e => simp [hm, bind, Except.bind] at h1
  | ok v =>
    simp [hm, bind, Except.bind, pure, Except.pure] at h1
    simp [hn, hs0, hm, bind, Except.bind, pure, Except.pure] at h2
    rw [← h1, ← h2]

end PMV.Dispatch
