import PMV.Lemmas.DotFull
import PMV.Props.C16
/-
  C04, matrix path: `value_ref` for Matrix · X.  The step-by-step full-array model `Dispatch.dotFull` (reshape, rollaxis,
  full NumPy broadcasting, sum — `PMV/Lemmas/DotFull.lean`) is tied to C16's per-item `dotItem`, and C16's
  `dot_eq_einsum` turns that into the index-sum reference.  Imports Mathlib tactics only through `PMV.Props.C16`.
-/
namespace PMV.Dispatch
open PMV PMV.Algebra

theorem normAx_neg1 (n : Nat) (h : n ≥ 1) : normAx n (-1) = some (n - 1) := by
  unfold normAx
  simp only []
  have h1 : ¬ ((-1 : Int) ≥ 0) := by omega
  rw [if_neg h1]
  have h2 : ¬ ((-1 + (n : Int)) < 0 ∨ (-1 + (n : Int)) ≥ n) := by omega
  rw [if_neg h2]
  congr 1
  omega

theorem normAx_zero (n : Nat) (h : n ≥ 1) : normAx n 0 = some 0 := by
  unfold normAx
  simp only []
  have h1 : ((0 : Int) ≥ 0) := by omega
  rw [if_pos h1]
  have h2 : ¬ ((0 : Int) < 0 ∨ (0 : Int) ≥ n) := by omega
  rw [if_neg h2]
  rfl

/-- what `dotItem x y (-1) 0` returns, in terms of the rolled padded items -/
theorem dotItem_rolled (a b : Desc) (x y : Item Int) (hxn : x.numer = a.numer) (hxd : x.denom = a.denom)
    (hyn : y.numer = b.numer) (hyd : y.denom = b.denom) (h1 : a.numer ≠ []) (h2 : b.numer ≠ []) (r : Item Int)
    (h : dotItem x y (-1) 0 = .ok r) :
    ∃ p, mulB (rolled1 a b x) (rolled2 a b y) = some p ∧ r.get = (sumLast p).get := by
  have l1 : a.numer.length ≥ 1 := List.length_pos_iff.mpr h1
  have l2 : b.numer.length ≥ 1 := List.length_pos_iff.mpr h2
  have n1 : normAx x.numer.length (-1) = some (a.numer.length - 1) := by
    rw [hxn]; exact normAx_neg1 _ l1
  have n2 : normAx y.numer.length 0 = some 0 := by
    rw [hyn]; exact normAx_zero _ l2
  unfold dotItem at h
  split at h
  · cases h
  · simp only [n1, n2] at h
    split at h
    · cases h
    · simp only [hxn, hyn, hxd, hyd] at h
      cases hm : mulB (rollEnd (a.numer.length - 1) (pad1 x (b.numer.length - 1) b.denom.length))
          (rollEnd (0 + (a.numer.length - 1)) (pad2 y (a.numer.length - 1) a.denom.length)) with
      | none => rw [hm] at h; cases h
      | some p =>
        rw [hm] at h
        simp only [Except.ok.injEq] at h
        exact ⟨p, hm, by rw [← h]⟩

/-- **value_ref_matrix.** `Matrix · X` (`Qube.dot(self, arg, -1, 0)` on the full arrays, as the code computes it):
    whenever the operands pass `dot`'s checks (at most one denominator, inner lengths agree) and the LEADING shapes
    broadcast, the result element at leading index `i`, free numerator indices `o1`, `o2` and denominator indices
    `d1`, `d2` is  Σ_t A[bidx sA i, o1, t, d1] · B[bidx sB i, t, o2, d2]:  the reference contraction of the operand items
    selected by LEADING-axis broadcasting only; no item axis ever meets a leading axis. -/
theorem value_ref_matrix (a b : Desc) (A B : Arr Int) (h1 : a.numer ≠ []) (h2 : b.numer ≠ [])
    (hd : ¬ (a.denom.length ≠ 0 ∧ b.denom.length ≠ 0))
    (hn : a.numer.getD (a.numer.length - 1) 0 = b.numer.getD 0 0)
    (out : Shape) (hb : bcast a.shape b.shape = some out) :
    ∃ v, dotFull a b A B = some v ∧
      ∀ i o1 o2 d1 d2, i.length = out.length →
        Valid (a.numer.eraseIdx (a.numer.length - 1)) o1 → Valid (b.numer.eraseIdx 0) o2 →
        Valid a.denom d1 → Valid b.denom d2 →
        v.get (i ++ (o1 ++ o2 ++ d1 ++ d2)) =
          sumRange (a.numer.getD (a.numer.length - 1) 0) fun t =>
            A.get (bidx a.shape i ++ (o1 ++ [t] ++ d1)) * B.get (bidx b.shape i ++ (t :: o2 ++ d2)) := by
  have l1 : a.numer.length ≥ 1 := List.length_pos_iff.mpr h1
  have l2 : b.numer.length ≥ 1 := List.length_pos_iff.mpr h2
  have hlenout := bcast_length hb
  -- C16: the per-item dot succeeds and is the einsum
  have hein : ∀ ia ib, ∃ r, dotItem (itemAt A a.numer a.denom ia) (itemAt B b.numer b.denom ib) (-1) 0 = .ok r ∧
      ∀ o1 o2 d1 d2, Valid (a.numer.eraseIdx (a.numer.length - 1)) o1 → Valid (b.numer.eraseIdx 0) o2 →
        Valid a.denom d1 → Valid b.denom d2 →
        r.get (o1 ++ o2 ++ d1 ++ d2) =
          einsumRef (itemAt A a.numer a.denom ia) (itemAt B b.numer b.denom ib) (a.numer.length - 1) 0 o1 o2 d1 d2 := by
    intro ia ib
    obtain ⟨r, hr, _, _, hv⟩ := dot_eq_einsum (itemAt A a.numer a.denom ia) (itemAt B b.numer b.denom ib) (-1) 0
      (a.numer.length - 1) 0 (normAx_neg1 _ l1) (normAx_zero _ l2)
      (by simpa [itemAt] using hd) (by simpa [itemAt] using hn)
    exact ⟨r, hr, fun o1 o2 d1 d2 v1 v2 v3 v4 => hv o1 o2 d1 d2 (by simpa [itemAt] using v1)
      (by simpa [itemAt] using v2) (by simpa [itemAt] using v3) (by simpa [itemAt] using v4)⟩
  have hfull := dotFull_items a b A B h1 h2
  rw [hb] at hfull
  -- the rolled item shapes broadcast, because the per-item product exists
  obtain ⟨r0, hr0, _⟩ := hein [] []
  obtain ⟨p0, hp0, _⟩ := dotItem_rolled a b _ _ rfl rfl rfl rfl h1 h2 r0 hr0
  have hT : ∃ T, bshape (rolledShape1 a b) (rolledShape2 a b) = some T := by
    simp only [mulB, rolled1_shape a b (itemAt A a.numer a.denom []) rfl rfl,
      rolled2_shape a b (itemAt B b.numer b.denom []) rfl rfl] at hp0
    cases hTT : bshape (rolledShape1 a b) (rolledShape2 a b) with
    | none => rw [hTT] at hp0; simp at hp0
    | some T => exact ⟨T, rfl⟩
  obtain ⟨T, hT⟩ := hT
  rw [hT] at hfull
  obtain ⟨v, hv, _, hget⟩ := hfull
  refine ⟨v, hv, ?_⟩
  intro i o1 o2 d1 d2 hi v1 v2 v3 v4
  obtain ⟨r, hr, hre⟩ := hein (bidx a.shape i) (bidx b.shape i)
  obtain ⟨p, hp, hrp⟩ := dotItem_rolled a b _ _ rfl rfl rfl rfl h1 h2 r hr
  have hTlen : T.length = (rolledShape1 a b).length := bshape_length hT
  have hjl : (o1 ++ o2 ++ d1 ++ d2).length + 1 = T.length := by
    rw [hTlen]
    have e1 := PMV.valid_length v1
    have e2 := PMV.valid_length v2
    have e3 := PMV.valid_length v3
    have e4 := PMV.valid_length v4
    simp only [rolledShape1, padShape1, List.length_append, List.length_eraseIdx, List.length_replicate,
      List.length_singleton] at e1 e2 ⊢
    split at e1 <;> split at e2 <;> split <;> omega
  rw [hget i _ (by omega) (by omega) hjl p hp, ← hrp, hre o1 o2 d1 d2 v1 v2 v3 v4]
  simp only [einsumRef, itemAt]
  have ho1 : o1.length = a.numer.length - 1 := by
    have := PMV.valid_length v1
    simp only [List.length_eraseIdx] at this
    split at this <;> omega
  congr 1
  funext t
  have e1 : insAt (a.numer.length - 1) t o1 = o1 ++ [t] := by
    simp [insAt, ← ho1]
  have e2 : insAt 0 t o2 = t :: o2 := by simp [insAt]
  rw [e1, e2]

end PMV.Dispatch
