import PMV.Gen.Tvl
import PMV.Gen.TvlRed
import PMV.Gen.Cmp
import PMV.Model.Logic3
import PMV.Props.C14
/-
  C14, translator tie (T2): the per-element functions REGENERATED from /repo's source
  (PMV/Gen/Tvl.lean, written by harness/c14_py2lean.py on every run) satisfy the documented truth
  tables.  Closed by evaluation over the complete finite domain (`decide`), so the statements are
  re-proved against what the code says now and are insensitive to rewrites that keep the meaning
  (e.g. what is stored underneath a mask).
-/
namespace PMV.Logic3


theorem gen_tvl_and_table : ∀ sf af sv sm av am : Bool,
    (sf = true → sm = false) → (af = true → am = false) →
    t3of (Gen.Tvl.tvl_and sf af sv sm av am) = kand (Cell.t3 ⟨sv, sm⟩) (Cell.t3 ⟨av, am⟩) := by
  decide

theorem gen_tvl_or_table : ∀ sf af sv sm av am : Bool,
    (sf = true → sm = false) → (af = true → am = false) →
    t3of (Gen.Tvl.tvl_or sf af sv sm av am) = kor (Cell.t3 ⟨sv, sm⟩) (Cell.t3 ⟨av, am⟩) := by
  decide

theorem gen_strict_and_table : ∀ sf af sv sm av am : Bool,
    t3of (Gen.Tvl.strict_and sf af sv sm av am)
      = strict2 (· && ·) (Cell.t3 ⟨sv, sm⟩) (Cell.t3 ⟨av, am⟩) := by
  decide

theorem gen_strict_or_table : ∀ sf af sv sm av am : Bool,
    t3of (Gen.Tvl.strict_or sf af sv sm av am)
      = strict2 (· || ·) (Cell.t3 ⟨sv, sm⟩) (Cell.t3 ⟨av, am⟩) := by
  decide

theorem gen_strict_xor_table : ∀ sf af sv sm av am : Bool,
    t3of (Gen.Tvl.strict_xor sf af sv sm av am)
      = strict2 (· ^^ ·) (Cell.t3 ⟨sv, sm⟩) (Cell.t3 ⟨av, am⟩) := by
  decide

theorem gen_strict_not_table : ∀ sf af sv sm av am : Bool,
    t3of (Gen.Tvl.strict_not sf af sv sm av am) = knot (Cell.t3 ⟨sv, sm⟩) := by
  decide

/-- the hand-written model and the regenerated functions agree observably -/
theorem gen_agrees_with_model_and : ∀ sf af sv sm av am : Bool,
    (sf = true → sm = false) → (af = true → am = false) →
    t3of (Gen.Tvl.tvl_and sf af sv sm av am) = (tvlAndCode sf af ⟨sv, sm⟩ ⟨av, am⟩).t3 := by
  decide

theorem gen_agrees_with_model_or : ∀ sf af sv sm av am : Bool,
    (sf = true → sm = false) → (af = true → am = false) →
    t3of (Gen.Tvl.tvl_or sf af sv sm av am) = (tvlOrCode sf af ⟨sv, sm⟩ ⟨av, am⟩).t3 := by
  decide


/-! #### lane reductions regenerated from the source (PMV/Gen/TvlRed.lean): each is the documented
reduction of its lane, for every lane length — the generated `*_fold` obligations (base and one-step
equations closed by `decide`, lifted by `PMV.Logic3.fold2`) restated against the specifications. -/

theorem gen_tvl_any_array (xs : List (Bool × Bool)) :
    t3of (Gen.Red.tvl_any_arr xs) = kany (xs.map pairT3) := Gen.Red.tvl_any_arr_fold xs

theorem gen_tvl_all_array (xs : List (Bool × Bool)) :
    t3of (Gen.Red.tvl_all_arr xs) = kall (xs.map pairT3) := Gen.Red.tvl_all_arr_fold xs

/-- scalar-mask branch: every element of the lane carries the mask bit `b` -/
theorem gen_tvl_any_scalar (b : Bool) (xs : List (Bool × Bool)) (h : ∀ c ∈ xs, (c.2 == b) = true) :
    t3of (Gen.Red.tvl_any_sca b xs) = kany (xs.map pairT3) := Gen.Red.tvl_any_sca_fold b xs h

theorem gen_tvl_all_scalar (b : Bool) (xs : List (Bool × Bool)) (h : ∀ c ∈ xs, (c.2 == b) = true) :
    t3of (Gen.Red.tvl_all_sca b xs) = kall (xs.map pairT3) := Gen.Red.tvl_all_sca_fold b xs h

theorem gen_any_array (xs : List (Bool × Bool)) :
    t3of (Gen.Red.any_arr xs) = ignAny (xs.map pairT3) := by
  rw [ignAny_fold]; exact Gen.Red.any_arr_fold xs

theorem gen_all_array (xs : List (Bool × Bool)) :
    t3of (Gen.Red.all_arr xs) = ignAll (xs.map pairT3) := by
  rw [ignAll_fold]; exact Gen.Red.all_arr_fold xs


/-! #### comparisons regenerated from the source (PMV/Gen/Cmp.lean): `==`, `!=` (qube.py), `<`, `<=`, `>`, `>=` (scalar.py)
and the mask rule of the tvl_ comparisons (tvl.py `_tvl_op`), in every representation configuration -/

/-- `==` as the code computes it now — Python-bool path, single-bool masks, array mask — is the documented table:
    both masked ⇒ equal, exactly one masked ⇒ unequal, else the comparison of the whole items -/
theorem gen_eq_table : ∀ c sm am : Bool,
    Gen.Cmp.eq_py c sm am = eqSpec c sm am ∧ Gen.Cmp.eq_sca c sm am = eqSpec c sm am ∧
    Gen.Cmp.eq_arr c sm am = eqSpec c sm am := by decide

/-- `!=` is the complement of `==` in every configuration (the raw comparison being the complement) -/
theorem gen_ne_table : ∀ c sm am : Bool,
    Gen.Cmp.ne_py (!c) sm am = !eqSpec c sm am ∧ Gen.Cmp.ne_sca (!c) sm am = !eqSpec c sm am ∧
    Gen.Cmp.ne_arr (!c) sm am = !eqSpec c sm am := by decide

/-- the values are compared with the right operator, WHOLE items are compared (`np.all` of `==`, `np.any` of `!=` over
    the item axes), incompatible operands give False / True instead of raising, and the results carry the truth-testing
    flags all() / any() -/
theorem gen_eq_ne_meta :
    Gen.Cmp.eq_sym = .eq ∧ Gen.Cmp.eq_itemred = .all ∧ Gen.Cmp.eq_incompat = some false ∧ Gen.Cmp.eq_truth = .ifAll ∧
    Gen.Cmp.ne_sym = .ne ∧ Gen.Cmp.ne_itemred = .any ∧ Gen.Cmp.ne_incompat = some true ∧ Gen.Cmp.ne_truth = .ifAny := by
  decide

/-- ordered comparisons: False wherever either side is masked, in all four configurations -/
theorem gen_ord_table : ∀ c sm am : Bool,
    (Gen.Cmp.lt_py c sm am = ordSpec c sm am ∧ Gen.Cmp.lt_pyb c sm am = ordSpec c sm am ∧
     Gen.Cmp.lt_sca c sm am = ordSpec c sm am ∧ Gen.Cmp.lt_arr c sm am = ordSpec c sm am) ∧
    (Gen.Cmp.le_py c sm am = ordSpec c sm am ∧ Gen.Cmp.le_pyb c sm am = ordSpec c sm am ∧
     Gen.Cmp.le_sca c sm am = ordSpec c sm am ∧ Gen.Cmp.le_arr c sm am = ordSpec c sm am) ∧
    (Gen.Cmp.gt_py c sm am = ordSpec c sm am ∧ Gen.Cmp.gt_pyb c sm am = ordSpec c sm am ∧
     Gen.Cmp.gt_sca c sm am = ordSpec c sm am ∧ Gen.Cmp.gt_arr c sm am = ordSpec c sm am) ∧
    (Gen.Cmp.ge_py c sm am = ordSpec c sm am ∧ Gen.Cmp.ge_pyb c sm am = ordSpec c sm am ∧
     Gen.Cmp.ge_sca c sm am = ordSpec c sm am ∧ Gen.Cmp.ge_arr c sm am = ordSpec c sm am) := by decide

theorem gen_ord_meta :
    Gen.Cmp.lt_sym = .lt ∧ Gen.Cmp.le_sym = .le ∧ Gen.Cmp.gt_sym = .gt ∧ Gen.Cmp.ge_sym = .ge ∧
    Gen.Cmp.lt_truth = .ifAll ∧ Gen.Cmp.le_truth = .ifAll ∧ Gen.Cmp.gt_truth = .ifAll ∧ Gen.Cmp.ge_truth = .ifAll := by
  decide

/-- tvl_ comparisons: masked exactly where either operand is -/
theorem gen_tvl_mask : ∀ sm am : Bool, Gen.Cmp.tvl_mask sm am = (sm || am) := by decide

/-- the regenerated `==` / `!=` / ordered functions agree with the hand-written model the driver executes -/
theorem gen_agrees_with_model_eq (sv av : List Int) (sm am : Bool) :
    Gen.Cmp.eq_arr (itemEq sv av) sm am = eqCode ⟨sv, sm⟩ ⟨av, am⟩ ∧
    Gen.Cmp.ne_arr (itemNe sv av) sm am = neCode ⟨sv, sm⟩ ⟨av, am⟩ := by
  have h := gen_eq_table (itemEq sv av) sm am
  have h' := gen_ne_table (itemEq sv av) sm am
  rw [← itemNe_eq_not_itemEq] at h'
  refine ⟨?_, ?_⟩
  · rw [h.2.2]; cases sm <;> cases am <;> simp [eqSpec, eqCode]
  · rw [h'.2.2]; cases sm <;> cases am <;> simp [eqSpec, neCode, itemNe_eq_not_itemEq]

theorem gen_agrees_with_model_ord (o : Ord) (s a : NCell) :
    Gen.Cmp.lt_arr (o.cmp s.v a.v) s.m a.m = ordCode o s a := by
  rw [(gen_ord_table (o.cmp s.v a.v) s.m a.m).1.2.2.2]
  cases h1 : s.m <;> cases h2 : a.m <;> simp [ordSpec, ordCode, h1, h2]

/-- `_compatible_arg` regenerated from the source: operands of one class are compatible iff their units can match, their
    WHOLE item shapes (numerator and denominator axes) are equal and their shapes broadcast — exactly these tests -/
theorem gen_compat_checks : Gen.Cmp.compat_checks = [.units, .item, .broadcast] := by decide

/-- … which is the hand-written `compatCode` the driver executes -/
theorem gen_agrees_with_model_compat (itemS itemA : List Nat) (ss sa : Shape) :
    compatOf Gen.Cmp.compat_checks itemS itemA ss sa = compatCode itemS itemA ss sa := by
  rw [gen_compat_checks]
  by_cases h : itemS = itemA <;> simp [compatOf, compatCode, h]

/-- truth testing regenerated from `Qube.__bool__`: the decision list is the documented one -/
theorem gen_bool_table : ∀ tAll tAny shaped masked : Bool,
    Gen.Cmp.bool_gen tAll tAny shaped masked = boolSpec tAll tAny shaped masked := by decide

/-- … and agrees with the hand-written `boolCode` the driver executes: for a comparison result (a flag is set) on any
    element list; for a plain object on its single element (shapeless) or any list (with a shape) -/
theorem gen_agrees_with_model_bool_flagged (tAll tAny shaped masked : Bool) (xs : List Cell) (h : tAll || tAny = true) :
    (Gen.Cmp.bool_gen tAll tAny shaped masked).run xs = boolCode tAll tAny (!shaped) xs := by
  rw [gen_bool_table]
  cases tAll <;> cases tAny <;> simp_all [boolSpec, BoolOut.run, boolCode]

theorem gen_agrees_with_model_bool_plain_shaped (masked : Bool) (xs : List Cell) :
    (Gen.Cmp.bool_gen false false true masked).run xs = boolCode false false false xs := by
  rw [gen_bool_table]; simp [boolSpec, BoolOut.run, boolCode]

theorem gen_agrees_with_model_bool_plain_shapeless (c : Cell) :
    (Gen.Cmp.bool_gen false false false c.m).run [c] = boolCode false false true [c] := by
  rw [gen_bool_table]
  cases h : c.m <;> simp [boolSpec, BoolOut.run, boolCode, h]

/-- the regenerated lane functions agree observably with the hand-written model the driver runs -/
theorem gen_agrees_with_model_tvl_any (xs : List Cell) :
    t3of (Gen.Red.tvl_any_arr (xs.map fun c => (c.v, c.m))) = (tvlAnyCode .array xs).t3 := by
  rw [gen_tvl_any_array, tvl_any_array]
  simp [pairT3, List.map_map, Function.comp_def]

end PMV.Logic3
