import PMV.Gen.Tvl
import PMV.Gen.TvlRed
import PMV.Model.Logic3
import PMV.Props.C14
/-
  C14, translator tie (T2): the per-element functions REGENERATED from /repo's source
  (PMV/Gen/Tvl.lean, written by harness/c14_py2lean.py on every run) satisfy the documented truth
  tables.  Closed by evaluation over the complete finite domain (`decide`), so the statements are
  re-proved against what the code says now and are insensitive to rewrites that keep the meaning
  (e.g. what is stored underneath a mask).
-/
namespace PMV.Logic3


theorem gen_tvl_and_table : ∀ sf af sv sm av am : Bool,
    (sf = true → sm = false) → (af = true → am = false) →
    t3of (Gen.Tvl.tvl_and sf af sv sm av am) = kand (Cell.t3 ⟨sv, sm⟩) (Cell.t3 ⟨av, am⟩) := by
  decide

theorem gen_tvl_or_table : ∀ sf af sv sm av am : Bool,
    (sf = true → sm = false) → (af = true → am = false) →
    t3of (Gen.Tvl.tvl_or sf af sv sm av am) = kor (Cell.t3 ⟨sv, sm⟩) (Cell.t3 ⟨av, am⟩) := by
  decide

theorem gen_strict_and_table : ∀ sf af sv sm av am : Bool,
    t3of (Gen.Tvl.strict_and sf af sv sm av am)
      = strict2 (· && ·) (Cell.t3 ⟨sv, sm⟩) (Cell.t3 ⟨av, am⟩) := by
  decide

theorem gen_strict_or_table : ∀ sf af sv sm av am : Bool,
    t3of (Gen.Tvl.strict_or sf af sv sm av am)
      = strict2 (· || ·) (Cell.t3 ⟨sv, sm⟩) (Cell.t3 ⟨av, am⟩) := by
  decide

theorem gen_strict_xor_table : ∀ sf af sv sm av am : Bool,
    t3of (Gen.Tvl.strict_xor sf af sv sm av am)
      = strict2 (· ^^ ·) (Cell.t3 ⟨sv, sm⟩) (Cell.t3 ⟨av, am⟩) := by
  decide

theorem gen_strict_not_table : ∀ sf af sv sm av am : Bool,
    t3of (Gen.Tvl.strict_not sf af sv sm av am) = knot (Cell.t3 ⟨sv, sm⟩) := by
  decide

/-- the hand-written model and the regenerated functions agree observably -/
theorem gen_agrees_with_model_and : ∀ sf af sv sm av am : Bool,
    (sf = true → sm = false) → (af = true → am = false) →
    t3of (Gen.Tvl.tvl_and sf af sv sm av am) = (tvlAndCode sf af ⟨sv, sm⟩ ⟨av, am⟩).t3 := by
  decide

theorem gen_agrees_with_model_or : ∀ sf af sv sm av am : Bool,
    (sf = true → sm = false) → (af = true → am = false) →
    t3of (Gen.Tvl.tvl_or sf af sv sm av am) = (tvlOrCode sf af ⟨sv, sm⟩ ⟨av, am⟩).t3 := by
  decide


/-! #### lane reductions regenerated from the source (PMV/Gen/TvlRed.lean): each is the documented
reduction of its lane, for every lane length — the generated `*_fold` obligations (base and one-step
equations closed by `decide`, lifted by `PMV.Logic3.fold2`) restated against the specifications. -/

theorem gen_tvl_any_array (xs : List (Bool × Bool)) :
    t3of (Gen.Red.tvl_any_arr xs) = kany (xs.map pairT3) := Gen.Red.tvl_any_arr_fold xs

theorem gen_tvl_all_array (xs : List (Bool × Bool)) :
    t3of (Gen.Red.tvl_all_arr xs) = kall (xs.map pairT3) := Gen.Red.tvl_all_arr_fold xs

/-- scalar-mask branch: every element of the lane carries the mask bit `b` -/
theorem gen_tvl_any_scalar (b : Bool) (xs : List (Bool × Bool)) (h : ∀ c ∈ xs, (c.2 == b) = true) :
    t3of (Gen.Red.tvl_any_sca b xs) = kany (xs.map pairT3) := Gen.Red.tvl_any_sca_fold b xs h

theorem gen_tvl_all_scalar (b : Bool) (xs : List (Bool × Bool)) (h : ∀ c ∈ xs, (c.2 == b) = true) :
    t3of (Gen.Red.tvl_all_sca b xs) = kall (xs.map pairT3) := Gen.Red.tvl_all_sca_fold b xs h

theorem gen_any_array (xs : List (Bool × Bool)) :
    t3of (Gen.Red.any_arr xs) = ignAny (xs.map pairT3) := by
  rw [ignAny_fold]; exact Gen.Red.any_arr_fold xs

theorem gen_all_array (xs : List (Bool × Bool)) :
    t3of (Gen.Red.all_arr xs) = ignAll (xs.map pairT3) := by
  rw [ignAll_fold]; exact Gen.Red.all_arr_fold xs

/-- the regenerated lane functions agree observably with the hand-written model the driver runs -/
theorem gen_agrees_with_model_tvl_any (xs : List Cell) :
    t3of (Gen.Red.tvl_any_arr (xs.map fun c => (c.v, c.m))) = (tvlAnyCode .array xs).t3 := by
  rw [gen_tvl_any_array, tvl_any_array]
  simp [pairT3, List.map_map, Function.comp_def]

end PMV.Logic3
