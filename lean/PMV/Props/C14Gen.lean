import PMV.Gen.Tvl
import PMV.Model.Logic3
/-
  C14, translator tie (T2): the per-element functions REGENERATED from /repo's source
  (PMV/Gen/Tvl.lean, written by harness/c14_py2lean.py on every run) satisfy the documented truth
  tables.  Closed by evaluation over the complete finite domain (`decide`), so the statements are
  re-proved against what the code says now and are insensitive to rewrites that keep the meaning
  (e.g. what is stored underneath a mask).
-/
namespace PMV.Logic3

def t3of (p : Bool × Bool) : T3 := Cell.t3 ⟨p.1, p.2⟩

theorem gen_tvl_and_table : ∀ sf af sv sm av am : Bool,
    (sf = true → sm = false) → (af = true → am = false) →
    t3of (Gen.Tvl.tvl_and sf af sv sm av am) = kand (Cell.t3 ⟨sv, sm⟩) (Cell.t3 ⟨av, am⟩) := by
  decide

theorem gen_tvl_or_table : ∀ sf af sv sm av am : Bool,
    (sf = true → sm = false) → (af = true → am = false) →
    t3of (Gen.Tvl.tvl_or sf af sv sm av am) = kor (Cell.t3 ⟨sv, sm⟩) (Cell.t3 ⟨av, am⟩) := by
  decide

theorem gen_strict_and_table : ∀ sf af sv sm av am : Bool,
    t3of (Gen.Tvl.strict_and sf af sv sm av am)
      = strict2 (· && ·) (Cell.t3 ⟨sv, sm⟩) (Cell.t3 ⟨av, am⟩) := by
  decide

theorem gen_strict_or_table : ∀ sf af sv sm av am : Bool,
    t3of (Gen.Tvl.strict_or sf af sv sm av am)
      = strict2 (· || ·) (Cell.t3 ⟨sv, sm⟩) (Cell.t3 ⟨av, am⟩) := by
  decide

theorem gen_strict_xor_table : ∀ sf af sv sm av am : Bool,
    t3of (Gen.Tvl.strict_xor sf af sv sm av am)
      = strict2 (· ^^ ·) (Cell.t3 ⟨sv, sm⟩) (Cell.t3 ⟨av, am⟩) := by
  decide

theorem gen_strict_not_table : ∀ sf af sv sm av am : Bool,
    t3of (Gen.Tvl.strict_not sf af sv sm av am) = knot (Cell.t3 ⟨sv, sm⟩) := by
  decide

/-- the hand-written model and the regenerated functions agree observably -/
theorem gen_agrees_with_model_and : ∀ sf af sv sm av am : Bool,
    (sf = true → sm = false) → (af = true → am = false) →
    t3of (Gen.Tvl.tvl_and sf af sv sm av am) = (tvlAndCode sf af ⟨sv, sm⟩ ⟨av, am⟩).t3 := by
  decide

theorem gen_agrees_with_model_or : ∀ sf af sv sm av am : Bool,
    (sf = true → sm = false) → (af = true → am = false) →
    t3of (Gen.Tvl.tvl_or sf af sv sm av am) = (tvlOrCode sf af ⟨sv, sm⟩ ⟨av, am⟩).t3 := by
  decide

end PMV.Logic3
