import PMV.Lemmas.PolyRing
import PMV.Lemmas.PolyRoots
import PMV.Lemmas.PolyHigh
import Mathlib.Analysis.Real.Sqrt
import Mathlib.Tactic.NormNum
/-
  C20 — Polynomial arithmetic, evaluation, differentiation and roots are consistent.
  Property theorems only.  The definitions they speak about (`addC`, `mulC`, `powC`, `derivC`,
  `evalC`, `rootsLinear`, `rootsQuadratic`, `rootsPost`, `rootsHigh`, …) are the code-shaped ones of
  `PMV/Model/Poly.lean` that the driver executes; `toPoly` reads a coefficient list (decreasing
  exponents, as stored) as an element of Mathlib's `K[X]`.

  Ring part: any commutative ring `K`, any list lengths (orders).
  Roots part: any linearly ordered field `F` with a function `s` satisfying the square-root
  contract `SqrtSpec s` (ℝ with `Real.sqrt` is the intended instance; float64 rounding is outside).
-/
set_option linter.unusedSectionVars false
open Polynomial
namespace PMV.Poly

/-! ### Ring operations are the ring operations of `K[X]` -/
section Ring
variable {K : Type} [CommRing K]

/-- `at_least_order` / `set_order` pad with leading zeros only: the polynomial is unchanged -/
theorem toPoly_atLeastOrder_eq (n : Nat) (p : List K) : toPoly (atLeastOrder n p) = toPoly p :=
  toPoly_atLeastOrder n p

theorem toPoly_setOrder (n : Nat) (p q : List K) (h : setOrder n p = some q) : toPoly q = toPoly p := by
  unfold setOrder at h
  split at h
  · cases h
  · cases h; exact toPoly_atLeastOrder n p

/-- `p + q` (operands of any two orders): alignment by left zero padding, then element-wise sum -/
theorem toPoly_add (p q : List K) (hp : p ≠ []) (hq : q ≠ []) :
    toPoly (addC p q) = toPoly p + toPoly q := by
  have hl := align_length p q hp hq
  show toPoly (List.zipWith (· + ·) (align p q).1 (align p q).2) = _
  rw [toPoly_zipWith_add _ _ hl]
  simp only [align, toPoly_atLeastOrder]

theorem toPoly_sub (p q : List K) (hp : p ≠ []) (hq : q ≠ []) :
    toPoly (subC p q) = toPoly p - toPoly q := by
  have hl := align_length p q hp hq
  show toPoly (List.zipWith (· - ·) (align p q).1 (align p q).2) = _
  rw [toPoly_zipWith_sub _ _ hl]
  simp only [align, toPoly_atLeastOrder]

theorem toPoly_neg (p : List K) : toPoly (negC p) = - toPoly p := toPoly_map_neg p

/-- `p * number`, `number * p` -/
theorem toPoly_scale (k : K) (p : List K) : toPoly (scaleC k p) = C k * toPoly p := by
  induction p with
  | nil => simp [scaleC]
  | cons a p ih =>
    unfold scaleC at ih ⊢
    rw [List.map_cons, toPoly_cons, toPoly_cons, ih, List.length_map, C_mul]; ring

/-- `p + number`, `number - p`, …: the number is the order-0 polynomial `[k]` (`as_polynomial`) -/
theorem toPoly_add_number (p : List K) (k : K) (hp : p ≠ []) : toPoly (addC p [k]) = toPoly p + C k := by
  rw [toPoly_add p [k] hp (by simp), toPoly_singleton]

/-- the reversed shifted-accumulate loop of `__mul__` computes the product, for all orders -/
theorem toPoly_mul (p q : List K) : toPoly (mulC p q) = toPoly p * toPoly q := toPoly_mulC p q

/-- `p ** n` by repeated multiplication is the `n`-th power, for every `n` -/
theorem toPoly_pow (p : List K) (n : Nat) : toPoly (powC p n) = toPoly p ^ n := by
  match n with
  | 0 => simp [powC, toPoly_singleton]
  | 1 => simp [powC]
  | n + 2 => simp only [powC]; rw [toPoly_powLoop, toPoly_mulC]; ring

/-- the result of a binary operator has the larger of the two orders (no coefficient is lost) -/
theorem length_addC (p q : List K) (hp : p ≠ []) (hq : q ≠ []) :
    (addC p q).length = max p.length q.length := by
  have h1 : 0 < p.length := List.length_pos_iff.mpr hp
  have h2 : 0 < q.length := List.length_pos_iff.mpr hq
  show (List.zipWith (· + ·) (atLeastOrder (order (atLeastOrder (order p) q)) p) (atLeastOrder (order p) q)).length = _
  rw [List.length_zipWith, length_atLeastOrder _ _ hp, length_atLeastOrder _ _ hq]
  simp only [order]
  rw [length_atLeastOrder _ _ hq]
  omega

/-- the product has order `order p + order q` -/
theorem length_mulC (p q : List K) : (mulC p q).length = order p + order q + 1 := by
  have aux : ∀ (sr cs : List K) (k : Nat) (acc : List K), (mulLoop sr cs k acc).length = acc.length := by
    intro sr cs
    induction cs with
    | nil => intro k acc; rfl
    | cons c cs ih => intro k acc; simp only [mulLoop]; rw [ih, length_addAt]
  unfold mulC
  simp only [List.length_reverse, aux, List.length_replicate]

/-! ### eval: Horner value, `Polynomial.eval`, and the homomorphism laws -/

/-- powers-list + dot (the repaired `eval`) returns the Horner value NumPy's `polyval` computes -/
theorem eval_eq_horner (p : List K) (x : K) : evalC p x = horner p x := evalC_eq_horner' p x

/-- … which is the evaluation of the denoted polynomial -/
theorem eval_eq_polyEval (p : List K) (x : K) : evalC p x = eval x (toPoly p) := by
  rw [eval_eq_horner, eval_toPoly]

/-- evaluating a sum / difference / negation / product / power equals combining the evaluations -/
theorem eval_add (p q : List K) (hp : p ≠ []) (hq : q ≠ []) (x : K) :
    evalC (addC p q) x = evalC p x + evalC q x := by
  simp only [eval_eq_polyEval, toPoly_add p q hp hq, Polynomial.eval_add]

theorem eval_sub (p q : List K) (hp : p ≠ []) (hq : q ≠ []) (x : K) :
    evalC (subC p q) x = evalC p x - evalC q x := by
  simp only [eval_eq_polyEval, toPoly_sub p q hp hq, Polynomial.eval_sub]

theorem eval_neg (p : List K) (x : K) : evalC (negC p) x = - evalC p x := by
  simp only [eval_eq_polyEval, toPoly_neg, Polynomial.eval_neg]

theorem eval_mul (p q : List K) (x : K) : evalC (mulC p q) x = evalC p x * evalC q x := by
  simp only [eval_eq_polyEval, toPoly_mul, Polynomial.eval_mul]

theorem eval_pow (p : List K) (n : Nat) (x : K) : evalC (powC p n) x = evalC p x ^ n := by
  simp only [eval_eq_polyEval, toPoly_pow, Polynomial.eval_pow]

/-- `eval` leaves its argument untouched: in the heap view the repaired powers loop only allocates
    new objects — every pre-existing object (the caller's `x` at `xr` among them) keeps its value —
    and the value computed from the new objects is `evalC` at the ORIGINAL `x`. -/
theorem eval_frame (h : List K) (xr : Nat) (p : List K) (hx : xr < h.length) :
    (evalFixedHeap h xr p).2.take h.length = h ∧ (evalFixedHeap h xr p).1 = evalC p (h.getD xr 0) := by
  have hs := fixedLoop_spec xr (order p) h [] (1 : K) hx
  simp only [List.append_nil] at hs
  simp only [evalFixedHeap, hs, List.take_left', List.drop_left', evalC, and_self]

/-- the pinned-tree loop (`x_power = x; x_power *= x`) violates both halves: for p = x² + 2x + 3 at
    x = 2 it returns 15 instead of 11 and leaves 4 in the caller's `x` (replayed on the pinned code:
    `Polynomial([1.,2.,3.]).eval(x)` → `Scalar(15.0)`, `x == Scalar(4.0)`; DESIGN §2.7 #11, repaired) -/
theorem eval_pinned_counterexample :
    evalPinnedHeap [(2 : Int)] 0 [1, 2, 3] = (15, [4]) ∧ evalC [1, 2, (3 : Int)] 2 = 11 := by decide

/-- masks: every binary operation and `eval` mask exactly where an operand is masked -/
theorem mask_rules (a b : PCell K) (x : SCell K) :
    (a.add b).m = (a.m || b.m) ∧ (a.sub b).m = (a.m || b.m) ∧ (a.mul b).m = (a.m || b.m) ∧
    a.neg.m = a.m ∧ a.deriv.m = a.m ∧ (a.eval x).m = (a.m || x.m) :=
  ⟨rfl, rfl, rfl, rfl, rfl, rfl⟩

/-! ### deriv is the formal derivative -/

theorem toPoly_deriv (p : List K) : toPoly (derivC p) = derivative (toPoly p) := by
  unfold derivC
  split
  · rename_i h
    have hp : p = [] ∨ ∃ c, p = [c] := by
      match p, h with
      | [], _ => exact Or.inl rfl
      | [c], _ => exact Or.inr ⟨c, rfl⟩
      | _ :: _ :: _, h => simp [order] at h
    rcases hp with rfl | ⟨c, rfl⟩
    · simp
    · simp [toPoly_singleton]
  · exact toPoly_derivCore p

/-- `deriv` lowers the order by one (order 0 stays order 0) -/
theorem length_derivC (p : List K) : (derivC p).length = max (p.length - 1) (min p.length 1) := by
  unfold derivC
  split
  · rename_i h; simp only [order] at h; simp only [List.length_map]; omega
  · rename_i h; simp only [order] at h
    have := length_derivCore p
    unfold derivCore at this
    simp only [order]
    rw [this]; omega

/-! ### Derivatives of the coefficients and of the evaluation point -/

/-- the value part of `eval` is not affected by derivatives -/
theorem eval_deriv_value (p dp : List K) (x dx : K) : (evalD p dp x dx).1 = evalC p x := evalD_fst p dp x dx

/-- the derivative `eval` attaches to its result (through the product rule of every `x_power * x`
    and the two `dot` terms) is the total derivative `(dp/dt)(x) + p'(x)·dx/dt`, for every order -/
theorem eval_deriv_rule (p dp : List K) (x dx : K) (hp : p ≠ []) (hl : dp.length = p.length) :
    (evalD p dp x dx).2 = evalC dp x + evalC (derivC p) x * dx := by
  rw [evalD_snd p dp x dx hp hl, eval_eq_polyEval, eval_eq_polyEval, toPoly_deriv]

/-- the derivative attached to a product is the Leibniz formula in `K[X]` -/
theorem mul_deriv_rule (p dp q dq : List K) :
    toPoly (mulDerivC p dp q dq) = toPoly q * toPoly dp + toPoly p * toPoly dq := by
  have h1 : mulC q dp ≠ [] := by
    intro h; have := length_mulC q dp; rw [h] at this; simp at this
  have h2 : mulC p dq ≠ [] := by
    intro h; have := length_mulC p dq; rw [h] at this; simp at this
  unfold mulDerivC
  rw [toPoly_add _ _ h1 h2, toPoly_mul, toPoly_mul]

end Ring

/-- the derivative `roots()` attaches to a root, `dx/dt = −(dp/dt)(x) / p'(x)`, makes the total
    derivative of `p(x(t), t)` vanish (implicit differentiation), wherever `p'(x) ≠ 0` -/
theorem root_deriv_rule {F : Type} [Field F] (p dp : List F) (x : F) (hp : p ≠ []) (hl : dp.length = p.length)
    (h : evalC (derivC p) x ≠ 0) : (evalD p dp x (rootDeriv p dp x)).2 = 0 := by
  rw [eval_deriv_rule p dp x _ hp hl, rootDeriv]
  field_simp
  ring

/-! ### Roots -/
section Roots
variable {F : Type} [Field F] [LinearOrder F] [IsStrictOrderedRing F] (s : F → F)

/-- order 1: the single returned value is unmasked exactly when it is the root `-b/a` -/
theorem root_linear (a b x : F) (hnz : ¬ (a = 0 ∧ b = 0)) :
    UVal (@rootsLinear F _ _ _ _ (fieldOps s) ⟨a, false⟩ ⟨b, false⟩) x ↔ a * x + b = 0 :=
  rootsLinear_spec s a b x hnz

/-- order 1, masked polynomial: masked root -/
theorem root_linear_masked (a b : F) :
    ∀ u ∈ @rootsLinear F _ _ _ _ (fieldOps s) ⟨a, true⟩ ⟨b, true⟩, u.m = true := by
  intro u hu
  simp only [rootsLinear, SCell.div, SCell.neg, List.mem_singleton] at hu
  subst hu; rfl

/-- order 2 (`solve_quadratic` + duplicate masking + sort): for a polynomial that is not identically
    zero the unmasked returned values are EXACTLY the real roots of `a x² + b x + c` (this covers
    `a = 0`, i.e. a leading zero), two entries are returned, strictly increasing (hence
    duplicate-free) with masked entries last. -/
theorem roots_quadratic (hs : SqrtSpec s) (a b c : F) (hnz : ¬ (a = 0 ∧ b = 0 ∧ c = 0)) :
    let R := @rootsQuadratic F _ _ _ _ _ _ _ (fieldOps s) ⟨a, false⟩ ⟨b, false⟩ ⟨c, false⟩
    R.length = 2 ∧ StrictAsc R ∧ ∀ x, UVal R x ↔ a * x * x + b * x + c = 0 := by
  intro R
  have hR : R = @sortCells F (fieldOps s) (quadCells s ⟨a, false⟩ ⟨b, false⟩ ⟨c, false⟩) := rfl
  refine ⟨?_, ?_, ?_⟩
  · rw [hR, (sortCells_perm s _).length_eq]; rfl
  · rw [hR]; exact sortCells_strict s _ (quadCells_distinct s _ _ _)
  · intro x
    rw [hR, UVal_perm (sortCells_perm s _)]
    exact quadCells_unmasked_iff s hs a b c x hnz

/-- order 2: the result is sorted and duplicate-free whatever the operands (masked or not) -/
theorem roots_quadratic_sorted (a b c : SCell F) :
    StrictAsc (@rootsQuadratic F _ _ _ _ _ _ _ (fieldOps s) a b c) := by
  rw [rootsQuadratic_eq]; exact sortCells_strict s _ (quadCells_distinct s _ _ _)

/-- order 2, masked polynomial: both entries masked -/
theorem roots_quadratic_masked (a b c : F) :
    ∀ u ∈ @rootsQuadratic F _ _ _ _ _ _ _ (fieldOps s) ⟨a, true⟩ ⟨b, true⟩ ⟨c, true⟩, u.m = true := by
  intro u hu
  rw [rootsQuadratic_eq] at hu
  exact quadCells_masked s a b c u ((sortCells_perm s _).mem_iff.mp hu)

/-- order 2: no real root (negative discriminant) ⇒ both entries masked -/
theorem roots_quadratic_no_real (a b c : F) (hD : b * b - 4 * a * c < 0) :
    ∀ u ∈ @rootsQuadratic F _ _ _ _ _ _ _ (fieldOps s) ⟨a, false⟩ ⟨b, false⟩ ⟨c, false⟩, u.m = true := by
  intro u hu
  rw [rootsQuadratic_eq] at hu
  have hu' := (sortCells_perm s _).mem_iff.mp hu
  have hD' : qDiscr a b c < 0 := by unfold qDiscr; linarith
  obtain ⟨h0, h1⟩ := solveQuadratic_neg s a b c hD'
  simp only [quadCells, List.mem_cons, List.not_mem_nil, or_false] at hu'
  rcases hu' with rfl | rfl
  · exact h0
  · simp [SCell.maskIf, h1]

/-- order 2: positive discriminant (and `a ≠ 0`) ⇒ both entries unmasked: two distinct real roots
    (together with `roots_quadratic`: they are the two roots, in increasing order) -/
theorem roots_quadratic_two (hs : SqrtSpec s) (a b c : F) (ha : a ≠ 0) (hD : 0 < b * b - 4 * a * c) :
    ∀ u ∈ @rootsQuadratic F _ _ _ _ _ _ _ (fieldOps s) ⟨a, false⟩ ⟨b, false⟩ ⟨c, false⟩, u.m = false := by
  intro u hu
  rw [rootsQuadratic_eq] at hu
  have hD' : 0 < qDiscr a b c := by unfold qDiscr; linarith
  exact quadCells_two s hs a b c ha hD' u ((sortCells_perm s _).mem_iff.mp hu)

/-- order ≥ 3, post-processing of the eigenvalues (complex → masked, the first `k` entries — the
    extraneous zeros of shifted-out leading coefficients — masked, sort, duplicate masking, sort):
    as many entries as eigenvalues, strictly increasing with masked entries last, and the unmasked
    values are EXACTLY the real eigenvalues among the entries after the first `k`. -/
theorem roots_postprocess (k : Nat) (eig : List (F × F)) :
    let R := @rootsPost F _ (fieldOps s) false k eig
    R.length = eig.length ∧ StrictAsc R ∧ ∀ x, UVal R x ↔ ∃ z ∈ eig.drop k, z.2 = 0 ∧ z.1 = x :=
  ⟨rootsPost_length s false k eig, rootsPost_strict s false k eig, rootsPost_UVal s k eig⟩

/-- masked polynomial (or all-zero polynomial, which the code masks): every entry masked -/
theorem roots_postprocess_masked (k : Nat) (eig : List (F × F)) :
    let R := @rootsPost F _ (fieldOps s) true k eig
    R.length = eig.length ∧ StrictAsc R ∧ ∀ u ∈ R, u.m = true :=
  ⟨rootsPost_length s true k eig, rootsPost_strict s true k eig, rootsPost_masked s k eig⟩

/-- order ≥ 3, preparation (polynomial.py:391-431) for a polynomial that is not identically zero:
    the mask is kept, the `k` leading zero coefficients are shifted out to the end -/
theorem roots_prepare (p : PCell F) (hnz : ∃ x ∈ p.c, x ≠ 0) :
    @prepHigh F _ _ (fieldOps s) p =
      (p.m, leadZeros p.c, p.c.dropWhile isZ ++ List.replicate (leadZeros p.c) 0) :=
  prepHigh_spec s p hnz

/-- … so the coefficient list handed on denotes `x^k · p`: exactly `k` extraneous zero roots -/
theorem roots_shifted_poly (c : List F) :
    toPoly (c.dropWhile isZ ++ List.replicate (leadZeros c) 0) = toPoly c * X ^ leadZeros c :=
  toPoly_shifted c

/-- … and the first row of the matrix given to `eigvals` is the companion row of its monic
    normalisation: `c₀ · (xⁿ − row(x))` is the shifted polynomial -/
theorem roots_companion_row (c0 : F) (rest : List F) (h0 : c0 ≠ 0) :
    C c0 * (X ^ rest.length - toPoly (@companionRow F _ _ (c0 :: rest))) = toPoly (c0 :: rest) :=
  toPoly_companionRow c0 rest h0

/-- all-zero polynomials are masked (polynomial.py:407-413) -/
theorem roots_high_zero (eigvals : List F → List (F × F)) (p : PCell F) (hz : ∀ x ∈ p.c, x = 0) :
    ∀ u ∈ @rootsHigh F _ _ _ _ (fieldOps s) eigvals p, u.m = true := by
  have hall : (p.c.all fun x => @RootOps.beq F (fieldOps s) x 0) = true := by
    rw [List.all_eq_true]; intro x hx; simp [ops_beq, hz x hx]
  have hpm : (@prepHigh F _ _ (fieldOps s) p).1 = true := by
    simp only [prepHigh, hall, Bool.or_true]
  have hR : @rootsHigh F _ _ _ _ (fieldOps s) eigvals p =
      @rootsPost F _ (fieldOps s) (@prepHigh F _ _ (fieldOps s) p).1 (@prepHigh F _ _ (fieldOps s) p).2.1
      (eigvals (companionRow (@prepHigh F _ _ (fieldOps s) p).2.2)) := rfl
  rw [hR, hpm]
  exact rootsPost_masked s _ _

/-- order ≥ 3 end to end, under the LAPACK contract: if, for the companion row of the shifted
    polynomial `x^k · p`, `eigvals` returns the `k` extraneous zeros first and then a list whose real
    members are exactly the real roots of `p`, then `roots()` returns exactly the real roots of `p`,
    strictly increasing (duplicate-free), masked entries last, one entry per eigenvalue.
    -- FULL: the same without the hypothesis `contract` (that the eigenvalues of the companion matrix
    are the roots of its characteristic polynomial, that LAPACK computes them and lists isolated zero
    eigenvalues first) — outside the model: LAPACK is a parameter; see DESIGN.d/C20.md §6. -/
theorem roots_high_partial (eigvals : List F → List (F × F)) (p : PCell F) (hm : p.m = false)
    (hnz : ∃ c ∈ p.c, c ≠ 0)
    (contract : ∀ x : F, (∃ z ∈ (eigvals (companionRow
        (p.c.dropWhile isZ ++ List.replicate (leadZeros p.c) 0))).drop (leadZeros p.c), z.2 = 0 ∧ z.1 = x)
          ↔ evalC p.c x = 0) :
    let R := @rootsHigh F _ _ _ _ (fieldOps s) eigvals p
    R.length = (eigvals (companionRow (p.c.dropWhile isZ ++ List.replicate (leadZeros p.c) 0))).length ∧
    StrictAsc R ∧ ∀ x, UVal R x ↔ evalC p.c x = 0 := by
  intro R
  have hR : R = @rootsPost F _ (fieldOps s) (@prepHigh F _ _ (fieldOps s) p).1 (@prepHigh F _ _ (fieldOps s) p).2.1
      (eigvals (companionRow (@prepHigh F _ _ (fieldOps s) p).2.2)) := rfl
  rw [hR, prepHigh_spec s p hnz, hm]
  exact ⟨rootsPost_length s false _ _, rootsPost_strict s false _ _,
    fun x => (rootsPost_UVal s _ _ x).trans (contract x)⟩

/-- masked polynomial of order ≥ 3: every entry masked -/
theorem roots_high_masked (eigvals : List F → List (F × F)) (p : PCell F) (hm : p.m = true) :
    ∀ u ∈ @rootsHigh F _ _ _ _ (fieldOps s) eigvals p, u.m = true := by
  have hpm : (@prepHigh F _ _ (fieldOps s) p).1 = true := by
    simp only [prepHigh, hm, Bool.true_or]
  have hR : @rootsHigh F _ _ _ _ (fieldOps s) eigvals p =
      @rootsPost F _ (fieldOps s) (@prepHigh F _ _ (fieldOps s) p).1 (@prepHigh F _ _ (fieldOps s) p).2.1
      (eigvals (companionRow (@prepHigh F _ _ (fieldOps s) p).2.2)) := rfl
  rw [hR, hpm]
  exact rootsPost_masked s _ _

end Roots

/-! ### The real numbers are an instance -/

/-- `Real.sqrt` satisfies the square-root contract -/
theorem sqrtSpec_real : SqrtSpec Real.sqrt :=
  ⟨fun d _ => Real.sqrt_nonneg d, fun _ h => Real.mul_self_sqrt h⟩

/-- `roots()` of a real quadratic (not identically zero): exactly the distinct real roots,
    increasing, masked entries last -/
theorem roots_quadratic_real (a b c : ℝ) (hnz : ¬ (a = 0 ∧ b = 0 ∧ c = 0)) :
    let R := @rootsQuadratic ℝ _ _ _ _ _ _ _ (fieldOps Real.sqrt) ⟨a, false⟩ ⟨b, false⟩ ⟨c, false⟩
    R.length = 2 ∧ StrictAsc R ∧ ∀ x, UVal R x ↔ a * x * x + b * x + c = 0 :=
  roots_quadratic Real.sqrt sqrtSpec_real a b c hnz

-- non-vacuity of the hypotheses
example : ¬ ((1 : ℝ) = 0 ∧ (-3 : ℝ) = 0 ∧ (2 : ℝ) = 0) := by norm_num
example : ¬ ((0 : ℝ) = 0 ∧ (2 : ℝ) = 0) := by norm_num
example : (1 : ℝ) * 1 - 4 * 1 * 1 < 0 := by norm_num

/-- an instance of the `eigvals` contract of `roots_high_partial`: x³ − 6x² + 11x − 6 with the
    eigenvalues 1, 2, 3 (no leading zeros, nothing dropped) -/
example : ∀ x : ℚ, (∃ z ∈ ((fun _ => [((1 : ℚ), (0 : ℚ)), (2, 0), (3, 0)])
      (companionRow (([1, -6, 11, -6] : List ℚ).dropWhile isZ ++ List.replicate (leadZeros [1, -6, 11, (-6 : ℚ)]) 0))).drop
        (leadZeros [1, -6, 11, (-6 : ℚ)]), z.2 = 0 ∧ z.1 = x) ↔ evalC [1, -6, 11, (-6 : ℚ)] x = 0 := by
  intro x
  have hz : leadZeros [1, -6, 11, (-6 : ℚ)] = 0 := by simp [leadZeros, isZ]
  have he : evalC [1, -6, 11, (-6 : ℚ)] x = (x - 1) * (x - 2) * (x - 3) := by
    simp [evalC, dot, powers, order]; ring
  rw [hz, he]
  simp only [List.drop_zero, List.mem_cons, List.not_mem_nil, or_false]
  constructor
  · rintro ⟨z, (rfl | rfl | rfl), _, rfl⟩ <;> simp
  · intro h
    rcases mul_eq_zero.mp h with h | h
    · rcases mul_eq_zero.mp h with h | h
      · exact ⟨(1, 0), Or.inl rfl, rfl, by linarith⟩
      · exact ⟨(2, 0), Or.inr (Or.inl rfl), rfl, by linarith⟩
    · exact ⟨(3, 0), Or.inr (Or.inr rfl), rfl, by linarith⟩

/-! ### Non-vacuity: concrete instances -/

example : toPoly (addC [1, 2, 3] [5, (7 : ℤ)]) = toPoly [1, 2, 3] + toPoly [5, 7] :=
  toPoly_add _ _ (by simp) (by simp)
example : mulC [1, 2, (3 : ℤ)] [1, 1] = [1, 3, 5, 3] := by decide
example : powC [1, (1 : ℤ)] 3 = [1, 3, 3, 1] := by decide
example : derivC [1, 2, 3, (4 : ℤ)] = [3, 4, 3] := by decide
example : evalC [1, 2, (3 : ℤ)] 2 = 11 := by decide
example : evalFixedHeap [(7 : ℤ), 2] 1 [1, 2, 3] = (11, [7, 2, 1, 2, 4]) := by decide
example : addC [1, 2, 3] [5, (7 : ℤ)] = [1, 7, 10] := by decide
-- p = x² + 2x + 3 with dp/dt = 1 (constant term), x = 2 with dx/dt = 1: value 11, derivative 1 + (2·2+2)·1 = 7
example : evalD [1, 2, (3 : ℤ)] [0, 0, 1] 2 1 = (11, 7) := by decide
example : mulDerivC [1, (1 : ℤ)] [0, 1] [1, 2] [0, 0] = [0, 1, 2] := by decide

end PMV.Poly
