import PMV.Lemmas.PolyRing
import PMV.Lemmas.PolyRoots
import PMV.Lemmas.PolyHigh
import PMV.Lemmas.Bcast
import Mathlib.Analysis.Real.Sqrt
import Mathlib.Tactic.NormNum
/-
  C20 — Polynomial arithmetic, evaluation, differentiation and roots are consistent.
  Property theorems only.  The definitions they speak about (`addC`, `mulC`, `powC`, `derivC`,
  `evalC`, `rootsLinear`, `rootsQuadratic`, `rootsPost`, `rootsHigh`, …) are the code-shaped ones of
  `PMV/Model/Poly.lean` that the driver executes; `toPoly` reads a coefficient list (decreasing
  exponents, as stored) as an element of Mathlib's `K[X]`.

  Ring part: any commutative ring `K`, any list lengths (orders).
  Roots part: any linearly ordered field `F` with a function `s` satisfying the square-root
  contract `SqrtSpec s` (ℝ with `Real.sqrt` is the intended instance; float64 rounding is outside).
-/
set_option linter.unusedSectionVars false
open Polynomial
namespace PMV.Poly

/-! ### Ring operations are the ring operations of `K[X]` -/
section Ring
variable {K : Type} [CommRing K]

/-- `at_least_order` / `set_order` pad with leading zeros only: the polynomial is unchanged -/
theorem toPoly_atLeastOrder_eq (n : Nat) (p : List K) : toPoly (atLeastOrder n p) = toPoly p :=
  toPoly_atLeastOrder n p

theorem toPoly_setOrder (n : Nat) (p q : List K) (h : setOrder n p = some q) : toPoly q = toPoly p := by
  unfold setOrder at h
  split at h
  · cases h
  · cases h; exact toPoly_atLeastOrder n p

/-- `p + q` (operands of any two orders): alignment by left zero padding, then element-wise sum -/
theorem toPoly_add (p q : List K) (hp : p ≠ []) (hq : q ≠ []) :
    toPoly (addC p q) = toPoly p + toPoly q := by
  have hl := align_length p q hp hq
  show toPoly (List.zipWith (· + ·) (align p q).1 (align p q).2) = _
  rw [toPoly_zipWith_add _ _ hl]
  simp only [align, toPoly_atLeastOrder]

theorem toPoly_sub (p q : List K) (hp : p ≠ []) (hq : q ≠ []) :
    toPoly (subC p q) = toPoly p - toPoly q := by
  have hl := align_length p q hp hq
  show toPoly (List.zipWith (· - ·) (align p q).1 (align p q).2) = _
  rw [toPoly_zipWith_sub _ _ hl]
  simp only [align, toPoly_atLeastOrder]

theorem toPoly_neg (p : List K) : toPoly (negC p) = - toPoly p := toPoly_map_neg p

/-- `p * number`, `number * p` -/
theorem toPoly_scale (k : K) (p : List K) : toPoly (scaleC k p) = C k * toPoly p := by
  induction p with
  | nil => simp [scaleC]
  | cons a p ih =>
    unfold scaleC at ih ⊢
    rw [List.map_cons, toPoly_cons, toPoly_cons, ih, List.length_map, C_mul]; ring

/-- `p + number`, `number - p`, …: the number is the order-0 polynomial `[k]` (`as_polynomial`) -/
theorem toPoly_add_number (p : List K) (k : K) (hp : p ≠ []) : toPoly (addC p [k]) = toPoly p + C k := by
  rw [toPoly_add p [k] hp (by simp), toPoly_singleton]

/-- the reversed shifted-accumulate loop of `__mul__` computes the product, for all orders -/
theorem toPoly_mul (p q : List K) : toPoly (mulC p q) = toPoly p * toPoly q := toPoly_mulC p q

/-- `p ** n` by repeated multiplication is the `n`-th power, for every `n` -/
theorem toPoly_pow (p : List K) (n : Nat) : toPoly (powC p n) = toPoly p ^ n := by
  match n with
  | 0 => simp [powC, toPoly_singleton]
  | 1 => simp [powC]
  | n + 2 => simp only [powC]; rw [toPoly_powLoop, toPoly_mulC]; ring

/-- the result of a binary operator has the larger of the two orders (no coefficient is lost) -/
theorem length_addC (p q : List K) (hp : p ≠ []) (hq : q ≠ []) :
    (addC p q).length = max p.length q.length := by
  have h1 : 0 < p.length := List.length_pos_iff.mpr hp
  have h2 : 0 < q.length := List.length_pos_iff.mpr hq
  show (List.zipWith (· + ·) (atLeastOrder (order (atLeastOrder (order p) q)) p) (atLeastOrder (order p) q)).length = _
  rw [List.length_zipWith, length_atLeastOrder _ _ hp, length_atLeastOrder _ _ hq]
  simp only [order]
  rw [length_atLeastOrder _ _ hq]
  omega

/-- the product has order `order p + order q` -/
theorem length_mulC (p q : List K) : (mulC p q).length = order p + order q + 1 := by
  have aux : ∀ (sr cs : List K) (k : Nat) (acc : List K), (mulLoop sr cs k acc).length = acc.length := by
    intro sr cs
    induction cs with
    | nil => intro k acc; rfl
    | cons c cs ih => intro k acc; simp only [mulLoop]; rw [ih, length_addAt]
  unfold mulC
  simp only [List.length_reverse, aux, List.length_replicate]

/-! ### eval: Horner value, `Polynomial.eval`, and the homomorphism laws -/

/-- powers-list + dot (the repaired `eval`) returns the Horner value NumPy's `polyval` computes -/
theorem eval_eq_horner (p : List K) (x : K) : evalC p x = horner p x := evalC_eq_horner' p x

/-- … which is the evaluation of the denoted polynomial -/
theorem eval_eq_polyEval (p : List K) (x : K) : evalC p x = eval x (toPoly p) := by
  rw [eval_eq_horner, eval_toPoly]

/-- evaluating a sum / difference / negation / product / power equals combining the evaluations -/
theorem eval_add (p q : List K) (hp : p ≠ []) (hq : q ≠ []) (x : K) :
    evalC (addC p q) x = evalC p x + evalC q x := by
  simp only [eval_eq_polyEval, toPoly_add p q hp hq, Polynomial.eval_add]

theorem eval_sub (p q : List K) (hp : p ≠ []) (hq : q ≠ []) (x : K) :
    evalC (subC p q) x = evalC p x - evalC q x := by
  simp only [eval_eq_polyEval, toPoly_sub p q hp hq, Polynomial.eval_sub]

theorem eval_neg (p : List K) (x : K) : evalC (negC p) x = - evalC p x := by
  simp only [eval_eq_polyEval, toPoly_neg, Polynomial.eval_neg]

theorem eval_mul (p q : List K) (x : K) : evalC (mulC p q) x = evalC p x * evalC q x := by
  simp only [eval_eq_polyEval, toPoly_mul, Polynomial.eval_mul]

theorem eval_pow (p : List K) (n : Nat) (x : K) : evalC (powC p n) x = evalC p x ^ n := by
  simp only [eval_eq_polyEval, toPoly_pow, Polynomial.eval_pow]

/-- `eval` leaves its argument untouched: in the heap view the repaired powers loop only allocates
    new objects — every pre-existing object (the caller's `x` at `xr` among them) keeps its value —
    and the value computed from the new objects is `evalC` at the ORIGINAL `x`. -/
theorem eval_frame (h : List K) (xr : Nat) (p : List K) (hx : xr < h.length) :
    (evalFixedHeap h xr p).2.take h.length = h ∧ (evalFixedHeap h xr p).1 = evalC p (h.getD xr 0) := by
  have hs := fixedLoop_spec xr (order p) h [] (1 : K) hx
  simp only [List.append_nil] at hs
  simp only [evalFixedHeap, hs, List.take_left', List.drop_left', evalC, and_self]

/-- the pinned-tree loop (`x_power = x; x_power *= x`) violates both halves: for p = x² + 2x + 3 at
    x = 2 it returns 15 instead of 11 and leaves 4 in the caller's `x` (replayed on the pinned code:
    `Polynomial([1.,2.,3.]).eval(x)` → `Scalar(15.0)`, `x == Scalar(4.0)`; DESIGN §2.7 #11, repaired) -/
theorem eval_pinned_counterexample :
    evalPinnedHeap [(2 : Int)] 0 [1, 2, 3] = (15, [4]) ∧ evalC [1, 2, (3 : Int)] 2 = 11 := by decide

/-- masks: every binary operation and `eval` mask exactly where an operand is masked -/
theorem mask_rules (a b : PCell K) (x : SCell K) :
    (a.add b).m = (a.m || b.m) ∧ (a.sub b).m = (a.m || b.m) ∧ (a.mul b).m = (a.m || b.m) ∧
    a.neg.m = a.m ∧ a.deriv.m = a.m ∧ (a.eval x).m = (a.m || x.m) :=
  ⟨rfl, rfl, rfl, rfl, rfl, rfl⟩

/-! ### deriv is the formal derivative -/

theorem toPoly_deriv (p : List K) : toPoly (derivC p) = derivative (toPoly p) := by
  unfold derivC
  split
  · rename_i h
    have hp : p = [] ∨ ∃ c, p = [c] := by
      match p, h with
      | [], _ => exact Or.inl rfl
      | [c], _ => exact Or.inr ⟨c, rfl⟩
      | _ :: _ :: _, h => simp [order] at h
    rcases hp with rfl | ⟨c, rfl⟩
    · simp
    · simp [toPoly_singleton]
  · exact toPoly_derivCore p

/-- `deriv` lowers the order by one (order 0 stays order 0) -/
theorem length_derivC (p : List K) : (derivC p).length = max (p.length - 1) (min p.length 1) := by
  unfold derivC
  split
  · rename_i h; simp only [order] at h; simp only [List.length_map]; omega
  · rename_i h; simp only [order] at h
    have := length_derivCore p
    unfold derivCore at this
    simp only [order]
    rw [this]; omega

/-! ### Derivatives of the coefficients and of the evaluation point -/

/-- the value part of `eval` is not affected by derivatives -/
theorem eval_deriv_value (p dp : List K) (x dx : K) : (evalD p dp x dx).1 = evalC p x := evalD_fst p dp x dx

/-- the derivative `eval` attaches to its result (through the product rule of every `x_power * x`
    and the two `dot` terms) is the total derivative `(dp/dt)(x) + p'(x)·dx/dt`, for every order -/
theorem eval_deriv_rule (p dp : List K) (x dx : K) (hp : p ≠ []) (hl : dp.length = p.length) :
    (evalD p dp x dx).2 = evalC dp x + evalC (derivC p) x * dx := by
  rw [evalD_snd p dp x dx hp hl, eval_eq_polyEval, eval_eq_polyEval, toPoly_deriv]

/-- the derivative attached to a product is the Leibniz formula in `K[X]` -/
theorem mul_deriv_rule (p dp q dq : List K) :
    toPoly (mulDerivC p dp q dq) = toPoly q * toPoly dp + toPoly p * toPoly dq := by
  have h1 : mulC q dp ≠ [] := by
    intro h; have := length_mulC q dp; rw [h] at this; simp at this
  have h2 : mulC p dq ≠ [] := by
    intro h; have := length_mulC p dq; rw [h] at this; simp at this
  unfold mulDerivC
  rw [toPoly_add _ _ h1 h2, toPoly_mul, toPoly_mul]

/-- `+`, `-`, unary `-` and `* number` on polynomials with derivatives: the derivative of the result
    is the sum / difference / negation / multiple of the derivatives (linearity of d/dt) -/
theorem add_deriv_rule (a b : PCellD K) (ha : a.c ≠ []) (hb : b.c ≠ []) (hda : a.d ≠ []) (hdb : b.d ≠ []) :
    toPoly (a.add b).c = toPoly a.c + toPoly b.c ∧ toPoly (a.add b).d = toPoly a.d + toPoly b.d :=
  ⟨toPoly_add _ _ ha hb, toPoly_add _ _ hda hdb⟩

theorem sub_deriv_rule (a b : PCellD K) (ha : a.c ≠ []) (hb : b.c ≠ []) (hda : a.d ≠ []) (hdb : b.d ≠ []) :
    toPoly (a.sub b).c = toPoly a.c - toPoly b.c ∧ toPoly (a.sub b).d = toPoly a.d - toPoly b.d ∧
    toPoly (a.rsub b).c = toPoly b.c - toPoly a.c ∧ toPoly (a.rsub b).d = toPoly b.d - toPoly a.d :=
  ⟨toPoly_sub _ _ ha hb, toPoly_sub _ _ hda hdb, toPoly_sub _ _ hb ha, toPoly_sub _ _ hdb hda⟩

theorem neg_deriv_rule (a : PCellD K) :
    toPoly a.neg.c = - toPoly a.c ∧ toPoly a.neg.d = - toPoly a.d := ⟨toPoly_neg _, toPoly_neg _⟩

theorem scale_deriv_rule (k : K) (a : PCellD K) :
    toPoly (a.scale k).c = C k * toPoly a.c ∧ toPoly (a.scale k).d = C k * toPoly a.d :=
  ⟨toPoly_scale _ _, toPoly_scale _ _⟩

/-- `*` on polynomials with derivatives: product and Leibniz rule -/
theorem mul_deriv_rule_cell (a b : PCellD K) :
    toPoly (a.mul b).c = toPoly a.c * toPoly b.c ∧
    toPoly (a.mul b).d = toPoly b.c * toPoly a.d + toPoly a.c * toPoly b.d :=
  ⟨toPoly_mul _ _, mul_deriv_rule _ _ _ _⟩

/-- `deriv()` on a polynomial with derivatives: d/dx and d/dt commute -/
theorem deriv_deriv_rule (a : PCellD K) :
    toPoly a.deriv.c = derivative (toPoly a.c) ∧ toPoly a.deriv.d = derivative (toPoly a.d) :=
  ⟨toPoly_deriv _, toPoly_deriv _⟩

theorem powLoopD_rule (p : PCellD K) (n k : Nat) (r : PCellD K) (hk : 1 ≤ k)
    (hc : toPoly r.c = toPoly p.c ^ k) (hd : toPoly r.d = C (k : K) * toPoly p.c ^ (k - 1) * toPoly p.d) :
    toPoly (powLoopD p n r).c = toPoly p.c ^ (k + n) ∧
    toPoly (powLoopD p n r).d = C ((k + n : Nat) : K) * toPoly p.c ^ (k + n - 1) * toPoly p.d := by
  induction n generalizing k r with
  | zero => exact ⟨hc, hd⟩
  | succ n ih =>
    have h := mul_deriv_rule_cell r p
    have hk' : 1 ≤ k + 1 := by omega
    have e : toPoly p.c ^ k = toPoly p.c * toPoly p.c ^ (k - 1) := by
      rw [← pow_succ']; congr 1; omega
    have := ih (k + 1) (r.mul p) hk' (by rw [h.1, hc, pow_succ])
      (by rw [h.2, hc, hd, Nat.add_sub_cancel, Nat.cast_succ, C_add, C_1, e]; ring)
    simpa [powLoopD, Nat.add_assoc, Nat.add_comm 1 n] using this

/-- `p ** n` by repeated multiplication, each step applying the product rule: the derivative of the
    result is `n · p^(n-1) · dp/dt` (power rule), for every `n` -/
theorem pow_deriv_rule (p : PCellD K) (n : Nat) :
    toPoly (p.pow n).c = toPoly p.c ^ n ∧
    toPoly (p.pow n).d = C (n : K) * toPoly p.c ^ (n - 1) * toPoly p.d := by
  match n with
  | 0 => simp [PCellD.pow, toPoly_singleton]
  | 1 => simp [PCellD.pow]
  | n + 2 =>
    have h := mul_deriv_rule_cell p p
    have := powLoopD_rule p n 2 (p.mul p) (by omega) (by rw [h.1]; ring)
      (by rw [h.2, C_eq_natCast]
          have e : (2 : Nat) - 1 = 1 := rfl
          rw [e, pow_one]; push_cast; ring)
    simpa [PCellD.pow, Nat.add_comm 2 n] using this

end Ring

/-- the derivative `roots()` attaches to a root, `dx/dt = −(dp/dt)(x) / p'(x)`, makes the total
    derivative of `p(x(t), t)` vanish (implicit differentiation), wherever `p'(x) ≠ 0` -/
theorem root_deriv_rule {F : Type} [Field F] (p dp : List F) (x : F) (hp : p ≠ []) (hl : dp.length = p.length)
    (h : evalC (derivC p) x ≠ 0) : (evalD p dp x (rootDeriv p dp x)).2 = 0 := by
  rw [eval_deriv_rule p dp x _ hp hl, rootDeriv]
  field_simp
  ring

/-! ### Roots -/
section Roots
variable {F : Type} [Field F] [LinearOrder F] [IsStrictOrderedRing F] (s : F → F)

/-- order 1: the single returned value is unmasked exactly when it is the root `-b/a` -/
theorem root_linear (a b x : F) (hnz : ¬ (a = 0 ∧ b = 0)) :
    UVal (@rootsLinear F _ _ _ _ (fieldOps s) ⟨a, false⟩ ⟨b, false⟩) x ↔ a * x + b = 0 :=
  rootsLinear_spec s a b x hnz

/-- order 1, masked polynomial: masked root -/
theorem root_linear_masked (a b : F) :
    ∀ u ∈ @rootsLinear F _ _ _ _ (fieldOps s) ⟨a, true⟩ ⟨b, true⟩, u.m = true := by
  intro u hu
  simp only [rootsLinear, SCell.div, SCell.neg, List.mem_singleton] at hu
  subst hu; rfl

/-- `invert_line` of `y = a x + b` (`a ≠ 0`): unmasked coefficients `(u, v)` of the inverse line,
    `u·(a x + b) + v = x` and `a·(u y + v) + b = y` -/
theorem invert_line_spec (a b : F) (ha : a ≠ 0) :
    ∃ u v, @invertLine F _ _ _ _ _ (fieldOps s) ⟨[a, b], false⟩ = some (u, v) ∧ u.m = false ∧ v.m = false ∧
      (∀ x, u.v * (a * x + b) + v.v = x) ∧ (∀ y, a * (u.v * y + v.v) + b = y) := by
  refine ⟨_, _, rfl, ?_, ?_, ?_, ?_⟩
  · simp [SCell.div, ops_beq, ha]
  · simp [SCell.div, SCell.mul, SCell.neg, ops_beq, ha]
  · intro x; simp [SCell.div, SCell.mul, SCell.neg, ops_beq, ha]; field_simp; ring
  · intro y; simp [SCell.div, SCell.mul, SCell.neg, ops_beq, ha]; field_simp; ring

/-- `invert_line`: a zero slope or a masked polynomial gives a masked result; any other order than 1
    is rejected (ValueError) -/
theorem invert_line_masked (a b : F) (m : Bool) (h : a = 0 ∨ m = true) :
    ∃ u v, @invertLine F _ _ _ _ _ (fieldOps s) ⟨[a, b], m⟩ = some (u, v) ∧ u.m = true ∧ v.m = true := by
  refine ⟨_, _, rfl, ?_, ?_⟩ <;> rcases h with h | h <;> simp [SCell.div, SCell.mul, SCell.neg, ops_beq, h]

theorem invert_line_order (p : PCell F) (h : p.c.length ≠ 2) :
    @invertLine F _ _ _ _ _ (fieldOps s) p = none := by
  unfold invertLine
  split
  · rename_i a b hc; rw [hc] at h; simp at h
  · rfl

/-- order 2 (`solve_quadratic` + duplicate masking + sort): for a polynomial that is not identically
    zero the unmasked returned values are EXACTLY the real roots of `a x² + b x + c` (this covers
    `a = 0`, i.e. a leading zero), two entries are returned, strictly increasing (hence
    duplicate-free) with masked entries last. -/
theorem roots_quadratic (hs : SqrtSpec s) (a b c : F) (hnz : ¬ (a = 0 ∧ b = 0 ∧ c = 0)) :
    let R := @rootsQuadratic F _ _ _ _ _ _ _ (fieldOps s) ⟨a, false⟩ ⟨b, false⟩ ⟨c, false⟩
    R.length = 2 ∧ StrictAsc R ∧ ∀ x, UVal R x ↔ a * x * x + b * x + c = 0 := by
  intro R
  have hR : R = @sortCells F (fieldOps s) (quadCells s ⟨a, false⟩ ⟨b, false⟩ ⟨c, false⟩) := rfl
  refine ⟨?_, ?_, ?_⟩
  · rw [hR, (sortCells_perm s _).length_eq]; rfl
  · rw [hR]; exact sortCells_strict s _ (quadCells_distinct s _ _ _)
  · intro x
    rw [hR, UVal_perm (sortCells_perm s _)]
    exact quadCells_unmasked_iff s hs a b c x hnz

/-- order 2: the result is sorted and duplicate-free whatever the operands (masked or not) -/
theorem roots_quadratic_sorted (a b c : SCell F) :
    StrictAsc (@rootsQuadratic F _ _ _ _ _ _ _ (fieldOps s) a b c) := by
  rw [rootsQuadratic_eq]; exact sortCells_strict s _ (quadCells_distinct s _ _ _)

/-- order 2, masked polynomial: both entries masked -/
theorem roots_quadratic_masked (a b c : F) :
    ∀ u ∈ @rootsQuadratic F _ _ _ _ _ _ _ (fieldOps s) ⟨a, true⟩ ⟨b, true⟩ ⟨c, true⟩, u.m = true := by
  intro u hu
  rw [rootsQuadratic_eq] at hu
  exact quadCells_masked s a b c u ((sortCells_perm s _).mem_iff.mp hu)

/-- order 2: no real root (negative discriminant) ⇒ both entries masked -/
theorem roots_quadratic_no_real (a b c : F) (hD : b * b - 4 * a * c < 0) :
    ∀ u ∈ @rootsQuadratic F _ _ _ _ _ _ _ (fieldOps s) ⟨a, false⟩ ⟨b, false⟩ ⟨c, false⟩, u.m = true := by
  intro u hu
  rw [rootsQuadratic_eq] at hu
  have hu' := (sortCells_perm s _).mem_iff.mp hu
  have hD' : qDiscr a b c < 0 := by unfold qDiscr; linarith
  obtain ⟨h0, h1⟩ := solveQuadratic_neg s a b c hD'
  simp only [quadCells, List.mem_cons, List.not_mem_nil, or_false] at hu'
  rcases hu' with rfl | rfl
  · exact h0
  · simp [SCell.maskIf, h1]

/-- order 2: positive discriminant (and `a ≠ 0`) ⇒ both entries unmasked: two distinct real roots
    (together with `roots_quadratic`: they are the two roots, in increasing order) -/
theorem roots_quadratic_two (hs : SqrtSpec s) (a b c : F) (ha : a ≠ 0) (hD : 0 < b * b - 4 * a * c) :
    ∀ u ∈ @rootsQuadratic F _ _ _ _ _ _ _ (fieldOps s) ⟨a, false⟩ ⟨b, false⟩ ⟨c, false⟩, u.m = false := by
  intro u hu
  rw [rootsQuadratic_eq] at hu
  have hD' : 0 < qDiscr a b c := by unfold qDiscr; linarith
  exact quadCells_two s hs a b c ha hD' u ((sortCells_perm s _).mem_iff.mp hu)

/-- order ≥ 3, post-processing of the eigenvalues (complex → masked, the first `k` entries — the
    extraneous zeros of shifted-out leading coefficients — masked, sort, duplicate masking, sort):
    as many entries as eigenvalues, strictly increasing with masked entries last, and the unmasked
    values are EXACTLY the real eigenvalues among the entries after the first `k`. -/
theorem roots_postprocess (k : Nat) (eig : List (F × F)) :
    let R := @rootsPost F _ (fieldOps s) false k eig
    R.length = eig.length ∧ StrictAsc R ∧ ∀ x, UVal R x ↔ ∃ z ∈ eig.drop k, z.2 = 0 ∧ z.1 = x :=
  ⟨rootsPost_length s false k eig, rootsPost_strict s false k eig, rootsPost_UVal s k eig⟩

/-- masked polynomial (or all-zero polynomial, which the code masks): every entry masked -/
theorem roots_postprocess_masked (k : Nat) (eig : List (F × F)) :
    let R := @rootsPost F _ (fieldOps s) true k eig
    R.length = eig.length ∧ StrictAsc R ∧ ∀ u ∈ R, u.m = true :=
  ⟨rootsPost_length s true k eig, rootsPost_strict s true k eig, rootsPost_masked s k eig⟩

/-- order ≥ 3, preparation (polynomial.py:391-431) for a polynomial that is not identically zero:
    the mask is kept, the `k` leading zero coefficients are shifted out to the end -/
theorem roots_prepare (p : PCell F) (hnz : ∃ x ∈ p.c, x ≠ 0) :
    @prepHigh F _ _ (fieldOps s) p =
      (p.m, leadZeros p.c, p.c.dropWhile isZ ++ List.replicate (leadZeros p.c) 0) :=
  prepHigh_spec s p hnz

/-- … so the coefficient list handed on denotes `x^k · p`: exactly `k` extraneous zero roots -/
theorem roots_shifted_poly (c : List F) :
    toPoly (c.dropWhile isZ ++ List.replicate (leadZeros c) 0) = toPoly c * X ^ leadZeros c :=
  toPoly_shifted c

/-- … and the first row of the matrix given to `eigvals` is the companion row of its monic
    normalisation: `c₀ · (xⁿ − row(x))` is the shifted polynomial -/
theorem roots_companion_row (c0 : F) (rest : List F) (h0 : c0 ≠ 0) :
    C c0 * (X ^ rest.length - toPoly (@companionRow F _ _ (c0 :: rest))) = toPoly (c0 :: rest) :=
  toPoly_companionRow c0 rest h0

/-- all-zero polynomials are masked (polynomial.py:407-413) -/
theorem roots_high_zero (eigvals : List F → List (F × F)) (p : PCell F) (hz : ∀ x ∈ p.c, x = 0) :
    ∀ u ∈ @rootsHigh F _ _ _ _ (fieldOps s) eigvals p, u.m = true := by
  have hall : (p.c.all fun x => @RootOps.beq F (fieldOps s) x 0) = true := by
    rw [List.all_eq_true]; intro x hx; simp [ops_beq, hz x hx]
  have hpm : (@prepHigh F _ _ (fieldOps s) p).1 = true := by
    simp only [prepHigh, hall, Bool.or_true]
  have hR : @rootsHigh F _ _ _ _ (fieldOps s) eigvals p =
      @rootsPost F _ (fieldOps s) (@prepHigh F _ _ (fieldOps s) p).1 (@prepHigh F _ _ (fieldOps s) p).2.1
      (eigvals (companionRow (@prepHigh F _ _ (fieldOps s) p).2.2)) := rfl
  rw [hR, hpm]
  exact rootsPost_masked s _ _

/-- order ≥ 3 end to end, under the LAPACK contract: if, for the companion row of the shifted
    polynomial `x^k · p`, `eigvals` returns the `k` extraneous zeros first and then a list whose real
    members are exactly the real roots of `p`, then `roots()` returns exactly the real roots of `p`,
    strictly increasing (duplicate-free), masked entries last, one entry per eigenvalue.
    -- FULL: the same without the hypothesis `contract` (that the eigenvalues of the companion matrix
    are the roots of its characteristic polynomial, that LAPACK computes them and lists isolated zero
    eigenvalues first) — outside the model: LAPACK is a parameter; see DESIGN.d/C20.md §6. -/
theorem roots_high_partial (eigvals : List F → List (F × F)) (p : PCell F) (hm : p.m = false)
    (hnz : ∃ c ∈ p.c, c ≠ 0)
    (contract : ∀ x : F, (∃ z ∈ (eigvals (companionRow
        (p.c.dropWhile isZ ++ List.replicate (leadZeros p.c) 0))).drop (leadZeros p.c), z.2 = 0 ∧ z.1 = x)
          ↔ evalC p.c x = 0) :
    let R := @rootsHigh F _ _ _ _ (fieldOps s) eigvals p
    R.length = (eigvals (companionRow (p.c.dropWhile isZ ++ List.replicate (leadZeros p.c) 0))).length ∧
    StrictAsc R ∧ ∀ x, UVal R x ↔ evalC p.c x = 0 := by
  intro R
  have hR : R = @rootsPost F _ (fieldOps s) (@prepHigh F _ _ (fieldOps s) p).1 (@prepHigh F _ _ (fieldOps s) p).2.1
      (eigvals (companionRow (@prepHigh F _ _ (fieldOps s) p).2.2)) := rfl
  rw [hR, prepHigh_spec s p hnz, hm]
  exact ⟨rootsPost_length s false _ _, rootsPost_strict s false _ _,
    fun x => (rootsPost_UVal s _ _ x).trans (contract x)⟩

/-- The contract of `roots_high_partial` reduced to its narrowest form.  Write `row` for the
    companion row the code hands to `eigvals` and `k` for the number of leading zeros.  Assume of
    the returned list only
    (A) *spectral*: a real `x` occurs in it as `(x, 0)` iff `xⁿ − row(x) = 0` (real eigenvalues of the
        companion matrix = real roots of its characteristic polynomial);
    (B) *ordering*: its first `k` entries are exactly `(0, 0)` (the zeros of the shifted-out leading
        coefficients "show up first", polynomial.py:446), and a further exact `(0, 0)` follows iff
        `p(0) = 0`.
    Then `roots()` returns exactly the real roots of `p`, strictly increasing, masked entries last.
    Both assumptions are monitored on every harness case (residual of every recorded eigenvalue in
    the monic polynomial, exact zeros first, trace).
    -- FULL: without (A) and (B): needs the spectral theorem for companion matrices and a model of
    LAPACK `dgeev` (balancing/deflation order, rounding); outside the model. -/
theorem roots_high_spectral_partial (eigvals : List F → List (F × F)) (p : PCell F) (hm : p.m = false)
    (hnz : ∃ c ∈ p.c, c ≠ 0)
    (A : ∀ x : F, (x, 0) ∈ eigvals (companionRow (p.c.dropWhile isZ ++ List.replicate (leadZeros p.c) 0)) ↔
      x ^ (@companionRow F _ _ (p.c.dropWhile isZ ++ List.replicate (leadZeros p.c) 0)).length
        - eval x (toPoly (@companionRow F _ _ (p.c.dropWhile isZ ++ List.replicate (leadZeros p.c) 0))) = 0)
    (B1 : ∀ z ∈ (eigvals (companionRow (p.c.dropWhile isZ ++ List.replicate (leadZeros p.c) 0))).take
        (leadZeros p.c), z = (0, 0))
    (B2 : ((0 : F), (0 : F)) ∈ (eigvals (companionRow (p.c.dropWhile isZ ++ List.replicate (leadZeros p.c) 0))).drop
        (leadZeros p.c) ↔ evalC p.c 0 = 0) :
    let R := @rootsHigh F _ _ _ _ (fieldOps s) eigvals p
    StrictAsc R ∧ ∀ x, UVal R x ↔ evalC p.c x = 0 :=
  (roots_high_partial s eigvals p hm hnz (contract_of_spectral _ p.c hnz A B1 B2)).2

/-- masked polynomial of order ≥ 3: every entry masked -/
theorem roots_high_masked (eigvals : List F → List (F × F)) (p : PCell F) (hm : p.m = true) :
    ∀ u ∈ @rootsHigh F _ _ _ _ (fieldOps s) eigvals p, u.m = true := by
  have hpm : (@prepHigh F _ _ (fieldOps s) p).1 = true := by
    simp only [prepHigh, hm, Bool.true_or]
  have hR : @rootsHigh F _ _ _ _ (fieldOps s) eigvals p =
      @rootsPost F _ (fieldOps s) (@prepHigh F _ _ (fieldOps s) p).1 (@prepHigh F _ _ (fieldOps s) p).2.1
      (eigvals (companionRow (@prepHigh F _ _ (fieldOps s) p).2.2)) := rfl
  rw [hR, hpm]
  exact rootsPost_masked s _ _

end Roots

/-! ### Leading axes: broadcasting and masks at the array level

  `NpRule` (Lemmas/Bcast.lean) is NumPy's broadcasting rule; `bidx s i` projects an index of the
  result onto an operand of shape `s`. -/
section Arrays
variable {K : Type} [CommRing K]

/-- element-wise lifting with broadcasting: defined exactly when NumPy's rule yields a shape (else
    the ValueError of `broadcasted_shape`), the result has that shape, every valid result index
    projects to valid operand indices, and the element there is `f` of the projected elements -/
theorem map2_broadcast {α β γ : Type} (f : α → β → γ) (a : Arr α) (b : Arr β) :
    match Arr.map2 f a b with
    | none => ∀ r, ¬ NpRule a.shape.reverse b.shape.reverse r
    | some r => NpRule a.shape.reverse b.shape.reverse r.shape.reverse ∧
        ∀ i, r.get i = f (a.get (bidx a.shape i)) (b.get (bidx b.shape i)) ∧
          (Valid r.shape i → Valid a.shape (bidx a.shape i) ∧ Valid b.shape (bidx b.shape i)) := by
  unfold Arr.map2
  cases hb : bcast a.shape b.shape with
  | none =>
    simp only [Option.map_none]
    intro r hr
    have := (bcast_spec a.shape b.shape r.reverse).2 (by simpa using hr)
    rw [hb] at this; cases this
  | some out =>
    simp only [Option.map_some]
    refine ⟨(bcast_spec _ _ _).1 hb, fun i => ⟨?_, fun hv => ⟨bidx_valid hb hv, bidx_valid_right hb hv⟩⟩⟩
    first | rfl | trivial

/-- `eval` of an array of polynomials (leading shape `s`) at an array of points (shape `t`):
    ValueError iff `s`, `t` do not broadcast; otherwise the result has NumPy's broadcast shape and,
    at every index, holds `Polynomial.eval` of the projected polynomial at the projected point,
    masked iff either is masked -/
theorem eval_broadcast (a : Arr (PCell K)) (x : Arr (SCell K)) :
    match evalA a x with
    | none => ∀ r, ¬ NpRule a.shape.reverse x.shape.reverse r
    | some r => NpRule a.shape.reverse x.shape.reverse r.shape.reverse ∧
        ∀ i, (r.get i).v = eval (x.get (bidx x.shape i)).v (toPoly (a.get (bidx a.shape i)).c) ∧
             (r.get i).m = ((a.get (bidx a.shape i)).m || (x.get (bidx x.shape i)).m) ∧
             (Valid r.shape i → Valid a.shape (bidx a.shape i) ∧ Valid x.shape (bidx x.shape i)) := by
  have h := map2_broadcast PCell.eval a x
  unfold evalA
  cases hr : Arr.map2 PCell.eval a x with
  | none => rw [hr] at h; exact h
  | some r =>
    rw [hr] at h
    refine ⟨h.1, fun i => ?_⟩
    obtain ⟨e, hv⟩ := h.2 i
    rw [e]
    exact ⟨eval_eq_polyEval _ _, rfl, hv⟩

/-- `+`, `-`, `*` on arrays of polynomials: ValueError iff the leading shapes do not broadcast; else
    NumPy's shape, and element-wise the ring operation of `K[X]` with the union of the masks -/
theorem ring_broadcast (a b : Arr (PCell K)) (ha : ∀ i, (a.get i).c ≠ []) (hb : ∀ i, (b.get i).c ≠ []) :
    (match addA a b with
     | none => ∀ r, ¬ NpRule a.shape.reverse b.shape.reverse r
     | some r => NpRule a.shape.reverse b.shape.reverse r.shape.reverse ∧
        ∀ i, toPoly (r.get i).c = toPoly (a.get (bidx a.shape i)).c + toPoly (b.get (bidx b.shape i)).c ∧
             (r.get i).m = ((a.get (bidx a.shape i)).m || (b.get (bidx b.shape i)).m)) ∧
    (match subA a b with
     | none => ∀ r, ¬ NpRule a.shape.reverse b.shape.reverse r
     | some r => NpRule a.shape.reverse b.shape.reverse r.shape.reverse ∧
        ∀ i, toPoly (r.get i).c = toPoly (a.get (bidx a.shape i)).c - toPoly (b.get (bidx b.shape i)).c ∧
             (r.get i).m = ((a.get (bidx a.shape i)).m || (b.get (bidx b.shape i)).m)) ∧
    (match mulA a b with
     | none => ∀ r, ¬ NpRule a.shape.reverse b.shape.reverse r
     | some r => NpRule a.shape.reverse b.shape.reverse r.shape.reverse ∧
        ∀ i, toPoly (r.get i).c = toPoly (a.get (bidx a.shape i)).c * toPoly (b.get (bidx b.shape i)).c ∧
             (r.get i).m = ((a.get (bidx a.shape i)).m || (b.get (bidx b.shape i)).m)) := by
  refine ⟨?_, ?_, ?_⟩
  · have h := map2_broadcast PCell.add a b
    unfold addA
    cases hr : Arr.map2 PCell.add a b with
    | none => rw [hr] at h; exact h
    | some r =>
      rw [hr] at h
      refine ⟨h.1, fun i => ?_⟩
      rw [(h.2 i).1]
      exact ⟨toPoly_add _ _ (ha _) (hb _), rfl⟩
  · have h := map2_broadcast PCell.sub a b
    unfold subA
    cases hr : Arr.map2 PCell.sub a b with
    | none => rw [hr] at h; exact h
    | some r =>
      rw [hr] at h
      refine ⟨h.1, fun i => ?_⟩
      rw [(h.2 i).1]
      exact ⟨toPoly_sub _ _ (ha _) (hb _), rfl⟩
  · have h := map2_broadcast PCell.mul a b
    unfold mulA
    cases hr : Arr.map2 PCell.mul a b with
    | none => rw [hr] at h; exact h
    | some r =>
      rw [hr] at h
      refine ⟨h.1, fun i => ?_⟩
      rw [(h.2 i).1]
      exact ⟨toPoly_mul _ _, rfl⟩

/-- unary operations keep the leading shape and act element-wise -/
theorem unary_broadcast (a : Arr (PCell K)) :
    (negA a).shape = a.shape ∧ (derivA a).shape = a.shape ∧
    (∀ i, toPoly ((negA a).get i).c = - toPoly (a.get i).c ∧ ((negA a).get i).m = (a.get i).m) ∧
    (∀ i, toPoly ((derivA a).get i).c = derivative (toPoly (a.get i).c) ∧ ((derivA a).get i).m = (a.get i).m) ∧
    (∀ n i, toPoly ((powA a (n + 1)).get i).c = toPoly (a.get i).c ^ (n + 1) ∧ ((powA a (n + 1)).get i).m = (a.get i).m) :=
  ⟨rfl, rfl, fun _ => ⟨toPoly_neg _, rfl⟩, fun _ => ⟨toPoly_deriv _, rfl⟩, fun _ _ => ⟨toPoly_pow _ _, rfl⟩⟩

-- non-vacuity: a (2,1) array of polynomials evaluated at a (3,) array of points broadcasts to (2,3)
example : bcast [2, 1] [3] = some [2, 3] := by decide
example : bcast [2] [3] = none := by decide

end Arrays

/-! ### The real numbers are an instance -/

/-- `Real.sqrt` satisfies the square-root contract -/
theorem sqrtSpec_real : SqrtSpec Real.sqrt :=
  ⟨fun d _ => Real.sqrt_nonneg d, fun _ h => Real.mul_self_sqrt h⟩

/-- `roots()` of a real quadratic (not identically zero): exactly the distinct real roots,
    increasing, masked entries last -/
theorem roots_quadratic_real (a b c : ℝ) (hnz : ¬ (a = 0 ∧ b = 0 ∧ c = 0)) :
    let R := @rootsQuadratic ℝ _ _ _ _ _ _ _ (fieldOps Real.sqrt) ⟨a, false⟩ ⟨b, false⟩ ⟨c, false⟩
    R.length = 2 ∧ StrictAsc R ∧ ∀ x, UVal R x ↔ a * x * x + b * x + c = 0 :=
  roots_quadratic Real.sqrt sqrtSpec_real a b c hnz

-- non-vacuity of the hypotheses
example : ¬ ((1 : ℝ) = 0 ∧ (-3 : ℝ) = 0 ∧ (2 : ℝ) = 0) := by norm_num
example : ¬ ((0 : ℝ) = 0 ∧ (2 : ℝ) = 0) := by norm_num
example : (1 : ℝ) * 1 - 4 * 1 * 1 < 0 := by norm_num

/-- an instance of the `eigvals` contract of `roots_high_partial`: x³ − 6x² + 11x − 6 with the
    eigenvalues 1, 2, 3 (no leading zeros, nothing dropped) -/
example : ∀ x : ℚ, (∃ z ∈ ((fun _ => [((1 : ℚ), (0 : ℚ)), (2, 0), (3, 0)])
      (companionRow (([1, -6, 11, -6] : List ℚ).dropWhile isZ ++ List.replicate (leadZeros [1, -6, 11, (-6 : ℚ)]) 0))).drop
        (leadZeros [1, -6, 11, (-6 : ℚ)]), z.2 = 0 ∧ z.1 = x) ↔ evalC [1, -6, 11, (-6 : ℚ)] x = 0 := by
  intro x
  have hz : leadZeros [1, -6, 11, (-6 : ℚ)] = 0 := by simp [leadZeros, isZ]
  have he : evalC [1, -6, 11, (-6 : ℚ)] x = (x - 1) * (x - 2) * (x - 3) := by
    simp [evalC, dot, powers, order]; ring
  rw [hz, he]
  simp only [List.drop_zero, List.mem_cons, List.not_mem_nil, or_false]
  constructor
  · rintro ⟨z, (rfl | rfl | rfl), _, rfl⟩ <;> simp
  · intro h
    rcases mul_eq_zero.mp h with h | h
    · rcases mul_eq_zero.mp h with h | h
      · exact ⟨(1, 0), Or.inl rfl, rfl, by linarith⟩
      · exact ⟨(2, 0), Or.inr (Or.inl rfl), rfl, by linarith⟩
    · exact ⟨(3, 0), Or.inr (Or.inr rfl), rfl, by linarith⟩

/-! ### Non-vacuity: concrete instances -/

example : toPoly (addC [1, 2, 3] [5, (7 : ℤ)]) = toPoly [1, 2, 3] + toPoly [5, 7] :=
  toPoly_add _ _ (by simp) (by simp)
example : mulC [1, 2, (3 : ℤ)] [1, 1] = [1, 3, 5, 3] := by decide
example : powC [1, (1 : ℤ)] 3 = [1, 3, 3, 1] := by decide
example : derivC [1, 2, 3, (4 : ℤ)] = [3, 4, 3] := by decide
example : evalC [1, 2, (3 : ℤ)] 2 = 11 := by decide
example : evalFixedHeap [(7 : ℤ), 2] 1 [1, 2, 3] = (11, [7, 2, 1, 2, 4]) := by decide
example : addC [1, 2, 3] [5, (7 : ℤ)] = [1, 7, 10] := by decide
-- p = x² + 2x + 3 with dp/dt = 1 (constant term), x = 2 with dx/dt = 1: value 11, derivative 1 + (2·2+2)·1 = 7
example : evalD [1, 2, (3 : ℤ)] [0, 0, 1] 2 1 = (11, 7) := by decide
example : mulDerivC [1, (1 : ℤ)] [0, 1] [1, 2] [0, 0] = [0, 1, 2] := by decide

end PMV.Poly
