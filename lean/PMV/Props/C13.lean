import PMV.Lemmas.ReduceLane2
import PMV.Lemmas.ReduceSort
import PMV.Lemmas.ReduceArr
import PMV.Lemmas.ReduceAxis
import PMV.Lemmas.Bcast
import PMV.Lemmas.ReduceBcast
/-
  C13 — reductions and ordering operations see only unmasked elements.
  Property theorems.  Core Lean; no Mathlib.  Helper developments: PMV/Lemmas/Reduce*.lean.

  Reading guide
  * `specRed f xs`  = `f` applied to the unmasked values of the lane `xs`, masked (`none`) exactly
    when every element of the lane is masked — the property statement, literally.
  * `…_spec`        : the one-lane computation of the source's mixed branch equals the reference,
                      for every lane (any length, by induction).
  * `…_branches_agree` : for every array of any rank and shape and every legal axis argument, all
                      top-level branches of the code (size 0 / shape () / no mask / all masked /
                      axis=None shortcut / mixed) give, at every valid output index, the reference
                      applied to the lane that collapses onto that index; and the result shape is
                      the input shape with the reduced axes removed.
  * `…_rejects`     : IndexError exactly for out-of-range or duplicated axes.
-/
namespace PMV.Reduce
open PMV

variable {α β : Type}

/-! ### one lane: code kernel = the same reduction over the unmasked sub-list -/

theorem sum_spec (dflt : Int) (xs : List (Cell Int)) :
    obs (sumMixed dflt xs) = specRed npSum xs := sumMixed_spec dflt xs
example : obs (sumMixed 1 [⟨5, false⟩, ⟨7, true⟩, ⟨-2, false⟩]) = some 3 := by decide

theorem mean_spec (dflt : Int) (xs : List (Cell Int)) :
    obs (meanMixed dflt xs) = specRed npMean xs := meanMixed_spec dflt xs
example : obs (meanMixed 1 [⟨5, false⟩, ⟨7, true⟩, ⟨-2, false⟩]) = some (3, 2) := by decide

/-- `minval` is the dtype minimum / -inf: no stored value lies below it -/
theorem max_spec (minval : Int) (xs : List (Cell Int)) (h : ∀ c ∈ xs, c.m = false → minval ≤ c.v) :
    obs (maxMixed minval xs) = specRed npMax xs := maxMixed_spec minval xs h
example : obs (maxMixed (-100) [⟨5, false⟩, ⟨70, true⟩, ⟨-2, false⟩]) = some 5 := by decide

theorem min_spec (maxval : Int) (xs : List (Cell Int)) (h : ∀ c ∈ xs, c.m = false → c.v ≤ maxval) :
    obs (minMixed maxval xs) = specRed npMin xs := minMixed_spec maxval xs h
example : obs (minMixed 100 [⟨5, false⟩, ⟨-70, true⟩, ⟨-2, false⟩]) = some (-2) := by decide

/-- the reference functions are what their names say -/
theorem npMax_is_max (l : List Int) (h : l ≠ []) : npMax l ∈ l ∧ ∀ y ∈ l, y ≤ npMax l :=
  ⟨npMax_mem l h, le_npMax l⟩
theorem npMin_is_min (l : List Int) (h : l ≠ []) : npMin l ∈ l ∧ ∀ y ∈ l, npMin l ≤ y :=
  ⟨npMin_mem l h, npMin_le l⟩

/-- argmax: position of the first unmasked element equal to the largest unmasked value, provided
    no unmasked value equals the fill (`-inf` / dtype minimum): the documented corner, where
    numpy.ma has the same tie (DESIGN §8.7) -/
theorem argmax_spec (minval : Int) (xs : List (Cell Int)) (h : ∀ c ∈ xs, c.m = false → minval < c.v) :
    obs (argmaxMixed minval xs) = specArgmax xs := argmaxMixed_spec minval xs h
example : obs (argmaxMixed (-100) [⟨70, true⟩, ⟨5, false⟩, ⟨5, false⟩]) = some 1 := by decide

theorem argmin_spec (maxval : Int) (xs : List (Cell Int)) (h : ∀ c ∈ xs, c.m = false → c.v < maxval) :
    obs (argminMixed maxval xs) = specArgmin xs := argminMixed_spec maxval xs h
example : obs (argminMixed 100 [⟨-70, true⟩, ⟨5, false⟩, ⟨5, false⟩]) = some 1 := by decide

/-- without the hypothesis the statement is false (and so is numpy.ma's answer): the tie corner -/
theorem argmax_tie_counterexample :
    obs (argmaxMixed (-100) [⟨3, true⟩, ⟨-100, false⟩]) ≠ specArgmax [⟨3, true⟩, ⟨-100, false⟩] := by decide

theorem median_spec (maxval : Int) (xs : List (Cell Int)) (h : ∀ c ∈ xs, c.m = false → c.v ≤ maxval) :
    obs (medianMixed maxval xs) = specRed npMedian2 xs := medianMixed_spec maxval xs h
example : ∀ c ∈ [(⟨5, false⟩ : Cell Int), ⟨-70, true⟩, ⟨-2, false⟩, ⟨9, false⟩], c.m = false → c.v ≤ 100 := by decide

/-- sort: the unmasked values ascending, masked entries at the end -/
theorem sort_spec (maxval : Int) (xs : List (Cell Int)) (h : ∀ c ∈ xs, c.m = false → c.v ≤ maxval) :
    (sortMasked maxval .array xs).map obs = specSort xs := sortMasked_array_spec maxval xs h
example : ∀ c ∈ [(⟨5, false⟩ : Cell Int), ⟨-70, true⟩, ⟨-2, false⟩], c.m = false → c.v ≤ 100 := by decide
example : specSort [⟨5, false⟩, ⟨-70, true⟩] = [some 5, none] := by simp [specSort, unm, npSort, countMasked]

/-- the reference sort is a sorted rearrangement -/
theorem npSort_is_sort (l : List Int) : (npSort l).Perm l ∧ (npSort l).Pairwise (· ≤ ·) :=
  ⟨npSort_perm l, npSort_sorted l⟩

theorem any_spec (xs : List (Cell Bool)) : obs (anyLane .array xs) = specRed npAny xs :=
  anyLane_array_spec xs
theorem all_spec (xs : List (Cell Bool)) : obs (allLane .array xs) = specRed npAll xs :=
  allLane_array_spec xs
example : obs (anyLane .array [⟨true, true⟩, ⟨false, false⟩]) = some false := by decide
example : obs (allLane .array [⟨false, true⟩, ⟨true, false⟩]) = some true := by decide

/-- the output is masked exactly when every contributing element is masked -/
theorem masked_iff_all_masked (f : List α → β) (xs : List (Cell α)) :
    specRed f xs = none ↔ ∀ c ∈ xs, c.m = true := specRed_eq_none_iff f xs

theorem sum_masked_iff (dflt : Int) (xs : List (Cell Int)) :
    (sumMixed dflt xs).2 = true ↔ ∀ c ∈ xs, c.m = true := by
  rw [← masked_iff_all_masked npSum, ← sum_spec dflt]
  unfold obs; cases (sumMixed dflt xs).2 <;> simp

/-! ### Scalar.maximum / minimum -/

/-- element-wise maximum of any number of candidates: masked candidates are ignored, the result
    is masked exactly when all are masked -/
theorem maximum_spec (c : Cell Int) (cs : List (Cell Int)) :
    (maximumCode (c :: cs)).map cellObs = some (specRed npMax (c :: cs)) := by
  show some (cellObs (cs.foldl maximumStep c)) = _
  rw [foldl_maximumStep]
  congr 1
  unfold specRed
  rw [unm_cons]
  obtain ⟨v, m⟩ := c
  cases m
  · simp [cellObs, obs, joinMax, npMax]
  · simp only [cellObs, obs, joinMax, if_true]
    cases unm cs <;> rfl

theorem minimum_spec (c : Cell Int) (cs : List (Cell Int)) :
    (minimumCode (c :: cs)).map cellObs = some (specRed npMin (c :: cs)) := by
  show some (cellObs (cs.foldl minimumStep c)) = _
  rw [foldl_minimumStep]
  congr 1
  unfold specRed
  rw [unm_cons]
  obtain ⟨v, m⟩ := c
  cases m
  · simp [cellObs, obs, joinMin, npMin]
  · simp only [cellObs, obs, joinMin, if_true]
    cases unm cs <;> rfl
example : (maximumCode [⟨9, true⟩, ⟨2, false⟩, ⟨5, false⟩, ⟨7, true⟩]).map cellObs = some (some 5) := by decide

/-! ### Vector / Matrix sums reduce item-wise -/

theorem vsum_spec (isz : Nat) (dflt : List Int) (xs : List (Cell (List Int))) :
    obs (vSumMixed isz dflt xs) = specRed (vSum isz) xs := vSumMixed_spec isz dflt xs

theorem vmean_spec (isz : Nat) (dflt : List Int) (xs : List (Cell (List Int))) :
    obs (vMeanMixed isz dflt xs) = specRed (fun u => (vSum isz u, u.length)) xs := vMeanMixed_spec isz dflt xs

/-- component `k` of the sum of items is the scalar sum of their components `k` -/
theorem item_wise (isz : Nat) (l : List (List Int)) (k : Nat) (hk : k < isz) (hl : ∀ a ∈ l, a.length = isz) :
    (vSum isz l).getD k 0 = npSum (l.map fun a => a.getD k 0) := vSum_getD isz l k hk hl
example : vSum 2 [[1, 2], [10, 20], [100, 200]] = [111, 222] := by decide

/-! ### whole arrays -/

/-- `r` is the reduction of `a` over `axes` by the reference `spec`: NumPy's result shape, and at
    every valid output index the reference value of the lane collapsing onto it -/
def Agrees (spec : List (Cell α) → Option β) (a : Arr (Cell α)) (axes : List Nat) (r : Arr (Out β)) : Prop :=
  r.shape = dropAxes axes a.shape ∧ ∀ o, Valid r.shape o → obs (r.get o) = spec (a.lane axes o)

theorem agrees_reduce (spec : List (Cell α) → Option β) (a : Arr (Cell α)) (axes : List Nat)
    (k : List (Cell α) → Out β)
    (h : ∀ o, Valid (dropAxes axes a.shape) o → obs (k (a.lane axes o)) = spec (a.lane axes o)) :
    Agrees spec a axes (a.reduce k axes) := ⟨rfl, fun o ho => h o ho⟩

theorem agrees_zeroSized (spec : List (Cell α) → Option β) (a : Arr (Cell α)) (axes : List Nat) (d : β)
    (hs : size a.shape = 0) (hspec : spec [] = none) : Agrees spec a axes (zeroSized d a.shape axes) := by
  refine ⟨rfl, fun o ho => ?_⟩
  rw [Arr.lane_eq_nil a axes o hs ho, hspec]; rfl

theorem lane_noMask (a : Arr (Cell α)) (axes : List Nat) (o : Index) (h : anyMasked a = false)
    (ho : Valid (dropAxes axes a.shape) o) : ∀ c ∈ a.lane axes o, c.m = false := by
  intro c hc
  have := Arr.lane_subset a axes o ho c hc
  unfold anyMasked at h
  rw [List.any_eq_false] at h
  simpa using h c this

theorem lane_allMasked (a : Arr (Cell α)) (axes : List Nat) (o : Index) (h : allMasked a = true)
    (ho : Valid (dropAxes axes a.shape) o) : ∀ c ∈ a.lane axes o, c.m = true := by
  intro c hc
  have := Arr.lane_subset a axes o ho c hc
  unfold allMasked at h
  rw [List.all_eq_true] at h
  exact h c this

/-- axis=None, not everything masked: the single lane has an unmasked element -/
theorem lane_none_unm (a : Arr (Cell α)) (o : Index) (h : allMasked a = false) :
    unm (a.lane (List.range a.shape.length) o) ≠ [] := by
  rw [Arr.lane_all]
  intro e
  have := (all_m_iff a.toList).2 e
  unfold allMasked at h
  rw [h] at this; cases this

theorem specRed_nil (f : List α → β) : specRed f ([] : List (Cell α)) = none := rfl

/-- a shape-() object: the lane is the element itself -/
theorem selfLane_spec (f : List Int → Int) (hf : ∀ v, f [v] = v) (c : Cell Int) :
    obs (selfLane [c]) = specRed f [c] := by
  obtain ⟨v, m⟩ := c
  cases m
  · simp [selfLane, raw, obs, specRed, unm, hf]
  · simp [selfLane, raw, obs, specRed, unm]

/-- everything the five-branch functions have in common, proved once -/
theorem branches_core (spec : List (Cell Int) → Option β) (f : List Int → β)
    (hspec : ∀ xs, spec xs = specRed f xs)
    (a : Arr (Cell Int)) (axes : List Nat) (mixed : List (Cell Int) → Out β)
    (hmixed : ∀ xs, obs (mixed xs) = spec xs) (hs : size a.shape ≠ 0) :
    (anyMasked a = false → Agrees spec a axes (a.reduce (fun xs => (f (raw xs), false)) axes)) ∧
    (allMasked a = true → Agrees spec a axes (a.reduce (fun xs => (f (raw xs), true)) axes)) ∧
    Agrees spec a axes (a.reduce mixed axes) := by
  refine ⟨fun h => ?_, fun h => ?_, ?_⟩
  · apply agrees_reduce; intro o ho
    rw [hspec]
    exact plain_spec f _ (Arr.lane_ne_nil a axes o hs) (lane_noMask a axes o h ho)
  · apply agrees_reduce; intro o ho
    rw [hspec]
    exact allmasked_spec f _ _ (lane_allMasked a axes o h ho)
  · apply agrees_reduce; intro o _
    exact hmixed _

/-- **sum**: every branch of `_mean_or_sum` agrees with the reference, for every array and every
    accepted axis argument -/
theorem sum_branches_agree (dflt : Int) (a : Arr (Cell Int)) (axis : Axis) (r : Arr (Out Int))
    (h : sumCode dflt a axis = .ok r) :
    Agrees (specRed npSum) a (normAxes a.shape.length axis) r := by
  unfold sumCode at h
  split at h
  · cases h
  · simp only at h
    by_cases hs : (size a.shape == 0) = true
    · rw [if_pos hs] at h; injection h with h; subst h
      exact agrees_zeroSized _ a _ dflt (by simpa using hs) rfl
    · rw [if_neg hs] at h
      have hs' : size a.shape ≠ 0 := by simpa using hs
      obtain ⟨h1, h2, h3⟩ := branches_core (specRed npSum) npSum (fun _ => rfl) a
        (normAxes a.shape.length axis) (sumMixed dflt) (sum_spec dflt) hs'
      by_cases ha : anyMasked a = true
      · simp only [ha, Bool.not_true, Bool.false_eq_true, if_false] at h
        by_cases hb : allMasked a = true
        · rw [if_pos hb] at h; injection h with h; subst h; exact h2 hb
        · rw [if_neg hb] at h
          by_cases hn : (axis == Axis.none) = true
          · rw [if_pos hn] at h
            have hax : axis = .none := by simpa using hn
            subst hax
            by_cases hsh : (a.shape == []) = true
            · rw [if_pos hsh] at h; injection h with h; subst h
              have hsh' : a.shape = [] := by simpa using hsh
              apply agrees_reduce; intro o _
              rw [Arr.lane_scalar a _ o hsh']
              have := selfLane_spec npSum (by intro v; simp [npSum]) (a.get [])
              exact this
            · rw [if_neg hsh] at h; injection h with h; subst h
              apply agrees_reduce; intro o _
              exact compress_spec npSum _ (lane_none_unm a o (by simpa using hb))
          · rw [if_neg hn] at h; injection h with h; subst h; exact h3
      · have ha' : anyMasked a = false := by simpa using ha
        simp only [ha', Bool.not_false, if_true] at h
        injection h with h; subst h; exact h1 ha'

/-- **mean** -/
theorem mean_branches_agree (dflt : Int) (a : Arr (Cell Int)) (axis : Axis) (r : Arr (Out (Int × Nat)))
    (h : meanCode dflt a axis = .ok r) :
    Agrees (specRed npMean) a (normAxes a.shape.length axis) r := by
  unfold meanCode at h
  split at h
  · cases h
  · simp only at h
    by_cases hs : (size a.shape == 0) = true
    · rw [if_pos hs] at h; injection h with h; subst h
      exact agrees_zeroSized _ a _ _ (by simpa using hs) rfl
    · rw [if_neg hs] at h
      have hs' : size a.shape ≠ 0 := by simpa using hs
      obtain ⟨h1, h2, h3⟩ := branches_core (specRed npMean) npMean (fun _ => rfl) a
        (normAxes a.shape.length axis) (meanMixed dflt) (mean_spec dflt) hs'
      by_cases ha : anyMasked a = true
      · simp only [ha, Bool.not_true, Bool.false_eq_true, if_false] at h
        by_cases hb : allMasked a = true
        · rw [if_pos hb] at h; injection h with h; subst h; exact h2 hb
        · rw [if_neg hb] at h
          by_cases hn : (axis == Axis.none) = true
          · rw [if_pos hn] at h
            have hax : axis = .none := by simpa using hn
            subst hax
            by_cases hsh : (a.shape == []) = true
            · rw [if_pos hsh] at h; injection h with h; subst h
              have hsh' : a.shape = [] := by simpa using hsh
              apply agrees_reduce; intro o _
              rw [Arr.lane_scalar a _ o hsh']
              obtain ⟨v, m⟩ := a.get []
              cases m <;> simp [raw, obs, specRed, unm, npMean, npSum]
            · rw [if_neg hsh] at h; injection h with h; subst h
              apply agrees_reduce; intro o _
              exact compress_spec npMean _ (lane_none_unm a o (by simpa using hb))
          · rw [if_neg hn] at h; injection h with h; subst h; exact h3
      · have ha' : anyMasked a = false := by simpa using ha
        simp only [ha', Bool.not_false, if_true] at h
        injection h with h; subst h; exact h1 ha'

/-- the stored values respect the dtype limits -/
def Bounded (lo hi : Int) (a : Arr (Cell Int)) : Prop := ∀ i, lo ≤ (a.get i).v ∧ (a.get i).v ≤ hi

theorem lane_bounded {lo hi : Int} {a : Arr (Cell Int)} (hb : Bounded lo hi a) (axes : List Nat) (o : Index) :
    ∀ c ∈ a.lane axes o, lo ≤ c.v ∧ c.v ≤ hi := by
  intro c hc
  simp only [Arr.lane, List.mem_map] at hc
  obtain ⟨r, _, rfl⟩ := hc
  exact hb _

/-- **max** -/
theorem max_branches_agree (minval maxval dflt : Int) (a : Arr (Cell Int)) (hb : Bounded minval maxval a)
    (axis : Axis) (r : Arr (Out Int)) (h : maxCode minval dflt a axis = .ok r) :
    Agrees (specRed npMax) a (normAxes a.shape.length axis) r := by
  unfold maxCode at h
  split at h
  · cases h
  · simp only at h
    by_cases hs : (size a.shape == 0) = true
    · rw [if_pos hs] at h; injection h with h; subst h
      exact agrees_zeroSized _ a _ dflt (by simpa using hs) rfl
    · rw [if_neg hs] at h
      have hs' : size a.shape ≠ 0 := by simpa using hs
      by_cases hsh : (a.shape == []) = true
      · rw [if_pos hsh] at h; injection h with h; subst h
        apply agrees_reduce; intro o _
        rw [Arr.lane_scalar a _ o (by simpa using hsh)]
        exact selfLane_spec npMax (by intro v; rfl) _
      · rw [if_neg hsh] at h
        have hspec : ∀ (o : Index), obs (maxMixed minval (a.lane (normAxes a.shape.length axis) o))
            = specRed npMax (a.lane (normAxes a.shape.length axis) o) :=
          fun o => max_spec minval _ (fun c hc _ => (lane_bounded hb _ o c hc).1)
        by_cases ha : anyMasked a = true
        · simp only [ha, Bool.not_true, Bool.false_eq_true, if_false] at h
          by_cases hb2 : allMasked a = true
          · rw [if_pos hb2] at h; injection h with h; subst h
            apply agrees_reduce; intro o ho
            exact allmasked_spec npMax _ _ (lane_allMasked a _ o hb2 ho)
          · rw [if_neg hb2] at h; injection h with h; subst h
            apply agrees_reduce; intro o _; exact hspec o
        · have ha' : anyMasked a = false := by simpa using ha
          simp only [ha', Bool.not_false, if_true] at h
          injection h with h; subst h
          apply agrees_reduce; intro o ho
          exact plain_spec npMax _ (Arr.lane_ne_nil a _ o hs') (lane_noMask a _ o ha' ho)

/-- **min** -/
theorem min_branches_agree (minval maxval dflt : Int) (a : Arr (Cell Int)) (hb : Bounded minval maxval a)
    (axis : Axis) (r : Arr (Out Int)) (h : minCode maxval dflt a axis = .ok r) :
    Agrees (specRed npMin) a (normAxes a.shape.length axis) r := by
  unfold minCode at h
  split at h
  · cases h
  · simp only at h
    by_cases hs : (size a.shape == 0) = true
    · rw [if_pos hs] at h; injection h with h; subst h
      exact agrees_zeroSized _ a _ dflt (by simpa using hs) rfl
    · rw [if_neg hs] at h
      have hs' : size a.shape ≠ 0 := by simpa using hs
      by_cases hsh : (a.shape == []) = true
      · rw [if_pos hsh] at h; injection h with h; subst h
        apply agrees_reduce; intro o _
        rw [Arr.lane_scalar a _ o (by simpa using hsh)]
        exact selfLane_spec npMin (by intro v; rfl) _
      · rw [if_neg hsh] at h
        have hspec : ∀ (o : Index), obs (minMixed maxval (a.lane (normAxes a.shape.length axis) o))
            = specRed npMin (a.lane (normAxes a.shape.length axis) o) :=
          fun o => min_spec maxval _ (fun c hc _ => (lane_bounded hb _ o c hc).2)
        by_cases ha : anyMasked a = true
        · simp only [ha, Bool.not_true, Bool.false_eq_true, if_false] at h
          by_cases hb2 : allMasked a = true
          · rw [if_pos hb2] at h; injection h with h; subst h
            apply agrees_reduce; intro o ho
            exact allmasked_spec npMin _ _ (lane_allMasked a _ o hb2 ho)
          · rw [if_neg hb2] at h; injection h with h; subst h
            apply agrees_reduce; intro o _; exact hspec o
        · have ha' : anyMasked a = false := by simpa using ha
          simp only [ha', Bool.not_false, if_true] at h
          injection h with h; subst h
          apply agrees_reduce; intro o ho
          exact plain_spec npMin _ (Arr.lane_ne_nil a _ o hs') (lane_noMask a _ o ha' ho)

/-- **median** (doubled values) -/
theorem median_branches_agree (minval maxval dflt2 : Int) (a : Arr (Cell Int)) (hb : Bounded minval maxval a)
    (axis : Axis) (r : Arr (Out Int)) (h : medianCode maxval dflt2 a axis = .ok r) :
    Agrees (specRed npMedian2) a (normAxes a.shape.length axis) r := by
  unfold medianCode at h
  split at h
  · cases h
  · simp only at h
    by_cases hs : (size a.shape == 0) = true
    · rw [if_pos hs] at h; injection h with h; subst h
      exact agrees_zeroSized _ a _ dflt2 (by simpa using hs) rfl
    · rw [if_neg hs] at h
      have hs' : size a.shape ≠ 0 := by simpa using hs
      by_cases hsh : (a.shape == []) = true
      · rw [if_pos hsh] at h; injection h with h; subst h
        apply agrees_reduce; intro o _
        rw [Arr.lane_scalar a _ o (by simpa using hsh)]
        obtain ⟨v, m⟩ := a.get []
        cases m
        · have hn : npSort [v] = [v] := by simp [npSort]
          simp [raw, obs, specRed, unm, npMedian2, hn]; omega
        · simp [obs, specRed, unm]
      · rw [if_neg hsh] at h
        by_cases ha : anyMasked a = true
        · simp only [ha, Bool.not_true, Bool.false_eq_true, if_false] at h
          by_cases hb2 : allMasked a = true
          · rw [if_pos hb2] at h; injection h with h; subst h
            apply agrees_reduce; intro o ho
            exact allmasked_spec npMedian2 _ _ (lane_allMasked a _ o hb2 ho)
          · rw [if_neg hb2] at h
            by_cases hn : (axis == Axis.none) = true
            · rw [if_pos hn] at h; injection h with h; subst h
              have hax : axis = .none := by simpa using hn
              subst hax
              apply agrees_reduce; intro o _
              exact compress_spec npMedian2 _ (lane_none_unm a o (by simpa using hb2))
            · rw [if_neg hn] at h; injection h with h; subst h
              apply agrees_reduce; intro o _
              exact median_spec maxval _ (fun c hc _ => (lane_bounded hb _ o c hc).2)
        · have ha' : anyMasked a = false := by simpa using ha
          simp only [ha', Bool.not_false, if_true] at h
          injection h with h; subst h
          apply agrees_reduce; intro o ho
          exact plain_spec npMedian2 _ (Arr.lane_ne_nil a _ o hs') (lane_noMask a _ o ha' ho)

/-- no stored value equals the fill extreme (the hypothesis of DESIGN §8.7) -/
def StrictlyInside (lo hi : Int) (a : Arr (Cell Int)) : Prop := ∀ i, lo < (a.get i).v ∧ (a.get i).v < hi

theorem lane_inside {lo hi : Int} {a : Arr (Cell Int)} (hb : StrictlyInside lo hi a) (axes : List Nat) (o : Index) :
    ∀ c ∈ a.lane axes o, lo < c.v ∧ c.v < hi := by
  intro c hc
  simp only [Arr.lane, List.mem_map] at hc
  obtain ⟨r, _, rfl⟩ := hc
  exact hb _

/-- **argmax** -/
theorem argmax_branches_agree (minval maxval : Int) (a : Arr (Cell Int)) (hb : StrictlyInside minval maxval a)
    (axis : Axis) (r : Arr (Out Nat)) (h : argmaxCode minval a axis = .ok r) :
    Agrees specArgmax a (normAxes a.shape.length axis) r := by
  unfold argmaxCode at h
  split at h
  · cases h
  · split at h
    · cases h
    · simp only at h
      by_cases hs : (size a.shape == 0) = true
      · rw [if_pos hs] at h; injection h with h; subst h
        exact agrees_zeroSized _ a _ 0 (by simpa using hs) rfl
      · rw [if_neg hs] at h
        have hs' : size a.shape ≠ 0 := by simpa using hs
        split at h
        · cases h
        · by_cases ha : anyMasked a = true
          · simp only [ha, Bool.not_true, Bool.false_eq_true, if_false] at h
            by_cases hb2 : allMasked a = true
            · rw [if_pos hb2] at h; injection h with h; subst h
              apply agrees_reduce; intro o ho
              rw [specArgmax_of_nil _ ((unm_eq_nil_iff _).2 (lane_allMasked a _ o hb2 ho))]; rfl
            · rw [if_neg hb2] at h; injection h with h; subst h
              apply agrees_reduce; intro o _
              exact argmax_spec minval _ (fun c hc _ => (lane_inside hb _ o c hc).1)
          · have ha' : anyMasked a = false := by simpa using ha
            simp only [ha', Bool.not_false, if_true] at h
            injection h with h; subst h
            apply agrees_reduce; intro o ho
            exact argmax_plain_spec _ (Arr.lane_ne_nil a _ o hs') (lane_noMask a _ o ha' ho)

/-- **argmin** -/
theorem argmin_branches_agree (minval maxval : Int) (a : Arr (Cell Int)) (hb : StrictlyInside minval maxval a)
    (axis : Axis) (r : Arr (Out Nat)) (h : argminCode maxval a axis = .ok r) :
    Agrees specArgmin a (normAxes a.shape.length axis) r := by
  unfold argminCode at h
  split at h
  · cases h
  · split at h
    · cases h
    · simp only at h
      by_cases hs : (size a.shape == 0) = true
      · rw [if_pos hs] at h; injection h with h; subst h
        exact agrees_zeroSized _ a _ 0 (by simpa using hs) rfl
      · rw [if_neg hs] at h
        have hs' : size a.shape ≠ 0 := by simpa using hs
        split at h
        · cases h
        · by_cases ha : anyMasked a = true
          · simp only [ha, Bool.not_true, Bool.false_eq_true, if_false] at h
            by_cases hb2 : allMasked a = true
            · rw [if_pos hb2] at h; injection h with h; subst h
              apply agrees_reduce; intro o ho
              rw [specArgmin_of_nil _ ((unm_eq_nil_iff _).2 (lane_allMasked a _ o hb2 ho))]; rfl
            · rw [if_neg hb2] at h; injection h with h; subst h
              apply agrees_reduce; intro o _
              exact argmin_spec maxval _ (fun c hc _ => (lane_inside hb _ o c hc).2)
          · have ha' : anyMasked a = false := by simpa using ha
            simp only [ha', Bool.not_false, if_true] at h
            injection h with h; subst h
            apply agrees_reduce; intro o ho
            exact argmin_plain_spec _ (Arr.lane_ne_nil a _ o hs') (lane_noMask a _ o ha' ho)

/-- **Vector / Matrix sum** -/
theorem vsum_branches_agree (isz : Nat) (dflt : List Int) (a : Arr (Cell (List Int))) (axis : Axis)
    (r : Arr (Out (List Int))) (h : vSumCode isz dflt a axis = .ok r)
    (hitem : a.shape = [] → (a.get []).v.length ≤ isz) :
    Agrees (specRed (vSum isz)) a (normAxes a.shape.length axis) r := by
  unfold vSumCode at h
  split at h
  · cases h
  · simp only at h
    by_cases hs : (size a.shape == 0) = true
    · rw [if_pos hs] at h; injection h with h; subst h
      exact agrees_zeroSized _ a _ dflt (by simpa using hs) rfl
    · rw [if_neg hs] at h
      have hs' : size a.shape ≠ 0 := by simpa using hs
      by_cases ha : anyMasked a = true
      · simp only [ha, Bool.not_true, Bool.false_eq_true, if_false] at h
        by_cases hb : allMasked a = true
        · rw [if_pos hb] at h; injection h with h; subst h
          apply agrees_reduce; intro o ho
          exact allmasked_spec (vSum isz) _ _ (lane_allMasked a _ o hb ho)
        · rw [if_neg hb] at h
          by_cases hn : (axis == Axis.none) = true
          · rw [if_pos hn] at h
            have hax : axis = .none := by simpa using hn
            subst hax
            by_cases hsh : (a.shape == []) = true
            · rw [if_pos hsh] at h; injection h with h; subst h
              have hsh' : a.shape = [] := by simpa using hsh
              apply agrees_reduce; intro o _
              rw [Arr.lane_scalar a _ o hsh']
              have hl := hitem hsh'
              revert hl
              obtain ⟨v, m⟩ := a.get []
              intro hl
              cases m
              · simp only [raw, obs, specRed, unm, List.map_cons, List.map_nil, List.headD_cons,
                  List.filter_cons, Bool.not_false, if_true, List.filter_nil]
                show some v = some (List.zipWith (· + ·) v (List.replicate isz 0))
                congr 1
                clear hsh hsh' hn hb ha hs hs' hitem
                induction v generalizing isz with
                | nil => simp
                | cons x v ih =>
                  cases isz with
                  | zero => simp at hl
                  | succ n =>
                    rw [List.replicate_succ, List.zipWith_cons_cons, ← ih n (by simpa using hl)]
                    simp
              · simp [obs, specRed, unm]
            · rw [if_neg hsh] at h; injection h with h; subst h
              apply agrees_reduce; intro o _
              exact compress_spec (vSum isz) _ (lane_none_unm a o (by simpa using hb))
          · rw [if_neg hn] at h; injection h with h; subst h
            apply agrees_reduce; intro o _
            exact vsum_spec isz dflt _
      · have ha' : anyMasked a = false := by simpa using ha
        simp only [ha', Bool.not_false, if_true] at h
        injection h with h; subst h
        apply agrees_reduce; intro o ho
        exact plain_spec (vSum isz) _ (Arr.lane_ne_nil a _ o hs') (lane_noMask a _ o ha' ho)

/-- **Vector / Matrix mean** -/
theorem vmean_branches_agree (isz : Nat) (dflt : List Int) (a : Arr (Cell (List Int))) (axis : Axis)
    (r : Arr (Out (List Int × Nat))) (h : vMeanCode isz dflt a axis = .ok r)
    (hitem : a.shape = [] → (a.get []).v.length ≤ isz) :
    Agrees (specRed (fun u => (vSum isz u, u.length))) a (normAxes a.shape.length axis) r := by
  unfold vMeanCode at h
  split at h
  · cases h
  · simp only at h
    by_cases hs : (size a.shape == 0) = true
    · rw [if_pos hs] at h; injection h with h; subst h
      exact agrees_zeroSized _ a _ _ (by simpa using hs) rfl
    · rw [if_neg hs] at h
      have hs' : size a.shape ≠ 0 := by simpa using hs
      by_cases ha : anyMasked a = true
      · simp only [ha, Bool.not_true, Bool.false_eq_true, if_false] at h
        by_cases hb : allMasked a = true
        · rw [if_pos hb] at h; injection h with h; subst h
          apply agrees_reduce; intro o ho
          exact allmasked_spec _ _ _ (lane_allMasked a _ o hb ho)
        · rw [if_neg hb] at h
          by_cases hn : (axis == Axis.none) = true
          · rw [if_pos hn] at h
            have hax : axis = .none := by simpa using hn
            subst hax
            by_cases hsh : (a.shape == []) = true
            · rw [if_pos hsh] at h; injection h with h; subst h
              have hsh' : a.shape = [] := by simpa using hsh
              apply agrees_reduce; intro o _
              rw [Arr.lane_scalar a _ o hsh']
              have hl := hitem hsh'
              revert hl
              obtain ⟨v, m⟩ := a.get []
              intro hl
              cases m
              · simp only [raw, obs, specRed, unm, List.map_cons, List.map_nil, List.headD_cons,
                  List.filter_cons, Bool.not_false, if_true, List.filter_nil, List.length_cons, List.length_nil]
                show some (v, 1) = some (List.zipWith (· + ·) v (List.replicate isz 0), 1)
                congr 2
                clear hsh hsh' hn hb ha hs hs' hitem
                induction v generalizing isz with
                | nil => simp
                | cons x v ih =>
                  cases isz with
                  | zero => simp at hl
                  | succ n =>
                    rw [List.replicate_succ, List.zipWith_cons_cons, ← ih n (by simpa using hl)]
                    simp
              · simp [obs, specRed, unm]
            · rw [if_neg hsh] at h; injection h with h; subst h
              apply agrees_reduce; intro o _
              exact compress_spec (fun u => (vSum isz u, u.length)) _ (lane_none_unm a o (by simpa using hb))
          · rw [if_neg hn] at h; injection h with h; subst h
            apply agrees_reduce; intro o _
            exact vmean_spec isz dflt _
      · have ha' : anyMasked a = false := by simpa using ha
        simp only [ha', Bool.not_false, if_true] at h
        injection h with h; subst h
        apply agrees_reduce; intro o ho
        have := plain_spec (fun u => (vSum isz u, u.length)) _ (Arr.lane_ne_nil a _ o hs') (lane_noMask a _ o ha' ho)
        rw [← this]; simp [raw]

/-- at array level: an output element is masked exactly when every element of its lane is -/
theorem agrees_masked_iff (f : List α → β) (a : Arr (Cell α)) (axes : List Nat) (r : Arr (Out β))
    (h : Agrees (specRed f) a axes r) (o : Index) (ho : Valid r.shape o) :
    (r.get o).2 = true ↔ ∀ c ∈ a.lane axes o, c.m = true := by
  rw [← masked_iff_all_masked f, ← h.2 o ho]
  unfold obs; cases (r.get o).2 <;> simp

/-- **derivatives are reduced alongside**: each derivative is reduced by the same rule -/
theorem derivs_reduced_alongside (dflt : Int) (a : Arr (Cell Int)) (derivs : List (Arr (Cell Int)))
    (axis : Axis) (r : Arr (Out Int)) (dr : List (Except Err (Arr (Out Int))))
    (h : sumWithDerivs dflt a derivs axis = .ok (r, dr)) :
    Agrees (specRed npSum) a (normAxes a.shape.length axis) r ∧
    dr.length = derivs.length ∧
    ∀ (k : Nat) (d : Arr (Cell Int)) (rd : Arr (Out Int)), derivs[k]? = some d → dr[k]? = some (.ok rd) →
      Agrees (specRed npSum) d (normAxes d.shape.length axis) rd := by
  unfold sumWithDerivs at h
  split at h
  · cases h
  · rename_i r0 hr0
    injection h with h
    injection h with h1 h2
    subst h1; subst h2
    refine ⟨sum_branches_agree dflt a axis _ hr0, by simp, ?_⟩
    intro k d rd hd hrd
    rw [List.getElem?_map, hd] at hrd
    simp only [Option.map_some, Option.some.injEq] at hrd
    exact sum_branches_agree dflt d axis rd hrd

theorem mean_derivs_reduced_alongside (dflt : Int) (a : Arr (Cell Int)) (derivs : List (Arr (Cell Int)))
    (axis : Axis) (r : Arr (Out (Int × Nat))) (dr : List (Except Err (Arr (Out (Int × Nat)))))
    (h : meanWithDerivs dflt a derivs axis = .ok (r, dr)) :
    Agrees (specRed npMean) a (normAxes a.shape.length axis) r ∧
    dr.length = derivs.length ∧
    ∀ (k : Nat) (d : Arr (Cell Int)) (rd : Arr (Out (Int × Nat))), derivs[k]? = some d → dr[k]? = some (.ok rd) →
      Agrees (specRed npMean) d (normAxes d.shape.length axis) rd := by
  unfold meanWithDerivs at h
  split at h
  · cases h
  · rename_i r0 hr0
    injection h with h
    injection h with h1 h2
    subst h1; subst h2
    refine ⟨mean_branches_agree dflt a axis _ hr0, by simp, ?_⟩
    intro k d rd hd hrd
    rw [List.getElem?_map, hd] at hrd
    simp only [Option.map_some, Option.some.injEq] at hrd
    exact mean_branches_agree dflt d axis rd hrd

/-! ### result shape and rejected axis arguments -/

/-- the result shape is the input shape with the reduced axes removed — for None, every in-range
    positive or negative axis and every tuple of distinct axes, zero-length axes included -/
theorem shape_spec (dflt : Int) (a : Arr (Cell Int)) (axis : Axis) (r : Arr (Out Int))
    (h : sumCode dflt a axis = .ok r) :
    r.shape = dropAxes (normAxes a.shape.length axis) a.shape := (sum_branches_agree dflt a axis r h).1

/-- … in particular a reduction over all axes returns shape (), also for a zero-sized operand -/
theorem shape_none (dflt : Int) (a : Arr (Cell Int)) (r : Arr (Out Int))
    (h : sumCode dflt a .none = .ok r) : r.shape = [] := by
  rw [shape_spec dflt a .none r h]; exact Arr.dropAxes_all a.shape
example : (zeroSized (1 : Int) [0, 3] [0]).shape = [3] := by decide
example : (zeroSized (1 : Int) [0, 3] [0, 1]).shape = [] := by decide

/-- accepted exactly for the legal axis arguments; everything else is an IndexError -/
theorem sum_accepts_iff (dflt : Int) (a : Arr (Cell Int)) (axis : Axis) :
    (∃ r, sumCode dflt a axis = .ok r) ↔ LegalAxis a.shape.length axis := by
  rw [← checkAxis_iff]
  unfold sumCode
  cases hc : checkAxis a.shape.length axis
  · simp
  · simp only [Bool.not_true, Bool.false_eq_true, if_false]
    constructor
    · intro _; trivial
    · intro _
      split
      · exact ⟨_, rfl⟩
      · split
        · exact ⟨_, rfl⟩
        · split
          · exact ⟨_, rfl⟩
          · split
            · split <;> exact ⟨_, rfl⟩
            · exact ⟨_, rfl⟩

theorem sum_rejects (dflt : Int) (a : Arr (Cell Int)) (axis : Axis) (h : ¬ LegalAxis a.shape.length axis) :
    sumCode dflt a axis = .error .index := by
  rw [← checkAxis_iff] at h
  unfold sumCode
  simp [h]

theorem max_rejects (minval dflt : Int) (a : Arr (Cell Int)) (axis : Axis) (h : ¬ LegalAxis a.shape.length axis) :
    maxCode minval dflt a axis = .error .index := by
  rw [← checkAxis_iff] at h; unfold maxCode; simp [h]
theorem min_rejects (maxval dflt : Int) (a : Arr (Cell Int)) (axis : Axis) (h : ¬ LegalAxis a.shape.length axis) :
    minCode maxval dflt a axis = .error .index := by
  rw [← checkAxis_iff] at h; unfold minCode; simp [h]
theorem mean_rejects (dflt : Int) (a : Arr (Cell Int)) (axis : Axis) (h : ¬ LegalAxis a.shape.length axis) :
    meanCode dflt a axis = .error .index := by
  rw [← checkAxis_iff] at h; unfold meanCode; simp [h]
theorem median_rejects (maxval dflt : Int) (a : Arr (Cell Int)) (axis : Axis) (h : ¬ LegalAxis a.shape.length axis) :
    medianCode maxval dflt a axis = .error .index := by
  rw [← checkAxis_iff] at h; unfold medianCode; simp [h]
theorem argmax_rejects (minval : Int) (a : Arr (Cell Int)) (axis : Axis) (h : ¬ LegalAxis a.shape.length axis) :
    argmaxCode minval a axis = .error .index := by
  rw [← checkAxis_iff] at h; unfold argmaxCode; simp [h]
theorem argmin_rejects (maxval : Int) (a : Arr (Cell Int)) (axis : Axis) (h : ¬ LegalAxis a.shape.length axis) :
    argminCode maxval a axis = .error .index := by
  rw [← checkAxis_iff] at h; unfold argminCode; simp [h]
theorem sort_rejects (maxval : Int) (rep : Rep) (a : Arr (Cell Int)) (axis : Axis)
    (h : ¬ LegalAxis a.shape.length axis) : sortCode maxval rep a axis = .error .index := by
  rw [← checkAxis_iff] at h; unfold sortCode; simp [h]

/-- … and every legal axis argument is accepted -/
theorem mean_accepts (dflt : Int) (a : Arr (Cell Int)) (axis : Axis) (h : LegalAxis a.shape.length axis) :
    ∃ r, meanCode dflt a axis = .ok r := by
  rw [← checkAxis_iff] at h; unfold meanCode
  simp only [h, Bool.not_true, Bool.false_eq_true, if_false]
  repeat' split
  all_goals exact ⟨_, rfl⟩
theorem max_accepts (minval dflt : Int) (a : Arr (Cell Int)) (axis : Axis) (h : LegalAxis a.shape.length axis) :
    ∃ r, maxCode minval dflt a axis = .ok r := by
  rw [← checkAxis_iff] at h; unfold maxCode
  simp only [h, Bool.not_true, Bool.false_eq_true, if_false]
  repeat' split
  all_goals exact ⟨_, rfl⟩
theorem min_accepts (maxval dflt : Int) (a : Arr (Cell Int)) (axis : Axis) (h : LegalAxis a.shape.length axis) :
    ∃ r, minCode maxval dflt a axis = .ok r := by
  rw [← checkAxis_iff] at h; unfold minCode
  simp only [h, Bool.not_true, Bool.false_eq_true, if_false]
  repeat' split
  all_goals exact ⟨_, rfl⟩
theorem median_accepts (maxval dflt : Int) (a : Arr (Cell Int)) (axis : Axis) (h : LegalAxis a.shape.length axis) :
    ∃ r, medianCode maxval dflt a axis = .ok r := by
  rw [← checkAxis_iff] at h; unfold medianCode
  simp only [h, Bool.not_true, Bool.false_eq_true, if_false]
  repeat' split
  all_goals exact ⟨_, rfl⟩

/-- argmax / argmin return a result exactly for a legal axis argument on an object that is not of
    shape (), the axis being an integer or None (NumPy's `argmax` takes no tuple) unless the object is
    zero-sized (then NumPy is never reached) -/
theorem argmax_accepts_iff (minval : Int) (a : Arr (Cell Int)) (axis : Axis) :
    (∃ r, argmaxCode minval a axis = .ok r) ↔
      LegalAxis a.shape.length axis ∧ a.shape ≠ [] ∧ (size a.shape = 0 ∨ argAxisOk axis = true) := by
  rw [← checkAxis_iff]
  unfold argmaxCode
  cases hc : checkAxis a.shape.length axis
  · simp
  · simp only [Bool.not_true, Bool.false_eq_true, if_false, true_and]
    by_cases hsh : a.shape = []
    · simp [hsh]
    · have : (a.shape == []) = false := by simpa using hsh
      simp only [this, Bool.false_eq_true, if_false]
      by_cases hs : size a.shape = 0
      · simp [hs, hsh]
      · have : (size a.shape == 0) = false := by simpa using hs
        simp only [this, Bool.false_eq_true, if_false]
        cases hk : argAxisOk axis
        · simp [hs]
        · simp only [Bool.not_true, Bool.false_eq_true, if_false]
          refine ⟨fun _ => ⟨hsh, Or.inr trivial⟩, fun _ => ?_⟩
          repeat' split
          all_goals exact ⟨_, rfl⟩

theorem argmin_accepts_iff (maxval : Int) (a : Arr (Cell Int)) (axis : Axis) :
    (∃ r, argminCode maxval a axis = .ok r) ↔
      LegalAxis a.shape.length axis ∧ a.shape ≠ [] ∧ (size a.shape = 0 ∨ argAxisOk axis = true) := by
  rw [← checkAxis_iff]
  unfold argminCode
  cases hc : checkAxis a.shape.length axis
  · simp
  · simp only [Bool.not_true, Bool.false_eq_true, if_false, true_and]
    by_cases hsh : a.shape = []
    · simp [hsh]
    · have : (a.shape == []) = false := by simpa using hsh
      simp only [this, Bool.false_eq_true, if_false]
      by_cases hs : size a.shape = 0
      · simp [hs, hsh]
      · have : (size a.shape == 0) = false := by simpa using hs
        simp only [this, Bool.false_eq_true, if_false]
        cases hk : argAxisOk axis
        · simp [hs]
        · simp only [Bool.not_true, Bool.false_eq_true, if_false]
          refine ⟨fun _ => ⟨hsh, Or.inr trivial⟩, fun _ => ?_⟩
          repeat' split
          all_goals exact ⟨_, rfl⟩

/-- what is rejected, and how: shape () ⇒ ValueError, tuple axis ⇒ TypeError (NumPy's) -/
theorem argmax_scalar_rejected (minval : Int) (a : Arr (Cell Int)) (axis : Axis)
    (hl : LegalAxis a.shape.length axis) (h : a.shape = []) : argmaxCode minval a axis = .error .value := by
  rw [← checkAxis_iff] at hl; unfold argmaxCode
  rw [hl]; simp [h]

/-- sort returns a result exactly for a legal axis argument that is an integer or None (or any
    legal one when the object is zero-sized) -/
theorem sort_accepts_iff (maxval : Int) (rep : Rep) (a : Arr (Cell Int)) (axis : Axis) :
    (∃ r, sortCode maxval rep a axis = .ok r) ↔
      LegalAxis a.shape.length axis ∧ (size a.shape = 0 ∨ argAxisOk axis = true) := by
  rw [← checkAxis_iff]
  unfold sortCode
  cases hc : checkAxis a.shape.length axis
  · simp
  · simp only [Bool.not_true, Bool.false_eq_true, if_false, true_and]
    by_cases hs : size a.shape = 0
    · simp [hs]
    · have : (size a.shape == 0) = false := by simpa using hs
      simp only [this, Bool.false_eq_true, if_false]
      cases axis with
      | none => simp [argAxisOk]
      | int ax => simp [argAxisOk]
      | tup l => simp [argAxisOk, hs]

/-- `any` / `all` rely on NumPy's own validation: they return a result exactly for a shape-() object
    (the axis is not looked at) or a legal axis argument; an out-of-range entry gives AxisError
    (IndexError), a repeated axis ValueError -/
theorem any_accepts_iff (rep : Rep) (a : Arr (Cell Bool)) (axis : Axis) :
    (∃ r, anyCode rep a axis = .ok r) ↔ a.shape = [] ∨ LegalAxis a.shape.length axis := by
  rw [← npCheckAxis_ok_iff]
  unfold anyCode
  by_cases hsh : a.shape = []
  · simp [hsh]
  · have : (a.shape == []) = false := by simpa using hsh
    simp only [this, Bool.false_eq_true, if_false, hsh, false_or]
    cases hc : npCheckAxis a.shape.length axis with
    | ok u => simp
    | error e => simp

theorem all_accepts_iff (rep : Rep) (a : Arr (Cell Bool)) (axis : Axis) :
    (∃ r, allCode rep a axis = .ok r) ↔ a.shape = [] ∨ LegalAxis a.shape.length axis := by
  rw [← npCheckAxis_ok_iff]
  unfold allCode
  by_cases hsh : a.shape = []
  · simp [hsh]
  · have : (a.shape == []) = false := by simpa using hsh
    simp only [this, Bool.false_eq_true, if_false, hsh, false_or]
    cases hc : npCheckAxis a.shape.length axis with
    | ok u => simp
    | error e => simp

theorem any_rejects_out_of_range (rep : Rep) (a : Arr (Cell Bool)) (l : List Int) (hsh : a.shape ≠ [])
    (h : ∃ x ∈ l, ¬ InRange a.shape.length x) : anyCode rep a (.tup l) = .error .index := by
  have := (npCheckAxis_index_iff a.shape.length l).2 h
  unfold anyCode
  have hs : (a.shape == []) = false := by simpa using hsh
  simp [hs, this]

theorem any_rejects_repeated (rep : Rep) (a : Arr (Cell Bool)) (l : List Int) (hsh : a.shape ≠ [])
    (h1 : ∀ x ∈ l, InRange a.shape.length x) (h2 : ¬ (l.map (normAx a.shape.length)).Nodup) :
    anyCode rep a (.tup l) = .error .value := by
  have := (npCheckAxis_value_iff a.shape.length l).2 ⟨h1, h2⟩
  unfold anyCode
  have hs : (a.shape == []) = false := by simpa using hsh
  simp [hs, this]

/-- legal axis arguments name pairwise distinct in-range axes -/
theorem legal_axes_distinct (rank : Nat) (axis : Axis) (h : LegalAxis rank axis) :
    (normAxes rank axis).Nodup ∧ ∀ k ∈ normAxes rank axis, k < rank := normAxes_legal rank axis h

example : LegalAxis 3 (.tup [-1, 0]) := by decide
example : ¬ LegalAxis 2 (.tup [0, -2]) := by decide
example : ¬ LegalAxis 2 (.int 2) := by decide

/-! ### sort on whole arrays -/

theorem getD_map_obs (l : List (Out Int)) (j : Nat) :
    obs (l.getD j (0, true)) = (l.map obs).getD j none := by
  simp only [List.getD_eq_getElem?_getD, List.getElem?_map]
  cases l[j]? <;> rfl

/-- the mask representation is consistent with the cells -/
def RepOk (rep : Rep) (a : Arr (Cell Int)) : Prop :=
  match rep with
  | .scalar b => ∀ c ∈ a.toList, c.m = b
  | .array => True

theorem sortKernel_spec (maxval minval : Int) (rep : Rep) (a : Arr (Cell Int)) (_hb : Bounded minval maxval a)
    (hrep : RepOk rep a) (xs : List (Cell Int)) (hsub : ∀ c ∈ xs, c ∈ a.toList)
    (hbx : ∀ c ∈ xs, c.v ≤ maxval) :
    ((if !anyMasked a then sortPlain else sortMasked maxval rep) xs).map obs = specSort xs := by
  by_cases ha : anyMasked a = true
  · simp only [ha, Bool.not_true, Bool.false_eq_true, if_false]
    cases rep with
    | array => exact sort_spec maxval xs (fun c hc _ => hbx c hc)
    | scalar b =>
      cases b
      · -- scalar False contradicts "some element is masked"
        exfalso
        unfold anyMasked at ha
        rw [List.any_eq_true] at ha
        obtain ⟨c, hc, hm⟩ := ha
        have := hrep c hc
        rw [this] at hm; cases hm
      · exact sortMasked_scalar_true_spec maxval xs (fun c hc => hrep c (hsub c hc))
  · have ha' : anyMasked a = false := by simpa using ha
    simp only [ha', Bool.not_false, if_true]
    apply sortPlain_spec
    intro c hc
    unfold anyMasked at ha'
    rw [List.any_eq_false] at ha'
    simpa using ha' c (hsub c hc)

/-- **sort** along an integer axis: every lane along that axis is the sorted unmasked values
    followed by masked entries; the shape is unchanged -/
theorem sort_branches_agree (minval maxval : Int) (rep : Rep) (a : Arr (Cell Int))
    (hb : Bounded minval maxval a) (hrep : RepOk rep a) (ax : Int) (r : Arr (Out Int))
    (h : sortCode maxval rep a (.int ax) = .ok r) :
    r.shape = a.shape ∧
    ∀ i, Valid a.shape i →
      obs (r.get i) = (specSort (a.lane [normAx a.shape.length ax] (dropAt (normAx a.shape.length ax) i))).getD
                        (i.getD (normAx a.shape.length ax) 0) none := by
  unfold sortCode at h
  split at h
  · cases h
  · by_cases hs : (size a.shape == 0) = true
    · rw [if_pos hs] at h; injection h with h; subst h
      refine ⟨by simp, ?_⟩
      intro i hi
      exfalso
      have : i ∈ indices a.shape := (mem_indices_iff _ _).2 hi
      rw [indices_eq_nil _ (by simpa using hs)] at this; cases this
    · rw [if_neg hs] at h
      simp only at h
      injection h with h; subst h
      refine ⟨rfl, ?_⟩
      intro i hi
      show obs (List.getD _ _ (0, true)) = _
      rw [getD_map_obs]
      have hv : Valid (dropAxes [normAx a.shape.length ax] a.shape) (dropAt (normAx a.shape.length ax) i) :=
        valid_dropFrom _ 0 _ _ hi
      unfold normAx at hv ⊢
      rw [sortKernel_spec maxval minval rep a hb hrep _ (Arr.lane_subset a _ _ hv)
        (fun c hc => (lane_bounded hb _ _ c hc).2)]

/-- **sort** with axis=None: the flattened array, sorted -/
theorem sort_none_agrees (minval maxval : Int) (rep : Rep) (a : Arr (Cell Int))
    (hb : Bounded minval maxval a) (hrep : RepOk rep a) (hs : size a.shape ≠ 0) (r : Arr (Out Int))
    (h : sortCode maxval rep a .none = .ok r) :
    r.shape = [size a.shape] ∧ ∀ j, obs (r.get [j]) = (specSort a.toList).getD j none := by
  unfold sortCode at h
  simp only [checkAxis, Bool.not_true, Bool.false_eq_true, if_false] at h
  have hs' : (size a.shape == 0) = false := by simpa using hs
  rw [hs'] at h
  simp only [Bool.false_eq_true, if_false] at h
  injection h with h; subst h
  refine ⟨rfl, ?_⟩
  intro j
  show obs (List.getD _ _ (0, true)) = _
  rw [getD_map_obs, Arr.lane_all]
  rw [sortKernel_spec maxval minval rep a hb hrep _ (fun c hc => hc)
    (fun c hc => by
      simp only [Arr.toList, List.mem_map] at hc
      obtain ⟨i, _, rfl⟩ := hc
      exact (hb i).2)]
  rfl

/-! ### any / all on whole arrays -/

def BRepOk (rep : Rep) (a : Arr (Cell Bool)) : Prop :=
  match rep with
  | .scalar b => ∀ c ∈ a.toList, c.m = b
  | .array => True

/-- one lane, every representation; the scalar-False representation needs a non-empty lane -/
theorem anyLane_spec (rep : Rep) (xs : List (Cell Bool)) (hok : Rep.ok rep xs)
    (hne : rep = .scalar false → xs ≠ []) : obs (anyLane rep xs) = specRed npAny xs := by
  cases rep with
  | array => exact any_spec xs
  | scalar b =>
    cases b
    · have := plain_spec npAny xs (hne rfl) hok
      rw [← this]; simp [anyLane, any_raw]
    · exact allmasked_spec npAny _ xs hok

theorem allLane_spec (rep : Rep) (xs : List (Cell Bool)) (hok : Rep.ok rep xs)
    (hne : rep = .scalar false → xs ≠ []) : obs (allLane rep xs) = specRed npAll xs := by
  cases rep with
  | array => exact all_spec xs
  | scalar b =>
    cases b
    · have := plain_spec npAll xs (hne rfl) hok
      rw [← this]; simp [allLane, all_raw]
    · exact allmasked_spec npAll _ xs hok

-- FULL: any_branches_agree without the hypothesis `hcorner` (every representation, every shape).
-- False on the code as it stands: see `any_empty_lane_counterexample` and known finding KF-C13-1.
/-- **any**: all representations agree with the reference, except for empty lanes under the
    scalar mask False -/
theorem any_branches_agree_partial (rep : Rep) (a : Arr (Cell Bool)) (hrep : BRepOk rep a) (axis : Axis)
    (r : Arr (Out Bool)) (hsh : a.shape ≠ []) (hcorner : rep = .scalar false → size a.shape ≠ 0)
    (h : anyCode rep a axis = .ok r) :
    Agrees (specRed npAny) a (normAxes a.shape.length axis) r := by
  unfold anyCode at h
  have : (a.shape == []) = false := by simpa using hsh
  rw [this] at h
  simp only [Bool.false_eq_true, if_false] at h
  split at h
  · cases h
  · injection h with h; subst h
    apply agrees_reduce; intro o ho
    apply anyLane_spec
    · cases rep with
      | array => trivial
      | scalar b => exact fun c hc => hrep c (Arr.lane_subset a _ o ho c hc)
    · intro e; exact Arr.lane_ne_nil a _ o (hcorner e)

theorem all_branches_agree_partial (rep : Rep) (a : Arr (Cell Bool)) (hrep : BRepOk rep a) (axis : Axis)
    (r : Arr (Out Bool)) (hsh : a.shape ≠ []) (hcorner : rep = .scalar false → size a.shape ≠ 0)
    (h : allCode rep a axis = .ok r) :
    Agrees (specRed npAll) a (normAxes a.shape.length axis) r := by
  unfold allCode at h
  have : (a.shape == []) = false := by simpa using hsh
  rw [this] at h
  simp only [Bool.false_eq_true, if_false] at h
  split at h
  · cases h
  · injection h with h; subst h
    apply agrees_reduce; intro o ho
    apply allLane_spec
    · cases rep with
      | array => trivial
      | scalar b => exact fun c hc => hrep c (Arr.lane_subset a _ o ho c hc)
    · intro e; exact Arr.lane_ne_nil a _ o (hcorner e)

/-- the corner: an empty lane under the scalar mask False comes back unmasked (KF-C13-1) -/
theorem any_empty_lane_counterexample :
    obs (anyLane (.scalar false) []) ≠ specRed npAny [] ∧ obs (anyLane .array []) = specRed npAny [] := by
  decide
theorem all_empty_lane_counterexample :
    obs (allLane (.scalar false) []) ≠ specRed npAll [] ∧ obs (allLane .array []) = specRed npAll [] := by
  decide

/-- a shape-() Boolean: `any`/`all` return the element itself -/
theorem any_scalar_shape (rep : Rep) (a : Arr (Cell Bool)) (axis : Axis) (h : a.shape = []) :
    ∃ r, anyCode rep a axis = .ok r ∧ r.shape = [] ∧
      obs (r.get []) = specRed npAny [a.get []] := by
  refine ⟨a.map fun c => (c.v, c.m), ?_, h, ?_⟩
  · unfold anyCode; simp [h]
  · show obs ((a.get []).v, (a.get []).m) = _
    obtain ⟨v, m⟩ := a.get []
    cases m <;> cases v <;> rfl

/-! ### `builtins=True`, units, operands of different shapes -/

/-- a Python value is returned only for a single unmasked, unit-less element, and it is that element -/
theorem builtin_py (hasUnits mg : Bool) (r : Arr (Out β)) (v : β) (h : asBuiltin hasUnits mg r = .py v) :
    r.shape = [] ∧ obs (r.get []) = some v ∧ hasUnits = false := by
  unfold asBuiltin at h
  split at h
  · cases h
  · split at h
    · cases h
    · rename_i hsh
      have hsh' : r.shape = [] := by simpa using hsh
      cases hm : (r.get []).2
      · rw [hm] at h
        simp only [Bool.false_eq_true, if_false] at h
        cases hu : hasUnits
        · rw [hu] at h
          simp only [Bool.false_eq_true, if_false] at h
          injection h with h
          refine ⟨hsh', ?_, rfl⟩
          unfold obs; rw [hm, h]
        · rw [hu] at h; simp at h
      · rw [hm] at h
        simp only [if_true] at h
        split at h <;> cases h

/-- otherwise the object itself comes back, unchanged … -/
theorem builtin_obj (hasUnits mg : Bool) (r r' : Arr (Out β)) (h : asBuiltin hasUnits mg r = .obj r') :
    r'.shape = r.shape ∧ r'.get = r.get := by
  unfold asBuiltin at h
  repeat' split at h
  all_goals first | (cases h; exact ⟨rfl, rfl⟩) | cases h

/-- … or the caller's `masked=` value, and that only when there is nothing unmasked to report -/
theorem builtin_maskedArg (hasUnits mg : Bool) (r : Arr (Out β)) (h : asBuiltin hasUnits mg r = .maskedArg) :
    size r.shape = 0 ∨ (r.shape = [] ∧ obs (r.get []) = none ∧ mg = true) := by
  unfold asBuiltin at h
  split at h
  · rename_i hs; left; simpa using hs
  · split at h
    · cases h
    · rename_i hsh
      right
      have hsh' : r.shape = [] := by simpa using hsh
      cases hm : (r.get []).2
      · rw [hm] at h
        simp only [Bool.false_eq_true, if_false] at h
        split at h <;> cases h
      · rw [hm] at h
        simp only [if_true] at h
        cases hg : mg
        · rw [hg] at h; simp at h
        · exact ⟨hsh', by unfold obs; rw [hm], rfl⟩

/-- and a single unmasked unit-less element always becomes a Python value -/
theorem builtin_single (mg : Bool) (r : Arr (Out β)) (v : β) (hs : r.shape = [])
    (hv : obs (r.get []) = some v) : asBuiltin false mg r = .py v := by
  unfold asBuiltin
  have h1 : (size r.shape == 0) = false := by rw [hs]; rfl
  have h2 : (r.shape != []) = false := by rw [hs]; rfl
  unfold obs at hv
  cases hm : (r.get []).2
  · rw [hm] at hv
    simp only [Option.some.injEq] at hv
    simp [h1, h2, hm, hv]
  · rw [hm] at hv; cases hv

/-- units: kept by the value reductions, none for index and Boolean results -/
theorem units_spec {U : Type} (u : Option U) :
    resultUnits .value u = u ∧ resultUnits .index u = none ∧ resultUnits .bool u = none := ⟨rfl, rfl, rfl⟩

/-- `Scalar.maximum` on operands of any shapes: rejected (ValueError) exactly when there is no operand
    or the shapes do not broadcast; otherwise the result has NumPy's broadcast shape and every element is
    the maximum of the unmasked candidates found at the projected indices -/
theorem maximum_arr_spec (args : List (Arr (Cell Int))) (r : Arr (Cell Int))
    (h : maximumArr maximumCode args = .ok r) :
    args ≠ [] ∧ bcastAll (args.map (·.shape)) = some r.shape ∧
    ∀ i, cellObs (r.get i) = specRed npMax (args.map fun a => a.get (bidx a.shape i)) := by
  unfold maximumArr at h
  cases args with
  | nil => cases h
  | cons a as =>
    simp only at h
    split at h
    · cases h
    · rename_i out hout
      injection h with h; subst h
      refine ⟨by simp, hout, ?_⟩
      intro i
      have := maximum_spec (a.get (bidx a.shape i)) (as.map fun b => b.get (bidx b.shape i))
      simp only [Arr.bto, List.map_cons] at this ⊢
      cases hc : maximumCode (a.get (bidx a.shape i) :: as.map fun b => b.get (bidx b.shape i)) with
      | none => rw [hc] at this; cases this
      | some c =>
        rw [hc] at this
        simp only [Option.map_some, Option.some.injEq] at this
        exact this

theorem minimum_arr_spec (args : List (Arr (Cell Int))) (r : Arr (Cell Int))
    (h : maximumArr minimumCode args = .ok r) :
    args ≠ [] ∧ bcastAll (args.map (·.shape)) = some r.shape ∧
    ∀ i, cellObs (r.get i) = specRed npMin (args.map fun a => a.get (bidx a.shape i)) := by
  unfold maximumArr at h
  cases args with
  | nil => cases h
  | cons a as =>
    simp only at h
    split at h
    · cases h
    · rename_i out hout
      injection h with h; subst h
      refine ⟨by simp, hout, ?_⟩
      intro i
      have := minimum_spec (a.get (bidx a.shape i)) (as.map fun b => b.get (bidx b.shape i))
      simp only [Arr.bto, List.map_cons] at this ⊢
      cases hc : minimumCode (a.get (bidx a.shape i) :: as.map fun b => b.get (bidx b.shape i)) with
      | none => rw [hc] at this; cases this
      | some c =>
        rw [hc] at this
        simp only [Option.map_some, Option.some.injEq] at this
        exact this

theorem maximum_arr_rejects_iff (step : List (Cell Int) → Option (Cell Int)) (args : List (Arr (Cell Int))) :
    maximumArr step args = .error .value ↔ args = [] ∨ bcastAll (args.map (·.shape)) = none := by
  unfold maximumArr
  cases args with
  | nil => simp
  | cons a as =>
    simp only
    cases hb : bcastAll ((a :: as).map (·.shape)) <;> simp

/-- two operands: the common shape is NumPy's broadcast of the two, and a valid result index projects
    onto valid indices of both operands -/
theorem bcastAll_pair (s t : Shape) : bcastAll [s, t] = bcast s t := by
  simp [bcastAll, bcast_nil_right]

theorem maximum2_indices_valid (s t out : Shape) (i : Index) (h : bcastAll [s, t] = some out)
    (hv : Valid out i) : Valid s (bidx s i) ∧ Valid t (bidx t i) := by
  rw [bcastAll_pair] at h
  exact ⟨bidx_valid h hv, bidx_valid_right h hv⟩

/-- any number of operands: a valid index of the result projects onto a valid index of every operand,
    so `maximum_arr_spec` reads each operand inside its own bounds -/
theorem maximum_indices_valid (step : List (Cell Int) → Option (Cell Int)) (args : List (Arr (Cell Int)))
    (r : Arr (Cell Int)) (h : maximumArr step args = .ok r) (i : Index) (hv : Valid r.shape i) :
    ∀ a ∈ args, Valid a.shape (bidx a.shape i) := by
  unfold maximumArr at h
  cases args with
  | nil => cases h
  | cons a0 as =>
    simp only at h
    split at h
    · cases h
    · rename_i out hout
      injection h with h; subst h
      intro a ha
      exact bcastAll_bidx_valid _ out i hout hv a.shape (List.mem_map.2 ⟨a, ha, rfl⟩)

example : bcastAll [[2, 1], [3], []] = some [2, 3] := by decide
example : bcastAll [[2], [3]] = none := by decide

end PMV.Reduce
